#!/usr/bin/env python3
"""py2gallina_pubsub.py -- regenerate the Gallina text of the publish/subscribe model from the source.

Reads  $VERIF_REPO/src/pydsol/core/pubsub.py  (default /repo) with Python's `ast` module -- the
module under test is never imported; CRLF line ends are normalised -- and translates the bodies of
the methods listed in METHODS into Gallina definitions  gen_<Class>_<method>  over the value
universe of the hand-written models coq/PubSub/Model.v and coq/PubSub/TypeModel.v.
coq/PubSub/GenAgree.v then proves every generated definition equal to the hand-written model.

The translation is a shallow embedding and FAIL-CLOSED: a construct outside the subset below ends
the run with exit status 2 and `file:line: unsupported construct: ...`.  Nothing is skipped or
guessed.  With --keep-going (checks only) the method concerned -- and every method that calls it --
is left out and reported; the exit status is non-zero all the same.

Supported subset
  statements   docstring; `if / elif / else`; `raise EventError(<text>)`; `return` (bare; `return e`
               only as the whole body of has_listeners); `pass`; `x = e`, `self._x = e`,
               `self._x: T = e`; `self._listeners[k] = []`; `del self._listeners[k]`;
               `self._listeners.clear()`; `self._listeners[k].append(x)` / `.remove(x)`;
               `EventType.__defined_types.add(key)`; `self.m(..)`, `super().__init__(..)`,
               `x = Event(..)` / `TimedEvent(..)`; `logger.<level>(..)` (no effect);
               `for x in <iterable>:` in three shapes (see below)
  expressions  parameters, locals, `None`, `[]`, `dict()`, `self._listeners`, `self._x`;
               `d.get(k)`, `d.get(k, None)`, `d[k]`, `d.keys()`, `list(..)`, `dict(..)`, `.copy()`,
               `len(..)`; properties of EventType / Event / TimedEvent that are `return self._x`;
               `isinstance(x, C)`, `==`/`!=`/`is`/`is not` None, `in` / `not in`, comparisons of
               lengths with each other or a literal, `and` / `or` / `not`, truth value of a bool, a
               list, the listener map, a metadata dict;
               `inspect.stack()[1][0].f_code.co_name` (the defining site), `site + "." + name`
  also         `return` in constructors; `continue` and local assignments in a check loop; `bool(x)`, `x if c else y`
               between numbers / bools; `{}`; `d.setdefault(k, [])`, `d.pop(k)`, `d.pop(k, None)`, `self._listeners = {}`;
               `k in d.keys()`, `list(d)`, `for k in <metadata>:`; a local name for a list stored in the listener map
               (`l = d[k]`, `l = d.get(k)`, `l = d.setdefault(k, [])`); calls of PRIVATE HELPERS -- methods of the same
               class (or its modelled base) and module-level functions that are not translated methods -- which are
               inlined at the call site
Shape does not matter (normalisation before anything is emitted)
  * `not` / `and` / `or` in the test of an `if` statement become nested ifs with the branches repeated (short-circuit
    order kept), so guard clauses with early `return`, nested if/else and De Morgan variants give the same paths;
  * a helper called as a statement is translated in place with its parameters bound to the (pure) arguments; `return`
    inside it continues after the call; a helper used as a value / test must be one `return <expression>`; refused with
    file:line: recursion, *args / **kwargs / keyword-only parameters, decorators other than @staticmethod, defaults other
    than None / True / False, the listener map or a stored list passed as an argument;
  * a local bound to a pure expression is substituted; a local name for a stored list is read through the map as it is at
    each use and dies (use refused) as soon as the entry may have been replaced or dropped (item assignment, del, pop,
    clear, a call of another method, a notification);
  * a path on which the tests contradict each other cannot be taken: nothing has to be established on it.
Meaning given to them
  * every `if` duplicates the rest of the method on both paths, so what a test establishes
    (isinstance, None-ness, `k in d`, `x in d[k]`) is known on its path; a parameter is used as an
    EventType / listener / event / dict only where the tests before establish that it is one;
    `d[k]`, `del d[k]`, `d[k].append` need `k in d` established (KeyError otherwise -> unsupported),
    `.remove(x)` needs `x in d[k]` established, `.copy()` needs a list (not the None of `d.get`);
  * the listener map `dict[EventType, list]` is the model's association list in insertion order:
    `d[k] = v` replaces in place or appends at the end, `del` removes the entry, a method call on
    `d[k]` updates the stored list;
  * `raise EventError(..)` becomes the refusal kind named by the tests it stands under, the innermost / last
    evaluated one that names a refusal deciding (table in classify_raise): which isinstance / length / None /
    registry test failed.  The kind is a label of the model only (every kind is an EventError in Python): a label
    the hand-written model does not give makes the agreement proof fail, it cannot make it succeed wrongly;
  * loops:  (check)  `for k in <metadata>.keys(): if ..: raise ..`  -> first refusal, in order;
            (mutate) `for et in list(self._listeners.keys()): self.m(et, ..)` -> fold over the
                     SNAPSHOT of the keys, threading the map;
            (notify) `for l in <list>: l.notify(event)` -> the model's delivery fold when <list> is a
                     snapshot (`.copy()`, `list(..)`), and an index-based loop that re-reads the
                     stored list after every notification when <list> is the stored list itself;
    iterating the live key view of the listener map with a mutating body is unsupported;
  * a method that notifies gets the ghost bookkeeping of the model (invocation number, start /
    done markers) right after its leading argument guards; notify must be given the method's own
    event argument;
  * constructors build the model's record from the attributes assigned (`_event_type`, `_content`,
    `_timestamp`; `_defining_class`, `_name`, `_metadata`); `self.m()` / `super().__init__()` /
    `Event(..)` are resolved statically.

Trusted (joins the trusted base of C08): this file -- the subset semantics above -- and its tables
SIG (value universe and default of every parameter), the refusal kinds, the property resolution.

usage: py2gallina_pubsub.py [--out DIR [--keep-going]]
       default DIR: <verif>/coq/PubSub, file Gen_PubSub.v; with --out also Gen_PubSub.json.
"""
from __future__ import annotations

import ast
import hashlib
import json
import os
import sys
import warnings
from pathlib import Path

VERIF = Path(__file__).resolve().parent.parent
REPO = Path(os.environ.get("VERIF_REPO", "/repo"))
SRC = REPO / "src" / "pydsol" / "core" / "pubsub.py"
REL = "src/pydsol/core/pubsub.py"

# (class, method, mode) in dependency order
METHODS = [
    ("EventType", "__init__", "ctor_et"),
    ("Event", "__init__", "ctor_ev"),
    ("TimedEvent", "__init__", "ctor_ev"),
    ("EventProducer", "__init__", "ctor_prod"),
    ("EventProducer", "add_listener", "map"),
    ("EventProducer", "remove_listener", "map"),
    ("EventProducer", "remove_all_listeners", "map"),
    ("EventProducer", "has_listeners", "get"),
    ("EventProducer", "fire_event", "fire"),
    ("EventProducer", "fire", "fire"),
    ("EventProducer", "fire_timed_event", "fire"),
    ("EventProducer", "fire_timed", "fire"),
]
MODE = {(c, m): k for c, m, k in METHODS}
BASES = {"EventType": [], "Event": [], "TimedEvent": ["Event"], "EventProducer": [], "EventListener": ["ABC"],
         "EventError": ["Exception"]}
# value universe and required default of every parameter, by position
SIG = {
    ("EventType", "__init__"): [("Name", None), ("RawMd", "None")],
    ("Event", "__init__"): [("Arg:EventType", None), ("Content", None), ("Bool", "True")],
    ("TimedEvent", "__init__"): [("Ts", None), ("Arg:EventType", None), ("Content", None), ("Bool", "True")],
    ("EventProducer", "__init__"): [],
    ("EventProducer", "add_listener"): [("Arg:EventType", None), ("Arg:EventListener", None)],
    ("EventProducer", "remove_listener"): [("Arg:EventType", None), ("Arg:EventListener", None)],
    ("EventProducer", "remove_all_listeners"): [("Arg:EventType", "None"), ("Arg:EventListener", "None")],
    ("EventProducer", "has_listeners"): [],
    ("EventProducer", "fire_event"): [("EvArg", None)],
    ("EventProducer", "fire"): [("Arg:EventType", None), ("Content", None), ("Bool", "True")],
    ("EventProducer", "fire_timed_event"): [("EvArg", None)],
    ("EventProducer", "fire_timed"): [("Ts", None), ("Arg:EventType", None), ("Content", None), ("Bool", "True")],
}
GTYPE = {"Arg": "arg", "EvArg": "evarg", "Content": "content", "Bool": "bool", "Ts": "tstamp", "Name": "namev",
         "RawMd": "raw_md"}
DOM = {
    "Arg": frozenset({"Good", "NoneArg", "BadArg"}),
    "EvArg": frozenset({"Plain", "Timed", "Other"}),
    "Content": frozenset({"Dict", "NonDict"}),
    "OptMd": frozenset({"Some", "None"}),
    "RawMd": frozenset({"Some", "None"}),
    "Name": frozenset({"Str", "NotStr"}),
    "MdKey": frozenset({"Str", "NotStr"}),
}
PYTY = {"object": "TObject", "int": "TInt", "bool": "TBool", "float": "TFloat", "str": "TStr", "list": "TList",
        "dict": "TDict"}
BUILTINS_USED = ("len", "list", "dict", "isinstance", "super", "type", "str", "int", "float", "bool", "set", "object")
LOG_LEVELS = ("debug", "info", "warning", "error", "critical", "exception", "log")
SITE_EXPR = "inspect.stack()[1][0].f_code.co_name"
MODE_CLASSES = {"EventType", "Event", "TimedEvent", "EventProducer"}

PRELUDE = r"""
(* ---- fixed prelude: Python primitives on the value universe of the models ---- *)
(* an argument that should be an EventType / an EventListener (Model.arg) *)
Definition py_arg_is_none (a : arg) : bool := match a with NoneArg => true | _ => false end.
Definition py_arg_is_inst (a : arg) : bool := match a with Good _ => true | _ => false end.
Definition py_arg_id (a : arg) : nat := match a with Good n => n | _ => O end.
(* the argument of fire_event / fire_timed_event: an Event / TimedEvent, or some other object *)
Definition evarg := option event.
Definition py_is_event (e : evarg) : bool := match e with Some _ => true | None => false end.
Definition py_is_timed_event (e : evarg) : bool :=
  match e with Some ev => match ev_time ev with Some _ => true | None => false end | None => false end.
Definition py_event (e : evarg) : event :=
  match e with Some ev => ev | None => mkEvent O (mkContent O (SNonDict TNone)) None end.
(* payloads *)
Definition py_content_is_dict (c : content) : bool := match c_shape c with SDict _ => true | SNonDict _ => false end.
Definition py_content_items (c : content) : list (nat * pyval) := match c_shape c with SDict l => l | SNonDict _ => [] end.
Definition py_items_get (k : nat) (items : list (nat * pyval)) : option pyval := dict_get k items.   (* .get(k) / .get(k, None) *)
Definition py_optval_is_none (o : option pyval) : bool := match o with None => true | Some v => is_none v end.
Definition py_optval_isinstance (o : option pyval) (t : pyty) : bool :=
  match o with None => subty TNone t | Some v => isinstance v t end.
(* isinstance(timestamp, (C1, C2, ..)) *)
Definition py_ts_isinstance (ts : tstamp) (cl : list pyty) : bool := existsb (subty (ts_ty ts)) cl.
(* the metadata of an event type: None or a dict str -> type *)
Definition py_optmd_is_none (o : option metadata) : bool := match o with None => true | Some _ => false end.
Definition py_optmd_truth (o : option metadata) : bool := match o with Some (_ :: _) => true | _ => false end.
Definition py_optmd_items (o : option metadata) : metadata := match o with Some m => m | None => [] end.
Definition py_md_keys (m : metadata) : list nat := map fst m.
Fixpoint py_md_item (k : nat) (m : metadata) : pyty :=
  match m with [] => TObject | (k', t) :: r => if Nat.eqb k' k then t else py_md_item k r end.
(* the listener map  dict[EventType, list[EventListener]]  in insertion order *)
Definition py_dict_in (k : nat) (m : submap) : bool := match lookup k m with Some _ => true | None => false end.
Definition py_dict_get (k : nat) (m : submap) : option (list nat) := lookup k m.
Definition py_dict_item (k : nat) (m : submap) : list nat := subscribers m k.          (* d[k] where k in d *)
Definition py_optlist_is_none (o : option (list nat)) : bool := match o with None => true | Some _ => false end.
Definition py_optlist_truth (o : option (list nat)) : bool := match o with Some (_ :: _) => true | _ => false end.
Fixpoint py_dict_set (k : nat) (v : list nat) (m : submap) : submap :=               (* d[k] = v *)
  match m with
  | [] => [(k, v)]
  | (k', ls) :: r => if Nat.eqb k' k then (k', v) :: r else (k', ls) :: py_dict_set k v r
  end.
Definition py_dict_del (k : nat) (m : submap) : submap := sub_del k m.               (* del d[k] where k in d *)
Definition py_dict_keys (m : submap) : list nat := map fst m.
Definition py_dict_truth (m : submap) : bool := match m with [] => false | _ => true end.
Definition py_list_in (x : nat) (l : list nat) : bool := memb x l.
Definition py_list_append (l : list nat) (x : nat) : list nat := l ++ [x].
Definition py_list_remove (x : nat) (l : list nat) : list nat := remove_first x l.   (* where x in l *)
Definition py_list_truth (l : list nat) : bool := match l with [] => false | _ => true end.
(* how a method that only works on the listener map ends *)
Inductive pres := POk (m : submap) | PErr (k : err) (m : submap).
Definition pbind (r : pres) (k : submap -> pres) : pres := match r with POk m => k m | PErr e m => PErr e m end.
Fixpoint py_for_mut (f : submap -> nat -> pres) (l : list nat) (m : submap) : pres :=
  match l with [] => POk m | x :: r => pbind (f m x) (py_for_mut f r) end.
Fixpoint py_for_check {A X : Type} (f : A -> option X) (l : list A) : option X :=
  match l with [] => None | x :: r => match f x with Some e => Some e | None => py_for_check f r end end.
(* ghost bookkeeping of one fire invocation: its number, the start and the done marker *)
Definition py_fire_invocation (s : state) (p : nat) (ev : event) (body : nat -> state -> res) : res :=
  let i := st_next s in
  let ls := subscribers (subs_of s p) (ev_type ev) in
  match body i (mkState (st_subs s) (st_scripts s) (S i)) with
  | Done s' t => Done s' (ObsFire i ev ls :: t ++ [ObsFireDone i])
  | Raised k s' t => Raised k s' (ObsFire i ev ls :: t)
  | OutOfFuel => OutOfFuel
  end.
(* for l in <snapshot>: l.notify(ev) *)
Definition py_for_notify (step : state -> op -> res) (i : nat) (ev : event) (s : state) (ls : list nat) : res :=
  deliver_all step i ev s ls.
(* for l in <the stored list itself>: l.notify(ev) -- Python's list iterator: position idx in the list as it is NOW *)
Definition py_count_ops (scr : scripts) : nat :=
  fold_right (fun q n => fold_right (fun sc k => length sc + k) n q) O scr.
Definition py_live_fuel (s : state) (l : list nat) : nat := S (length l + py_count_ops (st_scripts s)).
Fixpoint py_for_notify_live (fuel : nat) (step : state -> op -> res) (i : nat) (ev : event)
  (read : state -> list nat) (idx : nat) (s : state) : res :=
  match fuel with
  | O => OutOfFuel
  | S f =>
      match nth_error (read s) idx with
      | None => Done s []
      | Some l => bind_res (notify step i ev s l) (fun s1 => py_for_notify_live f step i ev read (S idx) s1)
      end
  end.
(* EventType(name, metadata) *)
Definition py_name_is_str (n : namev) : bool := match n with NameStr _ => true | NameNotStr => false end.
Definition py_name_id (n : namev) : nat := match n with NameStr k => k | NameNotStr => O end.
Definition py_rawmd_is_none (md : raw_md) : bool := match md with None => true | Some _ => false end.
Definition py_rawmd_truth (md : raw_md) : bool := match md with Some (_ :: _) => true | _ => false end.
Definition py_rawmd_items (md : raw_md) : list (mdkey * mdval) := match md with Some d => d | None => [] end.
Definition py_rawmd_keys (d : list (mdkey * mdval)) : list mdkey := map fst d.
Definition py_mdkey_is_str (k : mdkey) : bool := match k with KStr _ => true | KNotStr => false end.
Definition py_mdkey_id (k : mdkey) : nat := match k with KStr n => n | KNotStr => O end.
Definition py_mdval_is_type (v : mdval) : bool := match v with VType _ => true | VNotType => false end.
Fixpoint py_rawmd_item (k : nat) (d : list (mdkey * mdval)) : mdval :=                (* metadata[key], key a str in it *)
  match d with
  | [] => VNotType
  | (KStr k', v) :: r => if Nat.eqb k' k then v else py_rawmd_item k r
  | (KNotStr, _) :: r => py_rawmd_item k r
  end.
(* the same dict object read as the declaration Event.__init__ works with *)
Fixpoint py_decl_decode (d : list (mdkey * mdval)) : metadata :=
  match d with
  | [] => []
  | (KStr k, VType t) :: r => (k, t) :: py_decl_decode r
  | _ :: r => py_decl_decode r
  end.
Definition py_rawmd_decode (md : raw_md) : option metadata :=
  match md with Some d => Some (py_decl_decode d) | None => None end.
Definition py_set_in (k : nat * nat) (reg : registry) : bool := registered reg k.
Definition py_set_add (k : nat * nat) (reg : registry) : registry := k :: reg.
"""


class Unsupported(Exception):
    def __init__(self, node, what):
        self.lineno = getattr(node, "lineno", 0) or 0
        self.what = what
        super().__init__(f"{SRC}:{self.lineno}: unsupported construct: {what}")


class V:
    """a translated value: kind + Gallina text + what else is known about it"""

    def __init__(self, ty, tx=None, **extra):
        self.ty, self.tx, self.x = ty, tx, extra

    def get(self, k, d=None):
        return self.x.get(k, d)


class Facts:
    """what a test establishes: narrowed alternatives per value text, `k in d`, `x in d[k]`"""

    def __init__(self, poss=None, din=(), lin=()):
        self.poss = dict(poss or {})          # text -> (allowed, full)
        self.din = frozenset(din)
        self.lin = frozenset(lin)


class Cond:
    def __init__(self, tx, t=None, f=None):
        self.tx, self.t, self.f = tx, t or Facts(), f or Facts()


def ind(text: str, n: int = 2) -> str:
    pad = " " * n
    return "\n".join(pad + l if l else l for l in text.split("\n"))


def par(t: str) -> str:
    t = t.strip()
    if t.startswith("(") or (" " not in t and "\n" not in t):
        return t
    return "(" + t + ")"


def blk(t: str) -> str:
    s = t.strip()
    if "\n" in s or s.startswith(("let ", "if ", "match ")):
        return "(" + s + ")"
    return s


class Env:
    def __init__(self):
        self.locals = {}
        self.poss = {}              # text -> allowed alternatives
        self.din = frozenset()      # key texts known to be in the current version of the listener map
        self.lin = frozenset()      # (key text, element text) known: element in d[key]
        self.dict_tx = None         # map mode: current version of the map
        self.state_tx = None        # fire mode: current state
        self.fields = {}            # constructors: attribute -> V
        self.reg_tx = None          # EventType constructor: current registry
        self.guard = None           # innermost enclosing test (node, polarity, environment)
        self.guards = ()            # all enclosing tests, outermost first
        self.loopvars = {}          # loop variable name -> text of the dict it is a key of
        self.epoch = 0              # bumped whenever a list stored in the listener map may have been replaced / dropped

    def clone(self):
        e = Env()
        e.locals, e.poss, e.din, e.lin = dict(self.locals), dict(self.poss), self.din, self.lin
        e.dict_tx, e.state_tx, e.fields, e.reg_tx = self.dict_tx, self.state_tx, dict(self.fields), self.reg_tx
        e.guard, e.loopvars, e.epoch, e.guards = self.guard, dict(self.loopvars), self.epoch, self.guards
        return e

    def apply(self, f: Facts):
        e = self.clone()
        for tx, (allowed, full) in f.poss.items():
            e.poss[tx] = e.poss.get(tx, full) & allowed
        e.din = e.din | f.din
        e.lin = e.lin | f.lin
        return e

    @property
    def dead(self):
        """contradictory tests on this path: it cannot be taken, nothing needs to be established on it"""
        return any(len(a) == 0 for a in self.poss.values())

    def has_in(self, k):
        return k in self.din or self.dead

    def has_lin(self, pair):
        return pair in self.lin or self.dead

    def forget_map(self):
        e = self.clone()
        e.din, e.lin = frozenset(), frozenset()
        e.epoch += 1
        return e


class Ctx:
    def __init__(self, cls, name, mode, node):
        self.cls, self.name, self.mode, self.node = cls, name, mode, node
        self.counter = {}
        self.uses_E = False
        self.check_depth = 0        # inside the body of a check loop: raise = Some kind, end = None
        self.in_ghost = False
        self.event_tx = None        # fire mode: text of the event the invocation is about
        self.ret_k = None           # what `return` / falling off the end means here (the method's end, or the end of an inlined helper)
        self.inline_stack = []      # helpers being inlined (recursion is refused)

    def fresh(self, stem):
        self.counter[stem] = self.counter.get(stem, 0) + 1
        return f"{stem}_{self.counter[stem]}"


class Translator:
    def __init__(self, text: str):
        with warnings.catch_warnings():
            warnings.simplefilter("ignore")
            self.tree = ast.parse(text)
        self.lines = text.split("\n")
        self.classes = {}
        self.defs = []
        self.sigs = {}              # (cls, meth) -> signature
        self.failed = {}            # (cls, meth) -> Unsupported
        self.translated = []
        self.ctx = None
        self.module_checks()

    def fail(self, node, what):
        raise Unsupported(node, what)

    # ------------------------------------------------------------------ module level
    def module_checks(self):
        self.has_inspect = False
        self.has_logger = False
        self.functions = {}
        for st in self.tree.body:
            names = []
            if isinstance(st, ast.Import):
                for a in st.names:
                    bound = a.asname or a.name.split(".")[0]
                    names.append(bound)
                    if a.name == "inspect" and a.asname is None:
                        self.has_inspect = True
                    elif bound == "inspect":
                        self.fail(st, "the name `inspect` is bound to something else than the inspect module")
            elif isinstance(st, ast.ImportFrom):
                for a in st.names:
                    if a.name == "*":
                        self.fail(st, "star import (could rebind builtins / class names)")
                    names.append(a.asname or a.name)
            elif isinstance(st, (ast.FunctionDef, ast.AsyncFunctionDef)):
                names.append(st.name)
                if st.name in self.functions:
                    self.fail(st, f"function {st.name} defined twice")
                self.functions[st.name] = st
            elif isinstance(st, ast.ClassDef):
                names.append(st.name)
                if st.name in self.classes:
                    self.fail(st, f"class {st.name} defined twice")
                self.classes[st.name] = st
            elif isinstance(st, (ast.Assign, ast.AnnAssign, ast.AugAssign)):
                tg = st.targets if isinstance(st, ast.Assign) else [st.target]
                for t in tg:
                    for n in ast.walk(t):
                        if isinstance(n, ast.Name):
                            names.append(n.id)
                if isinstance(st, ast.Assign) and len(st.targets) == 1 and isinstance(st.targets[0], ast.Name) \
                        and st.targets[0].id == "logger":
                    v = st.value
                    if not (isinstance(v, ast.Call) and isinstance(v.func, ast.Name) and v.func.id == "get_module_logger"):
                        self.fail(st, "`logger` is not bound to get_module_logger(..)")
                    if self.has_logger:
                        self.fail(st, "`logger` bound twice")
                    self.has_logger = True
                    names.remove("logger")
            elif isinstance(st, ast.Expr) and isinstance(st.value, ast.Constant):
                pass
            else:
                self.fail(st, f"module-level statement {type(st).__name__}")
            for n in names:
                if n in BUILTINS_USED or n in ("logger", "self") or \
                        (n in BASES and not isinstance(st, ast.ClassDef)) or \
                        (n == "inspect" and not isinstance(st, ast.Import)):
                    self.fail(st, f"module rebinds the name `{n}`")
        for cname, bases in BASES.items():
            c = self.classes.get(cname)
            if c is None:
                self.fail(self.tree, f"class {cname} not found")
            got = [ast.unparse(b) for b in c.bases]
            if got != bases or c.keywords:
                self.fail(c, f"class {cname} has bases {got}, the model assumes {bases}")
            if c.decorator_list:
                self.fail(c, f"decorated class {cname}")
            for st in c.body:
                if isinstance(st, (ast.FunctionDef, ast.AsyncFunctionDef)) and st.name in (
                        "__getattribute__", "__getattr__", "__setattr__", "__new__", "__init_subclass__", "__eq__", "__hash__",
                        "__class_getitem__", "__set_name__", "__delattr__"):
                    self.fail(st, f"class {cname} defines {st.name}")
        ee = self.classes["EventError"]
        if any(not isinstance(st, (ast.Pass, ast.Expr)) for st in ee.body):
            self.fail(ee, "EventError is more than a plain Exception subclass")
        # the uniqueness registry of EventType
        reg = [st for st in self.classes["EventType"].body if isinstance(st, (ast.Assign, ast.AnnAssign)) and any(
            isinstance(n, ast.Name) and n.id == "__defined_types" for n in ast.walk(st))]
        if len(reg) != 1 or reg[0].value is None or ast.unparse(reg[0].value) != "set()":
            self.fail(reg[0] if reg else self.classes["EventType"], "EventType.__defined_types is not bound once, to set()")

    def find_method(self, cname, mname, node=None):
        c = self.classes[cname]
        found = [f for f in c.body if isinstance(f, (ast.FunctionDef, ast.AsyncFunctionDef)) and f.name == mname]
        if len(found) > 1:
            self.fail(found[1], f"{cname}.{mname} defined twice")
        for st in c.body:
            if isinstance(st, (ast.Assign, ast.AnnAssign)) and any(
                    isinstance(n, ast.Name) and n.id == mname for n in ast.walk(st.targets[0] if isinstance(st, ast.Assign) else st.target)):
                self.fail(st, f"{cname}.{mname} is bound by an assignment in the class body")
        if not found:
            return None
        if isinstance(found[0], ast.AsyncFunctionDef):
            self.fail(found[0], "async method")
        return found[0]

    def property_field(self, cname, attr, node):
        """`x.attr` where x is an instance of cname: attr must be a property whose body is `return self._f`"""
        c = cname
        while True:
            f = self.find_method(c, attr, node)
            if f is not None:
                break
            bases = BASES[c]
            if not bases or bases[0] not in self.classes or bases[0] not in MODE_CLASSES:
                self.fail(node, f"attribute `.{attr}` of a {cname} (no such property)")
            c = bases[0]
        if [ast.unparse(d) for d in f.decorator_list] != ["property"]:
            self.fail(f, f"{c}.{attr} is not a plain @property")
        body = self.strip_doc(f.body)
        if len(f.args.args) != 1 or len(body) != 1 or not isinstance(body[0], ast.Return) or body[0].value is None:
            self.fail(f, f"property {c}.{attr} is more than `return self._x`")
        r = body[0].value
        if not (isinstance(r, ast.Attribute) and isinstance(r.value, ast.Name) and r.value.id == f.args.args[0].arg):
            self.fail(f, f"property {c}.{attr} is more than `return self._x`")
        return r.attr

    @staticmethod
    def strip_doc(body):
        body = list(body)
        if body and isinstance(body[0], ast.Expr) and isinstance(body[0].value, ast.Constant) and isinstance(body[0].value.value, str):
            body = body[1:]
        return body

    # ------------------------------------------------------------------ one method
    def method(self, cname, mname):
        key = (cname, mname)
        if key in self.sigs:
            return self.sigs[key]
        if key in self.failed:
            raise self.failed[key]
        mode = MODE[key]
        f = self.find_method(cname, mname)
        if f is None:
            self.fail(self.classes[cname], f"method {cname}.{mname} not found")
        if f.decorator_list:
            self.fail(f, f"decorated method {cname}.{mname}")
        a = f.args
        if a.vararg or a.kwarg or a.kwonlyargs or a.posonlyargs:
            self.fail(f, f"{cname}.{mname}: *args / **kwargs / keyword-only / positional-only parameters")
        if not a.args or a.args[0].arg != "self":
            self.fail(f, f"{cname}.{mname}: first parameter is not `self`")
        sig = SIG[key]
        if len(a.args) - 1 != len(sig):
            self.fail(f, f"{cname}.{mname} has {len(a.args) - 1} parameters, the model knows {len(sig)}")
        ndef = len(a.defaults)
        for n in ast.walk(f):
            if isinstance(n, (ast.FunctionDef, ast.AsyncFunctionDef, ast.Lambda, ast.ClassDef)) and n is not f:
                self.fail(n, "nested function / class / lambda")
            if isinstance(n, (ast.Yield, ast.YieldFrom, ast.Await, ast.Global, ast.Nonlocal, ast.NamedExpr)):
                self.fail(n, type(n).__name__)
        ctx = Ctx(cname, mname, mode, f)
        ctx.ret_k = self.finish
        saved = self.ctx
        self.ctx = ctx
        try:
            env = Env()
            binders = []
            for i, (p, (uni, dflt)) in enumerate(zip(a.args[1:], sig)):
                di = i - (len(a.args) - 1 - ndef)
                have = ast.unparse(a.defaults[di]) if di >= 0 else None
                if have != dflt:
                    self.fail(p, f"parameter `{p.arg}` of {cname}.{mname} has default {have}, the model assumes {dflt}")
                kind, _, tag = uni.partition(":")
                tx = "p_" + p.arg
                env.locals[p.arg] = V(kind, tx, cls=tag or None, param=True)
                binders.append(f"({tx} : {GTYPE[kind]})")
            body = self.strip_doc(f.body)
            name = f"gen_{cname}_{mname}"
            if mode == "map":
                env.dict_tx = "m"
                text = self.block(body, env, self.finish)
                pre, rty = ["(m : submap)"], "pres"
            elif mode == "get":
                env.dict_tx = "m"
                if len(body) != 1 or not isinstance(body[0], ast.Return) or body[0].value is None:
                    self.fail(f, f"{cname}.{mname}: the body is more than one `return <expression>`")
                text = self.cond(body[0].value, env).tx
                pre, rty = ["(m : submap)"], "bool"
            elif mode == "ctor_prod":
                text = self.block(body, env, self.finish)
                pre, rty = [], "submap"
            elif mode == "ctor_ev":
                text = self.block(body, env, self.finish)
                pre, rty = ["(E : menv)"], "mk"
                ctx.uses_E = True
            elif mode == "ctor_et":
                env.reg_tx = "reg"
                text = self.block(body, env, self.finish)
                pre, rty = ["(reg : registry)", "(site : nat)"], "registry * etres"
            else:
                text = self.fire_method(body, env)
                pre, rty = (["(E : menv)"] if ctx.uses_E else []) + ["(step : state -> op -> res)", "(s : state)", "(p : nat)"], "res"
            header = f"(* {cname}.{mname}  -- pubsub.py lines {f.lineno}-{f.end_lineno} *)"
            self.defs.append(f"{header}\nDefinition {name} {' '.join(pre + binders)} : {rty} :=\n{ind(text)}.")
            s = {"name": name, "mode": mode, "uses_E": ctx.uses_E, "params": [u for u, _ in sig], "cls": cname}
            self.sigs[key] = s
            src_lines = self.lines[f.lineno - 1:f.end_lineno]
            self.translated.append({"class": cname, "method": mname, "definition": name, "lines": [f.lineno, f.end_lineno],
                                    "sha1": hashlib.sha1("\n".join(src_lines).encode("utf-8")).hexdigest()})
            return s
        finally:
            self.ctx = saved

    # ------------------------------------------------------------------ how a method ends / raises
    def finish(self, env):
        c = self.ctx
        if c.check_depth:
            return "None"
        if c.mode == "map":
            return f"POk {env.dict_tx}"
        if c.mode == "fire":
            return f"Done {env.state_tx} []"
        if c.mode == "ctor_prod":
            v = env.fields.get("_listeners")
            if v is None or v.ty != "Dict" or len(env.fields) != 1:
                self.fail(c.node, "EventProducer.__init__ does not leave exactly self._listeners, an empty dict")
            return v.tx
        if c.mode == "ctor_ev":
            et, co, ts = env.fields.get("_event_type"), env.fields.get("_content"), env.fields.get("_timestamp")
            extra = set(env.fields) - {"_event_type", "_content", "_timestamp"}
            if et is None or co is None or extra or (c.cls == "TimedEvent") != (ts is not None):
                self.fail(c.node, f"{c.cls}.__init__ does not set exactly the attributes of the model's event record "
                                  f"(has {sorted(env.fields)})")
            return f"MkOk (mkEvent {et.tx} {co.tx} {'(Some ' + ts.tx + ')' if ts is not None else 'None'})"
        if c.mode == "ctor_et":
            dc, nm, md = env.fields.get("_defining_class"), env.fields.get("_name"), env.fields.get("_metadata")
            if dc is None or nm is None or md is None or set(env.fields) - {"_defining_class", "_name", "_metadata"}:
                self.fail(c.node, f"EventType.__init__ does not set exactly _defining_class, _name, _metadata (has {sorted(env.fields)})")
            return f"({env.reg_tx}, EtOk (mkEType {dc.tx} {nm.tx} {md.tx}))"
        self.fail(c.node, "method ends in a mode that has no result")

    def raise_(self, env, kind):
        c = self.ctx
        if c.check_depth:
            return f"Some {par(kind)}"
        if c.mode == "map":
            return f"PErr {par(kind)} {env.dict_tx}"
        if c.mode == "fire":
            return f"Raised {par(kind)} {env.state_tx} []"
        if c.mode == "ctor_ev":
            return f"MkErr {par(kind)}"
        if c.mode == "ctor_et":
            return f"({env.reg_tx}, EtErr {par(kind)})"
        self.fail(c.node, "raise in a method that cannot raise in the model")

    # ------------------------------------------------------------------ a value used as ...
    def known(self, env, v, allowed):
        full = DOM[v.ty]
        return env.dead or env.poss.get(v.tx, full) <= frozenset(allowed)

    def as_etid(self, node, v, env):
        if v.ty == "ETId":
            return v.tx
        if v.ty == "Arg" and v.get("cls") == "EventType":
            if self.known(env, v, {"Good"}):
                return f"(py_arg_id {v.tx})"
            self.fail(node, f"`{v.tx[2:]}` used as an EventType where the tests before do not establish that it is one")
        self.fail(node, f"a value of kind {v.ty} used as an EventType")

    def as_lisid(self, node, v, env):
        if v.ty == "LisId":
            return v.tx
        if v.ty == "Arg" and v.get("cls") == "EventListener":
            if self.known(env, v, {"Good"}):
                return f"(py_arg_id {v.tx})"
            self.fail(node, f"`{v.tx[2:]}` used as an EventListener where the tests before do not establish that it is one")
        self.fail(node, f"a value of kind {v.ty} used as an EventListener")

    def as_event(self, node, v, env):
        if v.ty == "Ev":
            return v.tx
        if v.ty == "EvArg":
            if self.known(env, v, {"Plain", "Timed"}):
                return f"(py_event {v.tx})"
            self.fail(node, f"`{v.tx[2:]}` used as an Event where the tests before do not establish that it is one")
        self.fail(node, f"a value of kind {v.ty} used as an Event")

    def as_items(self, node, v, env):
        if v.ty == "Items":
            return v.tx
        if v.ty == "Content":
            if self.known(env, v, {"Dict"}):
                return f"(py_content_items {v.tx})"
            self.fail(node, f"`{v.tx[2:]}` used as a dict where the tests before do not establish that it is one")
        self.fail(node, f"a value of kind {v.ty} used as a payload dict")

    def as_md(self, node, v, env):
        if v.ty == "OptMd":
            if self.known(env, v, {"Some"}):
                return f"(py_optmd_items {v.tx})"
            self.fail(node, "metadata used as a dict where the tests before do not establish that it is not None")
        self.fail(node, f"a value of kind {v.ty} used as a metadata dict")

    def as_rawitems(self, node, v, env):
        if v.ty == "RawMd":
            if self.known(env, v, {"Some"}):
                return f"(py_rawmd_items {v.tx})"
            self.fail(node, "metadata used as a dict where the tests before do not establish that it is not None")
        self.fail(node, f"a value of kind {v.ty} used as a metadata dict")

    # ------------------------------------------------------------------ expressions (all pure)
    def ex(self, e, env) -> V:
        c = self.ctx
        if isinstance(e, ast.Constant):
            if e.value is None:
                return V("None", None)
            if isinstance(e.value, bool):
                return V("Bool", "true" if e.value else "false")
            if isinstance(e.value, int) and e.value >= 0:
                return V("Nat", str(e.value))
            if isinstance(e.value, str):
                return V("StrC", None, const=e.value)
            self.fail(e, f"literal {e.value!r}")
        if isinstance(e, ast.JoinedStr):
            return V("StrC", None, const=None)
        if isinstance(e, ast.Name):
            if e.id in env.locals:
                v = env.locals[e.id]
                if v.get("lazy"):
                    # a local name for a list stored in the listener map: read through the map as it is now
                    if v.get("epoch") != env.epoch:
                        self.fail(e, f"`{e.id}` names a list of the listener map that may have been replaced or dropped since it was bound")
                    k = v.get("lazy")
                    d = self.dict_now(e, env)
                    if env.has_in(k):
                        return V("LList", f"(py_dict_item {k} {d})", alias=k)
                    return V("OptLList", f"(py_dict_get {k} {d})", key=k)
                return v
            self.fail(e, f"name `{e.id}` (not a parameter or a local assigned on every path before)")
        if isinstance(e, ast.Dict):
            if e.keys:
                self.fail(e, "non-empty dict literal")
            return V("Dict", "[]", fresh=True)
        if isinstance(e, ast.IfExp):
            cd = self.cond(e.test, env)
            a, b = self.ex(e.body, env.apply(cd.t)), self.ex(e.orelse, env.apply(cd.f))
            if a.ty == b.ty and a.tx is not None and b.tx is not None and a.ty in ("Nat", "Bool", "ETId", "LisId") :
                return V(a.ty, f"(if {cd.tx} then {a.tx} else {b.tx})")
            self.fail(e, f"conditional expression between values of kinds {a.ty} and {b.ty}")
        if isinstance(e, ast.List):
            if e.elts:
                self.fail(e, "non-empty list literal")
            return V("LList", "[]", alias=None)
        if isinstance(e, ast.Attribute):
            if isinstance(e.value, ast.Name) and e.value.id == "self" and "self" not in env.locals:
                if e.attr == "_listeners" and c.cls == "EventProducer":
                    if c.mode in ("map", "get"):
                        return V("Dict", env.dict_tx)
                    if c.mode == "fire":
                        return V("Dict", f"(subs_of {env.state_tx} p)")
                if e.attr in env.fields:
                    return env.fields[e.attr]
                self.fail(e, f"attribute self.{e.attr} (not assigned on every path before / not in the model)")
            if isinstance(e.value, ast.Name) and e.value.id == "EventType" and e.attr == "__defined_types" \
                    and c.cls == "EventType" and "EventType" not in env.locals:
                return V("Registry", env.reg_tx)
            if ast.unparse(e) == SITE_EXPR:
                if c.mode != "ctor_et" or not self.has_inspect or "inspect" in env.locals:
                    self.fail(e, f"`{SITE_EXPR}` outside EventType.__init__ / without `import inspect`")
                return V("Site", "site")
            base = self.ex(e.value, env)
            if base.ty in ("Arg", "ETId") and (base.ty == "ETId" or base.get("cls") == "EventType"):
                fld = self.property_field("EventType", e.attr, e)
                if fld == "_metadata":
                    c.uses_E = True
                    return V("OptMd", f"(md_of E {self.as_etid(e, base, env)})")
                self.fail(e, f"attribute `.{e.attr}` of an EventType (only its metadata is in the model)")
            if base.ty in ("EvArg", "Ev"):
                ev = self.as_event(e, base, env)
                timed = base.get("timed") or (base.ty == "EvArg" and self.known(env, base, {"Timed"}))
                fld = self.property_field("TimedEvent" if timed else "Event", e.attr, e)
                if fld == "_event_type":
                    return V("ETId", f"(ev_type {ev})")
                if fld == "_content":
                    return V("Content", f"(ev_content {ev})")
                self.fail(e, f"attribute `.{e.attr}` of an event (field {fld} is not used by the model here)")
            self.fail(e, f"attribute access `{ast.unparse(e)[:60]}`")
        if isinstance(e, ast.Subscript):
            base, key = self.ex(e.value, env), self.ex(e.slice, env)
            if base.ty == "Dict":
                k = self.as_etid(e, key, env)
                if not env.has_in(k):
                    self.fail(e, f"`{ast.unparse(e)[:50]}`: the key is not known to be in the listener map here (KeyError)")
                return V("LList", f"(py_dict_item {k} {base.tx})", alias=k)
            if base.ty == "RawMd":
                d = self.as_rawitems(e, base, env)
                if key.ty != "MdKey" or env.loopvars.get(key.tx) != d or not self.known(env, key, {"Str"}):
                    self.fail(e, "metadata[key] where key is not the loop variable over metadata.keys(), established to be a str")
                return V("MdVal", f"(py_rawmd_item (py_mdkey_id {key.tx}) {d})")
            self.fail(e, f"subscript of a value of kind {base.ty}")
        if isinstance(e, ast.BinOp) and isinstance(e.op, ast.Add):
            parts = []
            x = e
            while isinstance(x, ast.BinOp) and isinstance(x.op, ast.Add):
                parts.insert(0, x.right)
                x = x.left
            parts.insert(0, x)
            vs = [self.ex(p, env) for p in parts]
            if len(vs) == 3 and vs[0].ty == "Site" and vs[1].ty == "StrC" and vs[1].get("const") == "." and vs[2].ty == "StrId":
                return V("RegKey", f"({vs[0].tx}, {vs[2].tx})")
            self.fail(e, "`+` other than <defining class> + \".\" + <name>")
        if isinstance(e, (ast.Compare, ast.BoolOp)) or (isinstance(e, ast.UnaryOp) and isinstance(e.op, ast.Not)):
            return V("Bool", self.cond(e, env).tx)
        if isinstance(e, ast.Call):
            return self.call(e, env)
        self.fail(e, f"expression {type(e).__name__}")

    def dict_now(self, node, env):
        c = self.ctx
        if c.cls == "EventProducer" and c.mode in ("map", "get"):
            return env.dict_tx
        if c.cls == "EventProducer" and c.mode == "fire":
            return f"(subs_of {env.state_tx} p)"
        self.fail(node, "the listener map outside a method of EventProducer")

    # ---- private helpers (methods of the same class / module-level functions that are not translated methods): inlined
    def helper_of(self, call, env):
        f = call.func
        if isinstance(f, ast.Attribute) and isinstance(f.value, ast.Name) and f.value.id == "self" and "self" not in env.locals:
            cname = self.ctx.cls
            while True:
                if (cname, f.attr) in MODE:
                    return None
                fd = self.find_method(cname, f.attr, call)
                if fd is not None:
                    decs = [ast.unparse(d) for d in fd.decorator_list]
                    if decs not in ([], ["staticmethod"]):
                        self.fail(fd, f"helper {cname}.{f.attr} is decorated with {decs}")
                    return fd, (0 if decs else 1)
                if not BASES[cname] or BASES[cname][0] not in MODE_CLASSES:
                    return None
                cname = BASES[cname][0]
        if isinstance(f, ast.Name) and f.id in self.functions and f.id not in env.locals:
            fd = self.functions[f.id]
            if fd.decorator_list or isinstance(fd, ast.AsyncFunctionDef):
                self.fail(fd, f"helper {f.id} is decorated / async")
            return fd, 0
        return None

    def bind_helper(self, fd, skip, call, env):
        """the helper's parameters bound to the (pure) arguments of the call"""
        a = fd.args
        if a.vararg or a.kwarg or a.kwonlyargs or a.posonlyargs:
            self.fail(fd, f"helper {fd.name}: *args / **kwargs / keyword-only / positional-only parameters")
        if fd in self.ctx.inline_stack or len(self.ctx.inline_stack) > 6:
            self.fail(call, f"helper {fd.name} is recursive")
        for n in ast.walk(fd):
            if isinstance(n, (ast.FunctionDef, ast.AsyncFunctionDef, ast.Lambda, ast.ClassDef)) and n is not fd:
                self.fail(n, "nested function / class / lambda")
            if isinstance(n, (ast.Yield, ast.YieldFrom, ast.Await, ast.Global, ast.Nonlocal, ast.NamedExpr)):
                self.fail(n, type(n).__name__)
        if any(isinstance(x, ast.Starred) for x in call.args) or any(k.arg is None for k in call.keywords):
            self.fail(call, "starred arguments")
        params = [p.arg for p in a.args[skip:]]
        if skip and (not a.args or a.args[0].arg != "self"):
            self.fail(fd, f"helper {fd.name}: first parameter is not `self`")
        if len(call.args) > len(params):
            self.fail(call, f"{fd.name}() called with too many arguments")
        bound = {}
        for name, arg in zip(params, call.args):
            bound[name] = arg
        for kw in call.keywords:
            if kw.arg not in params or kw.arg in bound:
                self.fail(call, f"{fd.name}() has no free parameter `{kw.arg}`")
            bound[kw.arg] = kw.value
        defaults = dict(zip(params[len(params) - len(a.defaults):], a.defaults))
        out = {}
        for name in params:
            node = bound.get(name, defaults.get(name))
            if node is None:
                self.fail(call, f"{fd.name}() called without a value for `{name}`")
            if name not in bound and not (isinstance(node, ast.Constant) and (node.value is None or isinstance(node.value, bool))):
                self.fail(node, f"default of `{name}` that is not None / True / False")
            v = self.ex(node, env)
            if v.ty in ("Dict", "KeysView", "Registry") or (v.ty == "LList" and v.get("alias")) or v.ty == "OptLList":
                self.fail(call, f"the listener map / a list stored in it passed to {fd.name}() (aliasing of mutable state)")
            out[name] = v
        return out

    def helper_env(self, env, bound):
        he = env.clone()
        he.locals = bound          # the enclosing tests of the call site stay in force inside the helper
        return he

    def helper_value(self, call, env, as_cond):
        """a helper called for its value: its body must be a single `return <pure expression>`"""
        h = self.helper_of(call, env)
        if h is None:
            return None
        fd, skip = h
        body = self.strip_doc(fd.body)
        if len(body) != 1 or not isinstance(body[0], ast.Return) or body[0].value is None:
            self.fail(call, f"helper {fd.name}() used as a value, but its body is more than one `return <expression>`")
        he = self.helper_env(env, self.bind_helper(fd, skip, call, env))
        self.ctx.inline_stack.append(fd)
        try:
            return self.cond(body[0].value, he) if as_cond else self.ex(body[0].value, he)
        finally:
            self.ctx.inline_stack.pop()

    def inline_stmt(self, fd, skip, call, env, k):
        """a helper called as a statement: its body in place of the call; `return` continues after the call"""
        c = self.ctx
        he = self.helper_env(env, self.bind_helper(fd, skip, call, env))
        outer_ret, outer_stack, outer_depth = c.ret_k, list(c.inline_stack), c.check_depth

        def back(e2):
            e3 = e2.clone()
            e3.locals, e3.guard, e3.guards = dict(env.locals), env.guard, env.guards
            saved = (c.ret_k, c.inline_stack)
            c.ret_k, c.inline_stack = outer_ret, list(outer_stack)
            try:
                return k(e3)
            finally:
                c.ret_k, c.inline_stack = saved
        if outer_depth:
            self.fail(call, "helper call inside a check loop")
        c.ret_k = back
        c.inline_stack = outer_stack + [fd]
        try:
            return self.block(self.strip_doc(fd.body), he, back)
        finally:
            c.ret_k, c.inline_stack = outer_ret, outer_stack

    def call(self, e, env) -> V:
        hv = self.helper_value(e, env, False)
        if hv is not None:
            return hv
        if e.keywords or any(isinstance(a, ast.Starred) for a in e.args):
            self.fail(e, "keyword / starred arguments")
        f = e.func
        if isinstance(f, ast.Name) and f.id not in env.locals:
            if f.id == "len" and len(e.args) == 1:
                v = self.ex(e.args[0], env)
                if v.ty in ("Dict", "LList", "ETList", "Items", "KeyList"):
                    return V("Nat", f"(length {v.tx})")
                if v.ty == "Content":
                    return V("Nat", f"(length {self.as_items(e, v, env)})")
                if v.ty == "OptMd":
                    return V("Nat", f"(length {self.as_md(e, v, env)})")
                self.fail(e, f"len() of a value of kind {v.ty}")
            if f.id == "list" and len(e.args) == 1:
                v = self.ex(e.args[0], env)
                if v.ty == "LList":
                    return V("LList", v.tx, alias=None)
                if v.ty == "KeysView":
                    return V("ETList", f"(py_dict_keys {v.get('of')})")
                if v.ty == "Dict":
                    return V("ETList", f"(py_dict_keys {v.tx})")
                if v.ty == "ETList":
                    return v
                self.fail(e, f"list() of a value of kind {v.ty}")
            if f.id == "dict":
                if not e.args:
                    return V("Dict", "[]", fresh=True)
                if len(e.args) == 1:
                    v = self.ex(e.args[0], env)
                    return V("Items", self.as_items(e, v, env))
            if f.id == "isinstance":
                return V("Bool", self.cond(e, env).tx)
            if f.id == "bool" and len(e.args) == 1:
                return V("Bool", self.cond(e.args[0], env).tx)
            self.fail(e, f"call of `{f.id}`")
        if isinstance(f, ast.Attribute):
            base = self.ex(f.value, env)
            m = f.attr
            if m == "keys" and not e.args:
                if base.ty == "Dict":
                    return V("KeysView", None, of=base.tx)
                if base.ty == "OptMd":
                    d = self.as_md(e, base, env)
                    return V("KeyList", f"(py_md_keys {d})", of=d, elem="Key")
                if base.ty == "RawMd":
                    d = self.as_rawitems(e, base, env)
                    return V("KeyList", f"(py_rawmd_keys {d})", of=d, elem="MdKey")
            if m == "get" and (len(e.args) == 1 or (len(e.args) == 2 and self.ex(e.args[1], env).ty == "None")):
                key = self.ex(e.args[0], env)
                if base.ty == "Dict":
                    k = self.as_etid(e, key, env)
                    if env.has_in(k):
                        return V("LList", f"(py_dict_item {k} {base.tx})", alias=k)
                    return V("OptLList", f"(py_dict_get {k} {base.tx})", key=k)
                if base.ty == "Items":
                    if key.ty != "Key":
                        self.fail(e, f"payload looked up with a key of kind {key.ty}")
                    return V("OptVal", f"(py_items_get {key.tx} {base.tx})", key=key.tx)
                if base.ty == "OptMd":
                    d = self.as_md(e, base, env)
                    if key.ty != "Key" or env.loopvars.get(key.tx) != d:
                        self.fail(e, "metadata.get(key) where key is not the loop variable over the keys of that metadata (could be None)")
                    return V("Ty", f"(py_md_item {key.tx} {d})", key=key.tx)
            if m == "copy" and not e.args:
                if base.ty == "LList":
                    return V("LList", base.tx, alias=None)
                if base.ty == "OptLList":
                    self.fail(e, "`.copy()` of the result of dict.get(), which is None when the key is absent (no test before establishes `key in dict`)")
            self.fail(e, f"call `.{m}()` on a value of kind {base.ty}")
        self.fail(e, f"call `{ast.unparse(e)[:60]}`")

    # ------------------------------------------------------------------ conditions
    @staticmethod
    def _full(facts_a, facts_b, tx):
        for f in (facts_a, facts_b):
            if tx in f.poss:
                return f.poss[tx][1]
        return frozenset()

    def combine(self, a: Cond, b: Cond, is_and: bool) -> Cond:
        t, f = {}, {}
        for tx in set(a.t.poss) | set(a.f.poss) | set(b.t.poss) | set(b.f.poss):
            full = self._full(a.t, a.f, tx) or self._full(b.t, b.f, tx)
            ta, fa = a.t.poss.get(tx, (full, full))[0], a.f.poss.get(tx, (full, full))[0]
            tb, fb = b.t.poss.get(tx, (full, full))[0], b.f.poss.get(tx, (full, full))[0]
            if is_and:
                t[tx], f[tx] = (ta & tb, full), (fa | (ta & fb), full)
            else:
                t[tx], f[tx] = (ta | (fa & tb), full), (fa & fb, full)
        if is_and:
            return Cond(f"({a.tx} && {b.tx})", Facts(t, a.t.din | b.t.din, a.t.lin | b.t.lin), Facts(f))
        return Cond(f"({a.tx} || {b.tx})", Facts(t), Facts(f, a.f.din | b.f.din, a.f.lin | b.f.lin))

    def cond(self, e, env) -> Cond:
        if isinstance(e, ast.BoolOp):
            is_and = isinstance(e.op, ast.And)
            acc = self.cond(e.values[0], env)
            cur = env.apply(acc.t if is_and else acc.f)
            for x in e.values[1:]:
                nxt = self.cond(x, cur)
                acc = self.combine(acc, nxt, is_and)
                cur = cur.apply(nxt.t if is_and else nxt.f)
            return acc
        if isinstance(e, ast.UnaryOp) and isinstance(e.op, ast.Not):
            c = self.cond(e.operand, env)
            return Cond(f"(negb {c.tx})", c.f, c.t)
        if isinstance(e, ast.Call) and isinstance(e.func, ast.Name) and e.func.id == "isinstance" and "isinstance" not in env.locals:
            return self.isinstance_(e, env)
        if isinstance(e, ast.Call):
            hc = self.helper_value(e, env, True)
            if hc is not None:
                return hc
        if isinstance(e, ast.Compare):
            if len(e.ops) != 1:
                self.fail(e, "chained comparison")
            return self.compare(e, e.ops[0], e.left, e.comparators[0], env)
        v = self.ex(e, env)
        if v.ty == "Bool":
            return Cond(v.tx)
        if v.ty == "LList":
            return Cond(f"(py_list_truth {v.tx})")
        if v.ty == "Dict":
            return Cond(f"(py_dict_truth {v.tx})")
        if v.ty in ("OptMd", "RawMd"):
            fn = "py_optmd_truth" if v.ty == "OptMd" else "py_rawmd_truth"
            return Cond(f"({fn} {v.tx})", Facts({v.tx: (frozenset({"Some"}), DOM[v.ty])}), Facts())
        if v.ty == "OptLList":
            return Cond(f"(py_optlist_truth {v.tx})", Facts(din={v.get("key")}), Facts())
        self.fail(e, f"truth value of a value of kind {v.ty}")

    def isinstance_(self, e, env) -> Cond:
        if len(e.args) != 2 or e.keywords:
            self.fail(e, "isinstance with other than two arguments")
        v = self.ex(e.args[0], env)
        t = e.args[1]
        if isinstance(t, ast.Tuple) and len(t.elts) == 1:
            t = t.elts[0]
        tname = t.id if isinstance(t, ast.Name) and t.id not in env.locals else None

        def narrow(fn, tset):
            full = DOM[v.ty]
            return Cond(f"({fn} {v.tx})", Facts({v.tx: (frozenset(tset), full)}), Facts({v.tx: (full - frozenset(tset), full)}))
        if v.ty == "Arg":
            if tname != v.get("cls"):
                self.fail(e, f"`{ast.unparse(e)}` cannot be decided on the model's value universe (the argument stands for a {v.get('cls')} or not)")
            return narrow("py_arg_is_inst", {"Good"})
        if v.ty == "EvArg":
            if tname == "Event":
                return narrow("py_is_event", {"Plain", "Timed"})
            if tname == "TimedEvent":
                return narrow("py_is_timed_event", {"Timed"})
        if v.ty == "Content" and tname == "dict":
            return narrow("py_content_is_dict", {"Dict"})
        if v.ty == "Name" and tname == "str":
            return narrow("py_name_is_str", {"Str"})
        if v.ty == "MdKey" and tname == "str":
            return narrow("py_mdkey_is_str", {"Str"})
        if v.ty == "MdVal" and tname == "type":
            return Cond(f"(py_mdval_is_type {v.tx})")
        if v.ty == "Ts":
            names = [t] if isinstance(t, ast.Name) else (list(t.elts) if isinstance(t, ast.Tuple) else [])
            if names and all(isinstance(n, ast.Name) and n.id in PYTY and n.id not in env.locals for n in names):
                return Cond(f"(py_ts_isinstance {v.tx} [{'; '.join(PYTY[n.id] for n in names)}])")
        if v.ty == "OptVal":
            ty = self.ex(t, env)
            if ty.ty == "Ty":
                return Cond(f"(py_optval_isinstance {v.tx} {ty.tx})")
        self.fail(e, f"`{ast.unparse(e)[:70]}` cannot be decided on the model's value universe ({v.ty})")

    def compare(self, e, op, l, r, env) -> Cond:
        a, b = self.ex(l, env), self.ex(r, env)
        neg = isinstance(op, (ast.NotEq, ast.IsNot, ast.NotIn))

        def out(c: Cond):
            return Cond(f"(negb {c.tx})", c.f, c.t) if neg else c
        if isinstance(op, (ast.Eq, ast.NotEq, ast.Is, ast.IsNot)) and (a.ty == "None" or b.ty == "None"):
            v = b if a.ty == "None" else a
            if v.ty == "Arg":
                return out(Cond(f"(py_arg_is_none {v.tx})", Facts({v.tx: (frozenset({"NoneArg"}), DOM["Arg"])}),
                                Facts({v.tx: (frozenset({"Good", "BadArg"}), DOM["Arg"])})))
            if v.ty in ("OptMd", "RawMd"):
                fn = "py_optmd_is_none" if v.ty == "OptMd" else "py_rawmd_is_none"
                return out(Cond(f"({fn} {v.tx})", Facts({v.tx: (frozenset({"None"}), DOM[v.ty])}),
                                Facts({v.tx: (frozenset({"Some"}), DOM[v.ty])})))
            if v.ty == "OptVal":
                return out(Cond(f"(py_optval_is_none {v.tx})"))
            if v.ty == "OptLList":
                return out(Cond(f"(py_optlist_is_none {v.tx})", Facts(), Facts(din={v.get("key")})))
            if v.ty == "LList":
                return out(Cond("false"))
            self.fail(e, f"comparison of a value of kind {v.ty} with None")
        if isinstance(op, (ast.In, ast.NotIn)):
            if b.ty in ("Dict", "KeysView"):
                k = self.as_etid(e, a, env)
                d = b.tx if b.ty == "Dict" else b.get("of")
                return out(Cond(f"(py_dict_in {k} {d})", Facts(din={k}), Facts()))
            if b.ty == "LList":
                x = self.as_lisid(e, a, env)
                lin = {(b.get("alias"), x)} if b.get("alias") else set()
                return out(Cond(f"(py_list_in {x} {b.tx})", Facts(lin=lin), Facts()))
            if b.ty == "Registry" and a.ty == "RegKey":
                return out(Cond(f"(py_set_in {a.tx} {b.tx})"))
            self.fail(e, f"`in` between values of kinds {a.ty} and {b.ty}")
        if a.ty == "Nat" and b.ty == "Nat":
            x, y = a.tx, b.tx
            t = {ast.Eq: f"(Nat.eqb {x} {y})", ast.NotEq: f"(negb (Nat.eqb {x} {y}))", ast.Lt: f"(Nat.ltb {x} {y})",
                 ast.Gt: f"(Nat.ltb {y} {x})", ast.LtE: f"(Nat.leb {x} {y})", ast.GtE: f"(Nat.leb {y} {x})"}.get(type(op))
            if t is None:
                self.fail(e, f"comparison operator {type(op).__name__} on lengths")
            return Cond(t)
        self.fail(e, f"comparison {type(op).__name__} between values of kinds {a.ty} and {b.ty}")

    # ------------------------------------------------------------------ statements (continuation passing)
    def block(self, stmts, env, k):
        if not stmts:
            return k(env)
        return self.stmt(stmts[0], env, lambda e2: self.block(stmts[1:], e2, k))

    def stmt(self, s, env, k):
        c = self.ctx
        if isinstance(s, ast.Pass):
            return k(env)
        if isinstance(s, ast.Expr) and isinstance(s.value, ast.Constant) and isinstance(s.value.value, str):
            return k(env)
        if isinstance(s, ast.Raise):
            return self.raise_(env, self.classify_raise(s, env))
        if isinstance(s, ast.Return):
            if c.check_depth:
                self.fail(s, "return inside a loop")
            if s.value is not None:
                if not c.inline_stack:
                    self.fail(s, "return with a value")
                self.ex(s.value, env)        # the value of a helper called as a statement is dropped; it must be a pure expression
            return c.ret_k(env)
        if isinstance(s, ast.Continue):
            if not c.check_depth:
                self.fail(s, "continue outside a check loop")
            return "None"
        if isinstance(s, ast.If):
            # `not`, `and`, `or` in the test of a statement: nested ifs with the branches repeated, so that every path
            # knows exactly which atomic tests came out how (short-circuit order kept)
            tst = s.test
            if isinstance(tst, ast.UnaryOp) and isinstance(tst.op, ast.Not) and isinstance(tst.operand, (ast.BoolOp, ast.UnaryOp)):
                return self.stmt(ast.copy_location(ast.If(test=tst.operand, body=s.orelse or [ast.copy_location(ast.Pass(), s)],
                                                          orelse=s.body), s), env, k)
            if isinstance(tst, ast.BoolOp):
                first, rest = tst.values[0], tst.values[1:]
                more = rest[0] if len(rest) == 1 else ast.copy_location(ast.BoolOp(op=tst.op, values=rest), tst)
                if isinstance(tst.op, ast.And):
                    inner = ast.copy_location(ast.If(test=more, body=s.body, orelse=s.orelse), s)
                    return self.stmt(ast.copy_location(ast.If(test=first, body=[inner], orelse=s.orelse), s), env, k)
                inner = ast.copy_location(ast.If(test=more, body=s.body, orelse=s.orelse), s)
                return self.stmt(ast.copy_location(ast.If(test=first, body=s.body, orelse=[inner]), s), env, k)
            cd = self.cond(s.test, env)
            outer, outers = env.guard, env.guards

            def back(e2):
                e3 = e2.clone()
                e3.guard, e3.guards = outer, outers
                return k(e3)

            def back_else(e2):
                # `if t: <leaves>` followed by more statements: they stand under `not t`
                e3 = e2.clone()
                if not s.orelse and self.leaves(s.body):
                    e3.guard = (s.test, False, env)
                    e3.guards = outers + (e3.guard,)
                else:
                    e3.guard, e3.guards = outer, outers
                return k(e3)
            et, ef = env.apply(cd.t), env.apply(cd.f)
            et.guard, ef.guard = (s.test, True, env), (s.test, False, env)
            et.guards, ef.guards = outers + (et.guard,), outers + (ef.guard,)
            a = self.block(s.body, et, back)
            b = self.block(s.orelse, ef, back_else)
            return f"if {cd.tx} then\n{ind(blk(a))}\nelse\n{ind(blk(b))}"
        if isinstance(s, (ast.Assign, ast.AnnAssign)):
            if isinstance(s, ast.Assign):
                if len(s.targets) != 1:
                    self.fail(s, "multiple assignment targets")
                target = s.targets[0]
            else:
                target = s.target
                if s.value is None:
                    self.fail(s, "annotation without a value")
            return self.assign(s, target, s.value, env, k)
        if isinstance(s, ast.Delete):
            if len(s.targets) != 1 or not isinstance(s.targets[0], ast.Subscript):
                self.fail(s, "del of something else than one dict entry")
            t = s.targets[0]
            base = self.ex(t.value, env)
            if base.ty != "Dict" or c.mode != "map" or c.check_depth:
                self.fail(s, "del outside a method that works on the listener map")
            key = self.as_etid(s, self.ex(t.slice, env), env)
            if not env.has_in(key):
                self.fail(s, "del of a key that is not known to be in the listener map (KeyError)")
            return self.new_map(env, f"py_dict_del {key} {base.tx}", k, keep=False)
        if isinstance(s, ast.Expr) and isinstance(s.value, ast.Call):
            return self.call_stmt(s.value, env, k)
        if isinstance(s, ast.For):
            return self.for_(s, env, k)
        self.fail(s, f"statement {type(s).__name__}")

    @staticmethod
    def leaves(stmts):
        return bool(stmts) and isinstance(stmts[-1], (ast.Raise, ast.Return, ast.Continue))

    def new_map(self, env, text, k, keep=True, add_in=None, bump=False):
        nm = self.ctx.fresh("m")
        e2 = env.clone()
        e2.dict_tx = nm
        if bump or not keep:
            e2.epoch += 1
        e2.lin = frozenset()
        e2.din = (env.din if keep else frozenset()) | (frozenset({add_in}) if add_in else frozenset())
        return f"let {nm} := {text} in\n{k(e2)}"

    # ---- which refusal a raise is: named by its innermost guard
    def classify_raise(self, s, env):
        e = s.exc
        if s.cause is not None or e is None:
            self.fail(s, "raise without exception / raise ... from")
        if not (isinstance(e, ast.Call) and isinstance(e.func, ast.Name) and e.func.id == "EventError" and not e.keywords
                and "EventError" not in env.locals):
            self.fail(s, f"raise of something else than EventError(..): `{ast.unparse(e)[:50]}`")
        for a in e.args:
            if not isinstance(a, (ast.Constant, ast.JoinedStr, ast.BinOp)) or any(isinstance(n, ast.Call) for n in ast.walk(a)):
                self.fail(a, "EventError argument that is not a text")
        if not env.guards:
            self.fail(s, "unconditional raise")
        # the literals that hold where the raise stands, in evaluation order; the LAST one that names a refusal decides.
        # (The kind is a label of the model - every kind is an EventError in Python; a label the hand-written model
        # does not give makes the agreement proof fail, it cannot make it succeed wrongly.)
        lits = []
        for g in env.guards:
            lits += self.literals(g[0], g[1], env)
        ctor_et = self.ctx.mode == "ctor_et"

        def is_inst(n):
            return isinstance(n, ast.Call) and isinstance(n.func, ast.Name) and n.func.id == "isinstance" and len(n.args) == 2

        def is_len(n):
            return isinstance(n, ast.Call) and isinstance(n.func, ast.Name) and n.func.id == "len"
        for test, pol, lenv in reversed(lits):
            try:
                if is_inst(test) and not pol:
                    v = self.ex(test.args[0], lenv)
                    cl = ast.unparse(test.args[1])
                    if v.ty == "Arg" and not ctor_et:
                        return {"EventType": "ENotEventType", "EventListener": "ENotListener"}[v.get("cls")]
                    if v.ty == "EvArg" and cl in ("Event", "TimedEvent"):
                        return {"Event": "ENotEvent", "TimedEvent": "ENotTimedEvent"}[cl]
                    if v.ty == "Content":
                        return "ENotDict"
                    if v.ty == "Ts":
                        return "ETimestamp"
                    if v.ty == "OptVal":
                        return f"EWrongType {v.get('key')}"
                    if ctor_et and v.ty == "Name":
                        return "ENameNotStr"
                    if ctor_et and v.ty == "MdKey":
                        return "EKeyNotStr"
                    if ctor_et and v.ty == "MdVal":
                        return "EValueNotType"
                if isinstance(test, ast.Compare) and len(test.ops) == 1:
                    op, l, r = test.ops[0], test.left, test.comparators[0]
                    if is_len(l) and is_len(r) and ((isinstance(op, ast.NotEq) and pol) or (isinstance(op, ast.Eq) and not pol)) \
                            and not ctor_et:
                        return "ELength"
                    none_side = [x for x in (l, r) if isinstance(x, ast.Constant) and x.value is None]
                    if none_side and ((isinstance(op, (ast.Eq, ast.Is)) and pol) or (isinstance(op, (ast.NotEq, ast.IsNot)) and not pol)):
                        v = self.ex(r if none_side[0] is l else l, lenv)
                        if v.ty == "OptVal":
                            return f"EMissing {v.get('key')}"
                    if ((isinstance(op, ast.In) and pol) or (isinstance(op, ast.NotIn) and not pol)) and ctor_et \
                            and self.ex(r, lenv).ty == "Registry":
                        return "EDuplicate"
            except Unsupported:
                continue
        self.fail(s, f"raise EventError under the test `{ast.unparse(env.guards[-1][0])[:60]}`, for which the model has no refusal kind")

    def literals(self, test, pol, env):
        """the atomic tests (with polarity and the environment to read them in) known to hold when `test` came out as
        `pol`, in evaluation order; a helper that is one `return <expression>` is looked into"""
        if isinstance(test, ast.UnaryOp) and isinstance(test.op, ast.Not):
            return self.literals(test.operand, not pol, env)
        if isinstance(test, ast.BoolOp) and isinstance(test.op, ast.And if pol else ast.Or):
            out = []
            for v in test.values:
                out += self.literals(v, pol, env)
            return out
        if isinstance(test, ast.Call) and len(self.ctx.inline_stack) < 6:
            try:
                h = self.helper_of(test, env)
                if h is not None:
                    body = self.strip_doc(h[0].body)
                    if len(body) == 1 and isinstance(body[0], ast.Return) and body[0].value is not None:
                        he = self.helper_env(env, self.bind_helper(h[0], h[1], test, env))
                        return self.literals(body[0].value, pol, he)
            except Unsupported:
                pass
        return [(test, pol, env)]

    # ---- assignments
    def assign(self, s, target, value, env, k):
        c = self.ctx
        if c.check_depth and not isinstance(target, ast.Name):
            self.fail(s, "assignment to something else than a local inside a loop")
        if isinstance(target, ast.Name):
            if target.id == "self" or (target.id in env.locals and env.locals[target.id].get("param")):
                self.fail(s, f"assignment to `{target.id}`")
            if isinstance(value, ast.Call) and isinstance(value.func, ast.Name) and value.func.id in ("Event", "TimedEvent") \
                    and value.func.id not in env.locals:
                return self.construct(s, value, env, lambda e2, v: k(self.bind_local(e2, target.id, v)))
            if self.is_setdefault(value, env):
                return self.setdefault(value, env, lambda e2, key: k(self.bind_local(e2, target.id, V("LList", None, lazy=key, epoch=e2.epoch))))
            v = self.ex(value, env)
            if v.ty in ("Dict", "KeysView", "Registry"):
                self.fail(s, "a local name for the listener map / the registry (aliasing of mutable state)")
            if (v.ty == "LList" and v.get("alias")) or v.ty == "OptLList":
                # a name for the list stored under a key: every use reads the map as it is then; the name dies when the
                # entry may have been replaced or dropped (Env.epoch)
                if c.check_depth:
                    self.fail(s, "a local name for a stored list inside a loop")
                v = V("LList", None, lazy=(v.get("alias") or v.get("key")), epoch=env.epoch)
            return k(self.bind_local(env, target.id, v))
        if isinstance(target, ast.Attribute):
            if not (isinstance(target.value, ast.Name) and target.value.id == "self"):
                self.fail(s, "assignment to an attribute of something else than self")
            v = self.ex(value, env)
            if c.mode == "map" and target.attr == "_listeners" and v.ty == "Dict" and v.get("fresh"):
                return self.new_map(env, "[]", k, keep=False)       # a new empty dict in place of the old one
            if c.mode not in ("ctor_ev", "ctor_et", "ctor_prod"):
                self.fail(s, f"assignment to self.{target.attr} outside a constructor")
            e2 = env.clone()
            a = target.attr
            if c.mode == "ctor_prod":
                if a != "_listeners" or v.ty != "Dict" or not v.get("fresh"):
                    self.fail(s, "EventProducer.__init__ assigns something else than self._listeners = dict()")
                e2.fields[a] = v
            elif c.mode == "ctor_ev":
                if a == "_event_type":
                    e2.fields[a] = V("ETId", self.as_etid(s, v, env))
                elif a == "_content" and v.ty == "Content" and v.get("param"):
                    e2.fields[a] = v
                elif a == "_timestamp" and v.ty == "Ts" and c.cls == "TimedEvent":
                    e2.fields[a] = v
                else:
                    self.fail(s, f"self.{a} = <{v.ty}>: not an attribute of the model's event record / not the argument it holds")
            else:
                if a == "_defining_class" and v.ty == "Site":
                    e2.fields[a] = v
                elif a == "_name" and v.ty == "Name":
                    if not self.known(env, v, {"Str"}):
                        self.fail(s, "self._name = name where name is not established to be a str")
                    e2.fields[a] = V("StrId", f"(py_name_id {v.tx})")
                elif a == "_metadata" and v.ty == "RawMd":
                    e2.fields[a] = V("MdDecoded", f"(py_rawmd_decode {v.tx})")
                else:
                    self.fail(s, f"self.{a} = <{v.ty}>: not an attribute of the model's event type record / not the argument it holds")
            return k(e2)
        if isinstance(target, ast.Subscript):
            base = self.ex(target.value, env)
            if base.ty != "Dict" or c.mode != "map":
                self.fail(s, "item assignment outside a method that works on the listener map")
            key = self.as_etid(s, self.ex(target.slice, env), env)
            v = self.ex(value, env)
            if v.ty != "LList" or v.get("alias"):
                self.fail(s, "the listener map is given something else than a fresh list")
            return self.new_map(env, f"py_dict_set {key} {v.tx} {base.tx}", k, keep=True, add_in=key, bump=True)
        self.fail(s, f"assignment target {type(target).__name__}")

    def is_setdefault(self, e, env):
        return isinstance(e, ast.Call) and isinstance(e.func, ast.Attribute) and e.func.attr == "setdefault" \
            and isinstance(e.func.value, ast.Attribute) and ast.unparse(e.func.value) == "self._listeners"

    def setdefault(self, call, env, k):
        """self._listeners.setdefault(key, [])  ==  if key not in d: d[key] = []   (k gets the environment and the key)"""
        c = self.ctx
        if c.mode != "map" or c.check_depth or call.keywords or len(call.args) != 2:
            self.fail(call, "setdefault outside a method that works on the listener map / with other than two arguments")
        base = self.ex(call.func.value, env)
        key = self.as_etid(call, self.ex(call.args[0], env), env)
        v = self.ex(call.args[1], env)
        if v.ty != "LList" or v.get("alias") or v.tx != "[]":
            self.fail(call, "setdefault with a default that is not a fresh empty list")
        e_in = env.apply(Facts(din={key}))
        return (f"if (py_dict_in {key} {base.tx}) then\n{ind(blk(k(e_in, key)))}\nelse\n"
                + ind(blk(self.new_map(env, f"py_dict_set {key} [] {base.tx}", lambda e2: k(e2, key), keep=True, add_in=key, bump=True))))

    @staticmethod
    def bind_local(env, name, v):
        e2 = env.clone()
        e2.locals[name] = v
        return e2

    # ---- converting an argument to the universe of a parameter
    def as_param(self, node, uni, v, env):
        kind, _, tag = uni.partition(":")
        if kind == "Arg":
            if v.ty == "Arg" and v.get("cls") == tag:
                return v.tx
            if v.ty == "None":
                return "NoneArg"
            if (v.ty, tag) in (("ETId", "EventType"), ("LisId", "EventListener")):
                return f"(Good {v.tx})"
        elif kind == "EvArg":
            if v.ty == "EvArg":
                return v.tx
            if v.ty == "Ev":
                return f"(Some {v.tx})"
        elif kind == v.ty and kind in ("Content", "Ts", "Bool"):
            return v.tx
        self.fail(node, f"a value of kind {v.ty} passed for a parameter that stands for {uni}")

    def callee(self, node, cname, mname, args, env):
        key = (cname, mname)
        if key not in MODE:
            self.fail(node, f"call of {cname}.{mname}, which is not a translated method")
        try:
            sig = self.method(cname, mname)
        except Unsupported as exc:
            raise Unsupported(node, f"calls {cname}.{mname}, which could not be translated ({exc.what})")
        if len(args) != len(sig["params"]):
            self.fail(node, f"{cname}.{mname} called with {len(args)} arguments (defaults are not filled in)")
        if sig["uses_E"]:
            self.ctx.uses_E = True
        return sig, [self.as_param(node, u, self.ex(a, env), env) for u, a in zip(sig["params"], args)]

    def construct(self, s, call, env, k):
        """x = Event(..) / TimedEvent(..) in a method that fires"""
        if self.ctx.mode != "fire" or call.keywords:
            self.fail(s, "event construction outside a firing method / with keyword arguments")
        sig, args = self.callee(s, call.func.id, "__init__", call.args, env)
        o, kk = self.ctx.fresh("o"), self.ctx.fresh("k")
        v = V("Ev", o, timed=(call.func.id == "TimedEvent"))
        return (f"match {sig['name']} E {' '.join(args)} with\n| MkErr {kk} => {self.raise_(env, kk)}\n"
                f"| MkOk {o} =>\n{ind(k(env, v))}\nend")

    # ---- calls as statements
    def call_stmt(self, call, env, k):
        c = self.ctx
        f = call.func
        if call.keywords or any(isinstance(a, ast.Starred) for a in call.args):
            self.fail(call, "keyword / starred arguments")
        if isinstance(f, ast.Name):
            h = self.helper_of(call, env)
            if h is not None and not c.check_depth:
                return self.inline_stmt(h[0], h[1], call, env, k)
        if not isinstance(f, ast.Attribute):
            self.fail(call, f"call statement `{ast.unparse(call)[:60]}`")
        # logging: no effect on the publish/subscribe state; the arguments must be pure expressions of the subset
        if isinstance(f.value, ast.Name) and f.value.id == "logger" and "logger" not in env.locals:
            if not self.has_logger or f.attr not in LOG_LEVELS:
                self.fail(call, f"logger.{f.attr}")
            for a in call.args:
                self.ex(a, env)
            return k(env)
        if c.check_depth:
            self.fail(call, "call inside a check loop")
        h = self.helper_of(call, env)
        if h is not None:
            return self.inline_stmt(h[0], h[1], call, env, k)
        if self.is_setdefault(call, env):
            return self.setdefault(call, env, lambda e2, _key: k(e2))
        # self.m(..)
        if isinstance(f.value, ast.Name) and f.value.id == "self":
            sig, args = self.callee(call, c.cls, f.attr, call.args, env)
            if sig["mode"] == "map" and c.mode == "map":
                nm = c.fresh("m")
                e2 = env.forget_map()
                e2.dict_tx = nm
                return f"pbind ({sig['name']} {env.dict_tx} {' '.join(args)}) (fun {nm} =>\n{ind(k(e2))})"
            if sig["mode"] == "fire" and c.mode == "fire":
                nm = c.fresh("s")
                e2 = env.forget_map()
                e2.state_tx = nm
                return (f"bind_res ({sig['name']}{' E' if sig['uses_E'] else ''} step {env.state_tx} p {' '.join(args)}) (fun {nm} =>\n"
                        f"{ind(k(e2))})")
            self.fail(call, f"call of self.{f.attr}() ({sig['mode']}) from a method of kind {c.mode}")
        # super().__init__(..)
        if isinstance(f.value, ast.Call) and isinstance(f.value.func, ast.Name) and f.value.func.id == "super" \
                and not f.value.args and not f.value.keywords:
            if c.mode != "ctor_ev" or f.attr != "__init__" or not BASES[c.cls]:
                self.fail(call, "super() call other than the base constructor of an event")
            sig, args = self.callee(call, BASES[c.cls][0], "__init__", call.args, env)
            o, kk = c.fresh("o"), c.fresh("k")
            e2 = env.clone()
            e2.fields["_event_type"] = V("ETId", f"(ev_type {o})")
            e2.fields["_content"] = V("Content", f"(ev_content {o})")
            return (f"match {sig['name']} E {' '.join(args)} with\n| MkErr {kk} => {self.raise_(env, kk)}\n"
                    f"| MkOk {o} =>\n{ind(k(e2))}\nend")
        # EventType.__defined_types.add(key)
        base = self.ex(f.value, env)
        if base.ty == "Registry" and f.attr == "add" and len(call.args) == 1:
            key = self.ex(call.args[0], env)
            if key.ty != "RegKey":
                self.fail(call, "something else than <defining class>.<name> added to the registry")
            nm = c.fresh("reg")
            e2 = env.clone()
            e2.reg_tx = nm
            return f"let {nm} := py_set_add {key.tx} {base.tx} in\n{k(e2)}"
        if base.ty == "Dict" and f.attr == "clear" and not call.args and c.mode == "map":
            return self.new_map(env, "[]", k, keep=False)
        if base.ty == "Dict" and f.attr == "pop" and c.mode == "map" and (
                len(call.args) == 1 or (len(call.args) == 2 and self.ex(call.args[1], env).ty == "None")):
            key = self.as_etid(call, self.ex(call.args[0], env), env)
            if env.has_in(key):
                return self.new_map(env, f"py_dict_del {key} {base.tx}", k, keep=False)
            if len(call.args) == 1:
                self.fail(call, "pop of a key that is not known to be in the listener map (KeyError)")
            return (f"if (py_dict_in {key} {base.tx}) then\n" + ind(blk(self.new_map(env, f"py_dict_del {key} {base.tx}", k, keep=False)))
                    + f"\nelse\n{ind(blk(k(env)))}")
        if base.ty == "LList" and f.attr in ("append", "remove") and len(call.args) == 1 and c.mode == "map":
            key = base.get("alias")
            if not key:
                self.fail(call, f".{f.attr}() on a list that is not stored in the listener map")
            x = self.as_lisid(call, self.ex(call.args[0], env), env)
            if f.attr == "remove" and not env.has_lin((key, x)):
                self.fail(call, "list.remove(x) where x is not known to be in the list (ValueError)")
            fn = "py_list_append" if f.attr == "append" else "py_list_remove"
            new = f"({fn} {base.tx} {x})" if f.attr == "append" else f"({fn} {x} {base.tx})"
            return self.new_map(env, f"py_dict_set {key} {new} {env.dict_tx}", k, keep=True, add_in=key)
        self.fail(call, f"call statement `{ast.unparse(call)[:60]}`")

    # ---- loops
    def for_(self, s, env, k):
        c = self.ctx
        if s.orelse:
            self.fail(s, "for ... else")
        if not isinstance(s.target, ast.Name) or s.target.id == "self":
            self.fail(s, "loop target that is not a plain name")
        if c.check_depth:
            self.fail(s, "nested loop")
        var = s.target.id
        it = self.ex(s.iter, env)
        if it.ty == "OptMd":            # `for key in metadata:` iterates the keys
            d = self.as_md(s, it, env)
            it = V("KeyList", f"(py_md_keys {d})", of=d, elem="Key")
        elif it.ty == "RawMd":
            d = self.as_rawitems(s, it, env)
            it = V("KeyList", f"(py_rawmd_keys {d})", of=d, elem="MdKey")
        for n in ast.walk(s):
            if isinstance(n, ast.Break) or (isinstance(n, ast.Continue) and it.ty != "KeyList"):
                self.fail(n, type(n).__name__)

        def after(e2):
            e3 = e2.clone()
            e3.locals.pop(var, None)         # the loop variable is not used after the loop
            return k(e3)
        # (check) over the keys of a metadata dict: the body only tests and raises
        if it.ty == "KeyList":
            v = "v_" + var
            eb = env.clone()
            eb.locals[var] = V(it.get("elem"), v)
            eb.loopvars[v] = it.get("of")
            eb.guard, eb.guards = None, ()
            c.check_depth += 1
            try:
                body = self.block(s.body, eb, self.finish)
            finally:
                c.check_depth -= 1
            kk = c.fresh("k")
            return (f"match py_for_check (fun {v} =>\n{ind(body, 4)}) {it.tx} with\n"
                    f"| Some {kk} => {self.raise_(env, kk)}\n| None =>\n{ind(after(env))}\nend")
        # (mutate) over a snapshot of the keys of the listener map
        if it.ty == "ETList":
            if c.mode != "map":
                self.fail(s, "loop over the event types of the listener map outside a method that works on the map")
            v = "v_" + var
            acc = c.fresh("m")
            eb = env.forget_map()
            eb.dict_tx = acc
            eb.locals[var] = V("ETId", v)
            if len(s.body) != 1 or not (isinstance(s.body[0], ast.Expr) and isinstance(s.body[0].value, ast.Call)):
                self.fail(s, "loop body over the event types that is more than one method call")
            body = self.call_stmt(s.body[0].value, eb, self.finish)
            nm = c.fresh("m")
            e2 = env.forget_map()
            e2.dict_tx = nm
            return (f"pbind (py_for_mut (fun {acc} {v} =>\n{ind(body, 4)}) {it.tx} {env.dict_tx}) (fun {nm} =>\n"
                    f"{ind(after(e2))})")
        if it.ty == "KeysView":
            self.fail(s, "iteration over the live key view of the listener map (use a snapshot: list(d.keys()))")
        # (notify)
        if it.ty == "LList":
            if c.mode != "fire" or not c.in_ghost:
                self.fail(s, "loop over listeners outside a firing method")
            b = s.body
            ok = len(b) == 1 and isinstance(b[0], ast.Expr) and isinstance(b[0].value, ast.Call)
            call = b[0].value if ok else None
            ok = ok and isinstance(call.func, ast.Attribute) and call.func.attr == "notify" and isinstance(call.func.value, ast.Name) \
                and call.func.value.id == var and len(call.args) == 1 and not call.keywords
            if not ok:
                self.fail(s, "loop body over listeners that is not exactly `<listener>.notify(<event>)`")
            arg = self.ex(call.args[0], env)
            if arg.ty not in ("EvArg", "Ev") or self.as_event(call, arg, env) != c.event_tx:
                self.fail(call, "notify() is given something else than the event this method was called with")
            nm = c.fresh("s")
            e2 = env.forget_map()
            e2.state_tx = nm
            if it.get("alias"):
                er = env.clone()
                er.state_tx = "s'"
                rd = self.ex(s.iter, er)
                loop = (f"py_for_notify_live (py_live_fuel {env.state_tx} {it.tx}) step i {c.event_tx} "
                        f"(fun s' => {rd.tx}) O {env.state_tx}")
            else:
                loop = f"py_for_notify step i {c.event_tx} {env.state_tx} {it.tx}"
            return f"bind_res ({loop}) (fun {nm} =>\n{ind(after(e2))})"
        if it.ty == "OptLList":
            self.fail(s, "iteration over the result of dict.get(), which is None when the key is absent")
        self.fail(s, f"iteration over a value of kind {it.ty}")

    # ---- a method of the fire family
    def helper_by_name(self, call):
        """the helper a call statement names, without an environment (used to look ahead)"""
        f = call.func
        if isinstance(f, ast.Attribute) and isinstance(f.value, ast.Name) and f.value.id == "self" and (self.ctx.cls, f.attr) not in MODE:
            cname = self.ctx.cls
            while cname in MODE_CLASSES:
                fd = self.find_method(cname, f.attr, call)
                if fd is not None:
                    return fd
                cname = BASES[cname][0] if BASES[cname] else None
        if isinstance(f, ast.Name) and f.id in self.functions:
            return self.functions[f.id]
        return None

    def notifies(self, stmts, depth=0):
        for st in stmts:
            for n in ast.walk(st):
                if isinstance(n, ast.Call):
                    if isinstance(n.func, ast.Attribute) and n.func.attr == "notify":
                        return True
                    fd = self.helper_by_name(n)
                    if fd is not None and depth < 6 and self.notifies(fd.body, depth + 1):
                        return True
        return False

    def is_guard(self, st, depth=0):
        """an argument guard: `if <test>: raise ..`, or a call of a helper that consists of such guards"""
        if isinstance(st, ast.If) and not st.orelse and len(st.body) == 1 and isinstance(st.body[0], ast.Raise):
            return True
        if isinstance(st, ast.Expr) and isinstance(st.value, ast.Call) and depth < 6:
            fd = self.helper_by_name(st.value)
            if fd is not None:
                body = self.strip_doc(fd.body)
                return bool(body) and all(self.is_guard(b, depth + 1) for b in body)
        return False

    def fire_method(self, body, env):
        c = self.ctx
        env.state_tx = "s"
        if not self.notifies(body):
            return self.block(body, env, self.finish)
        n = 0
        while n < len(body) and self.is_guard(body[n]):
            n += 1
        evs = [v for v in env.locals.values() if v.ty == "EvArg"]
        if len(evs) != 1:
            self.fail(c.node, "a method that notifies listeners must have exactly one event parameter")

        def invocation(e2):
            ev = self.as_event(c.node, evs[0], e2)
            c.event_tx, c.in_ghost = ev, True
            e3 = e2.forget_map()
            e3.state_tx = "s_0"
            inner = self.block(body[n:], e3, self.finish)
            c.in_ghost = False
            return f"py_fire_invocation {e2.state_tx} p {ev} (fun i s_0 =>\n{ind(inner)})"
        return self.block(body[:n], env, invocation)


def translate(text: str, keep_going: bool = False):
    tr = Translator(text)
    failures = []
    for cname, mname, _mode in METHODS:
        snap = (len(tr.defs), dict(tr.sigs), len(tr.translated))
        try:
            tr.method(cname, mname)
        except Unsupported as exc:
            if not keep_going:
                raise
            del tr.defs[snap[0]:]
            tr.sigs = snap[1]
            del tr.translated[snap[2]:]
            tr.failed[(cname, mname)] = exc
            failures.append({"class": cname, "method": mname, "definition": f"gen_{cname}_{mname}", "line": exc.lineno,
                             "construct": exc.what, "error": str(exc)})
    return tr, failures


def render(tr: Translator, src_sha: str) -> str:
    out = ["(* GENERATED by translator/py2gallina_pubsub.py from src/pydsol/core/pubsub.py -- do not edit.",
           f"   sha1 of the source file (line ends normalised): {src_sha}",
           "   Shallow embedding of the method bodies over the value universe of PubSub/Model.v and",
           "   PubSub/TypeModel.v; see the translator for the subset and its meaning.  PubSub/GenAgree.v",
           "   proves every definition equal to the hand-written model. *)",
           "From Coq Require Import ZArith List Bool Arith.",
           "From PV Require Import PubSub.Model PubSub.TypeModel.",
           "Import ListNotations.",
           PRELUDE]
    for d in tr.defs:
        out.append(d)
        out.append("")
    return "\n".join(out) + "\n"


def main(argv):
    out_dir, keep_going, i = None, False, 0
    while i < len(argv):
        if argv[i] == "--out" and i + 1 < len(argv):
            out_dir = Path(argv[i + 1])
            i += 2
        elif argv[i] == "--keep-going":
            keep_going = True
            i += 1
        else:
            print(f"usage: {sys.argv[0]} [--out DIR [--keep-going]]", file=sys.stderr)
            return 64
    keep_going = keep_going and out_dir is not None

    def report(info):
        if out_dir is not None:
            out_dir.mkdir(parents=True, exist_ok=True)
            (out_dir / "Gen_PubSub.json").write_text(json.dumps(info, indent=1) + "\n")

    def whole(line, construct, msg):
        return {"class": None, "method": None, "definition": None, "line": line, "construct": construct, "error": msg}
    try:
        raw = SRC.read_bytes()
    except OSError as exc:
        print(f"py2gallina_pubsub: cannot read {SRC}: {exc}", file=sys.stderr)
        report({"ok": False, "repo": str(REPO), "source": str(SRC), "methods": [], "failures": [whole(0, "unreadable source", str(exc))]})
        return 2
    text = raw.decode("utf-8", errors="replace").replace("\r\n", "\n").replace("\r", "\n")
    src_sha = hashlib.sha1(text.encode("utf-8")).hexdigest()
    base = {"repo": str(REPO), "source": str(SRC), "source_sha1": src_sha}
    try:
        tr, failures = translate(text, keep_going)
    except Unsupported as exc:
        print(f"py2gallina_pubsub: TRANSLATION FAILED\n{exc}", file=sys.stderr)
        report({**base, "ok": False, "methods": [], "failures": [whole(exc.lineno, exc.what, str(exc))]})
        return 2
    except SyntaxError as exc:
        msg = f"{SRC}:{exc.lineno}: unsupported construct: syntax error: {exc.msg}"
        print(f"py2gallina_pubsub: TRANSLATION FAILED\n{msg}", file=sys.stderr)
        report({**base, "ok": False, "methods": [], "failures": [whole(exc.lineno or 0, "syntax error", msg)]})
        return 2
    gen = render(tr, src_sha)
    target = (out_dir or (VERIF / "coq" / "PubSub")) / "Gen_PubSub.v"
    target.parent.mkdir(parents=True, exist_ok=True)
    if not target.exists() or target.read_text() != gen:
        target.write_text(gen)
    h = hashlib.sha1()
    for r in sorted(tr.translated, key=lambda r: (r["lines"][0], r["definition"])):
        h.update((r["definition"] + ":" + r["sha1"] + "\n").encode())
    info = {**base, "ok": not failures, "translated_text_sha1": h.hexdigest(),
            "generated_sha1": hashlib.sha1(gen.encode()).hexdigest(), "methods": tr.translated, "failures": failures}
    if out_dir is not None:
        (out_dir / "Gen_PubSub.json").write_text(json.dumps(info, indent=1) + "\n")
    for f in failures:
        print(f"py2gallina_pubsub: TRANSLATION FAILED ({f['class']}.{f['method']} left out)\n{f['error']}", file=sys.stderr)
    print(f"py2gallina_pubsub: {len(tr.translated)} definitions from {SRC} -> {target} "
          f"(translated text sha1 {info['translated_text_sha1'][:12]})")
    return 2 if failures else 0


if __name__ == "__main__":
    sys.exit(main(sys.argv[1:]))
