(* WeightedTally of pydsol/core/statistics.py, written once over [Num]
   (see Stats/Num.v; Stats/Timestamp.v builds the time-weighted tally on it).

   [wregister] follows WeightedTally.register statement by statement: the four
   isinstance / isnan checks in the order of the code, weight < 0, min / max := +-inf
   when n = 0, min, max and n updated BEFORE the zero-weight early return, then
   ([value = float(value)] after the checks is the identity on [ONum]'s universe),
   n_nonzero, sum_of_weights, the weighted mean (Python association
   [(weight / sum) * (value - prev)]), weight_times_variance and weighted_sum.
   Every getter returns [Val x | NaNres | Raise k].

   [wregister_gen clamp]: with [clamp = true] the increment of
   weight_times_variance is [max(increment, 0.0)] -- the REPAIRED accumulator
   (proposed_fixes/C10-weighted-variance-negative.patch); with [clamp = false]
   it is the bare product of the tree before that repair, kept for the
   refutation theorem only.  The getters model the code after /repo commit
   58d98fe (NaN when the total weight is zero).

   Executable definitions only (no proofs). *)
From Coq Require Import ZArith QArith Bool List.
From Coq Require PrimFloat.
From PV Require Import Stats.Num.
Import ListNotations.

Section WeightedModel.
  Variable N : Num.
  Local Open Scope num_scope.
  Local Notation F := (F N).
  Local Notation "# z" := (@ofZ N z%Z) (at level 5, z at level 0, format "# z").

  Record wstate := mkW {
    wn : Z;                      (* _n *)
    wnz : Z;                     (* _n_nonzero *)
    wsw : F;                     (* _sum_of_weights *)
    wmean : F;                   (* _weighted_mean *)
    wwtv : F;                    (* _weight_times_variance *)
    wsum : F;                    (* _weighted_sum *)
    wmin : xnum F; wmax : xnum F
  }.

  Definition winit : wstate := mkW 0 0 zero zero zero zero XNaN XNaN.

  (* ---- the argument checks shared by the weighted and the timestamped tally ---- *)
  (* not isinstance(x, (int, float)) *)
  Definition arg_not_number (o : pyarg F) : bool :=
    match o with ONotNumber => true | _ => false end.
  (* what  if math.isnan(x): raise ValueError  does for a number x *)
  Definition arg_isnan_exn (o : pyarg F) : option exn :=
    match o with
    | ONum v => if isnan v then Some ValueError else None
    | ONaN => Some ValueError
    | OHugeInt => Some OverflowError       (* int too large to convert to float *)
    | ONotNumber => Some TypeError         (* not reached: checked before *)
    end.
  Definition arg_val (o : pyarg F) : F := match o with ONum v => v | _ => zero end.

  Definition wregister_gen (clamp : bool) (s : wstate) (ow ov : pyarg F) : outcome wstate :=
    if arg_not_number ow then Exn TypeError s else
    if arg_not_number ov then Exn TypeError s else
    match arg_isnan_exn ov with Some k => Exn k s | None =>
    match arg_isnan_exn ow with Some k => Exn k s | None =>
    let weight := arg_val ow in
    let value := arg_val ov in
    if ltb weight zero then Exn ValueError s else
    let mn0 := if (wn s =? 0)%Z then XPInf else wmin s in
    let mx0 := if (wn s =? 0)%Z then XNInf else wmax s in
    let mn := if x_gt_val mn0 value then XFin value else mn0 in
    let mx := if x_lt_val mx0 value then XFin value else mx0 in
    let n1 := (wn s + 1)%Z in
    if eqb weight zero
    then Ok (mkW n1 (wnz s) (wsw s) (wmean s) (wwtv s) (wsum s) mn mx)
    else
    let nz1 := (wnz s + 1)%Z in
    let sw := wsw s + weight in
    let prev := wmean s in
    if eqb sw zero          (* weight / sum_of_weights; cannot happen for weight > 0 *)
    then Exn ZeroDivisionError (mkW n1 nz1 sw prev (wwtv s) (wsum s) mn mx)
    else
    let mean := prev + weight / sw * (value - prev) in
    let increment := weight * (value - prev) * (value - mean) in
    let wtv := wwtv s + (if clamp then pymax increment zero else increment) in
    let sm := wsum s + weight * value in
    Ok (mkW n1 nz1 sw mean wtv sm mn mx)
    end end.

  Definition wregister := wregister_gen true.

  Inductive wop := WReg (ow ov : pyarg F) | WInit.

  Definition wstep (s : wstate) (op : wop) : outcome wstate :=
    match op with WReg ow ov => wregister s ow ov | WInit => Ok winit end.

  Fixpoint wrun (s : wstate) (ops : list wop) : wstate :=
    match ops with [] => s | op :: r => wrun (state_of (wstep s op)) r end.

  (* ---------------- getters ---------------- *)
  Definition gw_n (s : wstate) : Z := wn s.
  Definition gw_min (s : wstate) : xnum F := wmin s.
  Definition gw_max (s : wstate) : xnum F := wmax s.
  Definition gw_sum (s : wstate) : F := wsum s.

  Definition gw_mean (s : wstate) : res F :=
    if (0 <? wn s)%Z then Val (wmean s) else NaNres.

  Definition gw_variance (biased : bool) (s : wstate) : res F :=
    if (0 <? wn s)%Z && ltb zero (wsw s) then
      match pdiv (wwtv s) (wsw s) with
      | Raise k => Raise k | NaNres => NaNres
      | Val w_pop_var =>
        if biased then Val w_pop_var
        else if (1 <? wnz s)%Z then pdiv (w_pop_var * #(wnz s)) #(wnz s - 1)
        else NaNres
      end
    else NaNres.

  (* math.sqrt(self.weighted_variance(biased)) *)
  Definition gw_stdev (biased : bool) (s : wstate) : res F :=
    match gw_variance biased s with
    | Val v => psqrt v
    | NaNres => NaNres
    | Raise k => Raise k
    end.
End WeightedModel.

Arguments mkW {N} _ _ _ _ _ _ _ _.
Arguments wn {N} _.
Arguments wnz {N} _.
Arguments wsw {N} _.
Arguments wmean {N} _.
Arguments wwtv {N} _.
Arguments wsum {N} _.
Arguments wmin {N} _.
Arguments wmax {N} _.
Arguments WReg {N} ow ov.
Arguments WInit {N}.

(* ====================================================================== *)
(* Correspondence with the implementation (binary64 instance)              *)
(* ====================================================================== *)
Local Notation fl := PrimFloat.float.

(* all getters of a WeightedTally as observed on the implementation *)
Record wsnap := mkWS {
  ws_n : Z;
  ws_min : fl; ws_max : fl; ws_sum : fl;
  ws_mean : gres;
  ws_var_b : gres; ws_var_u : gres;
  ws_sd_b : gres; ws_sd_u : gres
}.

Definition wsnap_checks (s : wstate NumF) (p : wsnap) : list bool :=
  [ Z.eqb (gw_n NumF s) (ws_n p);
    xnum_match (gw_min NumF s) (ws_min p);
    xnum_match (gw_max NumF s) (ws_max p);
    feq (gw_sum NumF s) (ws_sum p);
    res_match (gw_mean NumF s) (ws_mean p);
    res_match (gw_variance NumF true s) (ws_var_b p);
    res_match (gw_variance NumF false s) (ws_var_u p);
    res_match (gw_stdev NumF true s) (ws_sd_b p);
    res_match (gw_stdev NumF false s) (ws_sd_u p) ].

Fixpoint first_false_w (i : nat) (l : list bool) : option nat :=
  match l with [] => None | b :: r => if b then first_false_w (S i) r else Some i end.

Definition wcase_step := (wop NumF * ekind * option wsnap)%type.

(* first disagreement: (step index, getter index; 99 = how the call ended) *)
Fixpoint wcase_diag (i : nat) (s : wstate NumF) (c : list wcase_step) : option (nat * nat) :=
  match c with
  | [] => None
  | (op, e, sn) :: r =>
    let o := wstep NumF s op in
    if negb (kind_match o e) then Some (i, 99%nat) else
    let s' := state_of o in
    match sn with
    | None => wcase_diag (S i) s' r
    | Some p =>
      match first_false_w 0%nat (wsnap_checks s' p) with
      | Some g => Some (i, g)
      | None => wcase_diag (S i) s' r
      end
    end
  end.

Definition wcase_ok (c : list wcase_step) : bool :=
  match wcase_diag 0%nat (winit NumF) c with None => true | Some _ => false end.
