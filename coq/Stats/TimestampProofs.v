(* C10 -- proofs about the TimestampWeightedTally model of Stats/Timestamp.v.

   For every arithmetic instance: an earlier timestamp is refused without any
   change, NaN / non-number arguments likewise, a closed tally ignores every
   call until the next initialize, initialize forgets the past.

   In exact rational arithmetic: for (time, value) pairs with non-decreasing
   times, closed with an end time, the weighted sum is the integral of the
   piecewise-constant signal from the first time to the end time, the total
   weight is that span, the weighted mean is the time average; and in every
   reachable state no getter raises. *)
From Coq Require Import ZArith QArith Qfield Bool List Lia Lqa.
From PV Require Import Stats.Num Stats.Tally Stats.TallyProofs Stats.Weighted Stats.WeightedProofs Stats.Timestamp.
Import ListNotations.
Local Open Scope Q_scope.

(* ====================================================================== *)
(* Facts for every arithmetic instance                                      *)
(* ====================================================================== *)
Definition tsrejected (N : Num) (ot ov : pyarg (F N)) : bool :=
  match ot, ov with
  | ONum t, ONum v => isnan v || isnan t
  | _, _ => true
  end.

(* NaN, non-numbers and ints beyond the float range are refused, nothing changes *)
Theorem ts_rejected_unchanged : forall (N : Num) (s : tsstate N) ot ov,
  tsrejected N ot ov = true -> exists k, tsregister N s ot ov = Exn k s.
Proof.
  intros N s ot ov H. unfold tsregister.
  destruct ot as [t | | |]; destruct ov as [v | | |];
    cbn [tsrejected arg_not_number arg_isnan_exn arg_val] in *; try (eexists; reflexivity).
  - destruct (isnan v); [eexists; reflexivity |]. cbn [orb] in H. rewrite H. eexists; reflexivity.
  - destruct (isnan v); eexists; reflexivity.
  - destruct (isnan v); eexists; reflexivity.
Qed.

(* an earlier timestamp is refused (open or closed), nothing changes *)
Theorem ts_earlier_rejected : forall (N : Num) (s : tsstate N) (t v l : F N),
  ts_last s = Some l -> isnan t = false -> isnan v = false -> ltb t l = true ->
  tsregister N s (ONum t) (ONum v) = Exn ValueError s.
Proof.
  intros N s t v l HL Ht Hv Hlt. unfold tsregister.
  cbn [arg_not_number arg_isnan_exn arg_val]. rewrite Hv, Ht, HL, Hlt. reflexivity.
Qed.

Theorem ts_end_earlier_rejected : forall (N : Num) (s : tsstate N) (t l : F N),
  ts_last s = Some l -> isnan t = false -> isnan (ts_lastval s) = false -> ltb t l = true ->
  ts_end N s (ONum t) = Exn ValueError s.
Proof.
  intros N s t l HL Ht Hv Hlt. unfold ts_end. rewrite (ts_earlier_rejected N s t _ l HL Ht Hv Hlt). reflexivity.
Qed.

(* once closed, every call except initialize leaves the statistics untouched
   and the tally closed (only last_value keeps tracking, as documented) *)
Lemma tsregister_closed : forall (N : Num) (s : tsstate N) ot ov,
  ts_active s = false ->
  let s' := state_of (tsregister N s ot ov) in
  ts_w s' = ts_w s /\ ts_start s' = ts_start s /\ ts_last s' = ts_last s /\ ts_active s' = false.
Proof.
  intros N s ot ov H. unfold tsregister. rewrite H, andb_false_r.
  destruct (arg_not_number N ot); [cbn; auto |].
  destruct (arg_not_number N ov); [cbn; auto |].
  destruct (arg_isnan_exn N ov); [cbn; auto |].
  destruct (arg_isnan_exn N ot); [cbn; auto |].
  destruct (match ts_last s with Some l => ltb (arg_val N ot) l | None => false end); cbn; auto.
Qed.

Theorem ts_closed_ignores : forall (N : Num) (s : tsstate N) (op : tsop N),
  ts_active s = false -> op <> TsInit ->
  let s' := state_of (tsstep N s op) in
  ts_w s' = ts_w s /\ ts_start s' = ts_start s /\ ts_last s' = ts_last s /\ ts_active s' = false.
Proof.
  intros N s op H NI. destruct op as [ot ov | ot |]; [| | congruence]; cbn [tsstep].
  - apply tsregister_closed. exact H.
  - unfold ts_end. pose proof (tsregister_closed N s ot (ONum (ts_lastval s)) H) as C.
    destruct (tsregister N s ot (ONum (ts_lastval s))) as [s1 | k s1]; cbn [state_of] in *.
    + cbn. tauto.
    + exact C.
Qed.

(* ... for a whole sequence of calls without initialize *)
Theorem ts_closed_ignores_run : forall (N : Num) (ops : list (tsop N)) (s : tsstate N),
  ts_active s = false -> Forall (fun op => op <> TsInit) ops ->
  let s' := tsrun N s ops in
  ts_w s' = ts_w s /\ ts_start s' = ts_start s /\ ts_last s' = ts_last s /\ ts_active s' = false.
Proof.
  induction ops as [| op r IH]; intros s H NI; [cbn; auto |].
  inversion NI; subst. cbn [tsrun].
  destruct (ts_closed_ignores N s op H H2) as [A [B [C D]]].
  destruct (IH _ D H3) as [A' [B' [C' D']]].
  cbn zeta. rewrite A', B', C', A, B, C. auto.
Qed.

Lemma tsrun_app : forall (N : Num) ops1 ops2 (s : tsstate N),
  tsrun N s (ops1 ++ ops2) = tsrun N (tsrun N s ops1) ops2.
Proof. induction ops1; intros; cbn [app tsrun]; [reflexivity | apply IHops1]. Qed.

(* initialize reopens and forgets the past *)
Theorem ts_initialize_resets : forall (N : Num) pre post (s : tsstate N),
  tsrun N s (pre ++ TsInit :: post) = tsrun N (tsinit N) post.
Proof. intros N pre post s. rewrite tsrun_app. reflexivity. Qed.

Theorem ts_initialize_reopens : forall (N : Num) (s : tsstate N),
  tsstep N s TsInit = Ok (tsinit N) /\ ts_active (tsinit N) = true.
Proof. intros. split; reflexivity. Qed.

(* ====================================================================== *)
(* Exact arithmetic                                                        *)
(* ====================================================================== *)
(* integral from tl to T of the signal that is vl from tl on and then takes
   the value v at each later time t of [rest] (the last one given at a time wins) *)
Fixpoint integ_from (tl vl : Q) (rest : list (Q * Q)) (T : Q) : Q :=
  match rest with
  | [] => (T - tl) * vl
  | (t, v) :: r => (t - tl) * vl + integ_from t v r T
  end.

(* tl <= t1 <= t2 <= ... <= T *)
Fixpoint nondecr_from (tl : Q) (rest : list (Q * Q)) (T : Q) : Prop :=
  match rest with
  | [] => tl <= T
  | (t, _) :: r => tl <= t /\ nondecr_from t r T
  end.

Lemma wpos_id : forall obs, all_positive obs -> wpos obs = obs.
Proof.
  induction obs as [| [w x] r IH]; intros H; [reflexivity |].
  inversion H; subst. cbn [fst] in *. unfold wpos. cbn [filter].
  rewrite (proj2 (wpositive_true w x) H2). f_equal. apply IH. exact H3.
Qed.

Section TimestampQ.
  Variable sq : Q -> Q.
  Hypothesis sq_proper : forall a b, a == b -> sq a == sq b.

  Local Notation NQ := (NumQ sq).

  Definition tsreg (p : Q * Q) : tsop NQ := @TsReg NQ (@ONum (F NQ) (fst p)) (@ONum (F NQ) (snd p)).
  Definition tsend (T : Q) : tsop NQ := @TsEnd NQ (@ONum (F NQ) T).

  (* the weighted part holds the textbook sums of some list of positively
     weighted observations whose total weight is [span] and weighted sum [K] *)
  Definition w_holds (span K : Q) (w : wstate NQ) : Prop :=
    exists obs, wacc_ok sq obs w /\ all_positive obs /\ sw obs == span /\ swx obs == K.

  (* open tally: started at a, latest time tl with value vl pending *)
  Record open_ok (a tl vl K : Q) (s : tsstate NQ) : Prop := mk_open_ok {
    oo_start : ts_start s = Some a;
    oo_last : exists l, ts_last s = Some l /\ l == tl;
    oo_val : ts_lastval s = vl;
    oo_active : ts_active s = true;
    oo_w : w_holds (tl - a) K (ts_w s)
  }.

  Lemma first_point : forall t0 v0,
    tsregister NQ (tsinit NQ) (@ONum (F NQ) t0) (@ONum (F NQ) v0) =
      Ok (mkTSt (N := NQ) (winit NQ) (Some t0) (Some t0) v0 true)
    /\ open_ok t0 t0 v0 0 (mkTSt (N := NQ) (winit NQ) (Some t0) (Some t0) v0 true).
  Proof.
    intros. split; [reflexivity |].
    constructor; cbn; try reflexivity.
    - exists t0. split; reflexivity.
    - exists []. split; [apply (wacc_ok_init sq) |]. split; [constructor |]. split; cbn [sw swx]; ring.
  Qed.

  (* one more point at a time t >= tl *)
  Lemma open_step : forall a tl vl K s t v, open_ok a tl vl K s -> tl <= t ->
    exists s', tsregister NQ s (@ONum (F NQ) t) (@ONum (F NQ) v) = Ok s' /\
               open_ok a t v (K + (t - tl) * vl) s'.
  Proof.
    intros a tl vl K s t v [Hs [l [Hl El]] Hv Ha [obs [OKw [AP [Sw Sx]]]]] Le.
    unfold tsregister. cbn [arg_not_number arg_isnan_exn arg_val isnan NumQ].
    rewrite Hl, Ha, Hs.
    assert (L1 : @ltb NQ t l = false) by (apply (ltb_false sq); lra).
    rewrite L1.
    destruct (@ltb NQ l t) eqn:L2; cbn [andb].
    - (* the time advances: (t - l, vl) is registered *)
      apply (ltb_true sq) in L2.
      cbn [zero sub NumQ].
      assert (PM : @pymax NQ (0:Q) (t - l) = t - l).
      { unfold pymax. assert (X : @ltb NQ (0:Q) (t - l) = true) by (apply (ltb_true sq); lra). rewrite X. reflexivity. }
      rewrite PM, Hv.
      assert (NN : 0 <= t - l) by lra.
      destruct (wacc_ok_step sq obs (ts_w s) (t - l) vl OKw NN) as [w' [E OK']].
      rewrite E. eexists; split; [reflexivity |].
      constructor; cbn [ts_start ts_last ts_lastval ts_active ts_w]; try reflexivity; try assumption.
      + exists t. split; reflexivity.
      + exists (obs ++ [(t - l, vl)]). split; [exact OK' |]. split; [| split].
        * apply Forall_app. split; [exact AP | constructor; [cbn [fst]; lra | constructor]].
        * rewrite sw_app1, Sw. lra.
        * rewrite swx_app1, Sx, El. reflexivity.
    - (* a repeated timestamp: only the pending value is replaced *)
      apply (ltb_false sq) in L2.
      eexists; split; [reflexivity |].
      assert (Et : t == tl) by lra.
      constructor; cbn [ts_start ts_last ts_lastval ts_active ts_w]; try reflexivity; try assumption.
      + exists l. split; [reflexivity | lra].
      + exists obs. split; [exact OKw |]. split; [exact AP |]. split.
        * rewrite Sw, Et. reflexivity.
        * rewrite Sx, Et. ring.
  Qed.

  (* closed tally: started at a, closed at T *)
  Definition closed_ok (a T K : Q) (s : tsstate NQ) : Prop :=
    ts_active s = false /\ ts_start s = Some a /\ w_holds (T - a) K (ts_w s).

  Lemma open_run_end : forall rest a tl vl K s T,
    open_ok a tl vl K s -> nondecr_from tl rest T ->
    closed_ok a T (K + integ_from tl vl rest T) (tsrun NQ s (map tsreg rest ++ [tsend T])).
  Proof.
    induction rest as [| [t v] r IH]; intros a tl vl K s T H ND.
    - cbn [map app tsrun nondecr_from integ_from] in *. unfold tsend. cbn [tsstep]. unfold ts_end.
      pose proof (oo_val _ _ _ _ _ H) as Hv.
      destruct (open_step a tl vl K s T (ts_lastval s) H ND) as [s' [E [Hs _ _ _ Hw]]].
      rewrite E. cbn [state_of]. split; [reflexivity |]. split; [exact Hs | exact Hw].
    - cbn [map app tsrun nondecr_from integ_from] in *. destruct ND as [Le ND].
      unfold tsreg at 1. cbn [fst snd tsstep].
      destruct (open_step a tl vl K s t v H Le) as [s' [E H']].
      rewrite E. cbn [state_of].
      assert (EK : K + ((t - tl) * vl + integ_from t v r T) == (K + (t - tl) * vl) + integ_from t v r T) by ring.
      destruct (IH a t v (K + (t - tl) * vl) s' T H' ND) as [A [B [obs [O1 [O2 [O3 O4]]]]]].
      split; [exact A |]. split; [exact B |]. exists obs. split; [exact O1 |]. split; [exact O2 |]. split; [exact O3 |].
      rewrite O4, EK. reflexivity.
  Qed.

  (* time_average: (time, value) pairs with non-decreasing times t0 <= t1 <= ...,
     closed at T >= the last time *)
  Theorem time_average : forall t0 v0 rest T, nondecr_from t0 rest T ->
    let s := tsrun NQ (tsinit NQ) (map tsreg ((t0, v0) :: rest) ++ [tsend T]) in
    ts_active s = false /\
    wsw (ts_w s) == T - t0 /\
    gw_sum NQ (ts_w s) == integ_from t0 v0 rest T /\
    (t0 < T -> res_is (gw_mean NQ (ts_w s)) (integ_from t0 v0 rest T / (T - t0))) /\
    (T == t0 -> gw_mean NQ (ts_w s) = NaNres).
  Proof.
    intros t0 v0 rest T ND. cbn [map app tsrun]. unfold tsreg at 1. cbn [fst snd tsstep].
    destruct (first_point t0 v0) as [E H]. rewrite E. cbn [state_of].
    destruct (open_run_end rest t0 t0 v0 0 _ T H ND) as [A [_ [obs [OKw [AP [Sw Sx]]]]]].
    cbn zeta.
    set (s := tsrun NQ _ (map tsreg rest ++ [tsend T])) in *.
    assert (PI : wpos obs = obs) by (apply wpos_id; exact AP).
    assert (EK : 0 + integ_from t0 v0 rest T == integ_from t0 v0 rest T) by ring.
    split; [exact A |]. split; [| split; [| split]].
    - rewrite (wok_sw _ _ _ OKw), PI. exact Sw.
    - unfold gw_sum. rewrite (wok_sum _ _ _ OKw), PI, Sx. exact EK.
    - intros Lt. assert (NE : obs <> []) by (intros ->; cbn in Sw; lra).
      destruct (proj2 (wmean_spec sq obs (ts_w s) OKw) NE) as [r [Er Ev]].
      exists r. split; [exact Er |]. rewrite Ev, PI. unfold wmean_def. rewrite Sx, Sw, EK. reflexivity.
    - intros Eq. assert (obs = []).
      { destruct obs as [| p r]; [reflexivity |]. assert (0 < sw (p :: r)) by (apply sw_pos; [exact AP | discriminate]). lra. }
      apply (wmean_spec sq obs (ts_w s) OKw). exact H0.
  Qed.

  (* ---------- every reachable state: no getter raises ---------- *)
  Definition w_reach_ok (w : wstate NQ) : Prop := exists obs, wacc_ok sq obs w.

  Lemma pymax0_nonneg : forall d : Q, 0 <= @pymax NQ (0:Q) d.
  Proof.
    intros d. unfold pymax. destruct (@ltb NQ (0:Q) d) eqn:L; [apply (ltb_true sq) in L; lra | apply Qle_refl].
  Qed.

  Lemma tsregister_w_ok : forall (s : tsstate NQ) ot ov, w_reach_ok (ts_w s) ->
    w_reach_ok (ts_w (state_of (tsregister NQ s ot ov))).
  Proof.
    intros s ot ov H. unfold tsregister.
    destruct (arg_not_number NQ ot); [exact H |].
    destruct (arg_not_number NQ ov); [exact H |].
    destruct (arg_isnan_exn NQ ov); [exact H |].
    destruct (arg_isnan_exn NQ ot); [exact H |].
    destruct (match ts_last s with Some l => ltb (arg_val NQ ot) l | None => false end); [exact H |].
    destruct ((match ts_last s with Some l => ltb l (arg_val NQ ot) | None => true end) && ts_active s); [| exact H].
    destruct (ts_start s); [| exact H].
    destruct H as [obs OKw].
    set (d := match ts_last s with Some l => pymax zero (sub (arg_val NQ ot) l) | None => zero end).
    assert (NN : 0 <= d).
    { unfold d. destruct (ts_last s); [apply pymax0_nonneg | apply Qle_refl]. }
    destruct (wacc_ok_step sq obs (ts_w s) d (ts_lastval s) OKw NN) as [w' [E OK']].
    rewrite E. cbn [state_of ts_w]. exists (obs ++ [(d, ts_lastval s)]). exact OK'.
  Qed.

  Lemma tsstep_w_ok : forall (s : tsstate NQ) op, w_reach_ok (ts_w s) ->
    w_reach_ok (ts_w (state_of (tsstep NQ s op))).
  Proof.
    intros s op H. destruct op as [ot ov | ot |]; cbn [tsstep].
    - apply tsregister_w_ok. exact H.
    - unfold ts_end. pose proof (tsregister_w_ok s ot (ONum (ts_lastval s)) H) as C.
      destruct (tsregister NQ s ot (ONum (ts_lastval s))); cbn [state_of ts_w] in *; exact C.
    - cbn. exists []. apply (wacc_ok_init sq).
  Qed.

  Lemma tsrun_w_ok : forall ops (s : tsstate NQ), w_reach_ok (ts_w s) -> w_reach_ok (ts_w (tsrun NQ s ops)).
  Proof.
    induction ops as [| op r IH]; intros s H; [exact H |]. cbn [tsrun]. apply IH. apply tsstep_w_ok. exact H.
  Qed.

  Theorem ts_getters_total : forall ops : list (tsop NQ),
    let w := ts_w (tsrun NQ (tsinit NQ) ops) in
    no_raise (gw_mean NQ w) /\
    (forall b, no_raise (gw_variance NQ b w)) /\
    (forall b, no_raise (gw_stdev NQ b w)).
  Proof.
    intros ops. cbn zeta.
    destruct (tsrun_w_ok ops (tsinit NQ)) as [obs OKw]; [exists []; apply (wacc_ok_init sq) |].
    exact (wtotal sq sq_proper obs _ OKw).
  Qed.
End TimestampQ.
