(* TimestampWeightedTally of pydsol/core/statistics.py over [Num], on top of
   Stats/Weighted.v.

   [tsregister] follows TimestampWeightedTally.register: the isinstance / isnan
   checks in the order of the code (timestamp type, value type, value NaN,
   timestamp NaN), an earlier timestamp is refused (also when closed), a
   weighted observation (max(0.0, timestamp - last), last value) is made only
   when the timestamp strictly advances and the tally is active, the first
   observation only sets the start time, and the last value is overwritten on
   every accepted call (also when closed).  [_start_time] / [_last_timestamp]
   start as math.nan: [None] here (a stored timestamp is never NaN).
   The value is taken as [float(value)] (identity on [ONum]'s universe); the
   timestamp is NOT coerced: Python subtracts and compares int timestamps
   exactly, so the statistics depend on differences only, and the harness runs
   int clocks beyond 2^53 on this binary64 model shifted by their first value.
   [ts_end] is end_observations: register(timestamp, last value), then inactive
   (not reached when the register raises).

   Executable definitions only (no proofs). *)
From Coq Require Import ZArith QArith Bool List.
From Coq Require PrimFloat.
From PV Require Import Stats.Num Stats.Weighted.
Import ListNotations.

Section TimestampModel.
  Variable N : Num.
  Local Open Scope num_scope.
  Local Notation F := (F N).

  Record tsstate := mkTSt {
    ts_w : wstate N;             (* the WeightedTally part *)
    ts_start : option F;         (* _start_time, None = nan *)
    ts_last : option F;          (* _last_timestamp, None = nan *)
    ts_lastval : F;              (* _last_value *)
    ts_active : bool             (* _active *)
  }.

  Definition tsinit : tsstate := mkTSt (winit N) None None zero true.

  Definition tsregister (s : tsstate) (ot ov : pyarg F) : outcome tsstate :=
    if arg_not_number N ot then Exn TypeError s else
    if arg_not_number N ov then Exn TypeError s else
    match arg_isnan_exn N ov with Some k => Exn k s | None =>
    match arg_isnan_exn N ot with Some k => Exn k s | None =>
    let t := arg_val N ot in
    let v := arg_val N ov in
    (* timestamp < self._last_timestamp  (False when the latter is nan) *)
    if (match ts_last s with Some l => ltb t l | None => false end)
    then Exn ValueError s else
    if (match ts_last s with Some l => ltb l t | None => true end) && ts_active s then
      match ts_start s with
      | None => Ok (mkTSt (ts_w s) (Some t) (Some t) v (ts_active s))
      | Some _ =>
        (* max(0.0, timestamp - last): 0.0 unless the difference is > 0.0 *)
        let deltatime := match ts_last s with
                         | Some l => pymax zero (t - l)
                         | None => zero            (* max(0.0, nan) *)
                         end in
        match wregister N (ts_w s) (ONum deltatime) (ONum (ts_lastval s)) with
        | Ok w' => Ok (mkTSt w' (ts_start s) (Some t) v (ts_active s))
        | Exn k w' => Exn k (mkTSt w' (ts_start s) (ts_last s) (ts_lastval s) (ts_active s))
        end
      end
    else Ok (mkTSt (ts_w s) (ts_start s) (ts_last s) v (ts_active s))
    end end.

  Definition ts_end (s : tsstate) (ot : pyarg F) : outcome tsstate :=
    match tsregister s ot (ONum (ts_lastval s)) with
    | Ok s' => Ok (mkTSt (ts_w s') (ts_start s') (ts_last s') (ts_lastval s') false)
    | Exn k s' => Exn k s'
    end.

  Inductive tsop := TsReg (ot ov : pyarg F) | TsEnd (ot : pyarg F) | TsInit.

  Definition tsstep (s : tsstate) (op : tsop) : outcome tsstate :=
    match op with
    | TsReg ot ov => tsregister s ot ov
    | TsEnd ot => ts_end s ot
    | TsInit => Ok tsinit
    end.

  Fixpoint tsrun (s : tsstate) (ops : list tsop) : tsstate :=
    match ops with [] => s | op :: r => tsrun (state_of (tsstep s op)) r end.

  (* getters: those of the WeightedTally part, plus *)
  Definition gts_isactive (s : tsstate) : bool := ts_active s.
  Definition gts_last_value (s : tsstate) : F := ts_lastval s.
End TimestampModel.

Arguments mkTSt {N} _ _ _ _ _.
Arguments ts_w {N} _.
Arguments ts_start {N} _.
Arguments ts_last {N} _.
Arguments ts_lastval {N} _.
Arguments ts_active {N} _.
Arguments TsReg {N} ot ov.
Arguments TsEnd {N} ot.
Arguments TsInit {N}.

(* ====================================================================== *)
(* Correspondence with the implementation (binary64 instance)              *)
(* ====================================================================== *)
Local Notation fl := PrimFloat.float.

(* the getters observed on the implementation: WeightedTally part, isactive, last_value *)
Definition tssnap := (wsnap * bool * fl)%type.

Definition tssnap_checks (s : tsstate NumF) (p : tssnap) : list bool :=
  let '(w, act, lv) := p in
  wsnap_checks (ts_w s) w ++ [ Bool.eqb (gts_isactive NumF s) act; feq (gts_last_value NumF s) lv ].

Definition tscase_step := (tsop NumF * ekind * option tssnap)%type.

(* first disagreement: (step index, getter index; 99 = how the call ended) *)
Fixpoint tscase_diag (i : nat) (s : tsstate NumF) (c : list tscase_step) : option (nat * nat) :=
  match c with
  | [] => None
  | (op, e, sn) :: r =>
    let o := tsstep NumF s op in
    if negb (kind_match o e) then Some (i, 99%nat) else
    let s' := state_of o in
    match sn with
    | None => tscase_diag (S i) s' r
    | Some p =>
      match first_false_w 0%nat (tssnap_checks s' p) with
      | Some g => Some (i, g)
      | None => tscase_diag (S i) s' r
      end
    end
  end.

Definition tscase_ok (c : list tscase_step) : bool :=
  match tscase_diag 0%nat (tsinit NumF) c with None => true | Some _ => false end.
