(* Numeric structure shared by the statistics models (C09, C10).

   The models in Tally.v / Weighted.v / Timestamp.v are written ONCE over a
   record [Num] of arithmetic operations.  Two instances:

   - [NumQ sq]  exact rationals; [sq] stands for the square root (there is no
                rational square root, so it is an uninterpreted function that
                the theorems quantify over).  Used for the theorems; no axioms.
   - [NumF]     Coq primitive binary64 floats.  Only EXECUTED (vm_compute in
                the correspondence check), never reasoned about.  + - * / sqrt
                and the comparisons are bit-identical to CPython's float.

   Python exceptions are data: [Raise k]; a getter that answers [math.nan]
   because the statistic is undefined answers [NaNres].  Division and square
   root are never totalised: the models use [pdiv] / [psqrt], which raise
   exactly where Python's [/] and [math.sqrt] raise.

   Executable definitions only (no proofs). *)
From Coq Require Import ZArith QArith Bool List.
From Coq Require PrimFloat Uint63.
Import ListNotations.

(* ---------- exceptions, results ---------- *)
Inductive exn :=
| ZeroDivisionError | ValueError | TypeError | OverflowError | StatisticsError
| OracleMiss.    (* not a Python exception: an external function (inv_cdf) was
                    asked for an argument the recorded oracle table lacks *)

Definition exn_eqb (a b : exn) : bool :=
  match a, b with
  | ZeroDivisionError, ZeroDivisionError | ValueError, ValueError
  | TypeError, TypeError | OverflowError, OverflowError
  | StatisticsError, StatisticsError | OracleMiss, OracleMiss => true
  | _, _ => false
  end.

(* what a getter returns *)
Inductive res (A : Type) := Val (x : A) | NaNres | Raise (k : exn).
Arguments Val {A} x.
Arguments NaNres {A}.
Arguments Raise {A} k.

(* what a mutator does: completes, or raises leaving the given state behind *)
Inductive outcome (S : Type) := Ok (s : S) | Exn (k : exn) (s : S).
Arguments Ok {S} s.
Arguments Exn {S} k s.

Definition state_of {S} (o : outcome S) : S :=
  match o with Ok s => s | Exn _ s => s end.

(* a float-valued attribute that starts as math.nan and may hold +-math.inf *)
Inductive xnum (A : Type) := XNaN | XPInf | XNInf | XFin (x : A).
Arguments XNaN {A}.
Arguments XPInf {A}.
Arguments XNInf {A}.
Arguments XFin {A} x.

(* a Python argument of a numeric parameter *)
Inductive pyarg (A : Type) :=
| ONum (x : A)      (* a float, or an int / bool exactly representable as float *)
| ONaN              (* float('nan') *)
| ONotNumber        (* str, None, list, ... : fails isinstance(.., (int, float)) *)
| OHugeInt.         (* an int beyond the float range: math.isnan raises OverflowError *)
Arguments ONum {A} x.
Arguments ONaN {A}.
Arguments ONotNumber {A}.
Arguments OHugeInt {A}.

(* ---------- the structure ---------- *)
Record Num := mkNum {
  F : Type;
  zero : F;
  ofZ : Z -> F;                 (* float(i) for an int i, and numeric literals *)
  add : F -> F -> F;
  sub : F -> F -> F;
  mul : F -> F -> F;
  div : F -> F -> F;            (* only reached through pdiv *)
  sqrt : F -> F;                (* only reached through psqrt *)
  ltb : F -> F -> bool;         (* Python <  (False when an operand is NaN) *)
  leb : F -> F -> bool;         (* Python <= *)
  eqb : F -> F -> bool;         (* Python == *)
  isnan : F -> bool;            (* math.isnan *)
  lt_pinf : F -> bool;          (* x < +math.inf *)
  gt_ninf : F -> bool           (* x > -math.inf *)
}.
Arguments zero {n}.
Arguments ofZ {n} _.
Arguments add {n} _ _.
Arguments sub {n} _ _.
Arguments mul {n} _ _.
Arguments div {n} _ _.
Arguments sqrt {n} _.
Arguments ltb {n} _ _.
Arguments leb {n} _ _.
Arguments eqb {n} _ _.
Arguments isnan {n} _.
Arguments lt_pinf {n} _.
Arguments gt_ninf {n} _.

Declare Scope num_scope.
Delimit Scope num_scope with num.
Notation "a + b" := (add a b) : num_scope.
Notation "a - b" := (sub a b) : num_scope.
Notation "a * b" := (mul a b) : num_scope.
Notation "a / b" := (div a b) : num_scope.

Section Generic.
  Variable N : Num.

  (* Python's  a / b  on floats *)
  Definition pdiv (a b : F N) : res (F N) :=
    if eqb b zero then Raise ZeroDivisionError else Val (div a b).

  (* math.sqrt: ValueError below zero, nan for nan *)
  Definition psqrt (a : F N) : res (F N) :=
    if ltb a zero then Raise ValueError else Val (sqrt a).

  (* value < attr,  value > attr  where attr may be nan / +-inf *)
  Definition x_gt_val (m : xnum (F N)) (v : F N) : bool :=   (* v < m *)
    match m with
    | XNaN => false | XPInf => lt_pinf v | XNInf => false | XFin x => ltb v x
    end.
  Definition x_lt_val (m : xnum (F N)) (v : F N) : bool :=   (* v > m *)
    match m with
    | XNaN => false | XPInf => false | XNInf => gt_ninf v | XFin x => ltb x v
    end.

  (* builtin max(a, b) = b if b > a else a ; min(a, b) = b if b < a else a *)
  Definition pymax_x (a : xnum (F N)) (b : F N) : xnum (F N) :=
    if x_lt_val a b then XFin b else a.
  Definition pymin_x (a : xnum (F N)) (b : F N) : xnum (F N) :=
    if x_gt_val a b then XFin b else a.
  Definition pymax (a b : F N) : F N := if ltb a b then b else a.

  Definition x_isnan (m : xnum (F N)) : bool :=
    match m with XNaN => true | XFin x => isnan x | _ => false end.
End Generic.
Arguments pdiv {N} a b.
Arguments psqrt {N} a.
Arguments x_gt_val {N} m v.
Arguments x_lt_val {N} m v.
Arguments pymax_x {N} a b.
Arguments pymin_x {N} a b.
Arguments pymax {N} a b.
Arguments x_isnan {N} m.

(* ---------- instance: exact rationals ---------- *)
Definition NumQ (sq : Q -> Q) : Num := {|
  F := Q;
  zero := 0%Q;
  ofZ := inject_Z;
  add := Qplus; sub := Qminus; mul := Qmult; div := Qdiv;
  sqrt := sq;
  ltb := fun a b => negb (Qle_bool b a);
  leb := Qle_bool;
  eqb := Qeq_bool;
  isnan := fun _ => false;
  lt_pinf := fun _ => true;
  gt_ninf := fun _ => true
|}.

(* ---------- instance: binary64 ---------- *)
Definition f_ofZ (z : Z) : PrimFloat.float :=
  match z with
  | Z0 => PrimFloat.zero
  | Zpos _ => PrimFloat.of_uint63 (Uint63.of_Z z)
  | Zneg p => PrimFloat.opp (PrimFloat.of_uint63 (Uint63.of_Z (Zpos p)))
  end.

Definition NumF : Num := {|
  F := PrimFloat.float;
  zero := PrimFloat.zero;
  ofZ := f_ofZ;
  add := PrimFloat.add; sub := PrimFloat.sub; mul := PrimFloat.mul; div := PrimFloat.div;
  sqrt := PrimFloat.sqrt;
  ltb := PrimFloat.ltb;
  leb := PrimFloat.leb;
  eqb := PrimFloat.eqb;
  isnan := PrimFloat.is_nan;
  lt_pinf := fun x => PrimFloat.ltb x PrimFloat.infinity;
  gt_ninf := fun x => PrimFloat.ltb PrimFloat.neg_infinity x
|}.

(* ---------- comparing model results with what CPython returned ---------- *)
(* bit equality: any NaN equals any NaN; +0.0 and -0.0 differ *)
Definition feq (x y : PrimFloat.float) : bool :=
  if PrimFloat.is_nan x then PrimFloat.is_nan y
  else PrimFloat.eqb x y && Bool.eqb (PrimFloat.get_sign x) (PrimFloat.get_sign y).

(* a getter's answer on the implementation: a float (possibly nan) or an exception *)
Inductive gres := GVal (y : PrimFloat.float) | GRaise (k : exn).

Definition res_match (m : res PrimFloat.float) (g : gres) : bool :=
  match m, g with
  | Val x, GVal y => feq x y
  | NaNres, GVal y => PrimFloat.is_nan y
  | Raise k, GRaise k' => exn_eqb k k'
  | _, _ => false
  end.

Definition xnum_match (m : xnum PrimFloat.float) (y : PrimFloat.float) : bool :=
  match m with
  | XNaN => PrimFloat.is_nan y
  | XPInf => PrimFloat.eqb y PrimFloat.infinity
  | XNInf => PrimFloat.eqb y PrimFloat.neg_infinity
  | XFin x => feq x y
  end.

(* a pair-valued getter (confidence interval) *)
Inductive gres2 := GPair (lo hi : PrimFloat.float) | GRaise2 (k : exn).

Definition res2_match (m : res (xnum PrimFloat.float * xnum PrimFloat.float)) (g : gres2) : bool :=
  match m, g with
  | Val (a, b), GPair lo hi => xnum_match a lo && xnum_match b hi
  | NaNres, GPair lo hi => PrimFloat.is_nan lo && PrimFloat.is_nan hi
  | Raise k, GRaise2 k' => exn_eqb k k'
  | _, _ => false
  end.

(* expected outcome kind of a mutator call *)
Inductive ekind := EOk | EExn (k : exn).
Definition kind_match {S} (o : outcome S) (e : ekind) : bool :=
  match o, e with
  | Ok _, EOk => true
  | Exn k _, EExn k' => exn_eqb k k'
  | _, _ => false
  end.

(* external function given by a recorded table (statistics.NormalDist.inv_cdf) *)
Fixpoint tab_lookup (tab : list (PrimFloat.float * PrimFloat.float)) (p : PrimFloat.float)
  : res PrimFloat.float :=
  match tab with
  | [] => Raise OracleMiss
  | (k, v) :: r => if feq k p then Val v else tab_lookup r p
  end.

Fixpoint mismatches_from {C : Type} (i : nat) (check : C -> bool) (cases : list C) : list nat :=
  match cases with
  | [] => []
  | c :: r => if check c then mismatches_from (S i) check r
              else i :: mismatches_from (S i) check r
  end.
