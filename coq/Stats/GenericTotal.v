(* C09 / C10 -- totality of the getters for EVERY arithmetic instance that
   satisfies a few elementary order laws ([NumLaws]).

   The exact-rational theorems (TallyProofs / WeightedProofs) cannot see
   rounding.  The guards of the repaired code, however, make the getters total
   by pure order reasoning: every division is guarded by a test [0 < divisor]
   or divides by a small positive integer, and the weighted variance
   accumulator is a sum of terms clamped at zero, so the argument of sqrt is
   never negative.  Here this is proved once for any [Num] satisfying
   [NumLaws]; the laws are proved for the rational instance ([NumQ_laws]) and
   are elementary IEEE-754 facts for binary64 (sign rules for + * / of
   non-negative operands, exactness of small integers), which are ASSUMED for
   the executed instance -- PrimFloat is never reasoned about here.

   A comparison with NaN is false, so "not negative" ([ltb x zero = false])
   includes NaN: a NaN flows through to a NaN result, it never raises. *)
From Coq Require Import ZArith QArith Qfield Bool List Lia Lqa.
From PV Require Import Stats.Num Stats.Tally Stats.TallyProofs Stats.Weighted Stats.WeightedProofs
                       Stats.Timestamp.
Import ListNotations.

Record NumLaws (N : Num) (bound : Z) : Prop := mkNumLaws {
  (* order *)
  L_zero_irrefl : @ltb N zero zero = false;
  L_pos_ne0 : forall b : F N, ltb zero b = true -> eqb b zero = false;
  L_pos_notneg : forall b : F N, ltb zero b = true -> ltb b zero = false;
  (* signs of + * / on operands that are not negative (NaN included) *)
  L_add_nonneg : forall a b : F N, ltb a zero = false -> ltb b zero = false -> ltb (add a b) zero = false;
  L_mul_nonneg : forall a b : F N, ltb a zero = false -> ltb b zero = false -> ltb (mul a b) zero = false;
  L_div_nonneg : forall a b : F N, ltb a zero = false -> ltb zero b = true -> ltb (div a b) zero = false;
  (* small integers are exact *)
  L_ofZ_pos : forall z, (0 < z < bound)%Z -> @ltb N zero (ofZ z) = true;
  L_ofZ_sub_ne0 : forall z k, (0 <= k < z)%Z -> (z < bound)%Z ->
                    @eqb N (sub (ofZ z) (ofZ k)) zero = false;
  L_nn1_notneg : forall z, (0 < z < bound)%Z ->
                    @ltb N (mul (ofZ z) (sub (ofZ z) (ofZ 1))) zero = false
}.

Section Generic.
  Variable N : Num.
  Variable bound : Z.
  Hypothesis LAWS : NumLaws N bound.

  Local Notation "# z" := (@ofZ N z%Z) (at level 5, z at level 0, format "# z").

  Lemma ofZ_ne0 : forall z, (0 < z < bound)%Z -> @eqb N #z zero = false.
  Proof. intros z H. apply (L_pos_ne0 _ _ LAWS). apply (L_ofZ_pos _ _ LAWS). exact H. Qed.

  Lemma ofZ_notneg : forall z, (0 < z < bound)%Z -> @ltb N #z zero = false.
  Proof. intros z H. apply (L_pos_notneg _ _ LAWS). apply (L_ofZ_pos _ _ LAWS). exact H. Qed.

  Lemma pdiv_ok : forall a b : F N, eqb b zero = false -> pdiv a b = Val (div a b).
  Proof. intros a b H. unfold pdiv. rewrite H. reflexivity. Qed.

  Lemma psqrt_ok : forall a : F N, ltb a zero = false -> psqrt a = Val (sqrt a).
  Proof. intros a H. unfold psqrt. rewrite H. reflexivity. Qed.

  Lemma val_no_raise : forall A (x : A), no_raise (Val x).
  Proof. intros A x k. discriminate. Qed.
  Lemma nanres_no_raise : forall A, no_raise (@NaNres A).
  Proof. intros A k. discriminate. Qed.
  Hint Resolve val_no_raise nanres_no_raise : core.

  (* ==================================================================== *)
  (* C09: mean, variance, skewness, kurtosis, excess kurtosis are total in  *)
  (* EVERY state (reachable or not) with a count below [bound]              *)
  (* ==================================================================== *)
  Section TallyAnyState.
    Variable s : tstate N.
    Hypothesis Hn : (0 <= tn s < bound)%Z.

    Lemma g_mean_total : no_raise (g_mean N s).
    Proof. unfold g_mean. destruct (0 <? tn s)%Z; auto. Qed.

    Lemma g_variance_val : forall b, g_variance N b s = NaNres \/ exists v, g_variance N b s = Val v.
    Proof.
      intros [|]; unfold g_variance.
      - destruct (Z.ltb_spec 0 (tn s)); [right | left; reflexivity].
        rewrite pdiv_ok by (apply ofZ_ne0; lia). eexists; reflexivity.
      - destruct (Z.ltb_spec 1 (tn s)); [right | left; reflexivity].
        rewrite pdiv_ok by (apply ofZ_ne0; lia). eexists; reflexivity.
    Qed.

    Lemma g_variance_total : forall b, no_raise (g_variance N b s).
    Proof. intros b. destruct (g_variance_val b) as [-> | [v ->]]; auto. Qed.

    Lemma g_skewness_total : forall b, no_raise (g_skewness N b s).
    Proof.
      intros b. unfold g_skewness.
      destruct (Z.ltb_spec 1 (tn s)) as [L1 | L1]; [| auto].
      destruct (g_variance_val true) as [-> | [v ->]]; [auto |].
      destruct (ltb zero v) eqn:P; [| auto].
      rewrite psqrt_ok by (apply (L_pos_notneg _ _ LAWS); exact P).
      destruct (ltb zero (mul v (sqrt v))) eqn:PD; [| auto].
      rewrite pdiv_ok by (apply ofZ_ne0; lia).
      rewrite pdiv_ok by (apply (L_pos_ne0 _ _ LAWS); exact PD).
      destruct b; [auto |].
      destruct (Z.ltb_spec 2 (tn s)) as [L2 | L2]; [| auto].
      rewrite psqrt_ok by (apply (L_nn1_notneg _ _ LAWS); lia).
      rewrite pdiv_ok by (apply (L_ofZ_sub_ne0 _ _ LAWS); lia). auto.
    Qed.

    Lemma g_kurtosis_total : forall b, no_raise (g_kurtosis N b s).
    Proof.
      intros [|]; unfold g_kurtosis.
      - destruct (Z.ltb_spec 2 (tn s)) as [L | L]; [| auto].
        rewrite pdiv_ok by (apply ofZ_ne0; lia).
        destruct (ltb zero (div (tm2 s) #(tn s))) eqn:P; [| auto].
        pose proof (L_pos_ne0 _ _ LAWS _ P) as NZ.
        rewrite pdiv_ok by (apply ofZ_ne0; lia). rewrite !pdiv_ok by exact NZ. auto.
      - destruct (Z.ltb_spec 3 (tn s)) as [L | L]; [| auto].
        unfold g_variance. destruct (Z.ltb_spec 1 (tn s)) as [L1 | L1]; [| lia].
        rewrite pdiv_ok by (apply ofZ_ne0; lia).
        destruct (ltb zero (div (tm2 s) #(tn s - 1))) eqn:P; [| auto].
        pose proof (L_pos_ne0 _ _ LAWS _ P) as NZ.
        rewrite pdiv_ok by (apply ofZ_ne0; lia). rewrite !pdiv_ok by exact NZ. auto.
    Qed.

    Lemma g_excess_kurtosis_total : forall b, no_raise (g_excess_kurtosis N b s).
    Proof.
      assert (B : no_raise (g_excess_kurtosis_biased N s)).
      { unfold g_excess_kurtosis_biased. destruct (2 <? tn s)%Z; [| auto].
        pose proof (g_kurtosis_total true) as K. destruct (g_kurtosis N true s); auto. }
      intros [|]; unfold g_excess_kurtosis; [exact B |].
      destruct (Z.ltb_spec 3 (tn s)) as [L | L]; [| auto].
      destruct (g_excess_kurtosis_biased N s) as [g2 | | k] eqn:E; [| | exact B].
      - rewrite pdiv_ok by (apply (L_ofZ_sub_ne0 _ _ LAWS); lia).
        rewrite pdiv_ok by (apply (L_ofZ_sub_ne0 _ _ LAWS); lia). auto.
      - rewrite pdiv_ok by (apply (L_ofZ_sub_ne0 _ _ LAWS); lia).
        rewrite pdiv_ok by (apply (L_ofZ_sub_ne0 _ _ LAWS); lia). auto.
    Qed.

    Theorem tally_moment_getters_total_any_state :
      no_raise (g_mean N s) /\
      (forall b, no_raise (g_variance N b s)) /\
      (forall b, no_raise (g_skewness N b s)) /\
      (forall b, no_raise (g_kurtosis N b s)) /\
      (forall b, no_raise (g_excess_kurtosis N b s)).
    Proof.
      repeat split; [apply g_mean_total | apply g_variance_total | apply g_skewness_total
                     | apply g_kurtosis_total | apply g_excess_kurtosis_total].
    Qed.
  End TallyAnyState.

  (* ==================================================================== *)
  (* C10: the clamped accumulator is never negative, hence no getter of a   *)
  (* weighted tally raises in any reachable state                           *)
  (* ==================================================================== *)
  Definition wtv_notneg (s : wstate N) : Prop := ltb (wwtv s) zero = false.
  Definition wnz_bounded (s : wstate N) (k : Z) : Prop := (0 <= wnz s <= k)%Z.

  Lemma pymax0_notneg : forall x : F N, ltb (pymax x zero) zero = false.
  Proof.
    intros x. unfold pymax. destruct (ltb x zero) eqn:E; [apply (L_zero_irrefl _ _ LAWS) | exact E].
  Qed.

  Lemma winit_inv : wtv_notneg (winit N) /\ wnz_bounded (winit N) 0.
  Proof. split; [apply (L_zero_irrefl _ _ LAWS) | cbn; unfold wnz_bounded; cbn; lia]. Qed.

  (* one call of the REPAIRED register, whatever the arguments and however it ends *)
  Lemma wregister_inv : forall s ow ov k, wtv_notneg s -> wnz_bounded s k ->
    let s' := state_of (wregister N s ow ov) in wtv_notneg s' /\ wnz_bounded s' (k + 1).
  Proof.
    intros s ow ov k H B. unfold wregister, wregister_gen.
    assert (B' : wnz_bounded s (k + 1)) by (unfold wnz_bounded in *; lia).
    destruct (arg_not_number N ow); [split; assumption |].
    destruct (arg_not_number N ov); [split; assumption |].
    destruct (arg_isnan_exn N ov); [split; assumption |].
    destruct (arg_isnan_exn N ow); [split; assumption |].
    destruct (ltb (arg_val N ow) zero); [split; assumption |].
    destruct (eqb (arg_val N ow) zero); [split; [exact H | exact B'] |].
    destruct (eqb (add (wsw s) (arg_val N ow)) zero); cbn [state_of wwtv wnz].
    - split; [exact H | unfold wnz_bounded in *; cbn [wnz]; lia].
    - split; [| unfold wnz_bounded in *; cbn [wnz]; lia].
      unfold wtv_notneg. cbn [wwtv]. apply (L_add_nonneg _ _ LAWS); [exact H | apply pymax0_notneg].
  Qed.

  Lemma wstep_inv : forall s op k, wtv_notneg s -> wnz_bounded s k ->
    let s' := state_of (wstep N s op) in wtv_notneg s' /\ wnz_bounded s' (k + 1).
  Proof.
    intros s [ow ov |] k H B; cbn [wstep].
    - apply wregister_inv; assumption.
    - cbn [state_of]. destruct winit_inv as [A C]. split; [exact A |].
      unfold wnz_bounded in *. cbn [winit wnz]. lia.
  Qed.

  Lemma wrun_inv : forall ops s k, wtv_notneg s -> wnz_bounded s k ->
    wtv_notneg (wrun N s ops) /\ wnz_bounded (wrun N s ops) (k + Z.of_nat (length ops)).
  Proof.
    induction ops as [| op r IH]; intros s k H B.
    - cbn. split; [exact H |]. unfold wnz_bounded in *. lia.
    - cbn [wrun length]. destruct (wstep_inv s op k H B) as [H' B'].
      destruct (IH _ _ H' B') as [H2 B2]. split; [exact H2 |]. unfold wnz_bounded in *. lia.
  Qed.

  (* the getters in a state with a non-negative accumulator *)
  Section WeightedState.
    Variable s : wstate N.
    Hypothesis Hv : wtv_notneg s.
    Hypothesis Hz : (0 <= wnz s < bound)%Z.

    Lemma gw_variance_cases : forall b,
      gw_variance N b s = NaNres \/ exists v, gw_variance N b s = Val v /\ ltb v zero = false.
    Proof.
      intros b. unfold gw_variance.
      destruct ((0 <? wn s)%Z && ltb zero (wsw s)) eqn:C; [| left; reflexivity].
      apply andb_true_iff in C. destruct C as [_ P].
      rewrite pdiv_ok by (apply (L_pos_ne0 _ _ LAWS); exact P).
      assert (V : ltb (div (wwtv s) (wsw s)) zero = false) by (apply (L_div_nonneg _ _ LAWS); assumption).
      destruct b; [right; eexists; split; [reflexivity | exact V] |].
      destruct (Z.ltb_spec 1 (wnz s)) as [L | L]; [| left; reflexivity].
      rewrite pdiv_ok by (apply ofZ_ne0; lia).
      right. eexists; split; [reflexivity |].
      apply (L_div_nonneg _ _ LAWS); [| apply (L_ofZ_pos _ _ LAWS); lia].
      apply (L_mul_nonneg _ _ LAWS); [exact V | apply ofZ_notneg; lia].
    Qed.

    Theorem weighted_getters_total_lawful :
      no_raise (gw_mean N s) /\
      (forall b, no_raise (gw_variance N b s)) /\
      (forall b, no_raise (gw_stdev N b s)).
    Proof.
      repeat split.
      - unfold gw_mean. destruct (0 <? wn s)%Z; auto.
      - intros b. destruct (gw_variance_cases b) as [-> | [v [-> _]]]; auto.
      - intros b. unfold gw_stdev. destruct (gw_variance_cases b) as [-> | [v [-> V]]]; [auto |].
        rewrite psqrt_ok by exact V. auto.
    Qed.
  End WeightedState.

  (* every reachable state of a weighted tally, histories shorter than [bound] *)
  Theorem weighted_getters_total_any_arithmetic : forall ops : list (wop N),
    (Z.of_nat (length ops) < bound)%Z ->
    let s := wrun N (winit N) ops in
    no_raise (gw_mean N s) /\
    (forall b, no_raise (gw_variance N b s)) /\
    (forall b, no_raise (gw_stdev N b s)).
  Proof.
    intros ops Hb. destruct winit_inv as [A B].
    destruct (wrun_inv ops (winit N) 0 A B) as [H2 B2].
    apply weighted_getters_total_lawful; [exact H2 | unfold wnz_bounded in B2; lia].
  Qed.

  (* ... and of a timestamped tally *)
  Lemma tsregister_inv : forall (s : tsstate N) ot ov k, wtv_notneg (ts_w s) -> wnz_bounded (ts_w s) k ->
    let s' := state_of (tsregister N s ot ov) in wtv_notneg (ts_w s') /\ wnz_bounded (ts_w s') (k + 1).
  Proof.
    intros s ot ov k H B. unfold tsregister.
    assert (B' : wnz_bounded (ts_w s) (k + 1)) by (unfold wnz_bounded in *; lia).
    destruct (arg_not_number N ot); [split; assumption |].
    destruct (arg_not_number N ov); [split; assumption |].
    destruct (arg_isnan_exn N ov); [split; assumption |].
    destruct (arg_isnan_exn N ot); [split; assumption |].
    destruct (match ts_last s with Some l => ltb (arg_val N ot) l | None => false end); [split; assumption |].
    destruct ((match ts_last s with Some l => ltb l (arg_val N ot) | None => true end) && ts_active s);
      [| split; assumption].
    destruct (ts_start s); [| split; assumption].
    match goal with |- context [wregister N (ts_w s) ?a ?b] =>
      pose proof (wregister_inv (ts_w s) a b k H B) as I; destruct (wregister N (ts_w s) a b) end;
      cbn [state_of ts_w] in *; exact I.
  Qed.

  Lemma tsstep_inv : forall (s : tsstate N) op k, wtv_notneg (ts_w s) -> wnz_bounded (ts_w s) k ->
    let s' := state_of (tsstep N s op) in wtv_notneg (ts_w s') /\ wnz_bounded (ts_w s') (k + 1).
  Proof.
    intros s [ot ov | ot |] k H B; cbn [tsstep].
    - apply tsregister_inv; assumption.
    - unfold ts_end. pose proof (tsregister_inv s ot (ONum (ts_lastval s)) k H B) as I.
      destruct (tsregister N s ot (ONum (ts_lastval s))); cbn [state_of ts_w] in *; exact I.
    - cbn [state_of tsinit ts_w]. destruct winit_inv as [A C]. split; [exact A |].
      unfold wnz_bounded in *. cbn [winit wnz]. lia.
  Qed.

  Lemma tsrun_inv : forall ops (s : tsstate N) k, wtv_notneg (ts_w s) -> wnz_bounded (ts_w s) k ->
    wtv_notneg (ts_w (tsrun N s ops)) /\ wnz_bounded (ts_w (tsrun N s ops)) (k + Z.of_nat (length ops)).
  Proof.
    induction ops as [| op r IH]; intros s k H B.
    - cbn. split; [exact H |]. unfold wnz_bounded in *. lia.
    - cbn [tsrun length]. destruct (tsstep_inv s op k H B) as [H' B'].
      destruct (IH _ _ H' B') as [H2 B2]. split; [exact H2 |]. unfold wnz_bounded in *. lia.
  Qed.

  Theorem timestamp_getters_total_any_arithmetic : forall ops : list (tsop N),
    (Z.of_nat (length ops) < bound)%Z ->
    let w := ts_w (tsrun N (tsinit N) ops) in
    no_raise (gw_mean N w) /\
    (forall b, no_raise (gw_variance N b w)) /\
    (forall b, no_raise (gw_stdev N b w)).
  Proof.
    intros ops Hb. destruct winit_inv as [A B].
    destruct (tsrun_inv ops (tsinit N) 0 A B) as [H2 B2].
    apply weighted_getters_total_lawful; [exact H2 | unfold wnz_bounded in B2; lia].
  Qed.
End Generic.

(* ====================================================================== *)
(* The laws hold in exact arithmetic (non-vacuity), for every bound         *)
(* ====================================================================== *)
Local Open Scope Q_scope.

Lemma NumQ_laws : forall sq bound, NumLaws (NumQ sq) bound.
Proof.
  intros sq bound.
  assert (LT : forall a b : Q, @ltb (NumQ sq) a b = true <-> a < b) by apply ltb_true.
  assert (LF : forall a b : Q, @ltb (NumQ sq) a b = false <-> b <= a) by apply ltb_false.
  assert (IZ : forall z, (0 < z)%Z -> 0 < inject_Z z).
  { intros z H. change 0 with (inject_Z 0). rewrite <- Zlt_Qlt. exact H. }
  constructor; cbn [F zero add sub mul div ofZ eqb NumQ].
  - apply LF. apply Qle_refl.
  - intros b H. apply LT in H. destruct (Qeq_bool b 0) eqn:E; [apply Qeq_bool_iff in E; lra | reflexivity].
  - intros b H. apply LT in H. apply LF. lra.
  - intros a b Ha Hb. apply LF in Ha. apply LF in Hb. apply LF. lra.
  - intros a b Ha Hb. apply LF in Ha. apply LF in Hb. apply LF. apply Qmult_le_0_compat; assumption.
  - intros a b Ha Hb. apply LF in Ha. apply LT in Hb. apply LF. apply Qle_shift_div_l; lra.
  - intros z H. apply LT. apply IZ. lia.
  - intros z k H1 H2. destruct (Qeq_bool (inject_Z z - inject_Z k) 0) eqn:E; [| reflexivity].
    apply Qeq_bool_iff in E. assert (inject_Z k < inject_Z z) by (rewrite <- Zlt_Qlt; lia). lra.
  - intros z H. apply LF. change (inject_Z 1) with 1.
    assert (1 <= inject_Z z) by (change 1 with (inject_Z 1); rewrite <- Zle_Qle; lia).
    apply Qmult_le_0_compat; lra.
Qed.
