(* C11 -- the simulation statistics SimCounter / SimTally / SimWeightedTally /
   SimPersistent of pydsol/core/statistics.py: composition of

     - the simulator's chronological observation log (Sim/Model.v: an entry
       [ObsV chan v t] per data event fired by a handler at clock t, [ObsWarm t]
       when the warm-up event runs, [ObsEnd t] when the run thread fires
       END_REPLICATION),
     - the producer the data events are fired on (channel -> subscribed
       statistics in subscription order; an exception raised by one subscriber
       aborts the fire, as in pubsub.py),
     - the statistics models of C09 / C10 (Stats/Tally.v, Weighted.v,
       Timestamp.v), written once over [Num],
     - the statistic as event producer: after every accepted observation it
       publishes OBSERVATION_ADDED, N, ... one after the other, each payload
       obtained from the getter at that moment; the subscriber is a program
       (a queue of reactions: the k-th notification may register a further
       observation from inside notify),
     - the model's key -> statistic dictionary.

   notify dispatch of the Sim* classes: data event -> register; WARMUP ->
   initialize (fires INITIALIZED); END_REPLICATION -> end_observations(clock)
   for the persistent only.  The END_REPLICATION branch models the REPAIRED
   code (proposed_fixes/C11-persistent-duration-clock.patch): the clock is
   converted with float() as in the data branch, so a Duration clock works.

   Executable definitions only (no proofs). *)
From Coq Require Import ZArith Bool List.
From Coq Require PrimFloat.
(* the simulator first: its [wstate] / [outcome] are shadowed by the statistics' *)
From PV Require Import EventList.Key Sim.Model Sim.Case.
From PV Require Import Stats.Num Stats.Tally Stats.Weighted Stats.Timestamp.
Import ListNotations.

Inductive skind := KCounter | KTally | KWeighted | KPersistent.

Definition skind_eqb (a b : skind) : bool :=
  match a, b with
  | KCounter, KCounter | KTally, KTally | KWeighted, KWeighted | KPersistent, KPersistent => true
  | _, _ => false
  end.

(* index of INITIALIZED_EVENT among a statistic's own event types; the events
   published after an observation are numbered 1 .. nevents in firing order *)
Definition EV_INIT : nat := 0.
Definition nevents (k : skind) : nat :=
  match k with KCounter => 3 | KTally => 16 | KWeighted => 10 | KPersistent => 10 end.

(* declaration of one statistic created in construct_model: kind, key, the
   channels (event types of the model's producer) it listens to, and its
   subscriber: the own event types it subscribed to and its reactions (index
   into the payload table of the observation it registers from inside its k-th
   notification, if any) *)
Record sdecl := mkDecl {
  d_kind : skind;
  d_key : nat;
  d_chans : list nat;
  d_lsub : list nat;
  d_react : list (option nat)
}.

Section SimStats.
  Variable N : Num.
  Local Notation F := (F N).

  (* the content of a data event, as each kind of statistic reads it *)
  Record payload := mkP {
    p_c : cobs;            (* SimCounter: isinstance(content, int) *)
    p_w : pyarg F;         (* SimWeightedTally: content[0] *)
    p_v : pyarg F          (* SimTally, SimPersistent: content; SimWeightedTally: content[1] *)
  }.

  (* simulator time (quarters) -> number: float(simulator_time) *)
  Definition tmf (t : Z) : F := div (ofZ t) (ofZ 4).

  Inductive sstate :=
  | SC (c : cstate) | ST (t : tstate N) | SW (w : wstate N) | SP (p : tsstate N).

  Definition sinit (k : skind) : sstate :=
    match k with
    | KCounter => SC cinit | KTally => ST (tinit N)
    | KWeighted => SW (winit N) | KPersistent => SP (tsinit N)
    end.

  Definition kind_of (s : sstate) : skind :=
    match s with SC _ => KCounter | ST _ => KTally | SW _ => KWeighted | SP _ => KPersistent end.

  Definition omap {A B} (f : A -> B) (o : outcome A) : outcome B :=
    match o with Ok a => Ok (f a) | Exn k a => Exn k (f a) end.

  (* register of the ORDINARY statistic of that kind (time used by the timestamped one only) *)
  Definition sreg (tm : F) (s : sstate) (p : payload) : outcome sstate :=
    match s with
    | SC c => omap SC (cregister c (p_c p))
    | ST t => omap ST (tregister N t (p_v p))
    | SW w => omap SW (wregister N w (p_w p) (p_v p))
    | SP q => omap SP (tsregister N q (ONum tm) (p_v p))
    end.

  (* the observations register() refuses, whatever the state *)
  Definition bad_num (o : pyarg F) : bool := match o with ONum v => isnan v | _ => true end.
  Definition bad_for (k : skind) (p : payload) : bool :=
    match k with
    | KCounter => match p_c p with CInt _ => false | CNotInt => true end
    | KTally | KPersistent => bad_num (p_v p)
    | KWeighted =>
        match p_w p, p_v p with
        | ONum w, ONum v => isnan v || isnan w || ltb w zero
        | _, _ => true
        end
    end.

  (* operations on an ordinary statistic *)
  Inductive sop :=
  | SReg (tm : F) (p : payload)
  | SInit
  | SClose.            (* second half of end_observations: _active = False *)

  Definition sclose (s : sstate) : sstate :=
    match s with
    | SP q => SP (mkTSt (ts_w q) (ts_start q) (ts_last q) (ts_lastval q) false)
    | other => other
    end.

  Definition sstep (s : sstate) (op : sop) : sstate :=
    match op with
    | SReg tm p => state_of (sreg tm s p)
    | SInit => sinit (kind_of s)
    | SClose => sclose s
    end.

  Definition srun (s : sstate) (ops : list sop) : sstate := fold_left sstep ops s.

  (* ------------------------------------------------------------------ *)
  (* the statistic as publisher                                          *)
  (* ------------------------------------------------------------------ *)
  Inductive pval :=
  | PVSelf                         (* INITIALIZED_EVENT: the statistic itself *)
  | PVInt (z : Z)
  | PVNum (x : F)
  | PVX (x : xnum F)
  | PVRes (r : res F)
  | PVObsC (o : cobs)
  | PVObsV (o : pyarg F).

  (* the getter behind the j-th published event, applied to state s;
     [p] is the observation being registered (OBSERVATION_ADDED carries it) *)
  Definition pubval (s : sstate) (p : payload) (j : nat) : pval :=
    match s with
    | SC c =>
        match j with
        | 1%nat => PVObsC (p_c p) | 2%nat => PVInt (cn c) | _ => PVInt (ccount c)
        end
    | ST t =>
        match j with
        | 1%nat => PVObsV (p_v p) | 2%nat => PVInt (g_n N t) | 3%nat => PVX (g_min N t) | 4%nat => PVX (g_max N t)
        | 5%nat => PVNum (g_sum N t) | 6%nat => PVRes (g_mean N t)
        | 7%nat => PVRes (g_stdev N true t) | 8%nat => PVRes (g_variance N true t)
        | 9%nat => PVRes (g_skewness N true t) | 10%nat => PVRes (g_kurtosis N true t)
        | 11%nat => PVRes (g_excess_kurtosis N true t)
        | 12%nat => PVRes (g_stdev N false t) | 13%nat => PVRes (g_variance N false t)
        | 14%nat => PVRes (g_skewness N false t) | 15%nat => PVRes (g_kurtosis N false t)
        | _ => PVRes (g_excess_kurtosis N false t)
        end
    | SW w | SP (mkTSt w _ _ _ _) =>
        match j with
        | 1%nat => PVObsV (p_v p) | 2%nat => PVInt (gw_n N w) | 3%nat => PVX (gw_min N w) | 4%nat => PVX (gw_max N w)
        | 5%nat => PVNum (gw_sum N w) | 6%nat => PVRes (gw_mean N w)
        | 7%nat => PVRes (gw_stdev N true w) | 8%nat => PVRes (gw_variance N true w)
        | 9%nat => PVRes (gw_stdev N false w) | _ => PVRes (gw_variance N false w)
        end
    end.

  Definition pv_raises (v : pval) : bool :=
    match v with PVRes (Raise _) => true | _ => false end.

  (* one delivery to the subscriber: event index, payload, and (ghost) the
     state of the statistic at the moment notify is entered *)
  Record pubrec := mkPub { pr_j : nat; pr_v : pval; pr_at : sstate }.

  (* a statistic in the simulation *)
  Record pst := mkPst {
    ps_state : sstate;
    ps_q : list (option payload);    (* reactions still to be performed *)
    ps_tr : list pubrec;             (* deliveries, newest first *)
    ps_regs : list (bool * sop);     (* ghost: every operation performed, newest first;
                                        true = from a data / simulator event, false = re-entrant *)
    ps_raised : bool;                (* an exception is propagating *)
    ps_nofuel : bool
  }.

  Definition set_state (s : sstate) (x : pst) : pst :=
    mkPst s (ps_q x) (ps_tr x) (ps_regs x) (ps_raised x) (ps_nofuel x).
  Definition log_op (o : bool * sop) (x : pst) : pst :=
    mkPst (ps_state x) (ps_q x) (ps_tr x) (o :: ps_regs x) (ps_raised x) (ps_nofuel x).
  Definition set_raised (x : pst) : pst :=
    mkPst (ps_state x) (ps_q x) (ps_tr x) (ps_regs x) true (ps_nofuel x).
  Definition set_nofuel (x : pst) : pst :=
    mkPst (ps_state x) (ps_q x) (ps_tr x) (ps_regs x) (ps_raised x) true.

  Definition memn (x : nat) (l : list nat) : bool := existsb (Nat.eqb x) l.

  Section Publish.
    Variable lsub : list nat.          (* own event types the subscriber listens to *)
    Variable tm : F.                   (* float(simulator_time) during this notification *)
    (* register called from inside notify; the recursion is on fuel *)
    Variable reenter : pst -> payload -> pst.

    (* listener.notify(event j with payload v): record, then react *)
    Definition deliver (j : nat) (v : pval) (x : pst) : pst :=
      let x1 := mkPst (ps_state x) (ps_q x) (mkPub j v (ps_state x) :: ps_tr x)
                      (ps_regs x) (ps_raised x) (ps_nofuel x) in
      match ps_q x1 with
      | [] => x1
      | None :: q => mkPst (ps_state x1) q (ps_tr x1) (ps_regs x1) (ps_raised x1) (ps_nofuel x1)
      | Some p :: q =>
          reenter (mkPst (ps_state x1) q (ps_tr x1) (ps_regs x1) (ps_raised x1) (ps_nofuel x1)) p
      end.

    (* self.fire_timed(t, EVENT_j, self.getter_j()): the getter is evaluated now *)
    Definition fire_one (p : payload) (x : pst) (j : nat) : pst :=
      if ps_raised x then x else
      let v := pubval (ps_state x) p j in
      if pv_raises v then set_raised x
      else if memn j lsub then deliver j v x else x.

    (* _fire_events *)
    Definition fire_all (p : payload) (x : pst) : pst :=
      fold_left (fire_one p) (seq 1 (nevents (kind_of (ps_state x)))) x.

    (* EventBased*.register: super().register; if has_listeners: _fire_events *)
    Definition reg_body (ext : bool) (x : pst) (p : payload) : pst :=
      let x0 := log_op (ext, SReg tm p) x in
      match sreg tm (ps_state x0) p with
      | Exn _ s' => set_raised (set_state s' x0)
      | Ok s' =>
          let x1 := set_state s' x0 in
          match lsub with [] => x1 | _ => fire_all p x1 end
      end.
  End Publish.

  Fixpoint preg (fuel : nat) (lsub : list nat) (tm : F) (ext : bool) (x : pst) (p : payload) : pst :=
    match fuel with
    | O => set_nofuel x
    | S f => reg_body lsub tm (fun y q => preg f lsub tm false y q) ext x p
    end.

  (* initialize(): reset, then fire INITIALIZED_EVENT(self) *)
  Definition pinit (fuel : nat) (lsub : list nat) (tm : F) (x : pst) : pst :=
    let x1 := set_state (sinit (kind_of (ps_state x))) (log_op (true, SInit) x) in
    if memn EV_INIT lsub
    then deliver (fun y q => preg fuel lsub tm false y q) EV_INIT PVSelf x1
    else x1.

  (* end_observations(t): register(t, last value); then _active = False *)
  Definition pclose (fuel : nat) (lsub : list nat) (tm : F) (x : pst) : pst :=
    match ps_state x with
    | SP q =>
        let x1 := preg fuel lsub tm true x (mkP CNotInt ONotNumber (ONum (ts_lastval q))) in
        if ps_raised x1 then x1
        else set_state (sclose (ps_state x1)) (log_op (true, SClose) x1)
    | _ => x
    end.

  (* ------------------------------------------------------------------ *)
  (* the producer of the data events                                     *)
  (* ------------------------------------------------------------------ *)
  Variable cfg : list sdecl.
  Variable pl : list payload.

  Definition pl_default : payload := mkP CNotInt ONotNumber ONotNumber.
  Definition payload_of (v : Z) : payload :=
    match v with
    | Zneg _ => pl_default
    | _ => nth (Z.to_nat v) pl pl_default
    end.

  (* subscribers of a channel in subscription order = creation order *)
  Fixpoint chan_subs_from (i : nat) (ds : list sdecl) (c : nat) : list nat :=
    match ds with
    | [] => []
    | d :: r => if memn c (d_chans d) then i :: chan_subs_from (S i) r c else chan_subs_from (S i) r c
    end.
  Definition chan_subs (c : nat) : list nat := chan_subs_from 0 cfg c.

  Definition kind_at (sid : nat) : skind :=
    match nth_error cfg sid with Some d => d_kind d | None => KCounter end.

  (* the subscribers actually notified: the fire stops at the first one that raises *)
  Fixpoint recipients (subs : list nat) (p : payload) : list nat :=
    match subs with
    | [] => []
    | sid :: r => if bad_for (kind_at sid) p then [sid] else sid :: recipients r p
    end.
  Fixpoint any_bad (subs : list nat) (p : payload) : bool :=
    match subs with
    | [] => false
    | sid :: r => bad_for (kind_at sid) p || any_bad r p
    end.

  (* a handler whose data event is refused by a subscriber fails at that point *)
  Definition lower_action (a : action) : list action :=
    match a with
    | AObs c v => if any_bad (chan_subs c) (payload_of v) then [a; AFail] else [a]
    | _ => [a]
    end.
  Definition lower (p : program) : program := map (fun b => flat_map lower_action b) p.

  (* ------------------------------------------------------------------ *)
  (* one statistic fed the simulator's observation log                   *)
  (* ------------------------------------------------------------------ *)
  Definition react_of (d : sdecl) : list (option payload) :=
    map (fun o => match o with Some i => Some (nth i pl pl_default) | None => None end) (d_react d).

  Definition pst0 (d : sdecl) : pst :=
    mkPst (sinit (d_kind d)) (react_of d) [] [] false false.

  Definition FUELP : nat := 64.

  Definition feed1 (sid : nat) (d : sdecl) (x : pst) (o : obsrec) : pst :=
    if ps_raised x then x else     (* not continued after an exception escaped (cases flagged) *)
    match o with
    | ObsV c v t =>
        if memn sid (recipients (chan_subs c) (payload_of v))
        then
          let x1 := preg FUELP (d_lsub d) (tmf t) true x (payload_of v) in
          (* a refusal of the data itself is the handler's failure, already in
             the lowered program; the statistic carries on afterwards *)
          if bad_for (d_kind d) (payload_of v)
          then mkPst (ps_state x1) (ps_q x1) (ps_tr x1) (ps_regs x1) (ps_raised x) (ps_nofuel x1)
          else x1
        else x
    | ObsWarm t => pinit FUELP (d_lsub d) (tmf t) x
    | ObsEnd t => pclose FUELP (d_lsub d) (tmf t) x
    end.

  (* [log] is chronological *)
  Definition stat_run (sid : nat) (d : sdecl) (log : list obsrec) : pst :=
    fold_left (feed1 sid d) log (pst0 d).

  (* ------------------------------------------------------------------ *)
  (* the model's dictionary of output statistics                          *)
  (* ------------------------------------------------------------------ *)
  Definition registry := list (nat * nat).       (* key -> sid, insertion order *)
  Fixpoint reg_get (k : nat) (r : registry) : option nat :=
    match r with
    | [] => None
    | (k', sid) :: r' => if Nat.eqb k' k then Some sid else reg_get k r'
    end.
  (* add_output_statistic: None = DSOLError (key already registered) *)
  Definition reg_add (k sid : nat) (r : registry) : option registry :=
    match reg_get k r with Some _ => None | None => Some (r ++ [(k, sid)]) end.
  Fixpoint reg_build_from (i : nat) (ds : list sdecl) (r : registry) : option registry :=
    match ds with
    | [] => Some r
    | d :: rest => match reg_add (d_key d) i r with
                   | None => None
                   | Some r' => reg_build_from (S i) rest r'
                   end
    end.
  (* initialize: output_statistics().clear(); construct_model() *)
  Definition reg_build : option registry := reg_build_from 0 cfg [].

  (* ------------------------------------------------------------------ *)
  (* whole runs: the simulator model on the lowered program; the          *)
  (* statistics live from the last accepted initialize on                 *)
  (* ------------------------------------------------------------------ *)
  Fixpoint run_marks (fuel : nat) (p : program) (s : sim) (cs : list cmd) (base : nat)
           (reg : option registry) : sim * nat * option registry :=
    match cs with
    | [] => (s, base, reg)
    | c :: r =>
        let '(s1, res) := do_cmd fuel p s c in
        match c, res with
        | Sim.Model.CInit _, ResOk => run_marks fuel p s1 r (length (obs s)) reg_build
        | _, _ => run_marks fuel p s1 r base reg
        end
    end.

  (* the observation log of the current replication, chronological *)
  Definition repl_log (s : sim) (base : nat) : list obsrec :=
    rev (firstn (length (obs s) - base) (obs s)).

  Definition final_stats (strat0 : strategy) (p : program) (cs : list cmd)
    : sim * list pst * option registry :=
    let '(s, base, reg) := run_marks FUEL (lower p) (init_sim strat0) cs 0 (Some []) in
    let log := repl_log s base in
    (s, map (fun id => stat_run (fst id) (snd id) log) (combine (seq 0 (length cfg)) cfg), reg).
End SimStats.

Arguments mkP {N} _ _ _.
Arguments p_c {N} _.
Arguments p_w {N} _.
Arguments p_v {N} _.
Arguments SC {N} _.
Arguments ST {N} _.
Arguments SW {N} _.
Arguments SP {N} _.
Arguments SReg {N} _ _.
Arguments SInit {N}.
Arguments SClose {N}.
Arguments PVSelf {N}.
Arguments PVInt {N} _.
Arguments PVNum {N} _.
Arguments PVX {N} _.
Arguments PVRes {N} _.
Arguments PVObsC {N} _.
Arguments PVObsV {N} _.
Arguments mkPub {N} _ _ _.
Arguments pr_j {N} _.
Arguments pr_v {N} _.
Arguments pr_at {N} _.
Arguments mkPst {N} _ _ _ _ _ _.
Arguments ps_state {N} _.
Arguments ps_q {N} _.
Arguments ps_tr {N} _.
Arguments ps_regs {N} _.
Arguments ps_raised {N} _.
Arguments ps_nofuel {N} _.

(* ====================================================================== *)
(* Correspondence with the implementation (binary64 instance)              *)
(* ====================================================================== *)
Local Notation fl := PrimFloat.float.

(* a payload the subscriber received *)
Inductive gpv := GSelf | GInt (z : Z) | GFl (y : fl) | GOther.

Definition pval_match (m : pval NumF) (g : gpv) : bool :=
  match m, g with
  | PVSelf, GSelf => true
  | PVInt z, GInt z' => Z.eqb z z'
  | PVNum x, GFl y => feq x y
  | PVX x, GFl y => xnum_match x y
  | PVRes r, GFl y => res_match r (GVal y)
  | PVObsC (CInt z), GInt z' => Z.eqb z z'
  | PVObsV (ONum x), GFl y => feq x y
  | _, _ => false
  end.

Fixpoint pub_match (m : list (pubrec NumF)) (g : list (nat * gpv)) : bool :=
  match m, g with
  | [], [] => true
  | r :: m', (j, v) :: g' => Nat.eqb (pr_j r) j && pval_match (pr_v r) v && pub_match m' g'
  | _, _ => false
  end.

(* getters of a statistic read at the end *)
Inductive ssnap :=
| SnC (count n : Z)
| SnT (p : tsnap)
| SnW (p : wsnap)
| SnP (p : tssnap).

Definition no_icdf (p : fl) : res fl := Raise OracleMiss.

Definition snap_match (s : sstate NumF) (e : ssnap) : bool :=
  match s, e with
  | SC c, SnC c0 n0 => Z.eqb (ccount c) c0 && Z.eqb (cn c) n0
  | ST t, SnT p => forallb (fun b => b) (tsnap_checks no_icdf t p)
  | SW w, SnW p => forallb (fun b => b) (wsnap_checks w p)
  | SP q, SnP p => forallb (fun b => b) (tssnap_checks q p)
  | _, _ => false
  end.

Record sexpect := mkSE {
  se_snap : ssnap;
  se_pub : list (nat * gpv);       (* deliveries to the subscriber, chronological *)
  se_lookup : bool                 (* model.get_output_statistic(key) is this statistic *)
}.

Record c11case := mkC11 {
  cc_cfg : list sdecl;
  cc_pl : list (payload NumF);
  cc_sim : scase;                  (* program as written (not lowered) and the simulator-level expectation *)
  cc_nkeys : nat;                  (* len(model.output_statistics()) *)
  cc_exp : list sexpect
}.

Definition stat_ok (reg : option registry) (i : nat) (d : sdecl) (x : pst NumF) (e : sexpect) : bool :=
  snap_match (ps_state x) (se_snap e)
  && pub_match (rev (ps_tr x)) (se_pub e)
  && Bool.eqb (match reg with
               | Some r => match reg_get (d_key d) r with Some sid => Nat.eqb sid i | None => false end
               | None => false
               end) (se_lookup e).

Fixpoint stats_ok (reg : option registry) (i : nat) (ds : list sdecl) (xs : list (pst NumF))
         (es : list sexpect) : bool :=
  match ds, xs, es with
  | [], [], [] => true
  | d :: ds', x :: xs', e :: es' => stat_ok reg i d x e && stats_ok reg (S i) ds' xs' es'
  | _, _, _ => false
  end.

(* 0 agree; 1 the simulator part disagrees; 2 outside the model (flag, an
   exception escaping a statistic, fuel); 3 a statistic disagrees *)
Definition c11_code (c : c11case) : nat :=
  let sc := cc_sim c in
  let lowered := mkCase (c_strat sc) (lower NumF (cc_cfg c) (cc_pl c) (c_prog sc)) (c_cmds sc) (c_exp sc) in
  match case_code lowered with
  | O =>
      let '(s, xs, reg) := final_stats NumF (cc_cfg c) (cc_pl c) (c_strat sc) (c_prog sc) (c_cmds sc) in
      if existsb (fun x => ps_raised x || ps_nofuel x) xs then 2%nat
      else if stats_ok reg 0 (cc_cfg c) xs (cc_exp c)
              && Nat.eqb (match reg with Some r => length r | None => 0%nat end) (cc_nkeys c)
           then 0%nat else 3%nat
  | n => n
  end.

Fixpoint c11_codes_from (i : nat) (want : nat) (cs : list c11case) : list nat :=
  match cs with
  | [] => []
  | c :: r => if Nat.eqb (c11_code c) want then i :: c11_codes_from (S i) want r
              else c11_codes_from (S i) want r
  end.

(* diagnostics: per statistic (snapshot ok, publications ok) and the model's own view *)
Definition c11_view (c : c11case) :=
  let sc := cc_sim c in
  let '(s, xs, reg) := final_stats NumF (cc_cfg c) (cc_pl c) (c_strat sc) (c_prog sc) (c_cmds sc) in
  (map (fun xe => (snap_match (ps_state (fst xe)) (se_snap (snd xe)),
                   pub_match (rev (ps_tr (fst xe))) (se_pub (snd xe)),
                   ps_raised (fst xe), ps_nofuel (fst xe)))
       (combine xs (cc_exp c)),
   map (fun x => ps_state x) xs, reg).

(* ====================================================================== *)
(* The same model read METHOD BY METHOD                                     *)
(*                                                                          *)
(* What Stats/SimGenAgree.v compares the translated source with: the        *)
(* notify dispatch of the Sim* classes on an event with a type, the         *)
(* constructors as updates of the listener tables of the simulator and of   *)
(* the model's producer and of the model's dictionary, the dictionary       *)
(* methods of DSOLModel.  [reg_body] / [fire_all] / [pinit] / [pclose]      *)
(* above already are EventBased*.register / _fire_events / initialize /     *)
(* end_observations.  SimGenAgree.v also proves that [stat_run] is this     *)
(* reading composed ([stat_run_by_method]).                                 *)
(* ====================================================================== *)

(* event types a simulation statistic is notified with: the standard data
   events of StatEvents, an event type of the model's own, the simulator's
   WARMUP_EVENT and END_REPLICATION_EVENT, its other lifecycle events *)
Inductive etype := ETData | ETWeightData | ETTimestampData | ETWarmup | ETEndRepl | ETUser (n : nat) | ETSim (n : nat).

Definition etype_eqb (a b : etype) : bool :=
  match a, b with
  | ETData, ETData | ETWeightData, ETWeightData | ETTimestampData, ETTimestampData
  | ETWarmup, ETWarmup | ETEndRepl, ETEndRepl => true
  | ETUser n, ETUser m => Nat.eqb n m
  | ETSim n, ETSim m => Nat.eqb n m
  | _, _ => false
  end.

(* a set of event types (self._event_types), insertion order kept *)
Definition et_in (e : etype) (s : list etype) : bool := existsb (etype_eqb e) s.
Definition set_add (e : etype) (s : list etype) : list etype := if et_in e s then s else s ++ [e].

(* the data event each kind of statistic is built for *)
Definition std_type (k : skind) : etype :=
  match k with
  | KCounter | KTally => ETData
  | KWeighted => ETWeightData
  | KPersistent => ETTimestampData
  end.

(* the listeners of a producer: (event type, listener) in subscription order;
   add_listener ignores a listener that is already there *)
Definition ltable := list (etype * nat).
Definition sub_mem (e : etype) (l : nat) (t : ltable) : bool :=
  existsb (fun p => etype_eqb (fst p) e && Nat.eqb (snd p) l) t.
Definition add_sub (e : etype) (l : nat) (t : ltable) : ltable :=
  if sub_mem e l t then t else t ++ [(e, l)].
Definition subs_of (t : ltable) (e : etype) : list nat :=
  map snd (filter (fun p => etype_eqb (fst p) e) t).

(* constructor arguments, as far as the constructors look at them *)
Inductive pykey := KStr (n : nat) | KNotStr.
Inductive pynm := NmStr | NmOther.
Inductive pysim := SimObj (has_model : bool) | NotSim.
Inductive pyprod := ProdObj | ProdNone | ProdOther.
Inductive pyetarg := EtObj (e : etype) | EtNone | EtOther.
Inductive pystat := StatObj (sid : nat) | NotStat.

(* what construct_model has built so far -- the simulator's listeners, the
   listeners of the model's producer, the model's dictionary -- and the
   attributes of the statistic under construction *)
Record cobj := mkCo {
  co_sim : ltable;
  co_prod : ltable;
  co_dict : registry;
  co_types : list etype;          (* _event_types *)
  co_key : option nat;            (* _key *)
  co_plain : option skind         (* the ordinary statistic's constructor has run *)
}.
Inductive cexn := CTypeError | CDSOLError | CKeyError.
Inductive cres := COk (c : cobj) | CExn (k : cexn) (c : cobj).

Definition co_set_dict (r : registry) (c : cobj) : cobj :=
  mkCo (co_sim c) (co_prod c) r (co_types c) (co_key c) (co_plain c).

(* DSOLModel.add_output_statistic / get_output_statistic *)
Inductive dres := DOk (r : registry) | DExn (k : cexn) (r : registry).
Definition m_add_output_statistic (r : registry) (k : nat) (st : pystat) : dres :=
  match reg_get k r with
  | Some _ => DExn CDSOLError r
  | None => match st with
            | StatObj sid => match reg_add k sid r with Some r' => DOk r' | None => DExn CDSOLError r end
            | NotStat => DExn CTypeError r
            end
  end.

(* Sim*.listen_to(producer, event_type) *)
Definition m_listen_to (sid : nat) (pr : pyprod) (et : pyetarg) (c : cobj) : cres :=
  match pr, et with
  | ProdObj, EtObj e =>
      COk (mkCo (co_sim c) (add_sub e sid (co_prod c)) (co_dict c) (set_add e (co_types c)) (co_key c) (co_plain c))
  | _, _ => CExn CTypeError c
  end.

(* Sim*(key, name, simulator, producer=.., event_type=..) *)
Definition m_ctor (k : skind) (sid : nat) (key : pykey) (nm : pynm) (sm : pysim) (pr : pyprod) (et : pyetarg)
           (c : cobj) : cres :=
  match key, sm, nm with
  | KStr n, SimObj has_model, NmStr =>
      let s1 := add_sub ETWarmup sid (co_sim c) in
      let s2 := match k with KPersistent => add_sub ETEndRepl sid s1 | _ => s1 end in
      let c1 := mkCo s2 (co_prod c) (co_dict c) [std_type k] (Some n) (Some k) in
      let listened := match pr, et with ProdNone, EtNone => COk c1 | _, _ => m_listen_to sid pr et c1 end in
      match listened with
      | CExn e c2 => CExn e c2
      | COk c2 =>
          if has_model then
            match m_add_output_statistic (co_dict c2) n (StatObj sid) with
            | DOk r => COk (co_set_dict r c2)
            | DExn e r => CExn e (co_set_dict r c2)
            end
          else COk c2
      end
  | _, _, _ => CExn CTypeError c
  end.

Section ByMethod.
  Variable N : Num.
  Local Notation F := (F N).

  (* an event as notify sees it: type, content, time stamp of a TimedEvent *)
  Record sevent := mkSev { ne_type : etype; ne_content : payload N; ne_stamp : option F }.

  (* the subscriber's reaction: registers from inside notify, at most f deep *)
  Definition react (f : nat) (lsub : list nat) (tm : F) : pst N -> payload N -> pst N :=
    fun y q => preg N f lsub tm false y q.

  (* EventBased*.notify(event): the event must be the data event the class is
     built for (a timed one for the time-stamped statistic, whose stamp is the
     registration time); what register itself refuses is refused in [sreg] *)
  Definition eb_notify (k : skind) (lsub : list nat) (tm : F) (reenter : pst N -> payload N -> pst N)
             (ext : bool) (x : pst N) (e : sevent) : pst N :=
    if etype_eqb (ne_type e) (std_type k) then
      match k with
      | KPersistent =>
          match ne_stamp e with
          | Some t => reg_body N lsub t reenter ext x (ne_content e)
          | None => set_raised N x
          end
      | _ => reg_body N lsub tm reenter ext x (ne_content e)
      end
    else set_raised N x.

  (* Sim*.notify(event): [types] = self._event_types, [tm] = float(simulator_time) *)
  Definition snotify (k : skind) (f : nat) (lsub : list nat) (types : list etype) (tm : F)
             (x : pst N) (e : sevent) : pst N :=
    let ty := ne_type e in
    let data t := reg_body N lsub t (react f lsub tm) true x (ne_content e) in
    match k with
    | KPersistent =>
        if etype_eqb ty ETTimestampData then
          match ne_stamp e with Some t => data t | None => set_raised N x end
        else if et_in ty types then data tm
        else if etype_eqb ty ETWarmup then pinit N f lsub tm x
        else if etype_eqb ty ETEndRepl then pclose N (S f) lsub tm x
        else x
    | _ =>
        if et_in ty types then data tm
        else if etype_eqb ty ETWarmup then pinit N f lsub tm x
        else x
    end.

  Variable chan_et : nat -> etype.       (* the event type of each channel of the model's producer *)
  Variable cfg : list sdecl.
  Variable pl : list (payload N).

  (* how construct_model of the harness creates statistic [sid] declared [d] *)
  Definition new_obj (c : cobj) : cobj := mkCo (co_sim c) (co_prod c) (co_dict c) [] None None.
  Fixpoint listen_all (listen : nat -> pyprod -> pyetarg -> cobj -> cres) (sid : nat) (chs : list nat) (c : cobj) : cres :=
    match chs with
    | [] => COk c
    | ch :: r => match listen sid ProdObj (EtObj (chan_et ch)) c with
                 | COk c1 => listen_all listen sid r c1
                 | err => err
                 end
    end.
  Definition construct (ctor : skind -> nat -> pykey -> pynm -> pysim -> pyprod -> pyetarg -> cobj -> cres)
             (listen : skind -> nat -> pyprod -> pyetarg -> cobj -> cres) (c : cobj) (sid : nat) (d : sdecl) : cres :=
    match d_chans d with
    | [] => ctor (d_kind d) sid (KStr (d_key d)) NmStr (SimObj true) ProdNone EtNone (new_obj c)
    | ch :: r =>
        match ctor (d_kind d) sid (KStr (d_key d)) NmStr (SimObj true) ProdObj (EtObj (chan_et ch)) (new_obj c) with
        | COk c1 => listen_all (listen (d_kind d)) sid r c1
        | err => err
        end
    end.
  Fixpoint build_from ctor listen (i : nat) (ds : list sdecl) (c : cobj) : cres :=
    match ds with
    | [] => COk c
    | d :: r => match construct ctor listen c i d with
                | COk c1 => build_from ctor listen (S i) r c1
                | err => err
                end
    end.
  Definition co_empty : cobj := mkCo [] [] [] [] None None.
  Definition res_obj (r : cres) : cobj := match r with COk c => c | CExn _ c => c end.

  (* the simulator's notification behind a log entry *)
  Definition ev_of (o : obsrec) : sevent :=
    match o with
    | ObsV c v t => mkSev (chan_et c) (payload_of N pl v) (Some (tmf N t))
    | ObsWarm t => mkSev ETWarmup (pl_default N) (Some (tmf N t))
    | ObsEnd t => mkSev ETEndRepl (pl_default N) (Some (tmf N t))
    end.
  Definition otm (o : obsrec) : F :=
    match o with ObsV _ _ t => tmf N t | ObsWarm t => tmf N t | ObsEnd t => tmf N t end.
  (* nesting budget of the subscriber's registrations, as in [feed1] *)
  Definition ofuel (o : obsrec) : nat := match o with ObsWarm _ => FUELP | _ => pred FUELP end.

  (* one log entry: is statistic [sid] among the listeners notified (tables
     [tb] left by construct_model; a fire on the model's producer stops at the
     first listener that raises), then its notify ([note]) *)
  Definition feed1_by (note : skind -> nat -> list nat -> list etype -> F -> pst N -> sevent -> pst N)
             (tb : cobj) (types : list etype) (sid : nat) (d : sdecl) (x : pst N) (o : obsrec) : pst N :=
    if ps_raised x then x else
    let e := ev_of o in
    let x1 := note (d_kind d) (ofuel o) (d_lsub d) types (otm o) x e in
    match o with
    | ObsV _ _ _ =>
        if memn sid (recipients N cfg (subs_of (co_prod tb) (ne_type e)) (ne_content e)) then
          if bad_for N (d_kind d) (ne_content e)
          then mkPst (ps_state x1) (ps_q x1) (ps_tr x1) (ps_regs x1) (ps_raised x) (ps_nofuel x1)
          else x1
        else x
    | _ => if sub_mem (ne_type e) sid (co_sim tb) then x1 else x
    end.

  Definition stat_run_by ctor listen note (sid : nat) (d : sdecl) (log : list obsrec) : pst N :=
    let tb := res_obj (build_from ctor listen 0 cfg co_empty) in
    let types := co_types (res_obj (construct ctor listen co_empty sid d)) in
    fold_left (feed1_by note tb types sid d) log (pst0 N pl d).

  (* Simulator.initialize, as far as the model's statistics go:
     model.output_statistics().clear(), then model.construct_model() *)
  Definition m_initialize_model (construct_model : registry -> cres) (before : registry) : cres :=
    construct_model [].
  Definition construct_model_by ctor listen (r : registry) : cres :=
    build_from ctor listen 0 cfg (co_set_dict r co_empty).
End ByMethod.

Arguments mkSev {N} _ _ _.
Arguments ne_type {N} _.
Arguments ne_content {N} _.
Arguments ne_stamp {N} _.
