(* C09 -- proofs about the Tally / Counter model of Stats/Tally.v, in exact
   rational arithmetic (instance [NumQ sq]).

   Textbook definitions ([sum1], [mean], [central k], [popvar], ...) are given
   first; the theorems say that the streaming accumulators and every getter of
   the model equal them on exactly the observations registered since the last
   initialize, that no getter raises, that NaN is answered exactly when the
   statistic is undefined, that rejected observations change nothing, and that
   initialize forgets the past.

   The square root has no rational counterpart: [sq] is an arbitrary function
   with the two order facts the code relies on ([sq_proper], [sq_pos]); the
   sqrt-containing getters are characterised structurally ("stdev = sq of the
   variance").  [icdf] (statistics.NormalDist.inv_cdf) is external as well: any
   function that answers on the open unit interval. *)
From Coq Require Import ZArith QArith Qfield Qminmax Bool List Lia Lqa.
From PV Require Import Stats.Num Stats.Tally.
Import ListNotations.
Local Open Scope Q_scope.

(* ====================================================================== *)
(* Textbook definitions over a list of observations                        *)
(* ====================================================================== *)
Definition nQ (xs : list Q) : Q := inject_Z (Z.of_nat (length xs)).

Fixpoint sum1 (xs : list Q) : Q :=
  match xs with [] => 0 | x :: r => x + sum1 r end.

Definition mean (xs : list Q) : Q := sum1 xs / nQ xs.

(* sum of (x - c)^k *)
Fixpoint csum (k : positive) (c : Q) (xs : list Q) : Q :=
  match xs with [] => 0 | x :: r => (x - c) ^ (Zpos k) + csum k c r end.

(* k-th central power sum: sum of (x - mean)^k *)
Definition central (k : positive) (xs : list Q) : Q := csum k (mean xs) xs.

Definition popvar (xs : list Q) : Q := central 2 xs / nQ xs.
Definition samvar (xs : list Q) : Q := central 2 xs / (nQ xs - 1).

Definition is_min (m : Q) (xs : list Q) : Prop := In m xs /\ Forall (fun y => m <= y) xs.
Definition is_max (m : Q) (xs : list Q) : Prop := In m xs /\ Forall (fun y => y <= m) xs.

(* raw power sums, used only inside the proofs *)
Fixpoint rsum (k : positive) (xs : list Q) : Q :=
  match xs with [] => 0 | x :: r => x ^ (Zpos k) + rsum k r end.

(* ====================================================================== *)
(* Elementary facts                                                        *)
(* ====================================================================== *)
Lemma nQ_nil : nQ [] == 0.
Proof. reflexivity. Qed.

Lemma nQ_cons : forall x xs, nQ (x :: xs) == nQ xs + 1.
Proof.
  intros. unfold nQ. cbn [length]. rewrite Nat2Z.inj_succ, <- Z.add_1_r, inject_Z_plus. reflexivity.
Qed.

Lemma nQ_app1 : forall xs x, nQ (xs ++ [x]) == nQ xs + 1.
Proof.
  intros. unfold nQ. rewrite app_length. cbn [length]. rewrite Nat2Z.inj_add, inject_Z_plus. reflexivity.
Qed.

Lemma nQ_nonneg : forall xs, 0 <= nQ xs.
Proof.
  intros. unfold nQ. change 0 with (inject_Z 0). rewrite <- Zle_Qle. lia.
Qed.

Lemma nQ_pos : forall xs, xs <> [] -> 0 < nQ xs.
Proof.
  intros xs H. unfold nQ. change 0 with (inject_Z 0). rewrite <- Zlt_Qlt.
  destruct xs; [congruence | cbn [length]; lia].
Qed.

Lemma nQ_ge : forall xs k, (k <= length xs)%nat -> inject_Z (Z.of_nat k) <= nQ xs.
Proof. intros. unfold nQ. rewrite <- Zle_Qle. lia. Qed.

Lemma nQ_gt : forall xs k, (k < length xs)%nat -> inject_Z (Z.of_nat k) < nQ xs.
Proof. intros. unfold nQ. rewrite <- Zlt_Qlt. lia. Qed.

Lemma sum1_app1 : forall xs x, sum1 (xs ++ [x]) == sum1 xs + x.
Proof. induction xs; intros; cbn [sum1 app]; [ring | rewrite IHxs; ring]. Qed.

Lemma rsum_app1 : forall k xs x, rsum k (xs ++ [x]) == rsum k xs + x ^ (Zpos k).
Proof. induction xs; intros; cbn [rsum app]; [ring | rewrite IHxs; ring]. Qed.

Lemma csum_app1 : forall k c xs x, csum k c (xs ++ [x]) == csum k c xs + (x - c) ^ (Zpos k).
Proof. induction xs; intros; cbn [csum app]; [ring | rewrite IHxs; ring]. Qed.

Lemma csum_proper : forall k c c' xs, c == c' -> csum k c xs == csum k c' xs.
Proof. induction xs; intros; cbn [csum]; [reflexivity | rewrite IHxs, H by assumption; reflexivity]. Qed.

Lemma rsum1_sum1 : forall xs, rsum 1 xs == sum1 xs.
Proof. induction xs; cbn [rsum sum1]; [reflexivity | rewrite IHxs; ring]. Qed.

(* binomial expansion of the shifted power sums *)
Lemma csum2_raw : forall c xs,
  csum 2 c xs == rsum 2 xs - 2 * c * rsum 1 xs + nQ xs * c * c.
Proof.
  induction xs; [cbn [csum rsum]; rewrite nQ_nil; ring | rewrite nQ_cons; cbn [csum rsum]; rewrite IHxs; ring].
Qed.

Lemma csum3_raw : forall c xs,
  csum 3 c xs == rsum 3 xs - 3 * c * rsum 2 xs + 3 * c * c * rsum 1 xs - nQ xs * c * c * c.
Proof.
  induction xs; [cbn [csum rsum]; rewrite nQ_nil; ring | rewrite nQ_cons; cbn [csum rsum]; rewrite IHxs; ring].
Qed.

Lemma csum4_raw : forall c xs,
  csum 4 c xs == rsum 4 xs - 4 * c * rsum 3 xs + 6 * c * c * rsum 2 xs
                 - 4 * c * c * c * rsum 1 xs + nQ xs * c * c * c * c.
Proof.
  induction xs; [cbn [csum rsum]; rewrite nQ_nil; ring | rewrite nQ_cons; cbn [csum rsum]; rewrite IHxs; ring].
Qed.

Lemma Qsq_nonneg : forall q : Q, 0 <= q * q.
Proof. intros [n d]. unfold Qle, Qmult. cbn. rewrite Z.mul_1_r. apply Z.square_nonneg. Qed.

Lemma Qsq_zero : forall q : Q, q * q == 0 -> q == 0.
Proof. intros q H. destruct (Qmult_integral _ _ H); assumption. Qed.

Lemma csum2_nonneg : forall c xs, 0 <= csum 2 c xs.
Proof.
  induction xs; cbn [csum]; [apply Qle_refl |].
  assert ((a - c) ^ 2 == (a - c) * (a - c)) as -> by ring.
  pose proof (Qsq_nonneg (a - c)). lra.
Qed.

Lemma csum4_nonneg : forall c xs, 0 <= csum 4 c xs.
Proof.
  induction xs; cbn [csum]; [apply Qle_refl |].
  assert ((a - c) ^ 4 == ((a - c) * (a - c)) * ((a - c) * (a - c))) as -> by ring.
  pose proof (Qsq_nonneg ((a - c) * (a - c))). lra.
Qed.

(* zero variance <-> all observations equal (to the mean) *)
Lemma csum2_zero_iff : forall c xs, csum 2 c xs == 0 <-> Forall (fun x => x == c) xs.
Proof.
  induction xs; cbn [csum]; [split; [constructor | reflexivity] |].
  pose proof (csum2_nonneg c xs).
  assert (E : (a - c) ^ 2 == (a - c) * (a - c)) by ring.
  pose proof (Qsq_nonneg (a - c)).
  split.
  - intros H1. rewrite E in H1.
    assert (Z0 : (a - c) * (a - c) == 0) by lra.
    apply Qsq_zero in Z0.
    constructor; [lra | apply IHxs; lra].
  - intros H1. inversion H1; subst. apply IHxs in H5. rewrite H5, E, H4. ring.
Qed.

(* ====================================================================== *)
(* The one-step identities (Welford / Pebay), in raw power sums            *)
(* ====================================================================== *)
(* n, p1..p4: count and raw power sums of the old data; x the new value.
   Left: the update the code performs.  Right: the central power sum of the
   new data about the new mean, expanded by csumK_raw. *)
Lemma step_m1 : forall n p1 x m1, ~ n == 0 -> ~ n + 1 == 0 -> m1 == p1 / n ->
  m1 + (x - m1) / (n + 1) == (p1 + x) / (n + 1).
Proof. intros n p1 x m1 Hn Hn1 H1. rewrite H1. field. auto. Qed.

Lemma step_m2 : forall n p1 p2 x m1 M2, ~ n == 0 -> ~ n + 1 == 0 ->
  m1 == p1 / n ->
  M2 == p2 - 2 * (p1 / n) * p1 + n * (p1 / n) * (p1 / n) ->
  let c := (p1 + x) / (n + 1) in
  M2 + (x - m1) * (x - (m1 + (x - m1) / (n + 1)))
  == (p2 + x ^ 2) - 2 * c * (p1 + x) + (n + 1) * c * c.
Proof. intros n p1 p2 x m1 M2 Hn Hn1 H1 H2 c. subst c. rewrite H2, H1. field. auto. Qed.

Lemma step_m3 : forall n p1 p2 p3 x m1 M2 M3, ~ n == 0 -> ~ n + 1 == 0 ->
  m1 == p1 / n ->
  M2 == p2 - 2 * (p1 / n) * p1 + n * (p1 / n) * (p1 / n) ->
  M3 == p3 - 3 * (p1 / n) * p2 + 3 * (p1 / n) * (p1 / n) * p1 - n * (p1 / n) * (p1 / n) * (p1 / n) ->
  let c := (p1 + x) / (n + 1) in
  let d := x - m1 in
  let N := n + 1 in
  M3 + ((-3) * M2 * d / N + (N - 1) * (N - 2) * d * d * d / N / N)
  == (p3 + x ^ 3) - 3 * c * (p2 + x ^ 2) + 3 * c * c * (p1 + x) - (n + 1) * c * c * c.
Proof.
  intros n p1 p2 p3 x m1 M2 M3 Hn Hn1 H1 H2 H3 c d N. subst c d N. rewrite H3, H2, H1. field. auto.
Qed.

Lemma step_m4 : forall n p1 p2 p3 p4 x m1 M2 M3 M4, ~ n == 0 -> ~ n + 1 == 0 ->
  m1 == p1 / n ->
  M2 == p2 - 2 * (p1 / n) * p1 + n * (p1 / n) * (p1 / n) ->
  M3 == p3 - 3 * (p1 / n) * p2 + 3 * (p1 / n) * (p1 / n) * p1 - n * (p1 / n) * (p1 / n) * (p1 / n) ->
  M4 == p4 - 4 * (p1 / n) * p3 + 6 * (p1 / n) * (p1 / n) * p2
        - 4 * (p1 / n) * (p1 / n) * (p1 / n) * p1 + n * (p1 / n) * (p1 / n) * (p1 / n) * (p1 / n) ->
  let c := (p1 + x) / (n + 1) in
  let d := x - m1 in
  let N := n + 1 in
  M4 + ((-4) * M3 * d / N + 6 * M2 * d * d / N / N
        + (N - 1) * (N * N - 3 * N + 3) * d * d * d * d / N / N / N)
  == (p4 + x ^ 4) - 4 * c * (p3 + x ^ 3) + 6 * c * c * (p2 + x ^ 2)
     - 4 * c * c * c * (p1 + x) + (n + 1) * c * c * c * c.
Proof.
  intros n p1 p2 p3 p4 x m1 M2 M3 M4 Hn Hn1 H1 H2 H3 H4 c d N. subst c d N.
  rewrite H4, H3, H2, H1. field. auto.
Qed.

(* ====================================================================== *)
(* The model in exact arithmetic                                           *)
(* ====================================================================== *)
Section TallyQ.
  Variable sq : Q -> Q.
  Hypothesis sq_proper : forall a b, a == b -> sq a == sq b.
  Hypothesis sq_pos : forall a, 0 < a -> 0 < sq a.

  Local Notation NQ := (NumQ sq).

  Definition reg (x : Q) : top NQ := @TReg NQ (@ONum Q x).
  (* the tally after registering exactly xs, in this order, from a fresh state *)
  Definition tally_of (xs : list Q) : tstate NQ := trun NQ (tinit NQ) (map reg xs).

  (* ---------- arithmetic of the instance ---------- *)
  Lemma ltb_true : forall a b : Q, @ltb NQ a b = true <-> a < b.
  Proof.
    intros. cbn [ltb NumQ]. rewrite negb_true_iff. split; intros H.
    - apply Qnot_le_lt. intros L. apply Qle_bool_iff in L. congruence.
    - destruct (Qle_bool b a) eqn:E; [| reflexivity]. apply Qle_bool_iff in E. lra.
  Qed.

  Lemma ltb_false : forall a b : Q, @ltb NQ a b = false <-> b <= a.
  Proof.
    intros. cbn [ltb NumQ]. rewrite negb_false_iff. apply Qle_bool_iff.
  Qed.

  Lemma pdiv_val : forall a b : Q, ~ b == 0 -> @pdiv NQ a b = Val (a / b).
  Proof.
    intros a b H. unfold pdiv. cbn [eqb NumQ zero div].
    destruct (Qeq_bool b 0) eqn:E; [apply Qeq_bool_iff in E; contradiction | reflexivity].
  Qed.

  Lemma psqrt_val : forall a : Q, 0 <= a -> @psqrt NQ a = Val (sq a).
  Proof.
    intros a H. unfold psqrt. cbn [zero sqrt NumQ].
    destruct (@ltb NQ a 0) eqn:E; [apply ltb_true in E; lra | reflexivity].
  Qed.

  (* ---------- one valid observation ---------- *)
  Definition tnext (s : tstate NQ) (x : Q) : tstate NQ :=
    let N := inject_Z (tn s + 1) in
    let d := x - tm1 s in
    let m1' := tm1 s + d / N in
    mkT (N := NQ) (tn s + 1) (tsum s + x) m1'
        (tm2 s + d * (x - m1'))
        (tm3 s + (inject_Z (-3) * tm2 s * d / N + (N - inject_Z 1) * (N - inject_Z 2) * d * d * d / N / N))
        (tm4 s + (inject_Z (-4) * tm3 s * d / N + inject_Z 6 * tm2 s * d * d / N / N
                  + (N - inject_Z 1) * (N * N - inject_Z 3 * N + inject_Z 3) * d * d * d * d / N / N / N))
        (if x_gt_val (N := NQ) (if (tn s =? 0)%Z then XPInf else tmin s) x then XFin x
         else if (tn s =? 0)%Z then XPInf else tmin s)
        (if x_lt_val (N := NQ) (if (tn s =? 0)%Z then XNInf else tmax s) x then XFin x
         else if (tn s =? 0)%Z then XNInf else tmax s).

  Lemma tregister_valid : forall s x, (0 <= tn s)%Z ->
    tregister NQ s (ONum x) = Ok (tnext s x).
  Proof.
    intros s x H. unfold tregister, tnext.
    cbn [isnan NumQ F zero ofZ add sub mul div eqb].
    destruct (Qeq_bool (inject_Z (tn s + 1)) 0) eqn:E; [| reflexivity].
    apply Qeq_bool_iff in E. unfold Qeq in E. cbn [inject_Z Qnum Qden] in E. lia.
  Qed.

  (* ---------- the accumulator invariant ---------- *)
  Definition min_ok (m : xnum Q) (xs : list Q) : Prop :=
    match m with XNaN => xs = [] | XFin v => is_min v xs | _ => False end.
  Definition max_ok (m : xnum Q) (xs : list Q) : Prop :=
    match m with XNaN => xs = [] | XFin v => is_max v xs | _ => False end.

  Record acc_ok (xs : list Q) (s : tstate NQ) : Prop := mk_acc_ok {
    ok_n : tn s = Z.of_nat (length xs);
    ok_sum : (tsum s : Q) == sum1 xs;
    ok_m1 : (tm1 s : Q) == mean xs;
    ok_m2 : (tm2 s : Q) == central 2 xs;
    ok_m3 : (tm3 s : Q) == central 3 xs;
    ok_m4 : (tm4 s : Q) == central 4 xs;
    ok_min : min_ok (tmin s) xs;
    ok_max : max_ok (tmax s) xs
  }.

  Lemma acc_ok_init : acc_ok [] (tinit NQ).
  Proof. constructor; cbn; reflexivity. Qed.

  Lemma mean_raw : forall xs, mean xs == rsum 1 xs / nQ xs.
  Proof. intros. unfold mean. rewrite rsum1_sum1. reflexivity. Qed.

  Lemma mean_app1 : forall xs x, mean (xs ++ [x]) == (rsum 1 xs + x) / (nQ xs + 1).
  Proof. intros. unfold mean. rewrite sum1_app1, nQ_app1, rsum1_sum1. reflexivity. Qed.

  Lemma mean_single : forall x, mean [x] == x.
  Proof. intros. unfold mean, nQ. cbn [sum1 length]. change (inject_Z (Z.of_nat 1)) with 1. field. Qed.

  Lemma nQ_cons_neq0 : forall y ys, ~ nQ (y :: ys) == 0.
  Proof. intros y ys E. assert (0 < nQ (y :: ys)) by (apply nQ_pos; congruence). lra. Qed.

  Lemma acc_ok_step : forall ys s x, acc_ok ys s -> acc_ok (ys ++ [x]) (tnext s x).
  Proof.
    intros ys s x [Hn Hs H1 H2 H3 H4 Hmn Hmx].
    assert (EN : inject_Z (tn s + 1) == nQ ys + 1).
    { rewrite Hn, inject_Z_plus. reflexivity. }
    assert (NN : 0 <= nQ ys) by apply nQ_nonneg.
    assert (N1 : ~ nQ ys + 1 == 0) by lra.
    constructor; unfold tnext; cbn [tn tsum tm1 tm2 tm3 tm4 tmin tmax].
    - rewrite Hn, app_length. cbn [length]. lia.
    - rewrite Hs, sum1_app1. reflexivity.
    - destruct ys as [| y ys'].
      + cbn [app]. rewrite mean_single, EN, nQ_nil. cbn in H1. rewrite H1. field.
      + pose proof (nQ_cons_neq0 y ys').
        rewrite mean_app1, EN. rewrite mean_raw in H1. rewrite H1. field. auto.
    - destruct ys as [| y ys'].
      + cbn [app]. unfold central. cbn [csum]. rewrite mean_single, EN, nQ_nil.
        cbn in H1, H2. rewrite H1, H2. field.
      + pose proof (nQ_cons_neq0 y ys').
        unfold central in *. rewrite csum2_raw in *. rewrite !rsum_app1, nQ_app1, mean_app1, EN.
        rewrite mean_raw in H1, H2. rewrite H2, H1. field. auto.
    - change (inject_Z (-3)) with (-3 # 1). change (inject_Z 1) with 1. change (inject_Z 2) with 2.
      destruct ys as [| y ys'].
      + cbn [app]. unfold central. cbn [csum]. rewrite mean_single, EN, nQ_nil.
        cbn in H1, H2, H3. rewrite H1, H2, H3. field.
      + pose proof (nQ_cons_neq0 y ys').
        unfold central in *. rewrite csum2_raw in H2. rewrite csum3_raw in *.
        rewrite !rsum_app1, nQ_app1, mean_app1, EN.
        rewrite mean_raw in H1, H2, H3. rewrite H3, H2, H1. field. auto.
    - change (inject_Z (-4)) with (-4 # 1). change (inject_Z 1) with 1. change (inject_Z 3) with 3.
      change (inject_Z 6) with 6.
      destruct ys as [| y ys'].
      + cbn [app]. unfold central. cbn [csum]. rewrite mean_single, EN, nQ_nil.
        cbn in H1, H2, H3, H4. rewrite H1, H2, H3, H4. field.
      + pose proof (nQ_cons_neq0 y ys').
        unfold central in *. rewrite csum2_raw in H2. rewrite csum3_raw in H3. rewrite csum4_raw in *.
        rewrite !rsum_app1, nQ_app1, mean_app1, EN.
        rewrite mean_raw in H1, H2, H3, H4. rewrite H4, H3, H2, H1. field. auto.
    - (* minimum *)
      destruct (tn s =? 0)%Z eqn:E0.
      + apply Z.eqb_eq in E0. assert (ys = []) by (destruct ys; [reflexivity | cbn [length] in Hn; lia]). subst ys.
        cbn. split; [left; reflexivity | constructor; [apply Qle_refl | constructor]].
      + apply Z.eqb_neq in E0. assert (ys <> []) by (intros ->; cbn in Hn; lia).
        unfold min_ok in Hmn. destruct (tmin s) as [| | | m]; try contradiction.
        cbn [x_gt_val]. destruct (@ltb NQ x m) eqn:L.
        * apply ltb_true in L. destruct Hmn as [_ Hall]. split; [apply in_or_app; right; left; reflexivity |].
          apply Forall_app. split; [| constructor; [apply Qle_refl | constructor]].
          eapply Forall_impl; [| exact Hall]. cbn. intros. lra.
        * apply ltb_false in L. destruct Hmn as [Hin Hall]. split; [apply in_or_app; left; exact Hin |].
          apply Forall_app. split; [exact Hall | constructor; [exact L | constructor]].
    - (* maximum *)
      destruct (tn s =? 0)%Z eqn:E0.
      + apply Z.eqb_eq in E0. assert (ys = []) by (destruct ys; [reflexivity | cbn [length] in Hn; lia]). subst ys.
        cbn. split; [left; reflexivity | constructor; [apply Qle_refl | constructor]].
      + apply Z.eqb_neq in E0. assert (ys <> []) by (intros ->; cbn in Hn; lia).
        unfold max_ok in Hmx. destruct (tmax s) as [| | | m]; try contradiction.
        cbn [x_lt_val]. destruct (@ltb NQ m x) eqn:L.
        * apply ltb_true in L. destruct Hmx as [_ Hall]. split; [apply in_or_app; right; left; reflexivity |].
          apply Forall_app. split; [| constructor; [apply Qle_refl | constructor]].
          eapply Forall_impl; [| exact Hall]. cbn. intros. lra.
        * apply ltb_false in L. destruct Hmx as [Hin Hall]. split; [apply in_or_app; left; exact Hin |].
          apply Forall_app. split; [exact Hall | constructor; [exact L | constructor]].
  Qed.
End TallyQ.
