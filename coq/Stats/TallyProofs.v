(* C09 -- proofs about the Tally / Counter model of Stats/Tally.v, in exact
   rational arithmetic (instance [NumQ sq]).

   Textbook definitions ([sum1], [mean], [central k], [popvar], ...) are given
   first; the theorems say that the streaming accumulators and every getter of
   the model equal them on exactly the observations registered since the last
   initialize, that no getter raises, that NaN is answered exactly when the
   statistic is undefined, that rejected observations change nothing, and that
   initialize forgets the past.

   The square root has no rational counterpart: [sq] is an arbitrary function
   with the two order facts the code relies on ([sq_proper], [sq_pos]); the
   sqrt-containing getters are characterised structurally ("stdev = sq of the
   variance").  [icdf] (statistics.NormalDist.inv_cdf) is external as well: any
   function that answers on the open unit interval. *)
From Coq Require Import ZArith QArith Qfield Qminmax Bool List Lia Lqa.
From PV Require Import Stats.Num Stats.Tally.
Import ListNotations.
Local Open Scope Q_scope.

(* ====================================================================== *)
(* Textbook definitions over a list of observations                        *)
(* ====================================================================== *)
Definition nQ (xs : list Q) : Q := inject_Z (Z.of_nat (length xs)).

Fixpoint sum1 (xs : list Q) : Q :=
  match xs with [] => 0 | x :: r => x + sum1 r end.

Definition mean (xs : list Q) : Q := sum1 xs / nQ xs.

(* sum of (x - c)^k *)
Fixpoint csum (k : positive) (c : Q) (xs : list Q) : Q :=
  match xs with [] => 0 | x :: r => (x - c) ^ (Zpos k) + csum k c r end.

(* k-th central power sum: sum of (x - mean)^k *)
Definition central (k : positive) (xs : list Q) : Q := csum k (mean xs) xs.

Definition popvar (xs : list Q) : Q := central 2 xs / nQ xs.
Definition samvar (xs : list Q) : Q := central 2 xs / (nQ xs - 1).

Definition is_min (m : Q) (xs : list Q) : Prop := In m xs /\ Forall (fun y => m <= y) xs.
Definition is_max (m : Q) (xs : list Q) : Prop := In m xs /\ Forall (fun y => y <= m) xs.

(* raw power sums, used only inside the proofs *)
Fixpoint rsum (k : positive) (xs : list Q) : Q :=
  match xs with [] => 0 | x :: r => x ^ (Zpos k) + rsum k r end.

(* ====================================================================== *)
(* Elementary facts                                                        *)
(* ====================================================================== *)
Lemma nQ_nil : nQ [] == 0.
Proof. reflexivity. Qed.

Lemma nQ_cons : forall x xs, nQ (x :: xs) == nQ xs + 1.
Proof.
  intros. unfold nQ. cbn [length]. rewrite Nat2Z.inj_succ, <- Z.add_1_r, inject_Z_plus. reflexivity.
Qed.

Lemma nQ_app1 : forall xs x, nQ (xs ++ [x]) == nQ xs + 1.
Proof.
  intros. unfold nQ. rewrite app_length. cbn [length]. rewrite Nat2Z.inj_add, inject_Z_plus. reflexivity.
Qed.

Lemma nQ_nonneg : forall xs, 0 <= nQ xs.
Proof.
  intros. unfold nQ. change 0 with (inject_Z 0). rewrite <- Zle_Qle. lia.
Qed.

Lemma nQ_pos : forall xs, xs <> [] -> 0 < nQ xs.
Proof.
  intros xs H. unfold nQ. change 0 with (inject_Z 0). rewrite <- Zlt_Qlt.
  destruct xs; [congruence | cbn [length]; lia].
Qed.

Lemma nQ_ge : forall xs k, (k <= length xs)%nat -> inject_Z (Z.of_nat k) <= nQ xs.
Proof. intros. unfold nQ. rewrite <- Zle_Qle. lia. Qed.

Lemma nQ_gt : forall xs k, (k < length xs)%nat -> inject_Z (Z.of_nat k) < nQ xs.
Proof. intros. unfold nQ. rewrite <- Zlt_Qlt. lia. Qed.

Lemma sum1_app1 : forall xs x, sum1 (xs ++ [x]) == sum1 xs + x.
Proof. induction xs; intros; cbn [sum1 app]; [ring | rewrite IHxs; ring]. Qed.

Lemma rsum_app1 : forall k xs x, rsum k (xs ++ [x]) == rsum k xs + x ^ (Zpos k).
Proof. induction xs; intros; cbn [rsum app]; [ring | rewrite IHxs; ring]. Qed.

Lemma csum_app1 : forall k c xs x, csum k c (xs ++ [x]) == csum k c xs + (x - c) ^ (Zpos k).
Proof. induction xs; intros; cbn [csum app]; [ring | rewrite IHxs; ring]. Qed.

Lemma csum_proper : forall k c c' xs, c == c' -> csum k c xs == csum k c' xs.
Proof. induction xs; intros; cbn [csum]; [reflexivity | rewrite IHxs, H by assumption; reflexivity]. Qed.

Lemma rsum1_sum1 : forall xs, rsum 1 xs == sum1 xs.
Proof. induction xs; cbn [rsum sum1]; [reflexivity | rewrite IHxs; ring]. Qed.

(* binomial expansion of the shifted power sums *)
Lemma csum2_raw : forall c xs,
  csum 2 c xs == rsum 2 xs - 2 * c * rsum 1 xs + nQ xs * c * c.
Proof.
  induction xs; [cbn [csum rsum]; rewrite nQ_nil; ring | rewrite nQ_cons; cbn [csum rsum]; rewrite IHxs; ring].
Qed.

Lemma csum3_raw : forall c xs,
  csum 3 c xs == rsum 3 xs - 3 * c * rsum 2 xs + 3 * c * c * rsum 1 xs - nQ xs * c * c * c.
Proof.
  induction xs; [cbn [csum rsum]; rewrite nQ_nil; ring | rewrite nQ_cons; cbn [csum rsum]; rewrite IHxs; ring].
Qed.

Lemma csum4_raw : forall c xs,
  csum 4 c xs == rsum 4 xs - 4 * c * rsum 3 xs + 6 * c * c * rsum 2 xs
                 - 4 * c * c * c * rsum 1 xs + nQ xs * c * c * c * c.
Proof.
  induction xs; [cbn [csum rsum]; rewrite nQ_nil; ring | rewrite nQ_cons; cbn [csum rsum]; rewrite IHxs; ring].
Qed.

Lemma Qsq_nonneg : forall q : Q, 0 <= q * q.
Proof. intros [n d]. unfold Qle, Qmult. cbn. rewrite Z.mul_1_r. apply Z.square_nonneg. Qed.

Lemma Qsq_zero : forall q : Q, q * q == 0 -> q == 0.
Proof. intros q H. destruct (Qmult_integral _ _ H); assumption. Qed.

Lemma csum2_nonneg : forall c xs, 0 <= csum 2 c xs.
Proof.
  induction xs; cbn [csum]; [apply Qle_refl |].
  assert ((a - c) ^ 2 == (a - c) * (a - c)) as -> by ring.
  pose proof (Qsq_nonneg (a - c)). lra.
Qed.

Lemma csum4_nonneg : forall c xs, 0 <= csum 4 c xs.
Proof.
  induction xs; cbn [csum]; [apply Qle_refl |].
  assert ((a - c) ^ 4 == ((a - c) * (a - c)) * ((a - c) * (a - c))) as -> by ring.
  pose proof (Qsq_nonneg ((a - c) * (a - c))). lra.
Qed.

(* zero variance <-> all observations equal (to the mean) *)
Lemma csum2_zero_iff : forall c xs, csum 2 c xs == 0 <-> Forall (fun x => x == c) xs.
Proof.
  induction xs; cbn [csum]; [split; [constructor | reflexivity] |].
  pose proof (csum2_nonneg c xs).
  assert (E : (a - c) ^ 2 == (a - c) * (a - c)) by ring.
  pose proof (Qsq_nonneg (a - c)).
  split.
  - intros H1. rewrite E in H1.
    assert (Z0 : (a - c) * (a - c) == 0) by lra.
    apply Qsq_zero in Z0.
    constructor; [lra | apply IHxs; lra].
  - intros H1. inversion H1; subst. apply IHxs in H5. rewrite H5, E, H4. ring.
Qed.

(* ====================================================================== *)
(* The one-step identities (Welford / Pebay), in raw power sums            *)
(* ====================================================================== *)
(* n, p1..p4: count and raw power sums of the old data; x the new value.
   Left: the update the code performs.  Right: the central power sum of the
   new data about the new mean, expanded by csumK_raw. *)
Lemma step_m1 : forall n p1 x m1, ~ n == 0 -> ~ n + 1 == 0 -> m1 == p1 / n ->
  m1 + (x - m1) / (n + 1) == (p1 + x) / (n + 1).
Proof. intros n p1 x m1 Hn Hn1 H1. rewrite H1. field. auto. Qed.

Lemma step_m2 : forall n p1 p2 x m1 M2, ~ n == 0 -> ~ n + 1 == 0 ->
  m1 == p1 / n ->
  M2 == p2 - 2 * (p1 / n) * p1 + n * (p1 / n) * (p1 / n) ->
  let c := (p1 + x) / (n + 1) in
  M2 + (x - m1) * (x - (m1 + (x - m1) / (n + 1)))
  == (p2 + x ^ 2) - 2 * c * (p1 + x) + (n + 1) * c * c.
Proof. intros n p1 p2 x m1 M2 Hn Hn1 H1 H2 c. subst c. rewrite H2, H1. field. auto. Qed.

Lemma step_m3 : forall n p1 p2 p3 x m1 M2 M3, ~ n == 0 -> ~ n + 1 == 0 ->
  m1 == p1 / n ->
  M2 == p2 - 2 * (p1 / n) * p1 + n * (p1 / n) * (p1 / n) ->
  M3 == p3 - 3 * (p1 / n) * p2 + 3 * (p1 / n) * (p1 / n) * p1 - n * (p1 / n) * (p1 / n) * (p1 / n) ->
  let c := (p1 + x) / (n + 1) in
  let d := x - m1 in
  let N := n + 1 in
  M3 + ((-3) * M2 * d / N + (N - 1) * (N - 2) * d * d * d / N / N)
  == (p3 + x ^ 3) - 3 * c * (p2 + x ^ 2) + 3 * c * c * (p1 + x) - (n + 1) * c * c * c.
Proof.
  intros n p1 p2 p3 x m1 M2 M3 Hn Hn1 H1 H2 H3 c d N. subst c d N. rewrite H3, H2, H1. field. auto.
Qed.

Lemma step_m4 : forall n p1 p2 p3 p4 x m1 M2 M3 M4, ~ n == 0 -> ~ n + 1 == 0 ->
  m1 == p1 / n ->
  M2 == p2 - 2 * (p1 / n) * p1 + n * (p1 / n) * (p1 / n) ->
  M3 == p3 - 3 * (p1 / n) * p2 + 3 * (p1 / n) * (p1 / n) * p1 - n * (p1 / n) * (p1 / n) * (p1 / n) ->
  M4 == p4 - 4 * (p1 / n) * p3 + 6 * (p1 / n) * (p1 / n) * p2
        - 4 * (p1 / n) * (p1 / n) * (p1 / n) * p1 + n * (p1 / n) * (p1 / n) * (p1 / n) * (p1 / n) ->
  let c := (p1 + x) / (n + 1) in
  let d := x - m1 in
  let N := n + 1 in
  M4 + ((-4) * M3 * d / N + 6 * M2 * d * d / N / N
        + (N - 1) * (N * N - 3 * N + 3) * d * d * d * d / N / N / N)
  == (p4 + x ^ 4) - 4 * c * (p3 + x ^ 3) + 6 * c * c * (p2 + x ^ 2)
     - 4 * c * c * c * (p1 + x) + (n + 1) * c * c * c * c.
Proof.
  intros n p1 p2 p3 p4 x m1 M2 M3 M4 Hn Hn1 H1 H2 H3 H4 c d N. subst c d N.
  rewrite H4, H3, H2, H1. field. auto.
Qed.

(* ====================================================================== *)
(* The model in exact arithmetic                                           *)
(* ====================================================================== *)
Section TallyQ.
  Variable sq : Q -> Q.
  Hypothesis sq_proper : forall a b, a == b -> sq a == sq b.
  Hypothesis sq_pos : forall a, 0 < a -> 0 < sq a.

  Local Notation NQ := (NumQ sq).

  Definition reg (x : Q) : top NQ := @TReg NQ (@ONum (F NQ) x).
  (* the tally after registering exactly xs, in this order, from a fresh state *)
  Definition tally_of (xs : list Q) : tstate NQ := trun NQ (tinit NQ) (map reg xs).

  (* ---------- arithmetic of the instance ---------- *)
  Lemma ltb_true : forall a b : Q, @ltb NQ a b = true <-> a < b.
  Proof.
    intros. cbn [ltb NumQ]. rewrite negb_true_iff. split; intros H.
    - apply Qnot_le_lt. intros L. apply Qle_bool_iff in L. congruence.
    - destruct (Qle_bool b a) eqn:E; [| reflexivity]. apply Qle_bool_iff in E. lra.
  Qed.

  Lemma ltb_false : forall a b : Q, @ltb NQ a b = false <-> b <= a.
  Proof.
    intros. cbn [ltb NumQ]. rewrite negb_false_iff. apply Qle_bool_iff.
  Qed.

  Lemma pdiv_val : forall a b : Q, ~ b == 0 -> @pdiv NQ a b = Val (a / b).
  Proof.
    intros a b H. unfold pdiv. cbn [eqb NumQ zero div].
    destruct (Qeq_bool b 0) eqn:E; [apply Qeq_bool_iff in E; contradiction | reflexivity].
  Qed.

  Lemma psqrt_val : forall a : Q, 0 <= a -> @psqrt NQ a = Val (sq a).
  Proof.
    intros a H. unfold psqrt. cbn [zero sqrt NumQ].
    destruct (@ltb NQ a 0) eqn:E; [apply ltb_true in E; lra | reflexivity].
  Qed.

  (* ---------- one valid observation ---------- *)
  Definition tnext (s : tstate NQ) (x : Q) : tstate NQ :=
    let N := inject_Z (tn s + 1) in
    let d := x - tm1 s in
    let m1' := tm1 s + d / N in
    mkT (N := NQ) (tn s + 1) (tsum s + x) m1'
        (tm2 s + d * (x - m1'))
        (tm3 s + (inject_Z (-3) * tm2 s * d / N + (N - inject_Z 1) * (N - inject_Z 2) * d * d * d / N / N))
        (tm4 s + (inject_Z (-4) * tm3 s * d / N + inject_Z 6 * tm2 s * d * d / N / N
                  + (N - inject_Z 1) * (N * N - inject_Z 3 * N + inject_Z 3) * d * d * d * d / N / N / N))
        (if x_gt_val (N := NQ) (if (tn s =? 0)%Z then XPInf else tmin s) x then XFin x
         else if (tn s =? 0)%Z then XPInf else tmin s)
        (if x_lt_val (N := NQ) (if (tn s =? 0)%Z then XNInf else tmax s) x then XFin x
         else if (tn s =? 0)%Z then XNInf else tmax s).

  Lemma tregister_valid : forall s x, (0 <= tn s)%Z ->
    tregister NQ s (ONum x) = Ok (tnext s x).
  Proof.
    intros s x H. unfold tregister, tnext.
    cbn [isnan NumQ F zero ofZ add sub mul div eqb].
    destruct (Qeq_bool (inject_Z (tn s + 1)) 0) eqn:E; [| reflexivity].
    apply Qeq_bool_iff in E. unfold Qeq in E. cbn [inject_Z Qnum Qden] in E. lia.
  Qed.

  (* ---------- the accumulator invariant ---------- *)
  Definition min_ok (m : xnum Q) (xs : list Q) : Prop :=
    match m with XNaN => xs = [] | XFin v => is_min v xs | _ => False end.
  Definition max_ok (m : xnum Q) (xs : list Q) : Prop :=
    match m with XNaN => xs = [] | XFin v => is_max v xs | _ => False end.

  Record acc_ok (xs : list Q) (s : tstate NQ) : Prop := mk_acc_ok {
    ok_n : tn s = Z.of_nat (length xs);
    ok_sum : (tsum s : Q) == sum1 xs;
    ok_m1 : (tm1 s : Q) == mean xs;
    ok_m2 : (tm2 s : Q) == central 2 xs;
    ok_m3 : (tm3 s : Q) == central 3 xs;
    ok_m4 : (tm4 s : Q) == central 4 xs;
    ok_min : min_ok (tmin s) xs;
    ok_max : max_ok (tmax s) xs
  }.

  Lemma acc_ok_init : acc_ok [] (tinit NQ).
  Proof. constructor; cbn; reflexivity. Qed.

  Lemma mean_raw : forall xs, mean xs == rsum 1 xs / nQ xs.
  Proof. intros. unfold mean. rewrite rsum1_sum1. reflexivity. Qed.

  Lemma mean_app1 : forall xs x, mean (xs ++ [x]) == (rsum 1 xs + x) / (nQ xs + 1).
  Proof. intros. unfold mean. rewrite sum1_app1, nQ_app1, rsum1_sum1. reflexivity. Qed.

  Lemma mean_single : forall x, mean [x] == x.
  Proof. intros. unfold mean, nQ. cbn [sum1 length]. change (inject_Z (Z.of_nat 1)) with 1. field. Qed.

  Lemma nQ_cons_neq0 : forall y ys, ~ nQ (y :: ys) == 0.
  Proof. intros y ys E. assert (0 < nQ (y :: ys)) by (apply nQ_pos; congruence). lra. Qed.

  Lemma acc_ok_step : forall ys s x, acc_ok ys s -> acc_ok (ys ++ [x]) (tnext s x).
  Proof.
    intros ys s x [Hn Hs H1 H2 H3 H4 Hmn Hmx].
    assert (EN : inject_Z (tn s + 1) == nQ ys + 1).
    { rewrite Hn, inject_Z_plus. reflexivity. }
    assert (NN : 0 <= nQ ys) by apply nQ_nonneg.
    assert (N1 : ~ nQ ys + 1 == 0) by lra.
    constructor; unfold tnext; cbn [tn tsum tm1 tm2 tm3 tm4 tmin tmax].
    - rewrite Hn, app_length. cbn [length]. lia.
    - rewrite Hs, sum1_app1. reflexivity.
    - destruct ys as [| y ys'].
      + cbn [app]. rewrite mean_single, EN, nQ_nil. cbn in H1. rewrite H1. field.
      + pose proof (nQ_cons_neq0 y ys').
        rewrite mean_app1, EN. rewrite mean_raw in H1. rewrite H1. field. auto.
    - destruct ys as [| y ys'].
      + cbn [app]. unfold central. cbn [csum]. rewrite mean_single, EN, nQ_nil.
        cbn in H1, H2. rewrite H1, H2. field.
      + pose proof (nQ_cons_neq0 y ys').
        unfold central in *. rewrite csum2_raw in *. rewrite !rsum_app1, nQ_app1, mean_app1, EN.
        rewrite mean_raw in H1, H2. rewrite H2, H1. field. auto.
    - change (inject_Z (-3)) with (-3 # 1). change (inject_Z 1) with 1. change (inject_Z 2) with 2.
      destruct ys as [| y ys'].
      + cbn [app]. unfold central. cbn [csum]. rewrite mean_single, EN, nQ_nil.
        cbn in H1, H2, H3. rewrite H1, H2, H3. field.
      + pose proof (nQ_cons_neq0 y ys').
        unfold central in *. rewrite csum2_raw in H2. rewrite csum3_raw in *.
        rewrite !rsum_app1, nQ_app1, mean_app1, EN.
        rewrite mean_raw in H1, H2, H3. rewrite H3, H2, H1. field. auto.
    - change (inject_Z (-4)) with (-4 # 1). change (inject_Z 1) with 1. change (inject_Z 3) with 3.
      change (inject_Z 6) with 6.
      destruct ys as [| y ys'].
      + cbn [app]. unfold central. cbn [csum]. rewrite mean_single, EN, nQ_nil.
        cbn in H1, H2, H3, H4. rewrite H1, H2, H3, H4. field.
      + pose proof (nQ_cons_neq0 y ys').
        unfold central in *. rewrite csum2_raw in H2. rewrite csum3_raw in H3. rewrite csum4_raw in *.
        rewrite !rsum_app1, nQ_app1, mean_app1, EN.
        rewrite mean_raw in H1, H2, H3, H4. rewrite H4, H3, H2, H1. field. auto.
    - (* minimum *)
      destruct (tn s =? 0)%Z eqn:E0.
      + apply Z.eqb_eq in E0. assert (ys = []) by (destruct ys; [reflexivity | cbn [length] in Hn; lia]). subst ys.
        cbn. split; [left; reflexivity | constructor; [apply Qle_refl | constructor]].
      + apply Z.eqb_neq in E0. assert (ys <> []) by (intros ->; cbn in Hn; lia).
        unfold min_ok in Hmn. destruct (tmin s) as [| | | m]; try contradiction.
        cbn [x_gt_val]. destruct (@ltb NQ x m) eqn:L.
        * apply ltb_true in L. destruct Hmn as [_ Hall]. split; [apply in_or_app; right; left; reflexivity |].
          apply Forall_app. split; [| constructor; [apply Qle_refl | constructor]].
          eapply Forall_impl; [| exact Hall]. cbn. intros. lra.
        * apply ltb_false in L. destruct Hmn as [Hin Hall]. split; [apply in_or_app; left; exact Hin |].
          apply Forall_app. split; [exact Hall | constructor; [exact L | constructor]].
    - (* maximum *)
      destruct (tn s =? 0)%Z eqn:E0.
      + apply Z.eqb_eq in E0. assert (ys = []) by (destruct ys; [reflexivity | cbn [length] in Hn; lia]). subst ys.
        cbn. split; [left; reflexivity | constructor; [apply Qle_refl | constructor]].
      + apply Z.eqb_neq in E0. assert (ys <> []) by (intros ->; cbn in Hn; lia).
        unfold max_ok in Hmx. destruct (tmax s) as [| | | m]; try contradiction.
        cbn [x_lt_val]. destruct (@ltb NQ m x) eqn:L.
        * apply ltb_true in L. destruct Hmx as [_ Hall]. split; [apply in_or_app; right; left; reflexivity |].
          apply Forall_app. split; [| constructor; [apply Qle_refl | constructor]].
          eapply Forall_impl; [| exact Hall]. cbn. intros. lra.
        * apply ltb_false in L. destruct Hmx as [Hin Hall]. split; [apply in_or_app; left; exact Hin |].
          apply Forall_app. split; [exact Hall | constructor; [exact L | constructor]].
  Qed.

  (* ---------- running a whole sequence ---------- *)
  Lemma trun_app : forall (N : Num) ops1 ops2 (s : tstate N),
    trun N s (ops1 ++ ops2) = trun N (trun N s ops1) ops2.
  Proof. induction ops1; intros; cbn [app trun]; [reflexivity | apply IHops1]. Qed.

  Lemma acc_ok_n_nonneg : forall xs s, acc_ok xs s -> (0 <= tn s)%Z.
  Proof. intros xs s H. rewrite (ok_n _ _ H). lia. Qed.

  Lemma acc_ok_run : forall xs ys s, acc_ok ys s -> acc_ok (ys ++ xs) (trun NQ s (map reg xs)).
  Proof.
    induction xs as [| x xs IH]; intros ys s H.
    - rewrite app_nil_r. exact H.
    - cbn [map trun]. unfold reg at 1. cbn [tstep].
      rewrite (tregister_valid s x (acc_ok_n_nonneg _ _ H)). cbn [state_of].
      replace (ys ++ x :: xs) with ((ys ++ [x]) ++ xs) by (rewrite <- app_assoc; reflexivity).
      apply IH. apply acc_ok_step. exact H.
  Qed.

  (* tally_moments: the accumulators are the textbook sums over exactly xs *)
  Theorem tally_moments : forall xs, acc_ok xs (tally_of xs).
  Proof. intros. apply (acc_ok_run xs [] (tinit NQ) acc_ok_init). Qed.

  (* ---------- arbitrary histories: rejected observations, initialize ---------- *)
  (* the observations that count: valid ones since the last initialize *)
  Fixpoint effective (acc : list Q) (ops : list (top NQ)) : list Q :=
    match ops with
    | [] => acc
    | TInit :: r => effective [] r
    | TReg (ONum x) :: r => effective (acc ++ [x]) r
    | TReg _ :: r => effective acc r
    end.

  Lemma tally_of_snoc : forall xs x,
    tally_of (xs ++ [x]) = state_of (tregister NQ (tally_of xs) (ONum x)).
  Proof.
    intros. unfold tally_of. rewrite map_app, trun_app. reflexivity.
  Qed.

  Lemma run_effective_gen : forall ops acc,
    trun NQ (tally_of acc) ops = tally_of (effective acc ops).
  Proof.
    induction ops as [| op ops IH]; intros acc; [reflexivity |].
    destruct op as [o |]; cbn [trun tstep effective].
    - destruct o as [x | | |]; cbn [tregister state_of]; try apply IH.
      rewrite <- IH, tally_of_snoc. reflexivity.
    - cbn [state_of]. apply (IH []).
  Qed.

  (* every reachable state is the state of a fresh tally fed exactly the
     effective observations *)
  Theorem run_effective : forall ops,
    trun NQ (tinit NQ) ops = tally_of (effective [] ops).
  Proof. intros. apply (run_effective_gen ops []). Qed.

  (* ====================================================================== *)
  (* Getters                                                                 *)
  (* ====================================================================== *)
  Definition res_is (g : res Q) (v : Q) : Prop := exists r, g = Val r /\ r == v.

  Definition skew_b (xs : list Q) : Q :=
    (central 3 xs / nQ xs) / (popvar xs * sq (popvar xs)).
  Definition skew_u (xs : list Q) : Q :=
    skew_b xs * sq (nQ xs * (nQ xs - 1)) / (nQ xs - 2).
  Definition kurt_b (xs : list Q) : Q := central 4 xs / nQ xs / popvar xs / popvar xs.
  Definition kurt_u (xs : list Q) : Q := central 4 xs / (nQ xs - 1) / samvar xs / samvar xs.
  Definition exkurt_b (xs : list Q) : Q := kurt_b xs - 3.
  Definition exkurt_u (xs : list Q) : Q :=
    ((nQ xs - 1) / (nQ xs - 2) / (nQ xs - 3)) * ((nQ xs + 1) * exkurt_b xs + 6).

  Local Instance sq_Proper : Proper (Qeq ==> Qeq) sq.
  Proof. intros a b H. apply sq_proper. exact H. Qed.

  Section Getters.
    Variable xs : list Q.
    Variable s : tstate NQ.
    Hypothesis OK : acc_ok xs s.

    Let Hn := ok_n _ _ OK.

    Lemma nQ_tn : inject_Z (tn s) = nQ xs.
    Proof. rewrite Hn. reflexivity. Qed.

    Lemma nQ_tn1 : inject_Z (tn s - 1) == nQ xs - 1.
    Proof. rewrite Hn. unfold nQ. unfold Zminus. rewrite inject_Z_plus. reflexivity. Qed.

    Lemma popvar_nonneg : 0 <= popvar xs.
    Proof.
      unfold popvar, central. pose proof (csum2_nonneg (mean xs) xs). pose proof (nQ_nonneg xs).
      destruct (Qeq_dec (nQ xs) 0) as [E | E].
      - rewrite E. unfold Qdiv. change (/ 0) with 0. rewrite Qmult_0_r. apply Qle_refl.
      - apply Qle_shift_div_l; lra.
    Qed.

    Lemma mean_spec :
      (xs = [] -> g_mean NQ s = NaNres) /\ (xs <> [] -> res_is (g_mean NQ s) (mean xs)).
    Proof.
      unfold g_mean. split; intros H.
      - subst xs. rewrite Hn. reflexivity.
      - destruct (Z.ltb_spec 0 (tn s)) as [L | L].
        + exists (tm1 s). split; [reflexivity | apply (ok_m1 _ _ OK)].
        + destruct xs; [congruence | cbn [length] in Hn; lia].
    Qed.

    Lemma variance_b_spec :
      (xs = [] -> g_variance NQ true s = NaNres) /\
      (xs <> [] -> res_is (g_variance NQ true s) (popvar xs)).
    Proof.
      unfold g_variance. cbn [ofZ NumQ]. split; intros H.
      - subst xs. rewrite Hn. reflexivity.
      - destruct (Z.ltb_spec 0 (tn s)) as [L | L].
        + rewrite nQ_tn. pose proof (nQ_pos xs H).
          rewrite pdiv_val by lra. eexists; split; [reflexivity |].
          unfold popvar. rewrite (ok_m2 _ _ OK). reflexivity.
        + destruct xs; [congruence | cbn [length] in Hn; lia].
    Qed.

    Lemma variance_u_spec :
      ((length xs < 2)%nat -> g_variance NQ false s = NaNres) /\
      ((2 <= length xs)%nat -> res_is (g_variance NQ false s) (samvar xs)).
    Proof.
      unfold g_variance. cbn [ofZ NumQ]. split; intros H.
      - destruct (Z.ltb_spec 1 (tn s)) as [L | L]; [lia | reflexivity].
      - destruct (Z.ltb_spec 1 (tn s)) as [L | L]; [| lia].
        pose proof (nQ_ge xs 2 H) as G. change (inject_Z (Z.of_nat 2)) with 2 in G.
        pose proof nQ_tn1 as E1.
        rewrite pdiv_val by (rewrite E1; lra). eexists; split; [reflexivity |].
        unfold samvar. rewrite (ok_m2 _ _ OK), E1. reflexivity.
    Qed.

    Lemma samvar_popvar : (2 <= length xs)%nat -> samvar xs == popvar xs * nQ xs / (nQ xs - 1).
    Proof.
      intros H. pose proof (nQ_ge xs 2 H) as G. change (inject_Z (Z.of_nat 2)) with 2 in G.
      unfold samvar, popvar. field. split; lra.
    Qed.

    Lemma samvar_pos_iff : (2 <= length xs)%nat -> (0 < samvar xs <-> 0 < popvar xs).
    Proof.
      intros H. pose proof (nQ_ge xs 2 H) as G. change (inject_Z (Z.of_nat 2)) with 2 in G.
      rewrite (samvar_popvar H).
      assert (P : 0 < nQ xs / (nQ xs - 1)) by (apply Qlt_shift_div_l; lra).
      assert (E : popvar xs * nQ xs / (nQ xs - 1) == popvar xs * (nQ xs / (nQ xs - 1))) by (field; lra).
      rewrite E. split; intros H0.
      - destruct (Qlt_le_dec 0 (popvar xs)) as [|L]; [assumption |].
        assert (popvar xs * (nQ xs / (nQ xs - 1)) <= 0) by nra. lra.
      - apply Qmult_lt_0_compat; assumption.
    Qed.

    Lemma stdev_b_spec :
      (xs = [] -> g_stdev NQ true s = NaNres) /\
      (xs <> [] -> res_is (g_stdev NQ true s) (sq (popvar xs))).
    Proof.
      unfold g_stdev. destruct variance_b_spec as [A B]. split; intros H.
      - rewrite (A H). reflexivity.
      - destruct (B H) as [v [-> Ev]]. pose proof popvar_nonneg.
        rewrite psqrt_val by lra. eexists; split; [reflexivity | rewrite Ev; reflexivity].
    Qed.

    Lemma samvar_nonneg : (2 <= length xs)%nat -> 0 <= samvar xs.
    Proof.
      intros H. pose proof (nQ_ge xs 2 H) as G. change (inject_Z (Z.of_nat 2)) with 2 in G.
      unfold samvar, central. pose proof (csum2_nonneg (mean xs) xs).
      apply Qle_shift_div_l; lra.
    Qed.

    Lemma stdev_u_spec :
      ((length xs < 2)%nat -> g_stdev NQ false s = NaNres) /\
      ((2 <= length xs)%nat -> res_is (g_stdev NQ false s) (sq (samvar xs))).
    Proof.
      unfold g_stdev. destruct variance_u_spec as [A B]. split; intros H.
      - rewrite (A H). reflexivity.
      - destruct (B H) as [v [-> Ev]]. pose proof (samvar_nonneg H).
        rewrite psqrt_val by lra. eexists; split; [reflexivity | rewrite Ev; reflexivity].
    Qed.

    (* ---------- skewness ---------- *)
    Lemma skewness_undefined : forall b : bool,
      (length xs < (if b then 2 else 3))%nat \/ popvar xs == 0 -> g_skewness NQ b s = NaNres.
    Proof.
      intros b H. unfold g_skewness. cbn [ofZ NumQ zero mul sub].
      destruct (Z.ltb_spec 1 (tn s)) as [L | L]; [| reflexivity].
      assert (NE : xs <> []) by (intros ->; cbn in Hn; lia).
      destruct (proj2 variance_b_spec NE) as [v [-> Ev]].
      destruct (@ltb NQ (0:Q) v) eqn:P; [| reflexivity].
      apply ltb_true in P.
      destruct H as [H | H]; [| rewrite Ev in P; lra].
      rewrite psqrt_val by lra.
      destruct (@ltb NQ (0:Q) (v * sq v)); [| reflexivity].
      rewrite nQ_tn. pose proof (nQ_pos xs NE).
      rewrite pdiv_val by lra.
      assert (0 < v * sq v) by (apply Qmult_lt_0_compat; [| apply sq_pos]; assumption).
      rewrite pdiv_val by lra.
      destruct b; [lia |].
      destruct (Z.ltb_spec 2 (tn s)); [lia | reflexivity].
    Qed.

    Lemma skewness_b_defined :
      (2 <= length xs)%nat -> 0 < popvar xs -> res_is (g_skewness NQ true s) (skew_b xs).
    Proof.
      intros H P. unfold g_skewness. cbn [ofZ NumQ zero mul sub].
      destruct (Z.ltb_spec 1 (tn s)) as [L | L]; [| lia].
      assert (NE : xs <> []) by (intros ->; cbn in Hn; lia).
      destruct (proj2 variance_b_spec NE) as [v [-> Ev]].
      assert (Pv : 0 < v) by (rewrite Ev; exact P).
      rewrite (proj2 (ltb_true 0 v) Pv).
      rewrite psqrt_val by lra.
      assert (Pd : 0 < v * sq v) by (apply Qmult_lt_0_compat; [| apply sq_pos]; assumption).
      rewrite (proj2 (ltb_true 0 (v * sq v)) Pd).
      rewrite nQ_tn. pose proof (nQ_pos xs NE).
      rewrite pdiv_val by lra. rewrite pdiv_val by lra.
      eexists; split; [reflexivity |].
      unfold skew_b. rewrite (ok_m3 _ _ OK), Ev. reflexivity.
    Qed.

    Lemma skewness_u_defined :
      (3 <= length xs)%nat -> 0 < popvar xs -> res_is (g_skewness NQ false s) (skew_u xs).
    Proof.
      intros H P. unfold g_skewness. cbn [ofZ NumQ zero mul sub].
      destruct (Z.ltb_spec 1 (tn s)) as [L | L]; [| lia].
      assert (NE : xs <> []) by (intros ->; cbn in Hn; lia).
      destruct (proj2 variance_b_spec NE) as [v [-> Ev]].
      assert (Pv : 0 < v) by (rewrite Ev; exact P).
      rewrite (proj2 (ltb_true 0 v) Pv).
      rewrite psqrt_val by lra.
      assert (Pd : 0 < v * sq v) by (apply Qmult_lt_0_compat; [| apply sq_pos]; assumption).
      rewrite (proj2 (ltb_true 0 (v * sq v)) Pd).
      rewrite nQ_tn. pose proof (nQ_pos xs NE).
      rewrite pdiv_val by lra. rewrite pdiv_val by lra.
      destruct (Z.ltb_spec 2 (tn s)); [| lia].
      pose proof (nQ_ge xs 3 H) as G. change (inject_Z (Z.of_nat 3)) with 3 in G.
      change (inject_Z 1) with 1. change (inject_Z 2) with 2.
      assert (0 <= nQ xs * (nQ xs - 1)) by (apply Qmult_le_0_compat; lra).
      rewrite psqrt_val by assumption.
      rewrite pdiv_val by lra.
      eexists; split; [reflexivity |].
      unfold skew_u, skew_b. rewrite (ok_m3 _ _ OK), Ev. reflexivity.
    Qed.

    (* ---------- kurtosis ---------- *)
    Lemma kurtosis_undefined : forall b : bool,
      (length xs < (if b then 3 else 4))%nat \/ popvar xs == 0 -> g_kurtosis NQ b s = NaNres.
    Proof.
      intros b H. unfold g_kurtosis. cbn [ofZ NumQ zero].
      destruct b.
      - destruct (Z.ltb_spec 2 (tn s)) as [L | L]; [| reflexivity].
        assert (NE : xs <> []) by (intros ->; cbn in Hn; lia).
        rewrite nQ_tn. pose proof (nQ_pos xs NE).
        rewrite pdiv_val by lra.
        destruct (@ltb NQ (0:Q) (tm2 s / nQ xs)) eqn:P; [| reflexivity].
        apply ltb_true in P. destruct H as [H | H]; [lia |].
        unfold popvar in H. rewrite (ok_m2 _ _ OK) in P. lra.
      - destruct (Z.ltb_spec 3 (tn s)) as [L | L]; [| reflexivity].
        assert (H2 : (2 <= length xs)%nat) by lia.
        destruct (proj2 variance_u_spec H2) as [v [-> Ev]].
        destruct (@ltb NQ (0:Q) v) eqn:P; [| reflexivity].
        apply ltb_true in P. destruct H as [H | H]; [lia |].
        rewrite Ev in P. apply (samvar_pos_iff H2) in P. lra.
    Qed.

    Lemma kurtosis_b_defined :
      (3 <= length xs)%nat -> 0 < popvar xs -> res_is (g_kurtosis NQ true s) (kurt_b xs).
    Proof.
      intros H P. unfold g_kurtosis. cbn [ofZ NumQ zero].
      destruct (Z.ltb_spec 2 (tn s)) as [L | L]; [| lia].
      assert (NE : xs <> []) by (intros ->; cbn in Hn; lia).
      rewrite nQ_tn. pose proof (nQ_pos xs NE).
      rewrite pdiv_val by lra.
      assert (Ev : tm2 s / nQ xs == popvar xs) by (unfold popvar; rewrite (ok_m2 _ _ OK); reflexivity).
      assert (Pv : 0 < tm2 s / nQ xs) by (rewrite Ev; exact P).
      rewrite (proj2 (ltb_true 0 _) Pv).
      rewrite !pdiv_val by lra.
      eexists; split; [reflexivity |].
      unfold kurt_b. rewrite Ev, (ok_m4 _ _ OK). reflexivity.
    Qed.

    Lemma kurtosis_u_defined :
      (4 <= length xs)%nat -> 0 < popvar xs -> res_is (g_kurtosis NQ false s) (kurt_u xs).
    Proof.
      intros H P. unfold g_kurtosis. cbn [ofZ NumQ zero].
      destruct (Z.ltb_spec 3 (tn s)) as [L | L]; [| lia].
      assert (H2 : (2 <= length xs)%nat) by lia.
      destruct (proj2 variance_u_spec H2) as [v [-> Ev]].
      assert (Pv : 0 < v) by (rewrite Ev; apply (samvar_pos_iff H2); exact P).
      rewrite (proj2 (ltb_true 0 v) Pv).
      pose proof (nQ_ge xs 4 H) as G. change (inject_Z (Z.of_nat 4)) with 4 in G.
      pose proof nQ_tn1 as E1.
      rewrite pdiv_val by (rewrite E1; lra).
      rewrite !pdiv_val by lra.
      eexists; split; [reflexivity |].
      unfold kurt_u. rewrite Ev, E1, (ok_m4 _ _ OK). reflexivity.
    Qed.

    (* ---------- excess kurtosis ---------- *)
    Lemma excess_kurtosis_undefined : forall b : bool,
      (length xs < (if b then 3 else 4))%nat \/ popvar xs == 0 -> g_excess_kurtosis NQ b s = NaNres.
    Proof.
      intros b H. unfold g_excess_kurtosis, g_excess_kurtosis_biased. cbn [ofZ NumQ zero add sub mul].
      destruct b.
      - destruct (Z.ltb_spec 2 (tn s)) as [L | L]; [| reflexivity].
        rewrite (kurtosis_undefined true); [reflexivity |].
        destruct H as [H | H]; [lia | right; exact H].
      - destruct (Z.ltb_spec 3 (tn s)) as [L | L]; [| reflexivity].
        destruct H as [H | H]; [lia |].
        destruct (Z.ltb_spec 2 (tn s)) as [L2 | L2]; [| lia].
        rewrite (kurtosis_undefined true) by (right; exact H).
        assert (H4 : (4 <= length xs)%nat) by lia.
        pose proof (nQ_ge xs 4 H4) as G. change (inject_Z (Z.of_nat 4)) with 4 in G.
        rewrite nQ_tn. change (inject_Z 1) with 1. change (inject_Z 2) with 2. change (inject_Z 3) with 3.
        rewrite !pdiv_val by lra. reflexivity.
    Qed.

    Lemma excess_kurtosis_b_defined :
      (3 <= length xs)%nat -> 0 < popvar xs -> res_is (g_excess_kurtosis NQ true s) (exkurt_b xs).
    Proof.
      intros H P. unfold g_excess_kurtosis, g_excess_kurtosis_biased. cbn [ofZ NumQ zero add sub mul].
      destruct (Z.ltb_spec 2 (tn s)) as [L | L]; [| lia].
      destruct (kurtosis_b_defined H P) as [k [-> Ek]].
      eexists; split; [reflexivity |]. unfold exkurt_b. rewrite Ek. reflexivity.
    Qed.

    Lemma excess_kurtosis_u_defined :
      (4 <= length xs)%nat -> 0 < popvar xs -> res_is (g_excess_kurtosis NQ false s) (exkurt_u xs).
    Proof.
      intros H P. unfold g_excess_kurtosis, g_excess_kurtosis_biased. cbn [ofZ NumQ zero add sub mul].
      destruct (Z.ltb_spec 3 (tn s)) as [L | L]; [| lia].
      destruct (Z.ltb_spec 2 (tn s)) as [L2 | L2]; [| lia].
      assert (H3 : (3 <= length xs)%nat) by lia.
      destruct (kurtosis_b_defined H3 P) as [k [-> Ek]].
      pose proof (nQ_ge xs 4 H) as G. change (inject_Z (Z.of_nat 4)) with 4 in G.
      rewrite nQ_tn. change (inject_Z 1) with 1. change (inject_Z 2) with 2. change (inject_Z 3) with 3.
      change (inject_Z 6) with 6.
      rewrite !pdiv_val by lra.
      eexists; split; [reflexivity |]. unfold exkurt_u, exkurt_b. rewrite Ek. reflexivity.
    Qed.

    (* ---------- confidence interval ---------- *)
    Variable icdf : Q -> res Q.       (* statistics.NormalDist(0,1).inv_cdf, external *)
    Hypothesis icdf_total : forall p, 0 < p -> p < 1 -> exists z, icdf p = Val z.

    Definition ci_half (z : Q) : Q := z * sq (samvar xs / nQ xs).

    Lemma ci_not_float : g_confidence_interval NQ icdf s (@ANotFloat NQ) = Raise TypeError.
    Proof. reflexivity. Qed.

    Lemma ci_alpha_out_of_range : forall a : Q, ~ (0 <= a /\ a <= 1) ->
      g_confidence_interval NQ icdf s (@ANum NQ a) = Raise ValueError.
    Proof.
      intros a H. unfold g_confidence_interval, ci_head. cbn [leb NumQ zero ofZ].
      destruct (Qle_bool 0 a) eqn:A; destruct (Qle_bool a (inject_Z 1)) eqn:B; cbn [andb negb]; try reflexivity.
      apply Qle_bool_iff in A. apply Qle_bool_iff in B. change (inject_Z 1) with 1 in B. tauto.
    Qed.

    Lemma alpha_ok : forall a : Q, 0 <= a -> a <= 1 ->
      negb (@leb NQ (0:Q) a && @leb NQ a (inject_Z 1)) = false.
    Proof.
      intros a A B. cbn [leb NumQ]. change (inject_Z 1) with 1.
      rewrite (proj2 (Qle_bool_iff 0 a) A), (proj2 (Qle_bool_iff a 1) B). reflexivity.
    Qed.

    Lemma ci_undefined : forall a : Q, 0 <= a -> a <= 1 -> (length xs < 2)%nat ->
      g_confidence_interval NQ icdf s (@ANum NQ a) = NaNres.
    Proof.
      intros a A B H. unfold g_confidence_interval, ci_head. cbn [zero ofZ NumQ isnan].
      rewrite (alpha_ok a A B).
      destruct (Nat.eq_dec (length xs) 0) as [E0 | E0].
      - apply length_zero_iff_nil in E0. rewrite (proj1 mean_spec E0). reflexivity.
      - assert (NE : xs <> []) by (intros E; apply E0; rewrite E; reflexivity).
        destruct (proj2 mean_spec NE) as [m [-> _]].
        rewrite (proj1 stdev_u_spec H). reflexivity.
    Qed.

    Lemma ci_defined : forall a : Q, 0 <= a -> a <= 1 -> (2 <= length xs)%nat ->
      exists mn mx, tmin s = XFin mn /\ tmax s = XFin mx /\ is_min mn xs /\ is_max mx xs /\
        (a == 0 -> g_confidence_interval NQ icdf s (@ANum NQ a) = Val (XFin mn, XFin mx)) /\
        (0 < a -> exists z lo hi,
           icdf (1 - a / 2) = Val z /\
           g_confidence_interval NQ icdf s (@ANum NQ a) = Val (XFin lo, XFin hi) /\
           lo == Qmax mn (mean xs - ci_half z) /\ hi == Qmin mx (mean xs + ci_half z)).
    Proof.
      intros a A B H.
      assert (NE : xs <> []) by (intros E; rewrite E in H; cbn in H; lia).
      pose proof (ok_min _ _ OK) as Hmn. pose proof (ok_max _ _ OK) as Hmx.
      unfold min_ok in Hmn. unfold max_ok in Hmx.
      destruct (tmin s) as [| | | mn] eqn:Emn; try contradiction.
      destruct (tmax s) as [| | | mx] eqn:Emx; try contradiction.
      assert (Hh : a / 2 == a * (1 # 2)) by field.
      exists mn, mx. repeat split; try reflexivity; try apply Hmn; try apply Hmx.
      - intros Z. unfold g_confidence_interval, ci_head. cbn [zero ofZ NumQ isnan sub].
        rewrite (alpha_ok a A B).
        destruct (proj2 mean_spec NE) as [m [-> Em]].
        destruct (proj2 stdev_u_spec H) as [sd [-> _]].
        change (inject_Z 2) with 2. change (inject_Z 1) with 1.
        rewrite pdiv_val by lra. cbn [leb NumQ].
        assert (L : Qle_bool 1 (1 - a / 2) = true) by (apply Qle_bool_iff; rewrite Hh, Z; lra).
        rewrite L, Emn, Emx. reflexivity.
      - intros P.
        assert (P0 : 0 < 1 - a / 2) by (rewrite Hh; lra).
        assert (P1 : 1 - a / 2 < 1) by (rewrite Hh; lra).
        destruct (icdf_total _ P0 P1) as [z Ez].
        pose proof (nQ_ge xs 2 H) as G. change (inject_Z (Z.of_nat 2)) with 2 in G.
        pose proof (samvar_nonneg H) as SV.
        assert (QV : 0 <= samvar xs / nQ xs) by (apply Qle_shift_div_l; lra).
        set (lo := mean xs - ci_half z). set (hi := mean xs + ci_half z).
        unfold g_confidence_interval, ci_head. cbn [zero ofZ NumQ isnan sub].
        rewrite (alpha_ok a A B).
        destruct (proj2 mean_spec NE) as [m [-> Em]].
        destruct (proj2 stdev_u_spec H) as [sd [-> _]].
        change (inject_Z 2) with 2. change (inject_Z 1) with 1.
        rewrite pdiv_val by lra. cbn [leb NumQ].
        assert (L : Qle_bool 1 (1 - a / 2) = false).
        { destruct (Qle_bool 1 (1 - a / 2)) eqn:E; [apply Qle_bool_iff in E; rewrite Hh in E; lra | reflexivity]. }
        rewrite L. unfold ci_tail. cbn [ofZ NumQ mul sub add]. rewrite Ez.
        destruct (proj2 variance_u_spec H) as [v [-> Ev]].
        rewrite nQ_tn. rewrite pdiv_val by lra.
        assert (QV' : 0 <= v / nQ xs) by (rewrite Ev; exact QV).
        rewrite psqrt_val by exact QV'.
        rewrite Emn, Emx. unfold pymax_x, pymin_x. cbn [x_lt_val x_gt_val].
        assert (Eh : z * sq (v / nQ xs) == ci_half z) by (unfold ci_half; rewrite Ev; reflexivity).
        destruct (@ltb NQ mn (m - z * sq (v / nQ xs))) eqn:L1;
        destruct (@ltb NQ (m + z * sq (v / nQ xs)) mx) eqn:L2;
          try apply ltb_true in L1; try apply ltb_false in L1;
          try apply ltb_true in L2; try apply ltb_false in L2;
          rewrite Eh, Em in L1, L2; do 3 eexists; (split; [reflexivity |]); (split; [reflexivity |]); split.
        all: try (rewrite Eh, Em; symmetry; apply Q.max_r; unfold lo in *; lra).
        all: try (symmetry; apply Q.max_l; lra).
        all: try (rewrite Eh, Em; symmetry; apply Q.min_r; lra).
        all: try (symmetry; apply Q.min_l; lra).
    Qed.
  End Getters.

  (* ====================================================================== *)
  (* Statements over arbitrary histories                                     *)
  (* ====================================================================== *)
  Definition no_raise {A} (g : res A) : Prop := forall k, g <> Raise k.

  Lemma res_is_no_raise : forall g v, res_is g v -> no_raise g.
  Proof. intros g v [r [-> _]] k. discriminate. Qed.

  Lemma nan_no_raise : forall A (g : res A), g = NaNres -> no_raise g.
  Proof. intros A g -> k. discriminate. Qed.

  Lemma res_is_not_nan : forall g v, res_is g v -> g <> NaNres.
  Proof. intros g v [r [-> _]]. discriminate. Qed.

  Theorem history_ok : forall ops, acc_ok (effective [] ops) (trun NQ (tinit NQ) ops).
  Proof. intros. rewrite run_effective. apply tally_moments. Qed.

  Lemma popvar_zero_or_pos : forall xs s, acc_ok xs s -> {popvar xs == 0} + {0 < popvar xs}.
  Proof.
    intros xs s OK. destruct (Qlt_le_dec 0 (popvar xs)) as [P | P]; [right; exact P | left].
    pose proof (popvar_nonneg xs). lra.
  Qed.

  Lemma popvar_zero_iff_all_equal : forall xs, xs <> [] ->
    (popvar xs == 0 <-> Forall (fun x => x == mean xs) xs).
  Proof.
    intros xs NE. rewrite <- csum2_zero_iff. unfold popvar, central.
    pose proof (nQ_pos xs NE). split; intros H0.
    - assert (E : csum 2 (mean xs) xs == (csum 2 (mean xs) xs / nQ xs) * nQ xs) by (field; lra).
      rewrite E, H0. ring.
    - rewrite H0. field. lra.
  Qed.

  Lemma nil_dec : forall l : list Q, {l = []} + {l <> []}.
  Proof. destruct l; [left; reflexivity | right; discriminate]. Qed.

  Section History.
    Variable icdf : Q -> res Q.
    Hypothesis icdf_total : forall p, 0 < p -> p < 1 -> exists z, icdf p = Val z.
    Variable ops : list (top NQ).
    Let xs := effective [] ops.
    Let s := trun NQ (tinit NQ) ops.
    Let OK : acc_ok xs s := history_ok ops.

    (* every getter equals its documented formula on the effective observations *)
    Theorem getters_equal_definitions :
      ((1 <= length xs)%nat ->
         res_is (g_mean NQ s) (mean xs) /\
         res_is (g_variance NQ true s) (popvar xs) /\
         res_is (g_stdev NQ true s) (sq (popvar xs))) /\
      ((2 <= length xs)%nat ->
         res_is (g_variance NQ false s) (samvar xs) /\
         res_is (g_stdev NQ false s) (sq (samvar xs))) /\
      ((2 <= length xs)%nat -> 0 < popvar xs ->
         res_is (g_skewness NQ true s) (skew_b xs)) /\
      ((3 <= length xs)%nat -> 0 < popvar xs ->
         res_is (g_skewness NQ false s) (skew_u xs) /\
         res_is (g_kurtosis NQ true s) (kurt_b xs) /\
         res_is (g_excess_kurtosis NQ true s) (exkurt_b xs)) /\
      ((4 <= length xs)%nat -> 0 < popvar xs ->
         res_is (g_kurtosis NQ false s) (kurt_u xs) /\
         res_is (g_excess_kurtosis NQ false s) (exkurt_u xs)).
    Proof.
      repeat split; intros.
      - apply (mean_spec xs s OK). intros E. rewrite E in H. cbn in H. lia.
      - apply (variance_b_spec xs s OK). intros E. rewrite E in H. cbn in H. lia.
      - apply (stdev_b_spec xs s OK). intros E. rewrite E in H. cbn in H. lia.
      - apply (variance_u_spec xs s OK). assumption.
      - apply (stdev_u_spec xs s OK). assumption.
      - apply (skewness_b_defined xs s OK); assumption.
      - apply (skewness_u_defined xs s OK); assumption.
      - apply (kurtosis_b_defined xs s OK); assumption.
      - apply (excess_kurtosis_b_defined xs s OK); assumption.
      - apply (kurtosis_u_defined xs s OK); assumption.
      - apply (excess_kurtosis_u_defined xs s OK); assumption.
    Qed.

    Theorem confidence_interval_definition : forall a : Q, 0 <= a -> a <= 1 -> (2 <= length xs)%nat ->
      exists mn mx, tmin s = XFin mn /\ tmax s = XFin mx /\ is_min mn xs /\ is_max mx xs /\
        (a == 0 -> g_confidence_interval NQ icdf s (@ANum NQ a) = Val (XFin mn, XFin mx)) /\
        (0 < a -> exists z lo hi,
           icdf (1 - a / 2) = Val z /\
           g_confidence_interval NQ icdf s (@ANum NQ a) = Val (XFin lo, XFin hi) /\
           lo == Qmax mn (mean xs - ci_half xs z) /\ hi == Qmin mx (mean xs + ci_half xs z)).
    Proof. intros. apply (ci_defined xs s OK icdf icdf_total); assumption. Qed.

    Lemma nan_iff : forall (g : res Q) v (P : Prop),
      (P -> g = NaNres) -> (~ P -> res_is g v) -> {P} + {~ P} -> (g = NaNres <-> P).
    Proof.
      intros g v P A B [D | D]; split; intros H; auto.
      exfalso. apply (res_is_not_nan g v (B D)). exact H.
    Qed.

    Let too_few_or_flat (k : nat) : Prop := (length xs < k)%nat \/ popvar xs == 0.

    Lemma tff_dec : forall k, {too_few_or_flat k} + {~ too_few_or_flat k}.
    Proof.
      intros k. unfold too_few_or_flat.
      destruct (lt_dec (length xs) k) as [L | L]; [left; left; exact L |].
      destruct (popvar_zero_or_pos xs s OK) as [Z | P]; [left; right; exact Z |].
      right. intros [H | H]; [contradiction | lra].
    Qed.

    Lemma tff_not : forall k, ~ too_few_or_flat k -> (k <= length xs)%nat /\ 0 < popvar xs.
    Proof.
      intros k H. unfold too_few_or_flat in H. split; [lia |].
      destruct (popvar_zero_or_pos xs s OK) as [Z | P]; [tauto | exact P].
    Qed.

    (* NaN exactly when the statistic is undefined *)
    Theorem nan_structure :
      (g_mean NQ s = NaNres <-> xs = []) /\
      (g_variance NQ true s = NaNres <-> xs = []) /\
      (g_stdev NQ true s = NaNres <-> xs = []) /\
      (g_variance NQ false s = NaNres <-> (length xs < 2)%nat) /\
      (g_stdev NQ false s = NaNres <-> (length xs < 2)%nat) /\
      (g_skewness NQ true s = NaNres <-> (length xs < 2)%nat \/ popvar xs == 0) /\
      (g_skewness NQ false s = NaNres <-> (length xs < 3)%nat \/ popvar xs == 0) /\
      (g_kurtosis NQ true s = NaNres <-> (length xs < 3)%nat \/ popvar xs == 0) /\
      (g_excess_kurtosis NQ true s = NaNres <-> (length xs < 3)%nat \/ popvar xs == 0) /\
      (g_kurtosis NQ false s = NaNres <-> (length xs < 4)%nat \/ popvar xs == 0) /\
      (g_excess_kurtosis NQ false s = NaNres <-> (length xs < 4)%nat \/ popvar xs == 0) /\
      (forall a : Q, 0 <= a -> a <= 1 ->
         (g_confidence_interval NQ icdf s (@ANum NQ a) = NaNres <-> (length xs < 2)%nat)).
    Proof.
      assert (Dnil : {xs = []} + {xs <> []}) by apply nil_dec.
      assert (D2 : {(length xs < 2)%nat} + {~ (length xs < 2)%nat}) by apply lt_dec.
      repeat split.
      1-2: eapply nan_iff; [apply (mean_spec xs s OK) | apply (mean_spec xs s OK) | exact Dnil]; assumption.
      1-2: eapply nan_iff; [apply (variance_b_spec xs s OK) | apply (variance_b_spec xs s OK) | exact Dnil]; assumption.
      1-2: eapply nan_iff; [apply (stdev_b_spec xs s OK) | apply (stdev_b_spec xs s OK) | exact Dnil]; assumption.
      1-2: eapply nan_iff; [apply (variance_u_spec xs s OK) | intros; apply (variance_u_spec xs s OK); lia | exact D2]; assumption.
      1-2: eapply nan_iff; [apply (stdev_u_spec xs s OK) | intros; apply (stdev_u_spec xs s OK); lia | exact D2]; assumption.
      1-2: eapply nan_iff; [apply (skewness_undefined xs s OK true)
                           | intros N; apply tff_not in N; apply (skewness_b_defined xs s OK); tauto | apply (tff_dec 2)]; assumption.
      1-2: eapply nan_iff; [apply (skewness_undefined xs s OK false)
                           | intros N; apply tff_not in N; apply (skewness_u_defined xs s OK); tauto | apply (tff_dec 3)]; assumption.
      1-2: eapply nan_iff; [apply (kurtosis_undefined xs s OK true)
                           | intros N; apply tff_not in N; apply (kurtosis_b_defined xs s OK); tauto | apply (tff_dec 3)]; assumption.
      1-2: eapply nan_iff; [apply (excess_kurtosis_undefined xs s OK true)
                           | intros N; apply tff_not in N; apply (excess_kurtosis_b_defined xs s OK); tauto | apply (tff_dec 3)]; assumption.
      1-2: eapply nan_iff; [apply (kurtosis_undefined xs s OK false)
                           | intros N; apply tff_not in N; apply (kurtosis_u_defined xs s OK); tauto | apply (tff_dec 4)]; assumption.
      1-2: eapply nan_iff; [apply (excess_kurtosis_undefined xs s OK false)
                           | intros N; apply tff_not in N; apply (excess_kurtosis_u_defined xs s OK); tauto | apply (tff_dec 4)]; assumption.
      - intros E. destruct D2 as [L | L]; [exact L | exfalso].
        assert (H2 : (2 <= length xs)%nat) by lia.
        destruct (ci_defined xs s OK icdf icdf_total a H H0 H2) as [mn [mx [_ [_ [_ [_ [Z P]]]]]]].
        destruct (Qlt_le_dec 0 a) as [Pa | Za].
        + destruct (P Pa) as [z [lo [hi [_ [E2 _]]]]]. rewrite E2 in E. discriminate.
        + assert (a == 0) by lra. rewrite (Z H1) in E. discriminate.
      - intros L. apply (ci_undefined xs s OK icdf a H H0 L).
    Qed.

    (* every query is total: a value or NaN, never an exception *)
    Theorem getters_total :
      no_raise (g_mean NQ s) /\
      (forall b, no_raise (g_variance NQ b s)) /\
      (forall b, no_raise (g_stdev NQ b s)) /\
      (forall b, no_raise (g_skewness NQ b s)) /\
      (forall b, no_raise (g_kurtosis NQ b s)) /\
      (forall b, no_raise (g_excess_kurtosis NQ b s)) /\
      (forall a : Q, 0 <= a -> a <= 1 -> no_raise (g_confidence_interval NQ icdf s (@ANum NQ a))).
    Proof.
      assert (Dnil : {xs = []} + {xs <> []}) by apply nil_dec.
      assert (D2 : {(length xs < 2)%nat} + {~ (length xs < 2)%nat}) by apply lt_dec.
      repeat split.
      - destruct Dnil as [E | E]; [apply nan_no_raise | eapply res_is_no_raise]; apply (mean_spec xs s OK); exact E.
      - intros [|].
        + destruct Dnil as [E | E]; [apply nan_no_raise | eapply res_is_no_raise]; apply (variance_b_spec xs s OK); exact E.
        + destruct D2 as [E | E]; [apply nan_no_raise | eapply res_is_no_raise]; apply (variance_u_spec xs s OK); lia.
      - intros [|].
        + destruct Dnil as [E | E]; [apply nan_no_raise | eapply res_is_no_raise]; apply (stdev_b_spec xs s OK); exact E.
        + destruct D2 as [E | E]; [apply nan_no_raise | eapply res_is_no_raise]; apply (stdev_u_spec xs s OK); lia.
      - intros [|].
        + destruct (tff_dec 2) as [E | E]; [apply nan_no_raise; apply (skewness_undefined xs s OK true E) |].
          apply tff_not in E. eapply res_is_no_raise. apply (skewness_b_defined xs s OK); tauto.
        + destruct (tff_dec 3) as [E | E]; [apply nan_no_raise; apply (skewness_undefined xs s OK false E) |].
          apply tff_not in E. eapply res_is_no_raise. apply (skewness_u_defined xs s OK); tauto.
      - intros [|].
        + destruct (tff_dec 3) as [E | E]; [apply nan_no_raise; apply (kurtosis_undefined xs s OK true E) |].
          apply tff_not in E. eapply res_is_no_raise. apply (kurtosis_b_defined xs s OK); tauto.
        + destruct (tff_dec 4) as [E | E]; [apply nan_no_raise; apply (kurtosis_undefined xs s OK false E) |].
          apply tff_not in E. eapply res_is_no_raise. apply (kurtosis_u_defined xs s OK); tauto.
      - intros [|].
        + destruct (tff_dec 3) as [E | E]; [apply nan_no_raise; apply (excess_kurtosis_undefined xs s OK true E) |].
          apply tff_not in E. eapply res_is_no_raise. apply (excess_kurtosis_b_defined xs s OK); tauto.
        + destruct (tff_dec 4) as [E | E]; [apply nan_no_raise; apply (excess_kurtosis_undefined xs s OK false E) |].
          apply tff_not in E. eapply res_is_no_raise. apply (excess_kurtosis_u_defined xs s OK); tauto.
      - intros a A B. destruct D2 as [L | L]; [apply nan_no_raise; apply (ci_undefined xs s OK icdf a A B L) |].
        assert (H2 : (2 <= length xs)%nat) by lia.
        destruct (ci_defined xs s OK icdf icdf_total a A B H2) as [mn [mx [_ [_ [_ [_ [Z P]]]]]]].
        destruct (Qlt_le_dec 0 a) as [Pa | Za].
        + destruct (P Pa) as [z [lo [hi [_ [E2 _]]]]]. rewrite E2. intros k. discriminate.
        + assert (a == 0) by lra. rewrite (Z H). intros k. discriminate.
    Qed.

    (* invalid alpha is refused as documented *)
    Theorem confidence_interval_invalid_alpha :
      g_confidence_interval NQ icdf s (@ANotFloat NQ) = Raise TypeError /\
      (forall a : Q, ~ (0 <= a /\ a <= 1) -> g_confidence_interval NQ icdf s (@ANum NQ a) = Raise ValueError).
    Proof. split; [reflexivity | apply (ci_alpha_out_of_range s icdf)]. Qed.
  End History.
End TallyQ.

(* ====================================================================== *)
(* Rejected observations and initialize -- for EVERY arithmetic, so also    *)
(* for the binary64 instance that the correspondence check executes         *)
(* ====================================================================== *)
Definition rejected (N : Num) (o : pyarg (F N)) : bool :=
  match o with ONum v => isnan v | _ => true end.

Theorem rejected_unchanged : forall (N : Num) (s : tstate N) (o : pyarg (F N)),
  rejected N o = true ->
  (exists k, tregister N s o = Exn k s) /\ state_of (tstep N s (TReg o)) = s.
Proof.
  intros N s o H. destruct o as [v | | |]; cbn [rejected] in H; cbn [tstep tregister].
  - rewrite H. split; [eexists; reflexivity | reflexivity].
  - split; [eexists; reflexivity | reflexivity].
  - split; [eexists; reflexivity | reflexivity].
  - split; [eexists; reflexivity | reflexivity].
Qed.

(* a history with rejected observations ends in the same state as the
   history without them *)
Theorem rejected_have_no_influence : forall (N : Num) ops (s : tstate N),
  trun N s ops =
  trun N s (filter (fun op => match op with TReg o => negb (rejected N o) | TInit => true end) ops).
Proof.
  induction ops as [| op ops IH]; intros s; [reflexivity |].
  destruct op as [o |]; cbn [filter].
  - destruct (rejected N o) eqn:R; cbn [negb].
    + cbn [trun]. rewrite (proj2 (rejected_unchanged N s o R)). apply IH.
    + cbn [trun]. apply IH.
  - cbn [trun]. apply IH.
Qed.

(* observations before an initialize have no influence on anything after it *)
Theorem initialize_resets : forall (N : Num) pre post (s : tstate N),
  trun N s (pre ++ TInit :: post) = trun N (tinit N) post.
Proof.
  intros N pre post s. rewrite trun_app. reflexivity.
Qed.

Theorem initialize_state : forall (N : Num) (s : tstate N), tstep N s TInit = Ok (tinit N).
Proof. reflexivity. Qed.

(* ====================================================================== *)
(* Counter                                                                 *)
(* ====================================================================== *)
Fixpoint ceffective (acc : list Z) (ops : list cop) : list Z :=
  match ops with
  | [] => acc
  | CInit :: r => ceffective [] r
  | CReg (CInt z) :: r => ceffective (acc ++ [z]) r
  | CReg CNotInt :: r => ceffective acc r
  end.

Definition zsum (zs : list Z) : Z := fold_right Z.add 0%Z zs.

Lemma zsum_app1 : forall zs z, zsum (zs ++ [z]) = (zsum zs + z)%Z.
Proof. unfold zsum. induction zs; intros; cbn [app fold_right]; [lia | rewrite IHzs; lia]. Qed.

Lemma counter_exact_gen : forall ops acc s,
  ccount s = zsum acc -> cn s = Z.of_nat (length acc) ->
  ccount (crun s ops) = zsum (ceffective acc ops) /\
  cn (crun s ops) = Z.of_nat (length (ceffective acc ops)).
Proof.
  induction ops as [| op ops IH]; intros acc s Hc Hn; [split; assumption |].
  destruct op as [[z |] |]; cbn [crun cstep cregister state_of ceffective].
  - apply IH; cbn [ccount cn].
    + rewrite zsum_app1. lia.
    + rewrite app_length. cbn [length]. lia.
  - apply IH; assumption.
  - apply (IH []); reflexivity.
Qed.

(* the counter reports exactly the sum and the number of its integer
   increments since the last initialize; a non-int is refused, state unchanged *)
Theorem counter_exact : forall ops,
  ccount (crun cinit ops) = zsum (ceffective [] ops) /\
  cn (crun cinit ops) = Z.of_nat (length (ceffective [] ops)).
Proof. intros. apply counter_exact_gen; reflexivity. Qed.

Theorem counter_rejects_non_int : forall s, cregister s CNotInt = Exn TypeError s.
Proof. reflexivity. Qed.

(* ====================================================================== *)
(* The getters of the pinned tree are NOT total                            *)
(* ====================================================================== *)
Definition sq_id (q : Q) : Q := q.

Theorem pinned_kurtosis_raises :
  exists xs, g_kurtosis_pinned (NumQ sq_id) true (tally_of sq_id xs) = Raise ZeroDivisionError
             /\ g_kurtosis_pinned (NumQ sq_id) false (tally_of sq_id (1 :: xs)) = Raise ZeroDivisionError.
Proof. exists [1; 1; 1]. split; vm_compute; reflexivity. Qed.

Theorem pinned_skewness_raises :
  forall pow15 : Q -> res Q, (forall v, v == 0 -> pow15 v = Val 0) ->
  exists xs, g_skewness_pinned (NumQ sq_id) pow15 true (tally_of sq_id xs) = Raise ZeroDivisionError.
Proof.
  intros pow15 H. exists [1; 1]. unfold g_skewness_pinned.
  set (s := tally_of sq_id [1; 1]).
  assert (E : g_variance (NumQ sq_id) true s = Val (tm2 s / inject_Z 2)) by (vm_compute; reflexivity).
  assert (Z : tm2 s / inject_Z 2 == 0) by (vm_compute; reflexivity).
  assert (T : (1 <? tn s)%Z = true) by (vm_compute; reflexivity).
  rewrite T, E. cbn [ofZ NumQ].
  assert (D : @pdiv (NumQ sq_id) (tm3 s) (inject_Z (tn s)) = Val (tm3 s / inject_Z (tn s))) by (vm_compute; reflexivity).
  rewrite D, (H _ Z). reflexivity.
Qed.

Theorem pinned_confidence_interval_raises :
  forall f : Q -> res Q,
  exists xs, g_confidence_interval_pinned (NumQ sq_id) (icdf_domain (NumQ sq_id) f)
               (tally_of sq_id xs) (@ANum (NumQ sq_id) 0) = Raise StatisticsError.
Proof. intros f. exists [1; 2]. vm_compute. reflexivity. Qed.

(* non-vacuity of the contracts on sq and icdf, and a worked instance *)
Lemma sq_id_proper : forall a b, a == b -> sq_id a == sq_id b.
Proof. intros a b H. exact H. Qed.
Lemma sq_id_pos : forall a, 0 < a -> 0 < sq_id a.
Proof. intros a H. exact H. Qed.
Definition icdf_const (p : Q) : res Q := Val 2.
Lemma icdf_const_total : forall p, 0 < p -> p < 1 -> exists z, icdf_const p = Val z.
Proof. intros. exists 2. reflexivity. Qed.
