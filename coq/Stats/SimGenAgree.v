(* C11 -- the model regenerated from the source IS the proved model.

   Stats/Gen_SimStats.v is written by translator/py2gallina_simstats.py from the
   text of src/pydsol/core/statistics.py (EventBased* and Sim* classes: notify,
   register, initialize, _fire_events, _fire_initialized, end_observations,
   __init__, listen_to -- one definition per concrete class and method, method
   resolution done from the class statements), model.py (the dictionary methods
   of DSOLModel) and simulator.py (the statements of Simulator.initialize about
   the model) of the tree under test; Python's `ast`, fail-closed.

   This file proves every generated definition equal to the hand-written model
   of Stats/SimStats.v, for ALL states, arguments, subscriber programs, nesting
   budgets and EVERY arithmetic instance [Num]:

     gen_<C>__fire_events      = fire_all     (getter by getter, in firing order,
                                               each evaluated on the state at
                                               that moment)
     gen_<C>_register          = reg_body     (register first, then publish)
     gen_<C>_initialize        = pinit
     gen_<C>_end_observations  = pclose
     gen_<C>_notify            = snotify      (dispatch on the event type)
     gen_<C>___init__ / listen_to = m_ctor / m_listen_to   (subscriptions,
                                               registration under the key)
     gen_DSOLModel_* , gen_Simulator_initialize__model = the dictionary model

   and then that the model's whole-log function [stat_run] is the composition
   of these methods over the listener tables the constructors build
   ([stat_run_by_method], a fact about the model alone) and hence equal to the
   composition of the GENERATED methods ([gen_stat_run_eq]).

   The generated objects carry no ghost log of operations ([ps_regs]); equality
   is stated after erasing it on the model side ([er]): state, pending
   reactions, everything delivered, "raised" and "out of budget" agree.

   The file is compiled against the generated file on every run of the check;
   when a change of the sources makes an equality false it no longer compiles
   and the check reports the broken tie. *)
From Coq Require Import ZArith Bool List Lia.
From PV Require Import EventList.Key Sim.Model Sim.Case.
From PV Require Import Stats.Num Stats.Tally Stats.Weighted Stats.Timestamp Stats.SimStats Stats.SimStatsProofs.
From PV Require Import Stats.Gen_SimStats.
Import ListNotations.

(* ====================================================================== *)
(* A. publishing, for any ordinary statistic                               *)
(* ====================================================================== *)
Section Publishing.
  Variable N : Num.
  Variable S : Type.
  Variable inj : S -> sstate N.
  Local Notation gst := (gst N S).
  Local Notation genv := (genv N S).
  Local Notation emb := (emb inj).

  (* the model state without its ghost log *)
  Definition er (x : pst N) : pst N :=
    mkPst (ps_state x) (ps_q x) (ps_tr x) [] (ps_raised x) (ps_nofuel x).

  Lemma er_emb (g : gst) r : er (emb g r) = emb g [].
  Proof. reflexivity. Qed.

  Lemma er_emb_inv (y : pst N) (g : gst) : er y = emb g [] -> y = emb g (ps_regs y).
  Proof.
    destruct y as [s q t r ra nf]. unfold er, Gen_SimStats.emb. cbn.
    intros H. injection H as -> -> -> -> ->. reflexivity.
  Qed.

  (* the subscriber's reaction of the model and the one of the generated world *)
  Definition react_rel (reenter : pst N -> payload N -> pst N) (gre : gst -> payload N -> gst) : Prop :=
    forall y r q, g_raised y = false -> er (reenter (emb y r) q) = emb (gre y q) [].

  Section Fire.
    Variable E : genv.
    Variable reenter : pst N -> payload N -> pst N.
    Hypothesis Hre : react_rel reenter (e_react E).

    Lemma deliver_emb j v x r :
      g_raised x = false ->
      er (deliver N reenter j v (emb x r)) = emb (py_notify_listener inj E j v x) [].
    Proof.
      intros R. unfold deliver, py_notify_listener. destruct x as [s q t ra nf]. cbn in *.
      destruct q as [|[p|] q]; cbn; try reflexivity.
      exact (Hre (mkG s q (mkPub j v (inj s) :: t) ra nf) r p R).
    Qed.

    Lemma fire_one_emb p x r j v :
      g_raised x = false -> pubval N (inj (g_state x)) p j = v ->
      er (fire_one N (e_lsub E) reenter p (emb x r) j) = emb (py_fire inj E j v x) [].
    Proof.
      intros R <-. unfold fire_one, py_fire. cbn [Gen_SimStats.emb ps_raised ps_state]. rewrite R.
      destruct (pv_raises N _); [destruct x; reflexivity|].
      destruct (memn j (e_lsub E)); [apply deliver_emb, R|reflexivity].
    Qed.

    Lemma fold_fire_raised p js : forall y, ps_raised y = true ->
      fold_left (fire_one N (e_lsub E) reenter p) js y = y.
    Proof.
      induction js as [|j r IH]; intros y R; [reflexivity|]. cbn [fold_left].
      unfold fire_one at 2. rewrite R. apply IH, R.
    Qed.

    (* one more event of a chain of fires *)
    Lemma fold_fire_step p j js x r v (k : gst -> gst) :
      g_raised x = false -> pubval N (inj (g_state x)) p j = v ->
      (forall x1 r1, g_raised x1 = false ->
         er (fold_left (fire_one N (e_lsub E) reenter p) js (emb x1 r1)) = emb (k x1) []) ->
      er (fold_left (fire_one N (e_lsub E) reenter p) (j :: js) (emb x r))
      = emb (py_then (py_fire inj E j v x) k) [].
    Proof.
      intros R Hv Hk. cbn [fold_left].
      pose proof (fire_one_emb p x r j v R Hv) as H1. apply er_emb_inv in H1.
      rewrite H1. unfold py_then. destruct (g_raised (py_fire inj E j v x)) eqn:R1.
      - rewrite fold_fire_raised; [reflexivity|exact R1].
      - apply Hk, R1.
    Qed.

    Lemma fold_fire_last p j x r v :
      g_raised x = false -> pubval N (inj (g_state x)) p j = v ->
      er (fold_left (fire_one N (e_lsub E) reenter p) [j] (emb x r)) = emb (py_fire inj E j v x) [].
    Proof. intros R Hv. cbn [fold_left]. apply fire_one_emb; assumption. Qed.

    (* an observation the ordinary register refuses without touching the state *)
    Lemma reg_body_refused tm ext x r p k :
      sreg N tm (inj (g_state x)) p = Exn k (inj (g_state x)) ->
      er (reg_body N (e_lsub E) tm reenter ext (emb x r) p) = emb (py_raise x) [].
    Proof.
      intros H. unfold reg_body. cbn [log_op Gen_SimStats.emb ps_state]. rewrite H. destruct x; reflexivity.
    Qed.

    (* EventBased*.register on an object in which no exception propagates: the ordinary register, then --
       if anybody listens -- the events ([FE]); in this normal form, whatever shape the source has *)
    Definition reg_spec (o : outcome S) (FE : gst -> gst) (x : gst) : gst :=
      match o with
      | Exn _ s' => py_raise (set_gstate s' x)
      | Ok s' => match e_lsub E with [] => set_gstate s' x | _ => FE (set_gstate s' x) end
      end.

    Lemma reg_body_spec tm ext x r p (o : outcome S) (FE : gst -> gst) :
      g_raised x = false ->
      sreg N tm (inj (g_state x)) p = omap inj o ->
      (forall x1 r1, g_raised x1 = false ->
         er (fire_all N (e_lsub E) reenter p (emb x1 r1)) = emb (FE x1) []) ->
      er (reg_body N (e_lsub E) tm reenter ext (emb x r) p) = emb (reg_spec o FE x) [].
    Proof.
      intros R Ho Hf. unfold reg_body, reg_spec. cbn [log_op Gen_SimStats.emb ps_state]. rewrite Ho.
      destruct o as [s'|e s']; cbn [omap].
      - destruct (e_lsub E) as [|l0 ls] eqn:L; [destruct x; reflexivity|].
        rewrite <- L in Hf |- *. exact (Hf (set_gstate s' x) ((ext, SReg tm p) :: r) R).
      - destruct x; reflexivity.
    Qed.
  End Fire.

  (* EventBased*.initialize *)
  Lemma pinit_emb E fuel tm x r s0 j0 :
    react_rel (fun y q => preg N fuel (e_lsub E) tm false y q) (e_react E) ->
    sinit N (kind_of N (inj (g_state x))) = inj s0 -> j0 = EV_INIT ->
    g_raised x = false ->
    er (pinit N fuel (e_lsub E) tm (emb x r))
    = emb (py_then (py_plain (Ok s0) x) (fun x_1 => py_fire inj E j0 PVSelf x_1)) [].
  Proof.
    intros Hre Hs -> R. unfold pinit. cbn [log_op set_state Gen_SimStats.emb ps_state]. rewrite Hs.
    unfold py_then, py_plain, py_fire. cbn [set_gstate g_raised pv_raises]. rewrite R.
    destruct (memn EV_INIT (e_lsub E)); [|destruct x; reflexivity].
    exact (deliver_emb E _ Hre EV_INIT PVSelf (set_gstate s0 x) ((true, SInit) :: r) R).
  Qed.
End Publishing.
Arguments er {N} _.

(* what the k-th published event of each kind carries is decided by computation *)
Ltac pub_val :=
  first [ reflexivity
        | match goal with
          | |- pubval _ (SP (g_state ?x)) _ _ = _ => destruct x as [[? ? ? ? ?] ? ? ? ?]; reflexivity
          end ].

(* v = self.getter(); self.fire(E, v): the fire would have noticed the raise itself *)
Lemma py_eval_fire_then N S (inj : S -> sstate N) E j v x (k : gst N S -> gst N S) :
  py_eval v x (py_then (py_fire inj E j v x) k) = py_then (py_fire inj E j v x) k.
Proof. unfold py_eval, py_fire, py_then. destruct (pv_raises N v); [destruct x; reflexivity|reflexivity]. Qed.
Lemma py_eval_fire N S (inj : S -> sstate N) E j v x : py_eval v x (py_fire inj E j v x) = py_fire inj E j v x.
Proof. unfold py_eval, py_fire. destruct (pv_raises N v); reflexivity. Qed.

(* a chain of fires, event by event *)
Ltac fire_chain Hre :=
  unfold py_fire_timed;
  repeat (cbv beta zeta; rewrite ?py_eval_fire_then;
          apply (fold_fire_step _ _ _ _ _ Hre); [assumption | pub_val | intros ? ? ?]);
  cbv beta zeta; rewrite ?py_eval_fire;
  apply (fold_fire_last _ _ _ _ _ Hre); [assumption | pub_val].

(* what WeightedTally.register refuses, it refuses without touching the state *)
Lemma wregister_refuses (N : Num) (w : wstate N) (ow ov : pyarg (F N)) :
  py_is_number ow && py_is_number ov && py_float_ok ow && py_float_ok ov = false ->
  exists k, wregister N w ow ov = Exn k w.
Proof.
  destruct ow as [a| | |], ov as [b| | |]; cbn; try discriminate; intros _;
    unfold wregister, wregister_gen; cbn [arg_not_number arg_isnan_exn];
    try (eexists; reflexivity); destruct (isnan _); eexists; reflexivity.
Qed.

(* ====================================================================== *)
(* B. the classes, kind by kind                                            *)
(* ====================================================================== *)

(* ====================================================================== *)
(* the counter classes                                                         *)
(* ====================================================================== *)
Section Counter.
  Variable N : Num.
  Local Notation gst := (gst N cstate).
  Local Notation genv := (genv N cstate).
  Local Notation rel := (react_rel N cstate SC).

  Lemma fire_all_counter lsub re p (x : gst) r :
    fire_all N lsub re p (emb SC x r) = fold_left (fire_one N lsub re p) [1; 2; 3]%nat (emb SC x r).
  Proof. reflexivity. Qed.

  (* ---- class EventBasedCounter ---- *)
  Theorem gen_EventBasedCounter__fire_events_eq (E : genv) re p x r :
    rel re (e_react E) -> g_raised x = false ->
    er (fire_all N (e_lsub E) re p (emb SC x r)) = emb SC (gen_EventBasedCounter__fire_events N E x (p_c p)) [].
  Proof.
    intros Hre R. rewrite fire_all_counter. unfold gen_EventBasedCounter__fire_events. cbv zeta. fire_chain Hre.
  Qed.

  Theorem gen_EventBasedCounter_register_eq (E : genv) re tm ext p x r :
    rel re (e_react E) -> g_raised x = false ->
    er (reg_body N (e_lsub E) tm re ext (emb SC x r) p) = emb SC (gen_EventBasedCounter_register N E x (p_c p)) [].
  Proof.
    intros Hre R.
    rewrite (reg_body_spec N _ SC E re tm ext x r p (cregister (g_state x) (p_c p))
               (fun x1 => gen_EventBasedCounter__fire_events N E x1 (p_c p)) R);
      [|reflexivity|intros x1 r1 R1; apply gen_EventBasedCounter__fire_events_eq; assumption].
    f_equal. destruct x as [s q t ra nf]. cbn [g_raised] in R. subst ra.
    unfold gen_EventBasedCounter_register, reg_spec, py_has_listeners. cbv zeta. cbn [g_state].
    destruct (cregister s (p_c p)); destruct (e_lsub E);
      cbv beta iota zeta delta [py_then py_plain py_raise set_gstate g_raised g_state g_q g_tr g_nofuel negb andb orb];
      reflexivity.
  Qed.

  (* the subscriber's reaction: register from inside notify, at most [fuel] deep *)
  Fixpoint gen_react_EventBasedCounter (fuel : nat) (lsub : list nat) (tm : F N) (types : list etype) (y : gst) (q : payload N) : gst :=
    match fuel with
    | O => set_gnofuel y
    | S f => gen_EventBasedCounter_register N (mkEnv lsub (gen_react_EventBasedCounter f lsub tm types) tm types) y (p_c q)
    end.

  Lemma gen_react_EventBasedCounter_rel fuel lsub tm types :
    rel (fun y q => preg N fuel lsub tm false y q) (gen_react_EventBasedCounter fuel lsub tm types).
  Proof.
    induction fuel as [|f IH]; intros y r q Ry; cbn [preg gen_react_EventBasedCounter].
    - destruct y; reflexivity.
    - exact (gen_EventBasedCounter_register_eq (mkEnv lsub (gen_react_EventBasedCounter f lsub tm types) tm types) _ tm false q y r IH Ry).
  Qed.

  Theorem gen_EventBasedCounter_initialize_eq (E : genv) fuel tm x r :
    rel (fun y q => preg N fuel (e_lsub E) tm false y q) (e_react E) -> g_raised x = false ->
    er (pinit N fuel (e_lsub E) tm (emb SC x r)) = emb SC (gen_EventBasedCounter_initialize N E x) [].
  Proof.
    intros Hre R. unfold gen_EventBasedCounter_initialize, gen_EventBasedCounter__fire_initialized, py_fire_timed.
    apply pinit_emb; [exact Hre|reflexivity|reflexivity|exact R].
  Qed.

  Theorem gen_EventBasedCounter_notify_eq (E : genv) re tm ext e x r :
    rel re (e_react E) -> g_raised x = false ->
    er (eb_notify N KCounter (e_lsub E) tm re ext (emb SC x r) e) = emb SC (gen_EventBasedCounter_notify N E x e) [].
  Proof.
    intros Hre R. destruct e as [ty c st]. destruct x as [s q t ra nf]. cbn [g_raised] in R. subst ra.
    unfold eb_notify, gen_EventBasedCounter_notify. cbv zeta. cbn [ne_type ne_content ne_stamp std_type].
    unfold py_is_event, py_is_timed_event, py_timestamp, py_content_is_int, py_content_is_tuple, py_content_len,
           py_is_number, py_float_ok. cbn [ne_stamp].
    destruct (etype_eqb ty ETData); destruct (p_c c) as [z|] eqn:Hc;
      cbv beta iota zeta delta [py_then py_raise g_raised negb andb orb Nat.eqb];
      first [ reflexivity
            | pose proof (gen_EventBasedCounter_register_eq E re tm ext c (mkG s q t false nf) r Hre eq_refl) as H; rewrite Hc in H; exact H
            | eapply reg_body_refused; cbn [sreg g_state]; rewrite Hc; reflexivity ].

  Qed.

  (* ---- class SimCounter ---- *)
  Theorem gen_SimCounter__fire_events_eq (E : genv) re p x r :
    rel re (e_react E) -> g_raised x = false ->
    er (fire_all N (e_lsub E) re p (emb SC x r)) = emb SC (gen_SimCounter__fire_events N E x (p_c p)) [].
  Proof.
    intros Hre R. rewrite fire_all_counter. unfold gen_SimCounter__fire_events. cbv zeta. fire_chain Hre.
  Qed.

  Theorem gen_SimCounter_register_eq (E : genv) re tm ext p x r :
    rel re (e_react E) -> g_raised x = false ->
    er (reg_body N (e_lsub E) tm re ext (emb SC x r) p) = emb SC (gen_SimCounter_register N E x (p_c p)) [].
  Proof.
    intros Hre R.
    rewrite (reg_body_spec N _ SC E re tm ext x r p (cregister (g_state x) (p_c p))
               (fun x1 => gen_SimCounter__fire_events N E x1 (p_c p)) R);
      [|reflexivity|intros x1 r1 R1; apply gen_SimCounter__fire_events_eq; assumption].
    f_equal. destruct x as [s q t ra nf]. cbn [g_raised] in R. subst ra.
    unfold gen_SimCounter_register, reg_spec, py_has_listeners. cbv zeta. cbn [g_state].
    destruct (cregister s (p_c p)); destruct (e_lsub E);
      cbv beta iota zeta delta [py_then py_plain py_raise set_gstate g_raised g_state g_q g_tr g_nofuel negb andb orb];
      reflexivity.
  Qed.

  (* the subscriber's reaction: register from inside notify, at most [fuel] deep *)
  Fixpoint gen_react_SimCounter (fuel : nat) (lsub : list nat) (tm : F N) (types : list etype) (y : gst) (q : payload N) : gst :=
    match fuel with
    | O => set_gnofuel y
    | S f => gen_SimCounter_register N (mkEnv lsub (gen_react_SimCounter f lsub tm types) tm types) y (p_c q)
    end.

  Lemma gen_react_SimCounter_rel fuel lsub tm types :
    rel (fun y q => preg N fuel lsub tm false y q) (gen_react_SimCounter fuel lsub tm types).
  Proof.
    induction fuel as [|f IH]; intros y r q Ry; cbn [preg gen_react_SimCounter].
    - destruct y; reflexivity.
    - exact (gen_SimCounter_register_eq (mkEnv lsub (gen_react_SimCounter f lsub tm types) tm types) _ tm false q y r IH Ry).
  Qed.

  Theorem gen_SimCounter_initialize_eq (E : genv) fuel tm x r :
    rel (fun y q => preg N fuel (e_lsub E) tm false y q) (e_react E) -> g_raised x = false ->
    er (pinit N fuel (e_lsub E) tm (emb SC x r)) = emb SC (gen_SimCounter_initialize N E x) [].
  Proof.
    intros Hre R. unfold gen_SimCounter_initialize, gen_SimCounter__fire_initialized, py_fire_timed.
    apply pinit_emb; [exact Hre|reflexivity|reflexivity|exact R].
  Qed.

  Theorem gen_SimCounter_super_EventBasedCounter_notify_eq (E : genv) re tm ext e x r :
    rel re (e_react E) -> g_raised x = false ->
    er (eb_notify N KCounter (e_lsub E) tm re ext (emb SC x r) e) = emb SC (gen_SimCounter_super_EventBasedCounter_notify N E x e) [].
  Proof.
    intros Hre R. destruct e as [ty c st]. destruct x as [s q t ra nf]. cbn [g_raised] in R. subst ra.
    unfold eb_notify, gen_SimCounter_super_EventBasedCounter_notify. cbv zeta. cbn [ne_type ne_content ne_stamp std_type].
    unfold py_is_event, py_is_timed_event, py_timestamp, py_content_is_int, py_content_is_tuple, py_content_len,
           py_is_number, py_float_ok. cbn [ne_stamp].
    destruct (etype_eqb ty ETData); destruct (p_c c) as [z|] eqn:Hc;
      cbv beta iota zeta delta [py_then py_raise g_raised negb andb orb Nat.eqb];
      first [ reflexivity
            | pose proof (gen_SimCounter_register_eq E re tm ext c (mkG s q t false nf) r Hre eq_refl) as H; rewrite Hc in H; exact H
            | eapply reg_body_refused; cbn [sreg g_state]; rewrite Hc; reflexivity ].

  Qed.

  (* SimCounter.notify: the dispatch on the event type.  Every event type is taken apart, so the order
     in which independent branches are written does not matter. *)
  Theorem gen_SimCounter_notify_eq (E : genv) f e x r :
    rel (react N f (e_lsub E) (e_tm E)) (e_react E) -> g_raised x = false ->
    er (snotify N KCounter f (e_lsub E) (e_types E) (e_tm E) (emb SC x r) e) = emb SC (gen_SimCounter_notify N E x e) [].
  Proof.
    intros Hre R. destruct e as [ty c st]. unfold snotify, gen_SimCounter_notify. cbv zeta.
    cbn [ne_type ne_content ne_stamp].
    destruct ty; cbn [etype_eqb];
      try (match goal with |- context [et_in ?a (e_types E)] => destruct (et_in a (e_types E)) end);
      unfold py_Event, py_TimedEvent, py_time_float;
      first [ reflexivity
            | exact (gen_SimCounter_super_EventBasedCounter_notify_eq E _ (e_tm E) true (mkSev ETData c None) x r Hre R)
            | exact (gen_SimCounter_super_EventBasedCounter_notify_eq E _ (e_tm E) true (mkSev ETData c (Some (e_tm E))) x r Hre R)
            | exact (gen_SimCounter_super_EventBasedCounter_notify_eq E _ (e_tm E) true (mkSev ETData c st) x r Hre R)
            | apply gen_SimCounter_initialize_eq; [exact Hre|exact R]
            ].
  Qed.
End Counter.

(* ====================================================================== *)
(* the tally classes                                                         *)
(* ====================================================================== *)
Section Tally.
  Variable N : Num.
  Local Notation gst := (gst N (tstate N)).
  Local Notation genv := (genv N (tstate N)).
  Local Notation rel := (react_rel N (tstate N) ST).

  Lemma fire_all_tally lsub re p (x : gst) r :
    fire_all N lsub re p (emb ST x r) = fold_left (fire_one N lsub re p) [1; 2; 3; 4; 5; 6; 7; 8; 9; 10; 11; 12; 13; 14; 15; 16]%nat (emb ST x r).
  Proof. reflexivity. Qed.

  (* ---- class EventBasedTally ---- *)
  Theorem gen_EventBasedTally__fire_events_eq (E : genv) re p x r :
    rel re (e_react E) -> g_raised x = false ->
    er (fire_all N (e_lsub E) re p (emb ST x r)) = emb ST (gen_EventBasedTally__fire_events N E x (p_v p)) [].
  Proof.
    intros Hre R. rewrite fire_all_tally. unfold gen_EventBasedTally__fire_events. cbv zeta. fire_chain Hre.
  Qed.

  Theorem gen_EventBasedTally_register_eq (E : genv) re tm ext p x r :
    rel re (e_react E) -> g_raised x = false ->
    er (reg_body N (e_lsub E) tm re ext (emb ST x r) p) = emb ST (gen_EventBasedTally_register N E x (p_v p)) [].
  Proof.
    intros Hre R.
    rewrite (reg_body_spec N _ ST E re tm ext x r p (tregister N (g_state x) (p_v p))
               (fun x1 => gen_EventBasedTally__fire_events N E x1 (p_v p)) R);
      [|reflexivity|intros x1 r1 R1; apply gen_EventBasedTally__fire_events_eq; assumption].
    f_equal. destruct x as [s q t ra nf]. cbn [g_raised] in R. subst ra.
    unfold gen_EventBasedTally_register, reg_spec, py_has_listeners. cbv zeta. cbn [g_state].
    destruct (tregister N s (p_v p)); destruct (e_lsub E);
      cbv beta iota zeta delta [py_then py_plain py_raise set_gstate g_raised g_state g_q g_tr g_nofuel negb andb orb];
      reflexivity.
  Qed.

  (* the subscriber's reaction: register from inside notify, at most [fuel] deep *)
  Fixpoint gen_react_EventBasedTally (fuel : nat) (lsub : list nat) (tm : F N) (types : list etype) (y : gst) (q : payload N) : gst :=
    match fuel with
    | O => set_gnofuel y
    | S f => gen_EventBasedTally_register N (mkEnv lsub (gen_react_EventBasedTally f lsub tm types) tm types) y (p_v q)
    end.

  Lemma gen_react_EventBasedTally_rel fuel lsub tm types :
    rel (fun y q => preg N fuel lsub tm false y q) (gen_react_EventBasedTally fuel lsub tm types).
  Proof.
    induction fuel as [|f IH]; intros y r q Ry; cbn [preg gen_react_EventBasedTally].
    - destruct y; reflexivity.
    - exact (gen_EventBasedTally_register_eq (mkEnv lsub (gen_react_EventBasedTally f lsub tm types) tm types) _ tm false q y r IH Ry).
  Qed.

  Theorem gen_EventBasedTally_initialize_eq (E : genv) fuel tm x r :
    rel (fun y q => preg N fuel (e_lsub E) tm false y q) (e_react E) -> g_raised x = false ->
    er (pinit N fuel (e_lsub E) tm (emb ST x r)) = emb ST (gen_EventBasedTally_initialize N E x) [].
  Proof.
    intros Hre R. unfold gen_EventBasedTally_initialize, gen_EventBasedTally__fire_initialized, py_fire_timed.
    apply pinit_emb; [exact Hre|reflexivity|reflexivity|exact R].
  Qed.

  Theorem gen_EventBasedTally_notify_eq (E : genv) re tm ext e x r :
    rel re (e_react E) -> g_raised x = false ->
    er (eb_notify N KTally (e_lsub E) tm re ext (emb ST x r) e) = emb ST (gen_EventBasedTally_notify N E x e) [].
  Proof.
    intros Hre R. destruct e as [ty c st]. destruct x as [s q t ra nf]. cbn [g_raised] in R. subst ra.
    unfold eb_notify, gen_EventBasedTally_notify. cbv zeta. cbn [ne_type ne_content ne_stamp std_type].
    unfold py_is_event, py_is_timed_event, py_timestamp, py_content_is_int, py_content_is_tuple, py_content_len,
           py_is_number, py_float_ok. cbn [ne_stamp].
    destruct (etype_eqb ty ETData); destruct (p_v c) as [v| | |] eqn:Hc;
      cbv beta iota zeta delta [py_then py_raise g_raised negb andb orb Nat.eqb];
      first [ reflexivity
            | pose proof (gen_EventBasedTally_register_eq E re tm ext c (mkG s q t false nf) r Hre eq_refl) as H; rewrite Hc in H; exact H
            | eapply reg_body_refused; cbn [sreg g_state]; rewrite Hc; reflexivity ].

  Qed.

  (* ---- class SimTally ---- *)
  Theorem gen_SimTally__fire_events_eq (E : genv) re p x r :
    rel re (e_react E) -> g_raised x = false ->
    er (fire_all N (e_lsub E) re p (emb ST x r)) = emb ST (gen_SimTally__fire_events N E x (p_v p)) [].
  Proof.
    intros Hre R. rewrite fire_all_tally. unfold gen_SimTally__fire_events. cbv zeta. fire_chain Hre.
  Qed.

  Theorem gen_SimTally_register_eq (E : genv) re tm ext p x r :
    rel re (e_react E) -> g_raised x = false ->
    er (reg_body N (e_lsub E) tm re ext (emb ST x r) p) = emb ST (gen_SimTally_register N E x (p_v p)) [].
  Proof.
    intros Hre R.
    rewrite (reg_body_spec N _ ST E re tm ext x r p (tregister N (g_state x) (p_v p))
               (fun x1 => gen_SimTally__fire_events N E x1 (p_v p)) R);
      [|reflexivity|intros x1 r1 R1; apply gen_SimTally__fire_events_eq; assumption].
    f_equal. destruct x as [s q t ra nf]. cbn [g_raised] in R. subst ra.
    unfold gen_SimTally_register, reg_spec, py_has_listeners. cbv zeta. cbn [g_state].
    destruct (tregister N s (p_v p)); destruct (e_lsub E);
      cbv beta iota zeta delta [py_then py_plain py_raise set_gstate g_raised g_state g_q g_tr g_nofuel negb andb orb];
      reflexivity.
  Qed.

  (* the subscriber's reaction: register from inside notify, at most [fuel] deep *)
  Fixpoint gen_react_SimTally (fuel : nat) (lsub : list nat) (tm : F N) (types : list etype) (y : gst) (q : payload N) : gst :=
    match fuel with
    | O => set_gnofuel y
    | S f => gen_SimTally_register N (mkEnv lsub (gen_react_SimTally f lsub tm types) tm types) y (p_v q)
    end.

  Lemma gen_react_SimTally_rel fuel lsub tm types :
    rel (fun y q => preg N fuel lsub tm false y q) (gen_react_SimTally fuel lsub tm types).
  Proof.
    induction fuel as [|f IH]; intros y r q Ry; cbn [preg gen_react_SimTally].
    - destruct y; reflexivity.
    - exact (gen_SimTally_register_eq (mkEnv lsub (gen_react_SimTally f lsub tm types) tm types) _ tm false q y r IH Ry).
  Qed.

  Theorem gen_SimTally_initialize_eq (E : genv) fuel tm x r :
    rel (fun y q => preg N fuel (e_lsub E) tm false y q) (e_react E) -> g_raised x = false ->
    er (pinit N fuel (e_lsub E) tm (emb ST x r)) = emb ST (gen_SimTally_initialize N E x) [].
  Proof.
    intros Hre R. unfold gen_SimTally_initialize, gen_SimTally__fire_initialized, py_fire_timed.
    apply pinit_emb; [exact Hre|reflexivity|reflexivity|exact R].
  Qed.

  Theorem gen_SimTally_super_EventBasedTally_notify_eq (E : genv) re tm ext e x r :
    rel re (e_react E) -> g_raised x = false ->
    er (eb_notify N KTally (e_lsub E) tm re ext (emb ST x r) e) = emb ST (gen_SimTally_super_EventBasedTally_notify N E x e) [].
  Proof.
    intros Hre R. destruct e as [ty c st]. destruct x as [s q t ra nf]. cbn [g_raised] in R. subst ra.
    unfold eb_notify, gen_SimTally_super_EventBasedTally_notify. cbv zeta. cbn [ne_type ne_content ne_stamp std_type].
    unfold py_is_event, py_is_timed_event, py_timestamp, py_content_is_int, py_content_is_tuple, py_content_len,
           py_is_number, py_float_ok. cbn [ne_stamp].
    destruct (etype_eqb ty ETData); destruct (p_v c) as [v| | |] eqn:Hc;
      cbv beta iota zeta delta [py_then py_raise g_raised negb andb orb Nat.eqb];
      first [ reflexivity
            | pose proof (gen_SimTally_register_eq E re tm ext c (mkG s q t false nf) r Hre eq_refl) as H; rewrite Hc in H; exact H
            | eapply reg_body_refused; cbn [sreg g_state]; rewrite Hc; reflexivity ].

  Qed.

  (* SimTally.notify: the dispatch on the event type.  Every event type is taken apart, so the order
     in which independent branches are written does not matter. *)
  Theorem gen_SimTally_notify_eq (E : genv) f e x r :
    rel (react N f (e_lsub E) (e_tm E)) (e_react E) -> g_raised x = false ->
    er (snotify N KTally f (e_lsub E) (e_types E) (e_tm E) (emb ST x r) e) = emb ST (gen_SimTally_notify N E x e) [].
  Proof.
    intros Hre R. destruct e as [ty c st]. unfold snotify, gen_SimTally_notify. cbv zeta.
    cbn [ne_type ne_content ne_stamp].
    destruct ty; cbn [etype_eqb];
      try (match goal with |- context [et_in ?a (e_types E)] => destruct (et_in a (e_types E)) end);
      unfold py_Event, py_TimedEvent, py_time_float;
      first [ reflexivity
            | exact (gen_SimTally_super_EventBasedTally_notify_eq E _ (e_tm E) true (mkSev ETData c None) x r Hre R)
            | exact (gen_SimTally_super_EventBasedTally_notify_eq E _ (e_tm E) true (mkSev ETData c (Some (e_tm E))) x r Hre R)
            | exact (gen_SimTally_super_EventBasedTally_notify_eq E _ (e_tm E) true (mkSev ETData c st) x r Hre R)
            | apply gen_SimTally_initialize_eq; [exact Hre|exact R]
            ].
  Qed.
End Tally.

(* ====================================================================== *)
(* the weighted classes                                                         *)
(* ====================================================================== *)
Section Weighted.
  Variable N : Num.
  Local Notation gst := (gst N (wstate N)).
  Local Notation genv := (genv N (wstate N)).
  Local Notation rel := (react_rel N (wstate N) SW).

  Lemma fire_all_weighted lsub re p (x : gst) r :
    fire_all N lsub re p (emb SW x r) = fold_left (fire_one N lsub re p) [1; 2; 3; 4; 5; 6; 7; 8; 9; 10]%nat (emb SW x r).
  Proof. reflexivity. Qed.

  (* ---- class EventBasedWeightedTally ---- *)
  Theorem gen_EventBasedWeightedTally__fire_events_eq (E : genv) re p x r :
    rel re (e_react E) -> g_raised x = false ->
    er (fire_all N (e_lsub E) re p (emb SW x r)) = emb SW (gen_EventBasedWeightedTally__fire_events N E x (p_v p)) [].
  Proof.
    intros Hre R. rewrite fire_all_weighted. unfold gen_EventBasedWeightedTally__fire_events. cbv zeta. fire_chain Hre.
  Qed.

  Theorem gen_EventBasedWeightedTally_register_eq (E : genv) re tm ext p x r :
    rel re (e_react E) -> g_raised x = false ->
    er (reg_body N (e_lsub E) tm re ext (emb SW x r) p) = emb SW (gen_EventBasedWeightedTally_register N E x (p_w p) (p_v p)) [].
  Proof.
    intros Hre R.
    rewrite (reg_body_spec N _ SW E re tm ext x r p (wregister N (g_state x) (p_w p) (p_v p))
               (fun x1 => gen_EventBasedWeightedTally__fire_events N E x1 (p_v p)) R);
      [|reflexivity|intros x1 r1 R1; apply gen_EventBasedWeightedTally__fire_events_eq; assumption].
    f_equal. destruct x as [s q t ra nf]. cbn [g_raised] in R. subst ra.
    unfold gen_EventBasedWeightedTally_register, reg_spec, py_has_listeners. cbv zeta. cbn [g_state].
    destruct (wregister N s (p_w p) (p_v p)); destruct (e_lsub E);
      cbv beta iota zeta delta [py_then py_plain py_raise set_gstate g_raised g_state g_q g_tr g_nofuel negb andb orb];
      reflexivity.
  Qed.

  (* the subscriber's reaction: register from inside notify, at most [fuel] deep *)
  Fixpoint gen_react_EventBasedWeightedTally (fuel : nat) (lsub : list nat) (tm : F N) (types : list etype) (y : gst) (q : payload N) : gst :=
    match fuel with
    | O => set_gnofuel y
    | S f => gen_EventBasedWeightedTally_register N (mkEnv lsub (gen_react_EventBasedWeightedTally f lsub tm types) tm types) y (p_w q) (p_v q)
    end.

  Lemma gen_react_EventBasedWeightedTally_rel fuel lsub tm types :
    rel (fun y q => preg N fuel lsub tm false y q) (gen_react_EventBasedWeightedTally fuel lsub tm types).
  Proof.
    induction fuel as [|f IH]; intros y r q Ry; cbn [preg gen_react_EventBasedWeightedTally].
    - destruct y; reflexivity.
    - exact (gen_EventBasedWeightedTally_register_eq (mkEnv lsub (gen_react_EventBasedWeightedTally f lsub tm types) tm types) _ tm false q y r IH Ry).
  Qed.

  Theorem gen_EventBasedWeightedTally_initialize_eq (E : genv) fuel tm x r :
    rel (fun y q => preg N fuel (e_lsub E) tm false y q) (e_react E) -> g_raised x = false ->
    er (pinit N fuel (e_lsub E) tm (emb SW x r)) = emb SW (gen_EventBasedWeightedTally_initialize N E x) [].
  Proof.
    intros Hre R. unfold gen_EventBasedWeightedTally_initialize, gen_EventBasedWeightedTally__fire_initialized, py_fire_timed.
    apply pinit_emb; [exact Hre|reflexivity|reflexivity|exact R].
  Qed.

  Theorem gen_EventBasedWeightedTally_notify_eq (E : genv) re tm ext e x r :
    rel re (e_react E) -> g_raised x = false ->
    er (eb_notify N KWeighted (e_lsub E) tm re ext (emb SW x r) e) = emb SW (gen_EventBasedWeightedTally_notify N E x e) [].
  Proof.
    intros Hre R. destruct e as [ty c st]. destruct x as [s q t ra nf]. cbn [g_raised] in R. subst ra.
    unfold eb_notify, gen_EventBasedWeightedTally_notify. cbv zeta. cbn [ne_type ne_content ne_stamp std_type].
    unfold py_is_event, py_is_timed_event, py_timestamp, py_content_is_int, py_content_is_tuple, py_content_len,
           py_is_number, py_float_ok. cbn [ne_stamp].
    destruct (etype_eqb ty ETWeightData); destruct (p_w c) as [w| | |] eqn:Hw; destruct (p_v c) as [v| | |] eqn:Hv;
      cbv beta iota zeta delta [py_then py_raise g_raised negb andb orb Nat.eqb];
      first [ reflexivity
            | pose proof (gen_EventBasedWeightedTally_register_eq E re tm ext c (mkG s q t false nf) r Hre eq_refl) as H; rewrite Hw, Hv in H; exact H
            | destruct (wregister_refuses N s (p_w c) (p_v c)) as [k Hk]; [rewrite Hw, Hv; reflexivity|]; eapply reg_body_refused with (k := k); cbn [sreg g_state]; rewrite Hk; reflexivity ].

  Qed.

  (* ---- class SimWeightedTally ---- *)
  Theorem gen_SimWeightedTally__fire_events_eq (E : genv) re p x r :
    rel re (e_react E) -> g_raised x = false ->
    er (fire_all N (e_lsub E) re p (emb SW x r)) = emb SW (gen_SimWeightedTally__fire_events N E x (p_v p)) [].
  Proof.
    intros Hre R. rewrite fire_all_weighted. unfold gen_SimWeightedTally__fire_events. cbv zeta. fire_chain Hre.
  Qed.

  Theorem gen_SimWeightedTally_register_eq (E : genv) re tm ext p x r :
    rel re (e_react E) -> g_raised x = false ->
    er (reg_body N (e_lsub E) tm re ext (emb SW x r) p) = emb SW (gen_SimWeightedTally_register N E x (p_w p) (p_v p)) [].
  Proof.
    intros Hre R.
    rewrite (reg_body_spec N _ SW E re tm ext x r p (wregister N (g_state x) (p_w p) (p_v p))
               (fun x1 => gen_SimWeightedTally__fire_events N E x1 (p_v p)) R);
      [|reflexivity|intros x1 r1 R1; apply gen_SimWeightedTally__fire_events_eq; assumption].
    f_equal. destruct x as [s q t ra nf]. cbn [g_raised] in R. subst ra.
    unfold gen_SimWeightedTally_register, reg_spec, py_has_listeners. cbv zeta. cbn [g_state].
    destruct (wregister N s (p_w p) (p_v p)); destruct (e_lsub E);
      cbv beta iota zeta delta [py_then py_plain py_raise set_gstate g_raised g_state g_q g_tr g_nofuel negb andb orb];
      reflexivity.
  Qed.

  (* the subscriber's reaction: register from inside notify, at most [fuel] deep *)
  Fixpoint gen_react_SimWeightedTally (fuel : nat) (lsub : list nat) (tm : F N) (types : list etype) (y : gst) (q : payload N) : gst :=
    match fuel with
    | O => set_gnofuel y
    | S f => gen_SimWeightedTally_register N (mkEnv lsub (gen_react_SimWeightedTally f lsub tm types) tm types) y (p_w q) (p_v q)
    end.

  Lemma gen_react_SimWeightedTally_rel fuel lsub tm types :
    rel (fun y q => preg N fuel lsub tm false y q) (gen_react_SimWeightedTally fuel lsub tm types).
  Proof.
    induction fuel as [|f IH]; intros y r q Ry; cbn [preg gen_react_SimWeightedTally].
    - destruct y; reflexivity.
    - exact (gen_SimWeightedTally_register_eq (mkEnv lsub (gen_react_SimWeightedTally f lsub tm types) tm types) _ tm false q y r IH Ry).
  Qed.

  Theorem gen_SimWeightedTally_initialize_eq (E : genv) fuel tm x r :
    rel (fun y q => preg N fuel (e_lsub E) tm false y q) (e_react E) -> g_raised x = false ->
    er (pinit N fuel (e_lsub E) tm (emb SW x r)) = emb SW (gen_SimWeightedTally_initialize N E x) [].
  Proof.
    intros Hre R. unfold gen_SimWeightedTally_initialize, gen_SimWeightedTally__fire_initialized, py_fire_timed.
    apply pinit_emb; [exact Hre|reflexivity|reflexivity|exact R].
  Qed.

  Theorem gen_SimWeightedTally_super_EventBasedWeightedTally_notify_eq (E : genv) re tm ext e x r :
    rel re (e_react E) -> g_raised x = false ->
    er (eb_notify N KWeighted (e_lsub E) tm re ext (emb SW x r) e) = emb SW (gen_SimWeightedTally_super_EventBasedWeightedTally_notify N E x e) [].
  Proof.
    intros Hre R. destruct e as [ty c st]. destruct x as [s q t ra nf]. cbn [g_raised] in R. subst ra.
    unfold eb_notify, gen_SimWeightedTally_super_EventBasedWeightedTally_notify. cbv zeta. cbn [ne_type ne_content ne_stamp std_type].
    unfold py_is_event, py_is_timed_event, py_timestamp, py_content_is_int, py_content_is_tuple, py_content_len,
           py_is_number, py_float_ok. cbn [ne_stamp].
    destruct (etype_eqb ty ETWeightData); destruct (p_w c) as [w| | |] eqn:Hw; destruct (p_v c) as [v| | |] eqn:Hv;
      cbv beta iota zeta delta [py_then py_raise g_raised negb andb orb Nat.eqb];
      first [ reflexivity
            | pose proof (gen_SimWeightedTally_register_eq E re tm ext c (mkG s q t false nf) r Hre eq_refl) as H; rewrite Hw, Hv in H; exact H
            | destruct (wregister_refuses N s (p_w c) (p_v c)) as [k Hk]; [rewrite Hw, Hv; reflexivity|]; eapply reg_body_refused with (k := k); cbn [sreg g_state]; rewrite Hk; reflexivity ].

  Qed.

  (* SimWeightedTally.notify: the dispatch on the event type.  Every event type is taken apart, so the order
     in which independent branches are written does not matter. *)
  Theorem gen_SimWeightedTally_notify_eq (E : genv) f e x r :
    rel (react N f (e_lsub E) (e_tm E)) (e_react E) -> g_raised x = false ->
    er (snotify N KWeighted f (e_lsub E) (e_types E) (e_tm E) (emb SW x r) e) = emb SW (gen_SimWeightedTally_notify N E x e) [].
  Proof.
    intros Hre R. destruct e as [ty c st]. unfold snotify, gen_SimWeightedTally_notify. cbv zeta.
    cbn [ne_type ne_content ne_stamp].
    destruct ty; cbn [etype_eqb];
      try (match goal with |- context [et_in ?a (e_types E)] => destruct (et_in a (e_types E)) end);
      unfold py_Event, py_TimedEvent, py_time_float;
      first [ reflexivity
            | exact (gen_SimWeightedTally_super_EventBasedWeightedTally_notify_eq E _ (e_tm E) true (mkSev ETWeightData c None) x r Hre R)
            | exact (gen_SimWeightedTally_super_EventBasedWeightedTally_notify_eq E _ (e_tm E) true (mkSev ETWeightData c (Some (e_tm E))) x r Hre R)
            | exact (gen_SimWeightedTally_super_EventBasedWeightedTally_notify_eq E _ (e_tm E) true (mkSev ETWeightData c st) x r Hre R)
            | apply gen_SimWeightedTally_initialize_eq; [exact Hre|exact R]
            ].
  Qed.
End Weighted.

(* ====================================================================== *)
(* the persistent classes                                                         *)
(* ====================================================================== *)
Section Persistent.
  Variable N : Num.
  Local Notation gst := (gst N (tsstate N)).
  Local Notation genv := (genv N (tsstate N)).
  Local Notation rel := (react_rel N (tsstate N) SP).

  (* second half of end_observations: unless register raised, _active = False *)
  Lemma pclose_tail (X1 : pst N) (g1 : gst) :
    er X1 = emb SP g1 [] ->
    er (if ps_raised X1 then X1 else set_state N (sclose N (ps_state X1)) (log_op N (true, SClose) X1))
    = emb SP (py_then g1 (fun x_1 =>
                py_update (fun s => mkTSt (ts_w s) (ts_start s) (ts_last s) (ts_lastval s) false) x_1)) [].
  Proof.
    intros H. apply er_emb_inv in H. rewrite H. unfold py_then.
    destruct g1 as [[w a b c d] q t ra nf]. cbn. destruct ra; reflexivity.
  Qed.

  Lemma fire_all_persistent lsub re p (x : gst) r :
    fire_all N lsub re p (emb SP x r) = fold_left (fire_one N lsub re p) [1; 2; 3; 4; 5; 6; 7; 8; 9; 10]%nat (emb SP x r).
  Proof. reflexivity. Qed.

  (* ---- class EventBasedTimestampWeightedTally ---- *)
  Theorem gen_EventBasedTimestampWeightedTally__fire_events_eq (E : genv) re p ts x r :
    rel re (e_react E) -> g_raised x = false ->
    er (fire_all N (e_lsub E) re p (emb SP x r)) = emb SP (gen_EventBasedTimestampWeightedTally__fire_events N E x ts (p_v p)) [].
  Proof.
    intros Hre R. rewrite fire_all_persistent. unfold gen_EventBasedTimestampWeightedTally__fire_events. cbv zeta. fire_chain Hre.
  Qed.

  Theorem gen_EventBasedTimestampWeightedTally_register_eq (E : genv) re tm ext p x r :
    rel re (e_react E) -> g_raised x = false ->
    er (reg_body N (e_lsub E) tm re ext (emb SP x r) p) = emb SP (gen_EventBasedTimestampWeightedTally_register N E x (ONum tm) (p_v p)) [].
  Proof.
    intros Hre R.
    rewrite (reg_body_spec N _ SP E re tm ext x r p (tsregister N (g_state x) (ONum tm) (p_v p))
               (fun x1 => gen_EventBasedTimestampWeightedTally__fire_events N E x1 (ONum tm) (p_v p)) R);
      [|reflexivity|intros x1 r1 R1; apply gen_EventBasedTimestampWeightedTally__fire_events_eq; assumption].
    f_equal. destruct x as [s q t ra nf]. cbn [g_raised] in R. subst ra.
    unfold gen_EventBasedTimestampWeightedTally_register, reg_spec, py_has_listeners. cbv zeta. cbn [g_state].
    destruct (tsregister N s (ONum tm) (p_v p)); destruct (e_lsub E);
      cbv beta iota zeta delta [py_then py_plain py_raise set_gstate g_raised g_state g_q g_tr g_nofuel negb andb orb];
      reflexivity.
  Qed.

  (* the subscriber's reaction: register from inside notify, at most [fuel] deep *)
  Fixpoint gen_react_EventBasedTimestampWeightedTally (fuel : nat) (lsub : list nat) (tm : F N) (types : list etype) (y : gst) (q : payload N) : gst :=
    match fuel with
    | O => set_gnofuel y
    | S f => gen_EventBasedTimestampWeightedTally_register N (mkEnv lsub (gen_react_EventBasedTimestampWeightedTally f lsub tm types) tm types) y (ONum tm) (p_v q)
    end.

  Lemma gen_react_EventBasedTimestampWeightedTally_rel fuel lsub tm types :
    rel (fun y q => preg N fuel lsub tm false y q) (gen_react_EventBasedTimestampWeightedTally fuel lsub tm types).
  Proof.
    induction fuel as [|f IH]; intros y r q Ry; cbn [preg gen_react_EventBasedTimestampWeightedTally].
    - destruct y; reflexivity.
    - exact (gen_EventBasedTimestampWeightedTally_register_eq (mkEnv lsub (gen_react_EventBasedTimestampWeightedTally f lsub tm types) tm types) _ tm false q y r IH Ry).
  Qed.

  Theorem gen_EventBasedTimestampWeightedTally_initialize_eq (E : genv) fuel tm x r :
    rel (fun y q => preg N fuel (e_lsub E) tm false y q) (e_react E) -> g_raised x = false ->
    er (pinit N fuel (e_lsub E) tm (emb SP x r)) = emb SP (gen_EventBasedTimestampWeightedTally_initialize N E x) [].
  Proof.
    intros Hre R. unfold gen_EventBasedTimestampWeightedTally_initialize, gen_EventBasedTimestampWeightedTally__fire_initialized, py_fire_timed.
    apply pinit_emb; [exact Hre|reflexivity|reflexivity|exact R].
  Qed.

  Theorem gen_EventBasedTimestampWeightedTally_notify_eq (E : genv) re tm ext e x r :
    rel re (e_react E) -> g_raised x = false ->
    er (eb_notify N KPersistent (e_lsub E) tm re ext (emb SP x r) e) = emb SP (gen_EventBasedTimestampWeightedTally_notify N E x e) [].
  Proof.
    intros Hre R. destruct e as [ty c st]. destruct x as [s q t ra nf]. cbn [g_raised] in R. subst ra.
    unfold eb_notify, gen_EventBasedTimestampWeightedTally_notify. cbv zeta. cbn [ne_type ne_content ne_stamp std_type].
    unfold py_is_event, py_is_timed_event, py_timestamp, py_content_is_int, py_content_is_tuple, py_content_len,
           py_is_number, py_float_ok. cbn [ne_stamp].
    destruct (etype_eqb ty ETTimestampData); destruct st as [ts|]; destruct (p_v c) as [v| | |] eqn:Hc;
      cbv beta iota zeta delta [py_then py_raise g_raised negb andb orb Nat.eqb];
      first [ reflexivity
            | pose proof (gen_EventBasedTimestampWeightedTally_register_eq E re ts ext c (mkG s q t false nf) r Hre eq_refl) as H; rewrite Hc in H; exact H
            | eapply reg_body_refused; cbn [sreg g_state]; rewrite Hc; reflexivity ].

  Qed.

  Theorem gen_EventBasedTimestampWeightedTally_end_observations_eq (E : genv) f tm x r :
    rel (fun y q => preg N f (e_lsub E) tm false y q) (e_react E) -> g_raised x = false ->
    er (pclose N (S f) (e_lsub E) tm (emb SP x r)) = emb SP (gen_EventBasedTimestampWeightedTally_end_observations N E x (ONum tm)) [].
  Proof.
    intros Hre R. unfold pclose, gen_EventBasedTimestampWeightedTally_end_observations. cbv zeta. cbn [Gen_SimStats.emb ps_state].
    apply pclose_tail.
    exact (gen_EventBasedTimestampWeightedTally_register_eq E _ tm true (mkP CNotInt ONotNumber (ONum (ts_lastval (g_state x)))) x r Hre R).
  Qed.

  (* ---- class SimPersistent ---- *)
  Theorem gen_SimPersistent__fire_events_eq (E : genv) re p ts x r :
    rel re (e_react E) -> g_raised x = false ->
    er (fire_all N (e_lsub E) re p (emb SP x r)) = emb SP (gen_SimPersistent__fire_events N E x ts (p_v p)) [].
  Proof.
    intros Hre R. rewrite fire_all_persistent. unfold gen_SimPersistent__fire_events. cbv zeta. fire_chain Hre.
  Qed.

  Theorem gen_SimPersistent_register_eq (E : genv) re tm ext p x r :
    rel re (e_react E) -> g_raised x = false ->
    er (reg_body N (e_lsub E) tm re ext (emb SP x r) p) = emb SP (gen_SimPersistent_register N E x (ONum tm) (p_v p)) [].
  Proof.
    intros Hre R.
    rewrite (reg_body_spec N _ SP E re tm ext x r p (tsregister N (g_state x) (ONum tm) (p_v p))
               (fun x1 => gen_SimPersistent__fire_events N E x1 (ONum tm) (p_v p)) R);
      [|reflexivity|intros x1 r1 R1; apply gen_SimPersistent__fire_events_eq; assumption].
    f_equal. destruct x as [s q t ra nf]. cbn [g_raised] in R. subst ra.
    unfold gen_SimPersistent_register, reg_spec, py_has_listeners. cbv zeta. cbn [g_state].
    destruct (tsregister N s (ONum tm) (p_v p)); destruct (e_lsub E);
      cbv beta iota zeta delta [py_then py_plain py_raise set_gstate g_raised g_state g_q g_tr g_nofuel negb andb orb];
      reflexivity.
  Qed.

  (* the subscriber's reaction: register from inside notify, at most [fuel] deep *)
  Fixpoint gen_react_SimPersistent (fuel : nat) (lsub : list nat) (tm : F N) (types : list etype) (y : gst) (q : payload N) : gst :=
    match fuel with
    | O => set_gnofuel y
    | S f => gen_SimPersistent_register N (mkEnv lsub (gen_react_SimPersistent f lsub tm types) tm types) y (ONum tm) (p_v q)
    end.

  Lemma gen_react_SimPersistent_rel fuel lsub tm types :
    rel (fun y q => preg N fuel lsub tm false y q) (gen_react_SimPersistent fuel lsub tm types).
  Proof.
    induction fuel as [|f IH]; intros y r q Ry; cbn [preg gen_react_SimPersistent].
    - destruct y; reflexivity.
    - exact (gen_SimPersistent_register_eq (mkEnv lsub (gen_react_SimPersistent f lsub tm types) tm types) _ tm false q y r IH Ry).
  Qed.

  Theorem gen_SimPersistent_initialize_eq (E : genv) fuel tm x r :
    rel (fun y q => preg N fuel (e_lsub E) tm false y q) (e_react E) -> g_raised x = false ->
    er (pinit N fuel (e_lsub E) tm (emb SP x r)) = emb SP (gen_SimPersistent_initialize N E x) [].
  Proof.
    intros Hre R. unfold gen_SimPersistent_initialize, gen_SimPersistent__fire_initialized, py_fire_timed.
    apply pinit_emb; [exact Hre|reflexivity|reflexivity|exact R].
  Qed.

  Theorem gen_SimPersistent_super_EventBasedTimestampWeightedTally_notify_eq (E : genv) re tm ext e x r :
    rel re (e_react E) -> g_raised x = false ->
    er (eb_notify N KPersistent (e_lsub E) tm re ext (emb SP x r) e) = emb SP (gen_SimPersistent_super_EventBasedTimestampWeightedTally_notify N E x e) [].
  Proof.
    intros Hre R. destruct e as [ty c st]. destruct x as [s q t ra nf]. cbn [g_raised] in R. subst ra.
    unfold eb_notify, gen_SimPersistent_super_EventBasedTimestampWeightedTally_notify. cbv zeta. cbn [ne_type ne_content ne_stamp std_type].
    unfold py_is_event, py_is_timed_event, py_timestamp, py_content_is_int, py_content_is_tuple, py_content_len,
           py_is_number, py_float_ok. cbn [ne_stamp].
    destruct (etype_eqb ty ETTimestampData); destruct st as [ts|]; destruct (p_v c) as [v| | |] eqn:Hc;
      cbv beta iota zeta delta [py_then py_raise g_raised negb andb orb Nat.eqb];
      first [ reflexivity
            | pose proof (gen_SimPersistent_register_eq E re ts ext c (mkG s q t false nf) r Hre eq_refl) as H; rewrite Hc in H; exact H
            | eapply reg_body_refused; cbn [sreg g_state]; rewrite Hc; reflexivity ].

  Qed.

  Theorem gen_SimPersistent_end_observations_eq (E : genv) f tm x r :
    rel (fun y q => preg N f (e_lsub E) tm false y q) (e_react E) -> g_raised x = false ->
    er (pclose N (S f) (e_lsub E) tm (emb SP x r)) = emb SP (gen_SimPersistent_end_observations N E x (ONum tm)) [].
  Proof.
    intros Hre R. unfold pclose, gen_SimPersistent_end_observations. cbv zeta. cbn [Gen_SimStats.emb ps_state].
    apply pclose_tail.
    exact (gen_SimPersistent_register_eq E _ tm true (mkP CNotInt ONotNumber (ONum (ts_lastval (g_state x)))) x r Hre R).
  Qed.

  (* SimPersistent.notify: the dispatch on the event type.  Every event type is taken apart, so the order
     in which independent branches are written does not matter. *)
  Theorem gen_SimPersistent_notify_eq (E : genv) f e x r :
    rel (react N f (e_lsub E) (e_tm E)) (e_react E) -> g_raised x = false ->
    er (snotify N KPersistent f (e_lsub E) (e_types E) (e_tm E) (emb SP x r) e) = emb SP (gen_SimPersistent_notify N E x e) [].
  Proof.
    intros Hre R. destruct e as [ty c st]. unfold snotify, gen_SimPersistent_notify. cbv zeta.
    cbn [ne_type ne_content ne_stamp].
    destruct ty; cbn [etype_eqb];
      try (match goal with |- context [et_in ?a (e_types E)] => destruct (et_in a (e_types E)) end);
      unfold py_Event, py_TimedEvent, py_time_float;
      first [ reflexivity
            | exact (gen_SimPersistent_super_EventBasedTimestampWeightedTally_notify_eq E _ (e_tm E) true (mkSev ETTimestampData c None) x r Hre R)
            | exact (gen_SimPersistent_super_EventBasedTimestampWeightedTally_notify_eq E _ (e_tm E) true (mkSev ETTimestampData c (Some (e_tm E))) x r Hre R)
            | exact (gen_SimPersistent_super_EventBasedTimestampWeightedTally_notify_eq E _ (e_tm E) true (mkSev ETTimestampData c st) x r Hre R)
            | apply gen_SimPersistent_initialize_eq; [exact Hre|exact R]
            | apply gen_SimPersistent_end_observations_eq; [exact Hre|exact R]
            ].
  Qed.
End Persistent.

(* ====================================================================== *)
(* C. the model's dictionary and the constructors                          *)
(* ====================================================================== *)
Theorem gen_DSOLModel___init___eq d sm :
  gen_DSOLModel___init__ d sm = match sm with SimObj _ => DOk [] | NotSim => DExn CDSOLError d end.
Proof. destruct sm; reflexivity. Qed.

(* output_statistics() hands out the dictionary itself, not a copy *)
Theorem gen_DSOLModel_output_statistics_eq d : gen_DSOLModel_output_statistics d = DSelf.
Proof. reflexivity. Qed.

Lemma dict_set_fresh d k v : reg_get k d = None -> py_dict_set d k v = d ++ [(k, v)].
Proof.
  induction d as [|[k' v'] d IH]; cbn [reg_get py_dict_set app]; [reflexivity|].
  destruct (Nat.eqb k' k); [discriminate|]. intros H. rewrite IH; auto.
Qed.

Theorem gen_DSOLModel_add_output_statistic_eq d k st :
  gen_DSOLModel_add_output_statistic d k st = m_add_output_statistic d k st.
Proof.
  unfold gen_DSOLModel_add_output_statistic, m_add_output_statistic, py_dict_has, reg_add. cbv zeta.
  destruct (reg_get k d) eqn:G; destruct st as [sid|];
    cbv beta iota zeta delta [negb py_is_statistic py_stat_id andb orb d_then];
    rewrite ?dict_set_fresh by exact G; reflexivity.
Qed.

Theorem gen_DSOLModel_get_output_statistic_eq d k : gen_DSOLModel_get_output_statistic d k = reg_get k d.
Proof. reflexivity. Qed.

(* initialize: the dictionary is emptied -- through output_statistics() -- before construct_model runs *)
Theorem gen_Simulator_initialize__model_eq cm d :
  gen_Simulator_initialize__model cm d = m_initialize_model cm d.
Proof.
  unfold gen_Simulator_initialize__model, m_initialize_model. rewrite gen_DSOLModel_output_statistics_eq.
  cbn [py_dict_clear c_then]. destruct (cm []); reflexivity.
Qed.

Ltac ctor_cases :=
  repeat match goal with
         | k : pykey |- _ => destruct k
         | s : pysim |- _ => destruct s as [[|]|]
         | n : pynm |- _ => destruct n
         | p : pyprod |- _ => destruct p
         | e : pyetarg |- _ => destruct e
         end.

Theorem gen_EventBasedCounter___init___eq sid c nm : gen_EventBasedCounter___init__ sid c nm = py_plain_init KCounter nm c.
Proof. reflexivity. Qed.
Theorem gen_EventBasedTally___init___eq sid c nm : gen_EventBasedTally___init__ sid c nm = py_plain_init KTally nm c.
Proof. reflexivity. Qed.
Theorem gen_EventBasedWeightedTally___init___eq sid c nm :
  gen_EventBasedWeightedTally___init__ sid c nm = py_plain_init KWeighted nm c.
Proof. reflexivity. Qed.
Theorem gen_EventBasedTimestampWeightedTally___init___eq sid c nm :
  gen_EventBasedTimestampWeightedTally___init__ sid c nm = py_plain_init KPersistent nm c.
Proof. reflexivity. Qed.

Theorem gen_SimCounter_listen_to_eq sid c pr et : gen_SimCounter_listen_to sid c pr et = m_listen_to sid pr et c.
Proof. ctor_cases; reflexivity. Qed.
Theorem gen_SimTally_listen_to_eq sid c pr et : gen_SimTally_listen_to sid c pr et = m_listen_to sid pr et c.
Proof. ctor_cases; reflexivity. Qed.
Theorem gen_SimWeightedTally_listen_to_eq sid c pr et : gen_SimWeightedTally_listen_to sid c pr et = m_listen_to sid pr et c.
Proof. ctor_cases; reflexivity. Qed.
Theorem gen_SimPersistent_listen_to_eq sid c pr et : gen_SimPersistent_listen_to sid c pr et = m_listen_to sid pr et c.
Proof. ctor_cases; reflexivity. Qed.

(* subscriptions (WARMUP for all, END_REPLICATION for the persistent one, the data event at the
   producer), the attributes, the registration under the key -- in the order of the source *)
Ltac ctor_eq :=
  intros; ctor_cases;
  cbv -[gen_DSOLModel_add_output_statistic m_add_output_statistic add_sub set_add sub_mem reg_get reg_add];
  rewrite ?gen_DSOLModel_add_output_statistic_eq; reflexivity.

Theorem gen_SimCounter___init___eq sid c key nm sm pr et :
  gen_SimCounter___init__ sid c key nm sm pr et = m_ctor KCounter sid key nm sm pr et c.
Proof. ctor_eq. Qed.
Theorem gen_SimTally___init___eq sid c key nm sm pr et :
  gen_SimTally___init__ sid c key nm sm pr et = m_ctor KTally sid key nm sm pr et c.
Proof. ctor_eq. Qed.
Theorem gen_SimWeightedTally___init___eq sid c key nm sm pr et :
  gen_SimWeightedTally___init__ sid c key nm sm pr et = m_ctor KWeighted sid key nm sm pr et c.
Proof. ctor_eq. Qed.
Theorem gen_SimPersistent___init___eq sid c key nm sm pr et :
  gen_SimPersistent___init__ sid c key nm sm pr et = m_ctor KPersistent sid key nm sm pr et c.
Proof. ctor_eq. Qed.

(* the constructor / listen_to of the class a declaration names *)
Definition gen_ctor (k : skind) (sid : nat) (key : pykey) (nm : pynm) (sm : pysim) (pr : pyprod) (et : pyetarg)
           (c : cobj) : cres :=
  match k with
  | KCounter => gen_SimCounter___init__ sid c key nm sm pr et
  | KTally => gen_SimTally___init__ sid c key nm sm pr et
  | KWeighted => gen_SimWeightedTally___init__ sid c key nm sm pr et
  | KPersistent => gen_SimPersistent___init__ sid c key nm sm pr et
  end.
Definition gen_listen (k : skind) (sid : nat) (pr : pyprod) (et : pyetarg) (c : cobj) : cres :=
  match k with
  | KCounter => gen_SimCounter_listen_to sid c pr et
  | KTally => gen_SimTally_listen_to sid c pr et
  | KWeighted => gen_SimWeightedTally_listen_to sid c pr et
  | KPersistent => gen_SimPersistent_listen_to sid c pr et
  end.

Theorem gen_ctor_eq k sid key nm sm pr et c : gen_ctor k sid key nm sm pr et c = m_ctor k sid key nm sm pr et c.
Proof.
  destruct k; cbn [gen_ctor]; auto using gen_SimCounter___init___eq, gen_SimTally___init___eq,
    gen_SimWeightedTally___init___eq, gen_SimPersistent___init___eq.
Qed.
Theorem gen_listen_eq k sid pr et c : gen_listen k sid pr et c = m_listen_to sid pr et c.
Proof.
  destruct k; cbn [gen_listen]; auto using gen_SimCounter_listen_to_eq, gen_SimTally_listen_to_eq,
    gen_SimWeightedTally_listen_to_eq, gen_SimPersistent_listen_to_eq.
Qed.

(* construct_model with the generated constructors builds the tables of the model's *)
Section Build.
  Variable chan_et : nat -> etype.

  Lemma listen_all_ext k sid chs : forall c,
    listen_all chan_et (gen_listen k) sid chs c = listen_all chan_et (fun s p e c => m_listen_to s p e c) sid chs c.
  Proof.
    induction chs as [|ch r IH]; intros c; cbn [listen_all]; [reflexivity|].
    rewrite gen_listen_eq. destruct (m_listen_to sid ProdObj (EtObj (chan_et ch)) c); auto.
  Qed.

  Definition m_listen (k : skind) := fun s p e c => m_listen_to s p e c.

  Lemma gen_construct_eq c sid d :
    construct chan_et gen_ctor gen_listen c sid d = construct chan_et m_ctor m_listen c sid d.
  Proof.
    unfold construct. destruct (d_chans d) as [|ch r]; rewrite gen_ctor_eq; [reflexivity|].
    destruct (m_ctor _ _ _ _ _ _ _ _); [apply listen_all_ext|reflexivity].
  Qed.

  Lemma gen_build_from_eq ds : forall i c,
    build_from chan_et gen_ctor gen_listen i ds c = build_from chan_et m_ctor m_listen i ds c.
  Proof.
    induction ds as [|d r IH]; intros i c; cbn [build_from]; [reflexivity|].
    rewrite gen_construct_eq. destruct (construct chan_et m_ctor m_listen c i d); auto.
  Qed.
End Build.

(* ====================================================================== *)
(* D. the model read method by method is the model ([stat_run])            *)
(*    -- facts about Stats/SimStats.v alone                                *)
(* ====================================================================== *)
Lemma etype_eqb_eq a b : etype_eqb a b = true <-> a = b.
Proof.
  destruct a, b; cbn; split; intros H; try discriminate; try reflexivity;
    try (apply Nat.eqb_eq in H; subst; reflexivity); injection H as ->; apply Nat.eqb_refl.
Qed.
Lemma etype_eqb_refl a : etype_eqb a a = true.
Proof. apply etype_eqb_eq. reflexivity. Qed.
Lemma etype_eqb_sym a b : etype_eqb a b = etype_eqb b a.
Proof.
  destruct (etype_eqb a b) eqn:H.
  - apply etype_eqb_eq in H. subst. symmetry. apply etype_eqb_refl.
  - destruct (etype_eqb b a) eqn:H2; [|reflexivity]. apply etype_eqb_eq in H2. subst.
    rewrite etype_eqb_refl in H. discriminate.
Qed.

Lemma sub_mem_app e l t1 t2 : sub_mem e l (t1 ++ t2) = sub_mem e l t1 || sub_mem e l t2.
Proof. unfold sub_mem. apply existsb_app. Qed.

Lemma sub_mem_add e l e0 l0 t :
  sub_mem e l (add_sub e0 l0 t) = sub_mem e l t || (etype_eqb e0 e && Nat.eqb l0 l).
Proof.
  unfold add_sub. destruct (sub_mem e0 l0 t) eqn:M.
  - destruct (etype_eqb e0 e && Nat.eqb l0 l) eqn:Q; [|rewrite orb_false_r; reflexivity].
    apply andb_prop in Q. destruct Q as [Q1 Q2]. apply etype_eqb_eq in Q1. apply Nat.eqb_eq in Q2. subst.
    rewrite M. reflexivity.
  - rewrite sub_mem_app. cbn [sub_mem existsb fst snd]. rewrite orb_false_r. reflexivity.
Qed.

Lemma subs_of_app t1 t2 e : subs_of (t1 ++ t2) e = subs_of t1 e ++ subs_of t2 e.
Proof. unfold subs_of. rewrite filter_app, map_app. reflexivity. Qed.

Lemma subs_of_add e0 l t e :
  subs_of (add_sub e0 l t) e
  = subs_of t e ++ (if negb (sub_mem e0 l t) && etype_eqb e0 e then [l] else []).
Proof.
  unfold add_sub. destruct (sub_mem e0 l t); cbn [negb andb]; [rewrite app_nil_r; reflexivity|].
  rewrite subs_of_app. unfold subs_of at 2. cbn [filter fst]. destruct (etype_eqb e0 e); reflexivity.
Qed.

Section Tables.
  Variable chan_et : nat -> etype.
  Hypothesis chan_inj : forall a b, chan_et a = chan_et b -> a = b.

  Definition prod_after (chs : list nat) (i : nat) (t : ltable) : ltable :=
    fold_left (fun t ch => add_sub (chan_et ch) i t) chs t.
  Definition types_after (chs : list nat) (s : list etype) : list etype :=
    fold_left (fun s ch => set_add (chan_et ch) s) chs s.
  Definition sim_after (k : skind) (i : nat) (t : ltable) : ltable :=
    let s1 := add_sub ETWarmup i t in
    match k with KPersistent => add_sub ETEndRepl i s1 | _ => s1 end.
  Definition has_type (e : etype) (chs : list nat) : bool := existsb (fun ch => etype_eqb (chan_et ch) e) chs.

  Lemma has_type_chan c chs : has_type (chan_et c) chs = memn c chs.
  Proof.
    unfold has_type, memn. induction chs as [|ch r IH]; cbn [existsb]; [reflexivity|]. rewrite IH. f_equal.
    destruct (Nat.eqb_spec c ch) as [->|Hne]; [apply etype_eqb_refl|].
    destruct (etype_eqb (chan_et ch) (chan_et c)) eqn:Q; [|reflexivity].
    apply etype_eqb_eq, chan_inj in Q. congruence.
  Qed.

  Lemma subs_of_prod_after chs i e : forall t,
    subs_of (prod_after chs i t) e
    = subs_of t e ++ (if negb (sub_mem e i t) && has_type e chs then [i] else []).
  Proof.
    induction chs as [|ch r IH]; intros t; cbn [prod_after fold_left has_type existsb].
    - rewrite andb_false_r, app_nil_r. reflexivity.
    - change (fold_left _ r ?a) with (prod_after r i a). rewrite IH, subs_of_add, sub_mem_add, Nat.eqb_refl, andb_true_r.
      fold (has_type e r). rewrite <- app_assoc. f_equal.
      destruct (etype_eqb (chan_et ch) e) eqn:Q.
      + apply etype_eqb_eq in Q. rewrite Q. rewrite orb_true_r. cbn [negb andb orb app].
        destruct (sub_mem e i t); reflexivity.
      + rewrite orb_false_r, andb_false_r. cbn [orb app]. reflexivity.
  Qed.

  Lemma sub_mem_prod_after chs i e l : forall t,
    sub_mem e l (prod_after chs i t) = sub_mem e l t || (Nat.eqb i l && has_type e chs).
  Proof.
    induction chs as [|ch r IH]; intros t; cbn [prod_after fold_left has_type existsb].
    - rewrite andb_false_r, orb_false_r. reflexivity.
    - change (fold_left _ r ?a) with (prod_after r i a). rewrite IH, sub_mem_add. fold (has_type e r).
      destruct (sub_mem e l t), (etype_eqb (chan_et ch) e), (Nat.eqb i l), (has_type e r); reflexivity.
  Qed.

  Lemma et_in_app e s1 s2 : et_in e (s1 ++ s2) = et_in e s1 || et_in e s2.
  Proof. unfold et_in. apply existsb_app. Qed.

  Lemma et_in_types_after chs e : forall s, et_in e (types_after chs s) = et_in e s || has_type e chs.
  Proof.
    induction chs as [|ch r IH]; intros s; cbn [types_after fold_left has_type existsb].
    - rewrite orb_false_r. reflexivity.
    - change (fold_left _ r ?a) with (types_after r a). rewrite IH. fold (has_type e r). unfold set_add.
      destruct (et_in (chan_et ch) s) eqn:M.
      + destruct (etype_eqb (chan_et ch) e) eqn:Q; [|reflexivity].
        apply etype_eqb_eq in Q. subst. rewrite M. reflexivity.
      + rewrite et_in_app. cbn [et_in existsb]. rewrite orb_false_r, (etype_eqb_sym e), orb_assoc. reflexivity.
  Qed.

  (* what the constructor call(s) of the harness for one declaration do, for a fresh key *)
  Lemma listen_all_after sid chs : forall c,
    listen_all chan_et (m_listen KCounter) sid chs c
    = COk (mkCo (co_sim c) (prod_after chs sid (co_prod c)) (co_dict c) (types_after chs (co_types c))
                (co_key c) (co_plain c)).
  Proof.
    induction chs as [|ch r IH]; intros c; cbn [listen_all prod_after types_after fold_left].
    - destruct c; reflexivity.
    - unfold m_listen at 1. cbn [m_listen_to]. rewrite IH. reflexivity.
  Qed.

  Lemma construct_fresh c i d :
    reg_get (d_key d) (co_dict c) = None ->
    construct chan_et m_ctor m_listen c i d
    = COk (mkCo (sim_after (d_kind d) i (co_sim c)) (prod_after (d_chans d) i (co_prod c))
                (co_dict c ++ [(d_key d, i)]) (types_after (d_chans d) [std_type (d_kind d)])
                (Some (d_key d)) (Some (d_kind d))).
  Proof.
    intros G. unfold construct. destruct (d_chans d) as [|ch r].
    - unfold m_ctor, new_obj. cbn [co_sim co_prod co_dict co_set_dict]. unfold m_add_output_statistic, reg_add. rewrite G.
      cbn [co_set_dict co_sim co_prod co_types co_key co_plain prod_after types_after fold_left].
      unfold sim_after. destruct (d_kind d); reflexivity.
    - unfold m_ctor, new_obj. cbn [co_sim co_prod co_dict co_set_dict m_listen_to co_types co_key co_plain].
      unfold m_add_output_statistic, reg_add. rewrite G.
      cbn [co_set_dict co_sim co_prod co_types co_key co_plain co_dict].
      change (m_listen (d_kind d)) with (m_listen KCounter). rewrite listen_all_after.
      cbn [co_set_dict co_sim co_prod co_types co_key co_plain co_dict prod_after types_after fold_left].
      unfold sim_after. destruct (d_kind d); reflexivity.
  Qed.

  (* the listeners construct_model adds for the declarations [ds], numbered from [i] *)
  Fixpoint esubs_from (i : nat) (ds : list sdecl) (e : etype) : list nat :=
    match ds with
    | [] => []
    | d :: r => if has_type e (d_chans d) then i :: esubs_from (S i) r e else esubs_from (S i) r e
    end.
  Fixpoint sim_has (i : nat) (ds : list sdecl) (e : etype) (l : nat) : bool :=
    match ds with
    | [] => false
    | d :: r => (Nat.eqb i l && (etype_eqb ETWarmup e || (etype_eqb ETEndRepl e && skind_eqb (d_kind d) KPersistent)))
                || sim_has (S i) r e l
    end.

  Lemma esubs_from_chan ds c : forall i, esubs_from i ds (chan_et c) = chan_subs_from i ds c.
  Proof.
    induction ds as [|d r IH]; intros i; cbn [esubs_from chan_subs_from]; [reflexivity|].
    rewrite has_type_chan, IH. reflexivity.
  Qed.

  Definition below (i : nat) (t : ltable) : Prop := forall e l, i <= l -> sub_mem e l t = false.

  Lemma build_tables ds : forall i c,
    below i (co_prod c) -> NoDup (map fst (co_dict c) ++ map d_key ds) ->
    exists c', build_from chan_et m_ctor m_listen i ds c = COk c'
      /\ (forall e, subs_of (co_prod c') e = subs_of (co_prod c) e ++ esubs_from i ds e)
      /\ (forall e l, sub_mem e l (co_sim c') = sub_mem e l (co_sim c) || sim_has i ds e l)
      /\ reg_build_from i ds (co_dict c) = Some (co_dict c').
  Proof.
    induction ds as [|d r IH]; intros i c Hb ND; cbn [build_from esubs_from sim_has reg_build_from].
    - exists c. repeat split; intros; rewrite ?app_nil_r, ?orb_false_r; reflexivity.
    - assert (G : reg_get (d_key d) (co_dict c) = None).
      { cbn [map] in ND. apply NoDup_remove_2 in ND.
        assert (Hn : ~ In (d_key d) (map fst (co_dict c))) by (intros Hin; apply ND; apply in_or_app; left; auto).
        clear -Hn. induction (co_dict c) as [|[k' x] q IHq]; cbn [reg_get]; auto.
        cbn [map fst] in Hn. destruct (Nat.eqb_spec k' (d_key d)); [exfalso; apply Hn; left; auto|].
        apply IHq. intros H; apply Hn; right; auto. }
      rewrite (construct_fresh c i d G). unfold reg_add. rewrite G.
      set (c1 := mkCo _ _ _ _ _ _).
      destruct (IH (S i) c1) as (c' & B1 & B2 & B3 & B4).
      + intros e l Hl. cbn [c1 co_prod]. rewrite sub_mem_prod_after, Hb by lia.
        destruct (Nat.eqb_spec i l); [lia|reflexivity].
      + cbn [c1 co_dict]. rewrite map_app. cbn [map fst]. rewrite <- app_assoc. exact ND.
      + exists c'. split; [exact B1|]. split; [|split].
        * intros e. rewrite B2. cbn [c1 co_prod]. rewrite subs_of_prod_after, Hb by lia. cbn [negb andb].
          rewrite <- app_assoc. destruct (has_type e (d_chans d)); reflexivity.
        * intros e l. rewrite B3. cbn [c1 co_sim]. unfold sim_after.
          destruct (d_kind d); rewrite ?sub_mem_add; cbn [skind_eqb]; rewrite ?andb_false_r, ?andb_true_r, ?orb_false_r;
            destruct (sub_mem e l (co_sim c)), (Nat.eqb i l), (etype_eqb ETWarmup e), (etype_eqb ETEndRepl e),
                     (sim_has (S i) r e l); reflexivity.
        * exact B4.
  Qed.

  Lemma sim_has_nth ds e : forall i k d, nth_error ds k = Some d ->
    sim_has i ds e (i + k) = (etype_eqb ETWarmup e || (etype_eqb ETEndRepl e && skind_eqb (d_kind d) KPersistent)).
  Proof.
    assert (Hlt : forall ds i l, l < i -> sim_has i ds e l = false).
    { clear. induction ds as [|d r IH]; intros i l H; cbn [sim_has]; [reflexivity|].
      rewrite IH by lia. destruct (Nat.eqb_spec i l); [lia|reflexivity]. }
    induction ds as [|d0 r IH]; intros i k d Hk; [destruct k; discriminate|].
    destruct k as [|k]; cbn [nth_error] in Hk; cbn [sim_has].
    - injection Hk as ->. rewrite Nat.add_0_r, Nat.eqb_refl, Hlt by lia. cbn [andb]. rewrite orb_false_r. reflexivity.
    - destruct (Nat.eqb_spec i (i + S k)); [lia|]. cbn [andb orb].
      replace (i + S k) with (S i + k) by lia. apply IH, Hk.
  Qed.
End Tables.

Lemma memn_In x l : memn x l = true <-> In x l.
Proof.
  unfold memn. rewrite existsb_exists. split.
  - intros (y & Hy & E). apply Nat.eqb_eq in E. subst. exact Hy.
  - intros H. exists x. split; [exact H|apply Nat.eqb_refl].
Qed.

Lemma chan_subs_from_In ds c sid : forall i,
  In sid (chan_subs_from i ds c) -> exists k d, sid = i + k /\ nth_error ds k = Some d /\ memn c (d_chans d) = true.
Proof.
  induction ds as [|d r IH]; intros i H; cbn [chan_subs_from] in H; [destruct H|].
  destruct (memn c (d_chans d)) eqn:M.
  - destruct H as [<-|H].
    + exists 0, d. rewrite Nat.add_0_r. auto.
    + destruct (IH _ H) as (k & d' & -> & Hk & Hm). exists (S k), d'. split; [lia|auto].
  - destruct (IH _ H) as (k & d' & -> & Hk & Hm). exists (S k), d'. split; [lia|auto].
Qed.

Section ByMethodIsModel.
  Variable N : Num.
  Variable chan_et : nat -> etype.
  Hypothesis chan_inj : forall a b, chan_et a = chan_et b -> a = b.
  (* a channel of the model's producer is not one of the simulator's two events *)
  Hypothesis chan_data : forall c, etype_eqb (chan_et c) ETWarmup = false /\ etype_eqb (chan_et c) ETEndRepl = false.
  Variable cfg : list sdecl.
  Variable pl : list (payload N).
  Hypothesis keys : NoDup (map d_key cfg).

  Lemma recipients_In subs p sid : In sid (recipients N cfg subs p) -> In sid subs.
  Proof.
    induction subs as [|s r IH]; cbn [recipients]; [auto|].
    destruct (bad_for N (kind_at cfg s) p); cbn [In]; intuition.
  Qed.

  Lemma has_type_warm chs : has_type chan_et ETWarmup chs = false /\ has_type chan_et ETEndRepl chs = false.
  Proof.
    unfold has_type. induction chs as [|ch r [A B]]; cbn [existsb]; [auto|].
    destruct (chan_data ch) as [-> ->]. auto.
  Qed.

  Definition tables : cobj := res_obj (build_from chan_et m_ctor m_listen 0 cfg co_empty).
  Definition types_of (sid : nat) (d : sdecl) : list etype :=
    co_types (res_obj (construct chan_et m_ctor m_listen co_empty sid d)).

  Lemma tables_facts :
    (forall c, subs_of (co_prod tables) (chan_et c) = chan_subs cfg c)
    /\ (forall sid d e, nth_error cfg sid = Some d ->
          sub_mem e sid (co_sim tables) = (etype_eqb ETWarmup e || (etype_eqb ETEndRepl e && skind_eqb (d_kind d) KPersistent)))
    /\ reg_build cfg = Some (co_dict tables).
  Proof.
    destruct (build_tables chan_et cfg 0 co_empty) as (c' & B1 & B2 & B3 & B4).
    - intros e l _. reflexivity.
    - exact keys.
    - unfold tables. rewrite B1. cbn [res_obj]. split; [|split].
      + intros c. rewrite B2. cbn [co_empty co_prod subs_of filter map app]. apply esubs_from_chan, chan_inj.
      + intros sid d e Hd. rewrite B3. cbn [co_empty co_sim sub_mem existsb orb].
        exact (sim_has_nth cfg e 0 sid d Hd).
      + exact B4.
  Qed.

  Lemma types_of_eq sid d : types_of sid d = types_after chan_et (d_chans d) [std_type (d_kind d)].
  Proof. unfold types_of. rewrite construct_fresh; reflexivity. Qed.

  Lemma feed1_by_eq sid d x o :
    nth_error cfg sid = Some d -> kind_of N (ps_state x) = d_kind d ->
    feed1_by N chan_et cfg pl (snotify N) tables (types_of sid d) sid d x o = feed1 N cfg pl sid d x o.
  Proof.
    intros Hd Hk. destruct tables_facts as (T1 & T2 & _).
    unfold feed1_by, feed1. destruct (ps_raised x) eqn:R; [reflexivity|].
    rewrite types_of_eq.
    destruct o as [c v t|t|t]; cbn [ev_of ne_type ne_content ne_stamp otm ofuel].
    - rewrite T1. destruct (memn sid (recipients N cfg (chan_subs cfg c) (payload_of N pl v))) eqn:M; [|reflexivity].
      assert (Hc : memn c (d_chans d) = true).
      { apply memn_In, recipients_In in M. unfold chan_subs in M.
        destruct (chan_subs_from_In _ _ _ _ M) as (k & d' & -> & Hk' & Hm). cbn in Hd. congruence. }
      assert (Hx : snotify N (d_kind d) (pred FUELP) (d_lsub d) (types_after chan_et (d_chans d) [std_type (d_kind d)])
                     (tmf N t) x (mkSev (chan_et c) (payload_of N pl v) (Some (tmf N t)))
                   = preg N FUELP (d_lsub d) (tmf N t) true x (payload_of N pl v)).
      { unfold snotify. cbn [ne_type ne_content ne_stamp].
        rewrite et_in_types_after, (has_type_chan chan_et chan_inj), Hc, orb_true_r.
        destruct (d_kind d); try reflexivity. destruct (etype_eqb (chan_et c) ETTimestampData); reflexivity. }
      rewrite Hx. reflexivity.
    - rewrite (T2 sid d ETWarmup Hd). cbn [etype_eqb orb]. unfold snotify. cbn [ne_type ne_content ne_stamp].
      rewrite et_in_types_after. destruct (has_type_warm (d_chans d)) as [-> _].
      destruct (d_kind d); reflexivity.
    - rewrite (T2 sid d ETEndRepl Hd). cbn [etype_eqb orb andb]. unfold snotify. cbn [ne_type ne_content ne_stamp].
      rewrite et_in_types_after. destruct (has_type_warm (d_chans d)) as [_ ->].
      unfold pclose. destruct (d_kind d) eqn:K; cbn [skind_eqb std_type et_in existsb etype_eqb orb];
        try (destruct (ps_state x); cbn [kind_of] in Hk; try discriminate; reflexivity); reflexivity.
  Qed.

  (* the whole log: every entry is dispatched through the listener tables the constructors built
     and the notify method of the statistic's class *)
  Theorem stat_run_by_method sid d log :
    nth_error cfg sid = Some d ->
    stat_run_by N chan_et cfg pl m_ctor m_listen (snotify N) sid d log = stat_run N cfg pl sid d log.
  Proof.
    intros Hd. unfold stat_run_by, stat_run. fold tables. fold (types_of sid d).
    generalize (pst0_ok N pl d). generalize (pst0 N pl d).
    induction log as [|o r IH]; intros x H; cbn [fold_left]; [reflexivity|].
    rewrite feed1_by_eq; [|exact Hd|apply (po_kind N _ _ H)].
    apply IH. apply feed1_ok. exact H.
  Qed.

  (* and the dictionary: initialize empties it, construct_model fills it with the declared keys *)
  Theorem dict_by_method before :
    exists c, m_initialize_model (construct_model_by chan_et cfg m_ctor m_listen) before = COk c
              /\ reg_build cfg = Some (co_dict c).
  Proof.
    unfold m_initialize_model, construct_model_by. cbn [co_set_dict co_empty co_sim co_prod co_types co_key co_plain].
    destruct (build_tables chan_et cfg 0 co_empty) as (c' & B1 & B2 & B3 & B4).
    - intros e l _. reflexivity.
    - exact keys.
    - exists c'. split; [exact B1|exact B4].
  Qed.
End ByMethodIsModel.

(* ====================================================================== *)
(* E. a statistic fed a whole log by the GENERATED methods                 *)
(* ====================================================================== *)
Section GenRun.
  Variable N : Num.
  Variable S : Type.
  Variable inj : S -> sstate N.
  Variable k : skind.
  Variable s0 : S.
  Hypothesis s0_init : sinit N k = inj s0.
  (* notify of the class, with the subscriber's reaction at nesting budget f *)
  Variable gnote : nat -> list nat -> list etype -> F N -> gst N S -> sevent N -> gst N S.
  Hypothesis gnote_eq : forall f lsub types tm x r e, g_raised x = false ->
    er (snotify N k f lsub types tm (emb inj x r) e) = emb inj (gnote f lsub types tm x e) [].
  Variable chan_et : nat -> etype.
  Variable cfg : list sdecl.
  Variable pl : list (payload N).

  (* [feed1_by] on a generated object *)
  Definition gfeed1 (tb : cobj) (types : list etype) (sid : nat) (d : sdecl) (x : gst N S) (o : obsrec) : gst N S :=
    if g_raised x then x else
    let e := ev_of N chan_et pl o in
    let x1 := gnote (ofuel o) (d_lsub d) types (otm N o) x e in
    match o with
    | ObsV _ _ _ =>
        if memn sid (recipients N cfg (subs_of (co_prod tb) (ne_type e)) (ne_content e)) then
          if bad_for N k (ne_content e)
          then mkG (g_state x1) (g_q x1) (g_tr x1) (g_raised x) (g_nofuel x1)
          else x1
        else x
    | _ => if sub_mem (ne_type e) sid (co_sim tb) then x1 else x
    end.

  Lemma gfeed1_eq tb types sid d x r o :
    d_kind d = k ->
    er (feed1_by N chan_et cfg pl (snotify N) tb types sid d (emb inj x r) o) = emb inj (gfeed1 tb types sid d x o) [].
  Proof.
    intros K. unfold feed1_by, gfeed1. rewrite K.
    change (ps_raised (emb inj x r)) with (g_raised x).
    destruct (g_raised x) eqn:R; [reflexivity|]. cbv zeta.
    pose proof (gnote_eq (ofuel o) (d_lsub d) types (otm N o) x r (ev_of N chan_et pl o) R) as H.
    apply er_emb_inv in H. rewrite H.
    destruct o as [c v t|t|t]; cbn [ev_of ne_type ne_content].
    - destruct (memn sid _); [|reflexivity].
      destruct (bad_for N k (payload_of N pl v)); reflexivity.
    - destruct (sub_mem ETWarmup sid (co_sim tb)); reflexivity.
    - destruct (sub_mem ETEndRepl sid (co_sim tb)); reflexivity.
  Qed.

  Lemma gfold_eq tb types sid d log : d_kind d = k -> forall x r,
    er (fold_left (feed1_by N chan_et cfg pl (snotify N) tb types sid d) log (emb inj x r))
    = emb inj (fold_left (gfeed1 tb types sid d) log x) [].
  Proof.
    intros K. induction log as [|o rest IH]; intros x r; cbn [fold_left]; [reflexivity|].
    pose proof (gfeed1_eq tb types sid d x r o K) as H. apply er_emb_inv in H. rewrite H. apply IH.
  Qed.

  Definition gen_run (sid : nat) (d : sdecl) (log : list obsrec) : gst N S :=
    let tb := res_obj (build_from chan_et gen_ctor gen_listen 0 cfg co_empty) in
    let types := co_types (res_obj (construct chan_et gen_ctor gen_listen co_empty sid d)) in
    fold_left (gfeed1 tb types sid d) log (mkG s0 (react_of N pl d) [] false false).

  Hypothesis chan_inj : forall a b, chan_et a = chan_et b -> a = b.
  Hypothesis chan_data : forall c, etype_eqb (chan_et c) ETWarmup = false /\ etype_eqb (chan_et c) ETEndRepl = false.
  Hypothesis keys : NoDup (map d_key cfg).

  Theorem gen_run_eq sid d log :
    nth_error cfg sid = Some d -> d_kind d = k ->
    er (stat_run N cfg pl sid d log) = emb inj (gen_run sid d log) [].
  Proof.
    intros Hd K. rewrite <- (stat_run_by_method N chan_et chan_inj chan_data cfg pl keys sid d log Hd).
    unfold stat_run_by, gen_run. rewrite gen_build_from_eq, gen_construct_eq.
    assert (H0 : pst0 N pl d = emb inj (mkG s0 (react_of N pl d) [] false false) []).
    { unfold pst0. rewrite K, s0_init. reflexivity. }
    rewrite H0. apply gfold_eq, K.
  Qed.
End GenRun.

Section Whole.
  Variable N : Num.

  (* SimCounter.notify with the subscriber's reaction of nesting budget f *)
  Definition gnote_SimCounter (f : nat) (lsub : list nat) (types : list etype) (tm : F N) (x : gst N cstate) (e : sevent N)
    : gst N cstate :=
    gen_SimCounter_notify N (mkEnv lsub (gen_react_SimCounter N f lsub tm types) tm types) x e.
  Lemma gnote_SimCounter_eq f lsub types tm x r e : g_raised x = false ->
    er (snotify N KCounter f lsub types tm (emb SC x r) e) = emb SC (gnote_SimCounter f lsub types tm x e) [].
  Proof.
    intros R.
    exact (gen_SimCounter_notify_eq N (mkEnv lsub (gen_react_SimCounter N f lsub tm types) tm types) f e x r
             (gen_react_SimCounter_rel N f lsub tm types) R).
  Qed.
  Definition gen_stat_run_SimCounter chan_et cfg pl sid d log : gst N cstate :=
    gen_run N cstate KCounter cinit gnote_SimCounter chan_et cfg pl sid d log.

  (* SimTally.notify with the subscriber's reaction of nesting budget f *)
  Definition gnote_SimTally (f : nat) (lsub : list nat) (types : list etype) (tm : F N) (x : gst N (tstate N)) (e : sevent N)
    : gst N (tstate N) :=
    gen_SimTally_notify N (mkEnv lsub (gen_react_SimTally N f lsub tm types) tm types) x e.
  Lemma gnote_SimTally_eq f lsub types tm x r e : g_raised x = false ->
    er (snotify N KTally f lsub types tm (emb ST x r) e) = emb ST (gnote_SimTally f lsub types tm x e) [].
  Proof.
    intros R.
    exact (gen_SimTally_notify_eq N (mkEnv lsub (gen_react_SimTally N f lsub tm types) tm types) f e x r
             (gen_react_SimTally_rel N f lsub tm types) R).
  Qed.
  Definition gen_stat_run_SimTally chan_et cfg pl sid d log : gst N (tstate N) :=
    gen_run N (tstate N) KTally (tinit N) gnote_SimTally chan_et cfg pl sid d log.

  (* SimWeightedTally.notify with the subscriber's reaction of nesting budget f *)
  Definition gnote_SimWeightedTally (f : nat) (lsub : list nat) (types : list etype) (tm : F N) (x : gst N (wstate N)) (e : sevent N)
    : gst N (wstate N) :=
    gen_SimWeightedTally_notify N (mkEnv lsub (gen_react_SimWeightedTally N f lsub tm types) tm types) x e.
  Lemma gnote_SimWeightedTally_eq f lsub types tm x r e : g_raised x = false ->
    er (snotify N KWeighted f lsub types tm (emb SW x r) e) = emb SW (gnote_SimWeightedTally f lsub types tm x e) [].
  Proof.
    intros R.
    exact (gen_SimWeightedTally_notify_eq N (mkEnv lsub (gen_react_SimWeightedTally N f lsub tm types) tm types) f e x r
             (gen_react_SimWeightedTally_rel N f lsub tm types) R).
  Qed.
  Definition gen_stat_run_SimWeightedTally chan_et cfg pl sid d log : gst N (wstate N) :=
    gen_run N (wstate N) KWeighted (winit N) gnote_SimWeightedTally chan_et cfg pl sid d log.

  (* SimPersistent.notify with the subscriber's reaction of nesting budget f *)
  Definition gnote_SimPersistent (f : nat) (lsub : list nat) (types : list etype) (tm : F N) (x : gst N (tsstate N)) (e : sevent N)
    : gst N (tsstate N) :=
    gen_SimPersistent_notify N (mkEnv lsub (gen_react_SimPersistent N f lsub tm types) tm types) x e.
  Lemma gnote_SimPersistent_eq f lsub types tm x r e : g_raised x = false ->
    er (snotify N KPersistent f lsub types tm (emb SP x r) e) = emb SP (gnote_SimPersistent f lsub types tm x e) [].
  Proof.
    intros R.
    exact (gen_SimPersistent_notify_eq N (mkEnv lsub (gen_react_SimPersistent N f lsub tm types) tm types) f e x r
             (gen_react_SimPersistent_rel N f lsub tm types) R).
  Qed.
  Definition gen_stat_run_SimPersistent chan_et cfg pl sid d log : gst N (tsstate N) :=
    gen_run N (tsstate N) KPersistent (tsinit N) gnote_SimPersistent chan_et cfg pl sid d log.

  Variable chan_et : nat -> etype.
  Hypothesis chan_inj : forall a b, chan_et a = chan_et b -> a = b.
  Hypothesis chan_data : forall c, etype_eqb (chan_et c) ETWarmup = false /\ etype_eqb (chan_et c) ETEndRepl = false.
  Variable cfg : list sdecl.
  Variable pl : list (payload N).
  Hypothesis keys : NoDup (map d_key cfg).

  Theorem gen_stat_run_SimCounter_eq sid d log :
    nth_error cfg sid = Some d -> d_kind d = KCounter ->
    er (stat_run N cfg pl sid d log) = emb SC (gen_stat_run_SimCounter chan_et cfg pl sid d log) [].
  Proof.
    exact (gen_run_eq N _ SC KCounter cinit eq_refl gnote_SimCounter gnote_SimCounter_eq chan_et cfg pl chan_inj chan_data keys sid d log).
  Qed.

  Theorem gen_stat_run_SimTally_eq sid d log :
    nth_error cfg sid = Some d -> d_kind d = KTally ->
    er (stat_run N cfg pl sid d log) = emb ST (gen_stat_run_SimTally chan_et cfg pl sid d log) [].
  Proof.
    exact (gen_run_eq N _ ST KTally (tinit N) eq_refl gnote_SimTally gnote_SimTally_eq chan_et cfg pl chan_inj chan_data keys sid d log).
  Qed.

  Theorem gen_stat_run_SimWeightedTally_eq sid d log :
    nth_error cfg sid = Some d -> d_kind d = KWeighted ->
    er (stat_run N cfg pl sid d log) = emb SW (gen_stat_run_SimWeightedTally chan_et cfg pl sid d log) [].
  Proof.
    exact (gen_run_eq N _ SW KWeighted (winit N) eq_refl gnote_SimWeightedTally gnote_SimWeightedTally_eq chan_et cfg pl chan_inj chan_data keys sid d log).
  Qed.

  Theorem gen_stat_run_SimPersistent_eq sid d log :
    nth_error cfg sid = Some d -> d_kind d = KPersistent ->
    er (stat_run N cfg pl sid d log) = emb SP (gen_stat_run_SimPersistent chan_et cfg pl sid d log) [].
  Proof.
    exact (gen_run_eq N _ SP KPersistent (tsinit N) eq_refl gnote_SimPersistent gnote_SimPersistent_eq chan_et cfg pl chan_inj chan_data keys sid d log).
  Qed.

  (* one statement for the four kinds: state, pending reactions, deliveries, "raised" and "out of
     budget" of the statistic in the model are those of the object the generated methods produce *)
  Definition gen_view {S} (inj : S -> sstate N) (x : gst N S) :=
    (inj (g_state x), g_tr x, g_raised x, g_nofuel x).
  Definition pst_view (x : pst N) := (ps_state x, ps_tr x, ps_raised x, ps_nofuel x).

  Lemma view_of_er S (inj : S -> sstate N) (y : pst N) (g : gst N S) : er y = emb inj g [] -> pst_view y = gen_view inj g.
  Proof. intros H. apply er_emb_inv in H. rewrite H. reflexivity. Qed.

  Theorem gen_stat_run_eq sid d log :
    nth_error cfg sid = Some d ->
    pst_view (stat_run N cfg pl sid d log)
    = match d_kind d with
      | KCounter => gen_view SC (gen_stat_run_SimCounter chan_et cfg pl sid d log)
      | KTally => gen_view ST (gen_stat_run_SimTally chan_et cfg pl sid d log)
      | KWeighted => gen_view SW (gen_stat_run_SimWeightedTally chan_et cfg pl sid d log)
      | KPersistent => gen_view SP (gen_stat_run_SimPersistent chan_et cfg pl sid d log)
      end.
  Proof.
    intros Hd. destruct (d_kind d) eqn:K; apply view_of_er;
      auto using gen_stat_run_SimCounter_eq, gen_stat_run_SimTally_eq, gen_stat_run_SimWeightedTally_eq,
                 gen_stat_run_SimPersistent_eq.
  Qed.

  (* the dictionary after initialize, built by the generated methods *)
  Theorem gen_dict_eq before :
    exists c, gen_Simulator_initialize__model (construct_model_by chan_et cfg gen_ctor gen_listen) before = COk c
              /\ reg_build cfg = Some (co_dict c).
  Proof.
    rewrite gen_Simulator_initialize__model_eq. unfold m_initialize_model, construct_model_by.
    rewrite gen_build_from_eq. exact (dict_by_method chan_et cfg keys before).
  Qed.
End Whole.

(* ====================================================================== *)
(* F. the theorems of C11 about the generated methods                      *)
(* ====================================================================== *)
Section Transfer.
  Variable N : Num.
  Variable chan_et : nat -> etype.
  Hypothesis chan_inj : forall a b, chan_et a = chan_et b -> a = b.
  Hypothesis chan_data : forall c, etype_eqb (chan_et c) ETWarmup = false /\ etype_eqb (chan_et c) ETEndRepl = false.
  Variable cfg : list sdecl.
  Variable pl : list (payload N).
  Hypothesis keys : NoDup (map d_key cfg).

  Local Notation runC := (gen_stat_run_SimCounter N chan_et cfg pl).
  Local Notation runT := (gen_stat_run_SimTally N chan_et cfg pl).
  Local Notation runW := (gen_stat_run_SimWeightedTally N chan_et cfg pl).
  Local Notation runP := (gen_stat_run_SimPersistent N chan_et cfg pl).

  (* simstat_filtered *)
  Theorem gen_simstat_filtered sid d log :
    nth_error cfg sid = Some d -> no_reentry d ->
    let obs := filtered N cfg pl sid log in
    match d_kind d with
    | KCounter => g_raised (runC sid d log) = false ->
                  g_state (runC sid d log) = crun cinit (map (fun tp => CReg (p_c (snd tp))) obs)
    | KTally => g_raised (runT sid d log) = false ->
                g_state (runT sid d log) = trun N (tinit N) (map (fun tp => TReg (p_v (snd tp))) obs)
    | KWeighted => g_raised (runW sid d log) = false ->
                   g_state (runW sid d log) = wrun N (winit N) (map (fun tp => WReg (p_w (snd tp)) (p_v (snd tp))) obs)
    | KPersistent => True
    end.
  Proof.
    intros Hd Q. cbv zeta.
    pose proof (gen_stat_run_eq N chan_et chan_inj chan_data cfg pl keys sid d log Hd) as V.
    pose proof (simstat_filtered N cfg pl sid d log Q) as F. cbv zeta in F.
    unfold pst_view, gen_view in V.
    destruct (d_kind d); auto; intros R; injection V as V1 V2 V3 V4; rewrite V3 in F; specialize (F R);
      rewrite V1 in F; injection F as F; exact F.
  Qed.

  (* published_equals_getters *)
  Theorem gen_published_equals_getters sid d log :
    nth_error cfg sid = Some d ->
    Forall (pub_ok N) (match d_kind d with
                       | KCounter => g_tr (runC sid d log) | KTally => g_tr (runT sid d log)
                       | KWeighted => g_tr (runW sid d log) | KPersistent => g_tr (runP sid d log)
                       end).
  Proof.
    intros Hd.
    pose proof (gen_stat_run_eq N chan_et chan_inj chan_data cfg pl keys sid d log Hd) as V.
    pose proof (published_equals_getters N cfg pl sid d log) as P.
    unfold pst_view, gen_view in V. destruct (d_kind d); injection V as V1 V2 V3 V4; rewrite V2 in P; exact P.
  Qed.

  (* the subscriptions and the dictionary the generated constructors leave behind *)
  Theorem gen_subscriptions :
    let tb := res_obj (build_from chan_et gen_ctor gen_listen 0 cfg co_empty) in
    (forall sid d, nth_error cfg sid = Some d ->
       sub_mem ETWarmup sid (co_sim tb) = true
       /\ sub_mem ETEndRepl sid (co_sim tb) = skind_eqb (d_kind d) KPersistent)
    /\ (forall c, subs_of (co_prod tb) (chan_et c) = chan_subs cfg c).
  Proof.
    cbv zeta. rewrite gen_build_from_eq. fold (tables chan_et cfg).
    destruct (tables_facts chan_et chan_inj cfg keys) as (T1 & T2 & _). split; [|exact T1].
    intros sid d Hd. rewrite !(T2 sid d _ Hd). cbn [etype_eqb orb andb]. auto.
  Qed.

  Theorem gen_registered_under_key before :
    exists c, gen_Simulator_initialize__model (construct_model_by chan_et cfg gen_ctor gen_listen) before = COk c
      /\ length (co_dict c) = length cfg
      /\ forall sid d, nth_error cfg sid = Some d -> gen_DSOLModel_get_output_statistic (co_dict c) (d_key d) = Some sid.
  Proof.
    destruct (gen_dict_eq chan_et cfg keys before) as (c & Hc & Hr).
    destruct (registered_under_key cfg keys) as (r & Hr' & Hl & Hg).
    exists c. split; [exact Hc|]. rewrite Hr in Hr'. injection Hr' as <-. split; [exact Hl|].
    intros sid d Hd. rewrite gen_DSOLModel_get_output_statistic_eq. apply Hg, Hd.
  Qed.
End Transfer.

From Coq Require Import QArith.
From PV Require Import Stats.TallyProofs Stats.TimestampProofs.

Section TransferQ.
  Variable sq : Q -> Q.
  Local Notation NQ := (NumQ sq).
  Variable chan_et : nat -> etype.
  Hypothesis chan_inj : forall a b, chan_et a = chan_et b -> a = b.
  Hypothesis chan_data : forall c, etype_eqb (chan_et c) ETWarmup = false /\ etype_eqb (chan_et c) ETEndRepl = false.
  Variable cfg : list sdecl.
  Variable pl : list (payload NQ).
  Hypothesis keys : NoDup (map d_key cfg).

  (* persistent_closed_at_end *)
  Theorem gen_persistent_closed_at_end sid d log body T t0 v0 rest :
    nth_error cfg sid = Some d -> d_kind d = KPersistent -> no_reentry d ->
    let x := gen_stat_run_SimPersistent NQ chan_et cfg pl sid d log in
    g_raised x = false ->
    after_last_warm [] log = body ++ [ObsEnd T] -> only_obs body -> chrono (body ++ [ObsEnd T]) ->
    series sq cfg pl sid body = (t0, v0) :: rest ->
    let q := g_state x in
    ts_active q = false
    /\ wsw (ts_w q) == tq sq T - t0
    /\ gw_sum NQ (ts_w q) == integ_from t0 v0 rest (tq sq T)
    /\ (t0 < tq sq T -> res_is (gw_mean NQ (ts_w q)) (integ_from t0 v0 rest (tq sq T) / (tq sq T - t0)))
    /\ (tq sq T == t0 -> gw_mean NQ (ts_w q) = NaNres).
  Proof.
    intros Hd K Q. cbv zeta. intros R E OB CH SE.
    pose proof (gen_stat_run_SimPersistent_eq NQ chan_et chan_inj chan_data cfg pl keys sid d log Hd K) as V.
    apply er_emb_inv in V.
    assert (R' : ps_raised (stat_run NQ cfg pl sid d log) = false) by (rewrite V; exact R).
    destruct (persistent_closed_at_end sq cfg pl sid d log body T t0 v0 rest K Q R' E OB CH SE) as (q & Hq & A).
    rewrite V in Hq. cbn [Gen_SimStats.emb ps_state] in Hq. injection Hq as Hq. rewrite Hq. exact A.
  Qed.
End TransferQ.

(* ====================================================================== *)
(* G. summary                                                              *)
(* ====================================================================== *)
(* every translated publishing method is the model's function: register first and then the events
   one after the other, each payload the getter applied to the state at that moment ([fire_all]),
   the reset and INITIALIZED ([pinit]), closing ([pclose]), the checks of EventBased*.notify
   ([eb_notify]) and the dispatch of Sim*.notify on the event type ([snotify]) *)
Theorem simstats_publishing_agree (N : Num) :
  (* class EventBasedCounter *)
  (forall (E : genv N cstate) re p x r, react_rel N cstate SC re (e_react E) -> g_raised x = false ->
     er (fire_all N (e_lsub E) re p (emb SC x r)) = emb SC (gen_EventBasedCounter__fire_events N E x (p_c p)) []) /\
  (forall (E : genv N cstate) re tm ext p x r, react_rel N cstate SC re (e_react E) -> g_raised x = false ->
     er (reg_body N (e_lsub E) tm re ext (emb SC x r) p) = emb SC (gen_EventBasedCounter_register N E x (p_c p)) []) /\
  (forall (E : genv N cstate) fuel tm x r,
     react_rel N cstate SC (fun y q => preg N fuel (e_lsub E) tm false y q) (e_react E) -> g_raised x = false ->
     er (pinit N fuel (e_lsub E) tm (emb SC x r)) = emb SC (gen_EventBasedCounter_initialize N E x) []) /\
  (forall (E : genv N cstate) re tm ext e x r, react_rel N cstate SC re (e_react E) -> g_raised x = false ->
     er (eb_notify N KCounter (e_lsub E) tm re ext (emb SC x r) e) = emb SC (gen_EventBasedCounter_notify N E x e) []) /\
  (* class SimCounter *)
  (forall (E : genv N cstate) re p x r, react_rel N cstate SC re (e_react E) -> g_raised x = false ->
     er (fire_all N (e_lsub E) re p (emb SC x r)) = emb SC (gen_SimCounter__fire_events N E x (p_c p)) []) /\
  (forall (E : genv N cstate) re tm ext p x r, react_rel N cstate SC re (e_react E) -> g_raised x = false ->
     er (reg_body N (e_lsub E) tm re ext (emb SC x r) p) = emb SC (gen_SimCounter_register N E x (p_c p)) []) /\
  (forall (E : genv N cstate) fuel tm x r,
     react_rel N cstate SC (fun y q => preg N fuel (e_lsub E) tm false y q) (e_react E) -> g_raised x = false ->
     er (pinit N fuel (e_lsub E) tm (emb SC x r)) = emb SC (gen_SimCounter_initialize N E x) []) /\
  (forall (E : genv N cstate) re tm ext e x r, react_rel N cstate SC re (e_react E) -> g_raised x = false ->
     er (eb_notify N KCounter (e_lsub E) tm re ext (emb SC x r) e) = emb SC (gen_SimCounter_super_EventBasedCounter_notify N E x e) []) /\
  (forall (E : genv N cstate) f e x r,
     react_rel N cstate SC (react N f (e_lsub E) (e_tm E)) (e_react E) -> g_raised x = false ->
     er (snotify N KCounter f (e_lsub E) (e_types E) (e_tm E) (emb SC x r) e) = emb SC (gen_SimCounter_notify N E x e) []) /\
  (* class EventBasedTally *)
  (forall (E : genv N (tstate N)) re p x r, react_rel N (tstate N) ST re (e_react E) -> g_raised x = false ->
     er (fire_all N (e_lsub E) re p (emb ST x r)) = emb ST (gen_EventBasedTally__fire_events N E x (p_v p)) []) /\
  (forall (E : genv N (tstate N)) re tm ext p x r, react_rel N (tstate N) ST re (e_react E) -> g_raised x = false ->
     er (reg_body N (e_lsub E) tm re ext (emb ST x r) p) = emb ST (gen_EventBasedTally_register N E x (p_v p)) []) /\
  (forall (E : genv N (tstate N)) fuel tm x r,
     react_rel N (tstate N) ST (fun y q => preg N fuel (e_lsub E) tm false y q) (e_react E) -> g_raised x = false ->
     er (pinit N fuel (e_lsub E) tm (emb ST x r)) = emb ST (gen_EventBasedTally_initialize N E x) []) /\
  (forall (E : genv N (tstate N)) re tm ext e x r, react_rel N (tstate N) ST re (e_react E) -> g_raised x = false ->
     er (eb_notify N KTally (e_lsub E) tm re ext (emb ST x r) e) = emb ST (gen_EventBasedTally_notify N E x e) []) /\
  (* class SimTally *)
  (forall (E : genv N (tstate N)) re p x r, react_rel N (tstate N) ST re (e_react E) -> g_raised x = false ->
     er (fire_all N (e_lsub E) re p (emb ST x r)) = emb ST (gen_SimTally__fire_events N E x (p_v p)) []) /\
  (forall (E : genv N (tstate N)) re tm ext p x r, react_rel N (tstate N) ST re (e_react E) -> g_raised x = false ->
     er (reg_body N (e_lsub E) tm re ext (emb ST x r) p) = emb ST (gen_SimTally_register N E x (p_v p)) []) /\
  (forall (E : genv N (tstate N)) fuel tm x r,
     react_rel N (tstate N) ST (fun y q => preg N fuel (e_lsub E) tm false y q) (e_react E) -> g_raised x = false ->
     er (pinit N fuel (e_lsub E) tm (emb ST x r)) = emb ST (gen_SimTally_initialize N E x) []) /\
  (forall (E : genv N (tstate N)) re tm ext e x r, react_rel N (tstate N) ST re (e_react E) -> g_raised x = false ->
     er (eb_notify N KTally (e_lsub E) tm re ext (emb ST x r) e) = emb ST (gen_SimTally_super_EventBasedTally_notify N E x e) []) /\
  (forall (E : genv N (tstate N)) f e x r,
     react_rel N (tstate N) ST (react N f (e_lsub E) (e_tm E)) (e_react E) -> g_raised x = false ->
     er (snotify N KTally f (e_lsub E) (e_types E) (e_tm E) (emb ST x r) e) = emb ST (gen_SimTally_notify N E x e) []) /\
  (* class EventBasedWeightedTally *)
  (forall (E : genv N (wstate N)) re p x r, react_rel N (wstate N) SW re (e_react E) -> g_raised x = false ->
     er (fire_all N (e_lsub E) re p (emb SW x r)) = emb SW (gen_EventBasedWeightedTally__fire_events N E x (p_v p)) []) /\
  (forall (E : genv N (wstate N)) re tm ext p x r, react_rel N (wstate N) SW re (e_react E) -> g_raised x = false ->
     er (reg_body N (e_lsub E) tm re ext (emb SW x r) p) = emb SW (gen_EventBasedWeightedTally_register N E x (p_w p) (p_v p)) []) /\
  (forall (E : genv N (wstate N)) fuel tm x r,
     react_rel N (wstate N) SW (fun y q => preg N fuel (e_lsub E) tm false y q) (e_react E) -> g_raised x = false ->
     er (pinit N fuel (e_lsub E) tm (emb SW x r)) = emb SW (gen_EventBasedWeightedTally_initialize N E x) []) /\
  (forall (E : genv N (wstate N)) re tm ext e x r, react_rel N (wstate N) SW re (e_react E) -> g_raised x = false ->
     er (eb_notify N KWeighted (e_lsub E) tm re ext (emb SW x r) e) = emb SW (gen_EventBasedWeightedTally_notify N E x e) []) /\
  (* class SimWeightedTally *)
  (forall (E : genv N (wstate N)) re p x r, react_rel N (wstate N) SW re (e_react E) -> g_raised x = false ->
     er (fire_all N (e_lsub E) re p (emb SW x r)) = emb SW (gen_SimWeightedTally__fire_events N E x (p_v p)) []) /\
  (forall (E : genv N (wstate N)) re tm ext p x r, react_rel N (wstate N) SW re (e_react E) -> g_raised x = false ->
     er (reg_body N (e_lsub E) tm re ext (emb SW x r) p) = emb SW (gen_SimWeightedTally_register N E x (p_w p) (p_v p)) []) /\
  (forall (E : genv N (wstate N)) fuel tm x r,
     react_rel N (wstate N) SW (fun y q => preg N fuel (e_lsub E) tm false y q) (e_react E) -> g_raised x = false ->
     er (pinit N fuel (e_lsub E) tm (emb SW x r)) = emb SW (gen_SimWeightedTally_initialize N E x) []) /\
  (forall (E : genv N (wstate N)) re tm ext e x r, react_rel N (wstate N) SW re (e_react E) -> g_raised x = false ->
     er (eb_notify N KWeighted (e_lsub E) tm re ext (emb SW x r) e) = emb SW (gen_SimWeightedTally_super_EventBasedWeightedTally_notify N E x e) []) /\
  (forall (E : genv N (wstate N)) f e x r,
     react_rel N (wstate N) SW (react N f (e_lsub E) (e_tm E)) (e_react E) -> g_raised x = false ->
     er (snotify N KWeighted f (e_lsub E) (e_types E) (e_tm E) (emb SW x r) e) = emb SW (gen_SimWeightedTally_notify N E x e) []) /\
  (* class EventBasedTimestampWeightedTally *)
  (forall (E : genv N (tsstate N)) re p ts x r, react_rel N (tsstate N) SP re (e_react E) -> g_raised x = false ->
     er (fire_all N (e_lsub E) re p (emb SP x r)) = emb SP (gen_EventBasedTimestampWeightedTally__fire_events N E x ts (p_v p)) []) /\
  (forall (E : genv N (tsstate N)) re tm ext p x r, react_rel N (tsstate N) SP re (e_react E) -> g_raised x = false ->
     er (reg_body N (e_lsub E) tm re ext (emb SP x r) p) = emb SP (gen_EventBasedTimestampWeightedTally_register N E x (ONum tm) (p_v p)) []) /\
  (forall (E : genv N (tsstate N)) fuel tm x r,
     react_rel N (tsstate N) SP (fun y q => preg N fuel (e_lsub E) tm false y q) (e_react E) -> g_raised x = false ->
     er (pinit N fuel (e_lsub E) tm (emb SP x r)) = emb SP (gen_EventBasedTimestampWeightedTally_initialize N E x) []) /\
  (forall (E : genv N (tsstate N)) re tm ext e x r, react_rel N (tsstate N) SP re (e_react E) -> g_raised x = false ->
     er (eb_notify N KPersistent (e_lsub E) tm re ext (emb SP x r) e) = emb SP (gen_EventBasedTimestampWeightedTally_notify N E x e) []) /\
  (forall (E : genv N (tsstate N)) f tm x r,
     react_rel N (tsstate N) SP (fun y q => preg N f (e_lsub E) tm false y q) (e_react E) -> g_raised x = false ->
     er (pclose N (S f) (e_lsub E) tm (emb SP x r)) = emb SP (gen_EventBasedTimestampWeightedTally_end_observations N E x (ONum tm)) []) /\
  (* class SimPersistent *)
  (forall (E : genv N (tsstate N)) re p ts x r, react_rel N (tsstate N) SP re (e_react E) -> g_raised x = false ->
     er (fire_all N (e_lsub E) re p (emb SP x r)) = emb SP (gen_SimPersistent__fire_events N E x ts (p_v p)) []) /\
  (forall (E : genv N (tsstate N)) re tm ext p x r, react_rel N (tsstate N) SP re (e_react E) -> g_raised x = false ->
     er (reg_body N (e_lsub E) tm re ext (emb SP x r) p) = emb SP (gen_SimPersistent_register N E x (ONum tm) (p_v p)) []) /\
  (forall (E : genv N (tsstate N)) fuel tm x r,
     react_rel N (tsstate N) SP (fun y q => preg N fuel (e_lsub E) tm false y q) (e_react E) -> g_raised x = false ->
     er (pinit N fuel (e_lsub E) tm (emb SP x r)) = emb SP (gen_SimPersistent_initialize N E x) []) /\
  (forall (E : genv N (tsstate N)) re tm ext e x r, react_rel N (tsstate N) SP re (e_react E) -> g_raised x = false ->
     er (eb_notify N KPersistent (e_lsub E) tm re ext (emb SP x r) e) = emb SP (gen_SimPersistent_super_EventBasedTimestampWeightedTally_notify N E x e) []) /\
  (forall (E : genv N (tsstate N)) f tm x r,
     react_rel N (tsstate N) SP (fun y q => preg N f (e_lsub E) tm false y q) (e_react E) -> g_raised x = false ->
     er (pclose N (S f) (e_lsub E) tm (emb SP x r)) = emb SP (gen_SimPersistent_end_observations N E x (ONum tm)) []) /\
  (forall (E : genv N (tsstate N)) f e x r,
     react_rel N (tsstate N) SP (react N f (e_lsub E) (e_tm E)) (e_react E) -> g_raised x = false ->
     er (snotify N KPersistent f (e_lsub E) (e_types E) (e_tm E) (emb SP x r) e) = emb SP (gen_SimPersistent_notify N E x e) []).
Proof.
  repeat split.
  - exact (gen_EventBasedCounter__fire_events_eq N).
  - exact (gen_EventBasedCounter_register_eq N).
  - exact (gen_EventBasedCounter_initialize_eq N).
  - exact (gen_EventBasedCounter_notify_eq N).
  - exact (gen_SimCounter__fire_events_eq N).
  - exact (gen_SimCounter_register_eq N).
  - exact (gen_SimCounter_initialize_eq N).
  - exact (gen_SimCounter_super_EventBasedCounter_notify_eq N).
  - exact (gen_SimCounter_notify_eq N).
  - exact (gen_EventBasedTally__fire_events_eq N).
  - exact (gen_EventBasedTally_register_eq N).
  - exact (gen_EventBasedTally_initialize_eq N).
  - exact (gen_EventBasedTally_notify_eq N).
  - exact (gen_SimTally__fire_events_eq N).
  - exact (gen_SimTally_register_eq N).
  - exact (gen_SimTally_initialize_eq N).
  - exact (gen_SimTally_super_EventBasedTally_notify_eq N).
  - exact (gen_SimTally_notify_eq N).
  - exact (gen_EventBasedWeightedTally__fire_events_eq N).
  - exact (gen_EventBasedWeightedTally_register_eq N).
  - exact (gen_EventBasedWeightedTally_initialize_eq N).
  - exact (gen_EventBasedWeightedTally_notify_eq N).
  - exact (gen_SimWeightedTally__fire_events_eq N).
  - exact (gen_SimWeightedTally_register_eq N).
  - exact (gen_SimWeightedTally_initialize_eq N).
  - exact (gen_SimWeightedTally_super_EventBasedWeightedTally_notify_eq N).
  - exact (gen_SimWeightedTally_notify_eq N).
  - exact (gen_EventBasedTimestampWeightedTally__fire_events_eq N).
  - exact (gen_EventBasedTimestampWeightedTally_register_eq N).
  - exact (gen_EventBasedTimestampWeightedTally_initialize_eq N).
  - exact (gen_EventBasedTimestampWeightedTally_notify_eq N).
  - exact (gen_EventBasedTimestampWeightedTally_end_observations_eq N).
  - exact (gen_SimPersistent__fire_events_eq N).
  - exact (gen_SimPersistent_register_eq N).
  - exact (gen_SimPersistent_initialize_eq N).
  - exact (gen_SimPersistent_super_EventBasedTimestampWeightedTally_notify_eq N).
  - exact (gen_SimPersistent_end_observations_eq N).
  - exact (gen_SimPersistent_notify_eq N).
Qed.

(* constructors: subscriptions, attributes, registration under the key; the dictionary methods;
   initialize empties the dictionary through output_statistics() before construct_model *)
Theorem simstats_construction_agree :
  (forall k sid key nm sm pr et c, gen_ctor k sid key nm sm pr et c = m_ctor k sid key nm sm pr et c) /\
  (forall k sid pr et c, gen_listen k sid pr et c = m_listen_to sid pr et c) /\
  (forall d sm, gen_DSOLModel___init__ d sm = match sm with SimObj _ => DOk [] | NotSim => DExn CDSOLError d end) /\
  (forall d, gen_DSOLModel_output_statistics d = DSelf) /\
  (forall d k st, gen_DSOLModel_add_output_statistic d k st = m_add_output_statistic d k st) /\
  (forall d k, gen_DSOLModel_get_output_statistic d k = reg_get k d) /\
  (forall cm d, gen_Simulator_initialize__model cm d = cm []).
Proof.
  repeat split.
  - exact gen_ctor_eq.
  - exact gen_listen_eq.
  - exact gen_DSOLModel___init___eq.
  - exact gen_DSOLModel_add_output_statistic_eq.
  - exact gen_Simulator_initialize__model_eq.
Qed.
