(* C11 -- proofs about the simulation statistics model (Stats/SimStats.v).

   Part 1  a statistic in the simulation, for EVERY arithmetic instance and
           every subscriber program (re-entrant registrations included):
           - its state is the state of the ordinary statistic fed the
             operations performed on it since the last initialize,
           - every payload it publishes equals the getter applied to the state
             at the moment the subscriber is notified.
   Part 2  without re-entrant registrations: the operations are exactly the
           observations of the simulator's log delivered to the statistic;
           filtered by the warm-up marker; never reset when no marker.
   Part 3  the simulator's observation log (Sim/Model.v): chronological,
           inside the clock interval of every command; order of the executed
           events against an event that was pending all along (instantiated
           with the warm-up event: C02's order gives "after the warm-up event
           <-> time >= warm-up time" for priorities below the maximum).
   Part 4  the persistent: C10's time average from the first observation
           after the warm-up reset to the replication end.
   Part 5  the dictionary of output statistics. *)
From Coq Require Import ZArith QArith List Bool Lia Sorting.Sorted.
From PV Require Import EventList.Key EventList.KeyProofs Sim.Model Sim.Order Sim.Case.
From PV Require Import Stats.Num Stats.Tally Stats.Weighted Stats.Timestamp Stats.SimStats.
Import ListNotations.

(* ====================================================================== *)
(** * Part 1: one statistic, any arithmetic, any subscriber                 *)
(* ====================================================================== *)
Section Publisher.
  Variable N : Num.
  Local Notation F := (F N).
  Local Notation sstate := (sstate N).
  Local Notation payload := (payload N).
  Local Notation pst := (pst N).

  Definition ops_of (x : pst) : list (sop N) := rev (map snd (ps_regs x)).

  Lemma kind_sinit k : kind_of N (sinit N k) = k.
  Proof. destruct k; reflexivity. Qed.

  Lemma kind_sreg tm s p : kind_of N (state_of (sreg N tm s p)) = kind_of N s.
  Proof.
    destruct s as [c|t|w|q]; cbn [sreg].
    - destruct (cregister c (p_c p)); reflexivity.
    - destruct (tregister N t (p_v p)); reflexivity.
    - destruct (wregister N w (p_w p) (p_v p)); reflexivity.
    - destruct (tsregister N q (ONum tm) (p_v p)); reflexivity.
  Qed.

  Lemma kind_sclose s : kind_of N (sclose N s) = kind_of N s.
  Proof. destruct s; reflexivity. Qed.

  Lemma kind_sstep s op : kind_of N (sstep N s op) = kind_of N s.
  Proof.
    destruct op; cbn [sstep]; auto using kind_sreg, kind_sinit, kind_sclose.
  Qed.

  Lemma srun_app s a b : srun N s (a ++ b) = srun N (srun N s a) b.
  Proof. unfold srun. apply fold_left_app. Qed.

  Lemma kind_srun ops : forall s, kind_of N (srun N s ops) = kind_of N s.
  Proof.
    induction ops as [|op r IH]; intros s; [reflexivity|].
    change (srun N s (op :: r)) with (srun N (sstep N s op) r). rewrite IH. apply kind_sstep.
  Qed.

  (* the query behind a published event; OBSERVATION_ADDED has one only for
     the persistent (last_value), INITIALIZED carries the statistic itself *)
  Definition getter (s : sstate) (j : nat) : option (pval N) :=
    match j with
    | O => None
    | 1%nat => match s with SP q => Some (PVObsV (ONum (ts_lastval q))) | _ => None end
    | _ => Some (pubval N s (pl_default N) j)
    end.

  Definition pub_ok (r : pubrec N) : Prop :=
    match pr_j r with
    | O => pr_v r = PVSelf /\ pr_at r = sinit N (kind_of N (pr_at r))
    | S _ => forall g, getter (pr_at r) (pr_j r) = Some g -> pr_v r = g
    end.

  Lemma pubval_indep s p p' j : (2 <= j)%nat -> pubval N s p j = pubval N s p' j.
  Proof.
    intros H. destruct j as [|[|j]]; try lia.
    destruct s as [c|t|w|[w a b c d]]; reflexivity.
  Qed.

  (* the observation just registered is what last_value() answers *)
  Definition link (s : sstate) (p : payload) : Prop :=
    match s with SP q => p_v p = ONum (ts_lastval q) | _ => True end.

  Lemma tsregister_lastval q tm (o : pyarg F) q' :
    tsregister N q (ONum tm) o = Ok q' -> o = ONum (ts_lastval q').
  Proof.
    unfold tsregister. cbn [arg_not_number arg_isnan_exn arg_val].
    destruct o as [v| | |]; cbn [arg_not_number arg_isnan_exn arg_val]; try discriminate.
    - destruct (isnan v); [discriminate|]. destruct (isnan tm); [discriminate|].
      destruct (match ts_last q with Some l => ltb tm l | None => false end); [discriminate|].
      destruct ((match ts_last q with Some l => ltb l tm | None => true end) && ts_active q).
      + destruct (ts_start q).
        * destruct (wregister N (ts_w q) _ _); [|discriminate].
          intros H; injection H as <-. reflexivity.
        * intros H; injection H as <-. reflexivity.
      + intros H; injection H as <-. reflexivity.
  Qed.

  Lemma sreg_link tm s p s' : sreg N tm s p = Ok s' -> link s' p.
  Proof.
    destruct s as [c|t|w|q]; cbn [sreg]; intros H.
    - destruct (cregister c (p_c p)); cbn [omap] in H; [injection H as <-; exact I|discriminate].
    - destruct (tregister N t (p_v p)); cbn [omap] in H; [injection H as <-; exact I|discriminate].
    - destruct (wregister N w (p_w p) (p_v p)); cbn [omap] in H; [injection H as <-; exact I|discriminate].
    - destruct (tsregister N q (ONum tm) (p_v p)) as [q'|] eqn:E; cbn [omap] in H; [|discriminate].
      injection H as <-. cbn [link]. eapply tsregister_lastval; eauto.
  Qed.

  (* the invariant of a statistic in the simulation *)
  Record POk (k : skind) (x : pst) : Prop := mkPOk {
    po_tr : Forall pub_ok (ps_tr x);
    po_kind : kind_of N (ps_state x) = k;
    po_run : ps_state x = srun N (sinit N k) (ops_of x)
  }.

  Lemma POk_raised k x : POk k x -> POk k (set_raised N x).
  Proof. intros [A B C]. constructor; auto. Qed.

  Lemma POk_nofuel k x : POk k x -> POk k (set_nofuel N x).
  Proof. intros [A B C]. constructor; auto. Qed.

  Lemma POk_setq k x q r f : POk k x ->
    POk k (mkPst (ps_state x) q (ps_tr x) (ps_regs x) r f).
  Proof. intros [A B C]. constructor; auto. Qed.

  (* performing one more operation *)
  Lemma POk_step k x b op s' :
    POk k x -> s' = sstep N (ps_state x) op ->
    POk k (set_state N s' (log_op N (b, op) x)).
  Proof.
    intros [A B C] ->. constructor; cbn [set_state log_op ps_tr ps_state ps_regs]; auto.
    - rewrite kind_sstep. exact B.
    - unfold ops_of. cbn [ps_regs set_state log_op map snd rev]. rewrite srun_app. fold (ops_of x). rewrite <- C. reflexivity.
  Qed.

  Section Pub.
    Variable k : skind.
    Variable lsub : list nat.
    Variable tm : F.
    Variable reenter : pst -> payload -> pst.
    Hypothesis reenter_ok : forall y q, POk k y -> POk k (reenter y q).

    Lemma deliver_ok j v x :
      POk k x -> pub_ok (mkPub j v (ps_state x)) -> POk k (deliver N reenter j v x).
    Proof.
      intros [A B C] Hr. unfold deliver. cbn [ps_q ps_state ps_tr ps_regs ps_raised ps_nofuel].
      assert (P1 : forall q, POk k (mkPst (ps_state x) q (mkPub j v (ps_state x) :: ps_tr x)
                                          (ps_regs x) (ps_raised x) (ps_nofuel x))).
      { intros q. constructor; cbn [ps_tr ps_state]; auto. }
      destruct (ps_q x) as [|[p|] q]; auto.
    Qed.

    Lemma fire_one_ok p x j :
      POk k x -> ((2 <= j)%nat \/ (j = 1%nat /\ link (ps_state x) p)) -> POk k (fire_one N lsub reenter p x j).
    Proof.
      intros H Hj. unfold fire_one. destruct (ps_raised x); auto.
      destruct (pv_raises N (pubval N (ps_state x) p j)); [apply POk_raised; auto|].
      destruct (memn j lsub); auto. apply deliver_ok; auto.
      unfold pub_ok. cbn [pr_j pr_v pr_at].
      destruct Hj as [Hj|[-> L]].
      - destruct j as [|[|j]]; try lia. intros g Hg. cbn [getter] in Hg. injection Hg as <-.
        apply pubval_indep. lia.
      - intros g Hg. cbn [getter] in Hg. destruct (ps_state x) as [c|t|w|q]; try discriminate.
        injection Hg as <-. cbn [link] in L. destruct q as [w a b c d]. cbn [pubval]. rewrite L. reflexivity.
    Qed.

    Lemma fold_fire_ok p js : forall x,
      POk k x -> Forall (fun j => (2 <= j)%nat) js -> POk k (fold_left (fire_one N lsub reenter p) js x).
    Proof.
      induction js as [|j r IH]; intros x H Hj; [exact H|]. cbn [fold_left].
      inversion Hj; subst. apply IH; auto. apply fire_one_ok; auto.
    Qed.

    Lemma seq_ge a n : Forall (fun j => (a <= j)%nat) (seq a n).
    Proof.
      revert a. induction n as [|n IH]; intros a; cbn [seq]; constructor; [lia|].
      eapply Forall_impl; [|apply IH]. cbn. intros; lia.
    Qed.

    Lemma fire_all_ok p x : POk k x -> link (ps_state x) p -> POk k (fire_all N lsub reenter p x).
    Proof.
      intros H L. unfold fire_all.
      assert (E : exists n, nevents (kind_of N (ps_state x)) = S n) by (destruct (kind_of N (ps_state x)); eexists; reflexivity).
      destruct E as [n ->]. cbn [seq fold_left].
      apply fold_fire_ok; [apply fire_one_ok; auto|apply seq_ge].
    Qed.

    Lemma reg_body_ok ext x p : POk k x -> POk k (reg_body N lsub tm reenter ext x p).
    Proof.
      intros H. unfold reg_body. cbn [log_op ps_state].
      destruct (sreg N tm (ps_state x) p) as [s'|e s'] eqn:E.
      - assert (H1 : POk k (set_state N s' (log_op N (ext, SReg tm p) x))).
        { apply POk_step; auto. cbn [sstep]. rewrite E. reflexivity. }
        assert (H2 : POk k (fire_all N lsub reenter p (set_state N s' (log_op N (ext, SReg tm p) x)))).
        { apply fire_all_ok; auto. cbn [set_state ps_state]. eapply sreg_link; eauto. }
        destruct lsub; auto.
      - apply POk_raised. apply POk_step; auto. cbn [sstep]. rewrite E. reflexivity.
    Qed.
  End Pub.

  Lemma preg_ok k fuel : forall lsub tm ext x p, POk k x -> POk k (preg N fuel lsub tm ext x p).
  Proof.
    induction fuel as [|f IH]; intros lsub tm ext x p H; cbn [preg].
    - apply POk_nofuel; auto.
    - apply reg_body_ok; auto.
  Qed.

  Lemma pinit_ok k fuel lsub tm x : POk k x -> POk k (pinit N fuel lsub tm x).
  Proof.
    intros H. unfold pinit.
    assert (H1 : POk k (set_state N (sinit N (kind_of N (ps_state x))) (log_op N (true, SInit) x))).
    { apply POk_step; auto. }
    destruct (memn EV_INIT lsub); auto.
    apply deliver_ok with (k := k); auto.
    - intros; apply preg_ok; auto.
    - unfold pub_ok. cbn [pr_j pr_v pr_at EV_INIT set_state ps_state]. split; [reflexivity|].
      rewrite kind_sinit. reflexivity.
  Qed.

  Lemma pclose_ok k fuel lsub tm x : POk k x -> POk k (pclose N fuel lsub tm x).
  Proof.
    intros H. unfold pclose. destruct (ps_state x) as [c|t|w|q] eqn:E; auto.
    set (x1 := preg N fuel lsub tm true x _).
    assert (H1 : POk k x1) by (apply preg_ok; auto).
    destruct (ps_raised x1); auto. apply POk_step; auto.
  Qed.

  Section Fed.
    Variable cfg : list sdecl.
    Variable pl : list payload.

    Lemma pst0_ok d : POk (d_kind d) (pst0 N pl d).
    Proof.
      constructor; cbn [pst0 ps_tr ps_state]; auto using kind_sinit.
    Qed.

    Lemma feed1_ok sid d x o : POk (d_kind d) x -> POk (d_kind d) (feed1 N cfg pl sid d x o).
    Proof.
      intros H. unfold feed1. destruct (ps_raised x) eqn:R; auto.
      destruct o as [c v t|t|t]; auto using pinit_ok, pclose_ok.
      destruct (memn sid _); auto.
      pose proof (preg_ok (d_kind d) FUELP (d_lsub d) (tmf N t) true x (payload_of N pl v) H) as H1.
      destruct (bad_for N (d_kind d) (payload_of N pl v)); auto.
      apply POk_setq; auto.
    Qed.

    Lemma stat_run_ok sid d log : POk (d_kind d) (stat_run N cfg pl sid d log).
    Proof.
      unfold stat_run. generalize (pst0_ok d). generalize (pst0 N pl d).
      induction log as [|o r IH]; intros x H; cbn [fold_left]; auto using feed1_ok.
    Qed.
  End Fed.

  (* ---- operations since the last initialize ---- *)
  Fixpoint after_last_init (acc : list (sop N)) (ops : list (sop N)) : list (sop N) :=
    match ops with
    | [] => acc
    | SInit :: r => after_last_init [] r
    | op :: r => after_last_init (acc ++ [op]) r
    end.

  Lemma srun_after_last_init ops : forall acc s,
    srun N s (acc ++ ops) = srun N (if existsb (fun o => match o with SInit => true | _ => false end) ops
                                     then sinit N (kind_of N s) else s)
                                 (if existsb (fun o => match o with SInit => true | _ => false end) ops
                                  then after_last_init [] ops else acc ++ after_last_init [] ops)
    /\ after_last_init acc ops =
       (if existsb (fun o => match o with SInit => true | _ => false end) ops
        then after_last_init [] ops else acc ++ after_last_init [] ops).
  Proof.
    induction ops as [|op r IH]; intros acc s.
    - cbn [existsb after_last_init]. rewrite !app_nil_r. auto.
    - destruct op as [tm p| |].
      + cbn [existsb after_last_init orb app].
        destruct (IH (acc ++ [SReg tm p]) s) as [A B]. destruct (IH [SReg tm p] s) as [A' B'].
        rewrite <- app_assoc in A. cbn [app] in A.
        destruct (existsb _ r); [rewrite B, B'; auto|].
        rewrite B, B', A. rewrite <- !app_assoc. auto.
      + cbn [existsb after_last_init orb].
        destruct (IH [] (sinit N (kind_of N s))) as [A B]. cbn [app] in A.
        split; [|reflexivity].
        rewrite srun_app. change (srun N (srun N s acc) (SInit :: r)) with (srun N (sinit N (kind_of N (srun N s acc))) r).
        rewrite kind_srun, A, kind_sinit.
        destruct (existsb _ r); reflexivity.
      + cbn [existsb after_last_init orb app].
        destruct (IH (acc ++ [SClose]) s) as [A B]. destruct (IH [SClose] s) as [A' B'].
        rewrite <- app_assoc in A. cbn [app] in A.
        destruct (existsb _ r); [rewrite B, B'; auto|].
        rewrite B, B', A. rewrite <- !app_assoc. auto.
  Qed.

  Lemma srun_since_init k ops :
    srun N (sinit N k) ops = srun N (sinit N k) (after_last_init [] ops).
  Proof.
    destruct (srun_after_last_init ops [] (sinit N k)) as [A _]. cbn [app] in A.
    rewrite A, kind_sinit. destruct (existsb _ ops); reflexivity.
  Qed.

  (* ---- the ordinary statistics of C09 / C10 fed these operations ---- *)
  Definition cops (ops : list (sop N)) : list cop :=
    flat_map (fun o => match o with SReg _ p => [CReg (p_c p)] | SInit => [Tally.CInit] | SClose => [] end) ops.
  Definition tops (ops : list (sop N)) : list (top N) :=
    flat_map (fun o => match o with SReg _ p => [TReg (p_v p)] | SInit => [TInit] | SClose => [] end) ops.
  Definition wops (ops : list (sop N)) : list (wop N) :=
    flat_map (fun o => match o with SReg _ p => [WReg (p_w p) (p_v p)] | SInit => [WInit] | SClose => [] end) ops.

  Lemma srun_counter ops : forall c, srun N (SC c) ops = SC (crun c (cops ops)).
  Proof.
    induction ops as [|op r IH]; intros c; [reflexivity|].
    change (srun N (SC c) (op :: r)) with (srun N (sstep N (SC c) op) r).
    destruct op as [tm p| |]; cbn [sstep sreg kind_of sinit sclose cops flat_map app].
    - destruct (cregister c (p_c p)) eqn:E; cbn [omap state_of]; rewrite IH; cbn [crun cstep]; rewrite E; reflexivity.
    - rewrite IH. reflexivity.
    - rewrite IH. reflexivity.
  Qed.

  Lemma srun_tally ops : forall t, srun N (ST t) ops = ST (trun N t (tops ops)).
  Proof.
    induction ops as [|op r IH]; intros t; [reflexivity|].
    change (srun N (ST t) (op :: r)) with (srun N (sstep N (ST t) op) r).
    destruct op as [tm p| |]; cbn [sstep sreg kind_of sinit sclose tops flat_map app].
    - destruct (tregister N t (p_v p)) eqn:E; cbn [omap state_of]; rewrite IH; cbn [trun tstep]; rewrite E; reflexivity.
    - rewrite IH. reflexivity.
    - rewrite IH. reflexivity.
  Qed.

  Lemma srun_weighted ops : forall w, srun N (SW w) ops = SW (wrun N w (wops ops)).
  Proof.
    induction ops as [|op r IH]; intros w; [reflexivity|].
    change (srun N (SW w) (op :: r)) with (srun N (sstep N (SW w) op) r).
    destruct op as [tm p| |]; cbn [sstep sreg kind_of sinit sclose wops flat_map app].
    - destruct (wregister N w (p_w p) (p_v p)) eqn:E; cbn [omap state_of]; rewrite IH; cbn [wrun wstep]; rewrite E; reflexivity.
    - rewrite IH. reflexivity.
    - rewrite IH. reflexivity.
  Qed.

  (** The state of a simulation statistic is the state of the ordinary
      statistic fed the operations performed on it since the last initialize
      (data events delivered to it, registrations its subscriber made from
      inside a notification) -- whatever the subscriber does. *)
  Theorem simstat_state_is_plain_run cfg pl sid d log :
    let x := stat_run N cfg pl sid d log in
    let ops := after_last_init [] (ops_of x) in
    ps_state x = srun N (sinit N (d_kind d)) ops /\
    match d_kind d with
    | KCounter => ps_state x = SC (crun cinit (cops ops))
    | KTally => ps_state x = ST (trun N (tinit N) (tops ops))
    | KWeighted => ps_state x = SW (wrun N (winit N) (wops ops))
    | KPersistent => True
    end.
  Proof.
    cbv zeta. pose proof (stat_run_ok cfg pl sid d log) as [_ _ R].
    rewrite srun_since_init in R. split; [exact R|].
    destruct (d_kind d); cbn [sinit] in R; auto.
    - rewrite R. apply srun_counter.
    - rewrite R. apply srun_tally.
    - rewrite R. apply srun_weighted.
  Qed.

  (** Every payload a statistic publishes equals the getter applied to the
      state at the moment the subscriber is notified -- also when the
      subscriber registers further observations from inside notify. *)
  Theorem published_equals_getters cfg pl sid d log :
    Forall pub_ok (ps_tr (stat_run N cfg pl sid d log)).
  Proof. apply (po_tr _ _ (stat_run_ok cfg pl sid d log)). Qed.
End Publisher.

(* ====================================================================== *)
(** * Part 2: a subscriber that does not re-enter                           *)
(* ====================================================================== *)
Section Quiet.
  Variable N : Num.
  Local Notation F := (F N).
  Local Notation sstate := (sstate N).
  Local Notation payload := (payload N).
  Local Notation pst := (pst N).
  Variable cfg : list sdecl.
  Variable pl : list payload.

  (* no reaction registers anything *)
  Definition quiet (x : pst) : Prop := Forall (fun r => r = None) (ps_q x).

  (* what a notification leaves untouched *)
  Definition SameSt (x y : pst) : Prop :=
    ps_state y = ps_state x /\ ps_regs y = ps_regs x /\ quiet y.

  Lemma deliver_quiet reenter j v x : quiet x -> SameSt x (deliver N reenter j v x).
  Proof.
    intros Q. unfold deliver, SameSt, quiet in *. cbn [ps_q ps_state ps_tr ps_regs ps_raised ps_nofuel].
    destruct (ps_q x) as [|[p|] q]; cbn [ps_q ps_state ps_regs]; auto.
    - inversion Q; discriminate.
    - inversion Q; auto.
  Qed.

  Lemma fire_one_quiet lsub reenter p x j : quiet x -> SameSt x (fire_one N lsub reenter p x j).
  Proof.
    intros Q. unfold fire_one. destruct (ps_raised x); [repeat split; auto|].
    destruct (pv_raises N _); [repeat split; auto|].
    destruct (memn j lsub); [apply deliver_quiet; auto|repeat split; auto].
  Qed.

  Lemma fold_fire_quiet lsub reenter p js : forall x,
    quiet x -> SameSt x (fold_left (fire_one N lsub reenter p) js x).
  Proof.
    induction js as [|j r IH]; intros x Q; cbn [fold_left]; [repeat split; auto|].
    destruct (fire_one_quiet lsub reenter p x j Q) as (A & B & C).
    destruct (IH _ C) as (A' & B' & C'). repeat split; auto; congruence.
  Qed.

  Lemma reg_body_quiet lsub tm reenter ext x p :
    quiet x ->
    let y := reg_body N lsub tm reenter ext x p in
    ps_state y = state_of (sreg N tm (ps_state x) p) /\ quiet y
    /\ ps_regs y = (ext, SReg tm p) :: ps_regs x
    /\ (ps_raised y = false -> exists s', sreg N tm (ps_state x) p = Ok s').
  Proof.
    intros Q. cbv zeta. unfold reg_body. cbn [log_op ps_state].
    destruct (sreg N tm (ps_state x) p) as [s'|e s'] eqn:E; cbn [state_of].
    - assert (Q1 : quiet (set_state N s' (log_op N (ext, SReg tm p) x))) by exact Q.
      destruct lsub as [|a l].
      + cbn [set_state log_op ps_state ps_regs]. repeat split; eauto.
      + destruct (fold_fire_quiet (a :: l) reenter p
                   (seq 1 (nevents (kind_of N (ps_state (set_state N s' (log_op N (ext, SReg tm p) x))))))
                   _ Q1) as (A & B & C).
        unfold fire_all. rewrite A, B. cbn [set_state log_op ps_state ps_regs]. repeat split; eauto.
    - cbn [set_raised set_state log_op ps_state ps_regs ps_raised]. repeat split; auto. discriminate.
  Qed.

  (* the ordinary statistic fed one entry of the simulator's log *)
  Definition plain_feed (sid : nat) (s : sstate) (o : obsrec) : sstate :=
    match o with
    | ObsV c v t =>
        if memn sid (recipients N cfg (chan_subs cfg c) (payload_of N pl v))
        then state_of (sreg N (tmf N t) s (payload_of N pl v)) else s
    | ObsWarm _ => sinit N (kind_of N s)
    | ObsEnd t =>
        match s with
        | SP q => SP (state_of (ts_end N q (ONum (tmf N t))))
        | _ => s
        end
    end.

  Lemma feed1_quiet sid d x o :
    quiet x -> quiet (feed1 N cfg pl sid d x o)
    /\ (ps_raised (feed1 N cfg pl sid d x o) = false ->
        ps_raised x = false /\ ps_state (feed1 N cfg pl sid d x o) = plain_feed sid (ps_state x) o).
  Proof.
    intros Q. unfold feed1. destruct (ps_raised x) eqn:R; cbv iota; [split; [exact Q|intros; congruence]|].
    destruct o as [c v t|t|t].
    - cbn [plain_feed]. destruct (memn sid _); [|split; auto].
      change (preg N FUELP (d_lsub d) (tmf N t) true x (payload_of N pl v))
        with (reg_body N (d_lsub d) (tmf N t)
                (fun y q => preg N 63 (d_lsub d) (tmf N t) false y q) true x (payload_of N pl v)).
      destruct (reg_body_quiet (d_lsub d) (tmf N t)
                  (fun y q => preg N 63 (d_lsub d) (tmf N t) false y q) true x (payload_of N pl v) Q)
        as (A & B & _ & _).
      destruct (bad_for N (d_kind d) (payload_of N pl v)); split; auto.
    - cbn [plain_feed]. unfold pinit.
      set (x1 := set_state N _ _).
      assert (Q1 : quiet x1) by exact Q.
      destruct (memn EV_INIT (d_lsub d)).
      + destruct (deliver_quiet (fun y q => preg N FUELP (d_lsub d) (tmf N t) false y q) EV_INIT PVSelf x1 Q1)
          as (A & B & C).
        split; [exact C|]. intros _. split; [reflexivity|exact A].
      + split; [exact Q1|]. intros _. split; reflexivity.
    - cbn [plain_feed]. unfold pclose. destruct (ps_state x) as [c|tt|w|q] eqn:E; try (split; auto; fail).
      set (pp := mkP CNotInt ONotNumber (ONum (ts_lastval q))).
      change (preg N FUELP (d_lsub d) (tmf N t) true x pp)
        with (reg_body N (d_lsub d) (tmf N t)
                (fun y q => preg N 63 (d_lsub d) (tmf N t) false y q) true x pp).
      destruct (reg_body_quiet (d_lsub d) (tmf N t)
                  (fun y q => preg N 63 (d_lsub d) (tmf N t) false y q) true x pp Q)
        as (A & B & _ & D).
      set (x1 := reg_body N _ _ _ _ _ _) in *.
      destruct (ps_raised x1) eqn:R1; cbv iota; [split; [exact B|intros; congruence]|].
      split; [exact B|]. intros _. split; [reflexivity|].
      cbn [set_state log_op ps_state]. rewrite A. destruct (D eq_refl) as [s' Es]. rewrite E in Es |- *.
      cbn [sreg pp p_v] in Es |- *. unfold ts_end.
      destruct (tsregister N q (ONum (tmf N t)) (ONum (ts_lastval q))) as [q'|k q']; cbn [omap] in Es; [|discriminate].
      reflexivity.
  Qed.

  Lemma fold_feed_quiet sid d log : forall x,
    quiet x -> ps_raised (fold_left (feed1 N cfg pl sid d) log x) = false ->
    ps_raised x = false
    /\ ps_state (fold_left (feed1 N cfg pl sid d) log x) = fold_left (plain_feed sid) log (ps_state x).
  Proof.
    induction log as [|o r IH]; intros x Q R; cbn [fold_left] in *; [auto|].
    destruct (feed1_quiet sid d x o Q) as [Q1 H1].
    destruct (IH _ Q1 R) as [R1 E]. destruct (H1 R1) as [R0 E0]. split; auto. rewrite E, E0. reflexivity.
  Qed.

  (* a declared subscriber without registering reactions *)
  Definition no_reentry (d : sdecl) : Prop := Forall (fun r => r = None) (d_react d).

  Lemma pst0_quiet d : no_reentry d -> quiet (pst0 N pl d).
  Proof.
    unfold no_reentry, quiet, pst0, react_of. cbn [ps_q]. induction 1; cbn [map]; constructor; auto.
    subst. reflexivity.
  Qed.

  (** Without re-entrant registrations (and no exception escaping), the
      statistic in the simulation is in the state of the ordinary statistic
      fed the simulator's observation log entry by entry. *)
  Theorem stat_run_is_plain_fold sid d log :
    no_reentry d -> ps_raised (stat_run N cfg pl sid d log) = false ->
    ps_state (stat_run N cfg pl sid d log) = fold_left (plain_feed sid) log (sinit N (d_kind d)).
  Proof.
    intros Q R. unfold stat_run in *.
    destruct (fold_feed_quiet sid d log _ (pst0_quiet d Q) R) as [_ E]. exact E.
  Qed.

  (* ---- the log after the last warm-up marker ---- *)
  Fixpoint after_last_warm (acc : list obsrec) (log : list obsrec) : list obsrec :=
    match log with
    | [] => acc
    | ObsWarm _ :: r => after_last_warm [] r
    | o :: r => after_last_warm (acc ++ [o]) r
    end.

  Definition has_warm (log : list obsrec) : bool :=
    existsb (fun o => match o with ObsWarm _ => true | _ => false end) log.

  Lemma plain_fold_kind sid log : forall s, kind_of N (fold_left (plain_feed sid) log s) = kind_of N s.
  Proof.
    induction log as [|o r IH]; intros s; [reflexivity|]. cbn [fold_left]. rewrite IH.
    destruct o as [c v t|t|t]; cbn [plain_feed].
    - destruct (memn sid _); auto using kind_sreg.
    - apply kind_sinit.
    - destruct s as [c|tt|w|q]; reflexivity.
  Qed.

  Lemma plain_fold_after_warm sid log : forall acc s,
    fold_left (plain_feed sid) (acc ++ log) s =
    fold_left (plain_feed sid) (after_last_warm acc log)
              (if has_warm log then sinit N (kind_of N s) else s).
  Proof.
    induction log as [|o r IH]; intros acc s.
    - cbn [after_last_warm has_warm existsb]. rewrite app_nil_r. reflexivity.
    - destruct o as [c v t|t|t].
      + cbn [after_last_warm has_warm existsb orb].
        replace (acc ++ ObsV c v t :: r) with ((acc ++ [ObsV c v t]) ++ r) by (rewrite <- app_assoc; reflexivity).
        apply IH.
      + cbn [after_last_warm has_warm existsb orb].
        rewrite fold_left_app. cbn [fold_left plain_feed].
        rewrite (IH [] _). cbn [app]. rewrite kind_sinit, plain_fold_kind.
        fold (has_warm r). destruct (has_warm r); reflexivity.
      + cbn [after_last_warm has_warm existsb orb].
        replace (acc ++ ObsEnd t :: r) with ((acc ++ [ObsEnd t]) ++ r) by (rewrite <- app_assoc; reflexivity).
        apply IH.
  Qed.

  Lemma after_last_warm_no_warm log : forall acc,
    has_warm acc = false -> has_warm (after_last_warm acc log) = false.
  Proof.
    induction log as [|o r IH]; intros acc H; cbn [after_last_warm]; auto.
    destruct o; try (apply IH; auto).
    - unfold has_warm in *. rewrite existsb_app, H. reflexivity.
    - unfold has_warm in *. rewrite existsb_app, H. reflexivity.
  Qed.

  (* the observations of a log delivered to statistic [sid] *)
  Definition delivered (sid : nat) (log : list obsrec) : list (Z * payload) :=
    flat_map (fun o => match o with
                       | ObsV c v t =>
                           if memn sid (recipients N cfg (chan_subs cfg c) (payload_of N pl v))
                           then [(t, payload_of N pl v)] else []
                       | _ => []
                       end) log.

  (* "the observations made after the warm-up event in the trace" *)
  Definition filtered (sid : nat) (log : list obsrec) : list (Z * payload) :=
    delivered sid (after_last_warm [] log).

  Lemma plain_fold_no_warm_counter sid log : forall c,
    has_warm log = false ->
    fold_left (plain_feed sid) log (SC c) = SC (crun c (map (fun tp => CReg (p_c (snd tp))) (delivered sid log))).
  Proof.
    induction log as [|o r IH]; intros c H; [reflexivity|].
    destruct o as [ch v t|t|t]; cbn [has_warm existsb orb] in H; try discriminate; fold (has_warm r) in H.
    - cbn [fold_left plain_feed delivered flat_map]. fold (delivered sid r).
      destruct (memn sid _); cbn [app map snd]; [|apply IH; auto].
      cbn [sreg]. destruct (cregister c (p_c (payload_of N pl v))) eqn:E; cbn [omap state_of];
        rewrite IH; auto; cbn [crun cstep]; rewrite E; reflexivity.
    - cbn [fold_left plain_feed delivered flat_map app]. apply IH; auto.
  Qed.

  Lemma plain_fold_no_warm_tally sid log : forall s,
    has_warm log = false ->
    fold_left (plain_feed sid) log (ST s) = ST (trun N s (map (fun tp => TReg (p_v (snd tp))) (delivered sid log))).
  Proof.
    induction log as [|o r IH]; intros s H; [reflexivity|].
    destruct o as [ch v t|t|t]; cbn [has_warm existsb orb] in H; try discriminate; fold (has_warm r) in H.
    - cbn [fold_left plain_feed delivered flat_map]. fold (delivered sid r).
      destruct (memn sid _); cbn [app map snd]; [|apply IH; auto].
      cbn [sreg]. destruct (tregister N s (p_v (payload_of N pl v))) eqn:E; cbn [omap state_of];
        rewrite IH; auto; cbn [trun tstep]; rewrite E; reflexivity.
    - cbn [fold_left plain_feed delivered flat_map app]. apply IH; auto.
  Qed.

  Lemma plain_fold_no_warm_weighted sid log : forall s,
    has_warm log = false ->
    fold_left (plain_feed sid) log (SW s)
    = SW (wrun N s (map (fun tp => WReg (p_w (snd tp)) (p_v (snd tp))) (delivered sid log))).
  Proof.
    induction log as [|o r IH]; intros s H; [reflexivity|].
    destruct o as [ch v t|t|t]; cbn [has_warm existsb orb] in H; try discriminate; fold (has_warm r) in H.
    - cbn [fold_left plain_feed delivered flat_map]. fold (delivered sid r).
      destruct (memn sid _); cbn [app map snd]; [|apply IH; auto].
      cbn [sreg]. destruct (wregister N s (p_w (payload_of N pl v)) (p_v (payload_of N pl v))) eqn:E;
        cbn [omap state_of]; rewrite IH; auto; cbn [wrun wstep]; rewrite E; reflexivity.
    - cbn [fold_left plain_feed delivered flat_map app]. apply IH; auto.
  Qed.

  (** simstat_filtered: a simulation counter / tally / weighted tally is in
      exactly the state of the ordinary statistic fed the observations made
      after the (last) warm-up event in the trace. *)
  Theorem simstat_filtered sid d log :
    no_reentry d -> ps_raised (stat_run N cfg pl sid d log) = false ->
    let obs := filtered sid log in
    match d_kind d with
    | KCounter => ps_state (stat_run N cfg pl sid d log)
                  = SC (crun cinit (map (fun tp => CReg (p_c (snd tp))) obs))
    | KTally => ps_state (stat_run N cfg pl sid d log)
                = ST (trun N (tinit N) (map (fun tp => TReg (p_v (snd tp))) obs))
    | KWeighted => ps_state (stat_run N cfg pl sid d log)
                   = SW (wrun N (winit N) (map (fun tp => WReg (p_w (snd tp)) (p_v (snd tp))) obs))
    | KPersistent => True
    end.
  Proof.
    intros Q R. cbv zeta. rewrite (stat_run_is_plain_fold sid d log Q R).
    pose proof (plain_fold_after_warm sid log [] (sinit N (d_kind d))) as E. cbn [app] in E.
    rewrite E, kind_sinit.
    assert (W : has_warm (after_last_warm [] log) = false) by (apply after_last_warm_no_warm; reflexivity).
    unfold filtered.
    destruct (d_kind d); cbn [sinit]; auto.
    - destruct (has_warm log); apply plain_fold_no_warm_counter; auto.
    - destruct (has_warm log); apply plain_fold_no_warm_tally; auto.
    - destruct (has_warm log); apply plain_fold_no_warm_weighted; auto.
  Qed.

  (** warmup_not_reached_no_reset: while the warm-up event has not run,
      nothing is discarded: every delivered observation counts. *)
  Theorem warmup_not_reached_no_reset sid log :
    has_warm log = false -> filtered sid log = delivered sid log.
  Proof.
    intros H. unfold filtered. f_equal.
    assert (G : forall l acc, has_warm l = false -> after_last_warm acc l = acc ++ l).
    { induction l as [|o r IH]; intros acc Hl; cbn [after_last_warm]; [rewrite app_nil_r; reflexivity|].
      destruct o; cbn [has_warm existsb orb] in Hl; try discriminate; fold (has_warm r) in Hl;
        rewrite IH; auto; rewrite <- app_assoc; reflexivity. }
    apply (G log []). exact H.
  Qed.
End Quiet.

(* ====================================================================== *)
(** * Part 3: the simulator's observation log and the order of execution    *)
(* ====================================================================== *)
Local Open Scope Z_scope.

Definition otime (o : obsrec) : Z := match o with ObsV _ _ t => t | ObsWarm t => t | ObsEnd t => t end.
Definition olater (a b : obsrec) : Prop := otime b <= otime a.

(* [s'] extends the observation log of [s] (newest first) by entries whose
   times lie between the two clocks and do not decrease *)
Definition ObsExt (s s' : sim) : Prop :=
  clock s <= clock s' /\
  exists new, obs s' = new ++ obs s
    /\ Forall (fun o => clock s <= otime o <= clock s') new
    /\ StronglySorted olater new.

Lemma ObsExt_refl s : ObsExt s s.
Proof. split; [lia|]. exists []. repeat split; constructor. Qed.

Lemma ObsExt_trans a b c : ObsExt a b -> ObsExt b c -> ObsExt a c.
Proof.
  intros [L1 [n1 [E1 [F1 S1]]]] [L2 [n2 [E2 [F2 S2]]]]. split; [lia|].
  exists (n2 ++ n1). split; [rewrite E2, E1, app_assoc; reflexivity|]. split.
  - apply Forall_app. split; eapply Forall_impl; try eassumption; cbn; intros; lia.
  - apply sorted_app; auto. intros x y Hx Hy. unfold olater.
    rewrite Forall_forall in F1, F2. specialize (F1 _ Hy). specialize (F2 _ Hx). lia.
Qed.

Lemma ObsExt_same s t : obs t = obs s -> clock s <= clock t -> ObsExt s t.
Proof. intros E L. split; auto. exists []. repeat split; auto; constructor. Qed.

(* new entries all carrying one time *)
Definition ObsAt (tm : Z) (s s' : sim) : Prop :=
  exists new, obs s' = new ++ obs s /\ Forall (fun o => otime o = tm) new.

Lemma ObsAt_refl tm s : ObsAt tm s s.
Proof. exists []. split; auto. Qed.

Lemma ObsAt_trans tm a b c : ObsAt tm a b -> ObsAt tm b c -> ObsAt tm a c.
Proof.
  intros [n1 [E1 F1]] [n2 [E2 F2]]. exists (n2 ++ n1). split.
  - rewrite E2, E1, app_assoc. reflexivity.
  - apply Forall_app; auto.
Qed.

Lemma const_sorted tm l : Forall (fun o => otime o = tm) l -> StronglySorted olater l.
Proof.
  induction 1 as [|x r Hx Hr IH]; constructor; auto.
  rewrite Forall_forall in *. intros y Hy. unfold olater. rewrite Hx, (Hr y Hy). lia.
Qed.

Lemma ObsAt_Ext s s' : ObsAt (clock s') s s' -> clock s <= clock s' -> ObsExt s s'.
Proof.
  intros [new [E F]] L. split; auto. exists new. split; auto. split.
  - eapply Forall_impl; [|exact F]. cbn. intros o Ho. lia.
  - eapply const_sorted; eauto.
Qed.

Lemma exec_action_obs md s a : ObsAt (clock s) s (fst (exec_action md s a)).
Proof.
  destruct a as [m prio h|k| |c|sid v]; cbn [exec_action fst].
  - unfold do_sched. destruct (sched_time s m); exists []; split; auto.
  - unfold do_cancel. destruct (nth_error (created s) k); [|apply ObsAt_refl].
    destruct (ev_mem e (pend s)); exists []; split; auto.
  - apply ObsAt_refl.
  - unfold inner_cmd. destruct md; try (exists []; split; auto; fail);
      destruct c; destruct (running s); exists []; split; auto.
  - exists [ObsV sid v (clock s)]. split; auto.
Qed.

Lemma exec_actions_obs md acts : forall s, ObsAt (clock s) s (fst (exec_actions md s acts)).
Proof.
  induction acts as [|a r IH]; intros s; cbn [exec_actions].
  - apply ObsAt_refl.
  - pose proof (exec_action_obs md s a) as H1.
    pose proof (fr_clock _ _ (hs_frame _ _ (exec_action_hstep md s a))) as C.
    destruct (exec_action md s a) as [s1 failed]. cbn [fst] in *.
    destruct failed; cbn [fst]; [exact H1|].
    eapply ObsAt_trans; [exact H1|]. rewrite <- C. apply IH.
Qed.

Lemma exec_event_obs md p s e : ObsAt (clock s) s (fst (exec_event md p s e)).
Proof.
  unfold exec_event. destruct (ev_h e).
  - cbn [fst]. exists [ObsWarm (clock s)]. split; auto.
  - pose proof (exec_actions_obs md (body p h) (set_trace ((e, clock s) :: trace s) s)) as H. exact H.
Qed.

Lemma take_event_obs p s e r : ObsAt (ev_time e) s (take_event p s e r).
Proof.
  unfold take_event.
  set (s2 := set_clock (ev_time e) _).
  pose proof (exec_event_obs InRun p s2 e) as H.
  destruct (exec_event InRun p s2 e) as [s3 failed]. cbn [fst] in H.
  assert (E2 : obs s2 = obs s) by (unfold s2; destruct (ev_time e =? clock (set_pend r s)); reflexivity).
  assert (C2 : clock s2 = ev_time e) by reflexivity.
  destruct H as [new [E F]]. rewrite C2 in F. rewrite E2 in E.
  destruct failed; [destruct (strat s3)|]; exists new; split; auto.
Qed.

Lemma step_event_obs p s e r : ObsAt (ev_time e) s (step_event p s e r).
Proof.
  unfold step_event.
  set (b := set_clock (ev_time e) _).
  pose proof (exec_event_obs InStep p b e) as H. exact H.
Qed.

Lemma took_obsext s e r s' :
  Inv s -> pend s = e :: r -> Took s e r s' -> ObsAt (ev_time e) s s' -> ObsExt s s'.
Proof.
  intros HI Hp T H. pose proof (took_clock _ _ _ _ T) as C.
  pose proof (inv_ge _ HI) as G. rewrite Hp in G. inversion G; subst.
  apply ObsAt_Ext; [rewrite C; exact H|rewrite C; auto].
Qed.

Lemma runs_obsext p s evs s' : runs p s evs s' -> Inv s -> ObsExt s s'.
Proof.
  induction 1 as [s|s e r evs s' R Hp B H IH]; intros HI; [apply ObsExt_refl|].
  pose proof (take_event_took p s e r Hp) as T.
  eapply ObsExt_trans; [eapply took_obsext; eauto using take_event_obs|].
  apply IH. apply (tk_inv _ _ _ _ T HI).
Qed.

Lemma run_loop_obsext p fuel s : Inv s -> clock s <= bound s -> ObsExt s (run_loop fuel p s).
Proof.
  intros HI L. destruct (run_loop_runs p fuel s) as [evs [s1 [R X]]].
  pose proof (runs_obsext _ _ _ _ R HI) as E1.
  pose proof (runs_facts _ _ _ _ R) as RF.
  eapply ObsExt_trans; [exact E1|].
  destruct X as [_ ->|_ _ ->|_ ->].
  - apply ObsExt_refl.
  - destruct (rf_bound _ _ _ RF) as (Bd & _). pose proof (rf_clock _ _ _ RF L) as C.
    unfold stop_at_bound. apply ObsExt_same.
    + destruct (bound s1 >=? end_time s1); reflexivity.
    + destruct (bound s1 >=? end_time s1); cbn [clock set_rs set_ps set_clock]; lia.
  - apply ObsExt_same; [reflexivity|cbn [raise_flag set_flag clock]; lia].
Qed.

Lemma worker_ending_obsext s : ObsExt s (worker_ending s).
Proof.
  unfold worker_ending. destruct (ps s); try apply ObsExt_refl.
  split; [cbn; lia|]. exists [ObsEnd (clock s)]. cbn [obs clock set_worker set_obs emit set_ntfs set_rs set_ps app].
  repeat split; [constructor; [cbn; lia|constructor]|constructor; constructor].
Qed.

Lemma worker_run_obsext p fuel s : Inv s -> clock s <= bound s -> ObsExt s (worker_run fuel p s).
Proof.
  intros HI L. unfold worker_run. destruct (worker s); try apply ObsExt_refl.
  eapply ObsExt_trans; [|apply worker_ending_obsext].
  destruct (ps s); try apply ObsExt_refl;
    (eapply ObsExt_trans; [|apply ObsExt_same; [reflexivity|cbn [clock set_rs emit set_ntfs]; lia]];
     eapply ObsExt_trans; [|apply run_loop_obsext;
       [eapply CoreClk_Inv; [|exact HI]; unfold CoreClk, core_eq; cbn; auto 20|cbn; exact L]];
     apply ObsExt_same; [reflexivity|cbn; lia]).
Qed.

Lemma do_start_obsext p fuel s b i : Inv s -> ObsExt s (fst (do_start fuel p s b i)).
Proof.
  intros HI. unfold do_start. destruct (start_checks s) eqn:Ck; [|apply ObsExt_refl].
  destruct b as [bz|]; [|apply ObsExt_refl].
  destruct (Z.ltb_spec bz (clock s)); [apply ObsExt_refl|].
  pose proof (start_checks_clock s Ck) as Le.
  destruct (Z.gtb_spec bz (end_time s)); cbn [fst].
  - eapply ObsExt_trans; [|apply worker_run_obsext].
    + ssimpl; destruct (ps s); apply ObsExt_same; ssimpl; auto; lia.
    + eapply CoreClk_Inv; [|exact HI]. ssimpl. destruct (ps s); coreclk.
    + ssimpl. destruct (ps s); ssimpl; lia.
  - eapply ObsExt_trans; [|apply worker_run_obsext].
    + ssimpl; destruct (ps s); apply ObsExt_same; ssimpl; auto; lia.
    + eapply CoreClk_Inv; [|exact HI]. ssimpl. destruct (ps s); coreclk.
    + ssimpl. destruct (ps s); ssimpl; lia.
Qed.

Lemma do_step_obsext p s : Inv s -> ObsExt s (fst (do_step p s)).
Proof.
  intros HI. unfold do_step. destruct (step_checks s); [|apply ObsExt_refl]. cbv zeta. cbn [fst].
  set (s1 := match ps s with PInit => _ | _ => s end).
  set (s2 := emit (NStart (clock s1)) (set_rs RStarted s1)).
  assert (C : CoreClk s s2) by (unfold s2, s1; destruct (ps s); unfold CoreClk, core_eq; cbn; auto 20).
  assert (O2 : obs s2 = obs s) by (unfold s2, s1; destruct (ps s); reflexivity).
  set (s3 := match pend s2 with [] => _ | _ => _ end).
  apply ObsExt_trans with s3; [|apply ObsExt_same; [reflexivity|cbn [clock set_rs emit set_ntfs]; lia]].
  apply ObsExt_trans with s2; [apply ObsExt_same; [exact O2|destruct C as [_ ->]; lia]|].
  unfold s3. destruct (pend s2) as [|e r] eqn:Hp; [apply ObsExt_refl|].
  destruct (ev_time e >? end_time s2); [apply ObsExt_refl|].
  eapply took_obsext; [eapply CoreClk_Inv; eauto|exact Hp|apply step_event_took; auto|apply step_event_obs].
Qed.

Lemma do_end_repl_obsext p fuel s : ObsExt s (fst (do_end_repl fuel p s)).
Proof.
  unfold do_end_repl. destruct (ps s); try apply ObsExt_refl. cbn [fst].
  set (s2 := set_pend [] _).
  assert (M : ObsExt s s2).
  { unfold s2. destruct (Z.ltb_spec (clock s) (end_time s)); apply ObsExt_same; cbn; auto; lia. }
  eapply ObsExt_trans; [exact M|].
  unfold worker_run. destruct (worker s2) eqn:W; try apply ObsExt_refl.
  replace (ps s2) with PEnding by reflexivity. cbv iota. apply worker_ending_obsext.
Qed.

(** Over every command but a re-initialisation the observation log grows by
    entries in non-decreasing time order between the old and the new clock. *)
Theorem do_cmd_obsext p fuel s c :
  is_init c = false -> Inv s -> ObsExt s (fst (do_cmd fuel p s c)).
Proof.
  intros Hc HI. destruct c; cbn [do_cmd fst]; try apply ObsExt_refl; try discriminate.
  - destruct (rep s); [|apply ObsExt_refl]. apply do_start_obsext; auto.
  - apply do_step_obsext; auto.
  - destruct (running s); [|apply ObsExt_refl]. cbn [fst]. apply ObsExt_same; cbn; auto; lia.
  - apply do_start_obsext; auto.
  - apply do_start_obsext; auto.
  - apply do_end_repl_obsext.
  - apply ObsExt_same; cbn; auto; lia.
Qed.

Theorem run_cmds_obsext p fuel cs : forall s,
  Inv s -> forallb (fun c => negb (is_init c)) cs = true -> ObsExt s (fst (run_cmds fuel p s cs)).
Proof.
  induction cs as [|c r IH]; intros s HI Hc; cbn [run_cmds].
  - apply ObsExt_refl.
  - cbn [forallb] in Hc. apply andb_true_iff in Hc. destruct Hc as [Hc Hr].
    pose proof (do_cmd_obsext p fuel s c) as M. pose proof (do_cmd_inv p fuel s c HI) as I1.
    destruct (do_cmd fuel p s c) as [s1 res]. cbn [fst] in *.
    specialize (IH s1 I1 Hr). destruct (run_cmds fuel p s1 r) as [s2 sn]. cbn [fst] in *.
    eapply ObsExt_trans; [apply M|exact IH]; auto. destruct c; auto; discriminate.
Qed.

(** initialize: the observations of construct_model, all at the start time *)
Lemma do_init_obs p s r :
  running s = false -> ObsAt (r_start r) s (fst (do_init p s r)).
Proof.
  intros R. unfold do_init. rewrite R.
  set (s0 := set_pend [] s).
  set (s1 := match worker s0 with WNone => s0 | _ => do_cleanup s0 end).
  set (s2 := set_created [] (set_clock (r_start r) (set_rep (Some r) (set_worker WAlive s1)))).
  assert (O2 : obs s2 = obs s) by (unfold s2, s1, s0; destruct (worker (set_pend [] s)); reflexivity).
  pose proof (exec_actions_obs InConstruct (body p 0) s2) as H.
  destruct (exec_actions InConstruct s2 (body p 0)) as [s3 failed]. cbn [fst] in *.
  change (clock s2) with (r_start r) in H. destruct H as [new [E F]]. rewrite O2 in E.
  exists new. split; auto.
  destruct failed; cbn [fst]; [cbn; exact E|]. destruct (r_warm r <? _); cbn; exact E.
Qed.

(* ---------------------------------------------------------------------- *)
(** ** Order of execution against an event that exists all along            *)
(* [tr0]: the executed-event log at the start of the period considered.
   [W] an event whose identifier is older than everything created from now
   on.  Invariant: while W is pending, everything executed in the period has
   a smaller key than W; and whatever was executed before W has a smaller key. *)
Record Older (W : ev) (tr0 : list (ev * Z)) (s : sim) : Prop := mkOlder {
  ol_id : ev_id W < nid s;
  ol_tr : exists l, trace s = l ++ tr0
          /\ (In W (pend s) -> forall ec, In ec l -> ev_lt (fst ec) W)
          /\ (forall l2 c l1, l = l2 ++ (W, c) :: l1 -> forall ec, In ec l1 -> ev_lt (fst ec) W)
}.

Lemma Older_weak W tr0 s t :
  trace t = trace s -> (forall x, In x (pend t) -> In x (pend s)) -> nid s <= nid t ->
  Older W tr0 s -> Older W tr0 t.
Proof.
  intros Et Hp Hn [Hid [l [E [A B]]]]. constructor; [lia|].
  exists l. rewrite Et. repeat split; auto.
Qed.

Lemma Older_core W tr0 s t : core_eq s t -> Older W tr0 s -> Older W tr0 t.
Proof.
  intros (Cp & Cn & _ & Ct & _). apply Older_weak; auto; try lia.
  rewrite Cp. auto.
Qed.

Lemma Older_took W tr0 s e r s' :
  Inv s -> pend s = e :: r -> Took s e r s' -> Older W tr0 s -> Older W tr0 s'.
Proof.
  intros HI Hp T [Hid [l [E [A B]]]].
  pose proof (took_nid _ _ _ _ T) as Hn. pose proof (took_trace _ _ _ _ T) as Ht.
  constructor; [lia|]. exists ((e, ev_time e) :: l). rewrite Ht, E. split; [reflexivity|].
  pose proof (inv_sorted _ HI) as Srt. rewrite Hp in Srt. inversion Srt as [|? ? Sr Hall]; subst.
  split.
  - intros HW. destruct (tk_pend _ _ _ _ T W HW) as [Hr|[_ Hge]]; [|lia].
    intros ec [<-|Hin].
    + cbn [fst]. rewrite Forall_forall in Hall. apply Hall; auto.
    + apply A; auto. rewrite Hp. right; auto.
  - intros l2 c l1 El ec Hin. destruct l2 as [|x l2]; cbn [app] in El.
    + inversion El; subst. apply A; auto. rewrite Hp. left; auto.
    + inversion El; subst. eapply B; eauto.
Qed.

Ltac coreq := unfold core_eq; ssimpl; auto 20.

Lemma runs_older W tr0 p s evs s' : runs p s evs s' -> Inv s -> Older W tr0 s -> Older W tr0 s'.
Proof.
  induction 1 as [s|s e r evs s' R Hp B H IH]; intros HI HO; auto.
  pose proof (take_event_took p s e r Hp) as T.
  apply IH; [apply (tk_inv _ _ _ _ T HI)|eapply Older_took; eauto].
Qed.

Lemma run_loop_older W tr0 p fuel s : Inv s -> Older W tr0 s -> Older W tr0 (run_loop fuel p s).
Proof.
  intros HI HO. destruct (run_loop_runs p fuel s) as [evs [s1 [R X]]].
  pose proof (runs_older W tr0 _ _ _ _ R HI HO) as O1.
  destruct X as [_ ->|_ _ ->|_ ->]; auto.
  - eapply Older_core; [apply stop_at_bound_core|exact O1].
  - eapply Older_core; [|exact O1]. coreq.
Qed.

Lemma worker_ending_older W tr0 s : Older W tr0 s -> Older W tr0 (worker_ending s).
Proof. apply Older_core. destruct (worker_ending_coreclk s); auto. Qed.

Lemma worker_run_older W tr0 p fuel s : Inv s -> Older W tr0 s -> Older W tr0 (worker_run fuel p s).
Proof.
  intros HI HO. unfold worker_run. destruct (worker s); auto.
  apply worker_ending_older.
  destruct (ps s); auto;
    (set (a := set_rs RStarted (emit (NStart (clock s)) s));
     apply Older_core with (s := run_loop fuel p a); [coreq|];
     apply run_loop_older;
       [eapply CoreClk_Inv; [|exact HI]; unfold a; coreclk
       |apply Older_core with (s := s); [unfold a; coreq|exact HO]]).
Qed.

Lemma do_start_older W tr0 p fuel s b i : Inv s -> Older W tr0 s -> Older W tr0 (fst (do_start fuel p s b i)).
Proof.
  intros HI HO. unfold do_start. destruct (start_checks s); auto.
  destruct b as [bz|]; auto. destruct (bz <? clock s); auto.
  destruct (bz >? end_time s); cbn [fst].
  - apply worker_run_older.
    + eapply CoreClk_Inv; [|exact HI]. ssimpl. destruct (ps s); coreclk.
    + eapply Older_core; [|exact HO]. ssimpl. destruct (ps s); coreq.
  - apply worker_run_older.
    + eapply CoreClk_Inv; [|exact HI]. ssimpl. destruct (ps s); coreclk.
    + eapply Older_core; [|exact HO]. ssimpl. destruct (ps s); coreq.
Qed.

Lemma do_step_older W tr0 p s : Inv s -> Older W tr0 s -> Older W tr0 (fst (do_step p s)).
Proof.
  intros HI HO. unfold do_step. destruct (step_checks s); auto. cbv zeta. cbn [fst].
  set (s1 := match ps s with PInit => _ | _ => s end).
  set (s2 := emit (NStart (clock s1)) (set_rs RStarted s1)).
  assert (C : CoreClk s s2) by (unfold s2, s1; destruct (ps s); coreclk).
  assert (O2 : Older W tr0 s2) by (eapply Older_core; [apply C|exact HO]).
  set (s3 := match pend s2 with [] => _ | _ => _ end).
  assert (O3 : Older W tr0 s3).
  { unfold s3. destruct (pend s2) as [|e r] eqn:Hp; auto.
    destruct (ev_time e >? end_time s2); auto.
    eapply Older_took; [eapply CoreClk_Inv; eauto|exact Hp|apply step_event_took; auto|exact O2]. }
  eapply Older_core; [|exact O3]. coreq.
Qed.

Lemma do_end_repl_older W tr0 p fuel s : Older W tr0 s -> Older W tr0 (fst (do_end_repl fuel p s)).
Proof.
  intros HO. unfold do_end_repl. destruct (ps s); auto. cbn [fst].
  set (s2 := set_pend [] _).
  assert (O2 : Older W tr0 s2).
  { eapply Older_weak; [| | |exact HO]; unfold s2; destruct (clock s <? end_time s); ssimpl; auto; try lia;
      intros x []. }
  unfold worker_run. destruct (worker s2); auto.
  replace (ps s2) with PEnding by reflexivity. cbv iota. apply worker_ending_older; auto.
Qed.

Theorem do_cmd_older W tr0 p fuel s c :
  is_init c = false -> Inv s -> Older W tr0 s -> Older W tr0 (fst (do_cmd fuel p s c)).
Proof.
  intros Hc HI HO. destruct c; cbn [do_cmd fst]; auto; try discriminate.
  - destruct (rep s); auto. apply do_start_older; auto.
  - apply do_step_older; auto.
  - destruct (running s); auto. cbn [fst]. eapply Older_core; [|exact HO]. coreq.
  - apply do_start_older; auto.
  - apply do_start_older; auto.
  - apply do_end_repl_older; auto.
  - eapply Older_core; [|exact HO]. destruct (do_cleanup_coreclk s); auto.
Qed.

Theorem run_cmds_older W tr0 p fuel cs : forall s,
  Inv s -> forallb (fun c => negb (is_init c)) cs = true ->
  Older W tr0 s -> Older W tr0 (fst (run_cmds fuel p s cs)).
Proof.
  induction cs as [|c r IH]; intros s HI Hc HO; cbn [run_cmds]; auto.
  cbn [forallb] in Hc. apply andb_true_iff in Hc. destruct Hc as [Hc Hr].
  pose proof (do_cmd_older W tr0 p fuel s c) as M. pose proof (do_cmd_inv p fuel s c HI) as I1.
  destruct (do_cmd fuel p s c) as [s1 res]. cbn [fst] in *.
  assert (O1 : Older W tr0 s1) by (apply M; auto; destruct c; auto; discriminate).
  specialize (IH s1 I1 Hr O1). destruct (run_cmds fuel p s1 r) as [s2 sn]. exact IH.
Qed.

(* ---- the warm-up event of a replication ---- *)
Definition is_warm_ev (e : ev) : bool := match ev_h e with HWarm => true | HUser _ => false end.

(* the event initialize schedules for the warm-up *)
Definition warm_event (p : program) (s : sim) (r : repl) : ev :=
  mkEv (r_warm r) 10 (nid (fst (do_init p s r)) - 1) HWarm 0.

(* an initialize aborted by a raising construct_model: nothing was executed, the simulator is not
   initialised -- and stays so under every command but initialize, which all refuse or do nothing *)
Lemma do_init_aborted p s r :
  snd (do_init p s r) = ResRaised ->
  let s1 := fst (do_init p s r) in
  rs s1 = RNotInit /\ ps s1 = PNotInit /\ trace s1 = trace s.
Proof.
  cbv zeta. unfold do_init. destruct (running s); [discriminate|].
  set (s0 := set_pend [] s).
  set (s1 := match worker s0 with WNone => s0 | _ => do_cleanup s0 end).
  set (s2 := set_created [] (set_clock (r_start r) (set_rep (Some r) (set_worker WAlive s1)))).
  assert (T2 : trace s2 = trace s) by (unfold s2, s1, s0; destruct (worker (set_pend [] s)); reflexivity).
  pose proof (fr_trace _ _ (hs_frame _ _ (exec_actions_hstep InConstruct (body p 0) s2))) as T3.
  destruct (exec_actions InConstruct s2 (body p 0)) as [s3 failed]. cbn [fst] in *.
  destruct failed; [|cbn [snd]; discriminate]. intros _. cbn. repeat split. congruence.
Qed.

Lemma do_init_ok_or_raised p s r :
  running s = false -> snd (do_init p s r) = ResOk \/ snd (do_init p s r) = ResRaised.
Proof.
  intros R. unfold do_init. rewrite R.
  match goal with |- context [exec_actions InConstruct ?X ?B] => destruct (exec_actions InConstruct X B) as [s3 [|]] end;
    cbn [snd]; auto.
Qed.

Lemma notinit_quiet p fuel s c :
  rs s = RNotInit -> ps s = PNotInit -> negb (is_init c) = true ->
  let s' := fst (do_cmd fuel p s c) in
  rs s' = RNotInit /\ ps s' = PNotInit /\ trace s' = trace s /\ obs s' = obs s.
Proof.
  intros R P Hc. cbv zeta.
  assert (S1 : start_checks s = false) by (unfold start_checks; rewrite R; rewrite !andb_false_r; reflexivity).
  assert (S2 : step_checks s = false) by (unfold step_checks; rewrite R; rewrite !andb_false_r; reflexivity).
  assert (Rn : running s = false) by (unfold running; rewrite R; reflexivity).
  destruct c; try discriminate; cbn [do_cmd fst]; auto.
  - destruct (rep s); auto. unfold do_start. rewrite S1. auto.
  - unfold do_step. rewrite S2. auto.
  - rewrite Rn. auto.
  - unfold do_start. rewrite S1. auto.
  - unfold do_start. rewrite S1. auto.
  - unfold do_end_repl. rewrite P. auto.
Qed.

Lemma notinit_run_quiet p fuel cs : forall s,
  rs s = RNotInit -> ps s = PNotInit -> forallb (fun c => negb (is_init c)) cs = true ->
  let s' := fst (run_cmds fuel p s cs) in
  trace s' = trace s /\ obs s' = obs s /\ ps s' = PNotInit.
Proof.
  induction cs as [|c r IH]; intros s R P Hc; cbn [run_cmds fst]; auto.
  cbn [forallb] in Hc. apply andb_true_iff in Hc. destruct Hc as [Hc Hr].
  destruct (notinit_quiet p fuel s c R P Hc) as (R1 & P1 & T1 & O1).
  destruct (do_cmd fuel p s c) as [s1 res]. cbn [fst] in *.
  specialize (IH s1 R1 P1 Hr). cbv zeta in IH.
  destruct (run_cmds fuel p s1 r) as [s2 sn]. cbn [fst] in *.
  destruct IH as (A & B & C). repeat split; congruence.
Qed.

Lemma do_init_warm_event p s r :
  running s = false -> snd (do_init p s r) = ResOk -> flag (fst (do_init p s r)) = false ->
  let s1 := fst (do_init p s r) in
  In (warm_event p s r) (pend s1) /\ ev_id (warm_event p s r) < nid s1 /\ trace s1 = trace s.
Proof.
  intros R Ok Fl. cbv zeta. unfold warm_event. revert Ok Fl. unfold do_init. rewrite R.
  set (s0 := set_pend [] s).
  set (s1 := match worker s0 with WNone => s0 | _ => do_cleanup s0 end).
  set (s2 := set_created [] (set_clock (r_start r) (set_rep (Some r) (set_worker WAlive s1)))).
  assert (T2 : trace s2 = trace s) by (unfold s2, s1, s0; destruct (worker (set_pend [] s)); reflexivity).
  pose proof (fr_trace _ _ (hs_frame _ _ (exec_actions_hstep InConstruct (body p 0) s2))) as T3.
  destruct (exec_actions InConstruct s2 (body p 0)) as [s3 failed]. cbn [fst] in *.
  destruct failed; [cbn [snd]; discriminate|]. intros _.
  assert (T4 : trace s3 = trace s) by congruence.
  cbn [fst].
  destruct (r_warm r <? clock (set_ps PInit (set_rs RInit s3))) eqn:Lt.
  - (* the model flags a warm-up time before the start: excluded *)
    cbn [fst flag raise_flag set_flag]. discriminate.
  - intros _. cbn [fst pend nid trace set_nid set_pend set_ps set_rs].
    replace (nid s3 + 1 - 1) with (nid s3) by lia.
    split; [apply ins_In; left; reflexivity|]. split; [cbn; lia|exact T4].
Qed.

Lemma sorted_before {A} (R : A -> A -> Prop) a b c x :
  StronglySorted R (a ++ b :: c) -> In x a -> R x b.
Proof.
  induction a as [|y a IH]; cbn [app]; intros S Hx; [destruct Hx|].
  inversion S as [|? ? S' F]; subst. destruct Hx as [->|Hx]; [|apply IH; auto].
  rewrite Forall_forall in F. apply F. apply in_or_app. right. left. reflexivity.
Qed.

Lemma ev_lt_cases a b :
  ev_lt a b ->
  ev_time a < ev_time b
  \/ (ev_time a = ev_time b /\ (ev_prio b < ev_prio a \/ (ev_prio a = ev_prio b /\ ev_id a < ev_id b))).
Proof.
  unfold ev_lt, ev_ltb, key_ltb, ev_key. cbn [k_time k_nprio k_id].
  destruct (Z.eqb_spec (ev_time a) (ev_time b)); cbn [negb].
  - destruct (Z.eqb_spec (- ev_prio a) (- ev_prio b)); cbn [negb]; intros H; apply Z.ltb_lt in H; right; split; auto; lia.
  - intros H; apply Z.ltb_lt in H. left; auto.
Qed.

Lemma run_cmds_inv p fuel cs : forall s, Inv s -> Inv (fst (run_cmds fuel p s cs)).
Proof.
  induction cs as [|c r IH]; intros s HI; cbn [run_cmds]; auto.
  pose proof (do_cmd_inv p fuel s c HI) as I1.
  destruct (do_cmd fuel p s c) as [s1 res]. cbn [fst] in *.
  specialize (IH s1 I1). destruct (run_cmds fuel p s1 r) as [s2 sn]. exact IH.
Qed.

(** after_warmup_iff_time.  One replication: initialize (accepted, inside the
    model) followed by any commands other than initialize, any program, any
    fuel.  [l] is the log of the events executed in the replication (newest
    first).  If the warm-up event W was executed, it was executed at the
    warm-up time, and an executed event of priority below the warm-up event's
    was executed AFTER W exactly when its time is at or after the warm-up
    time. *)
Theorem after_warmup_iff_time p fuel s0 r cs :
  Inv s0 -> running s0 = false ->
  let s1 := fst (do_init p s0 r) in
  flag s1 = false ->
  forallb (fun c => negb (is_init c)) cs = true ->
  let s' := fst (run_cmds fuel p s1 cs) in
  let W := warm_event p s0 r in
  exists l, trace s' = l ++ trace s0 /\
    forall l2 c l1, l = l2 ++ (W, c) :: l1 ->
      c = r_warm r /\
      forall e ce, In (e, ce) l -> e <> W -> ev_prio e < 10 ->
        (In (e, ce) l2 <-> r_warm r <= ev_time e).
Proof.
  intros HI R. cbv zeta. intros Fl Hc.
  destruct (do_init_ok_or_raised p s0 r R) as [Ok|Ra].
  2:{ (* construct_model raised: initialize was aborted, nothing runs afterwards *)
      destruct (do_init_aborted p s0 r Ra) as (Rs & Ps & Tr). cbv zeta in Rs, Ps, Tr.
      destruct (notinit_run_quiet p fuel cs _ Rs Ps Hc) as (T' & _ & _). cbv zeta in T'.
      exists []. split; [cbn [app]; congruence|]. intros l2 c l1 E. destruct l2; discriminate. }
  set (s1 := fst (do_init p s0 r)) in *.
  set (W := warm_event p s0 r).
  destruct (do_init_warm_event p s0 r R Ok Fl) as (Wp & Wid & Tr1). fold s1 W in Wp, Wid, Tr1.
  assert (I1 : Inv s1) by (apply do_init_inv; auto).
  assert (O1 : Older W (trace s0) s1).
  { constructor; auto. exists []. rewrite Tr1. split; [reflexivity|]. split.
    - intros _ ec [].
    - intros l2 c l1 E. destruct l2; discriminate. }
  pose proof (run_cmds_older W (trace s0) p fuel cs s1 I1 Hc O1) as [_ [l [E [_ B]]]].
  pose proof (run_cmds_mono p fuel cs s1 I1 Hc) as [_ [new [En [_ Srt]]]].
  rewrite Tr1 in En. rewrite E in En. apply app_inv_tail in En. subst new.
  pose proof (inv_clk _ (run_cmds_inv p fuel cs s1 I1)) as Clk. rewrite E in Clk.
  apply Forall_app in Clk. destruct Clk as [Clk _]. rewrite Forall_forall in Clk.
  exists l. split; [exact E|]. intros l2 c l1 El.
  assert (Cw : c = r_warm r).
  { specialize (Clk (W, c)). cbn [fst snd] in Clk. rewrite Clk; [reflexivity|].
    rewrite El. apply in_or_app. right. left. reflexivity. }
  split; [exact Cw|]. intros e ce Hin Hne Hpr.
  assert (Ce : ce = ev_time e) by (apply (Clk (e, ce)); exact Hin).
  split.
  - intros H2. rewrite El in Srt.
    pose proof (sorted_before _ _ _ _ _ Srt H2) as L. unfold later in L. cbn [snd] in L. lia.
  - intros Hge. rewrite El in Hin. apply in_app_or in Hin. destruct Hin as [H2|[Hw|H1]]; auto.
    + inversion Hw; subst. exfalso. apply Hne; reflexivity.
    + exfalso. pose proof (B l2 c l1 El (e, ce) H1) as Lt. cbn [fst] in Lt.
      apply ev_lt_cases in Lt. unfold W, warm_event in Lt. cbn [ev_time ev_prio ev_id] in Lt. lia.
Qed.

(* ---------------------------------------------------------------------- *)
(** ** The observation log follows the executed-event log                   *)
(* what a handler body observes at clock t: its data events up to a failing action *)
Fixpoint acts_obs (acts : list action) (t : Z) : list obsrec :=
  match acts with
  | [] => []
  | AFail :: _ => []
  | AObs c v :: r => ObsV c v t :: acts_obs r t
  | _ :: r => acts_obs r t
  end.

(* the log entries written while an event executes (chronological) *)
Definition ev_obs (p : program) (ec : ev * Z) : list obsrec :=
  match ev_h (fst ec) with
  | HWarm => [ObsWarm (snd ec)]
  | HUser h => acts_obs (body p h) (snd ec)
  end.

Definition not_end (o : obsrec) : bool := match o with ObsEnd _ => false | _ => true end.
Definition nonend (l : list obsrec) : list obsrec := filter not_end l.

Lemma nonend_app a b : nonend (a ++ b) = nonend a ++ nonend b.
Proof. apply filter_app. Qed.

Lemma nonend_acts acts t : nonend (rev (acts_obs acts t)) = rev (acts_obs acts t).
Proof.
  induction acts as [|a r IH]; [reflexivity|].
  destruct a; cbn [acts_obs]; auto. cbn [rev]. rewrite nonend_app, IH. reflexivity.
Qed.

Lemma nonend_ev_obs p ec : nonend (rev (ev_obs p ec)) = rev (ev_obs p ec).
Proof. unfold ev_obs. destruct (ev_h (fst ec)); [reflexivity|apply nonend_acts]. Qed.

Lemma exec_actions_obs_exact md acts : forall s,
  obs (fst (exec_actions md s acts)) = rev (acts_obs acts (clock s)) ++ obs s.
Proof.
  induction acts as [|a r IH]; intros s; cbn [exec_actions]; [reflexivity|].
  pose proof (fr_clock _ _ (hs_frame _ _ (exec_action_hstep md s a))) as C.
  destruct a as [m prio h|k| |c|sid v]; cbn [exec_action fst acts_obs] in *.
  - rewrite IH, C. f_equal. unfold do_sched. destruct (sched_time s m); reflexivity.
  - rewrite IH, C. f_equal. unfold do_cancel. destruct (nth_error (created s) k); auto.
    destruct (ev_mem e (pend s)); reflexivity.
  - reflexivity.
  - rewrite IH, C. f_equal. unfold inner_cmd. destruct md; try reflexivity; destruct c; destruct (running s); reflexivity.
  - rewrite IH. cbn [clock set_obs obs rev]. rewrite <- app_assoc. reflexivity.
Qed.

Lemma exec_event_obs_exact md p s e :
  obs (fst (exec_event md p s e)) = rev (ev_obs p (e, clock s)) ++ obs s.
Proof.
  unfold exec_event, ev_obs. cbn [fst snd]. destruct (ev_h e); [reflexivity|].
  rewrite exec_actions_obs_exact. reflexivity.
Qed.

Lemma take_event_obs_exact p s e r :
  obs (take_event p s e r) = rev (ev_obs p (e, ev_time e)) ++ obs s.
Proof.
  unfold take_event.
  set (s2 := set_clock (ev_time e) _).
  pose proof (exec_event_obs_exact InRun p s2 e) as H.
  destruct (exec_event InRun p s2 e) as [s3 failed]. cbn [fst] in H.
  assert (E2 : obs s2 = obs s) by (unfold s2; destruct (ev_time e =? clock (set_pend r s)); reflexivity).
  change (clock s2) with (ev_time e) in H. rewrite E2 in H.
  destruct failed; [destruct (strat s3)|]; exact H.
Qed.

Lemma step_event_obs_exact p s e r :
  obs (step_event p s e r) = rev (ev_obs p (e, ev_time e)) ++ obs s.
Proof.
  unfold step_event. set (b := set_clock (ev_time e) _).
  exact (exec_event_obs_exact InStep p b e).
Qed.

(* [l]: events executed since the reference point (newest first) *)
Definition Chron (p : program) (tr0 : list (ev * Z)) (ob0 : list obsrec) (s : sim) : Prop :=
  exists l, trace s = l ++ tr0
    /\ nonend (obs s) = flat_map (fun ec => rev (ev_obs p ec)) l ++ ob0.

Lemma Chron_same p tr0 ob0 s t :
  trace t = trace s -> nonend (obs t) = nonend (obs s) -> Chron p tr0 ob0 s -> Chron p tr0 ob0 t.
Proof. intros Et Eo [l [A B]]. exists l. rewrite Et, Eo. auto. Qed.

Lemma Chron_took p tr0 ob0 s e r s' :
  Took s e r s' -> obs s' = rev (ev_obs p (e, ev_time e)) ++ obs s ->
  Chron p tr0 ob0 s -> Chron p tr0 ob0 s'.
Proof.
  intros T Eo [l [A B]]. exists ((e, ev_time e) :: l). rewrite (took_trace _ _ _ _ T), A. split; [reflexivity|].
  rewrite Eo, nonend_app, nonend_ev_obs, B. cbn [flat_map]. rewrite <- app_assoc. reflexivity.
Qed.

Lemma runs_chron p tr0 ob0 s evs s' : runs p s evs s' -> Chron p tr0 ob0 s -> Chron p tr0 ob0 s'.
Proof.
  induction 1 as [s|s e r evs s' R Hp B H IH]; intros HC; auto.
  apply IH. eapply Chron_took; eauto using take_event_took, take_event_obs_exact.
Qed.

Lemma run_loop_chron p tr0 ob0 fuel s : Chron p tr0 ob0 s -> Chron p tr0 ob0 (run_loop fuel p s).
Proof.
  intros HC. destruct (run_loop_runs p fuel s) as [evs [s1 [R X]]].
  pose proof (runs_chron p tr0 ob0 _ _ _ R HC) as C1.
  destruct X as [_ ->|_ _ ->|_ ->]; auto.
  eapply Chron_same; [| |exact C1]; unfold stop_at_bound; destruct (bound s1 >=? end_time s1); reflexivity.
Qed.

Lemma worker_ending_chron p tr0 ob0 s : Chron p tr0 ob0 s -> Chron p tr0 ob0 (worker_ending s).
Proof.
  intros HC. unfold worker_ending. destruct (ps s); auto;
    try (eapply Chron_same; [| |exact HC]; reflexivity).
Qed.

Lemma worker_run_chron p tr0 ob0 fuel s : Chron p tr0 ob0 s -> Chron p tr0 ob0 (worker_run fuel p s).
Proof.
  intros HC. unfold worker_run. destruct (worker s); auto.
  apply worker_ending_chron.
  destruct (ps s); auto;
    (set (a := set_rs RStarted (emit (NStart (clock s)) s));
     apply Chron_same with (s := run_loop fuel p a); [reflexivity|reflexivity|];
     apply run_loop_chron; apply Chron_same with (s := s); [reflexivity|reflexivity|exact HC]).
Qed.

Lemma do_start_chron p tr0 ob0 fuel s b i : Chron p tr0 ob0 s -> Chron p tr0 ob0 (fst (do_start fuel p s b i)).
Proof.
  intros HC. unfold do_start. destruct (start_checks s); auto.
  destruct b as [bz|]; auto. destruct (bz <? clock s); auto.
  destruct (bz >? end_time s); cbn [fst]; apply worker_run_chron;
    (eapply Chron_same; [| |exact HC]; ssimpl; destruct (ps s); reflexivity).
Qed.

Lemma do_step_chron p tr0 ob0 s : Chron p tr0 ob0 s -> Chron p tr0 ob0 (fst (do_step p s)).
Proof.
  intros HC. unfold do_step. destruct (step_checks s); auto. cbv zeta. cbn [fst].
  set (s1 := match ps s with PInit => _ | _ => s end).
  set (s2 := emit (NStart (clock s1)) (set_rs RStarted s1)).
  assert (C2 : Chron p tr0 ob0 s2).
  { eapply Chron_same; [| |exact HC]; unfold s2, s1; destruct (ps s); reflexivity. }
  set (s3 := match pend s2 with [] => _ | _ => _ end).
  assert (C3 : Chron p tr0 ob0 s3).
  { unfold s3. destruct (pend s2) as [|e r] eqn:Hp; auto.
    destruct (ev_time e >? end_time s2); auto.
    eapply Chron_took; [apply step_event_took; exact Hp|apply step_event_obs_exact|exact C2]. }
  eapply Chron_same; [| |exact C3]; reflexivity.
Qed.

Lemma do_end_repl_chron p tr0 ob0 fuel s : Chron p tr0 ob0 s -> Chron p tr0 ob0 (fst (do_end_repl fuel p s)).
Proof.
  intros HC. unfold do_end_repl. destruct (ps s); auto. cbn [fst].
  set (s2 := set_pend [] _).
  assert (C2 : Chron p tr0 ob0 s2).
  { eapply Chron_same; [| |exact HC]; unfold s2; destruct (clock s <? end_time s); reflexivity. }
  unfold worker_run. destruct (worker s2); auto;
    try (replace (ps s2) with PEnding by reflexivity; cbv iota; apply worker_ending_chron; auto).
Qed.

Theorem do_cmd_chron p tr0 ob0 fuel s c :
  is_init c = false -> Chron p tr0 ob0 s -> Chron p tr0 ob0 (fst (do_cmd fuel p s c)).
Proof.
  intros Hc HC. destruct c; cbn [do_cmd fst]; auto; try discriminate.
  - destruct (rep s); auto. apply do_start_chron; auto.
  - apply do_step_chron; auto.
  - destruct (running s); auto.
  - apply do_start_chron; auto.
  - apply do_start_chron; auto.
  - apply do_end_repl_chron; auto.
Qed.

Theorem run_cmds_chron p tr0 ob0 fuel cs : forall s,
  forallb (fun c => negb (is_init c)) cs = true ->
  Chron p tr0 ob0 s -> Chron p tr0 ob0 (fst (run_cmds fuel p s cs)).
Proof.
  induction cs as [|c r IH]; intros s Hc HC; cbn [run_cmds]; auto.
  cbn [forallb] in Hc. apply andb_true_iff in Hc. destruct Hc as [Hc Hr].
  pose proof (do_cmd_chron p tr0 ob0 fuel s c) as M.
  destruct (do_cmd fuel p s c) as [s1 res]. cbn [fst] in *.
  assert (C1 : Chron p tr0 ob0 s1) by (apply M; auto; destruct c; auto; discriminate).
  specialize (IH s1 Hr C1). destruct (run_cmds fuel p s1 r) as [s2 sn]. exact IH.
Qed.

(** observations_split_at_warmup.  Setting of after_warmup_iff_time.  The
    observation log of the replication (END marker aside, newest first) is the
    concatenation, in execution order, of what each executed event's handler
    observed; if the warm-up event W was executed it splits the log at the
    WARMUP marker: after the marker come exactly the observations of the
    events executed after W -- among those of priority below W's, the ones
    with time >= warm-up time -- before it those of the events before W
    (priority below W's: time < warm-up time) and those of construct_model. *)
Theorem observations_split_at_warmup p fuel s0 r cs :
  Inv s0 -> running s0 = false ->
  let s1 := fst (do_init p s0 r) in
  flag s1 = false ->
  forallb (fun c => negb (is_init c)) cs = true ->
  let s' := fst (run_cmds fuel p s1 cs) in
  let W := warm_event p s0 r in
  let f := fun ec => rev (ev_obs p ec) in
  exists l, trace s' = l ++ trace s0
    /\ nonend (obs s') = flat_map f l ++ nonend (obs s1)
    /\ forall l2 c l1, l = l2 ++ (W, c) :: l1 ->
         nonend (obs s') = flat_map f l2 ++ [ObsWarm (r_warm r)] ++ flat_map f l1 ++ nonend (obs s1)
         /\ (forall e ce, In (e, ce) l2 -> ev_prio e < 10 -> r_warm r <= ev_time e)
         /\ (forall e ce, In (e, ce) l1 -> ev_prio e < 10 -> ev_time e < r_warm r).
Proof.
  intros HI R. cbv zeta. intros Fl Hc.
  destruct (do_init_ok_or_raised p s0 r R) as [Ok|Ra].
  2:{ (* construct_model raised: initialize was aborted, nothing runs afterwards *)
      destruct (do_init_aborted p s0 r Ra) as (Rs & Ps & Tr). cbv zeta in Rs, Ps, Tr.
      destruct (notinit_run_quiet p fuel cs _ Rs Ps Hc) as (T' & O' & _). cbv zeta in T', O'.
      exists []. split; [cbn [app]; congruence|]. split; [cbn [flat_map app]; rewrite O'; reflexivity|].
      intros l2 c l1 E. destruct l2; discriminate. }
  destruct (after_warmup_iff_time p fuel s0 r cs HI R Fl Hc) as [l [E H]].
  set (s1 := fst (do_init p s0 r)) in *.
  destruct (do_init_warm_event p s0 r R Ok Fl) as (_ & _ & Tr1). fold s1 in Tr1.
  assert (C1 : Chron p (trace s0) (nonend (obs s1)) s1).
  { exists []. rewrite Tr1. split; reflexivity. }
  destruct (run_cmds_chron p (trace s0) (nonend (obs s1)) fuel cs s1 Hc C1) as [l' [E' B']].
  rewrite E in E'. apply app_inv_tail in E'. subst l'.
  exists l. split; [exact E|]. split; [exact B'|].
  intros l2 c l1 El. destruct (H l2 c l1 El) as [Cw Hiff].
  split; [|split].
  - rewrite B', El, flat_map_app. cbn [flat_map]. unfold ev_obs at 2. cbn [fst snd warm_event ev_h rev app].
    rewrite Cw, <- !app_assoc. reflexivity.
  - intros e ce H2 Hp. apply (Hiff e ce); auto.
    + rewrite El. apply in_or_app. left; auto.
    + (* e = W is impossible: W has priority 10 *) intros ->. cbn [warm_event ev_prio] in Hp. lia.
  - intros e ce H1 Hp.
    destruct (Z.lt_ge_cases (ev_time e) (r_warm r)) as [Lt|Ge]; auto. exfalso.
    assert (Hin : In (e, ce) l) by (rewrite El; apply in_or_app; right; right; auto).
    assert (Hne : e <> warm_event p s0 r) by (intros ->; cbn [warm_event ev_prio] in Hp; lia).
    pose proof (proj2 (Hiff e ce Hin Hne Hp) Ge) as H2.
    (* an executed event occurs once in the log *)
    pose proof (Inv_exec_nodup _ (run_cmds_inv p fuel cs s1 (do_init_inv p s0 r HI))) as ND.
    unfold executed in ND. rewrite E, El in ND. rewrite !map_app in ND. unfold ids in ND. rewrite !map_app in ND.
    apply NoDup_app_l in ND. cbn [map fst] in ND.
    apply NoDup_remove_1 in ND.
    eapply (NoDup_app_disj _ _ (ev_id e) ND).
    + apply in_map. apply (in_map fst _ (e, ce)). exact H2.
    + apply in_map. apply (in_map fst _ (e, ce)). exact H1.
Qed.

(** The log of one replication is chronological: the observations of
    construct_model at the start time, then what the commands add. *)
Theorem replication_log_chronological p fuel s0 r cs :
  Inv s0 -> running s0 = false ->
  let s1 := fst (do_init p s0 r) in
  forallb (fun c => negb (is_init c)) cs = true ->
  let s' := fst (run_cmds fuel p s1 cs) in
  clock s1 = r_start r /\
  exists newl, obs s' = newl ++ obs s0
    /\ StronglySorted olater newl
    /\ Forall (fun o => r_start r <= otime o <= clock s') newl.
Proof.
  intros HI R. cbv zeta. intros Hc.
  set (s1 := fst (do_init p s0 r)) in *.
  assert (I1 : Inv s1) by (apply do_init_inv; auto).
  assert (C1 : clock s1 = r_start r).
  { unfold s1, do_init. rewrite R.
    set (s2 := set_created [] _).
    pose proof (handler_clock_const InConstruct (body p 0) s2) as C.
    destruct (exec_actions InConstruct s2 (body p 0)) as [s3 failed]. cbn [fst] in *.
    destruct failed; cbn [fst]; [cbn; exact C|]. destruct (r_warm r <? _); cbn; exact C. }
  split; [exact C1|].
  destruct (do_init_obs p s0 r R) as [n1 [E1 F1]]. fold s1 in E1.
  destruct (run_cmds_obsext p fuel cs s1 I1 Hc) as [L [n2 [E2 [F2 S2]]]].
  exists (n2 ++ n1). rewrite E2, E1, app_assoc. split; [reflexivity|]. split.
  - apply sorted_app; auto; [eapply const_sorted; eauto|].
    intros x y Hx Hy. unfold olater. rewrite Forall_forall in F1, F2.
    rewrite (F1 _ Hy). specialize (F2 _ Hx). lia.
  - apply Forall_app. split.
    + eapply Forall_impl; [|exact F2]. cbn. intros; lia.
    + eapply Forall_impl; [|exact F1]. cbn. intros o Ho. lia.
Qed.

(* ---- a replication that ended left the END marker at the head of the log ---- *)
Definition EndHead (s : sim) : Prop :=
  ps s = PEnded -> exists rest, obs s = ObsEnd (clock s) :: rest.

Lemma worker_ending_endhead x : ps x <> PEnded -> EndHead (worker_ending x).
Proof.
  intros H. unfold worker_ending, EndHead. destruct (ps x) eqn:E; try (intros; congruence).
  intros _. cbn. eexists; reflexivity.
Qed.

Lemma worker_run_endhead p fuel s : ps s <> PEnded -> EndHead (worker_run fuel p s).
Proof.
  intros H. unfold worker_run. destruct (worker s); try (intros ?; congruence).
  apply worker_ending_endhead.
  destruct (ps s) eqn:E; try congruence;
    (cbn [ps set_rs emit set_ntfs];
     destruct (run_loop_ps p fuel (set_rs RStarted (emit (NStart (clock s)) s))) as [->| ->];
     cbn [ps set_rs emit set_ntfs]; congruence).
Qed.

Lemma do_start_endhead p fuel s b i : EndHead s -> EndHead (fst (do_start fuel p s b i)).
Proof.
  intros H. unfold do_start. destruct (start_checks s) eqn:Ck; auto.
  destruct b as [bz|]; auto. destruct (bz <? clock s); auto.
  destruct (start_checks_facts s Ck) as (_ & Hps & _).
  destruct (bz >? end_time s); cbn [fst]; apply worker_run_endhead; ssimpl;
    destruct Hps as [E | E]; rewrite E; ssimpl; rewrite ?E; discriminate.
Qed.

Lemma do_step_endhead p s : EndHead s -> EndHead (fst (do_step p s)).
Proof.
  intros H. unfold do_step. destruct (step_checks s) eqn:Ck; auto. cbv zeta. cbn [fst].
  assert (Hps : ps s = PInit \/ ps s = PStarted).
  { unfold step_checks in Ck. repeat (apply andb_true_iff in Ck; destruct Ck as [Ck ?]).
    destruct (ps s); auto; discriminate. }
  set (s1 := match ps s with PInit => _ | _ => s end).
  set (s2 := emit (NStart (clock s1)) (set_rs RStarted s1)).
  assert (P2 : ps s2 = PStarted) by (unfold s2, s1; destruct Hps as [E | E]; rewrite E; ssimpl; auto).
  intros Hend. exfalso. revert Hend. cbn [ps set_rs emit set_ntfs].
  destruct (pend s2) as [|e r] eqn:Hp; [congruence|].
  destruct (ev_time e >? end_time s2); [congruence|].
  destruct (took_bound _ _ _ _ (step_event_took p s2 e r Hp)) as (_ & _ & _ & Pp & _).
  rewrite Pp. congruence.
Qed.

Lemma do_end_repl_endhead p fuel s : EndHead s -> EndHead (fst (do_end_repl fuel p s)).
Proof.
  intros H. unfold do_end_repl. destruct (ps s) eqn:E; auto. cbn [fst].
  apply worker_run_endhead. destruct (clock s <? end_time s); cbn; discriminate.
Qed.

Lemma do_cmd_endhead p fuel s c : EndHead s -> EndHead (fst (do_cmd fuel p s c)).
Proof.
  intros H. destruct c; cbn [do_cmd fst]; auto.
  - unfold do_init. destruct (running s); auto.
    destruct (exec_actions _ _ _) as [s3 failed]. cbn [fst].
    destruct failed; [unfold EndHead; cbn; discriminate|].
    destruct (r_warm r <? _); unfold EndHead; cbn; discriminate.
  - destruct (rep s); auto. apply do_start_endhead; auto.
  - apply do_step_endhead; auto.
  - destruct (running s); auto.
  - apply do_start_endhead; auto.
  - apply do_start_endhead; auto.
  - apply do_end_repl_endhead; auto.
  - unfold EndHead, do_cleanup. cbn. discriminate.
Qed.

(** In every reachable state whose replication has ended, the newest entry of
    the observation log is the END_REPLICATION marker at the final clock. *)
Theorem ended_log_has_end_marker p s : reachable p s -> EndHead s.
Proof.
  induction 1; [unfold EndHead; cbn; discriminate|]. apply do_cmd_endhead; auto.
Qed.

(* ====================================================================== *)
(** * Part 4: the persistent statistic, exact arithmetic                    *)
(* ====================================================================== *)
From PV Require Import Stats.TallyProofs Stats.WeightedProofs Stats.TimestampProofs.

Section PersistentQ.
  Variable sq : Q -> Q.
  Local Notation NQ := (NumQ sq).
  Variable cfg : list sdecl.
  Variable pl : list (payload NQ).
  Local Open Scope Q_scope.

  Definition tq (t : Z) : Q := tmf NQ t.

  Lemma tq_eq t : tq t == inject_Z t * (1 # 4).
  Proof. unfold tq, tmf. cbn [div ofZ NumQ]. unfold Qdiv. apply Qmult_comp; reflexivity. Qed.

  Lemma tq_mono a b : (a <= b)%Z -> tq a <= tq b.
  Proof.
    intros H. rewrite !tq_eq. apply Qmult_le_compat_r; [|discriminate].
    rewrite <- Zle_Qle. exact H.
  Qed.

  (* the valid (time, value) pairs delivered to the statistic *)
  Definition series (sid : nat) (log : list obsrec) : list (Q * Q) :=
    flat_map (fun tp => match p_v (snd tp) with ONum v => [(tq (fst tp), v)] | _ => [] end)
             (delivered NQ cfg pl sid log).

  Definition only_obs (log : list obsrec) : Prop :=
    Forall (fun o => match o with ObsV _ _ _ => True | _ => False end) log.

  Lemma state_of_omap {A B} (f : A -> B) (o : outcome A) : state_of (omap f o) = f (state_of o).
  Proof. destruct o; reflexivity. Qed.

  Lemma plain_fold_persistent sid body : only_obs body -> forall q,
    fold_left (plain_feed NQ cfg pl sid) body (SP q) = SP (tsrun NQ q (map (tsreg sq) (series sid body))).
  Proof.
    induction 1 as [|o r Ho Hr IH]; intros q; [reflexivity|].
    destruct o as [c v t|t|t]; try contradiction.
    cbn [fold_left plain_feed]. unfold series. cbn [delivered flat_map].
    fold (delivered NQ cfg pl sid r).
    destruct (memn sid _); cbn [app flat_map]; [|apply IH].
    cbn [sreg fst snd]. rewrite state_of_omap.
    destruct (p_v (payload_of NQ pl v)) as [x| | |] eqn:Ev; cbn [app map].
    - rewrite IH. cbn [tsrun]. unfold tsreg at 2. cbn [fst snd tsstep]. reflexivity.
    - destruct (ts_rejected_unchanged NQ q (ONum (tmf NQ t)) ONaN eq_refl) as [k ->]. apply IH.
    - destruct (ts_rejected_unchanged NQ q (ONum (tmf NQ t)) ONotNumber eq_refl) as [k ->]. apply IH.
    - destruct (ts_rejected_unchanged NQ q (ONum (tmf NQ t)) OHugeInt eq_refl) as [k ->]. apply IH.
  Qed.

  (* a chronological list: times ascending *)
  Definition chrono (log : list obsrec) : Prop := StronglySorted (fun a b => (otime a <= otime b)%Z) log.

  Lemma series_nondecr sid body T : forall lo,
    chrono body -> Forall (fun o => (lo <= otime o <= T)%Z) body -> (lo <= T)%Z ->
    nondecr_from (tq lo) (series sid body) (tq T).
  Proof.
    induction body as [|o r IH]; intros lo S F L.
    - cbn. apply tq_mono; auto.
    - inversion S as [|? ? S' Fo]; subst. inversion F as [|? ? Fh Fr]; subst.
      unfold series. destruct o as [c v t|t|t]; cbn [delivered flat_map]; try (apply IH; auto).
      fold (delivered NQ cfg pl sid r). cbn [otime] in *.
      assert (G : nondecr_from (tq t) (series sid r) (tq T)).
      { apply IH; auto; [|lia]. rewrite Forall_forall in *. intros o Ho.
        specialize (Fo o Ho). specialize (Fr o Ho). cbn [otime] in Fo. lia. }
      destruct (memn sid _); cbn [app flat_map]; [|apply IH; auto].
      cbn [fst snd]. destruct (p_v (payload_of NQ pl v)); cbn [app]; try (apply IH; auto).
      cbn [nondecr_from]. split; [apply tq_mono; lia|exact G].
  Qed.

  (** persistent_closed_at_end: fed (after the last warm-up reset) the
      chronological observations [body] and then the END marker at time T, a
      SimPersistent is closed, its total weight is the span from its first
      observation to T, its weighted sum the integral of the piecewise-constant
      signal, its weighted mean the time average (C10's time_average). *)
  Theorem persistent_closed_at_end sid d log body T t0 v0 rest :
    d_kind d = KPersistent -> no_reentry d -> ps_raised (stat_run NQ cfg pl sid d log) = false ->
    after_last_warm [] log = body ++ [ObsEnd T] -> only_obs body -> chrono (body ++ [ObsEnd T]) ->
    series sid body = (t0, v0) :: rest ->
    exists q, ps_state (stat_run NQ cfg pl sid d log) = SP q
      /\ ts_active q = false
      /\ wsw (ts_w q) == tq T - t0
      /\ gw_sum NQ (ts_w q) == integ_from t0 v0 rest (tq T)
      /\ (t0 < tq T -> res_is (gw_mean NQ (ts_w q)) (integ_from t0 v0 rest (tq T) / (tq T - t0)))
      /\ (tq T == t0 -> gw_mean NQ (ts_w q) = NaNres).
  Proof.
    intros K Q R E OB CH SE.
    rewrite (stat_run_is_plain_fold NQ cfg pl sid d log Q R).
    pose proof (plain_fold_after_warm NQ cfg pl sid log [] (sinit NQ (d_kind d))) as P. cbn [app] in P.
    rewrite P, kind_sinit, E, K. clear P.
    assert (S0 : (if has_warm log then sinit NQ KPersistent else sinit NQ KPersistent) = SP (tsinit NQ))
      by (destruct (has_warm log); reflexivity).
    rewrite S0, fold_left_app, (plain_fold_persistent sid body OB). cbn [fold_left plain_feed].
    replace (state_of (ts_end NQ (tsrun NQ (tsinit NQ) (map (tsreg sq) (series sid body))) (ONum (tmf NQ T))))
      with (tsrun NQ (tsinit NQ) (map (tsreg sq) (series sid body) ++ [tsend sq (tq T)]))
      by (rewrite tsrun_app; reflexivity).
    eexists. split; [reflexivity|]. rewrite SE.
    apply time_average.
    (* the series is chronological and ends before T *)
    assert (ND : forall lo, Forall (fun o => (lo <= otime o)%Z) body -> (lo <= T)%Z ->
                 nondecr_from (tq lo) (series sid body) (tq T)).
    { intros lo Fl Ll. apply series_nondecr; auto.
      - unfold chrono in *. clear -CH. induction body as [|o r IH]; [constructor|].
        cbn [app] in CH. inversion CH as [|? ? S F]; subst. constructor; auto.
        apply Forall_app in F. tauto.
      - unfold chrono in CH. rewrite Forall_forall in *. intros o Ho. split; auto.
        clear -CH Ho. induction body as [|o' r IH]; [destruct Ho|].
        cbn [app] in CH. inversion CH as [|? ? S F]; subst. destruct Ho as [->|Ho]; auto.
        rewrite Forall_forall in F. apply (F (ObsEnd T)). apply in_or_app. right. left. reflexivity. }
    (* peel the first point off *)
    clear -ND SE CH.
    assert (Hmin : exists lo, Forall (fun o => (lo <= otime o)%Z) body /\ (lo <= T)%Z
                              /\ nondecr_from (tq lo) ((t0, v0) :: rest) (tq T)).
    { destruct body as [|o r].
      - unfold series in SE. discriminate.
      - exists (otime o). unfold chrono in CH. cbn [app] in CH. inversion CH as [|? ? S F]; subst.
        assert (F1 : Forall (fun o0 => (otime o <= otime o0)%Z) (o :: r)).
        { constructor; [lia|]. apply Forall_app in F. tauto. }
        assert (L1 : (otime o <= T)%Z).
        { rewrite Forall_forall in F. apply (F (ObsEnd T)). apply in_or_app. right. left. reflexivity. }
        split; [exact F1|]. split; [exact L1|]. rewrite <- SE. apply ND; auto. }
    destruct Hmin as (lo & _ & _ & H). cbn [nondecr_from] in H. tauto.
  Qed.
End PersistentQ.

(* ====================================================================== *)
(** * Part 5: the dictionary of output statistics                           *)
(* ====================================================================== *)
Local Open Scope nat_scope.

Lemma reg_get_app k r1 r2 :
  reg_get k (r1 ++ r2) = match reg_get k r1 with Some x => Some x | None => reg_get k r2 end.
Proof.
  induction r1 as [|[k' sid] r IH]; cbn [app reg_get]; auto. destruct (Nat.eqb k' k); auto.
Qed.

Lemma reg_build_from_get ds : forall i r r',
  reg_build_from i ds r = Some r' ->
  (forall k x, reg_get k r = Some x -> reg_get k r' = Some x)
  /\ (forall j d, nth_error ds j = Some d -> reg_get (d_key d) r' = Some (i + j))
  /\ length r' = length r + length ds.
Proof.
  induction ds as [|d rest IH]; intros i r r' H; cbn [reg_build_from] in H.
  - injection H as <-. repeat split; auto. intros [|j] d; discriminate.
  - unfold reg_add in H. destruct (reg_get (d_key d) r) eqn:G; [discriminate|].
    destruct (IH _ _ _ H) as (A & B & C). repeat split.
    + intros k x Hk. apply A. rewrite reg_get_app, Hk. reflexivity.
    + intros [|j] d' Hj; cbn [nth_error] in Hj.
      * injection Hj as <-. rewrite Nat.add_0_r. apply A. rewrite reg_get_app, G.
        cbn [reg_get]. rewrite Nat.eqb_refl. reflexivity.
      * rewrite (B j d' Hj). f_equal. lia.
    + rewrite C, app_length. cbn [length]. lia.
Qed.

Lemma reg_build_from_some ds : forall i r,
  NoDup (map fst r ++ map d_key ds) -> exists r', reg_build_from i ds r = Some r'.
Proof.
  induction ds as [|d rest IH]; intros i r ND; cbn [reg_build_from]; [eauto|].
  unfold reg_add.
  assert (G : reg_get (d_key d) r = None).
  { cbn [map] in ND. apply NoDup_remove_2 in ND.
    assert (Hn : ~ In (d_key d) (map fst r)) by (intros Hin; apply ND; apply in_or_app; left; auto).
    clear -Hn. induction r as [|[k' x] r IH]; cbn [reg_get]; auto.
    cbn [map fst] in Hn. destruct (Nat.eqb_spec k' (d_key d)); [exfalso; apply Hn; left; auto|].
    apply IH. intros H; apply Hn; right; auto. }
  rewrite G. apply IH. rewrite map_app. cbn [map fst]. rewrite <- app_assoc. exact ND.
Qed.

(** registered_under_key: with distinct keys, construct_model leaves every
    statistic retrievable under its key, and nothing else in the dictionary. *)
Theorem registered_under_key cfg :
  NoDup (map d_key cfg) ->
  exists r, reg_build cfg = Some r /\ length r = length cfg
    /\ forall sid d, nth_error cfg sid = Some d -> reg_get (d_key d) r = Some sid.
Proof.
  intros ND. destruct (reg_build_from_some cfg 0 [] ND) as [r H].
  exists r. split; [exact H|]. destruct (reg_build_from_get cfg 0 [] r H) as (_ & B & C).
  split; [exact C|]. intros sid d Hd. rewrite (B sid d Hd). reflexivity.
Qed.

(* every accepted initialize rebuilds the dictionary, whatever came before *)
Lemma run_marks_registry cfg fuel p cs : forall s base reg,
  let '(s', base', reg') := run_marks cfg fuel p s cs base reg in
  reg' = reg \/ reg' = reg_build cfg.
Proof.
  induction cs as [|c r IH]; intros s base reg; cbn [run_marks]; auto.
  destruct (do_cmd fuel p s c) as [s1 res].
  destruct c; try (apply IH);
  destruct res; try (apply IH).
  specialize (IH s1 (length (obs s)) (reg_build cfg)).
  destruct (run_marks cfg fuel p s1 r (length (obs s)) (reg_build cfg)) as [[s' b'] reg'].
  destruct IH as [-> | ->]; auto.
Qed.

(* ====================================================================== *)
(** * A publisher that computes all payloads first publishes stale values    *)
(* ====================================================================== *)
(* What _fire_events would be if it evaluated every getter before the first
   fire: under a re-entrant subscriber the later payloads no longer equal the
   getters at the moment of the notification.  (Shows that [pub_ok] separates
   the two; the model -- like the code -- evaluates each getter right before
   its fire.) *)
Section Stale.
  Variable N : Num.

  Definition fire_all_stale (lsub : list nat) (reenter : pst N -> payload N -> pst N)
             (p : payload N) (x : pst N) : pst N :=
    let s0 := ps_state x in
    fold_left (fun y j => if memn j lsub then deliver N reenter j (pubval N s0 p j) y else y)
              (seq 1 (nevents (kind_of N s0))) x.

  (* a subscriber reaction that just registers (no nested publication) *)
  Definition plain_reenter (tm : F N) (y : pst N) (q : payload N) : pst N :=
    set_state N (state_of (sreg N tm (ps_state y) q)) y.

  Definition one : payload N := mkP (CInt 1) ONotNumber ONotNumber.

  Theorem stale_publication_refuted :
    exists x, ~ Forall (pub_ok N)
                (ps_tr (fire_all_stale [2; 3] (plain_reenter zero) one x)).
  Proof.
    exists (mkPst (SC (mkC 1 1)) [Some one; None] [] [] false false).
    intros H. cbn in H.
    inversion H as [|r l Hr Hl]; subst. clear H Hl.
    unfold pub_ok in Hr. cbn in Hr. specialize (Hr _ eq_refl). discriminate.
  Qed.
End Stale.
