(* Counter and Tally of pydsol/core/statistics.py, written once over [Num].

   [tregister] follows Tally.register statement by statement (type check, NaN
   check, min/max := +-inf when n = 0, n += 1, delta from the OLD m1, m1, m2
   with the NEW m1, m3 and m4 with the OLD m2 / m3, sum, min, max) with
   Python's operator precedence and association, so that the binary64 instance
   reproduces CPython bit for bit.  (After the two checks the code takes
   [value = float(value)]: the identity on [ONum]'s universe -- floats, ints and
   bools exactly representable as float; a Quantity observation enters the
   correspondence runs as [ONum (float q)], its si-value.)  Every getter returns
   [Val x | NaNres | Raise k].

   The getters model the REPAIRED code (proposed_fixes/C09-*.patch):
   skewness / kurtosis test their divisors, confidence_interval returns the
   observed range for level >= 1.  The *_pinned definitions model the getters
   of the pinned tree and are used for the refutation theorems only.

   Executable definitions only (no proofs). *)
From Coq Require Import ZArith QArith Bool List.
From Coq Require PrimFloat.
From PV Require Import Stats.Num.
Import ListNotations.

(* ====================================================================== *)
(* Counter (exact integers)                                                *)
(* ====================================================================== *)
Inductive cobs := CInt (z : Z) | CNotInt.     (* isinstance(value, int) or not *)

Record cstate := mkC { ccount : Z; cn : Z }.
Definition cinit : cstate := mkC 0 0.

Definition cregister (s : cstate) (o : cobs) : outcome cstate :=
  match o with
  | CNotInt => Exn TypeError s
  | CInt z => Ok (mkC (ccount s + z) (cn s + 1))
  end.

Inductive cop := CReg (o : cobs) | CInit.
Definition cstep (s : cstate) (op : cop) : outcome cstate :=
  match op with CReg o => cregister s o | CInit => Ok cinit end.

Fixpoint crun (s : cstate) (ops : list cop) : cstate :=
  match ops with [] => s | op :: r => crun (state_of (cstep s op)) r end.

(* ====================================================================== *)
(* Tally                                                                   *)
(* ====================================================================== *)
Section TallyModel.
  Variable N : Num.
  Local Open Scope num_scope.
  Local Notation F := (F N).
  Local Notation "# z" := (@ofZ N z%Z) (at level 5, z at level 0, format "# z").

  Record tstate := mkT {
    tn : Z;                      (* _n *)
    tsum : F;                    (* _sum *)
    tm1 : F; tm2 : F; tm3 : F; tm4 : F;
    tmin : xnum F; tmax : xnum F
  }.

  Definition tinit : tstate := mkT 0 zero zero zero zero zero XNaN XNaN.

  Definition tregister (s : tstate) (o : pyarg F) : outcome tstate :=
    match o with
    | ONotNumber => Exn TypeError s
    | OHugeInt => Exn OverflowError s
    | ONaN => Exn ValueError s
    | ONum value =>
      if isnan value then Exn ValueError s else
      let mn0 := if (tn s =? 0)%Z then XPInf else tmin s in
      let mx0 := if (tn s =? 0)%Z then XNInf else tmax s in
      let n1 := (tn s + 1)%Z in
      let delta := value - tm1 s in
      let oldm2 := tm2 s in
      let oldm3 := tm3 s in
      let n := #n1 in
      if eqb n zero        (* first division by n; cannot happen, n1 >= 1 *)
      then Exn ZeroDivisionError (mkT n1 (tsum s) (tm1 s) (tm2 s) (tm3 s) (tm4 s) mn0 mx0)
      else
      let m1 := tm1 s + delta / n in
      let m2 := tm2 s + delta * (value - m1) in
      let m3 := tm3 s + (#(-3) * oldm2 * delta / n
                         + (n - #1) * (n - #2) * delta * delta * delta / n / n) in
      let m4 := tm4 s + (#(-4) * oldm3 * delta / n
                         + #6 * oldm2 * delta * delta / n / n
                         + (n - #1) * (n * n - #3 * n + #3) * delta * delta * delta
                           * delta / n / n / n) in
      let sm := tsum s + value in
      let mn := if x_gt_val mn0 value then XFin value else mn0 in
      let mx := if x_lt_val mx0 value then XFin value else mx0 in
      Ok (mkT n1 sm m1 m2 m3 m4 mn mx)
    end.

  Inductive top := TReg (o : pyarg F) | TInit.

  Definition tstep (s : tstate) (op : top) : outcome tstate :=
    match op with TReg o => tregister s o | TInit => Ok tinit end.

  Fixpoint trun (s : tstate) (ops : list top) : tstate :=
    match ops with [] => s | op :: r => trun (state_of (tstep s op)) r end.

  (* ---------------- getters ---------------- *)
  Definition g_n (s : tstate) : Z := tn s.
  Definition g_min (s : tstate) : xnum F := tmin s.
  Definition g_max (s : tstate) : xnum F := tmax s.
  Definition g_sum (s : tstate) : F := tsum s.

  Definition g_mean (s : tstate) : res F :=
    if (0 <? tn s)%Z then Val (tm1 s) else NaNres.

  Definition g_variance (biased : bool) (s : tstate) : res F :=
    if biased then
      if (0 <? tn s)%Z then pdiv (tm2 s) #(tn s) else NaNres
    else
      if (1 <? tn s)%Z then pdiv (tm2 s) #(tn s - 1) else NaNres.

  (* math.sqrt(self.variance(biased)) *)
  Definition g_stdev (biased : bool) (s : tstate) : res F :=
    match g_variance biased s with
    | Val v => psqrt v
    | NaNres => NaNres
    | Raise k => Raise k
    end.

  (* repaired skewness *)
  Definition g_skewness (biased : bool) (s : tstate) : res F :=
    let n := #(tn s) in
    if (1 <? tn s)%Z then
      match g_variance true s with
      | Raise k => Raise k
      | NaNres => NaNres                       (* nan > 0 is False *)
      | Val variance =>
        if ltb zero variance then
          match psqrt variance with
          | Raise k => Raise k
          | NaNres => NaNres
          | Val sd =>
            let denominator := variance * sd in
            if ltb zero denominator then
              match pdiv (tm3 s) n with
              | Raise k => Raise k | NaNres => NaNres
              | Val a =>
                match pdiv a denominator with
                | Raise k => Raise k | NaNres => NaNres
                | Val skew_biased =>
                  if biased then Val skew_biased
                  else if (2 <? tn s)%Z then
                    match psqrt (n * (n - #1)) with
                    | Raise k => Raise k | NaNres => NaNres
                    | Val r => pdiv (skew_biased * r) (n - #2)
                    end
                  else NaNres
                end
              end
            else NaNres
          end
        else NaNres
      end
    else NaNres.

  (* repaired kurtosis *)
  Definition g_kurtosis (biased : bool) (s : tstate) : res F :=
    if biased then
      if (2 <? tn s)%Z then
        match pdiv (tm2 s) #(tn s) with
        | Raise k => Raise k | NaNres => NaNres
        | Val d2 =>
          if ltb zero d2 then
            match pdiv (tm4 s) #(tn s) with
            | Raise k => Raise k | NaNres => NaNres
            | Val a => match pdiv a d2 with
                       | Raise k => Raise k | NaNres => NaNres
                       | Val b => pdiv b d2
                       end
            end
          else NaNres
        end
      else NaNres
    else
      if (3 <? tn s)%Z then
        match g_variance false s with
        | Raise k => Raise k | NaNres => NaNres
        | Val svar =>
          if ltb zero svar then
            match pdiv (tm4 s) #(tn s - 1) with
            | Raise k => Raise k | NaNres => NaNres
            | Val a => match pdiv a svar with
                       | Raise k => Raise k | NaNres => NaNres
                       | Val b => pdiv b svar
                       end
            end
          else NaNres
        end
      else NaNres.

  Definition g_excess_kurtosis_biased (s : tstate) : res F :=
    if (2 <? tn s)%Z then
      match g_kurtosis true s with
      | Val k => Val (k - #3)
      | NaNres => NaNres
      | Raise k => Raise k
      end
    else NaNres.

  Definition g_excess_kurtosis (biased : bool) (s : tstate) : res F :=
    if biased then g_excess_kurtosis_biased s
    else
      let n := #(tn s) in
      if (3 <? tn s)%Z then
        match g_excess_kurtosis_biased s with
        | Raise k => Raise k
        | g2r =>
          match pdiv (n - #1) (n - #2) with
          | Raise k => Raise k | NaNres => NaNres
          | Val c1 =>
            match pdiv c1 (n - #3) with
            | Raise k => Raise k | NaNres => NaNres
            | Val c =>
              match g2r with
              | Val g2 => Val (c * ((n + #1) * g2 + #6))
              | _ => NaNres
              end
            end
          end
        end
      else NaNres.

  (* the alpha argument of confidence_interval: a float, or anything else *)
  Inductive alpha_arg := ANum (a : F) | ANotFloat.

  Section CI.
    Variable icdf : F -> res F.     (* statistics.NormalDist(0,1).inv_cdf, external *)

    (* the tail shared by the repaired and the pinned getter *)
    Definition ci_tail (s : tstate) (mean : F) (level : F)
      : res (xnum F * xnum F) :=
      match icdf level with
      | Raise k => Raise k | NaNres => NaNres
      | Val z =>
        match g_variance false s with
        | Raise k => Raise k | NaNres => NaNres
        | Val v =>
          match pdiv v #(tn s) with
          | Raise k => Raise k | NaNres => NaNres
          | Val q =>
            match psqrt q with
            | Raise k => Raise k | NaNres => NaNres
            | Val r =>
              let confidence := z * r in
              Val (pymax_x (tmin s) (mean - confidence),
                   pymin_x (tmax s) (mean + confidence))
            end
          end
        end
      end.

    Definition ci_head (s : tstate) (al : alpha_arg)
               (k : F -> F -> res (xnum F * xnum F)) : res (xnum F * xnum F) :=
      match al with
      | ANotFloat => Raise TypeError
      | ANum alpha =>
        if negb (leb zero alpha && leb alpha #1) then Raise ValueError else
        match g_mean s with
        | Raise e => Raise e
        | NaNres => NaNres
        | Val mean =>
          if isnan mean then NaNres else
          match g_stdev false s with
          | Raise e => Raise e
          | NaNres => NaNres
          | Val sd =>
            if isnan sd then NaNres else
            match pdiv alpha #2 with
            | Raise e => Raise e | NaNres => NaNres
            | Val h => k mean (#1 - h)
            end
          end
        end
      end.

    (* repaired: level >= 1.0 -> (min, max) *)
    Definition g_confidence_interval (s : tstate) (al : alpha_arg)
      : res (xnum F * xnum F) :=
      ci_head s al (fun mean level =>
        if leb #1 level then Val (tmin s, tmax s) else ci_tail s mean level).

    Definition g_confidence_interval_pinned (s : tstate) (al : alpha_arg)
      : res (xnum F * xnum F) :=
      ci_head s al (fun mean level => ci_tail s mean level).
  End CI.

  (* NormalDist.inv_cdf begins with
       if p <= 0.0 or p >= 1.0: raise StatisticsError
     -- this wrapper adds that domain check to any table / function. *)
  Definition icdf_domain (f : F -> res F) (p : F) : res F :=
    if leb p zero || leb #1 p then Raise StatisticsError else f p.

  (* ---------------- the getters of the pinned tree ---------------- *)
  Section Pinned.
    Variable pow15 : F -> res F.    (* x ** 1.5, external (libm pow) *)

    Definition g_skewness_pinned (biased : bool) (s : tstate) : res F :=
      let n := #(tn s) in
      if (1 <? tn s)%Z then
        match pdiv (tm3 s) n with
        | Raise k => Raise k | NaNres => NaNres
        | Val a =>
          match g_variance true s with
          | Raise k => Raise k | NaNres => NaNres
          | Val variance =>
            match pow15 variance with
            | Raise k => Raise k | NaNres => NaNres
            | Val d =>
              match pdiv a d with
              | Raise k => Raise k | NaNres => NaNres
              | Val skew_biased =>
                if biased then Val skew_biased
                else if (2 <? tn s)%Z then
                  match psqrt (n * (n - #1)) with
                  | Raise k => Raise k | NaNres => NaNres
                  | Val r => pdiv (skew_biased * r) (n - #2)
                  end
                else NaNres
              end
            end
          end
        end
      else NaNres.
  End Pinned.

  Definition g_kurtosis_pinned (biased : bool) (s : tstate) : res F :=
    if biased then
      if (2 <? tn s)%Z then
        match pdiv (tm2 s) #(tn s) with
        | Raise k => Raise k | NaNres => NaNres
        | Val d2 =>
          match pdiv (tm4 s) #(tn s) with
          | Raise k => Raise k | NaNres => NaNres
          | Val a => match pdiv a d2 with
                     | Raise k => Raise k | NaNres => NaNres
                     | Val b => pdiv b d2
                     end
          end
        end
      else NaNres
    else
      if (3 <? tn s)%Z then
        match g_variance false s with
        | Raise k => Raise k | NaNres => NaNres
        | Val svar =>
          match pdiv (tm4 s) #(tn s - 1) with
          | Raise k => Raise k | NaNres => NaNres
          | Val a => match pdiv a svar with
                     | Raise k => Raise k | NaNres => NaNres
                     | Val b => pdiv b svar
                     end
          end
        end
      else NaNres.
End TallyModel.

Arguments mkT {N} _ _ _ _ _ _ _ _.
Arguments tn {N} _.
Arguments tsum {N} _.
Arguments tm1 {N} _.
Arguments tm2 {N} _.
Arguments tm3 {N} _.
Arguments tm4 {N} _.
Arguments tmin {N} _.
Arguments tmax {N} _.
Arguments TReg {N} o.
Arguments TInit {N}.
Arguments ANum {N} a.
Arguments ANotFloat {N}.

(* ====================================================================== *)
(* Correspondence with the implementation (binary64 instance)              *)
(* ====================================================================== *)
Local Notation fl := PrimFloat.float.

(* all getters of a Tally as observed on the implementation *)
Record tsnap := mkTS {
  sn_n : Z;
  sn_min : fl; sn_max : fl; sn_sum : fl;
  sn_mean : gres;
  sn_var_b : gres; sn_var_u : gres;
  sn_sd_b : gres; sn_sd_u : gres;
  sn_skew_b : gres; sn_skew_u : gres;
  sn_kurt_b : gres; sn_kurt_u : gres;
  sn_ek_b : gres; sn_ek_u : gres;
  sn_ci : list (alpha_arg NumF * gres2)
}.

Definition tsnap_checks (icdf : fl -> res fl) (s : tstate NumF) (p : tsnap) : list bool :=
  [ Z.eqb (g_n NumF s) (sn_n p);
    xnum_match (g_min NumF s) (sn_min p);
    xnum_match (g_max NumF s) (sn_max p);
    feq (g_sum NumF s) (sn_sum p);
    res_match (g_mean NumF s) (sn_mean p);
    res_match (g_variance NumF true s) (sn_var_b p);
    res_match (g_variance NumF false s) (sn_var_u p);
    res_match (g_stdev NumF true s) (sn_sd_b p);
    res_match (g_stdev NumF false s) (sn_sd_u p);
    res_match (g_skewness NumF true s) (sn_skew_b p);
    res_match (g_skewness NumF false s) (sn_skew_u p);
    res_match (g_kurtosis NumF true s) (sn_kurt_b p);
    res_match (g_kurtosis NumF false s) (sn_kurt_u p);
    res_match (g_excess_kurtosis NumF true s) (sn_ek_b p);
    res_match (g_excess_kurtosis NumF false s) (sn_ek_u p);
    forallb (fun ag => res2_match (g_confidence_interval NumF icdf s (fst ag)) (snd ag)) (sn_ci p) ].

Fixpoint first_false (i : nat) (l : list bool) : option nat :=
  match l with [] => None | b :: r => if b then first_false (S i) r else Some i end.

(* one step of a case: the operation, how the implementation's call ended,
   and (for a sample of steps) the getters observed afterwards *)
Definition tcase_step := (top NumF * ekind * option tsnap)%type.

(* first disagreement: (step index, getter index; 99 = outcome kind) *)
Fixpoint tcase_diag (icdf : fl -> res fl) (i : nat) (s : tstate NumF) (c : list tcase_step)
  : option (nat * nat) :=
  match c with
  | [] => None
  | (op, e, sn) :: r =>
    let o := tstep NumF s op in
    if negb (kind_match o e) then Some (i, 99%nat) else
    let s' := state_of o in
    match sn with
    | None => tcase_diag icdf (S i) s' r
    | Some p =>
      match first_false 0%nat (tsnap_checks icdf s' p) with
      | Some g => Some (i, g)
      | None => tcase_diag icdf (S i) s' r
      end
    end
  end.

Definition tcase_ok (tab : list (fl * fl)) (c : list tcase_step) : bool :=
  match tcase_diag (icdf_domain NumF (tab_lookup tab)) 0%nat (tinit NumF) c with
  | None => true | Some _ => false
  end.

(* Counter cases *)
Definition ccase_step := (cop * ekind * option (Z * Z))%type.     (* (count, n) *)

Fixpoint ccase_diag (i : nat) (s : cstate) (c : list ccase_step) : option nat :=
  match c with
  | [] => None
  | (op, e, sn) :: r =>
    let o := cstep s op in
    if negb (kind_match o e) then Some i else
    let s' := state_of o in
    match sn with
    | None => ccase_diag (S i) s' r
    | Some (c0, n0) =>
      if Z.eqb (ccount s') c0 && Z.eqb (cn s') n0 then ccase_diag (S i) s' r else Some i
    end
  end.

Definition ccase_ok (c : list ccase_step) : bool :=
  match ccase_diag 0%nat cinit c with None => true | Some _ => false end.
