(* C09 / C10 -- the model regenerated from the source IS the proved model.

   Stats/Gen_Stats.v is written by translator/py2gallina_stats.py from the text of
   src/pydsol/core/statistics.py of the tree under test (method bodies of Counter,
   Tally, WeightedTally, TimestampWeightedTally; Python's `ast`, fail-closed).
   This file proves, for every translated method, that the generated definition
   equals the hand-written model function of Stats/Tally.v, Stats/Weighted.v,
   Stats/Timestamp.v -- for ALL states and arguments and for EVERY instance of the
   arithmetic record [Num] (so also for the executed binary64 one), by unfolding
   both sides and case analysis on the branch conditions; no arithmetic fact is
   used.  Two exceptions, stated as hypotheses of the theorems concerned:

   - skewness and excess_kurtosis test  float(self._n) > k  in the source while
     the model tests the integer count: equal for every arithmetic whose int ->
     float conversion preserves the order of small integers ([ofZ_order], proved
     for the rationals below);
   - confidence_interval: the model propagates a NaN answer of the external
     inv_cdf as NaN, the source would clip it away; equal for every inv_cdf that
     never answers NaN ([icdf_no_nan]; the recorded table of the tie and the
     contract of the theorems are of that kind).

   Every theorem of Props/C09.v and Props/C10.v is about the hand-written
   functions, hence -- by rewriting with the equalities below -- about the
   current source text.  The file is compiled against the generated file on
   every run of the checks; when a change of statistics.py makes an equality
   false, it no longer compiles and the check reports the broken tie. *)
From Coq Require Import ZArith QArith Bool List.
From PV Require Import Stats.Num Stats.Tally Stats.Weighted Stats.Timestamp.
From PV Require Import Stats.Gen_Stats.
Import ListNotations.

(* case analysis on the innermost scrutinee of a match / if, until none is left *)
Ltac brk_step :=
  match goal with
  | |- context [match ?x with _ => _ end] =>
    lazymatch x with
    | context [match _ with _ => _ end] => fail
    | _ => destruct x eqn:?
    end
  end.
Ltac nrm := cbv beta iota zeta delta [negb].
Ltac nrm2 := cbv beta iota zeta delta [negb andb orb].
Ltac brk := nrm; repeat (brk_step; nrm); try reflexivity.

Ltac unf_prelude :=
  unfold py_arg_is_number, py_arg_isnan_raises, py_arg_isnan_true, py_arg_num, py_alpha_is_float,
         py_alpha_num, py_opt_isnan, py_cobs_is_int, py_cobs_int, py_name_is_str, pymin,
         arg_not_number, arg_isnan_exn, arg_val, pdiv, psqrt in *.

(* ====================================================================== *)
(* Counter                                                                 *)
(* ====================================================================== *)
Theorem gen_Counter_initialize_eq : forall s, gen_Counter_initialize s = Ok cinit.
Proof. reflexivity. Qed.

Theorem gen_Counter_init_eq : forall s,
  gen_Counter___init__ s NameStr = Ok cinit /\ gen_Counter___init__ s NameOther = Exn TypeError s.
Proof. split; reflexivity. Qed.

Theorem gen_Counter_register_eq : forall s o, gen_Counter_register s o = cregister s o.
Proof. intros s [z |]; reflexivity. Qed.

Theorem gen_Counter_count_eq : forall s, gen_Counter_count s = ccount s.
Proof. reflexivity. Qed.

Theorem gen_Counter_n_eq : forall s, gen_Counter_n s = cn s.
Proof. reflexivity. Qed.

(* one step of the Counter model, with the generated functions *)
Theorem gen_Counter_step_eq : forall s op,
  cstep s op = match op with CReg o => gen_Counter_register s o | CInit => gen_Counter_initialize s end.
Proof. intros s [o |]; [rewrite gen_Counter_register_eq |]; reflexivity. Qed.

Section Agree.
  Variable N : Num.

  (* ==================================================================== *)
  (* Tally                                                                 *)
  (* ==================================================================== *)
  Theorem gen_Tally_initialize_eq : forall s, gen_Tally_initialize N s = Ok (tinit N).
  Proof. reflexivity. Qed.

  Theorem gen_Tally_init_eq : forall s,
    gen_Tally___init__ N s NameStr = Ok (tinit N) /\ gen_Tally___init__ N s NameOther = Exn TypeError s.
  Proof. split; reflexivity. Qed.

  Theorem gen_Tally_register_eq : forall s o, gen_Tally_register N s o = tregister N s o.
  Proof.
    intros s o. unfold gen_Tally_register, tregister. unf_prelude.
    destruct o as [v | | |]; nrm; try reflexivity.
    destruct (isnan v); nrm; [reflexivity |].
    destruct (eqb (ofZ (tn s + 1)) zero) eqn:E; nrm; reflexivity.
  Qed.

  Theorem gen_Tally_step_eq : forall s op,
    tstep N s op = match op with TReg o => gen_Tally_register N s o | TInit => gen_Tally_initialize N s end.
  Proof. intros s [o |]; [rewrite gen_Tally_register_eq |]; reflexivity. Qed.

  Theorem gen_Tally_n_eq : forall s, gen_Tally_n N s = g_n N s.
  Proof. reflexivity. Qed.
  Theorem gen_Tally_sum_eq : forall s, gen_Tally_sum N s = g_sum N s.
  Proof. reflexivity. Qed.
  Theorem gen_Tally_min_eq : forall s, gen_Tally_min N s = g_min N s.
  Proof. reflexivity. Qed.
  Theorem gen_Tally_max_eq : forall s, gen_Tally_max N s = g_max N s.
  Proof. reflexivity. Qed.

  Theorem gen_Tally_mean_eq : forall s, gen_Tally_mean N s = g_mean N s.
  Proof. reflexivity. Qed.

  Theorem gen_Tally_variance_eq : forall s b, gen_Tally_variance N s b = g_variance N b s.
  Proof. intros s b. unfold gen_Tally_variance, g_variance. unf_prelude. brk. Qed.

  Theorem gen_Tally_stdev_eq : forall s b, gen_Tally_stdev N s b = g_stdev N b s.
  Proof.
    intros s b. unfold gen_Tally_stdev, g_stdev. rewrite gen_Tally_variance_eq. unf_prelude.
    destruct (g_variance N b s); brk.
  Qed.

  Theorem gen_Tally_kurtosis_eq : forall s b, gen_Tally_kurtosis N s b = g_kurtosis N b s.
  Proof.
    intros s b. unfold gen_Tally_kurtosis, g_kurtosis. rewrite gen_Tally_variance_eq. unf_prelude.
    destruct b; nrm.
    - brk.
    - destruct (g_variance N false s); brk.
  Qed.

  (* the int -> float conversion preserves the strict order of integers *)
  Definition ofZ_order : Prop := forall a b : Z, @ltb N (ofZ a) (ofZ b) = (a <? b)%Z.

  Theorem gen_Tally_skewness_eq : ofZ_order ->
    forall s b, gen_Tally_skewness N s b = g_skewness N b s.
  Proof.
    intros H s b. unfold gen_Tally_skewness, g_skewness. rewrite gen_Tally_variance_eq. unf_prelude.
    nrm. rewrite !H.
    destruct (1 <? tn s)%Z; [| reflexivity].
    destruct (g_variance N true s); brk.
  Qed.

  Theorem gen_Tally_excess_kurtosis_biased_eq : ofZ_order ->
    forall s, gen_Tally_excess_kurtosis__biased_true N s = g_excess_kurtosis_biased N s.
  Proof.
    intros H s. unfold gen_Tally_excess_kurtosis__biased_true, g_excess_kurtosis_biased.
    rewrite gen_Tally_kurtosis_eq. nrm. rewrite !H.
    destruct (2 <? tn s)%Z; [| reflexivity]. destruct (g_kurtosis N true s); reflexivity.
  Qed.

  Theorem gen_Tally_excess_kurtosis_eq : ofZ_order ->
    forall s b, gen_Tally_excess_kurtosis N s b = g_excess_kurtosis N b s.
  Proof.
    intros H s b. unfold gen_Tally_excess_kurtosis, g_excess_kurtosis.
    rewrite gen_Tally_excess_kurtosis_biased_eq by exact H. rewrite gen_Tally_kurtosis_eq.
    unfold g_excess_kurtosis_biased. unf_prelude. nrm. rewrite !H.
    destruct b; nrm.
    - destruct (2 <? tn s)%Z; [| reflexivity]. destruct (g_kurtosis N true s); reflexivity.
    - destruct (3 <? tn s)%Z; [| reflexivity].
      destruct (2 <? tn s)%Z; [destruct (g_kurtosis N true s) |]; brk.
  Qed.

  (* an inverse normal cdf that never answers NaN *)
  Definition icdf_no_nan (icdf : F N -> res (F N)) : Prop := forall p, icdf p <> NaNres.

  Theorem gen_Tally_confidence_interval_eq : forall icdf, icdf_no_nan icdf ->
    forall s al, gen_Tally_confidence_interval N icdf s al = g_confidence_interval N icdf s al.
  Proof.
    intros icdf H s al.
    unfold gen_Tally_confidence_interval, g_confidence_interval, ci_head, ci_tail.
    rewrite gen_Tally_mean_eq, gen_Tally_stdev_eq, !gen_Tally_variance_eq.
    unfold g_stdev. unf_prelude.
    destruct al as [a |]; nrm; [| reflexivity].
    destruct (leb zero a && leb a (ofZ 1)); nrm; [| reflexivity].
    destruct (g_mean N s) as [mean | |]; nrm; try reflexivity.
    destruct (isnan mean); [reflexivity |].
    destruct (g_variance N false s) as [v | |]; nrm; try reflexivity.
    destruct (ltb v zero); nrm; [reflexivity |].
    destruct (isnan (sqrt v)); [reflexivity |].
    destruct (eqb (ofZ 2) zero); nrm; [reflexivity |].
    destruct (leb (ofZ 1) (sub (ofZ 1) (div a (ofZ 2)))); [reflexivity |].
    pose proof (H (sub (ofZ 1) (div a (ofZ 2)))) as Hn.
    destruct (icdf (sub (ofZ 1) (div a (ofZ 2)))) as [z | |]; [| contradiction | reflexivity].
    brk.
  Qed.

  (* ==================================================================== *)
  (* WeightedTally                                                         *)
  (* ==================================================================== *)
  Theorem gen_WeightedTally_initialize_eq : forall s, gen_WeightedTally_initialize N s = Ok (winit N).
  Proof. reflexivity. Qed.

  Theorem gen_WeightedTally_init_eq : forall s,
    gen_WeightedTally___init__ N s NameStr = Ok (winit N) /\
    gen_WeightedTally___init__ N s NameOther = Exn TypeError s.
  Proof. split; reflexivity. Qed.

  Theorem gen_WeightedTally_register_eq : forall s ow ov,
    gen_WeightedTally_register N s ow ov = wregister N s ow ov.
  Proof.
    intros s ow ov. unfold gen_WeightedTally_register, wregister, wregister_gen. unf_prelude.
    destruct ow as [w | | |], ov as [v | | |]; nrm; try reflexivity; brk.
  Qed.

  Theorem gen_WeightedTally_step_eq : forall s op,
    wstep N s op = match op with
                   | WReg ow ov => gen_WeightedTally_register N s ow ov
                   | WInit => gen_WeightedTally_initialize N s
                   end.
  Proof. intros s [ow ov |]; [rewrite gen_WeightedTally_register_eq |]; reflexivity. Qed.

  Theorem gen_WeightedTally_n_eq : forall s, gen_WeightedTally_n N s = gw_n N s.
  Proof. reflexivity. Qed.
  Theorem gen_WeightedTally_min_eq : forall s, gen_WeightedTally_min N s = gw_min N s.
  Proof. reflexivity. Qed.
  Theorem gen_WeightedTally_max_eq : forall s, gen_WeightedTally_max N s = gw_max N s.
  Proof. reflexivity. Qed.
  Theorem gen_WeightedTally_weighted_sum_eq : forall s, gen_WeightedTally_weighted_sum N s = gw_sum N s.
  Proof. reflexivity. Qed.
  Theorem gen_WeightedTally_weighted_mean_eq : forall s, gen_WeightedTally_weighted_mean N s = gw_mean N s.
  Proof. reflexivity. Qed.

  Theorem gen_WeightedTally_weighted_variance_eq : forall s b,
    gen_WeightedTally_weighted_variance N s b = gw_variance N b s.
  Proof. intros s b. unfold gen_WeightedTally_weighted_variance, gw_variance. unf_prelude. brk. Qed.

  Theorem gen_WeightedTally_weighted_stdev_eq : forall s b,
    gen_WeightedTally_weighted_stdev N s b = gw_stdev N b s.
  Proof.
    intros s b. unfold gen_WeightedTally_weighted_stdev, gw_stdev.
    rewrite gen_WeightedTally_weighted_variance_eq. unf_prelude. destruct (gw_variance N b s); brk.
  Qed.

  (* ==================================================================== *)
  (* TimestampWeightedTally                                                *)
  (* ==================================================================== *)
  Theorem gen_TimestampWeightedTally_initialize_eq : forall s,
    gen_TimestampWeightedTally_initialize N s = Ok (tsinit N).
  Proof. reflexivity. Qed.

  Theorem gen_TimestampWeightedTally_register_eq : forall s ot ov,
    gen_TimestampWeightedTally_register N s ot ov = tsregister N s ot ov.
  Proof.
    intros s ot ov. unfold gen_TimestampWeightedTally_register, tsregister.
    unf_prelude.
    destruct ot as [t | | |], ov as [v | | |]; nrm2; try reflexivity;
      try (destruct (isnan v); reflexivity).
    destruct (isnan v); nrm2; [reflexivity |].
    destruct (isnan t); nrm2; [reflexivity |].
    destruct (ts_last s) as [l |]; nrm2.
    - destruct (ltb t l); nrm2; [reflexivity |].
      destruct (ltb l t); nrm2; [| reflexivity].
      destruct (ts_active s); nrm2; [| reflexivity].
      destruct (ts_start s); nrm2; rewrite ?gen_WeightedTally_register_eq; reflexivity.
    - destruct (ts_active s); nrm2; [| reflexivity].
      destruct (ts_start s); nrm2; rewrite ?gen_WeightedTally_register_eq; reflexivity.
  Qed.

  Theorem gen_TimestampWeightedTally_end_observations_eq : forall s ot,
    gen_TimestampWeightedTally_end_observations N s ot = ts_end N s ot.
  Proof.
    intros s ot. unfold gen_TimestampWeightedTally_end_observations, ts_end.
    rewrite gen_TimestampWeightedTally_register_eq.
    destruct (tsregister N s ot (ONum (ts_lastval s))); reflexivity.
  Qed.

  Theorem gen_TimestampWeightedTally_step_eq : forall s op,
    tsstep N s op = match op with
                    | TsReg ot ov => gen_TimestampWeightedTally_register N s ot ov
                    | TsEnd ot => gen_TimestampWeightedTally_end_observations N s ot
                    | TsInit => gen_TimestampWeightedTally_initialize N s
                    end.
  Proof.
    intros s [ot ov | ot |];
      [rewrite gen_TimestampWeightedTally_register_eq
      | rewrite gen_TimestampWeightedTally_end_observations_eq |]; reflexivity.
  Qed.

  Theorem gen_TimestampWeightedTally_isactive_eq : forall s,
    gen_TimestampWeightedTally_isactive N s = gts_isactive N s.
  Proof. reflexivity. Qed.
  Theorem gen_TimestampWeightedTally_last_value_eq : forall s,
    gen_TimestampWeightedTally_last_value N s = gts_last_value N s.
  Proof. reflexivity. Qed.
End Agree.

(* ====================================================================== *)
(* The order law holds in exact arithmetic                                 *)
(* ====================================================================== *)
Lemma ofZ_order_Q : forall sq, ofZ_order (NumQ sq).
Proof.
  intros sq a b. cbn [ltb ofZ NumQ].
  destruct (Z.ltb_spec a b) as [L | L].
  - destruct (Qle_bool (inject_Z b) (inject_Z a)) eqn:E; [| reflexivity].
    apply Qle_bool_iff in E. rewrite <- Zle_Qle in E. exfalso. apply (Z.lt_irrefl a).
    apply Z.lt_le_trans with b; assumption.
  - assert (E : Qle_bool (inject_Z b) (inject_Z a) = true) by (apply Qle_bool_iff; rewrite <- Zle_Qle; exact L).
    rewrite E. reflexivity.
Qed.

(* ====================================================================== *)
(* Histories: running the model = running the generated functions          *)
(* ====================================================================== *)
Section Runs.
  Variable N : Num.

  Definition gen_tstep (s : tstate N) (op : top N) : outcome (tstate N) :=
    match op with TReg o => gen_Tally_register N s o | TInit => gen_Tally_initialize N s end.
  Fixpoint gen_trun (s : tstate N) (ops : list (top N)) : tstate N :=
    match ops with [] => s | op :: r => gen_trun (state_of (gen_tstep s op)) r end.

  Theorem gen_trun_eq : forall ops s, gen_trun s ops = trun N s ops.
  Proof.
    induction ops as [| op r IH]; intros s; [reflexivity |].
    cbn [gen_trun trun]. unfold gen_tstep. rewrite <- gen_Tally_step_eq. apply IH.
  Qed.

  Definition gen_wstep (s : wstate N) (op : wop N) : outcome (wstate N) :=
    match op with
    | WReg ow ov => gen_WeightedTally_register N s ow ov
    | WInit => gen_WeightedTally_initialize N s
    end.
  Fixpoint gen_wrun (s : wstate N) (ops : list (wop N)) : wstate N :=
    match ops with [] => s | op :: r => gen_wrun (state_of (gen_wstep s op)) r end.

  Theorem gen_wrun_eq : forall ops s, gen_wrun s ops = wrun N s ops.
  Proof.
    induction ops as [| op r IH]; intros s; [reflexivity |].
    cbn [gen_wrun wrun]. unfold gen_wstep. rewrite <- gen_WeightedTally_step_eq. apply IH.
  Qed.

  Definition gen_tsstep (s : tsstate N) (op : tsop N) : outcome (tsstate N) :=
    match op with
    | TsReg ot ov => gen_TimestampWeightedTally_register N s ot ov
    | TsEnd ot => gen_TimestampWeightedTally_end_observations N s ot
    | TsInit => gen_TimestampWeightedTally_initialize N s
    end.
  Fixpoint gen_tsrun (s : tsstate N) (ops : list (tsop N)) : tsstate N :=
    match ops with [] => s | op :: r => gen_tsrun (state_of (gen_tsstep s op)) r end.

  Theorem gen_tsrun_eq : forall ops s, gen_tsrun s ops = tsrun N s ops.
  Proof.
    induction ops as [| op r IH]; intros s; [reflexivity |].
    cbn [gen_tsrun tsrun]. unfold gen_tsstep. rewrite <- gen_TimestampWeightedTally_step_eq. apply IH.
  Qed.
End Runs.

Definition gen_cstep (s : cstate) (op : cop) : outcome cstate :=
  match op with CReg o => gen_Counter_register s o | CInit => gen_Counter_initialize s end.
Fixpoint gen_crun (s : cstate) (ops : list cop) : cstate :=
  match ops with [] => s | op :: r => gen_crun (state_of (gen_cstep s op)) r end.

Theorem gen_crun_eq : forall ops s, gen_crun s ops = crun s ops.
Proof.
  induction ops as [| op r IH]; intros s; [reflexivity |].
  cbn [gen_crun crun]. unfold gen_cstep. rewrite <- gen_Counter_step_eq. apply IH.
Qed.

(* ====================================================================== *)
(* Summaries quoted by Props/C09.v and Props/C10.v                          *)
(* ====================================================================== *)
Theorem tally_counter_generated_agree : forall N : Num,
  (forall s o, gen_Tally_register N s o = tregister N s o) /\
  (forall s, gen_Tally_initialize N s = Ok (tinit N)) /\
  (forall s, gen_Tally___init__ N s NameStr = Ok (tinit N) /\
             gen_Tally___init__ N s NameOther = Exn TypeError s) /\
  (forall s, gen_Tally_n N s = g_n N s /\ gen_Tally_sum N s = g_sum N s /\
             gen_Tally_min N s = g_min N s /\ gen_Tally_max N s = g_max N s /\
             gen_Tally_mean N s = g_mean N s) /\
  (forall s b, gen_Tally_variance N s b = g_variance N b s /\
               gen_Tally_stdev N s b = g_stdev N b s /\
               gen_Tally_kurtosis N s b = g_kurtosis N b s) /\
  (ofZ_order N -> forall s b, gen_Tally_skewness N s b = g_skewness N b s /\
                              gen_Tally_excess_kurtosis N s b = g_excess_kurtosis N b s) /\
  (forall icdf, icdf_no_nan N icdf -> forall s al,
     gen_Tally_confidence_interval N icdf s al = g_confidence_interval N icdf s al) /\
  (forall s o, gen_Counter_register s o = cregister s o) /\
  (forall s, gen_Counter_initialize s = Ok cinit) /\
  (forall s, gen_Counter_count s = ccount s /\ gen_Counter_n s = cn s) /\
  (forall ops s, gen_trun N s ops = trun N s ops) /\
  (forall ops s, gen_crun s ops = crun s ops).
Proof.
  intros N.
  split; [exact (gen_Tally_register_eq N) |].
  split; [exact (gen_Tally_initialize_eq N) |].
  split; [exact (gen_Tally_init_eq N) |].
  split; [intros s; repeat split |].
  split; [intros s b; split; [apply gen_Tally_variance_eq | split; [apply gen_Tally_stdev_eq | apply gen_Tally_kurtosis_eq]] |].
  split; [intros H s b; split; [apply gen_Tally_skewness_eq | apply gen_Tally_excess_kurtosis_eq]; exact H |].
  split; [exact (gen_Tally_confidence_interval_eq N) |].
  split; [exact gen_Counter_register_eq |].
  split; [exact gen_Counter_initialize_eq |].
  split; [intros s; split; reflexivity |].
  split; [exact (gen_trun_eq N) | exact gen_crun_eq].
Qed.

Theorem weighted_timestamp_generated_agree : forall N : Num,
  (forall s ow ov, gen_WeightedTally_register N s ow ov = wregister N s ow ov) /\
  (forall s, gen_WeightedTally_initialize N s = Ok (winit N)) /\
  (forall s, gen_WeightedTally___init__ N s NameStr = Ok (winit N) /\
             gen_WeightedTally___init__ N s NameOther = Exn TypeError s) /\
  (forall s, gen_WeightedTally_n N s = gw_n N s /\ gen_WeightedTally_min N s = gw_min N s /\
             gen_WeightedTally_max N s = gw_max N s /\ gen_WeightedTally_weighted_sum N s = gw_sum N s /\
             gen_WeightedTally_weighted_mean N s = gw_mean N s) /\
  (forall s b, gen_WeightedTally_weighted_variance N s b = gw_variance N b s /\
               gen_WeightedTally_weighted_stdev N s b = gw_stdev N b s) /\
  (forall s ot ov, gen_TimestampWeightedTally_register N s ot ov = tsregister N s ot ov) /\
  (forall s ot, gen_TimestampWeightedTally_end_observations N s ot = ts_end N s ot) /\
  (forall s, gen_TimestampWeightedTally_initialize N s = Ok (tsinit N)) /\
  (forall s, gen_TimestampWeightedTally_isactive N s = gts_isactive N s /\
             gen_TimestampWeightedTally_last_value N s = gts_last_value N s) /\
  (forall ops s, gen_wrun N s ops = wrun N s ops) /\
  (forall ops s, gen_tsrun N s ops = tsrun N s ops).
Proof.
  intros N.
  split; [exact (gen_WeightedTally_register_eq N) |].
  split; [exact (gen_WeightedTally_initialize_eq N) |].
  split; [exact (gen_WeightedTally_init_eq N) |].
  split; [intros s; repeat split |].
  split; [intros s b; split; [apply gen_WeightedTally_weighted_variance_eq | apply gen_WeightedTally_weighted_stdev_eq] |].
  split; [exact (gen_TimestampWeightedTally_register_eq N) |].
  split; [exact (gen_TimestampWeightedTally_end_observations_eq N) |].
  split; [exact (gen_TimestampWeightedTally_initialize_eq N) |].
  split; [intros s; split; reflexivity |].
  split; [exact (gen_wrun_eq N) | exact (gen_tsrun_eq N)].
Qed.
