(* C10 -- proofs about the WeightedTally model of Stats/Weighted.v in exact
   rational arithmetic (instance [NumQ sq]), plus the rejection / reset facts
   that hold for every arithmetic instance.

   An observation is a pair (weight, value).  [wpos obs] are the positively
   weighted ones; [sw], [swx], [wmean_def], [wcen2], [wvar_def] are the textbook
   weighted sums over a list of pairs.  The theorems say: after any history the
   accumulators are those sums over exactly the positively weighted valid
   observations since the last initialize, while n / min / max range over all
   valid observations; each getter equals its definition or is NaN, and never
   raises. *)
From Coq Require Import ZArith QArith Qfield Qminmax Bool List Lia Lqa.
From PV Require Import Stats.Num Stats.Tally Stats.TallyProofs Stats.Weighted.
Import ListNotations.
Local Open Scope Q_scope.

(* ====================================================================== *)
(* Textbook definitions over a list of (weight, value) pairs               *)
(* ====================================================================== *)
Definition wpositive (p : Q * Q) : bool := negb (Qle_bool (fst p) 0).
Definition wpos (obs : list (Q * Q)) : list (Q * Q) := filter wpositive obs.

Fixpoint sw (obs : list (Q * Q)) : Q :=            (* sum of weights *)
  match obs with [] => 0 | (w, _) :: r => w + sw r end.
Fixpoint swx (obs : list (Q * Q)) : Q :=           (* sum of weight * value *)
  match obs with [] => 0 | (w, x) :: r => w * x + swx r end.
Fixpoint swxx (obs : list (Q * Q)) : Q :=          (* sum of weight * value^2 (proofs only) *)
  match obs with [] => 0 | (w, x) :: r => w * x * x + swxx r end.
Definition wmean_def (obs : list (Q * Q)) : Q := swx obs / sw obs.
Fixpoint wcen2 (c : Q) (obs : list (Q * Q)) : Q := (* sum of weight * (value - c)^2 *)
  match obs with [] => 0 | (w, x) :: r => w * (x - c) ^ 2 + wcen2 c r end.
Definition wvar_def (obs : list (Q * Q)) : Q := wcen2 (wmean_def obs) obs / sw obs.
Definition lenQ {A} (l : list A) : Q := inject_Z (Z.of_nat (length l)).
Definition wsamvar_def (obs : list (Q * Q)) : Q :=
  wvar_def obs * lenQ obs / (lenQ obs - 1).

(* ---------- elementary facts ---------- *)
Lemma wpositive_true : forall w x, wpositive (w, x) = true <-> 0 < w.
Proof.
  intros. unfold wpositive. cbn [fst]. rewrite negb_true_iff. split; intros H.
  - apply Qnot_le_lt. intros L. apply Qle_bool_iff in L. congruence.
  - destruct (Qle_bool w 0) eqn:E; [apply Qle_bool_iff in E; lra | reflexivity].
Qed.

Lemma wpositive_false : forall w x, wpositive (w, x) = false <-> w <= 0.
Proof. intros. unfold wpositive. cbn [fst]. rewrite negb_false_iff. apply Qle_bool_iff. Qed.

Lemma wpos_app1 : forall obs p, wpos (obs ++ [p]) = if wpositive p then wpos obs ++ [p] else wpos obs.
Proof.
  intros. unfold wpos. rewrite filter_app. cbn [filter]. destruct (wpositive p); [reflexivity | apply app_nil_r].
Qed.

Lemma sw_app1 : forall obs w x, sw (obs ++ [(w, x)]) == sw obs + w.
Proof. induction obs as [| [a b] r IH]; intros; cbn [sw app]; [ring | rewrite IH; ring]. Qed.
Lemma swx_app1 : forall obs w x, swx (obs ++ [(w, x)]) == swx obs + w * x.
Proof. induction obs as [| [a b] r IH]; intros; cbn [swx app]; [ring | rewrite IH; ring]. Qed.
Lemma swxx_app1 : forall obs w x, swxx (obs ++ [(w, x)]) == swxx obs + w * x * x.
Proof. induction obs as [| [a b] r IH]; intros; cbn [swxx app]; [ring | rewrite IH; ring]. Qed.

Lemma wcen2_raw : forall c obs, wcen2 c obs == swxx obs - 2 * c * swx obs + sw obs * c * c.
Proof. induction obs as [| [a b] r IH]; cbn [wcen2 swxx swx sw]; [ring | rewrite IH; ring]. Qed.

Definition all_positive (obs : list (Q * Q)) : Prop := Forall (fun p => 0 < fst p) obs.

Lemma wpos_all_positive : forall obs, all_positive (wpos obs).
Proof.
  intros. unfold all_positive, wpos. apply Forall_forall. intros [w x] H.
  apply filter_In in H. destruct H as [_ H]. apply wpositive_true in H. exact H.
Qed.

Lemma sw_nonneg : forall obs, all_positive obs -> 0 <= sw obs.
Proof.
  induction obs as [| [w x] r IH]; intros H; cbn [sw]; [apply Qle_refl |].
  inversion H; subst. cbn [fst] in *. specialize (IH H3). lra.
Qed.

Lemma sw_pos : forall obs, all_positive obs -> obs <> [] -> 0 < sw obs.
Proof.
  intros [| [w x] r] H NE; [congruence |]. cbn [sw]. inversion H; subst. cbn [fst] in *.
  pose proof (sw_nonneg r H3). lra.
Qed.

Lemma wcen2_nonneg : forall c obs, all_positive obs -> 0 <= wcen2 c obs.
Proof.
  induction obs as [| [w x] r IH]; intros H; cbn [wcen2]; [apply Qle_refl |].
  inversion H; subst. cbn [fst] in *. specialize (IH H3).
  assert (E : (x - c) ^ 2 == (x - c) * (x - c)) by ring.
  pose proof (Qsq_nonneg (x - c)).
  assert (0 <= w * (x - c) ^ 2) by (rewrite E; apply Qmult_le_0_compat; lra).
  lra.
Qed.

Lemma lenQ_nonneg : forall A (l : list A), 0 <= lenQ l.
Proof. intros. unfold lenQ. change 0 with (inject_Z 0). rewrite <- Zle_Qle. lia. Qed.

Lemma lenQ_ge : forall A (l : list A) k, (k <= length l)%nat -> inject_Z (Z.of_nat k) <= lenQ l.
Proof. intros. unfold lenQ. rewrite <- Zle_Qle. lia. Qed.

(* the clamped increment: nonnegative, so max(increment, 0) is the increment *)
Lemma increment_nonneg : forall W w m x, 0 <= W -> 0 < w ->
  0 <= w * (x - m) * (x - (m + w / (W + w) * (x - m))).
Proof.
  intros W w m x HW Hw.
  assert (E : w * (x - m) * (x - (m + w / (W + w) * (x - m)))
              == (w * (W / (W + w))) * ((x - m) * (x - m))) by (field; lra).
  rewrite E. apply Qmult_le_0_compat; [| apply Qsq_nonneg].
  apply Qmult_le_0_compat; [lra |]. apply Qle_shift_div_l; lra.
Qed.

Lemma nil_dec_pair : forall l : list (Q * Q), {l = []} + {l <> []}.
Proof. destruct l; [left; reflexivity | right; discriminate]. Qed.

(* ====================================================================== *)
(* The model in exact arithmetic                                           *)
(* ====================================================================== *)
Section WeightedQ.
  Variable sq : Q -> Q.
  Hypothesis sq_proper : forall a b, a == b -> sq a == sq b.

  Local Notation NQ := (NumQ sq).

  Definition wreg (p : Q * Q) : wop NQ := @WReg NQ (@ONum (F NQ) (fst p)) (@ONum (F NQ) (snd p)).
  Definition wtally_of (obs : list (Q * Q)) : wstate NQ := wrun NQ (winit NQ) (map wreg obs).

  Local Instance sq_Proper_w : Proper (Qeq ==> Qeq) sq.
  Proof. intros a b H. apply sq_proper. exact H. Qed.

  (* ---------- the accumulator invariant ---------- *)
  Record wacc_ok (obs : list (Q * Q)) (s : wstate NQ) : Prop := mk_wacc_ok {
    wok_n : wn s = Z.of_nat (length obs);
    wok_nz : wnz s = Z.of_nat (length (wpos obs));
    wok_sw : (wsw s : Q) == sw (wpos obs);
    wok_sum : (wsum s : Q) == swx (wpos obs);
    wok_mean : (wmean s : Q) == wmean_def (wpos obs);
    wok_wtv : (wwtv s : Q) == wcen2 (wmean_def (wpos obs)) (wpos obs);
    wok_min : min_ok (wmin s) (map snd obs);
    wok_max : max_ok (wmax s) (map snd obs)
  }.

  Lemma wacc_ok_init : wacc_ok [] (winit NQ).
  Proof. constructor; cbn; reflexivity. Qed.

  (* min / max step, shared by the zero-weight and the positive-weight case *)
  Lemma minmax_step : forall (n : Z) (xs : list Q) (mn mx : xnum Q) (x : Q),
    n = Z.of_nat (length xs) -> min_ok mn xs -> max_ok mx xs ->
    min_ok (if x_gt_val (N := NQ) (if (n =? 0)%Z then XPInf else mn) x then XFin x
            else if (n =? 0)%Z then XPInf else mn) (xs ++ [x]) /\
    max_ok (if x_lt_val (N := NQ) (if (n =? 0)%Z then XNInf else mx) x then XFin x
            else if (n =? 0)%Z then XNInf else mx) (xs ++ [x]).
  Proof.
    intros n xs mn mx x Hn Hmn Hmx.
    destruct (n =? 0)%Z eqn:E0.
    - apply Z.eqb_eq in E0. assert (xs = []) by (destruct xs; [reflexivity | cbn [length] in Hn; lia]). subst xs.
      cbn. split; (split; [left; reflexivity | constructor; [apply Qle_refl | constructor]]).
    - apply Z.eqb_neq in E0. assert (xs <> []) by (intros ->; cbn in Hn; lia).
      split.
      + unfold min_ok in Hmn. destruct mn as [| | | m]; try contradiction.
        cbn [x_gt_val]. destruct (@ltb NQ x m) eqn:L.
        * apply (ltb_true sq) in L. destruct Hmn as [_ Hall]. split; [apply in_or_app; right; left; reflexivity |].
          apply Forall_app. split; [| constructor; [apply Qle_refl | constructor]].
          eapply Forall_impl; [| exact Hall]. cbn. intros. lra.
        * apply (ltb_false sq) in L. destruct Hmn as [Hin Hall]. split; [apply in_or_app; left; exact Hin |].
          apply Forall_app. split; [exact Hall | constructor; [exact L | constructor]].
      + unfold max_ok in Hmx. destruct mx as [| | | m]; try contradiction.
        cbn [x_lt_val]. destruct (@ltb NQ m x) eqn:L.
        * apply (ltb_true sq) in L. destruct Hmx as [_ Hall]. split; [apply in_or_app; right; left; reflexivity |].
          apply Forall_app. split; [| constructor; [apply Qle_refl | constructor]].
          eapply Forall_impl; [| exact Hall]. cbn. intros. lra.
        * apply (ltb_false sq) in L. destruct Hmx as [Hin Hall]. split; [apply in_or_app; left; exact Hin |].
          apply Forall_app. split; [exact Hall | constructor; [exact L | constructor]].
  Qed.

  (* one valid observation (weight >= 0): the call completes and the
     invariant moves on to obs ++ [(w, x)] *)
  Lemma wacc_ok_step : forall obs s w x, wacc_ok obs s -> 0 <= w ->
    exists s', wregister NQ s (@ONum (F NQ) w) (@ONum (F NQ) x) = Ok s' /\ wacc_ok (obs ++ [(w, x)]) s'.
  Proof.
    intros obs s w x [Hn Hnz Hsw Hsum Hmean Hwtv Hmn Hmx] Hw.
    unfold wregister, wregister_gen.
    cbn [arg_not_number arg_isnan_exn arg_val isnan NumQ zero].
    assert (L0 : @ltb NQ w 0 = false) by (apply (ltb_false sq); exact Hw).
    rewrite L0.
    destruct (minmax_step (wn s) (map snd obs) (wmin s) (wmax s) x) as [Mn Mx];
      [rewrite map_length; exact Hn | exact Hmn | exact Hmx |].
    assert (Lmap : map snd (obs ++ [(w, x)]) = map snd obs ++ [x]) by (rewrite map_app; reflexivity).
    cbn [eqb NumQ]. destruct (Qeq_bool w 0) eqn:EZ.
    - (* zero weight: only n, min, max move *)
      apply Qeq_bool_iff in EZ.
      assert (P : wpositive (w, x) = false) by (apply wpositive_false; lra).
      eexists; split; [reflexivity |].
      constructor; cbn [wn wnz wsw wmean wwtv wsum wmin wmax]; rewrite ?wpos_app1, ?P, ?Lmap; try assumption.
      rewrite Hn, app_length. cbn [length]. lia.
    - (* positive weight *)
      assert (Pw : 0 < w).
      { destruct (Qlt_le_dec 0 w) as [|L]; [assumption |].
        assert (w == 0) by lra. apply Qeq_bool_iff in H. congruence. }
      assert (P : wpositive (w, x) = true) by (apply wpositive_true; exact Pw).
      pose proof (wpos_all_positive obs) as AP.
      pose proof (sw_nonneg _ AP) as W0.
      cbn [add sub mul div NumQ].
      assert (NZ : Qeq_bool (wsw s + w) 0 = false).
      { destruct (Qeq_bool (wsw s + w) 0) eqn:E; [| reflexivity]. apply Qeq_bool_iff in E. rewrite Hsw in E. lra. }
      rewrite NZ.
      eexists; split; [reflexivity |].
      assert (INC : 0 <= w * (x - wmean s) * (x - (wmean s + w / (wsw s + w) * (x - wmean s)))).
      { apply increment_nonneg; [rewrite Hsw; exact W0 | exact Pw]. }
      assert (PM : @pymax NQ (w * (x - wmean s) * (x - (wmean s + w / (wsw s + w) * (x - wmean s)))) 0
                   = w * (x - wmean s) * (x - (wmean s + w / (wsw s + w) * (x - wmean s)))).
      { unfold pymax. rewrite (proj2 (ltb_false sq _ _) INC). reflexivity. }
      constructor; cbn [wn wnz wsw wmean wwtv wsum wmin wmax]; rewrite ?wpos_app1, ?P, ?Lmap; try assumption.
      + rewrite Hn, app_length. cbn [length]. lia.
      + rewrite Hnz, app_length. cbn [length]. lia.
      + rewrite Hsw, sw_app1. reflexivity.
      + rewrite Hsum, swx_app1. reflexivity.
      + unfold wmean_def. rewrite swx_app1, sw_app1.
        destruct (wpos obs) as [| p r] eqn:EP.
        * assert (M0 : wmean s == 0) by (rewrite Hmean; reflexivity).
          cbn in Hsw. rewrite M0, Hsw. cbn [swx sw]. field; repeat split; lra.
        * assert (0 < sw (p :: r)) by (apply sw_pos; [exact AP | discriminate]).
          unfold wmean_def in Hmean. rewrite Hmean, Hsw. field; repeat split; lra.
      + rewrite PM. unfold wmean_def in *. rewrite wcen2_raw, swxx_app1, swx_app1, sw_app1.
        destruct (wpos obs) as [| p r] eqn:EP.
        * assert (M0 : wmean s == 0) by (rewrite Hmean; reflexivity).
          cbn in Hsw, Hwtv. rewrite M0, Hsw, Hwtv. cbn [swx sw swxx]. field; repeat split; lra.
        * assert (0 < sw (p :: r)) by (apply sw_pos; [exact AP | discriminate]).
          rewrite wcen2_raw in Hwtv. rewrite Hwtv, Hmean, Hsw. field; repeat split; lra.
  Qed.

  (* a zero-weight observation touches only n, min and max *)
  Lemma zero_weight_step : forall (s : wstate NQ) (w x : Q), w == 0 ->
    exists s', wregister NQ s (@ONum (F NQ) w) (@ONum (F NQ) x) = Ok s' /\
      wn s' = (wn s + 1)%Z /\ wnz s' = wnz s /\ wsw s' = wsw s /\ wmean s' = wmean s /\
      wwtv s' = wwtv s /\ wsum s' = wsum s.
  Proof.
    intros s w x Z. unfold wregister, wregister_gen.
    cbn [arg_not_number arg_isnan_exn arg_val isnan NumQ zero eqb].
    assert (L0 : @ltb NQ w 0 = false) by (apply (ltb_false sq); lra).
    rewrite L0, (proj2 (Qeq_bool_iff w 0) Z).
    eexists; split; [reflexivity |]. cbn. repeat split; reflexivity.
  Qed.

  (* ---------- running a whole sequence ---------- *)
  Definition nonneg_weights (obs : list (Q * Q)) : Prop := Forall (fun p => 0 <= fst p) obs.

  Lemma wacc_ok_run : forall obs pre s, wacc_ok pre s -> nonneg_weights obs ->
    wacc_ok (pre ++ obs) (wrun NQ s (map wreg obs)).
  Proof.
    induction obs as [| [w x] r IH]; intros pre s H NN.
    - rewrite app_nil_r. exact H.
    - inversion NN; subst. cbn [fst] in *.
      destruct (wacc_ok_step pre s w x H H2) as [s' [E OK']].
      cbn [map wrun]. unfold wreg at 1. cbn [fst snd wstep]. rewrite E. cbn [state_of].
      replace (pre ++ (w, x) :: r) with ((pre ++ [(w, x)]) ++ r) by (rewrite <- app_assoc; reflexivity).
      apply IH; assumption.
  Qed.

  Theorem weighted_moments : forall obs, nonneg_weights obs -> wacc_ok obs (wtally_of obs).
  Proof. intros obs H. apply (wacc_ok_run obs [] (winit NQ) wacc_ok_init H). Qed.

  (* ---------- arbitrary histories ---------- *)
  (* the observations that count: both arguments numbers, weight >= 0, since the last initialize *)
  Fixpoint weffective (acc : list (Q * Q)) (ops : list (wop NQ)) : list (Q * Q) :=
    match ops with
    | [] => acc
    | WInit :: r => weffective [] r
    | WReg (ONum w) (ONum x) :: r =>
        if Qle_bool 0 w then weffective (acc ++ [(w, x)]) r else weffective acc r
    | WReg _ _ :: r => weffective acc r
    end.

  Lemma weffective_nonneg : forall ops acc, nonneg_weights acc -> nonneg_weights (weffective acc ops).
  Proof.
    induction ops as [| op r IH]; intros acc H; cbn [weffective]; [exact H |].
    destruct op as [ow ov |]; [| apply IH; constructor].
    destruct ow as [w | | |]; try (apply IH; exact H).
    destruct ov as [x | | |]; try (apply IH; exact H).
    destruct (Qle_bool 0 w) eqn:E; [| apply IH; exact H].
    apply IH. apply Forall_app. split; [exact H |]. constructor; [| constructor].
    cbn [fst]. apply Qle_bool_iff. exact E.
  Qed.

  Lemma wrun_app : forall (N : Num) ops1 ops2 (s : wstate N),
    wrun N s (ops1 ++ ops2) = wrun N (wrun N s ops1) ops2.
  Proof. induction ops1; intros; cbn [app wrun]; [reflexivity | apply IHops1]. Qed.

  Lemma wrun_effective_gen : forall ops acc,
    wrun NQ (wtally_of acc) ops = wtally_of (weffective acc ops).
  Proof.
    induction ops as [| op r IH]; intros acc; [reflexivity |].
    destruct op as [ow ov |]; cbn [wrun wstep weffective]; [| cbn [state_of]; apply (IH [])].
    destruct ow as [w | | |]; destruct ov as [x | | |];
      try (unfold wregister, wregister_gen; cbn [arg_not_number arg_isnan_exn isnan NumQ state_of]; apply IH).
    destruct (Qle_bool 0 w) eqn:E.
    - rewrite <- IH. unfold wtally_of at 2. rewrite map_app, wrun_app. reflexivity.
    - unfold wregister, wregister_gen. cbn [arg_not_number arg_isnan_exn arg_val isnan NumQ zero].
      assert (L : @ltb NQ w 0 = true).
      { cbn [ltb NumQ]. rewrite E. reflexivity. }
      rewrite L. cbn [state_of]. apply IH.
  Qed.

  Theorem wrun_effective : forall ops, wrun NQ (winit NQ) ops = wtally_of (weffective [] ops).
  Proof. intros. apply (wrun_effective_gen ops []). Qed.

  Theorem whistory_ok : forall ops, wacc_ok (weffective [] ops) (wrun NQ (winit NQ) ops).
  Proof.
    intros. rewrite wrun_effective. apply weighted_moments. apply weffective_nonneg. constructor.
  Qed.

  (* ====================================================================== *)
  (* Getters                                                                 *)
  (* ====================================================================== *)
  Section WGetters.
    Variable obs : list (Q * Q).
    Variable s : wstate NQ.
    Hypothesis OK : wacc_ok obs s.
    Let P := wpos obs.

    Lemma wmean_spec :
      (obs = [] -> gw_mean NQ s = NaNres) /\
      (obs <> [] -> exists r, gw_mean NQ s = Val r /\ r == wmean_def P).
    Proof.
      unfold gw_mean. pose proof (wok_n _ _ OK) as Hn. split; intros H.
      - subst obs. rewrite Hn. reflexivity.
      - destruct (Z.ltb_spec 0 (wn s)) as [L | L].
        + eexists; split; [reflexivity | apply (wok_mean _ _ OK)].
        + destruct obs; [congruence | cbn [length] in Hn; lia].
    Qed.

    Lemma sw_P_pos_iff : 0 < sw P <-> P <> [].
    Proof.
      pose proof (wpos_all_positive obs) as AP. fold P in AP. split.
      - intros H E. rewrite E in H. cbn in H. lra.
      - apply sw_pos. exact AP.
    Qed.

    Lemma P_nonempty_obs : P <> [] -> (0 < wn s)%Z.
    Proof.
      intros H. rewrite (wok_n _ _ OK). destruct obs as [| p r]; [exfalso; apply H; reflexivity | cbn [length]; lia].
    Qed.

    Lemma wvar_nonneg : P <> [] -> 0 <= wvar_def P.
    Proof.
      intros H. unfold wvar_def. pose proof (wpos_all_positive obs) as AP. fold P in AP.
      pose proof (wcen2_nonneg (wmean_def P) P AP). pose proof (proj2 sw_P_pos_iff H).
      apply Qle_shift_div_l; lra.
    Qed.

    Lemma wvariance_undefined : forall b : bool,
      P = [] \/ (b = false /\ (length P < 2)%nat) -> gw_variance NQ b s = NaNres.
    Proof.
      intros b H. unfold gw_variance. cbn [zero NumQ ofZ mul].
      destruct (0 <? wn s)%Z; cbn [andb]; [| reflexivity].
      destruct (@ltb NQ (0:Q) (wsw s)) eqn:L; [| reflexivity].
      apply (ltb_true sq) in L. rewrite (wok_sw _ _ OK) in L. fold P in L.
      destruct H as [H | [Hb H]].
      - rewrite H in L. cbn in L. lra.
      - subst b. rewrite pdiv_val by (rewrite (wok_sw _ _ OK); fold P; lra).
        destruct (Z.ltb_spec 1 (wnz s)) as [L1 | L1]; [| reflexivity].
        rewrite (wok_nz _ _ OK) in L1. fold P in L1. lia.
    Qed.

    Lemma wvariance_b_defined : P <> [] ->
      exists r, gw_variance NQ true s = Val r /\ r == wvar_def P.
    Proof.
      intros H. unfold gw_variance. cbn [zero NumQ ofZ mul].
      pose proof (P_nonempty_obs H) as Ln. apply Z.ltb_lt in Ln. rewrite Ln. cbn [andb].
      pose proof (proj2 sw_P_pos_iff H) as SP.
      assert (L : @ltb NQ (0:Q) (wsw s) = true) by (apply (ltb_true sq); rewrite (wok_sw _ _ OK); exact SP).
      rewrite L. rewrite pdiv_val by (rewrite (wok_sw _ _ OK); fold P; lra).
      eexists; split; [reflexivity |]. unfold wvar_def. rewrite (wok_wtv _ _ OK), (wok_sw _ _ OK). reflexivity.
    Qed.

    Lemma wvariance_u_defined : (2 <= length P)%nat ->
      exists r, gw_variance NQ false s = Val r /\ r == wsamvar_def P.
    Proof.
      intros H2. assert (H : P <> []) by (intros E; rewrite E in H2; cbn in H2; lia).
      unfold gw_variance. cbn [zero NumQ ofZ mul].
      pose proof (P_nonempty_obs H) as Ln. apply Z.ltb_lt in Ln. rewrite Ln. cbn [andb].
      pose proof (proj2 sw_P_pos_iff H) as SP.
      assert (L : @ltb NQ (0:Q) (wsw s) = true) by (apply (ltb_true sq); rewrite (wok_sw _ _ OK); exact SP).
      rewrite L. rewrite pdiv_val by (rewrite (wok_sw _ _ OK); fold P; lra).
      destruct (Z.ltb_spec 1 (wnz s)) as [L1 | L1]; [| rewrite (wok_nz _ _ OK) in L1; fold P in L1; lia].
      pose proof (lenQ_ge _ P 2 H2) as G. change (inject_Z (Z.of_nat 2)) with 2 in G.
      assert (E1 : inject_Z (wnz s - 1) == lenQ P - 1).
      { rewrite (wok_nz _ _ OK). fold P. unfold lenQ, Zminus. rewrite inject_Z_plus. reflexivity. }
      assert (E0 : inject_Z (wnz s) == lenQ P) by (rewrite (wok_nz _ _ OK); reflexivity).
      rewrite pdiv_val by (rewrite E1; lra).
      eexists; split; [reflexivity |].
      unfold wsamvar_def, wvar_def. rewrite E1, E0, (wok_wtv _ _ OK), (wok_sw _ _ OK). reflexivity.
    Qed.

    Lemma wsamvar_nonneg : (2 <= length P)%nat -> 0 <= wsamvar_def P.
    Proof.
      intros H2. assert (H : P <> []) by (intros E; rewrite E in H2; cbn in H2; lia).
      pose proof (wvar_nonneg H). pose proof (lenQ_ge _ P 2 H2) as G. change (inject_Z (Z.of_nat 2)) with 2 in G.
      unfold wsamvar_def. apply Qle_shift_div_l; [lra |]. rewrite Qmult_0_l. apply Qmult_le_0_compat; lra.
    Qed.

    Lemma wstdev_undefined : forall b : bool,
      P = [] \/ (b = false /\ (length P < 2)%nat) -> gw_stdev NQ b s = NaNres.
    Proof. intros b H. unfold gw_stdev. rewrite (wvariance_undefined b H). reflexivity. Qed.

    Lemma wstdev_b_defined : P <> [] ->
      exists r, gw_stdev NQ true s = Val r /\ r == sq (wvar_def P).
    Proof.
      intros H. unfold gw_stdev. destruct (wvariance_b_defined H) as [v [-> Ev]].
      pose proof (wvar_nonneg H). rewrite (psqrt_val sq) by lra.
      eexists; split; [reflexivity | rewrite Ev; reflexivity].
    Qed.

    Lemma wstdev_u_defined : (2 <= length P)%nat ->
      exists r, gw_stdev NQ false s = Val r /\ r == sq (wsamvar_def P).
    Proof.
      intros H. unfold gw_stdev. destruct (wvariance_u_defined H) as [v [-> Ev]].
      pose proof (wsamvar_nonneg H). rewrite (psqrt_val sq) by lra.
      eexists; split; [reflexivity | rewrite Ev; reflexivity].
    Qed.

    (* no getter raises in a state that satisfies the invariant *)
    Lemma wtotal :
      no_raise (gw_mean NQ s) /\
      (forall b, no_raise (gw_variance NQ b s)) /\
      (forall b, no_raise (gw_stdev NQ b s)).
    Proof.
      assert (Dobs : {obs = []} + {obs <> []}) by apply nil_dec_pair.
      assert (DP : {P = []} + {P <> []}) by apply nil_dec_pair.
      assert (D2 : {(length P < 2)%nat} + {~ (length P < 2)%nat}) by apply lt_dec.
      repeat split.
      - destruct Dobs as [E | E]; [apply nan_no_raise; apply wmean_spec; exact E |].
        destruct (proj2 wmean_spec E) as [r [-> _]]. intros k. discriminate.
      - intros [|].
        + destruct DP as [E | E]; [apply nan_no_raise; apply wvariance_undefined; left; exact E |].
          destruct (wvariance_b_defined E) as [r [-> _]]. intros k. discriminate.
        + destruct D2 as [E | E]; [apply nan_no_raise; apply wvariance_undefined; right; split; [reflexivity | exact E] |].
          assert (E' : (2 <= length P)%nat) by lia.
          destruct (wvariance_u_defined E') as [r [-> _]]. intros k. discriminate.
      - intros [|].
        + destruct DP as [E | E]; [apply nan_no_raise; apply wstdev_undefined; left; exact E |].
          destruct (wstdev_b_defined E) as [r [-> _]]. intros k. discriminate.
        + destruct D2 as [E | E]; [apply nan_no_raise; apply wstdev_undefined; right; split; [reflexivity | exact E] |].
          assert (E' : (2 <= length P)%nat) by lia.
          destruct (wstdev_u_defined E') as [r [-> _]]. intros k. discriminate.
    Qed.
  End WGetters.

  (* ---------- statements over arbitrary histories ---------- *)
  Section WHistory.
    Variable ops : list (wop NQ).
    Let obs := weffective [] ops.
    Let s := wrun NQ (winit NQ) ops.
    Let OK : wacc_ok obs s := whistory_ok ops.
    Let P := wpos obs.

    (* accumulators = weighted sums over the positively weighted observations;
       n, min, max over all valid observations *)
    Theorem weighted_accumulators :
      wn s = Z.of_nat (length obs) /\
      wnz s = Z.of_nat (length P) /\
      wsw s == sw P /\ wsum s == swx P /\
      wmean s == wmean_def P /\
      wwtv s == wcen2 (wmean_def P) P /\
      min_ok (wmin s) (map snd obs) /\ max_ok (wmax s) (map snd obs).
    Proof. destruct OK as [A B C D E F G H]. repeat split; assumption. Qed.

    Theorem weighted_getters_equal_definitions :
      (obs <> [] -> res_is (gw_mean NQ s) (wmean_def P)) /\
      (P <> [] -> res_is (gw_variance NQ true s) (wvar_def P) /\
                  res_is (gw_stdev NQ true s) (sq (wvar_def P))) /\
      ((2 <= length P)%nat -> res_is (gw_variance NQ false s) (wsamvar_def P) /\
                              res_is (gw_stdev NQ false s) (sq (wsamvar_def P))).
    Proof.
      repeat split; intros.
      - apply (wmean_spec obs s OK). assumption.
      - apply (wvariance_b_defined obs s OK). assumption.
      - apply (wstdev_b_defined obs s OK). assumption.
      - apply (wvariance_u_defined obs s OK). assumption.
      - apply (wstdev_u_defined obs s OK). assumption.
    Qed.

    Theorem weighted_nan_structure :
      (gw_mean NQ s = NaNres <-> obs = []) /\
      (gw_variance NQ true s = NaNres <-> P = []) /\
      (gw_stdev NQ true s = NaNres <-> P = []) /\
      (gw_variance NQ false s = NaNres <-> (length P < 2)%nat) /\
      (gw_stdev NQ false s = NaNres <-> (length P < 2)%nat).
    Proof.
      assert (Dobs : {obs = []} + {obs <> []}) by apply nil_dec_pair.
      assert (DP : {P = []} + {P <> []}) by apply nil_dec_pair.
      assert (D2 : {(length P < 2)%nat} + {~ (length P < 2)%nat}) by apply lt_dec.
      assert (Pnil : P = [] -> (length P < 2)%nat) by (intros ->; cbn; lia).
      repeat split; intros H.
      - destruct Dobs as [E | E]; [exact E |]. destruct (proj2 (wmean_spec obs s OK) E) as [r [E2 _]]. congruence.
      - apply (wmean_spec obs s OK). exact H.
      - destruct DP as [E | E]; [exact E |]. destruct (wvariance_b_defined obs s OK E) as [r [E2 _]]. congruence.
      - apply (wvariance_undefined obs s OK). left. exact H.
      - destruct DP as [E | E]; [exact E |]. destruct (wstdev_b_defined obs s OK E) as [r [E2 _]]. congruence.
      - apply (wstdev_undefined obs s OK). left. exact H.
      - destruct D2 as [E | E]; [exact E |]. assert (E' : (2 <= length P)%nat) by lia.
        destruct (wvariance_u_defined obs s OK E') as [r [E2 _]]. congruence.
      - apply (wvariance_undefined obs s OK). right. split; [reflexivity | exact H].
      - destruct D2 as [E | E]; [exact E |]. assert (E' : (2 <= length P)%nat) by lia.
        destruct (wstdev_u_defined obs s OK E') as [r [E2 _]]. congruence.
      - apply (wstdev_undefined obs s OK). right. split; [reflexivity | exact H].
    Qed.

    (* every query returns a value or NaN and never raises *)
    Theorem weighted_getters_total :
      no_raise (gw_mean NQ s) /\
      (forall b, no_raise (gw_variance NQ b s)) /\
      (forall b, no_raise (gw_stdev NQ b s)).
    Proof. exact (wtotal obs s OK). Qed.
  End WHistory.
End WeightedQ.

(* ====================================================================== *)
(* Rejection and reset -- for EVERY arithmetic instance                     *)
(* ====================================================================== *)
(* the argument classes WeightedTally.register refuses *)
Definition wrejected (N : Num) (ow ov : pyarg (F N)) : bool :=
  match ow, ov with
  | ONum w, ONum v => isnan v || isnan w || ltb w zero
  | _, _ => true
  end.

Theorem weighted_rejected_unchanged : forall (N : Num) (s : wstate N) ow ov,
  wrejected N ow ov = true ->
  (exists k, wregister N s ow ov = Exn k s) /\ state_of (wstep N s (WReg ow ov)) = s.
Proof.
  intros N s ow ov H.
  assert (E : exists k, wregister N s ow ov = Exn k s).
  { unfold wregister, wregister_gen.
    destruct ow as [w | | |]; destruct ov as [v | | |];
      cbn [wrejected arg_not_number arg_isnan_exn arg_val] in *; try (eexists; reflexivity).
    - destruct (isnan v); [eexists; reflexivity |]. destruct (isnan w); [eexists; reflexivity |].
      cbn [orb] in H. rewrite H. eexists; reflexivity.
    - destruct (isnan v); eexists; reflexivity.
    - destruct (isnan v); eexists; reflexivity. }
  split; [exact E |]. destruct E as [k E]. cbn [wstep]. rewrite E. reflexivity.
Qed.

Theorem weighted_initialize_resets : forall (N : Num) pre post (s : wstate N),
  wrun N s (pre ++ WInit :: post) = wrun N (winit N) post.
Proof. intros N pre post s. rewrite wrun_app. reflexivity. Qed.

(* ====================================================================== *)
(* The accumulator of the tree before the max(.., 0.0) repair can go        *)
(* negative in binary64 (executed, not reasoned about): the weighted        *)
(* variance is negative and weighted_stdev raises                           *)
(* ====================================================================== *)
Import PrimFloat.   (* float literals; nothing below uses the unqualified Num operations *)

Definition wrun_pinned (ops : list (PrimFloat.float * PrimFloat.float)) : wstate NumF :=
  fold_left (fun s p => state_of (wregister_gen NumF false s (ONum (fst p)) (ONum (snd p)))) ops (winit NumF).

Theorem pinned_weighted_stdev_raises :
  exists ops, Forall (fun p => PrimFloat.ltb PrimFloat.zero (fst p) = true) ops /\
    gw_stdev NumF true (wrun_pinned ops) = Raise ValueError.
Proof.
  exists [(0x1p+0, 0x1p+0); (0x1.93e5939a08ceap+99, 0x1.70ef54646d497p-57)]%float.
  split; [repeat constructor | vm_compute; reflexivity].
Qed.

(* the same history on the repaired accumulator: a value, not an exception *)
Theorem repaired_weighted_stdev_on_that_input :
  gw_stdev NumF true
    (wrun NumF (winit NumF)
       [@WReg NumF (@ONum (F NumF) 0x1p+0%float) (@ONum (F NumF) 0x1p+0%float);
        @WReg NumF (@ONum (F NumF) 0x1.93e5939a08ceap+99%float) (@ONum (F NumF) 0x1.70ef54646d497p-57%float)])
  = Val PrimFloat.zero.
Proof. vm_compute. reflexivity. Qed.
