(* SI signatures (nine exponents, in the order of SI.SIUNITS) and small list
   helpers shared by the table checks and the SI string functions. *)
From Coq Require Import ZArith List Bool String.
Import ListNotations.
Local Open Scope string_scope.

(* ---------- the nine SI positions (SI.SIUNITS) ---------- *)
Definition si_names : list string := ["rad"; "sr"; "kg"; "m"; "s"; "A"; "K"; "mol"; "cd"].
Definition sig0 : list Z := [0; 0; 0; 0; 0; 0; 0; 0; 0]%Z.

Fixpoint sig_zip (f : Z -> Z -> Z) (a b : list Z) : list Z :=
  match a, b with
  | x :: r, y :: s => f x y :: sig_zip f r s
  | _, _ => []
  end.
Definition sig_add := sig_zip Z.add.
Definition sig_sub := sig_zip Z.sub.
Definition sig_scale (k : Z) (a : list Z) : list Z := map (Z.mul k) a.

Fixpoint sig_eqb (a b : list Z) : bool :=
  match a, b with
  | [], [] => true
  | x :: r, y :: s => Z.eqb x y && sig_eqb r s
  | _, _ => false
  end.

(* ---------- numbering helper for the offender lists ---------- *)
Fixpoint indexed_from {A : Type} (i : nat) (l : list A) : list (nat * A) :=
  match l with [] => [] | x :: r => (i, x) :: indexed_from (S i) r end.
Definition indexed {A : Type} (l : list A) := indexed_from 0 l.

