(* Quantity / SI values and their operations, transcribed from
   pydsol/core/units.py (Quantity: lines 196-760, SI: lines 795-1326), over the
   tables of Units/Tables.v and an abstract number structure.

   - Python exceptions are data (Raise kind); nothing is totalised.
   - [numops] is instantiated with binary64 (PrimFloat, executed in the
     correspondence check, bit-identical to CPython float) and with exact
     rationals Qc (DispatchProofs.v, to show the laws used by some theorems are
     satisfiable).
   - The SI.__sub__ modelled here is the REPAIRED one (same guard as
     SI.__add__); [si_sub_pinned] keeps the pinned behaviour for the refutation.
   Executable definitions only. *)
From Coq Require Import ZArith List Bool String Ascii PrimFloat Uint63 FloatOps SpecFloat.
From PV Require Import Units.Tables Units.SIString.
Import ListNotations.
Local Open Scope string_scope.

Record numops := mkNum {
  num : Type;
  fadd : num -> num -> num;
  fsub : num -> num -> num;
  fmul : num -> num -> num;
  fdiv : num -> num -> num;          (* only applied after the divisor was tested with fiszero *)
  fneg : num -> num;
  fabs : num -> num;
  feqb : num -> num -> bool;         (* Python ==  *)
  fltb : num -> num -> bool;         (* Python <   *)
  fleb : num -> num -> bool;         (* Python <=  *)
  fiszero : num -> bool;             (* x == 0: division by it raises ZeroDivisionError *)
  fsame : num -> num -> bool;        (* identical value (bit pattern), for the correspondence *)
  ffac : float -> Z -> positive -> num   (* a table factor, given as float literal and exact ratio *)
}.

(* ---------- binary64 instance (executed only) ---------- *)
Definition float_same (a b : float) : bool :=
  (PrimFloat.is_nan a && PrimFloat.is_nan b)
  || (PrimFloat.eqb a b && Bool.eqb (PrimFloat.get_sign a) (PrimFloat.get_sign b)).

Definition float_ops : numops :=
  mkNum float PrimFloat.add PrimFloat.sub PrimFloat.mul PrimFloat.div PrimFloat.opp PrimFloat.abs
        PrimFloat.eqb PrimFloat.ltb PrimFloat.leb (fun x => PrimFloat.eqb x 0%float) float_same
        (fun f _ _ => f).

(* ---------- the integer roundings math.floor / math.ceil / math.trunc / round ----------
   They are external to units.py: a structure of their own.  Each maps a number to the INT Python returns,
   read back as a number (the code multiplies it with a unit factor), or raises. *)
Inductive roundkind := RFloor | RCeil | RTrunc | RRound.
Record mathops (N : numops) := mkMath {
  m_floor : num N -> result (num N);
  m_ceil : num N -> result (num N);
  m_trunc : num N -> result (num N);
  m_round : num N -> result (num N)
}.
Definition round_with {N : numops} (X : mathops N) (k : roundkind) : num N -> result (num N) :=
  match k with RFloor => m_floor N X | RCeil => m_ceil N X | RTrunc => m_trunc N X | RRound => m_round N X end.

(* binary64 instance (executed only).  The int result is exact; int 0 read back is +0.0; a finite float with a
   non-negative binary exponent is integral already; nan raises ValueError, an infinity OverflowError (outside
   the model's exceptions). *)
Definition float_of_small_Z (z : Z) : float :=
  if (z <? 0)%Z then PrimFloat.opp (PrimFloat.of_uint63 (Uint63.of_Z (- z))) else PrimFloat.of_uint63 (Uint63.of_Z z).

Definition float_int_round (k : roundkind) (x : float) : result float :=
  match Prim2SF x with
  | S754_zero _ => Val 0%float
  | S754_nan => Raise ValueError
  | S754_infinity _ => Raise Unmodelled
  | S754_finite s m e =>
      if (0 <=? e)%Z then Val x
      else
        let d := Z.pow 2 (- e) in
        let q := (Zpos m / d)%Z in
        let r := (Zpos m mod d)%Z in
        let up := negb (r =? 0)%Z in
        let n := match k with
                 | RTrunc => q
                 | RFloor => if s then (if up then q + 1 else q)%Z else q
                 | RCeil => if s then q else (if up then q + 1 else q)%Z
                 | RRound => match Z.compare (2 * r) d with
                             | Gt => (q + 1)%Z
                             | Lt => q
                             | Eq => if Z.even q then q else (q + 1)%Z
                             end
                 end in
        Val (float_of_small_Z (if s then (- n)%Z else n))
  end.

Definition float_math : mathops float_ops :=
  mkMath float_ops (float_int_round RFloor) (float_int_round RCeil) (float_int_round RTrunc) (float_int_round RRound).

Section Model.
Variable N : numops.
Variable M : qmodule.
Let T := qm_classes M.
Notation num := (num N).

(* A Python object as far as the model distinguishes them. *)
Inductive pyval :=
| VNamed (cls : nat) (si : num) (unit : string)    (* instance of the cls-th quantity class; float(self), _unit *)
| VSI (sig : list Z) (si : num)                    (* SI instance; _unit is always siunit(True,'','.') of _sisig *)
| VNum (x : num)                                   (* a float or an int *)
| VStr.                                            (* a str: the stand-in for any other object *)

Inductive pyout :=
| OVal (v : pyval) | OBool (b : bool) | ONum (x : num) | OText (s : string) | OSig (l : list Z)
| ONums (l : list num).

Definition R := result pyout.

(* ---------- table access ---------- *)
Definition with_class {A : Type} (c : nat) (k : qclass -> result A) : result A :=
  match get_class T c with Some q => k q | None => Raise Unmodelled end.

(* cls._units[u] *)
Definition class_factor (q : qclass) (u : string) : result num :=
  match glookup u (qc_units q) with
  | Some (GFac f n d) => Val (ffac N f n d)
  | Some (Bad_factor _) => Raise Unmodelled
  | None => Raise KeyError
  end.

Definition base_unit (q : qclass) : result string :=
  match qc_base q with GStr b => Val b | Bad_str _ => Raise Unmodelled end.

(* cls(value, unit) : Quantity.__new__ / __init__ *)
Definition mk (c : nat) (value : pyval) (unit : option string) : result pyval :=
  with_class c (fun q =>
    match unit with
    | None =>
        match base_unit q with
        | Raise e => Raise e
        | Val b =>
            match class_factor q b with
            | Raise e => Raise e
            | Val f =>
                match value with
                | VNum x => Val (VNamed c (fmul N x f) b)
                | VStr => Raise TypeError
                | _ => Raise Unmodelled
                end
            end
        end
    | Some u =>
        if negb (gmem u (qc_units q)) then Raise ValueError
        else match value with
             | VNum x =>
                 match class_factor q u with
                 | Raise e => Raise e
                 | Val f => Val (VNamed c (fmul N x f) u)
                 end
             | _ => Raise ValueError
             end
    end).

(* self._val(si): type(self)(si) with the unit of self *)
Definition q_val (c : nat) (si : num) (unit : string) : result pyval :=
  match mk c (VNum si) None with
  | Val (VNamed c' x _) => Val (VNamed c' x unit)
  | Val _ => Raise Unmodelled
  | Raise e => Raise e
  end.

(* newclass(x, newclass._baseunit) *)
Definition mk_base (r : nat) (x : num) : result pyval :=
  with_class r (fun q =>
    match base_unit q with
    | Raise e => Raise e
    | Val b => mk r (VNum x) (Some b)
    end).

Definition class_sig_of (c : nat) : result (list Z) := with_class c (fun q => Val (cls_sig q)).

(* self.asSI() *)
Definition as_si (c : nat) (si : num) : result pyval :=
  match class_sig_of c with Val s => Val (VSI s si) | Raise e => Raise e end.

(* SI(value, unit) *)
Definition mk_si (value : pyval) (unit : string) : result pyval :=
  match value with
  | VNum x =>
      if String.eqb unit "" then Val (VSI sig0 x)
      else match str_to_sisig unit with
           | Val s => Val (VSI s x)
           | Raise e => Raise e
           end
  | _ => Raise ValueError
  end.

Definition checked_div (a b : num) : result num :=
  if fiszero N b then Raise ZeroDivisionError else Val (fdiv N a b).

(* q.displayvalue *)
Definition displayvalue (x : pyval) : result num :=
  match x with
  | VNamed c a u =>
      with_class c (fun q =>
        match class_factor q u with
        | Val f => checked_div a f
        | Raise e => Raise e
        end)
  | VSI _ a => Val a
  | _ => Raise Unmodelled
  end.

(* the text str(q) puts behind "<displayvalue> ": _displayunits.get(unit, unit) *)
Definition str_suffix (x : pyval) : result string :=
  match x with
  | VNamed c a u =>
      match displayvalue x with
      | Raise e => Raise e
      | Val _ =>
          with_class c (fun q =>
            match display_of q u with
            | GStr d => Val d
            | Bad_str _ => Raise TypeError       (* str + non-str *)
            end)
      end
  | VSI sg _ => Val (si_unit_text sg)
  | _ => Raise Unmodelled
  end.

(* raise ValueError("... {} ...".format(self, other)): formatting self calls str(self) first *)
Definition refuse_after_formatting (x : pyval) : result pyval :=
  match str_suffix x with Val _ => Raise ValueError | Raise e => Raise e end.

Definition lift (r : result pyval) : R :=
  match r with Val v => Val (OVal v) | Raise e => Raise e end.

(* ---------- SI.__mul__ / SI.__truediv__ ---------- *)
Definition si_mul (sg : list Z) (a : num) (other : pyval) : result pyval :=
  match other with
  | VNum x => Val (VSI sg (fmul N a x))
  | VSI sg2 b => Val (VSI (sig_add sg sg2) (fmul N a b))
  | VNamed c2 b _ =>
      match class_sig_of c2 with
      | Val s2 => Val (VSI (sig_add sg s2) (fmul N a b))
      | Raise e => Raise e
      end
  | VStr => Raise ValueError
  end.

Definition si_div (sg : list Z) (a : num) (other : pyval) : result pyval :=
  match other with
  | VNum x => match checked_div a x with Val y => Val (VSI sg y) | Raise e => Raise e end
  | VSI sg2 b => match checked_div a b with Val y => Val (VSI (sig_sub sg sg2) y) | Raise e => Raise e end
  | VNamed c2 b _ =>
      match class_sig_of c2 with
      | Val s2 => match checked_div a b with Val y => Val (VSI (sig_sub sg s2) y) | Raise e => Raise e end
      | Raise e => Raise e
      end
  | VStr => Raise ValueError
  end.

(* ---------- Quantity.__mul__ / Quantity.__truediv__ ---------- *)
Definition q_mul (c : nat) (a : num) (u : string) (other : pyval) : result pyval :=
  with_class c (fun q =>
    match other with
    | VNum x => q_val c (fmul N a x) u
    | VNamed c2 b _ =>
        match clookup c2 (qc_mul q) with
        | Some (GCls r) => mk_base r (fmul N a b)
        | Some (Bad_cls _) => Raise Unmodelled
        | None => si_mul (cls_sig q) a other             (* self.asSI() * other.asSI() *)
        end
    | VSI _ _ => si_mul (cls_sig q) a other              (* self.asSI() * other *)
    | VStr => refuse_after_formatting (VNamed c a u)
    end).

Definition q_div (c : nat) (a : num) (u : string) (other : pyval) : result pyval :=
  with_class c (fun q =>
    match other with
    | VNum x => match checked_div a x with Val y => q_val c y u | Raise e => Raise e end
    | VNamed c2 b _ =>
        match clookup c2 (qc_div q) with
        | Some (GCls r) => match checked_div a b with Val y => mk_base r y | Raise e => Raise e end
        | Some (Bad_cls _) => Raise Unmodelled
        | None => si_div (cls_sig q) a other             (* self.asSI() / other.asSI() *)
        end
    | VSI _ _ => si_div (cls_sig q) a other
    | VStr => refuse_after_formatting (VNamed c a u)
    end).

(* Dimensionless(x) for a number x, as used by __rtruediv__ *)
Definition dimensionless_of (x : num) : result pyval :=
  match qm_dimensionless M with
  | Some d => mk d (VNum x) None
  | None => Raise Unmodelled
  end.

(* ---------- + and - ---------- *)
Definition q_addsub (f : num -> num -> num) (c : nat) (a : num) (u : string) (other : pyval) : result pyval :=
  match other with
  | VNamed c2 b _ => if Nat.eqb c c2 then q_val c (f a b) u else Raise ValueError
  | _ => Raise ValueError
  end.

(* SI.__add__, and SI.__sub__ as repaired: the Python type and the signature must agree *)
Definition si_addsub (f : num -> num -> num) (sg : list Z) (a : num) (other : pyval) : result pyval :=
  match other with
  | VSI sg2 b => if sig_eqb sg sg2 then Val (VSI sg (f a b)) else Raise ValueError
  | _ => Raise ValueError
  end.

(* SI.__sub__ of the pinned tree: only the Python type is compared *)
Definition si_sub_pinned (sg : list Z) (a : num) (other : pyval) : result pyval :=
  match other with
  | VSI _ b => Val (VSI sg (fsub N a b))
  | _ => Raise ValueError
  end.

(* ---------- comparisons ---------- *)
Inductive cmpop := CEq | CNe | CLt | CLe | CGt | CGe.

Definition cmp_nums (op : cmpop) (a b : num) : bool :=
  match op with
  | CEq => feqb N a b
  | CNe => negb (feqb N a b)
  | CLt => fltb N a b
  | CLe => fleb N a b
  | CGt => fltb N b a
  | CGe => fleb N b a
  end.

(* what a comparison answers when the operands are not comparable *)
Definition cmp_refused (op : cmpop) : result bool :=
  match op with CEq => Val false | CNe => Val true | _ => Raise TypeError end.

Definition cmp_swap (op : cmpop) : cmpop :=
  match op with CEq => CEq | CNe => CNe | CLt => CGt | CLe => CGe | CGt => CLt | CGe => CLe end.

(* Quantity.__eq__ ... __ge__ *)
Definition q_cmp (op : cmpop) (c : nat) (a : num) (other : pyval) : result bool :=
  match other with
  | VNamed c2 b _ => if Nat.eqb c c2 then Val (cmp_nums op a b) else cmp_refused op
  | _ => cmp_refused op
  end.

(* SI.__eq__ ... __ge__ *)
Definition si_cmp (op : cmpop) (sg : list Z) (a : num) (other : pyval) : result bool :=
  match other with
  | VSI sg2 b => if sig_eqb sg sg2 then Val (cmp_nums op a b) else cmp_refused op
  | _ => cmp_refused op
  end.

(* ---------- the Python expression  x (op) y  ---------- *)
Inductive binop := Mul | Div | Add | Sub | Cmp (op : cmpop).

Definition lift_bool (r : result bool) : R :=
  match r with Val b => Val (OBool b) | Raise e => Raise e end.

Definition is_quantity (v : pyval) : bool :=
  match v with VNamed _ _ _ | VSI _ _ => true | _ => false end.

(* left operand is a Quantity / SI instance: its own method runs *)
Definition left_method (op : binop) (x y : pyval) : R :=
  match x with
  | VNamed c a u =>
      match op with
      | Mul => lift (q_mul c a u y)
      | Div => lift (q_div c a u y)
      | Add => lift (q_addsub (fadd N) c a u y)
      | Sub => lift (q_addsub (fsub N) c a u y)
      | Cmp o => lift_bool (q_cmp o c a y)
      end
  | VSI sg a =>
      match op with
      | Mul => lift (si_mul sg a y)
      | Div => lift (si_div sg a y)
      | Add => lift (si_addsub (fadd N) sg a y)
      | Sub => lift (si_addsub (fsub N) sg a y)
      | Cmp o => lift_bool (si_cmp o sg a y)
      end
  | _ => Raise Unmodelled
  end.

(* left operand is a number or a str, right operand a Quantity / SI instance:
   the reflected method of the right operand runs
   (__rmul__ = __mul__, __radd__ = __add__, __rsub__ = __add__(other.__neg__()),
    __rtruediv__ = Dimensionless(other) / self, reflected comparison) *)
Definition reflected (op : binop) (x y : pyval) : R :=
  match op with
  | Mul => left_method Mul y x
  | Add => left_method Add y x
  | Sub => match x with
           | VNum v => left_method Add y (VNum (fneg N v))
           | _ => Raise AttributeError          (* 'str' object has no attribute '__neg__' *)
           end
  | Div => match x with
           | VNum v => match dimensionless_of v with
                       | Val d => left_method Div d y
                       | Raise e => Raise e
                       end
           | _ => lift (refuse_after_formatting y)
           end
  | Cmp o => left_method (Cmp (cmp_swap o)) y x
  end.

Definition binop_eval (op : binop) (x y : pyval) : R :=
  if is_quantity x then left_method op x y
  else if is_quantity y then reflected op x y
  else Raise Unmodelled.          (* plain Python numbers / strings: not this module *)

(* ---------- unary operators and methods ---------- *)
Inductive unop := Neg | Abs | Pos.

Definition unop_eval (op : unop) (x : pyval) : R :=
  match x with
  | VNamed c a u =>
      match op with
      | Neg => lift (q_val c (fneg N a) u)
      | Abs => lift (q_val c (fabs N a) u)
      | Pos => Val (OVal x)
      end
  | VSI sg a =>
      match op with
      | Neg => Val (OVal (VSI sg (fneg N a)))
      | Abs => Val (OVal (VSI sg (fabs N a)))
      | Pos => Val (OVal x)
      end
  | _ => Raise Unmodelled
  end.

(* q.as_unit(newunit) *)
Definition as_unit (x : pyval) (newunit : string) : result pyval :=
  match x with
  | VNamed c a _ =>
      with_class c (fun q =>
        if negb (gmem newunit (qc_units q)) then Raise ValueError
        else q_val c a newunit)
  | _ => Raise Unmodelled
  end.

(* math.floor(q), math.ceil(q), math.trunc(q), round(q):
   Quantity: type(self)(<rounding>(self.displayvalue), self._unit) -- the rounding acts on the display value
   and the unit is kept;  SI: self._val(<rounding>(float(self))) *)
Definition q_round (X : mathops N) (k : roundkind) (c : nat) (a : num) (u : string) : result pyval :=
  match displayvalue (VNamed c a u) with
  | Raise e => Raise e
  | Val d => match round_with X k d with
             | Raise e => Raise e
             | Val r => mk c (VNum r) (Some u)
             end
  end.

Definition si_round (X : mathops N) (k : roundkind) (sg : list Z) (a : num) : result pyval :=
  match round_with X k a with Raise e => Raise e | Val r => Val (VSI sg r) end.

Definition round_eval (X : mathops N) (k : roundkind) (x : pyval) : R :=
  match x with
  | VNamed c a u => lift (q_round X k c a u)
  | VSI sg a => lift (si_round X k sg a)
  | _ => Raise Unmodelled
  end.

(* si.as_quantity(target): target is a quantity class of the module, or some other class *)
Definition as_quantity (x : pyval) (target : option nat) : result pyval :=
  match x with
  | VSI sg a =>
      match target with
      | None => Raise TypeError
      | Some c =>
          match class_sig_of c with
          | Raise e => Raise e
          | Val s => if sig_eqb s sg then mk_base c a else Raise ValueError
          end
      end
  | _ => Raise Unmodelled
  end.

Inductive getter := GSi | GDisplayValue | GUnit | GStrSuffix | GSisig | GAsSI.

Definition get (g : getter) (x : pyval) : R :=
  match g, x with
  | GSi, VNamed _ a _ | GSi, VSI _ a => Val (ONum a)
  | GDisplayValue, _ => match displayvalue x with Val d => Val (ONum d) | Raise e => Raise e end
  | GUnit, VNamed _ _ u => Val (OText u)
  | GUnit, VSI sg _ => Val (OText (si_unit_text sg))
  | GStrSuffix, _ => match str_suffix x with Val s => Val (OText s) | Raise e => Raise e end
  | GSisig, VNamed c _ _ => match class_sig_of c with Val s => Val (OSig s) | Raise e => Raise e end
  | GSisig, VSI sg _ => Val (OSig sg)
  | GAsSI, VNamed c a _ => lift (as_si c a)
  | _, _ => Raise Unmodelled
  end.

(* siunit(div, hat, dot): instance method of SI, class method of the quantity classes *)
Definition siunit_of (x : pyval) (div : bool) (hat dot : string) : R :=
  match x with
  | VSI sg _ => Val (OText (siunit sg div hat dot))
  | VNamed c _ _ => match class_sig_of c with
                    | Val s => Val (OText (siunit_q s div hat dot))
                    | Raise e => Raise e
                    end
  | _ => Raise Unmodelled
  end.

(* re-expression of one value in every declared unit of its class, in table
   order: [as_unit(u).si; as_unit(u).displayvalue] for each u *)
Fixpoint reexpress_units (x : pyval) (us : list (gstr * gfactor)) : result (list num) :=
  match us with
  | [] => Val []
  | (GStr u, _) :: r =>
      match as_unit x u with
      | Val y =>
          match y, displayvalue y, reexpress_units x r with
          | VNamed _ a _, Val d, Val l => Val (a :: d :: l)
          | _, Raise e, _ => Raise e
          | _, _, Raise e => Raise e
          | _, _, _ => Raise Unmodelled
          end
      | Raise e => Raise e
      end
  | (Bad_str _, _) :: _ => Raise Unmodelled
  end.

Definition reexpress (x : pyval) : R :=
  match x with
  | VNamed c _ _ =>
      match get_class T c with
      | Some q => match reexpress_units x (qc_units q) with Val l => Val (ONums l) | Raise e => Raise e end
      | None => Raise Unmodelled
      end
  | _ => Raise Unmodelled
  end.

(* ---------- one observable call ---------- *)
Inductive call :=
| CBin (op : binop) (x y : pyval)
| CUn (op : unop) (x : pyval)
| CMk (c : nat) (v : pyval) (u : option string)
| CMkSI (v : pyval) (u : string)
| CGet (g : getter) (x : pyval)
| CAsUnit (x : pyval) (u : string)
| CAsQuantity (x : pyval) (t : option nat)
| CSiunit (x : pyval) (div : bool) (hat dot : string)
| CReexpress (x : pyval)
| CParse (s : string).

Definition eval (k : call) : R :=
  match k with
  | CBin op x y => binop_eval op x y
  | CUn op x => unop_eval op x
  | CMk c v u => lift (mk c v u)
  | CMkSI v u => lift (mk_si v u)
  | CGet g x => get g x
  | CAsUnit x u => lift (as_unit x u)
  | CAsQuantity x t => lift (as_quantity x t)
  | CSiunit x d h t => siunit_of x d h t
  | CReexpress x => reexpress x
  | CParse s => match str_to_sisig s with Val l => Val (OSig l) | Raise e => Raise e end
  end.

(* ---------- comparison of outcomes, for the correspondence ---------- *)
Definition pyval_eqb (a b : pyval) : bool :=
  match a, b with
  | VNamed c x u, VNamed d y v => Nat.eqb c d && fsame N x y && String.eqb u v
  | VSI s x, VSI t y => sig_eqb s t && fsame N x y
  | VNum x, VNum y => fsame N x y
  | VStr, VStr => true
  | _, _ => false
  end.

Fixpoint nums_eqb (a b : list num) : bool :=
  match a, b with
  | [], [] => true
  | x :: r, y :: s => fsame N x y && nums_eqb r s
  | _, _ => false
  end.

Definition pyout_eqb (a b : pyout) : bool :=
  match a, b with
  | OVal x, OVal y => pyval_eqb x y
  | OBool x, OBool y => Bool.eqb x y
  | ONum x, ONum y => fsame N x y
  | OText x, OText y => String.eqb x y
  | OSig x, OSig y => sig_eqb x y
  | ONums x, ONums y => nums_eqb x y
  | _, _ => false
  end.

Definition R_eqb (a b : R) : bool :=
  match a, b with
  | Val x, Val y => pyout_eqb x y
  | Raise e, Raise f => exn_eqb e f
  | _, _ => false
  end.

Definition case_ok (k : call) (observed : R) : bool := R_eqb (eval k) observed.

Fixpoint mismatches_from (i : nat) (cases : list (call * R)) : list nat :=
  match cases with
  | [] => []
  | (k, o) :: r => if case_ok k o then mismatches_from (S i) r else i :: mismatches_from (S i) r
  end.

Fixpoint round_mismatches_from (X : mathops N) (i : nat) (cases : list (roundkind * pyval * R)) : list nat :=
  match cases with
  | [] => []
  | (k, x, o) :: r =>
      if R_eqb (round_eval X k x) o then round_mismatches_from X (S i) r else i :: round_mismatches_from X (S i) r
  end.

(* ---------- observation functions used by the statements of the theorems ---------- *)
(* SI dimension signature of a value: of its class for a named quantity, stored for an SI value *)
Definition sig_of (v : pyval) : option (list Z) :=
  match v with
  | VNamed c _ _ => option_map cls_sig (get_class T c)
  | VSI sg _ => Some sg
  | VNum _ => Some sig0
  | VStr => None
  end.

(* float(v): the SI value *)
Definition si_of (v : pyval) : option num :=
  match v with
  | VNamed _ a _ | VSI _ a | VNum a => Some a
  | VStr => None
  end.

(* a quantity value whose class is one of the module's classes *)
Definition wf_val (v : pyval) : bool :=
  match v with
  | VNamed c _ _ => match get_class T c with Some _ => true | None => false end
  | VSI _ _ => true
  | _ => false
  end.

(* "of the same type": the same quantity class, or two SI values with one signature *)
Definition same_type (x y : pyval) : bool :=
  match x, y with
  | VNamed c _ _, VNamed d _ _ => Nat.eqb c d
  | VSI s _, VSI t _ => sig_eqb s t
  | _, _ => false
  end.

End Model.

Arguments VNamed {N} cls si unit.
Arguments VSI {N} sig si.
Arguments VNum {N} x.
Arguments VStr {N}.
Arguments OVal {N} v.
Arguments OBool {N} b.
Arguments ONum {N} x.
Arguments OText {N} s.
Arguments OSig {N} l.
Arguments ONums {N} l.
Arguments CBin {N} op x y.
Arguments CUn {N} op x.
Arguments CMk {N} c v u.
Arguments CMkSI {N} v u.
Arguments CGet {N} g x.
Arguments CAsUnit {N} x u.
Arguments CAsQuantity {N} x t.
Arguments CSiunit {N} x div hat dot.
Arguments CReexpress {N} x.
Arguments CParse {N} s.
