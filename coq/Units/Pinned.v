(* Hand-copied excerpts of the tables of the PINNED tree (commit 13808df of
   pydsol-core), kept only to state the refutations in Props/C17.v: the
   generated tables (Gen_Tables.v) describe the current tree, on which these
   defects are repaired (proposed_fixes/C17-*.patch). *)
From Coq Require Import ZArith List String PrimFloat.
From PV Require Import Units.Tables.
Import ListNotations.
Local Open Scope string_scope.

(* units.py:1526-1534 of the pinned tree: _displayunits is a copy of _units *)
Definition pinned_density : qclass :=
  mkQClass "Density" true [] (GStr "kg/m^3")
    [(GStr "kg/m^3", GFac 0x1p+0%float 1%Z 1%positive); (GStr "g/cm^3", GFac 0x1.f4p+9%float 1000%Z 1%positive)]
    [(GStr "kg/m^3", Bad_str "1.0"); (GStr "g/cm^3", Bad_str "1000.0")]
    [(GStr "kg/m^3", GStr "kilogram per cubic meter"); (GStr "g/cm^3", GStr "gram per cubic centimeter")]
    [(GStr "kg", GInt 1%Z); (GStr "m", GInt (-3)%Z)]
    [GInt 0%Z; GInt 0%Z; GInt 1%Z; GInt (-3)%Z; GInt 0%Z; GInt 0%Z; GInt 0%Z; GInt 0%Z; GInt 0%Z]
    [] [].

(* units.py:1905-1950: the angstrom of Length and the per-angstrom of LinearDensity *)
Definition pinned_length : qclass :=
  mkQClass "Length" true [] (GStr "m")
    [(GStr "m", GFac 0x1p+0%float 1%Z 1%positive);
     (GStr "A", GFac 0x1.b7cdfd9d7bdbbp-34%float 7737125245533627%Z 77371252455336267181195264%positive)]
    [(GStr "A", GStr "Å")]
    [(GStr "m", GStr "meter"); (GStr "A", GStr "Angstrom")]
    [(GStr "m", GInt 1%Z)]
    [GInt 0%Z; GInt 0%Z; GInt 0%Z; GInt 1%Z; GInt 0%Z; GInt 0%Z; GInt 0%Z; GInt 0%Z; GInt 0%Z]
    [] [].

Definition pinned_lineardensity : qclass :=
  mkQClass "LinearDensity" true [] (GStr "/m")
    [(GStr "/m", GFac 0x1p+0%float 1%Z 1%positive);
     (GStr "/A", GFac 0x1.b7cdfd9d7bdbbp-34%float 7737125245533627%Z 77371252455336267181195264%positive)]
    [(GStr "/A", GStr "/Å")]
    [(GStr "/m", GStr "per meter"); (GStr "/A", GStr "per Angstrom")]
    [(GStr "m", GInt (-1)%Z)]
    [GInt 0%Z; GInt 0%Z; GInt 0%Z; GInt (-1)%Z; GInt 0%Z; GInt 0%Z; GInt 0%Z; GInt 0%Z; GInt 0%Z]
    [] [].

Definition pinned_classes : list qclass := [pinned_density; pinned_length; pinned_lineardensity].

(* '/A' read as  1 / (Length 'A') *)
Definition pinned_compounds : list compound :=
  [mkCompound 2 "/A" [[mkAtom SepSlash 1 "A" ExpNone]]].

(* units.py:69-73 of the pinned tree: "LinearDensity" "LuminousFlux" without the comma *)
Definition pinned_module : qmodule :=
  mkQModule pinned_classes
    [GStr "rad"; GStr "sr"; GStr "kg"; GStr "m"; GStr "s"; GStr "A"; GStr "K"; GStr "mol"; GStr "cd"]
    None
    [GStr "Length"; GStr "LinearDensityLuminousFlux"; GStr "LuminousIntensity"]
    ["Length"; "LinearDensity"; "LuminousFlux"; "LuminousIntensity"].
