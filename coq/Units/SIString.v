(* SI unit strings: the printer SI.siunit (units.py:1287-1326), the class-level
   printer Quantity.sidict_to_unit (units.py:698-750) and the parser
   SI.str_to_sisig (units.py:825-888), over Coq strings (sequences of bytes;
   every character the two functions look at is ASCII).
   Executable definitions only. *)
From Coq Require Import ZArith List Bool String Ascii DecimalString.
From PV Require Import Units.Sig.
Import ListNotations.
Local Open Scope string_scope.

Inductive exn := ValueError | TypeError | ZeroDivisionError | KeyError | AttributeError | Unmodelled.
Inductive result (A : Type) := Val (a : A) | Raise (e : exn).
Arguments Val {A} a.
Arguments Raise {A} e.

Definition exn_eqb (a b : exn) : bool :=
  match a, b with
  | ValueError, ValueError | TypeError, TypeError | ZeroDivisionError, ZeroDivisionError
  | KeyError, KeyError | AttributeError, AttributeError | Unmodelled, Unmodelled => true
  | _, _ => false
  end.

(* Python str(int) *)
Definition zstr (v : Z) : string := NilZero.string_of_int (Z.to_int v).

(* ---------- printer ---------- *)
(* One printed position: the unit name, then hat ++ str(v) unless v = 1. *)
Definition seg (hat : string) (u : string) (v : Z) : string :=
  if (v =? 1)%Z then u else u ++ hat ++ zstr v.

(* the positions printed in one pass, with the exponent to show *)
Fixpoint pass_items (sel : Z -> option Z) (names : list string) (sig : list Z) : list (string * Z) :=
  match names, sig with
  | u :: ns, v :: vs =>
      match sel v with
      | Some w => (u, w) :: pass_items sel ns vs
      | None => pass_items sel ns vs
      end
  | _, _ => []
  end.

Fixpoint join_items (hat dot : string) (l : list (string * Z)) : string :=
  match l with
  | [] => ""
  | [(u, w)] => seg hat u w
  | (u, w) :: r => seg hat u w ++ dot ++ join_items hat dot r
  end.

(* numerator pass: v > 0, or v < 0 when no divisor is used (shown as is) *)
Definition sel_num (div : bool) (v : Z) : option Z :=
  if (0 <? v)%Z || ((v <? 0)%Z && negb div) then Some v else None.
(* denominator pass (div only): v < 0, shown as -v *)
Definition sel_den (v : Z) : option Z := if (v <? 0)%Z then Some (- v)%Z else None.

Definition siunit_with (names : list string) (sig : list Z) (div : bool) (hat dot : string) : string :=
  let s := join_items hat dot (pass_items (sel_num div) names sig) in
  let t := if div then join_items hat dot (pass_items sel_den names sig) else "" in
  if String.eqb t "" then s else s ++ "/" ++ t.

(* SI.siunit *)
Definition siunit (sig : list Z) (div : bool) (hat dot : string) : string :=
  siunit_with si_names sig div hat dot.

(* Quantity.sidict_to_unit: the same, but an empty numerator is written "1" *)
Definition siunit_q (sig : list Z) (div : bool) (hat dot : string) : string :=
  let s := join_items hat dot (pass_items (sel_num div) si_names sig) in
  let t := if div then join_items hat dot (pass_items sel_den si_names sig) else "" in
  let s := if String.eqb s "" then "1" else s in
  if String.eqb t "" then s else s ++ "/" ++ t.

(* the unit text of an SI value: siunit(True, '', '.') *)
Definition si_unit_text (sig : list Z) : string := siunit sig true "" ".".

(* ---------- parser ---------- *)
Fixpoint sdrop (n : nat) (s : string) : string :=
  match n, s with
  | O, _ => s
  | S k, String _ r => sdrop k r
  | S _, EmptyString => EmptyString
  end.

Definition digit_val (c : ascii) : option Z :=
  let n := nat_of_ascii c in
  if Nat.leb 48 n && Nat.leb n 57 then Some (Z.of_nat (n - 48)) else None.

(* after the unit name: optional "^", then "-" digit (digit required) or an optional digit *)
Definition parse_exp (divs : Z) (s : string) : option (Z * string) :=
  let s1 := match s with String "^"%char r => r | _ => s end in
  match s1 with
  | String "-"%char r =>
      match r with
      | String c r2 => match digit_val c with
                       | Some d => Some ((divs * - d)%Z, r2)
                       | None => None            (* isolated - *)
                       end
      | EmptyString => None
      end
  | String c r2 => match digit_val c with
                   | Some d => Some ((divs * d)%Z, r2)
                   | None => Some (divs, s1)
                   end
  | EmptyString => Some (divs, s1)
  end.

Inductive scan_result :=
| ScanDone (s : string) (ret : list Z)     (* i reached 9 *)
| ScanSlash (s : string) (ret : list Z)    (* a "/" was met: restart at i = 0 with div = -1 *)
| ScanErr.

Definition cons_res (r : Z) (x : scan_result) : scan_result :=
  match x with
  | ScanDone s l => ScanDone s (r :: l)
  | ScanSlash s l => ScanSlash s (r :: l)
  | ScanErr => ScanErr
  end.

(* One sweep of the while loop over the positions i, i+1, ... whose names are
   [us]; [ret] holds ret[i], ret[i+1], ... (the entries before i are not looked
   at any more in this sweep and are put back by [cons_res]).  divs is +1 before
   the "/" and -1 after it. *)
Fixpoint scan (us : list string) (ret : list Z) (s : string) (divs : Z) : scan_result :=
  match us, ret with
  | u :: rest, r :: ret' =>
      let after_unit (s' : string) (r' : Z) :=
        if prefix "/" s'
        then (if (divs =? -1)%Z then ScanErr else ScanSlash (sdrop 1 s') (r' :: ret'))
        else cons_res r' (scan rest ret' s' divs) in
      if prefix u s then
        if String.eqb u "m" && prefix "mol" s then cons_res r (scan rest ret' s divs)
        else
          match parse_exp divs (sdrop (String.length u) s) with
          | None => ScanErr
          | Some (e, s2) =>
              if negb (r =? 0)%Z then ScanErr          (* unit used twice *)
              else
                let s3 := match s2 with String "."%char q => q | _ => s2 end in
                after_unit s3 e
          end
      else after_unit s r
  | _, _ => ScanDone s ret
  end.

Definition str_to_sisig (unitstr : string) : result (list Z) :=
  let finish (s : string) (ret : list Z) :=
    if String.eqb s "" then Val ret else Raise ValueError in
  match scan si_names sig0 unitstr 1 with
  | ScanErr => Raise ValueError
  | ScanDone s ret => finish s ret
  | ScanSlash s ret =>
      match scan si_names ret s (-1) with
      | ScanDone s' ret' => finish s' ret'
      | _ => Raise ValueError
      end
  end.

(* ---------- helpers for the correspondence and the bounded theorems ---------- *)
Definition res_sig_eqb (a b : result (list Z)) : bool :=
  match a, b with
  | Val x, Val y => sig_eqb x y
  | Raise e, Raise f => exn_eqb e f
  | _, _ => false
  end.

Definition fmt := (bool * string * string)%type.       (* div, hat, dot *)
Definition formats : list fmt :=
  [(true, "", ""); (true, "^", ""); (true, "", "."); (true, "^", ".");
   (false, "", ""); (false, "^", ""); (false, "", "."); (false, "^", ".")].

Definition print_fmt (sig : list Z) (f : fmt) : string :=
  let '(d, h, t) := f in siunit sig d h t.

Definition roundtrip_ok (sig : list Z) (f : fmt) : bool :=
  res_sig_eqb (str_to_sisig (print_fmt sig f)) (Val sig).

Definition roundtrip_all_formats (sig : list Z) : bool := forallb (roundtrip_ok sig) formats.
