(* Lifting of the executable table checks of Units/Tables.v to statements
   quantified over all classes and all table entries.  Nothing here looks at
   the generated tables: the facts [check gen_classes = true] are established
   by kernel evaluation in GenFacts16.v / GenFacts17.v and combined with the
   lemmas below. *)
From Coq Require Import ZArith List Bool String Lia.
From PV Require Import Units.Tables.
From PV Require Export Units.SigProofs.
Import ListNotations.
Local Open Scope string_scope.

(* ---------- small list facts ---------- *)
Lemma is_nil_true : forall A (l : list A), is_nil l = true -> l = [].
Proof. destruct l; simpl; congruence. Qed.

Lemma flat_map_nil : forall A B (f : A -> list B) l,
  flat_map f l = [] -> forall x, In x l -> f x = [].
Proof.
  induction l as [|a l IH]; simpl; intros H x Hx; [contradiction|].
  apply app_eq_nil in H. destruct H as [Ha Hl].
  destruct Hx as [->|Hx]; auto.
Qed.

Lemma indexed_from_in : forall A (l : list A) k i x,
  nth_error l i = Some x -> In ((k + i)%nat, x) (indexed_from k l).
Proof.
  induction l as [|a l IH]; intros k i x H.
  - destruct i; discriminate.
  - destruct i as [|i]; simpl in *.
    + inversion H; subst. left. f_equal. lia.
    + right. replace (k + S i)%nat with (S k + i)%nat by lia. apply IH. exact H.
Qed.

Lemma indexed_in : forall A (l : list A) i x, nth_error l i = Some x -> In (i, x) (indexed l).
Proof. intros. apply (indexed_from_in A l 0 i x H). Qed.

(* the offender list is empty  ->  the check holds for every entry of every class *)
Lemma offenders_nil : forall E (entries : qclass -> list E) ok T,
  offenders entries ok T = [] ->
  forall ci c, nth_error T ci = Some c ->
  forall ei e, nth_error (entries c) ei = Some e -> ok T ci c e = true.
Proof.
  intros E entries ok T H ci c Hc ei e He.
  unfold offenders in H.
  pose proof (flat_map_nil _ _ _ _ H (ci, c) (indexed_in _ _ _ _ Hc)) as H1.
  cbv beta iota in H1.
  pose proof (flat_map_nil _ _ _ _ H1 (ei, e) (indexed_in _ _ _ _ He)) as H2.
  cbv beta iota in H2.
  destruct (ok T ci c e); [reflexivity|discriminate].
Qed.

Lemma offenders_nil_in : forall E (entries : qclass -> list E) ok T,
  offenders entries ok T = [] ->
  forall ci c, nth_error T ci = Some c ->
  forall e, In e (entries c) -> ok T ci c e = true.
Proof.
  intros E entries ok T H ci c Hc e He.
  destruct (In_nth_error _ _ He) as [ei Hei].
  eapply offenders_nil; eauto.
Qed.

(* per-class checks written with flat_map over (indexed T) *)
Lemma per_class_nil : forall (ok : qclass -> bool) T,
  flat_map (fun '(ci, c) => if ok c then [] else [(ci, 0%nat)]) (indexed T) = [] ->
  forall ci c, nth_error T ci = Some c -> ok c = true.
Proof.
  intros ok T H ci c Hc.
  pose proof (flat_map_nil _ _ _ _ H (ci, c) (indexed_in _ _ _ _ Hc)) as H1.
  cbv beta iota in H1. destruct (ok c); [reflexivity|discriminate].
Qed.

(* ---------- signatures ---------- *)
Lemma cls_sig_length : forall c, List.length (cls_sig c) = 9%nat.
Proof. intros. unfold cls_sig. rewrite map_length. reflexivity. Qed.

(* ---------- dict lookups find entries of the list ---------- *)
Lemma clookup_in : forall i d v, clookup i d = Some v -> In (GCls i, v) d.
Proof.
  induction d as [|[k w] d IH]; simpl; intros v H; [discriminate|].
  destruct k as [j|r]; simpl in H.
  - destruct (Nat.eqb i j) eqn:E.
    + apply Nat.eqb_eq in E. subst. inversion H; subst. left. reflexivity.
    + right. auto.
  - right. auto.
Qed.

Lemma glookup_in : forall V k (d : list (gstr * V)) v, glookup k d = Some v -> In (GStr k, v) d.
Proof.
  induction d as [|[g w] d IH]; simpl; intros v H; [discriminate|].
  destruct g as [t|r]; simpl in H.
  - destruct (String.eqb k t) eqn:E.
    + apply String.eqb_eq in E. subst. inversion H; subst. left. reflexivity.
    + right. auto.
  - right. auto.
Qed.

Lemma gmem_true : forall V k (d : list (gstr * V)), gmem k d = true -> exists v, glookup k d = Some v.
Proof. unfold gmem. intros V k d. destruct (glookup k d); [eauto|discriminate]. Qed.

Lemma str_mem_in : forall s l, str_mem s l = true -> In s l.
Proof.
  induction l as [|x l IH]; simpl; intros H; [discriminate|].
  apply orb_true_iff in H. destruct H as [H|H].
  - apply String.eqb_eq in H. auto.
  - auto.
Qed.

(* ================= C16: what the table checks mean ================= *)
Section Lifted.
Variable T : list qclass.

(* every product entry  A._mul[B] = R  names classes of the module and
   sig R = sig A + sig B *)
Theorem mul_table_sound_spec :
  mul_table_sound T = true ->
  forall a ca b r, get_class T a = Some ca -> clookup b (qc_mul ca) = Some r ->
    exists rc cb cr, r = GCls rc /\ get_class T b = Some cb /\ get_class T rc = Some cr /\
                     cls_sig cr = sig_add (cls_sig ca) (cls_sig cb).
Proof.
  intros H a ca b r Ha Hl. apply is_nil_true in H. apply clookup_in in Hl.
  pose proof (offenders_nil_in _ _ _ _ H a ca Ha _ Hl) as Hs. unfold entry_sound in Hs.
  destruct r as [rc|]; [|discriminate].
  destruct (get_class T b) as [cb|] eqn:Eb; [|discriminate].
  destruct (get_class T rc) as [cr|] eqn:Er; [|discriminate].
  exists rc, cb, cr. repeat split; auto. apply sig_eqb_eq. exact Hs.
Qed.

Theorem div_table_sound_spec :
  div_table_sound T = true ->
  forall a ca b r, get_class T a = Some ca -> clookup b (qc_div ca) = Some r ->
    exists rc cb cr, r = GCls rc /\ get_class T b = Some cb /\ get_class T rc = Some cr /\
                     cls_sig cr = sig_sub (cls_sig ca) (cls_sig cb).
Proof.
  intros H a ca b r Ha Hl. apply is_nil_true in H. apply clookup_in in Hl.
  pose proof (offenders_nil_in _ _ _ _ H a ca Ha _ Hl) as Hs. unfold entry_sound in Hs.
  destruct r as [rc|]; [|discriminate].
  destruct (get_class T b) as [cb|] eqn:Eb; [|discriminate].
  destruct (get_class T rc) as [cr|] eqn:Er; [|discriminate].
  exists rc, cb, cr. repeat split; auto. apply sig_eqb_eq. exact Hs.
Qed.

(* every entry of every _mul / _div table is a pair of classes of the module *)
Theorem tables_closed_spec :
  tables_closed T = true ->
  forall a ca, get_class T a = Some ca ->
    forall k v, In (k, v) (qc_mul ca) \/ In (k, v) (qc_div ca) ->
      exists b r, k = GCls b /\ v = GCls r /\ (b < List.length T)%nat /\ (r < List.length T)%nat.
Proof.
  intros H a ca Ha k v Hin. unfold tables_closed in H. apply andb_true_iff in H. destruct H as [Hm Hd].
  apply is_nil_true in Hm. apply is_nil_true in Hd.
  assert (Hs : entry_closed T a ca (k, v) = true).
  { destruct Hin as [Hin|Hin].
    - exact (offenders_nil_in _ _ _ _ Hm a ca Ha _ Hin).
    - exact (offenders_nil_in _ _ _ _ Hd a ca Ha _ Hin). }
  unfold entry_closed in Hs. destruct k as [b|]; [|discriminate]. destruct v as [r|]; [|discriminate].
  apply andb_true_iff in Hs. destruct Hs as [H1 H2].
  apply Nat.ltb_lt in H1. apply Nat.ltb_lt in H2. exists b, r. auto.
Qed.

(* the base unit of every class is a declared unit whose factor is exactly 1 *)
Theorem base_factor_one_spec :
  base_factor_one T = true ->
  forall a ca, get_class T a = Some ca ->
    exists b f, qc_base ca = GStr b /\ glookup b (qc_units ca) = Some (GFac f 1 1).
Proof.
  intros H a ca Ha. apply is_nil_true in H.
  pose proof (per_class_nil base_one_ok T H a ca Ha) as Hs.
  unfold base_one_ok, base_ratio, unit_ratio in Hs.
  destruct (qc_base ca) as [b|]; [|discriminate].
  destruct (glookup b (qc_units ca)) as [[f n d|]|] eqn:E; try discriminate.
  destruct n as [|p|p]; try discriminate. destruct p; try discriminate. destruct d; try discriminate.
  exists b, f. auto.
Qed.

(* classes are plain: direct subclasses of Quantity that redefine none of the modelled methods *)
Theorem classes_plain_spec :
  classes_plain T = true ->
  forall a ca, get_class T a = Some ca -> qc_direct ca = true /\ qc_overrides ca = [].
Proof.
  intros H a ca Ha. apply is_nil_true in H.
  pose proof (per_class_nil class_plain_ok T H a ca Ha) as Hs.
  unfold class_plain_ok in Hs. apply andb_true_iff in Hs. destruct Hs as [H1 H2].
  split; auto. apply is_nil_true. exact H2.
Qed.

(* ================= C17 ================= *)

Theorem units_wf_spec :
  units_wf T = true ->
  forall a ca, get_class T a = Some ca -> forall k v, In (k, v) (qc_units ca) ->
    exists u f n d, k = GStr u /\ v = GFac f n d /\ n <> 0%Z.
Proof.
  intros H a ca Ha k v Hin. apply is_nil_true in H.
  pose proof (offenders_nil_in _ _ _ _ H a ca Ha _ Hin) as Hs. unfold unit_entry_ok in Hs.
  destruct k as [u|]; [|discriminate]. destruct v as [f n d|]; [|discriminate].
  exists u, f, n, d. repeat split; auto. intros ->. discriminate.
Qed.

Theorem every_unit_described_spec :
  every_unit_described T = true ->
  forall a ca, get_class T a = Some ca -> forall k v, In (k, v) (qc_units ca) ->
    exists u d, k = GStr u /\ glookup u (qc_descr ca) = Some (GStr d) /\ d <> "".
Proof.
  intros H a ca Ha k v Hin. apply is_nil_true in H.
  pose proof (offenders_nil_in _ _ _ _ H a ca Ha _ Hin) as Hs. unfold described_ok in Hs.
  destruct k as [u|]; [|discriminate].
  destruct (glookup u (qc_descr ca)) as [[d|]|] eqn:E; try discriminate.
  exists u, d. repeat split; auto. intros ->. discriminate.
Qed.

Theorem display_units_spec :
  display_units_ok T = true ->
  forall a ca, get_class T a = Some ca -> forall k v, In (k, v) (qc_display ca) ->
    exists u d, k = GStr u /\ v = GStr d /\ gmem u (qc_units ca) = true.
Proof.
  intros H a ca Ha k v Hin. apply is_nil_true in H.
  pose proof (offenders_nil_in _ _ _ _ H a ca Ha _ Hin) as Hs. unfold display_entry_ok in Hs.
  destruct k as [u|]; [|discriminate]. destruct v as [d|]; [|discriminate].
  exists u, d. auto.
Qed.

(* what str() appends is always a string *)
Theorem display_of_is_string :
  display_units_ok T = true ->
  forall a ca u, get_class T a = Some ca -> exists d, display_of ca u = GStr d.
Proof.
  intros H a ca u Ha. unfold display_of.
  destruct (glookup u (qc_display ca)) as [g|] eqn:E; [|eauto].
  apply glookup_in in E.
  destruct (display_units_spec H a ca Ha _ _ E) as (u' & d & _ & -> & _). eauto.
Qed.

Lemma forallb_in : forall A (f : A -> bool) l x, forallb f l = true -> In x l -> f x = true.
Proof. intros A f l x H Hx. rewrite forallb_forall in H. auto. Qed.

Lemma ratio_eqb_eq : forall a b, ratio_eqb a b = true -> a = b /\ a <> None.
Proof.
  intros [[n d]|] [[m e]|]; simpl; try discriminate. intros H.
  apply andb_true_iff in H. destruct H as [H1 H2]. apply Z.eqb_eq in H1. apply Pos.eqb_eq in H2.
  subst. split; [reflexivity|discriminate].
Qed.

(* two spellings that are displayed alike, or described alike, have the same exact factor *)
Theorem aliases_share_factor_spec :
  aliases_share_factor T = true ->
  forall a ca, get_class T a = Some ca ->
    forall u fu v fv, In (GStr u, fu) (qc_units ca) -> In (GStr v, fv) (qc_units ca) ->
      same_display ca u v = true \/ same_descr ca u v = true ->
      unit_ratio ca u = unit_ratio ca v /\ unit_ratio ca u <> None.
Proof.
  intros H a ca Ha u fu v fv Hu Hv Hrel. unfold aliases_share_factor in H.
  apply andb_true_iff in H. destruct H as [H1 H2]. apply is_nil_true in H1. apply is_nil_true in H2.
  destruct Hrel as [Hrel|Hrel].
  - pose proof (offenders_nil_in _ _ _ _ H1 a ca Ha _ Hu) as Hs. unfold alias_ok in Hs.
    pose proof (forallb_in _ _ _ _ Hs Hv) as Hs2. cbv beta iota in Hs2. rewrite Hrel in Hs2.
    apply ratio_eqb_eq. exact Hs2.
  - pose proof (offenders_nil_in _ _ _ _ H2 a ca Ha _ Hu) as Hs. unfold alias_ok in Hs.
    pose proof (forallb_in _ _ _ _ Hs Hv) as Hs2. cbv beta iota in Hs2. rewrite Hrel in Hs2.
    apply ratio_eqb_eq. exact Hs2.
Qed.

End Lifted.

(* every advertised public name exists in the module *)
Theorem all_names_exist_spec : forall M,
  all_names_exist M = true ->
  forall g, In g (qm_all M) -> exists n, g = GStr n /\ In n (qm_dir M).
Proof.
  intros M H g Hg. apply is_nil_true in H. unfold all_names_bad in H.
  destruct (In_nth_error _ _ Hg) as [i Hi].
  pose proof (flat_map_nil _ _ _ _ H (i, g) (indexed_in _ _ _ _ Hi)) as H1. cbv beta iota in H1.
  destruct (name_ok M g) eqn:E; [|discriminate]. unfold name_ok in E.
  destruct g as [n|]; [|discriminate]. exists n. split; auto. apply str_mem_in. exact E.
Qed.

(* every listed compound unit: each reading spells the unit's name, has the
   dimension of the declaring class and a product of component factors within
   1e-12 (relative) of the declared factor *)
Theorem compound_units_agree_spec : forall T L,
  compound_units_agree T L = true ->
  forall cp, In cp L -> cp_readings cp <> [] /\ forall r, In r (cp_readings cp) -> reading_ok T cp r = true.
Proof.
  intros T L H cp Hcp. apply is_nil_true in H. unfold compound_bad in H.
  destruct (In_nth_error _ _ Hcp) as [i Hi].
  pose proof (flat_map_nil _ _ _ _ H (i, cp) (indexed_in _ _ _ _ Hi)) as H1. cbv beta iota in H1.
  destruct (compound_ok T cp) eqn:E; [|discriminate]. unfold compound_ok in E.
  apply andb_true_iff in E. destruct E as [E1 E2]. split.
  - intros Hn. rewrite Hn in E1. discriminate.
  - intros r Hr. eapply forallb_in; eauto.
Qed.

(* what one accepted reading of a compound unit name says:
   - it spells the name of the unit,
   - the signatures of its atoms, with their exponents, add up to the signature of the declaring class,
   - the declared factor fn/fd and the product pn/pd of the atoms' exact factors satisfy
     |fn/fd - pn/pd| <= 1e-12 * |pn/pd|   (written cross-multiplied over Z) *)
Theorem reading_ok_spec : forall T cp r, reading_ok T cp r = true ->
  exists c fn fd pn pd,
    get_class T (cp_cls cp) = Some c /\
    render_reading r = cp_unit cp /\
    reading_sig T (signed_atoms false r) = Some (cls_sig c) /\
    unit_ratio c (cp_unit cp) = Some (fn, fd) /\
    reading_product T (signed_atoms false r) = Some (pn, pd) /\
    pd <> 0%Z /\
    (Z.abs (fn * pd - pn * Zpos fd) * 1000000000000 <= Z.abs (pn * Zpos fd))%Z.
Proof.
  intros T cp r H. unfold reading_ok in H.
  destruct (get_class T (cp_cls cp)) as [c|]; [|discriminate].
  apply andb_true_iff in H. destruct H as [H H3]. apply andb_true_iff in H. destruct H as [H1 H2].
  apply String.eqb_eq in H1.
  destruct (reading_sig T (signed_atoms false r)) as [s|] eqn:Es; [|discriminate].
  apply sig_eqb_eq in H2. subst s.
  destruct (unit_ratio c (cp_unit cp)) as [[fn fd]|] eqn:Eu; [|discriminate].
  destruct (reading_product T (signed_atoms false r)) as [[pn pd]|] eqn:Ep; [|discriminate].
  unfold close_1e12 in H3.
  apply andb_true_iff in H3. destruct H3 as [H3 H6]. apply andb_true_iff in H3. destruct H3 as [H4 H5].
  apply negb_true_iff in H5. apply Z.eqb_neq in H5. apply Z.leb_le in H6.
  exists c, fn, fd, pn, pd. repeat split; auto.
Qed.
