(* Bounded forms of the print/parse round trip of SI unit strings, by kernel
   evaluation of the transcribed printer and parser (Units/SIString.v).
   These are the fallback named in DESIGN.md section 4 (C16):
     parse_print_bounded_1 : all 3^9 signatures with exponents -1..1, 8 formats
     parse_print_pairs_9   : two non-zero positions, exponents -9..9, 8 formats *)
From Coq Require Import ZArith List Bool String Lia.
From PV Require Import Units.Tables Units.SIString Units.TableProofs.
Import ListNotations.
Local Open Scope Z_scope.

(* all lists of length n over vals *)
Fixpoint sigs_over (vals : list Z) (n : nat) : list (list Z) :=
  match n with
  | O => [[]]
  | S k => flat_map (fun v => map (cons v) (sigs_over vals k)) vals
  end.

Lemma sigs_over_in : forall vals n l,
  List.length l = n -> Forall (fun v => In v vals) l -> In l (sigs_over vals n).
Proof.
  induction n as [|n IH]; intros l Hl Hf.
  - destruct l; [left; reflexivity|discriminate].
  - destruct l as [|v l]; [discriminate|]. simpl. inversion Hf; subst.
    apply in_flat_map. exists v. split; auto. apply in_map. apply IH; auto.
Qed.

Definition roundtrip_all (sigs : list (list Z)) : bool := forallb roundtrip_all_formats sigs.

Lemma roundtrip_all_spec : forall sigs, roundtrip_all sigs = true ->
  forall sig, In sig sigs -> forall d h t, In (d, h, t) formats ->
    str_to_sisig (siunit sig d h t) = Val sig.
Proof.
  intros sigs H sig Hs d h t Hf. unfold roundtrip_all in H. rewrite forallb_forall in H.
  specialize (H sig Hs). unfold roundtrip_all_formats in H. rewrite forallb_forall in H.
  specialize (H (d, h, t) Hf). unfold roundtrip_ok, print_fmt, res_sig_eqb in H.
  destruct (str_to_sisig (siunit sig d h t)) as [x|e]; [|discriminate].
  apply sig_eqb_eq in H. congruence.
Qed.

Lemma formats_complete : forall d h t, (h = "" \/ h = "^")%string -> (t = "" \/ t = ".")%string ->
  In (d, h, t) formats.
Proof. intros [|] h t [-> | ->] [-> | ->]; simpl; tauto. Qed.

(* ---- all exponents in -1..1 ---- *)
Lemma roundtrip_exhaustive_1 : roundtrip_all (sigs_over [-1; 0; 1] 9) = true.
Proof. vm_compute. reflexivity. Qed.

Theorem parse_print_bounded_1 : forall sig d h t,
  List.length sig = 9%nat -> Forall (fun v => -1 <= v <= 1) sig ->
  (h = "" \/ h = "^")%string -> (t = "" \/ t = ".")%string ->
  str_to_sisig (siunit sig d h t) = Val sig.
Proof.
  intros sig d h t Hl Hf Hh Ht.
  apply (roundtrip_all_spec _ roundtrip_exhaustive_1); [|apply formats_complete; auto].
  apply sigs_over_in; auto. eapply Forall_impl; [|exact Hf].
  intros v Hv. simpl. assert (v = -1 \/ v = 0 \/ v = 1) by lia. tauto.
Qed.

(* ---- two non-zero positions, exponents -9..9 ---- *)
Fixpoint place (n i : nat) (x : Z) : list Z :=          (* x at position i of n, zeros elsewhere *)
  match n with
  | O => []
  | S k => match i with O => x :: repeat 0 k | S j => 0 :: place k j x end
  end.

Definition digits9 : list Z := [-9; -8; -7; -6; -5; -4; -3; -2; -1; 0; 1; 2; 3; 4; 5; 6; 7; 8; 9].

Definition pair_sigs : list (list Z) :=
  flat_map (fun i => flat_map (fun j =>
    if Nat.ltb i j then
      flat_map (fun x => map (fun y => sig_add (place 9 i x) (place 9 j y)) digits9) digits9
    else []) (seq 0 9)) (seq 0 9).

Lemma roundtrip_pairs_9 : roundtrip_all pair_sigs = true.
Proof. vm_compute. reflexivity. Qed.

Theorem parse_print_pairs_9 : forall i j x y d h t,
  (i < j < 9)%nat -> -9 <= x <= 9 -> -9 <= y <= 9 ->
  (h = "" \/ h = "^")%string -> (t = "" \/ t = ".")%string ->
  let sig := sig_add (place 9 i x) (place 9 j y) in
  str_to_sisig (siunit sig d h t) = Val sig.
Proof.
  intros i j x y d h t Hij Hx Hy Hh Ht sig.
  apply (roundtrip_all_spec _ roundtrip_pairs_9); [|apply formats_complete; auto].
  unfold pair_sigs. apply in_flat_map. exists i. split; [apply in_seq; lia|].
  apply in_flat_map. exists j. split; [apply in_seq; lia|].
  replace (Nat.ltb i j) with true by (symmetry; apply Nat.ltb_lt; lia).
  assert (Hd : forall v, -9 <= v <= 9 -> In v digits9).
  { intros v Hv. unfold digits9. simpl.
    assert (v = -9 \/ v = -8 \/ v = -7 \/ v = -6 \/ v = -5 \/ v = -4 \/ v = -3 \/ v = -2 \/ v = -1 \/ v = 0 \/
            v = 1 \/ v = 2 \/ v = 3 \/ v = 4 \/ v = 5 \/ v = 6 \/ v = 7 \/ v = 8 \/ v = 9) by lia.
    tauto. }
  apply in_flat_map. exists x. split; [auto|]. apply in_map_iff. exists y. auto.
Qed.
