(* The print / parse round trip of SI unit strings, for ALL signatures with
   single-digit exponents and all eight print formats:

     parse_print : length sig = 9 -> (forall v in sig, -9 <= v <= 9) ->
                   hat in {"", "^"} -> dot in {"", "."} ->
                   str_to_sisig (siunit sig div hat dot) = Val sig

   Compositional proof: one sweep of the parser over the unit positions
   consumes exactly the segments one pass of the printer wrote (scan_pass, by
   induction over the list of unit names).  What the induction needs to know
   about the nine names is a decidable condition (names_ok) checked by
   computation: no name is a prefix-confusable with a later one, except the
   pairs sr/s (told apart by the character that follows "s" in a print-out)
   and m/mol (the parser's explicit exception). *)
From Coq Require Import ZArith List Bool String Ascii Lia DecimalString.
From PV Require Import Units.Sig Units.SigProofs Units.SIString.
Import ListNotations.
Local Open Scope string_scope.

(* ================= strings ================= *)
Lemma app_assoc_s : forall a b c : string, (a ++ b) ++ c = a ++ (b ++ c).
Proof. induction a; simpl; intros; [reflexivity|]. rewrite IHa. reflexivity. Qed.

Lemma app_nil_r_s : forall a : string, a ++ "" = a.
Proof. induction a; simpl; [reflexivity|]. rewrite IHa. reflexivity. Qed.

Lemma prefix_cons : forall c a d b,
  prefix (String c a) (String d b) = if Ascii.eqb c d then prefix a b else false.
Proof.
  intros. simpl. destruct (ascii_dec c d) as [->|Hn].
  - rewrite Ascii.eqb_refl. reflexivity.
  - apply Ascii.eqb_neq in Hn. rewrite Hn. reflexivity.
Qed.

Lemma prefix_nil_l : forall s, prefix "" s = true.
Proof. destruct s; reflexivity. Qed.

Lemma prefix_app_self : forall u y, prefix u (u ++ y) = true.
Proof.
  induction u as [|c u IH]; intros y.
  - apply prefix_nil_l.
  - change (String c u ++ y) with (String c (u ++ y)). rewrite prefix_cons, Ascii.eqb_refl. apply IH.
Qed.

Lemma sdrop_app_self : forall u y, sdrop (String.length u) (u ++ y) = y.
Proof. induction u as [|c u IH]; intros y; simpl; [reflexivity|apply IH]. Qed.

(* first character *)
Definition shead (s : string) : option ascii := match s with EmptyString => None | String c _ => Some c end.

Lemma shead_app : forall a b, a <> "" -> shead (a ++ b) = shead a.
Proof. destruct a; simpl; intros; [congruence|reflexivity]. Qed.

(* a and b differ at some position both have *)
Fixpoint incomp (a b : string) : bool :=
  match a, b with
  | String c a', String d b' => if Ascii.eqb c d then incomp a' b' else true
  | _, _ => false
  end.

Lemma incomp_prefix : forall a b y, incomp a b = true -> prefix a (b ++ y) = false.
Proof.
  induction a as [|c a IH]; intros b y H; [discriminate|].
  destruct b as [|d b]; [discriminate|].
  change (String d b ++ y) with (String d (b ++ y)). rewrite prefix_cons. simpl in H.
  destruct (Ascii.eqb c d); [apply IH; exact H|reflexivity].
Qed.

(* ================= characters that may follow what ================= *)
(* plain: not one of the characters the exponent syntax starts with *)
Definition plainc (c : ascii) : bool :=
  negb (Ascii.eqb c "^") && negb (Ascii.eqb c "-") &&
  match digit_val c with None => true | Some _ => false end.

Definition plainhead (s : string) : bool :=
  match shead s with None => true | Some c => plainc c end.

(* a name starts with a plain character other than "/" and "." *)
Definition name_ok (u : string) : bool :=
  match shead u with
  | None => false
  | Some c => plainc c && negb (Ascii.eqb c "/") && negb (Ascii.eqb c ".")
  end.

(* a name that comes after another one does not start with "o" or "r" *)
Definition later_ok (u : string) : bool :=
  match shead u with
  | None => false
  | Some c => negb (Ascii.eqb c "o") && negb (Ascii.eqb c "r")
  end.

Definition nohead_or (s : string) : bool :=
  match shead s with None => true | Some c => negb (Ascii.eqb c "o") && negb (Ascii.eqb c "r") end.

Definition pair_ok (u b : string) : bool :=
  incomp u b || (String.eqb u "sr" && String.eqb b "s") || (String.eqb u "m" && String.eqb b "mol").

Fixpoint names_ok (names : list string) : bool :=
  match names with
  | [] => true
  | u :: rest => name_ok u && forallb (pair_ok u) rest && forallb later_ok rest && names_ok rest
  end.

Lemma si_names_ok : names_ok si_names = true.
Proof. vm_compute. reflexivity. Qed.

(* ================= the exponent ================= *)
Definition expstr (hat : string) (w : Z) : string := if (w =? 1)%Z then "" else hat ++ zstr w.

Lemma seg_expstr : forall hat u w, seg hat u w = u ++ expstr hat w.
Proof. intros. unfold seg, expstr. destruct (w =? 1)%Z; [rewrite app_nil_r_s|]; reflexivity. Qed.

Definition good_hat (hat : string) : Prop := hat = "" \/ hat = "^".
Definition good_dot (dot : string) : Prop := dot = "" \/ dot = ".".
Definition good_divs (divs : Z) : Prop := divs = 1%Z \/ divs = (-1)%Z.

Lemma w_cases : forall w : Z, (-9 <= w <= 9)%Z -> w <> 0%Z ->
  w = (-9)%Z \/ w = (-8)%Z \/ w = (-7)%Z \/ w = (-6)%Z \/ w = (-5)%Z \/ w = (-4)%Z \/ w = (-3)%Z \/
  w = (-2)%Z \/ w = (-1)%Z \/ w = 1%Z \/ w = 2%Z \/ w = 3%Z \/ w = 4%Z \/ w = 5%Z \/ w = 6%Z \/
  w = 7%Z \/ w = 8%Z \/ w = 9%Z.
Proof. intros. lia. Qed.

Lemma plainhead_parse : forall divs r, plainhead r = true -> parse_exp divs r = Some (divs, r).
Proof.
  intros divs r H. destruct r as [|c r]; [reflexivity|].
  unfold plainhead, plainc in H. simpl in H.
  apply andb_true_iff in H. destruct H as [H H3]. apply andb_true_iff in H. destruct H as [H1 H2].
  apply negb_true_iff in H1. apply negb_true_iff in H2.
  apply Ascii.eqb_neq in H1. apply Ascii.eqb_neq in H2.
  unfold parse_exp.
  assert (E1 : match String c r with String "^"%char q => q | _ => String c r end = String c r).
  { destruct c as [[] [] [] [] [] [] [] []]; try reflexivity. exfalso. apply H1. reflexivity. }
  rewrite E1.
  destruct (digit_val c) eqn:Ed; [discriminate|].
  destruct c as [[] [] [] [] [] [] [] []]; try reflexivity. exfalso. apply H2. reflexivity.
Qed.

(* the printed exponent is read back, the rest of the text is untouched *)
Lemma parse_exp_ok : forall hat divs w r,
  good_hat hat -> good_divs divs -> (-9 <= w <= 9)%Z -> w <> 0%Z ->
  (w = 1%Z -> plainhead r = true) ->
  parse_exp divs (expstr hat w ++ r) = Some ((divs * w)%Z, r).
Proof.
  intros hat divs w r Hh Hd Hw Hw0 Hp.
  destruct (Z.eq_dec w 1) as [->|Hn1].
  - unfold expstr. simpl. rewrite (plainhead_parse divs r (Hp eq_refl)). rewrite Z.mul_1_r. reflexivity.
  - pose proof (w_cases w Hw Hw0) as Hc.
    destruct Hh as [-> | ->]; destruct Hd as [-> | ->];
      repeat (destruct Hc as [-> | Hc]; [try congruence; vm_compute; reflexivity|]);
      subst; try congruence; vm_compute; reflexivity.
Qed.

(* the text that follows a printed unit name never starts with "o" or "r" *)
Lemma expstr_head : forall hat w r,
  good_hat hat -> (-9 <= w <= 9)%Z -> w <> 0%Z ->
  nohead_or r = true -> nohead_or (expstr hat w ++ r) = true.
Proof.
  intros hat w r Hh Hw Hw0 Hr.
  destruct (Z.eq_dec w 1) as [->|Hn1]; [exact Hr|].
  pose proof (w_cases w Hw Hw0) as Hc.
  destruct Hh as [-> | ->];
    repeat (destruct Hc as [-> | Hc]; [try congruence; vm_compute; reflexivity|]);
    subst; try congruence; vm_compute; reflexivity.
Qed.

(* ================= one pass of the printer ================= *)
Section Pass.
Variables hat dot : string.
Hypothesis Hhat : good_hat hat.
Hypothesis Hdot : good_dot dot.

(* the items of one pass, followed by [tail] *)
Fixpoint render (items : list (string * Z)) (tail : string) : string :=
  match items with
  | [] => tail
  | (u, w) :: r => seg hat u w ++ match r with [] => tail | _ => dot ++ render r tail end
  end.

Lemma join_render : forall items tail, join_items hat dot items ++ tail = render items tail.
Proof.
  induction items as [|[u w] r IH]; intros tail; [reflexivity|].
  destruct r as [|p r'].
  - reflexivity.
  - change (join_items hat dot ((u, w) :: p :: r')) with (seg hat u w ++ dot ++ join_items hat dot (p :: r')).
    rewrite !app_assoc_s. rewrite IH. reflexivity.
Qed.

Lemma join_nonempty : forall items, (forall u w, In (u, w) items -> u <> "") -> items <> [] ->
  join_items hat dot items <> "".
Proof.
  intros items Hn Hi. destruct items as [|[u w] r]; [congruence|].
  assert (Hu : u <> "") by (apply (Hn u w); left; reflexivity).
  assert (Hs : exists c s, seg hat u w = String c s).
  { rewrite seg_expstr. destruct u as [|c u']; [congruence|]. simpl. eauto. }
  destruct Hs as (c & s & Hs).
  destruct r as [|p r']; simpl; rewrite Hs; discriminate.
Qed.

Variable sel : Z -> option Z.
Variable divs : Z.
Hypothesis Hdivs : good_divs divs.
(* what the pass prints for an exponent v is a non-zero single digit w with divs * w = v *)
Hypothesis sel_spec : forall v w, (-9 <= v <= 9)%Z -> sel v = Some w ->
  (-9 <= w <= 9)%Z /\ w <> 0%Z /\ (divs * w)%Z = v.

Lemma pass_items_in : forall names vs u w,
  In (u, w) (pass_items sel names vs) -> In u names /\ exists v, In v vs /\ sel v = Some w.
Proof.
  induction names as [|n names IH]; intros vs u w H; [contradiction|].
  destruct vs as [|v vs]; [contradiction|]. simpl in H.
  destruct (sel v) as [w'|] eqn:E.
  - destruct H as [H|H].
    + inversion H; subst. split; [left; reflexivity|]. exists v. split; [left; reflexivity|exact E].
    + destruct (IH vs u w H) as (H1 & v' & H2 & H3). split; [right; exact H1|]. exists v'. split; [right; exact H2|exact H3].
  - destruct (IH vs u w H) as (H1 & v' & H2 & H3). split; [right; exact H1|]. exists v'. split; [right; exact H2|exact H3].
Qed.

(* what the sweep leaves in ret: the printed exponents, the old entries elsewhere *)
Fixpoint merge (vs rs : list Z) : list Z :=
  match vs, rs with
  | v :: vs', r :: rs' => (match sel v with Some _ => v | None => r end) :: merge vs' rs'
  | _, _ => rs
  end.

Lemma merge_none : forall names vs rs,
  List.length vs = List.length names -> pass_items sel names vs = [] -> merge vs rs = rs.
Proof.
  induction names as [|n names IH]; intros vs rs Hl H.
  - destruct vs; [|discriminate]. reflexivity.
  - destruct vs as [|v vs]; [discriminate|]. simpl in H.
    destruct (sel v) eqn:E; [discriminate|].
    destruct rs as [|r rs]; [reflexivity|]. simpl. rewrite E. f_equal. apply (IH vs rs); [simpl in Hl; lia|exact H].
Qed.

Definition bounded (vs : list Z) : Prop := Forall (fun v => (-9 <= v <= 9)%Z) vs.

(* entries of ret at the positions this pass prints are still zero *)
Fixpoint fresh (vs rs : list Z) : Prop :=
  match vs, rs with
  | v :: vs', r :: rs' => (sel v <> None -> r = 0%Z) /\ fresh vs' rs'
  | _, _ => True
  end.

Definition finish_pass (tail : string) (l : list Z) : scan_result :=
  match tail with
  | EmptyString => ScanDone "" l
  | String _ t => ScanSlash t l
  end.

Definition tail_ok (tail : string) (names : list string) : Prop :=
  tail = "" \/ (exists t, tail = String "/" t) /\ divs = 1%Z /\ names <> [].

(* head of what a pass prints *)
Lemma render_head : forall items tail,
  (forall u w, In (u, w) items -> u <> "") ->
  shead (render items tail) = match items with [] => shead tail | (u, _) :: _ => shead u end.
Proof.
  intros items tail Hn. destruct items as [|[u w] r]; [reflexivity|].
  assert (Hu : u <> "") by (apply (Hn u w); left; reflexivity).
  simpl. rewrite seg_expstr, !app_assoc_s. apply shead_app. exact Hu.
Qed.

Lemma name_ok_nonempty : forall u, name_ok u = true -> u <> "".
Proof. intros u H ->. discriminate. Qed.

Lemma name_ok_head : forall u, name_ok u = true ->
  exists c s, u = String c s /\ plainc c = true /\ c <> "/"%char /\ c <> "."%char.
Proof.
  intros [|c s] H; [discriminate|]. unfold name_ok in H. simpl in H.
  apply andb_true_iff in H. destruct H as [H H3]. apply andb_true_iff in H. destruct H as [H1 H2].
  apply negb_true_iff in H2. apply negb_true_iff in H3.
  apply Ascii.eqb_neq in H2. apply Ascii.eqb_neq in H3. eauto 10.
Qed.

Lemma tail_heads : forall tail names, tail_ok tail names ->
  plainhead tail = true /\ nohead_or tail = true.
Proof.
  intros tail names [->|((t & ->) & _)]; split; reflexivity.
Qed.

(* the text printed for the positions after the current one, given all their
   names are good "later" names: its head is plain (no exponent character), not
   "." and not "o"/"r"; it starts with "/" only if nothing is printed and the
   tail is the divisor *)
Lemma render_heads : forall names vs tail,
  forallb name_ok names = true -> forallb later_ok names = true ->
  tail_ok tail names \/ tail = "" \/ (exists t, tail = String "/" t) ->
  let s := render (pass_items sel names vs) tail in
  plainhead s = true /\ nohead_or s = true /\
  (forall q, s <> String "." q) /\
  (prefix "/" s = true -> pass_items sel names vs = [] /\ exists t, tail = String "/" t).
Proof.
  intros names vs tail Hn Hl Ht s.
  assert (Hne : forall u w, In (u, w) (pass_items sel names vs) -> u <> "").
  { intros u w Hin. apply pass_items_in in Hin. destruct Hin as (Hin & _).
    rewrite forallb_forall in Hn. apply name_ok_nonempty. auto. }
  assert (Htail : plainhead tail = true /\ nohead_or tail = true /\ (forall q, tail <> String "." q)).
  { destruct Ht as [[->|((t & ->) & _)]|[->|(t & ->)]];
      (split; [reflexivity|split; [reflexivity|intros; discriminate]]). }
  pose proof (render_head (pass_items sel names vs) tail Hne) as Hh. fold s in Hh.
  destruct (pass_items sel names vs) as [|[u w] r] eqn:Ei.
  - simpl in s. subst s. destruct Htail as (A & B & C).
    split; [exact A|]. split; [exact B|]. split; [exact C|].
    intros Hp. split; [reflexivity|].
    destruct Ht as [[->|((t & ->) & _)]|[->|(t & ->)]]; try discriminate; eauto.
  - assert (Hin : In u names).
    { assert (H0 : In (u, w) (pass_items sel names vs)) by (rewrite Ei; left; reflexivity).
      apply pass_items_in in H0. tauto. }
    rewrite forallb_forall in Hn. rewrite forallb_forall in Hl.
    destruct (name_ok_head u (Hn u Hin)) as (c & su & -> & Hc1 & Hc2 & Hc3).
    pose proof (Hl _ Hin) as Hlo. unfold later_ok in Hlo. simpl in Hlo.
    simpl in Hh. destruct s as [|c' s']; [discriminate|]. simpl in Hh. inversion Hh; subst c'.
    split; [|split; [|split]].
    + unfold plainhead. simpl. exact Hc1.
    + unfold nohead_or. simpl. exact Hlo.
    + intros q Hq. inversion Hq. congruence.
    + intros Hp. rewrite prefix_cons in Hp. destruct (Ascii.eqb "/" c) eqn:E; [|discriminate].
      apply Ascii.eqb_eq in E. congruence.
Qed.


Lemma names_ok_all : forall names, names_ok names = true -> forallb name_ok names = true.
Proof.
  induction names as [|u r IH]; intros H; [reflexivity|]. simpl in *.
  repeat (apply andb_true_iff in H; destruct H as [H ?]). rewrite H. simpl. auto.
Qed.

Lemma nohead_or_dot : forall s, nohead_or (String "." s) = true.
Proof. reflexivity. Qed.

(* the text after the name of a printed position does not start with "o" or "r" *)
Lemma after_name_head : forall names vs tail w,
  forallb name_ok names = true -> forallb later_ok names = true ->
  tail = "" \/ (exists t, tail = String "/" t) ->
  (-9 <= w <= 9)%Z -> w <> 0%Z ->
  let x := match pass_items sel names vs with [] => tail | _ => dot ++ render (pass_items sel names vs) tail end in
  nohead_or (expstr hat w ++ x) = true /\ (w = 1%Z -> plainhead x = true) /\
  (match x with String "."%char q => q | _ => x end = render (pass_items sel names vs) tail).
Proof.
  intros names vs tail w Hn Hl Ht Hw Hw0 x.
  destruct (render_heads names vs tail Hn Hl (or_intror Ht)) as (P1 & P2 & P3 & _).
  assert (Hx : nohead_or x = true /\ plainhead x = true /\
               match x with String "."%char q => q | _ => x end = render (pass_items sel names vs) tail).
  { subst x. destruct (pass_items sel names vs) as [|p r] eqn:Ei.
    - simpl. destruct Ht as [->|(t & ->)]; repeat split; reflexivity.
    - set (R := render (p :: r) tail) in *. clearbody R.
      destruct Hdot as [Hd | Hd]; rewrite Hd.
      + change ("" ++ R) with R. split; [exact P2|]. split; [exact P1|].
        destruct R as [|c q]; [reflexivity|].
        destruct c as [[] [] [] [] [] [] [] []]; try reflexivity. exfalso. eapply P3. reflexivity.
      + change ("." ++ R) with (String "." R).
        repeat split; reflexivity. }
  destruct Hx as (A & B & C). split; [apply expstr_head; auto|]. split; auto.
Qed.

(* a non-empty print-out is a name of the list followed by text not starting with "o" / "r" *)
Lemma render_shape : forall names vs tail,
  forallb name_ok names = true -> forallb later_ok names = true ->
  tail = "" \/ (exists t, tail = String "/" t) ->
  List.length vs = List.length names -> bounded vs ->
  pass_items sel names vs = [] \/
  exists uj y, In uj names /\ render (pass_items sel names vs) tail = uj ++ y /\ nohead_or y = true.
Proof.
  induction names as [|n names IH]; intros vs tail Hn Hl Ht Hlen Hb; [left; reflexivity|].
  destruct vs as [|v vs]; [discriminate|].
  simpl in Hn, Hl. apply andb_true_iff in Hn. destruct Hn as [Hn1 Hn2].
  apply andb_true_iff in Hl. destruct Hl as [Hl1 Hl2].
  inversion Hb as [|? ? Hv Hb']; subst.
  simpl. destruct (sel v) as [w|] eqn:E.
  - right. destruct (sel_spec v w Hv E) as (Hw & Hw0 & _).
    destruct (after_name_head names vs tail w Hn2 Hl2 Ht Hw Hw0) as (A & _ & _).
    exists n. eexists. split; [left; reflexivity|]. split; [|exact A].
    simpl. rewrite seg_expstr, app_assoc_s. reflexivity.
  - destruct (IH vs tail Hn2 Hl2 Ht) as [H|(uj & y & H1 & H2 & H3)]; [simpl in Hlen; lia|exact Hb'|left; exact H|].
    right. exists uj, y. split; [right; exact H1|]. split; assumption.
Qed.

Lemma scan_cons : forall u rest r ret' s,
  scan (u :: rest) (r :: ret') s divs =
  (let after_unit (s' : string) (r' : Z) :=
        if prefix "/" s'
        then (if (divs =? -1)%Z then ScanErr else ScanSlash (sdrop 1 s') (r' :: ret'))
        else cons_res r' (scan rest ret' s' divs) in
      if prefix u s then
        if String.eqb u "m" && prefix "mol" s then cons_res r (scan rest ret' s divs)
        else
          match parse_exp divs (sdrop (String.length u) s) with
          | None => ScanErr
          | Some (e, s2) =>
              if negb (r =? 0)%Z then ScanErr
              else
                let s3 := match s2 with String "."%char q => q | _ => s2 end in
                after_unit s3 e
          end
      else after_unit s r).
Proof. reflexivity. Qed.

Lemma cons_finish : forall tail r l, cons_res r (finish_pass tail l) = finish_pass tail (r :: l).
Proof. destruct tail; reflexivity. Qed.

(* ---------- one sweep of the parser reads back one pass of the printer ---------- *)
Lemma scan_pass : forall names vs rs tail,
  names_ok names = true ->
  List.length vs = List.length names -> List.length rs = List.length names ->
  bounded vs -> fresh vs rs -> tail_ok tail names ->
  scan names rs (render (pass_items sel names vs) tail) divs = finish_pass tail (merge vs rs).
Proof.
  induction names as [|u names IH]; intros vs rs tail Hok Hlv Hlr Hb Hf Ht.
  - destruct vs; [|discriminate]. destruct rs; [|discriminate].
    destruct Ht as [->|(_ & _ & Hne)]; [reflexivity|congruence].
  - destruct vs as [|v vs]; [discriminate|]. destruct rs as [|r rs]; [discriminate|].
    simpl in Hok.
    apply andb_true_iff in Hok. destruct Hok as [Hok Hok4].
    apply andb_true_iff in Hok. destruct Hok as [Hok Hok3].
    apply andb_true_iff in Hok. destruct Hok as [Hok1 Hok2].
    pose proof (names_ok_all names Hok4) as Hall.
    inversion Hb as [|? ? Hv Hb']; subst. destruct Hf as [Hf0 Hf'].
    simpl in Hlv, Hlr.
    assert (Htl : tail = "" \/ (exists t, tail = String "/" t)).
    { destruct Ht as [->|(H & _)]; [left; reflexivity|right; exact H]. }
    destruct (name_ok_head u Hok1) as (c & su & Hu & Hc1 & Hc2 & Hc3).
    set (items' := pass_items sel names vs).
    set (S' := render items' tail).
    destruct (render_heads names vs tail Hall Hok3 (or_intror Htl)) as (P1 & P2 & P3 & P4).
    fold items' in P4. fold S' in P1, P2, P3, P4.
    (* the recursive call, when the rest does not start with "/" *)
    assert (HIH : prefix "/" S' = false -> scan names rs S' divs = finish_pass tail (merge vs rs)).
    { intros Hp. apply IH; auto; try lia.
      destruct Ht as [->|(Hs & Hd & _)]; [left; reflexivity|]. right. split; [exact Hs|]. split; [exact Hd|].
      intros Hnil. subst names. destruct Hs as (t & Hs). subst tail.
      unfold S', items' in Hp. simpl render in Hp. simpl pass_items in Hp. rewrite prefix_cons in Hp. simpl in Hp. rewrite prefix_nil_l in Hp. discriminate. }
    (* what happens after the position has been dealt with *)
    assert (Hafter : forall r',
      (if prefix "/" S'
       then (if (divs =? -1)%Z then ScanErr else ScanSlash (sdrop 1 S') (r' :: rs))
       else cons_res r' (scan names rs S' divs)) = finish_pass tail (r' :: merge vs rs)).
    { intros r'. destruct (prefix "/" S') eqn:Ep.
      - destruct (P4 eq_refl) as (Hnil & t & Htail).
        destruct Ht as [->|(_ & Hd & _)]; [discriminate|]. rewrite Hd. simpl.
        unfold S'. rewrite Hnil. simpl. subst tail. simpl.
        rewrite (merge_none names vs rs); auto; lia.
      - rewrite (HIH eq_refl). apply cons_finish. }
    rewrite scan_cons. cbv zeta.
    simpl pass_items. destruct (sel v) as [w|] eqn:Esel.
    + (* position printed *)
      destruct (sel_spec v w Hv Esel) as (Hw & Hw0 & Hdw).
      destruct (after_name_head names vs tail w Hall Hok3 Htl Hw Hw0) as (A & B & C).
      fold items' in A, B, C.
      set (x := match items' with [] => tail | _ => dot ++ render items' tail end) in *.
      fold S' in C.
      assert (Es : render ((u, w) :: items') tail = u ++ (expstr hat w ++ x)).
      { simpl. rewrite seg_expstr, app_assoc_s. reflexivity. }
      fold items'. rewrite Es. rewrite prefix_app_self.
      assert (Emol : String.eqb u "m" && prefix "mol" (u ++ expstr hat w ++ x) = false).
      { destruct (String.eqb u "m") eqn:Em; [|reflexivity]. apply String.eqb_eq in Em. rewrite Em.
        simpl. destruct (expstr hat w ++ x) as [|c' y'] eqn:Ey; [reflexivity|].
        unfold nohead_or in A. simpl in A. apply andb_true_iff in A. destruct A as [A _].
        apply negb_true_iff in A. rewrite prefix_cons. rewrite Ascii.eqb_sym. rewrite A. reflexivity. }
      rewrite Emol. rewrite sdrop_app_self.
      rewrite (parse_exp_ok hat divs w x Hhat Hdivs Hw Hw0 B).
      rewrite (Hf0 ltac:(congruence)). simpl negb. cbv iota.
      rewrite C. rewrite Hafter. rewrite Hdw. simpl. rewrite Esel. reflexivity.
    + (* position not printed *)
      fold items'. fold S'.
      assert (Em : merge (v :: vs) (r :: rs) = r :: merge vs rs) by (simpl; rewrite Esel; reflexivity).
      rewrite Em.
      destruct (render_shape names vs tail Hall Hok3 Htl ltac:(lia) Hb') as [Hnil|(uj & y & Hin & Hsh & Hy)].
      * (* nothing more is printed: the rest is the tail *)
        fold items' in Hnil.
        assert (ES : S' = tail) by (unfold S'; rewrite Hnil; reflexivity).
        assert (Epre : prefix u S' = false).
        { rewrite ES, Hu. destruct Htl as [->|(t & ->)]; [reflexivity|].
          rewrite prefix_cons. apply Ascii.eqb_neq in Hc2. rewrite Hc2. reflexivity. }
        rewrite Epre. apply Hafter.
      * fold items' in Hsh. fold S' in Hsh.
        rewrite forallb_forall in Hok2. pose proof (Hok2 uj Hin) as Hpair. unfold pair_ok in Hpair.
        assert (Hslash : prefix "/" S' = false).
        { rewrite Hsh. rewrite forallb_forall in Hall.
          destruct (name_ok_head uj (Hall uj Hin)) as (cj & sj & -> & _ & Hcj & _).
          change (String cj sj ++ y) with (String cj (sj ++ y)). rewrite prefix_cons.
          destruct (Ascii.eqb "/" cj) eqn:E; [|reflexivity]. apply Ascii.eqb_eq in E. congruence. }
        apply orb_true_iff in Hpair. destruct Hpair as [Hpair|Hpair];
          [apply orb_true_iff in Hpair; destruct Hpair as [Hpair|Hpair]|].
        -- (* the names differ somewhere *)
           rewrite Hsh. rewrite (incomp_prefix u uj y Hpair). rewrite <- Hsh. apply Hafter.
        -- (* sr against s: the next character decides *)
           apply andb_true_iff in Hpair. destruct Hpair as [E1 E2].
           apply String.eqb_eq in E1. apply String.eqb_eq in E2. rewrite E2 in Hsh. rewrite E1.
           assert (Epre : prefix "sr" S' = false).
           { rewrite Hsh. simpl. destruct y as [|c' y']; [reflexivity|].
             unfold nohead_or in Hy. simpl in Hy. apply andb_true_iff in Hy. destruct Hy as [_ Hy].
             apply negb_true_iff in Hy. rewrite prefix_cons. rewrite Ascii.eqb_sym. rewrite Hy. reflexivity. }
           rewrite Epre. apply Hafter.
        -- (* m against mol: the parser's exception *)
           apply andb_true_iff in Hpair. destruct Hpair as [E1 E2].
           apply String.eqb_eq in E1. apply String.eqb_eq in E2. rewrite E2 in Hsh. rewrite E1.
           assert (Epre : prefix "m" S' = true) by (rewrite Hsh; reflexivity).
           assert (Epre2 : prefix "mol" S' = true) by (rewrite Hsh; apply prefix_app_self).
           rewrite Epre, Epre2. simpl. rewrite (HIH Hslash). apply cons_finish.
Qed.

End Pass.

(* ================= the two passes together ================= *)
Lemma sel_num_spec : forall d v w, (-9 <= v <= 9)%Z -> sel_num d v = Some w ->
  (-9 <= w <= 9)%Z /\ w <> 0%Z /\ (1 * w)%Z = v.
Proof.
  intros d v w Hv H. unfold sel_num in H.
  destruct ((0 <? v)%Z || ((v <? 0)%Z && negb d)) eqn:E; [|discriminate]. inversion H; subst w.
  apply orb_true_iff in E. destruct E as [E|E].
  - apply Z.ltb_lt in E. lia.
  - apply andb_true_iff in E. destruct E as [E _]. apply Z.ltb_lt in E. lia.
Qed.

Lemma sel_den_spec : forall v w, (-9 <= v <= 9)%Z -> sel_den v = Some w ->
  (-9 <= w <= 9)%Z /\ w <> 0%Z /\ (-1 * w)%Z = v.
Proof.
  intros v w Hv H. unfold sel_den in H. destruct (v <? 0)%Z eqn:E; [|discriminate].
  inversion H; subst w. apply Z.ltb_lt in E. lia.
Qed.

Lemma fresh_zero : forall sel vs, fresh sel vs (repeat 0%Z (List.length vs)).
Proof. induction vs; simpl; auto. Qed.

Lemma merge_length : forall sel vs rs, List.length (merge sel vs rs) = List.length rs.
Proof.
  induction vs as [|v vs IH]; intros rs; [reflexivity|]. destruct rs as [|r rs]; [reflexivity|].
  simpl. rewrite IH. reflexivity.
Qed.

Lemma merge_num_false : forall vs, merge (sel_num false) vs (repeat 0%Z (List.length vs)) = vs.
Proof.
  induction vs as [|v vs IH]; [reflexivity|]. simpl. rewrite IH. f_equal.
  unfold sel_num. destruct (0 <? v)%Z eqn:E1; destruct (v <? 0)%Z eqn:E2; simpl; try reflexivity.
  apply Z.ltb_ge in E1. apply Z.ltb_ge in E2. lia.
Qed.

Lemma merge_two : forall vs,
  merge sel_den vs (merge (sel_num true) vs (repeat 0%Z (List.length vs))) = vs.
Proof.
  induction vs as [|v vs IH]; [reflexivity|]. simpl. rewrite IH. f_equal.
  unfold sel_den, sel_num. destruct (v <? 0)%Z eqn:E2; [reflexivity|].
  destruct (0 <? v)%Z eqn:E1; simpl; [reflexivity|].
  apply Z.ltb_ge in E1. apply Z.ltb_ge in E2. lia.
Qed.

Lemma fresh_two : forall vs, fresh sel_den vs (merge (sel_num true) vs (repeat 0%Z (List.length vs))).
Proof.
  induction vs as [|v vs IH]; simpl; auto. split; [|exact IH].
  intros H. unfold sel_den in H. unfold sel_num. destruct (v <? 0)%Z eqn:E2; [|congruence].
  apply Z.ltb_lt in E2. destruct (0 <? v)%Z eqn:E1; [apply Z.ltb_lt in E1; lia|]. reflexivity.
Qed.

Lemma names_nonempty_items : forall sel vs u w,
  In (u, w) (pass_items sel si_names vs) -> u <> "".
Proof.
  intros sel vs u w H. apply pass_items_in in H. destruct H as (H & _).
  simpl in H. repeat (destruct H as [<-|H]; [discriminate|]). contradiction.
Qed.

Lemma sig0_repeat : forall sig : list Z, List.length sig = 9%nat -> sig0 = repeat 0%Z (List.length sig).
Proof. intros sig H. rewrite H. reflexivity. Qed.

(* SI unit strings with single-digit exponents round-trip through printing and parsing *)
Theorem parse_print : forall sig d h t,
  List.length sig = 9%nat -> Forall (fun v => (-9 <= v <= 9)%Z) sig ->
  h = "" \/ h = "^" -> t = "" \/ t = "." ->
  str_to_sisig (siunit sig d h t) = Val sig.
Proof.
  intros sig d h t Hlen Hb Hh Ht.
  assert (Hlen' : List.length sig = List.length si_names) by (rewrite Hlen; reflexivity).
  assert (Hz : List.length (repeat 0%Z (List.length sig)) = List.length si_names)
    by (rewrite repeat_length; exact Hlen').
  (* first sweep, whatever follows the numerators *)
  assert (P1 : forall tail, tail_ok 1 tail si_names ->
            scan si_names sig0 (render h t (pass_items (sel_num d) si_names sig) tail) 1 =
            finish_pass tail (merge (sel_num d) sig sig0)).
  { intros tail Htl. rewrite (sig0_repeat sig Hlen).
    apply (scan_pass h t Hh Ht (sel_num d) 1 (or_introl eq_refl) (sel_num_spec d));
      first [exact si_names_ok | apply fresh_zero | assumption]. }
  unfold str_to_sisig, siunit, siunit_with.
  set (s1 := join_items h t (pass_items (sel_num d) si_names sig)).
  set (t2 := if d then join_items h t (pass_items sel_den si_names sig) else "").
  destruct (String.eqb t2 "") eqn:Et.
  - (* no divisor part *)
    apply String.eqb_eq in Et.
    assert (Es : s1 = render h t (pass_items (sel_num d) si_names sig) "").
    { unfold s1. rewrite <- join_render. rewrite app_nil_r_s. reflexivity. }
    rewrite Es. rewrite (P1 "" (or_introl eq_refl)). simpl. f_equal.
    rewrite (sig0_repeat sig Hlen).
    destruct d.
    + assert (Hnil : pass_items sel_den si_names sig = []).
      { destruct (pass_items sel_den si_names sig) as [|p r] eqn:Ei; [reflexivity|]. exfalso.
        unfold t2 in Et. revert Et. apply (join_nonempty h t); [|congruence].
        intros u w Hin. rewrite <- Ei in Hin. eapply names_nonempty_items; eauto. }
      transitivity (merge sel_den sig (merge (sel_num true) sig (repeat 0%Z (List.length sig)))).
      * symmetry. apply (merge_none sel_den si_names); auto.
      * apply merge_two.
    + apply merge_num_false.
  - (* numerators / denominators *)
    destruct d; [|unfold t2 in Et; discriminate].
    assert (Es : s1 ++ "/" ++ t2 = render h t (pass_items (sel_num true) si_names sig) (String "/" t2)).
    { unfold s1. rewrite <- join_render. reflexivity. }
    rewrite Es.
    rewrite (P1 (String "/" t2)); [|right; split; [eauto|split; [reflexivity|discriminate]]].
    simpl finish_pass.
    assert (Et2 : t2 = render h t (pass_items sel_den si_names sig) "").
    { unfold t2. rewrite <- join_render. rewrite app_nil_r_s. reflexivity. }
    rewrite Et2. rewrite (sig0_repeat sig Hlen).
    rewrite (scan_pass h t Hh Ht sel_den (-1) (or_intror eq_refl) sel_den_spec);
      first [exact si_names_ok | apply fresh_two | assumption | (rewrite merge_length; exact Hz)
            | (left; reflexivity) | idtac].
    simpl. f_equal. apply merge_two.
Qed.
