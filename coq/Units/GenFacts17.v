(* C17 table facts, by kernel evaluation over the GENERATED tables
   (Units/Gen_Tables.v, Units/Gen_Compound.v).  See GenFacts16.v. *)
From Coq Require Import List.
From PV Require Import Units.Tables.
From PV Require Import Units.Gen_Tables Units.Gen_Compound.

Lemma gen_units_wf : units_wf gen_classes = true.
Proof. vm_compute. reflexivity. Qed.

Lemma gen_factor_ratio_consistent : factor_ratio_consistent gen_classes = true.
Proof. vm_compute. reflexivity. Qed.

Lemma gen_base_factor_one17 : base_factor_one gen_classes = true.
Proof. vm_compute. reflexivity. Qed.

Lemma gen_every_unit_described : every_unit_described gen_classes = true.
Proof. vm_compute. reflexivity. Qed.

Lemma gen_display_units_ok : display_units_ok gen_classes = true.
Proof. vm_compute. reflexivity. Qed.

Lemma gen_aliases_share_factor : aliases_share_factor gen_classes = true.
Proof. vm_compute. reflexivity. Qed.

Lemma gen_compound_units_agree : compound_units_agree gen_classes gen_compounds = true.
Proof. vm_compute. reflexivity. Qed.

Lemma gen_all_names_exist : all_names_exist gen_module = true.
Proof. vm_compute. reflexivity. Qed.
