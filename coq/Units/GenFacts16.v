(* C16 table facts: the executable checks of Units/Tables.v evaluated by the
   kernel over the tables GENERATED from the current pydsol/core/units.py
   (Units/Gen_Tables.v, rewritten by translator/dump_units.py on every run).
   A table entry that breaks a check makes this file fail to compile; the
   harness then prints the offending entries (the *_bad lists). *)
From Coq Require Import List.
From PV Require Import Units.Tables.
From PV Require Import Units.Gen_Tables.

Lemma gen_classes_plain : classes_plain gen_classes = true.
Proof. vm_compute. reflexivity. Qed.

Lemma gen_tables_closed : tables_closed gen_classes = true.
Proof. vm_compute. reflexivity. Qed.

Lemma gen_sidict_wf : sidict_wf gen_classes = true.
Proof. vm_compute. reflexivity. Qed.

Lemma gen_mul_table_sound : mul_table_sound gen_classes = true.
Proof. vm_compute. reflexivity. Qed.

Lemma gen_div_table_sound : div_table_sound gen_classes = true.
Proof. vm_compute. reflexivity. Qed.

Lemma gen_base_factor_one : base_factor_one gen_classes = true.
Proof. vm_compute. reflexivity. Qed.

Lemma gen_dimensionless_ok : dimensionless_ok gen_module = true.
Proof. vm_compute. reflexivity. Qed.

Lemma gen_siunits_ok : siunits_ok gen_module = true.
Proof. vm_compute. reflexivity. Qed.

Lemma gen_module_classes : qm_classes gen_module = gen_classes.
Proof. reflexivity. Qed.
