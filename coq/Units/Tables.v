(* Shape of the tables that translator/dump_units.py regenerates from the
   imported pydsol.core.units module (Units/Gen_Tables.v), and the executable
   checks over them.  Executable definitions only: the theorems are in
   TableProofs.v (generic lifting) and GenFacts*.v (kernel evaluation over the
   generated tables).

   The translator is fail-closed: whatever it cannot represent becomes one of
   the Bad_* constructors below, and every check treats a Bad_* as failure. *)
From Coq Require Import ZArith List Bool String Ascii PrimFloat Uint63 FloatOps SpecFloat.
From PV Require Export Units.Sig.
Import ListNotations.
Local Open Scope string_scope.

Inductive gstr := GStr (s : string) | Bad_str (repr : string).
Inductive gfactor := GFac (f : float) (num : Z) (den : positive) | Bad_factor (repr : string).
Inductive gcls := GCls (id : nat) | Bad_cls (repr : string).
Inductive gint := GInt (z : Z) | Bad_int (repr : string).

Record qclass := mkQClass {
  qc_name : string;
  qc_direct : bool;               (* cls.__bases__ == (Quantity,) *)
  qc_overrides : list string;     (* modelled methods redefined by the subclass itself *)
  qc_base : gstr;                 (* _baseunit *)
  qc_units : list (gstr * gfactor);     (* _units, in dict order *)
  qc_display : list (gstr * gstr);      (* _displayunits *)
  qc_descr : list (gstr * gstr);        (* _descriptions *)
  qc_sidict : list (gstr * gint);       (* _sidict *)
  qc_sisig : list gint;                 (* what cls.sisig() returned at dump time *)
  qc_mul : list (gcls * gcls);          (* _mul after the module's closing loops *)
  qc_div : list (gcls * gcls)           (* _div after the module's closing loops *)
}.

Record qmodule := mkQModule {
  qm_classes : list qclass;       (* Quantity.__subclasses__(), recursively, discovery order *)
  qm_siunits : list gstr;         (* SI.SIUNITS *)
  qm_dimensionless : option nat;  (* index of module.Dimensionless among the classes *)
  qm_all : list gstr;             (* __all__ *)
  qm_dir : list string            (* dir(module) *)
}.

(* ---------- dict access ---------- *)
Definition gstr_is (s : string) (g : gstr) : bool :=
  match g with GStr t => String.eqb s t | Bad_str _ => false end.

Fixpoint glookup {V : Type} (k : string) (d : list (gstr * V)) : option V :=
  match d with
  | [] => None
  | (g, v) :: r => if gstr_is k g then Some v else glookup k r
  end.

Definition gmem {V : Type} (k : string) (d : list (gstr * V)) : bool :=
  match glookup k d with Some _ => true | None => false end.

Fixpoint str_mem (s : string) (l : list string) : bool :=
  match l with [] => false | x :: r => String.eqb s x || str_mem s r end.

Definition gcls_is (i : nat) (g : gcls) : bool :=
  match g with GCls j => Nat.eqb i j | Bad_cls _ => false end.

Fixpoint clookup (i : nat) (d : list (gcls * gcls)) : option gcls :=
  match d with
  | [] => None
  | (k, v) :: r => if gcls_is i k then Some v else clookup i r
  end.

Definition get_class (T : list qclass) (i : nat) : option qclass := nth_error T i.

(* index of the class with a given Python name (used by examples only) *)
Fixpoint find_class_from (i : nat) (n : string) (T : list qclass) : option nat :=
  match T with
  | [] => None
  | c :: r => if String.eqb (qc_name c) n then Some i else find_class_from (S i) n r
  end.
Definition find_class (T : list qclass) (n : string) : option nat := find_class_from 0 n T.

(* ---------- Quantity.sisig(): read the nine positions out of _sidict ---------- *)
Definition cls_sig (c : qclass) : list Z :=
  map (fun u => match glookup u (qc_sidict c) with Some (GInt v) => v | _ => 0%Z end) si_names.

Definition sig_of_class (T : list qclass) (i : nat) : option (list Z) :=
  option_map cls_sig (get_class T i).

(* the factor of a unit as an exact rational *)
Definition unit_ratio (c : qclass) (u : string) : option (Z * positive) :=
  match glookup u (qc_units c) with
  | Some (GFac _ n d) => Some (n, d)
  | _ => None
  end.

(* Offender lists are lists of (class index, entry index); a check holds iff
   its offender list is empty.  The harness prints the offender lists with
   Eval vm_compute when a table theorem no longer compiles. *)
Definition offenders {E : Type} (entries : qclass -> list E) (ok : list qclass -> nat -> qclass -> E -> bool)
  (T : list qclass) : list (nat * nat) :=
  flat_map (fun '(ci, c) =>
      flat_map (fun '(ei, e) => if ok T ci c e then [] else [(ci, ei)]) (indexed (entries c)))
    (indexed T).

Definition is_nil {A : Type} (l : list A) : bool := match l with [] => true | _ => false end.

(* ================= C16 checks ================= *)

(* classes are direct subclasses of Quantity that do not redefine a modelled method *)
Definition class_plain_ok (c : qclass) : bool := qc_direct c && is_nil (qc_overrides c).
Definition classes_plain_bad (T : list qclass) : list (nat * nat) :=
  flat_map (fun '(ci, c) => if class_plain_ok c then [] else [(ci, 0)]) (indexed T).
Definition classes_plain (T : list qclass) : bool := is_nil (classes_plain_bad T).

(* every _mul / _div entry names classes of the module *)
Definition entry_closed (T : list qclass) (_ : nat) (_ : qclass) (e : gcls * gcls) : bool :=
  match e with
  | (GCls b, GCls r) => Nat.ltb b (List.length T) && Nat.ltb r (List.length T)
  | _ => false
  end.
Definition mul_closed_bad := offenders qc_mul entry_closed.
Definition div_closed_bad := offenders qc_div entry_closed.
Definition tables_closed (T : list qclass) : bool := is_nil (mul_closed_bad T) && is_nil (div_closed_bad T).

(* _sidict uses only the nine SI names with int exponents, and the code's own
   sisig() gave what cls_sig computes *)
Definition sidict_entry_ok (_ : list qclass) (_ : nat) (_ : qclass) (e : gstr * gint) : bool :=
  match e with
  | (GStr k, GInt _) => str_mem k si_names
  | _ => false
  end.
Definition sidict_bad := offenders qc_sidict sidict_entry_ok.
Fixpoint gints_are (l : list gint) (z : list Z) : bool :=
  match l, z with
  | [], [] => true
  | GInt a :: r, b :: s => Z.eqb a b && gints_are r s
  | _, _ => false
  end.
Definition sisig_agrees_bad (T : list qclass) : list (nat * nat) :=
  flat_map (fun '(ci, c) => if gints_are (qc_sisig c) (cls_sig c) then [] else [(ci, 0)]) (indexed T).
Definition sidict_wf (T : list qclass) : bool := is_nil (sidict_bad T) && is_nil (sisig_agrees_bad T).

(* dimensional soundness of one table entry of class a:  a (op) b -> r *)
Definition entry_sound (comb : list Z -> list Z -> list Z)
  (T : list qclass) (_ : nat) (a : qclass) (e : gcls * gcls) : bool :=
  match e with
  | (GCls b, GCls r) =>
      match get_class T b, get_class T r with
      | Some cb, Some cr => sig_eqb (cls_sig cr) (comb (cls_sig a) (cls_sig cb))
      | _, _ => false
      end
  | _ => false
  end.
Definition mul_table_bad := offenders qc_mul (entry_sound sig_add).
Definition div_table_bad := offenders qc_div (entry_sound sig_sub).
Definition mul_table_sound (T : list qclass) : bool := is_nil (mul_table_bad T).
Definition div_table_sound (T : list qclass) : bool := is_nil (div_table_bad T).

(* the base unit is a declared unit with a usable factor ... *)
Definition base_ratio (c : qclass) : option (Z * positive) :=
  match qc_base c with GStr b => unit_ratio c b | Bad_str _ => None end.
(* ... and that factor is exactly one *)
Definition base_one_ok (c : qclass) : bool :=
  match base_ratio c with Some (1%Z, 1%positive) => true | _ => false end.
Definition base_factor_bad (T : list qclass) : list (nat * nat) :=
  flat_map (fun '(ci, c) => if base_one_ok c then [] else [(ci, 0)]) (indexed T).
Definition base_factor_one (T : list qclass) : bool := is_nil (base_factor_bad T).

(* module.Dimensionless is one of the classes and has the zero signature *)
Definition dimensionless_ok (M : qmodule) : bool :=
  match qm_dimensionless M with
  | Some d => match get_class (qm_classes M) d with
              | Some c => sig_eqb (cls_sig c) sig0
              | None => false
              end
  | None => false
  end.

Fixpoint gstrs_are (l : list gstr) (z : list string) : bool :=
  match l, z with
  | [], [] => true
  | GStr a :: r, b :: s => String.eqb a b && gstrs_are r s
  | _, _ => false
  end.
Definition siunits_ok (M : qmodule) : bool := gstrs_are (qm_siunits M) si_names.

(* ================= C17 checks ================= *)

(* unit keys are strings, factors are finite non-zero floats given with their exact ratio *)
Definition unit_entry_ok (_ : list qclass) (_ : nat) (_ : qclass) (e : gstr * gfactor) : bool :=
  match e with
  | (GStr _, GFac _ n _) => negb (Z.eqb n 0)
  | _ => false
  end.
Definition units_wf_bad := offenders qc_units unit_entry_ok.
Definition units_wf (T : list qclass) : bool := is_nil (units_wf_bad T).

(* every declared unit has a (non-empty, string) description *)
Definition described_ok (_ : list qclass) (_ : nat) (c : qclass) (e : gstr * gfactor) : bool :=
  match e with
  | (GStr u, _) => match glookup u (qc_descr c) with
                   | Some (GStr d) => negb (String.eqb d "")
                   | _ => false
                   end
  | _ => false
  end.
Definition described_bad := offenders qc_units described_ok.
Definition every_unit_described (T : list qclass) : bool := is_nil (described_bad T).

(* display table: keys are declared units, values are strings *)
Definition display_entry_ok (_ : list qclass) (_ : nat) (c : qclass) (e : gstr * gstr) : bool :=
  match e with
  | (GStr u, GStr _) => gmem u (qc_units c)
  | _ => false
  end.
Definition display_bad := offenders qc_display display_entry_ok.
Definition display_units_ok (T : list qclass) : bool := is_nil (display_bad T).

(* what str() appends: _displayunits.get(unit, unit) *)
Definition display_of (c : qclass) (u : string) : gstr :=
  match glookup u (qc_display c) with Some g => g | None => GStr u end.

Definition ratio_eqb (a b : option (Z * positive)) : bool :=
  match a, b with
  | Some (n, d), Some (m, e) => Z.eqb n m && Pos.eqb d e
  | _, _ => false
  end.

Definition gstr_eqb (a b : gstr) : bool :=
  match a, b with GStr x, GStr y => String.eqb x y | _, _ => false end.

(* alias spellings: two units of one class that are displayed as the same
   text, or carry the same description, are the same unit and share the factor.
   Offenders are (class, index of the later unit). *)
Definition alias_ok (rel : qclass -> string -> string -> bool)
  (_ : list qclass) (_ : nat) (c : qclass) (e : gstr * gfactor) : bool :=
  match e with
  | (GStr u, _) =>
      forallb (fun e2 => match e2 with
                         | (GStr v, _) => if rel c u v then ratio_eqb (unit_ratio c u) (unit_ratio c v) else true
                         | _ => true
                         end) (qc_units c)
  | _ => true
  end.
Definition same_display (c : qclass) (u v : string) : bool := gstr_eqb (display_of c u) (display_of c v).
Definition same_descr (c : qclass) (u v : string) : bool :=
  match glookup u (qc_descr c), glookup v (qc_descr c) with
  | Some a, Some b => gstr_eqb a b
  | _, _ => false
  end.
Definition alias_display_bad := offenders qc_units (alias_ok same_display).
Definition alias_descr_bad := offenders qc_units (alias_ok same_descr).
Definition aliases_share_factor (T : list qclass) : bool :=
  is_nil (alias_display_bad T) && is_nil (alias_descr_bad T).

(* every advertised name exists *)
Definition name_ok (M : qmodule) (g : gstr) : bool :=
  match g with GStr n => str_mem n (qm_dir M) | Bad_str _ => false end.
Definition all_names_bad (M : qmodule) : list nat :=
  flat_map (fun '(i, g) => if name_ok M g then [] else [i]) (indexed (qm_all M)).
Definition all_names_exist (M : qmodule) : bool := is_nil (all_names_bad M).

(* ---------- compound units (Units/Gen_Compound.v) ----------
   A candidate reading of a unit name: a sequence of atoms, each a declared
   unit of some class, with a separator in front and an exponent behind. *)
Inductive csep := SepNone | SepDot | SepSlash.
Inductive cexp := ExpNone | ExpHat (k : nat) | ExpDigit (k : nat).   (* "", "^k", "k" *)
Record catom := mkAtom { ca_sep : csep; ca_cls : nat; ca_unit : string; ca_exp : cexp }.
Record compound := mkCompound {
  cp_cls : nat;                       (* class that declares the compound unit *)
  cp_unit : string;                   (* its name *)
  cp_readings : list (list catom)     (* every dimensionally consistent reading found *)
}.

Definition digit_string (k : nat) : string :=
  String (ascii_of_nat (48 + k)) EmptyString.

Definition render_atom (a : catom) : string :=
  (match ca_sep a with SepNone => "" | SepDot => "." | SepSlash => "/" end)
  ++ ca_unit a
  ++ (match ca_exp a with ExpNone => "" | ExpHat k => "^" ++ digit_string k | ExpDigit k => digit_string k end).

Definition render_reading (r : list catom) : string := concat "" (map render_atom r).

Definition exp_of (a : catom) : nat :=
  match ca_exp a with ExpNone => 1 | ExpHat k => k | ExpDigit k => k end.

(* everything after the first "/" is in the denominator *)
Fixpoint signed_atoms (den : bool) (r : list catom) : list (catom * Z) :=
  match r with
  | [] => []
  | a :: t =>
      let den' := match ca_sep a with SepSlash => true | _ => den end in
      (a, if den' then (- Z.of_nat (exp_of a))%Z else Z.of_nat (exp_of a)) :: signed_atoms den' t
  end.

(* exact rational  n/d  raised to an integer power, as a pair (numerator, denominator) of Z *)
Definition zpow (n : Z) (d : Z) (k : Z) : Z * Z :=
  if (0 <=? k)%Z then (Z.pow n k, Z.pow d k) else (Z.pow d (- k), Z.pow n (- k)).

Fixpoint reading_product (T : list qclass) (l : list (catom * Z)) : option (Z * Z) :=
  match l with
  | [] => Some (1%Z, 1%Z)
  | (a, k) :: t =>
      match get_class T (ca_cls a), reading_product T t with
      | Some c, Some (pn, pd) =>
          match unit_ratio c (ca_unit a) with
          | Some (n, d) => let '(qn, qd) := zpow n (Zpos d) k in Some ((qn * pn)%Z, (qd * pd)%Z)
          | None => None
          end
      | _, _ => None
      end
  end.

Fixpoint reading_sig (T : list qclass) (l : list (catom * Z)) : option (list Z) :=
  match l with
  | [] => Some sig0
  | (a, k) :: t =>
      match get_class T (ca_cls a), reading_sig T t with
      | Some c, Some s => Some (sig_add (sig_scale k (cls_sig c)) s)
      | _, _ => None
      end
  end.

(* |fn/fd - pn/pd| <= 1e-12 * |pn/pd|   (all denominators non-zero) *)
Definition close_1e12 (fn fd pn pd : Z) : bool :=
  negb (Z.eqb fd 0) && negb (Z.eqb pd 0) &&
  (Z.abs (fn * pd - pn * fd) * 1000000000000 <=? Z.abs (pn * fd))%Z.

Definition reading_ok (T : list qclass) (cp : compound) (r : list catom) : bool :=
  match get_class T (cp_cls cp) with
  | None => false
  | Some c =>
      let l := signed_atoms false r in
      String.eqb (render_reading r) (cp_unit cp) &&
      match reading_sig T l with Some s => sig_eqb s (cls_sig c) | None => false end &&
      match unit_ratio c (cp_unit cp), reading_product T l with
      | Some (fn, fd), Some (pn, pd) => close_1e12 fn (Zpos fd) pn pd
      | _, _ => false
      end
  end.

Definition compound_ok (T : list qclass) (cp : compound) : bool :=
  negb (is_nil (cp_readings cp)) && forallb (reading_ok T cp) (cp_readings cp).
Definition compound_bad (T : list qclass) (L : list compound) : list nat :=
  flat_map (fun '(i, cp) => if compound_ok T cp then [] else [i]) (indexed L).
Definition compound_units_agree (T : list qclass) (L : list compound) : bool := is_nil (compound_bad T L).

(* ---------- the two renderings of a factor agree: float literal = num/den ---------- *)

Definition float_is_ratio (f : float) (n : Z) (d : positive) : bool :=
  match Prim2SF f with
  | S754_finite s m e =>
      let mz := if s then Zneg m else Zpos m in
      if (0 <=? e)%Z then Z.eqb (mz * 2 ^ e) n && Pos.eqb d 1
      else Z.eqb (mz * Zpos d) (n * 2 ^ (- e))
  | _ => false
  end.
Definition ratio_entry_ok (_ : list qclass) (_ : nat) (_ : qclass) (e : gstr * gfactor) : bool :=
  match e with
  | (_, GFac f n d) => float_is_ratio f n d
  | _ => false
  end.
Definition factor_ratio_bad := offenders qc_units ratio_entry_ok.
Definition factor_ratio_consistent (T : list qclass) : bool := is_nil (factor_ratio_bad T).

(* ---------- read-back used by the harness to cross-check the dump ---------- *)
Definition class_counts (c : qclass) : list nat :=
  [List.length (qc_units c); List.length (qc_display c); List.length (qc_descr c); List.length (qc_sidict c);
   List.length (qc_mul c); List.length (qc_div c)].
