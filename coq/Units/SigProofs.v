(* Facts about signature equality (Units/Sig.v). *)
From Coq Require Import ZArith List Bool.
From PV Require Import Units.Sig.
Import ListNotations.

Lemma sig_eqb_eq : forall a b, sig_eqb a b = true -> a = b.
Proof.
  induction a as [|x a IH]; destruct b as [|y b]; simpl; intros H; try discriminate; auto.
  apply andb_true_iff in H. destruct H as [H1 H2].
  apply Z.eqb_eq in H1. subst. f_equal. auto.
Qed.

Lemma sig_eqb_refl : forall a, sig_eqb a a = true.
Proof. induction a; simpl; auto. rewrite Z.eqb_refl. auto. Qed.

Lemma sig_eqb_iff : forall a b, sig_eqb a b = true <-> a = b.
Proof. split; [apply sig_eqb_eq|intros ->; apply sig_eqb_refl]. Qed.

Lemma sig_eqb_sym : forall a b, sig_eqb a b = sig_eqb b a.
Proof.
  intros a b. destruct (sig_eqb a b) eqn:E1; destruct (sig_eqb b a) eqn:E2; auto.
  - apply sig_eqb_eq in E1. subst. rewrite sig_eqb_refl in E2. discriminate.
  - apply sig_eqb_eq in E2. subst. rewrite sig_eqb_refl in E1. discriminate.
Qed.

