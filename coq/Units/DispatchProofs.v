(* Theorems about the Gallina transcription of the quantity arithmetic
   (Units/Dispatch.v), for every module table that passes the executable
   checks of Units/Tables.v and every number structure that satisfies
   [num_laws].  The laws are satisfied by exact rationals ([qc_ops_laws]);
   for binary64 they are not proved (PrimFloat is only executed): the
   correspondence check validates the float runs bit for bit. *)
From Coq Require Import ZArith List Bool String Lia QArith Qcanon.
From PV Require Import Units.Tables Units.SIString Units.Dispatch Units.TableProofs.
Import ListNotations.
Local Open Scope string_scope.

(* the only facts about numbers the theorems use *)
Record num_laws (N : numops) : Prop := {
  law_mul_one : forall x f, fmul N x (ffac N f 1 1) = x;                  (* x * 1.0 = x *)
  law_mul_comm : forall x y, fmul N x y = fmul N y x;
  law_fac_nonzero : forall f n d, n <> 0%Z -> fiszero N (ffac N f n d) = false;
  law_div_mul : forall x y, fiszero N y = false -> fdiv N (fmul N x y) y = x
}.

(* ---------- exact rationals satisfy the laws ---------- *)
Definition qc_ops : numops :=
  mkNum Qc Qcplus Qcminus Qcmult Qcdiv Qcopp
        (fun x => if Qle_bool 0 (this x) then x else Qcopp x)
        Qc_eq_bool
        (fun a b => negb (Qle_bool (this b) (this a)))
        (fun a b => Qle_bool (this a) (this b))
        (fun x => Qc_eq_bool x (Q2Qc 0))
        Qc_eq_bool
        (fun _ n d => Q2Qc (n # d)).

Lemma qc_ops_laws : num_laws qc_ops.
Proof.
  constructor; simpl.
  - intros x _. apply Qcmult_1_r.
  - intros. apply Qcmult_comm.
  - intros _ n d Hn. destruct (Qc_eq_bool (Q2Qc (n # d)) (Q2Qc 0)) eqn:E; [|reflexivity].
    apply Qc_eq_bool_correct in E. apply Q2Qc_eq_iff in E. exfalso.
    unfold Qeq in E. simpl in E. lia.
  - intros x y Hy. destruct (Qc_eq_bool y (Q2Qc 0)) eqn:E; [discriminate|].
    apply Qcdiv_mult_l. intros ->. unfold Qc_eq_bool in E. destruct (Qc_eq_dec (Q2Qc 0) (Q2Qc 0)); [discriminate|congruence].
Qed.

Section Proofs.
Variable N : numops.
Variable M : qmodule.
Let T := qm_classes M.
Hypothesis L : num_laws N.
Hypothesis Hplain : classes_plain T = true.
Hypothesis Hclosed : tables_closed T = true.
Hypothesis Hmul : mul_table_sound T = true.
Hypothesis Hdiv : div_table_sound T = true.
Hypothesis Hbase : base_factor_one T = true.
Hypothesis Hdim : dimensionless_ok M = true.

Notation num := (num N).
Notation pyval := (pyval N).
Notation Mk := (mk N M).
Notation BinEval := (binop_eval N M).
Notation SigOf := (sig_of N M).
Notation SiOf := (@si_of N).

(* ---------- construction ---------- *)
Lemma class_base : forall c q, get_class T c = Some q ->
  exists b f, qc_base q = GStr b /\ glookup b (qc_units q) = Some (GFac f 1 1).
Proof. intros. eapply base_factor_one_spec; eauto. Qed.

Lemma mk_none : forall c q x, get_class T c = Some q ->
  exists b, qc_base q = GStr b /\ Mk c (VNum x) None = Val (VNamed c x b).
Proof.
  intros c q x Hc. destruct (class_base c q Hc) as (b & f & Hb & Hf). exists b. split; auto.
  unfold mk, with_class. fold T. rewrite Hc. unfold base_unit. rewrite Hb.
  unfold class_factor. rewrite Hf. rewrite (law_mul_one N L). reflexivity.
Qed.

Lemma q_val_ok : forall c q x u, get_class T c = Some q -> q_val N M c x u = Val (VNamed c x u).
Proof.
  intros c q x u Hc. unfold q_val. destruct (mk_none c q x Hc) as (b & _ & ->). reflexivity.
Qed.

Lemma mk_base_ok : forall c q x, get_class T c = Some q ->
  exists b, qc_base q = GStr b /\ mk_base N M c x = Val (VNamed c x b).
Proof.
  intros c q x Hc. destruct (class_base c q Hc) as (b & f & Hb & Hf). exists b. split; auto.
  unfold mk_base, with_class. fold T. rewrite Hc. unfold base_unit. rewrite Hb.
  unfold mk, with_class. fold T. rewrite Hc. unfold gmem. rewrite Hf. simpl.
  unfold class_factor. rewrite Hf. rewrite (law_mul_one N L). reflexivity.
Qed.

Lemma class_sig_ok : forall c q, get_class T c = Some q -> class_sig_of M c = Val (cls_sig q).
Proof. intros c q Hc. unfold class_sig_of, with_class. fold T. rewrite Hc. reflexivity. Qed.

Lemma class_sig_val : forall c s, class_sig_of M c = Val s -> exists q, get_class T c = Some q /\ s = cls_sig q.
Proof.
  intros c s. unfold class_sig_of, with_class. fold T.
  destruct (get_class T c) as [q|]; [|discriminate]. intros H. inversion H. eauto.
Qed.

Ltac inv H := inversion H; subst; clear H.

Lemma lift_val : forall (r : result pyval) v, lift N r = Val (OVal v) -> r = Val v.
Proof. intros [w|e] v H; simpl in H; [inv H; reflexivity|discriminate]. Qed.

Lemma lift_bool_val : forall (r : result bool) b, lift_bool N r = Val (OBool b) -> r = Val b.
Proof. intros [w|e] b H; simpl in H; [inv H; reflexivity|discriminate]. Qed.

(* ================= products and quotients ================= *)

(* SI.__mul__ / SI.__truediv__ with a quantity operand *)
Lemma si_mul_sound : forall sg a y r, is_quantity N y = true -> si_mul N M sg a y = Val r ->
  exists sy ay, SigOf y = Some sy /\ SiOf y = Some ay /\ r = VSI (sig_add sg sy) (fmul N a ay).
Proof.
  intros sg a y r Hy H. destruct y as [c2 b u2|sg2 b|v|]; try discriminate; simpl in H.
  - destruct (class_sig_of M c2) as [s2|] eqn:Es; [|discriminate]. inv H.
    destruct (class_sig_val _ _ Es) as (q2 & E2 & ->).
    exists (cls_sig q2), b. simpl. fold T. rewrite E2. auto.
  - inv H. exists sg2, b. auto.
Qed.

Lemma si_div_sound : forall sg a y r, is_quantity N y = true -> si_div N M sg a y = Val r ->
  exists sy ay, SigOf y = Some sy /\ SiOf y = Some ay /\ fiszero N ay = false /\
                r = VSI (sig_sub sg sy) (fdiv N a ay).
Proof.
  intros sg a y r Hy H. destruct y as [c2 b u2|sg2 b|v|]; try discriminate; simpl in H.
  - destruct (class_sig_of M c2) as [s2|] eqn:Es; [|discriminate].
    unfold checked_div in H. destruct (fiszero N b) eqn:Ez; [discriminate|]. inv H.
    destruct (class_sig_val _ _ Es) as (q2 & E2 & ->).
    exists (cls_sig q2), b. simpl. fold T. rewrite E2. auto.
  - unfold checked_div in H. destruct (fiszero N b) eqn:Ez; [discriminate|]. inv H.
    exists sg2, b. auto.
Qed.

(* x * y for two quantities (named or generic SI, in any combination):
   the result's signature is the sum of the operands' signatures and its SI
   value is the product of their SI values -- whether the result is a named
   quantity taken from the _mul table or a generic SI value. *)
Theorem mul_sound : forall x y r,
  is_quantity N x = true -> is_quantity N y = true ->
  BinEval Mul x y = Val (OVal r) ->
  exists sx sy ax ay, SigOf x = Some sx /\ SigOf y = Some sy /\ SiOf x = Some ax /\ SiOf y = Some ay /\
    SigOf r = Some (sig_add sx sy) /\ SiOf r = Some (fmul N ax ay).
Proof.
  intros x y r Hx Hy H. unfold binop_eval in H. rewrite Hx in H.
  destruct x as [c a u|sg a|v|]; try discriminate; simpl in H; apply lift_val in H.
  - unfold q_mul, with_class in H. fold T in H.
    destruct (get_class T c) as [q|] eqn:Ec; [|discriminate].
    assert (Hgen : si_mul N M (cls_sig q) a y = Val r ->
                   exists sx sy ax ay, SigOf (VNamed c a u) = Some sx /\ SigOf y = Some sy /\
                     SiOf (VNamed c a u) = Some ax /\ SiOf y = Some ay /\
                     SigOf r = Some (sig_add sx sy) /\ SiOf r = Some (fmul N ax ay)).
    { intros Hs. destruct (si_mul_sound _ _ _ _ Hy Hs) as (sy & ay & E1 & E2 & ->).
      exists (cls_sig q), sy, a, ay. simpl. fold T. rewrite Ec. auto 10. }
    destruct y as [c2 b u2|sg2 b|v|]; try discriminate; auto.
    destruct (clookup c2 (qc_mul q)) as [[rc|]|] eqn:El; try discriminate; auto.
    destruct (mul_table_sound_spec T Hmul c q c2 _ Ec El) as (rc' & cb & cr & E1 & E2 & E3 & E4). inv E1.
    destruct (mk_base_ok rc' cr (fmul N a b) E3) as (bu & _ & Hm). rewrite Hm in H. inv H.
    exists (cls_sig q), (cls_sig cb), a, b. simpl. fold T. rewrite Ec, E2, E3. simpl. rewrite E4. auto 10.
  - destruct (si_mul_sound _ _ _ _ Hy H) as (sy & ay & E1 & E2 & ->).
    exists sg, sy, a, ay. simpl. auto 10.
Qed.

(* x / y for two quantities: signature difference, quotient of the SI values;
   a result exists only when the divisor's SI value is not zero *)
Theorem div_sound : forall x y r,
  is_quantity N x = true -> is_quantity N y = true ->
  BinEval Div x y = Val (OVal r) ->
  exists sx sy ax ay, SigOf x = Some sx /\ SigOf y = Some sy /\ SiOf x = Some ax /\ SiOf y = Some ay /\
    fiszero N ay = false /\
    SigOf r = Some (sig_sub sx sy) /\ SiOf r = Some (fdiv N ax ay).
Proof.
  intros x y r Hx Hy H. unfold binop_eval in H. rewrite Hx in H.
  destruct x as [c a u|sg a|v|]; try discriminate; simpl in H; apply lift_val in H.
  - unfold q_div, with_class in H. fold T in H.
    destruct (get_class T c) as [q|] eqn:Ec; [|discriminate].
    assert (Hgen : si_div N M (cls_sig q) a y = Val r ->
                   exists sx sy ax ay, SigOf (VNamed c a u) = Some sx /\ SigOf y = Some sy /\
                     SiOf (VNamed c a u) = Some ax /\ SiOf y = Some ay /\ fiszero N ay = false /\
                     SigOf r = Some (sig_sub sx sy) /\ SiOf r = Some (fdiv N ax ay)).
    { intros Hs. destruct (si_div_sound _ _ _ _ Hy Hs) as (sy & ay & E1 & E2 & E3 & ->).
      exists (cls_sig q), sy, a, ay. simpl. fold T. rewrite Ec. auto 10. }
    destruct y as [c2 b u2|sg2 b|v|]; try discriminate; auto.
    destruct (clookup c2 (qc_div q)) as [[rc|]|] eqn:El; try discriminate; auto.
    destruct (div_table_sound_spec T Hdiv c q c2 _ Ec El) as (rc' & cb & cr & E1 & E2 & E3 & E4). inv E1.
    unfold checked_div in H. destruct (fiszero N b) eqn:Ez; [discriminate|].
    destruct (mk_base_ok rc' cr (fdiv N a b) E3) as (bu & _ & Hm). rewrite Hm in H. inv H.
    exists (cls_sig q), (cls_sig cb), a, b. simpl. fold T. rewrite Ec, E2, E3. simpl. rewrite E4. auto 10.
  - destruct (si_div_sound _ _ _ _ Hy H) as (sy & ay & E1 & E2 & E3 & ->).
    exists sg, sy, a, ay. simpl. auto 10.
Qed.

(* a product of two well-formed quantities always exists, and it is a named
   quantity in its base unit exactly when the _mul table of the left class has
   an entry for the right class *)
Lemma wf_named : forall c a u, wf_val N M (VNamed c a u) = true -> exists q, get_class T c = Some q.
Proof. intros c a u. simpl. fold T. destruct (get_class T c); [eauto|discriminate]. Qed.

Lemma table_entry_class : forall c q c2 v,
  get_class T c = Some q -> clookup c2 (qc_mul q) = Some v \/ clookup c2 (qc_div q) = Some v ->
  exists rc cr, v = GCls rc /\ get_class T rc = Some cr.
Proof.
  intros c q c2 v Hc Hl.
  assert (Hin : In (GCls c2, v) (qc_mul q) \/ In (GCls c2, v) (qc_div q)).
  { destruct Hl as [Hl|Hl]; [left|right]; apply clookup_in; exact Hl. }
  destruct (tables_closed_spec T Hclosed c q Hc _ _ Hin) as (b & r & _ & -> & _ & Hr).
  destruct (nth_error T r) as [cr|] eqn:E.
  - exists r, cr. auto.
  - apply nth_error_None in E. lia.
Qed.

Theorem mul_total : forall x y,
  wf_val N M x = true -> wf_val N M y = true -> exists r, BinEval Mul x y = Val (OVal r).
Proof.
  intros x y Hx Hy. unfold binop_eval.
  destruct x as [c a u|sg a|v|]; try discriminate; simpl.
  - destruct (wf_named _ _ _ Hx) as (q & Ec). unfold q_mul, with_class. fold T. rewrite Ec.
    destruct y as [c2 b u2|sg2 b|v|]; try discriminate.
    + destruct (wf_named _ _ _ Hy) as (q2 & Ec2).
      destruct (clookup c2 (qc_mul q)) as [v|] eqn:El.
      * destruct (table_entry_class c q c2 v Ec (or_introl El)) as (rc & cr & -> & Er).
        destruct (mk_base_ok rc cr (fmul N a b) Er) as (bu & _ & ->). simpl. eauto.
      * simpl. rewrite (class_sig_ok _ _ Ec2). simpl. eauto.
    + simpl. eauto.
  - destruct y as [c2 b u2|sg2 b|v|]; try discriminate; simpl; eauto.
    destruct (wf_named _ _ _ Hy) as (q2 & Ec2). rewrite (class_sig_ok _ _ Ec2). simpl. eauto.
Qed.

Theorem div_total : forall x y ay,
  wf_val N M x = true -> wf_val N M y = true -> SiOf y = Some ay ->
  (fiszero N ay = false -> exists r, BinEval Div x y = Val (OVal r)) /\
  (fiszero N ay = true -> BinEval Div x y = Raise ZeroDivisionError).
Proof.
  intros x y ay Hx Hy Hay. unfold binop_eval.
  destruct x as [c a u|sg a|v|]; try discriminate; simpl.
  - destruct (wf_named _ _ _ Hx) as (q & Ec). unfold q_div, with_class. fold T. rewrite Ec.
    destruct y as [c2 b u2|sg2 b|v|]; try discriminate; simpl in Hay; inv Hay.
    + destruct (wf_named _ _ _ Hy) as (q2 & Ec2).
      destruct (clookup c2 (qc_div q)) as [v|] eqn:El.
      * destruct (table_entry_class c q c2 v Ec (or_intror El)) as (rc & cr & -> & Er).
        unfold checked_div. split; intros Hz; rewrite Hz; [|reflexivity].
        destruct (mk_base_ok rc cr (fdiv N a ay) Er) as (bu & _ & ->). simpl. eauto.
      * simpl. rewrite (class_sig_ok _ _ Ec2). unfold checked_div.
        split; intros Hz; rewrite Hz; simpl; eauto.
    + simpl. unfold checked_div. split; intros Hz; rewrite Hz; simpl; eauto.
  - destruct y as [c2 b u2|sg2 b|v|]; try discriminate; simpl in Hay; inv Hay; simpl.
    + destruct (wf_named _ _ _ Hy) as (q2 & Ec2). rewrite (class_sig_ok _ _ Ec2). unfold checked_div.
      split; intros Hz; rewrite Hz; simpl; eauto.
    + unfold checked_div. split; intros Hz; rewrite Hz; simpl; eauto.
Qed.

(* named result iff the table has an entry *)
Theorem mul_named_iff_table : forall c a u c2 b u2 q r,
  get_class T c = Some q ->
  BinEval Mul (VNamed c a u) (VNamed c2 b u2) = Val (OVal r) ->
  match clookup c2 (qc_mul q) with
  | Some v => exists rc cr, v = GCls rc /\ get_class T rc = Some cr /\ r = VNamed rc (fmul N a b)
                                   (match qc_base cr with GStr s => s | Bad_str s => s end)
  | None => exists sg, r = VSI sg (fmul N a b)
  end.
Proof.
  intros c a u c2 b u2 q r Ec H. unfold binop_eval in H. simpl in H. apply lift_val in H.
  unfold q_mul, with_class in H. fold T in H. rewrite Ec in H.
  destruct (clookup c2 (qc_mul q)) as [v|] eqn:El.
  - destruct (table_entry_class c q c2 v Ec (or_introl El)) as (rc & cr & -> & Er).
    destruct (mk_base_ok rc cr (fmul N a b) Er) as (bu & Hb & Hm). rewrite Hm in H. inv H.
    exists rc, cr. rewrite Hb. auto.
  - simpl in H. destruct (class_sig_of M c2); [|discriminate]. inv H. eauto.
Qed.

Theorem div_named_iff_table : forall c a u c2 b u2 q r,
  get_class T c = Some q ->
  BinEval Div (VNamed c a u) (VNamed c2 b u2) = Val (OVal r) ->
  match clookup c2 (qc_div q) with
  | Some v => exists rc cr, v = GCls rc /\ get_class T rc = Some cr /\ r = VNamed rc (fdiv N a b)
                                   (match qc_base cr with GStr s => s | Bad_str s => s end)
  | None => exists sg, r = VSI sg (fdiv N a b)
  end.
Proof.
  intros c a u c2 b u2 q r Ec H. unfold binop_eval in H. simpl in H. apply lift_val in H.
  unfold q_div, with_class in H. fold T in H. rewrite Ec in H.
  destruct (clookup c2 (qc_div q)) as [v|] eqn:El.
  - destruct (table_entry_class c q c2 v Ec (or_intror El)) as (rc & cr & -> & Er).
    unfold checked_div in H. destruct (fiszero N b); [discriminate|].
    destruct (mk_base_ok rc cr (fdiv N a b) Er) as (bu & Hb & Hm). rewrite Hm in H. inv H.
    exists rc, cr. rewrite Hb. auto.
  - simpl in H. destruct (class_sig_of M c2); [|discriminate].
    unfold checked_div in H. destruct (fiszero N b); [discriminate|]. inv H. eauto.
Qed.

(* ================= numbers: scaling, and number / quantity ================= *)

(* q * k, k * q, q / k keep class (or signature) and unit and act on the SI value *)
Theorem scale_named : forall c a u k q, get_class T c = Some q ->
  BinEval Mul (VNamed c a u) (VNum k) = Val (OVal (VNamed c (fmul N a k) u)) /\
  BinEval Mul (VNum k) (VNamed c a u) = Val (OVal (VNamed c (fmul N k a) u)) /\
  BinEval Div (VNamed c a u) (VNum k) =
    if fiszero N k then Raise ZeroDivisionError else Val (OVal (VNamed c (fdiv N a k) u)).
Proof.
  intros c a u k q Ec. unfold binop_eval. simpl. unfold q_mul, q_div, with_class. fold T. rewrite Ec.
  rewrite !(q_val_ok _ _ _ _ Ec). simpl. rewrite (law_mul_comm N L k a). repeat split.
  unfold checked_div. destruct (fiszero N k); [reflexivity|].
  rewrite (q_val_ok _ _ _ _ Ec). reflexivity.
Qed.

Theorem scale_si : forall sg a k,
  BinEval Mul (VSI sg a) (VNum k) = Val (OVal (VSI sg (fmul N a k))) /\
  BinEval Mul (VNum k) (VSI sg a) = Val (OVal (VSI sg (fmul N k a))) /\
  BinEval Div (VSI sg a) (VNum k) =
    if fiszero N k then Raise ZeroDivisionError else Val (OVal (VSI sg (fdiv N a k))).
Proof.
  intros sg a k. unfold binop_eval. simpl. rewrite (law_mul_comm N L k a). repeat split.
  unfold checked_div. destruct (fiszero N k); reflexivity.
Qed.

Lemma dimensionless_class : exists d qd, qm_dimensionless M = Some d /\ get_class T d = Some qd /\ cls_sig qd = sig0.
Proof.
  unfold dimensionless_ok in Hdim. destruct (qm_dimensionless M) as [d|]; [|discriminate]. fold T in Hdim.
  destruct (get_class T d) as [qd|] eqn:E; [|discriminate].
  exists d, qd. repeat split; auto. apply sig_eqb_eq. exact Hdim.
Qed.

(* k / q  is  Dimensionless(k) / q : signature 0 - sig q, SI value k / si q *)
Theorem rdiv_sound : forall k y r,
  is_quantity N y = true ->
  BinEval Div (VNum k) y = Val (OVal r) ->
  exists sy ay, SigOf y = Some sy /\ SiOf y = Some ay /\ fiszero N ay = false /\
    SigOf r = Some (sig_sub sig0 sy) /\ SiOf r = Some (fdiv N k ay).
Proof.
  intros k y r Hy H. unfold binop_eval in H. simpl in H. rewrite Hy in H. simpl in H.
  destruct dimensionless_class as (d & qd & Ed & Eqd & Esig).
  unfold dimensionless_of in H. rewrite Ed in H.
  destruct (mk_none d qd k Eqd) as (bu & _ & Hm). rewrite Hm in H.
  assert (Hq : is_quantity N (VNamed d k bu) = true) by reflexivity.
  assert (H' : BinEval Div (VNamed d k bu) y = Val (OVal r)) by (unfold binop_eval; rewrite Hq; exact H).
  destruct (div_sound _ _ _ Hq Hy H') as (sx & sy & ax & ay & E1 & E2 & E3 & E4 & E5 & E6 & E7).
  simpl in E1. fold T in E1. rewrite Eqd in E1. simpl in E1. rewrite Esig in E1. inv E1. inv E3.
  exists sy, ay. auto 10.
Qed.

(* ================= generic SI value -> named quantity ================= *)
Theorem as_quantity_iff : forall sg a c q, get_class T c = Some q ->
  ((exists v, as_quantity N M (VSI sg a) (Some c) = Val v) <-> cls_sig q = sg) /\
  (cls_sig q = sg -> exists b, qc_base q = GStr b /\ as_quantity N M (VSI sg a) (Some c) = Val (VNamed c a b)) /\
  (cls_sig q <> sg -> as_quantity N M (VSI sg a) (Some c) = Raise ValueError).
Proof.
  intros sg a c q Ec. unfold as_quantity. rewrite (class_sig_ok _ _ Ec).
  destruct (mk_base_ok c q a Ec) as (b & Hb & Hm).
  destruct (sig_eqb (cls_sig q) sg) eqn:E.
  - apply sig_eqb_eq in E. repeat split; eauto; try congruence.
  - assert (Hne : cls_sig q <> sg) by (intros Heq; rewrite Heq, sig_eqb_refl in E; discriminate).
    repeat split; try congruence. intros (v & Hv). discriminate.
Qed.

Theorem as_quantity_non_class : forall sg a, as_quantity N M (VSI sg a) None = Raise TypeError.
Proof. reflexivity. Qed.

(* ================= + - and comparisons ================= *)

(* operands of different types (different classes, named against SI, different
   signatures, a quantity against a number or any other object): + and - raise,
   the four orderings raise TypeError, == is False and != is True *)
Theorem mixed_add_sub_refused : forall op x y,
  op = Add \/ op = Sub ->
  is_quantity N x = true \/ is_quantity N y = true ->
  same_type N x y = false ->
  exists e, BinEval op x y = Raise e.
Proof.
  intros op x y Hop Hq Hs. unfold binop_eval.
  destruct x as [c a u|sg a|v|]; destruct y as [c2 b u2|sg2 b|w|]; simpl in *;
    try (destruct Hq; discriminate);
    destruct Hop as [-> | ->]; simpl; try rewrite Hs; simpl; eauto.
Qed.

Theorem mixed_compare_refused : forall o x y,
  is_quantity N x = true \/ is_quantity N y = true ->
  same_type N x y = false ->
  BinEval (Cmp o) x y =
    match o with CEq => Val (OBool false) | CNe => Val (OBool true) | _ => Raise TypeError end.
Proof.
  intros o x y Hq Hs. unfold binop_eval.
  destruct x as [c a u|sg a|v|]; destruct y as [c2 b u2|sg2 b|w|]; simpl in *;
    try (destruct Hq; discriminate);
    try rewrite Hs; try (rewrite Nat.eqb_sym in Hs; rewrite Hs);
    try (rewrite sig_eqb_sym in Hs; rewrite Hs); destruct o; reflexivity.
Qed.

(* same type: + - and the comparisons act on the SI values; the result of + -
   has the left operand's class (signature) and unit *)
Theorem same_type_named : forall c a u b v q, get_class T c = Some q ->
  BinEval Add (VNamed c a u) (VNamed c b v) = Val (OVal (VNamed c (fadd N a b) u)) /\
  BinEval Sub (VNamed c a u) (VNamed c b v) = Val (OVal (VNamed c (fsub N a b) u)) /\
  forall o, BinEval (Cmp o) (VNamed c a u) (VNamed c b v) = Val (OBool (cmp_nums N o a b)).
Proof.
  intros c a u b v q Ec. unfold binop_eval. simpl. rewrite Nat.eqb_refl.
  rewrite !(q_val_ok _ _ _ _ Ec). simpl. repeat split.
Qed.

Theorem same_type_si : forall sg a b,
  BinEval Add (VSI sg a) (VSI sg b) = Val (OVal (VSI sg (fadd N a b))) /\
  BinEval Sub (VSI sg a) (VSI sg b) = Val (OVal (VSI sg (fsub N a b))) /\
  forall o, BinEval (Cmp o) (VSI sg a) (VSI sg b) = Val (OBool (cmp_nums N o a b)).
Proof.
  intros sg a b. unfold binop_eval. simpl. rewrite sig_eqb_refl. simpl. repeat split.
Qed.

(* the pinned SI.__sub__ (type test only) does subtract values of different signatures *)
Theorem si_sub_pinned_accepts_mixed : forall sg sg2 a b,
  si_sub_pinned N sg a (VSI sg2 b) = Val (VSI sg (fsub N a b)).
Proof. reflexivity. Qed.

(* ================= C17: construction, display value, re-expression, unary operators ================= *)

(* cls(value, unit) stores value * factor and remembers the unit *)
Theorem mk_stores_value_times_factor : forall c q u f n d x,
  get_class T c = Some q -> glookup u (qc_units q) = Some (GFac f n d) ->
  Mk c (VNum x) (Some u) = Val (VNamed c (fmul N x (ffac N f n d)) u).
Proof.
  intros c q u f n d x Ec Hu. unfold mk, with_class. fold T. rewrite Ec.
  unfold gmem. rewrite Hu. simpl. unfold class_factor. rewrite Hu. reflexivity.
Qed.

Theorem mk_unknown_unit_refused : forall c q u x,
  get_class T c = Some q -> glookup u (qc_units q) = None ->
  Mk c x (Some u) = Raise ValueError.
Proof.
  intros c q u x Ec Hu. unfold mk, with_class. fold T. rewrite Ec. unfold gmem. rewrite Hu. reflexivity.
Qed.

Theorem mk_non_number_refused : forall c q u x,
  get_class T c = Some q -> (forall k, x <> VNum k) -> Mk c x (Some u) = Raise ValueError.
Proof.
  intros c q u x Ec Hx. unfold mk, with_class. fold T. rewrite Ec.
  destruct (negb (gmem u (qc_units q))); [reflexivity|].
  destruct x; try reflexivity. exfalso. eapply Hx. reflexivity.
Qed.

(* the display value of a freshly constructed quantity is the value it was built from
   (exactly, in a number structure satisfying the laws; up to rounding in binary64) *)
Theorem displayvalue_of_mk : forall c q u f n d x,
  get_class T c = Some q -> glookup u (qc_units q) = Some (GFac f n d) -> n <> 0%Z ->
  displayvalue N M (VNamed c (fmul N x (ffac N f n d)) u) = Val x.
Proof.
  intros c q u f n d x Ec Hu Hn. unfold displayvalue, with_class. fold T. rewrite Ec.
  unfold class_factor. rewrite Hu. unfold checked_div.
  rewrite (law_fac_nonzero N L f n d Hn). rewrite (law_div_mul N L); auto using (law_fac_nonzero N L).
Qed.

(* re-expression in another declared unit: the SI value is untouched, the unit is the new one *)
Theorem as_unit_preserves_si : forall c q a u u',
  get_class T c = Some q -> gmem u' (qc_units q) = true ->
  as_unit N M (VNamed c a u) u' = Val (VNamed c a u').
Proof.
  intros c q a u u' Ec Hu. unfold as_unit, with_class. fold T. rewrite Ec, Hu. simpl.
  apply (q_val_ok _ _ _ _ Ec).
Qed.

Theorem as_unit_unknown_refused : forall c q a u u',
  get_class T c = Some q -> gmem u' (qc_units q) = false ->
  as_unit N M (VNamed c a u) u' = Raise ValueError.
Proof.
  intros c q a u u' Ec Hu. unfold as_unit, with_class. fold T. rewrite Ec, Hu. reflexivity.
Qed.

(* negation, absolute value, unary plus: on the SI value, unit kept *)
Theorem unary_named : forall c q a u, get_class T c = Some q ->
  unop_eval N M Neg (VNamed c a u) = Val (OVal (VNamed c (fneg N a) u)) /\
  unop_eval N M Abs (VNamed c a u) = Val (OVal (VNamed c (fabs N a) u)) /\
  unop_eval N M Pos (VNamed c a u) = Val (OVal (VNamed c a u)).
Proof.
  intros c q a u Ec. simpl. rewrite !(q_val_ok _ _ _ _ Ec). simpl. repeat split.
Qed.

(* equality, ordering, +, - of two quantities of one class do not look at the
   units the operands are expressed in (only the left unit is carried over) *)
Theorem ops_depend_only_on_si : forall c q a b u v u' v', get_class T c = Some q ->
  (forall o, BinEval (Cmp o) (VNamed c a u) (VNamed c b v) = BinEval (Cmp o) (VNamed c a u') (VNamed c b v')) /\
  (forall op r, op = Add \/ op = Sub ->
     BinEval op (VNamed c a u) (VNamed c b v) = Val (OVal r) ->
     exists x, r = VNamed c x u /\ BinEval op (VNamed c a u') (VNamed c b v') = Val (OVal (VNamed c x u'))).
Proof.
  intros c q a b u v u' v' Ec. split.
  - intros o. destruct (same_type_named c a u b v q Ec) as (_ & _ & H1).
    destruct (same_type_named c a u' b v' q Ec) as (_ & _ & H2). rewrite H1, H2. reflexivity.
  - intros op r Hop H.
    destruct (same_type_named c a u b v q Ec) as (A1 & S1 & _).
    destruct (same_type_named c a u' b v' q Ec) as (A2 & S2 & _).
    destruct Hop as [-> | ->].
    + rewrite A1 in H. inv H. eauto.
    + rewrite S1 in H. inv H. eauto.
Qed.

(* str(q) never raises for a declared unit when the display table holds strings:
   the text after the number is the display spelling of the unit *)
Theorem str_total : forall c q a u f n d,
  display_units_ok T = true ->
  get_class T c = Some q -> glookup u (qc_units q) = Some (GFac f n d) -> n <> 0%Z ->
  exists s, str_suffix N M (VNamed c a u) = Val s /\ display_of q u = GStr s.
Proof.
  intros c q a u f n d Hdisp Ec Hu Hn. unfold str_suffix.
  assert (Hdv : exists x, displayvalue N M (VNamed c a u) = Val x).
  { unfold displayvalue, with_class. fold T. rewrite Ec. unfold class_factor. rewrite Hu.
    unfold checked_div. rewrite (law_fac_nonzero N L f n d Hn). eauto. }
  destruct Hdv as (x & ->). unfold with_class. fold T. rewrite Ec.
  destruct (display_of_is_string T Hdisp c q u Ec) as (s & Hs). rewrite Hs. eauto.
Qed.

(* math.floor / ceil / trunc / round of a quantity act on its DISPLAY value and keep the unit: the result is
   the quantity whose display value is the rounded display value (whatever the four roundings are) *)
Theorem round_on_display_value : forall (X : mathops N) k c q a u f n d dv r,
  get_class T c = Some q -> glookup u (qc_units q) = Some (GFac f n d) -> n <> 0%Z ->
  displayvalue N M (VNamed c a u) = Val dv -> round_with X k dv = Val r ->
  q_round N M X k c a u = Val (VNamed c (fmul N r (ffac N f n d)) u) /\
  displayvalue N M (VNamed c (fmul N r (ffac N f n d)) u) = Val r.
Proof.
  intros X k c q a u f n d dv r Hc Hu Hn Hd Hr. unfold q_round. rewrite Hd, Hr. split.
  - eapply mk_stores_value_times_factor; eauto.
  - eapply displayvalue_of_mk; eauto.
Qed.

Theorem round_refusal_propagates : forall (X : mathops N) k c a u dv e,
  displayvalue N M (VNamed c a u) = Val dv -> round_with X k dv = Raise e -> q_round N M X k c a u = Raise e.
Proof. intros X k c a u dv e Hd Hr. unfold q_round. rewrite Hd, Hr. reflexivity. Qed.

Theorem si_round_keeps_signature : forall (X : mathops N) k sg a r,
  round_with X k a = Val r -> si_round N X k sg a = Val (VSI sg r).
Proof. intros X k sg a r Hr. unfold si_round. rewrite Hr. reflexivity. Qed.

End Proofs.
