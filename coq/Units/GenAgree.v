(* C16 / C17 -- the method bodies regenerated from the source ARE the proved model.

   Units/Gen_Methods.v is written by translator/py2gallina_units.py from the
   text of src/pydsol/core/units.py of the tree under test (Python's `ast`,
   fail-closed): the methods of the classes Quantity and SI that
   Units/Dispatch.v and Units/SIString.v transcribe by hand.  This file proves
   every generated definition equal to the hand-written function, for all
   arguments (signatures of SI values have nine entries; the tables pass the
   executable checks of Units/Tables.v where stated), then that evaluating a
   whole call through the generated methods is [Dispatch.eval].  It is compiled
   against the generated file on every run of the checks; a change of the
   source that changes the meaning of a method makes an equality false, the
   file no longer compiles and the check reports the broken tie.

   The generated code keeps the unit text of an SI value as a stored attribute
   (as the code does); the hand-written model derives it from the signature.
   [conc] maps a value of the model to the object of the generated code whose
   stored text is the derived one; every theorem shows that the generated
   method, run on such objects, returns such an object. *)
From Coq Require Import ZArith List Bool String Ascii Lia.
From PV Require Import Units.Tables Units.SIString Units.Dispatch Units.TableProofs Units.DispatchProofs.
From PV Require Import Units.Gen_Methods.
Import ListNotations.
Local Open Scope string_scope.

(* ====================================================================== *)
(* Python primitives of the generated code = primitives of the model       *)
(* ====================================================================== *)
Lemma py_list_eqb_sig : forall a b, py_list_eqb a b = sig_eqb a b.
Proof. induction a as [|x a IH]; destruct b; simpl; try reflexivity; rewrite IH; reflexivity. Qed.

Lemma py_map2_zip : forall f a b, py_map2 f a b = sig_zip f a b.
Proof. induction a as [|x a IH]; destruct b; simpl; try reflexivity; rewrite IH; reflexivity. Qed.

Lemma py_str_drop_sdrop : forall n s, py_str_drop n s = sdrop n s.
Proof. induction n as [|n IH]; destruct s; simpl; auto. Qed.

Lemma py_str_of_int_zstr : forall v, py_str_of_int v = zstr v.
Proof. reflexivity. Qed.

Lemma py_index_nth : forall A (l : list A) j x, nth_error l j = Some x -> py_index l (Z.of_nat j) = Val x.
Proof.
  intros A l j x H. unfold py_index.
  destruct (Z.of_nat j <? 0)%Z eqn:E; [apply Z.ltb_lt in E; lia|].
  rewrite Nat2Z.id, H. reflexivity.
Qed.

Lemma py_len_pos : forall s, (0 <? py_len s)%Z = negb (String.eqb s "").
Proof. destruct s; reflexivity. Qed.

Lemma py_len_zero : forall s, (py_len s =? 0)%Z = String.eqb s "".
Proof. destruct s; reflexivity. Qed.

(* a loop over range(k, k + n) that reads names[i] and sig[i] is a loop over the pairs *)
Lemma py_for_range_zip : forall (St : Type) (g : string -> Z -> St -> result St) (body : Z -> St -> result St)
  (names : list string) (sig : list Z) k,
  List.length names = List.length sig ->
  (forall j u v st, nth_error names j = Some u -> nth_error sig j = Some v ->
                    body (Z.of_nat (k + j)) st = g u v st) ->
  forall st, py_for (py_range_from (Z.of_nat k) (List.length names)) body st
             = py_for (combine names sig) (fun p st => g (fst p) (snd p) st) st.
Proof.
  induction names as [|u names IH]; intros sig k Hl Hb st; [reflexivity|].
  destruct sig as [|v sig]; [discriminate|]. simpl.
  rewrite <- (Nat.add_0_r k) at 1. rewrite (Hb 0%nat u v st eq_refl eq_refl).
  destruct (g u v st) as [st'|e]; simpl; [|reflexivity].
  replace (Z.of_nat k + 1)%Z with (Z.of_nat (S k)) by lia.
  apply IH; [simpl in Hl; lia|].
  intros j u' v' st'' Hu Hv. replace (S k + j)%nat with (k + S j)%nat by lia. apply Hb; assumption.
Qed.

(* ====================================================================== *)
(* the printers                                                             *)
(* ====================================================================== *)
Section Printer.
Variables (hat dot : string).

(* one position of a pass, on the text built so far *)
Definition pstep (sel : Z -> option Z) (acc : string) (u : string) (v : Z) : string :=
  match sel v with
  | Some w => (if String.eqb acc "" then acc else acc ++ dot) ++ seg hat u w
  | None => acc
  end.

Fixpoint glue (acc : string) (items : list (string * Z)) : string :=
  match items with
  | [] => acc
  | (u, w) :: r => glue ((if String.eqb acc "" then acc else acc ++ dot) ++ seg hat u w) r
  end.

Lemma fold_pass : forall sel names sig acc,
  fold_left (fun a p => pstep sel a (fst p) (snd p)) (combine names sig) acc = glue acc (pass_items sel names sig).
Proof.
  induction names as [|u names IH]; intros sig acc; [reflexivity|].
  destruct sig as [|v sig]; [reflexivity|]. simpl. unfold pstep at 2.
  destruct (sel v) as [w|]; simpl; apply IH.
Qed.

Lemma seg_nonempty : forall u w, u <> "" -> seg hat u w <> "".
Proof. intros u w Hu. unfold seg. destruct (w =? 1)%Z; [exact Hu|]. destruct u; [congruence|discriminate]. Qed.

Lemma app_nonempty_r : forall a b : string, b <> "" -> a ++ b <> "".
Proof. intros [|c a] b Hb; simpl; [exact Hb|discriminate]. Qed.

Lemma app_nonempty_l : forall a b : string, a <> "" -> a ++ b <> "".
Proof. intros [|c a] b Ha; simpl; [congruence|discriminate]. Qed.

Lemma eqb_empty_false : forall s, s <> "" -> String.eqb s "" = false.
Proof. destruct s; [congruence|reflexivity]. Qed.

Lemma sapp_assoc : forall a b c : string, (a ++ b) ++ c = a ++ (b ++ c).
Proof. induction a; simpl; intros; [reflexivity|]. rewrite IHa. reflexivity. Qed.

Lemma sapp_nil_r : forall a : string, a ++ "" = a.
Proof. induction a; simpl; [reflexivity|]. rewrite IHa. reflexivity. Qed.

Lemma glue_nonempty : forall items acc, acc <> "" -> (forall u w, In (u, w) items -> u <> "") ->
  glue acc items = acc ++ (match items with [] => "" | _ => dot ++ join_items hat dot items end).
Proof.
  induction items as [|[u w] r IH]; intros acc Ha Hn; simpl.
  - symmetry. apply sapp_nil_r.
  - rewrite (eqb_empty_false acc Ha).
    assert (Hs : seg hat u w <> "") by (apply seg_nonempty, (Hn u w); left; reflexivity).
    rewrite IH; [|apply app_nonempty_r; exact Hs|intros; eapply Hn; right; eauto].
    destruct r as [|[u2 w2] r2].
    + rewrite sapp_nil_r. apply sapp_assoc.
    + rewrite !sapp_assoc. reflexivity.
Qed.

Lemma glue_empty : forall items, (forall u w, In (u, w) items -> u <> "") ->
  glue "" items = join_items hat dot items.
Proof.
  intros [|[u w] r] Hn; [reflexivity|]. simpl.
  assert (Hs : seg hat u w <> "") by (apply seg_nonempty, (Hn u w); left; reflexivity).
  rewrite glue_nonempty; [|exact Hs|intros; eapply Hn; right; eauto].
  destruct r as [|[u2 w2] r2]; [apply sapp_nil_r|reflexivity].
Qed.

Lemma pass_items_names : forall sel names sig u w, In (u, w) (pass_items sel names sig) -> In u names.
Proof.
  induction names as [|n names IH]; intros sig u w H; [contradiction|].
  destruct sig as [|v sig]; [contradiction|]. simpl in H.
  destruct (sel v); [destruct H as [H|H]; [inversion H; left; reflexivity|]|]; right; eapply IH; eauto.
Qed.

Lemma pass_text : forall sel names sig, (forall u, In u names -> u <> "") ->
  fold_left (fun a p => pstep sel a (fst p) (snd p)) (combine names sig) "" = join_items hat dot (pass_items sel names sig).
Proof.
  intros. rewrite fold_pass. apply glue_empty. intros u w Hi. apply H. eapply pass_items_names; eauto.
Qed.

Lemma py_for_pure : forall (A St : Type) (f : St -> A -> St) (l : list A) st,
  py_for l (fun x st => Val (f st x)) st = Val (fold_left f l st).
Proof. induction l as [|x l IH]; intros st; simpl; [reflexivity|apply IH]. Qed.
End Printer.

Lemma si_names_nonempty : forall u, In u si_names -> u <> "".
Proof. intros u H. simpl in H. repeat (destruct H as [<-|H]; [discriminate|]). contradiction. Qed.

Lemma py_for_ext : forall (A St : Type) (f f' : A -> St -> result St) (l : list A),
  (forall x st, f x st = f' x st) -> forall st, py_for l f st = py_for l f' st.
Proof.
  intros A St f f' l H. induction l as [|x l IH]; intros st; simpl; [reflexivity|].
  rewrite H. destruct (f' x st); simpl; [apply IH|reflexivity].
Qed.

(* the tests of the loop bodies, in terms of the selection functions of the model *)
Lemma num_shown : forall d v, (0 <? v)%Z || ((v <? 0)%Z && negb d) = true ->
  (1 <? v)%Z || (v <? 0)%Z = negb (v =? 1)%Z.
Proof.
  intros d v C.
  destruct (Z.ltb_spec 1 v), (Z.ltb_spec v 0), (Z.eqb_spec v 1), (Z.ltb_spec 0 v), d; simpl in *;
    try reflexivity; try discriminate; lia.
Qed.

Lemma den_shown : forall v, (v <? -1)%Z = negb (- v =? 1)%Z.
Proof.
  intros v. destruct (v <? -1)%Z eqn:A, (- v =? 1)%Z eqn:D; try reflexivity; exfalso;
    rewrite ?Z.ltb_lt, ?Z.ltb_ge, ?Z.eqb_eq, ?Z.eqb_neq in *; lia.
Qed.

Lemma pass_loop : forall sel h t names sig, (forall u, In u names -> u <> "") ->
  py_for (combine names sig) (fun p st => Val (pstep h t sel st (fst p) (snd p))) ""
  = Val (join_items h t (pass_items sel names sig)).
Proof. intros. rewrite py_for_pure, pass_text; auto. Qed.

Lemma slash_join : forall s t : string,
  (if (0 <? py_len t)%Z then s ++ ("/" ++ t) else s) = (if String.eqb t "" then s else s ++ "/" ++ t).
Proof. intros s [|c t]; reflexivity. Qed.

(* ====================================================================== *)
Section Agree.
Variable N : numops.
Variable M : qmodule.
Let T := qm_classes M.
Notation num := (num N).

(* SI.siunit *)
Ltac index_names j x v Hx Hv sg :=
  change (0 + j)%nat with j; cbn [py_attr_sisig bind]; rewrite ?(py_index_nth _ sg j v Hv);
  change ["rad"; "sr"; "kg"; "m"; "s"; "A"; "K"; "mol"; "cd"] with si_names;
  rewrite ?(py_index_nth _ si_names j x Hx); cbn [bind].

Theorem gen_SI_siunit_eq : forall (a : num) sg u d h t, List.length sg = 9%nat ->
  gen_SI_siunit N (GSI a sg u) d h t = Val (siunit sg d h t).
Proof.
  intros a sg u d h t Hl. unfold gen_SI_siunit, siunit, siunit_with.
  change (py_range 0 9) with (py_range_from (Z.of_nat 0) (List.length si_names)).
  rewrite (py_for_range_zip _ (fun x v st => Val (pstep h t (sel_num d) st x v)) _ si_names sg 0 (eq_sym Hl)).
  2:{ intros j x v st Hx Hv. index_names j x v Hx Hv sg. unfold pstep, sel_num, seg.
      destruct ((0 <? v)%Z || (v <? 0)%Z && negb d) eqn:C; [|reflexivity].
      rewrite (num_shown d v C), py_len_pos, py_str_of_int_zstr.
      destruct (String.eqb st ""), (v =? 1)%Z; cbn [bind negb]; rewrite ?sapp_assoc; reflexivity. }
  rewrite (pass_loop (sel_num d) h t si_names sg si_names_nonempty). cbn [bind].
  destruct d.
  - rewrite (py_for_range_zip _ (fun x v st => Val (pstep h t sel_den st x v)) _ si_names sg 0 (eq_sym Hl)).
    2:{ intros j x v st Hx Hv. index_names j x v Hx Hv sg. unfold pstep, sel_den, seg.
        destruct (v <? 0)%Z eqn:C; [|reflexivity].
        rewrite den_shown, py_len_pos, py_str_of_int_zstr.
        destruct (String.eqb st ""), (- v =? 1)%Z; cbn [bind negb]; rewrite ?sapp_assoc; reflexivity. }
    rewrite (pass_loop sel_den h t si_names sg si_names_nonempty). cbn [bind].
    set (s := join_items h t (pass_items (sel_num true) si_names sg)).
    set (tt := join_items h t (pass_items sel_den si_names sg)).
    rewrite <- slash_join. destruct (0 <? py_len tt)%Z; reflexivity.
  - cbn [bind py_len String.length Z.of_nat Z.ltb Z.compare]. reflexivity.
Qed.
End Agree.
