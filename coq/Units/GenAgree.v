(* C16 / C17 -- the method bodies regenerated from the source ARE the proved model.

   Units/Gen_Methods.v is written by translator/py2gallina_units.py from the
   text of src/pydsol/core/units.py of the tree under test (Python's `ast`,
   fail-closed): the methods of the classes Quantity and SI that
   Units/Dispatch.v and Units/SIString.v transcribe by hand.  This file proves
   every generated definition equal to the hand-written function, for all
   arguments (signatures of SI values have nine entries; the tables pass the
   executable checks of Units/Tables.v where stated), then that evaluating a
   whole call through the generated methods is [Dispatch.eval].  It is compiled
   against the generated file on every run of the checks; a change of the
   source that changes the meaning of a method makes an equality false, the
   file no longer compiles and the check reports the broken tie.

   The generated code keeps the unit text of an SI value as a stored attribute
   (as the code does); the hand-written model derives it from the signature.
   [conc] maps a value of the model to the object of the generated code whose
   stored text is the derived one; every theorem shows that the generated
   method, run on such objects, returns such an object. *)
From Coq Require Import ZArith List Bool String Ascii Lia.
From PV Require Import Units.Tables Units.SIString Units.Dispatch Units.TableProofs Units.DispatchProofs Units.SIStringProofs.
From PV Require Import Units.Gen_Methods.
Import ListNotations.
Local Open Scope string_scope.

(* ====================================================================== *)
(* Python primitives of the generated code = primitives of the model       *)
(* ====================================================================== *)
Lemma py_list_eqb_sig : forall a b, py_list_eqb a b = sig_eqb a b.
Proof. induction a as [|x a IH]; destruct b; simpl; try reflexivity; rewrite IH; reflexivity. Qed.

Lemma py_map2_zip : forall f a b, py_map2 f a b = sig_zip f a b.
Proof. induction a as [|x a IH]; destruct b; simpl; try reflexivity; rewrite IH; reflexivity. Qed.

Lemma py_str_drop_sdrop : forall n s, py_str_drop n s = sdrop n s.
Proof. induction n as [|n IH]; destruct s; simpl; auto. Qed.

Lemma py_str_of_int_zstr : forall v, py_str_of_int v = zstr v.
Proof. reflexivity. Qed.

Lemma py_index_nth : forall A (l : list A) j x, nth_error l j = Some x -> py_index l (Z.of_nat j) = Val x.
Proof.
  intros A l j x H. unfold py_index.
  destruct (Z.of_nat j <? 0)%Z eqn:E; [apply Z.ltb_lt in E; lia|].
  rewrite Nat2Z.id, H. reflexivity.
Qed.

Lemma py_len_pos : forall s, (0 <? py_len s)%Z = negb (String.eqb s "").
Proof. destruct s; reflexivity. Qed.

Lemma py_len_zero : forall s, (py_len s =? 0)%Z = String.eqb s "".
Proof. destruct s; reflexivity. Qed.

(* a loop over range(k, k + n) that reads names[i] and sig[i] is a loop over the pairs *)
Lemma py_for_range_zip : forall (St : Type) (g : string -> Z -> St -> result St) (body : Z -> St -> result St)
  (names : list string) (sig : list Z) k,
  List.length names = List.length sig ->
  (forall j u v st, nth_error names j = Some u -> nth_error sig j = Some v ->
                    body (Z.of_nat (k + j)) st = g u v st) ->
  forall st, py_for (py_range_from (Z.of_nat k) (List.length names)) body st
             = py_for (combine names sig) (fun p st => g (fst p) (snd p) st) st.
Proof.
  induction names as [|u names IH]; intros sig k Hl Hb st; [reflexivity|].
  destruct sig as [|v sig]; [discriminate|]. simpl.
  rewrite <- (Nat.add_0_r k) at 1. rewrite (Hb 0%nat u v st eq_refl eq_refl).
  destruct (g u v st) as [st'|e]; simpl; [|reflexivity].
  replace (Z.of_nat k + 1)%Z with (Z.of_nat (S k)) by lia.
  apply IH; [simpl in Hl; lia|].
  intros j u' v' st'' Hu Hv. replace (S k + j)%nat with (k + S j)%nat by lia. apply Hb; assumption.
Qed.

(* ====================================================================== *)
(* the printers                                                             *)
(* ====================================================================== *)
Section Printer.
Variables (hat dot : string).

(* one position of a pass, on the text built so far *)
Definition pstep (sel : Z -> option Z) (acc : string) (u : string) (v : Z) : string :=
  match sel v with
  | Some w => (if String.eqb acc "" then acc else acc ++ dot) ++ seg hat u w
  | None => acc
  end.

Fixpoint glue (acc : string) (items : list (string * Z)) : string :=
  match items with
  | [] => acc
  | (u, w) :: r => glue ((if String.eqb acc "" then acc else acc ++ dot) ++ seg hat u w) r
  end.

Lemma fold_pass : forall sel names sig acc,
  fold_left (fun a p => pstep sel a (fst p) (snd p)) (combine names sig) acc = glue acc (pass_items sel names sig).
Proof.
  induction names as [|u names IH]; intros sig acc; [reflexivity|].
  destruct sig as [|v sig]; [reflexivity|]. simpl. unfold pstep at 2.
  destruct (sel v) as [w|]; simpl; apply IH.
Qed.

Lemma seg_nonempty : forall u w, u <> "" -> seg hat u w <> "".
Proof. intros u w Hu. unfold seg. destruct (w =? 1)%Z; [exact Hu|]. destruct u; [congruence|discriminate]. Qed.

Lemma app_nonempty_r : forall a b : string, b <> "" -> a ++ b <> "".
Proof. intros [|c a] b Hb; simpl; [exact Hb|discriminate]. Qed.

Lemma app_nonempty_l : forall a b : string, a <> "" -> a ++ b <> "".
Proof. intros [|c a] b Ha; simpl; [congruence|discriminate]. Qed.

Lemma eqb_empty_false : forall s, s <> "" -> String.eqb s "" = false.
Proof. destruct s; [congruence|reflexivity]. Qed.

Lemma sapp_assoc : forall a b c : string, (a ++ b) ++ c = a ++ (b ++ c).
Proof. induction a; simpl; intros; [reflexivity|]. rewrite IHa. reflexivity. Qed.

Lemma sapp_nil_r : forall a : string, a ++ "" = a.
Proof. induction a; simpl; [reflexivity|]. rewrite IHa. reflexivity. Qed.

Lemma glue_nonempty : forall items acc, acc <> "" -> (forall u w, In (u, w) items -> u <> "") ->
  glue acc items = acc ++ (match items with [] => "" | _ => dot ++ join_items hat dot items end).
Proof.
  induction items as [|[u w] r IH]; intros acc Ha Hn; simpl.
  - symmetry. apply sapp_nil_r.
  - rewrite (eqb_empty_false acc Ha).
    assert (Hs : seg hat u w <> "") by (apply seg_nonempty, (Hn u w); left; reflexivity).
    rewrite IH; [|apply app_nonempty_r; exact Hs|intros; eapply Hn; right; eauto].
    destruct r as [|[u2 w2] r2].
    + rewrite sapp_nil_r. apply sapp_assoc.
    + rewrite !sapp_assoc. reflexivity.
Qed.

Lemma glue_empty : forall items, (forall u w, In (u, w) items -> u <> "") ->
  glue "" items = join_items hat dot items.
Proof.
  intros [|[u w] r] Hn; [reflexivity|]. simpl.
  assert (Hs : seg hat u w <> "") by (apply seg_nonempty, (Hn u w); left; reflexivity).
  rewrite glue_nonempty; [|exact Hs|intros; eapply Hn; right; eauto].
  destruct r as [|[u2 w2] r2]; [apply sapp_nil_r|reflexivity].
Qed.

Lemma pass_items_names : forall sel names sig u w, In (u, w) (pass_items sel names sig) -> In u names.
Proof.
  induction names as [|n names IH]; intros sig u w H; [contradiction|].
  destruct sig as [|v sig]; [contradiction|]. simpl in H.
  destruct (sel v); [destruct H as [H|H]; [inversion H; left; reflexivity|]|]; right; eapply IH; eauto.
Qed.

Lemma pass_text : forall sel names sig, (forall u, In u names -> u <> "") ->
  fold_left (fun a p => pstep sel a (fst p) (snd p)) (combine names sig) "" = join_items hat dot (pass_items sel names sig).
Proof.
  intros. rewrite fold_pass. apply glue_empty. intros u w Hi. apply H. eapply pass_items_names; eauto.
Qed.

Lemma py_for_pure : forall (A St : Type) (f : St -> A -> St) (l : list A) st,
  py_for l (fun x st => Val (f st x)) st = Val (fold_left f l st).
Proof. induction l as [|x l IH]; intros st; simpl; [reflexivity|apply IH]. Qed.
End Printer.

Lemma si_names_nonempty : forall u, In u si_names -> u <> "".
Proof. intros u H. simpl in H. repeat (destruct H as [<-|H]; [discriminate|]). contradiction. Qed.

Lemma py_for_ext : forall (A St : Type) (f f' : A -> St -> result St) (l : list A),
  (forall x st, f x st = f' x st) -> forall st, py_for l f st = py_for l f' st.
Proof.
  intros A St f f' l H. induction l as [|x l IH]; intros st; simpl; [reflexivity|].
  rewrite H. destruct (f' x st); simpl; [apply IH|reflexivity].
Qed.

(* the tests of the loop bodies, in terms of the selection functions of the model *)
Lemma num_shown : forall d v, (0 <? v)%Z || ((v <? 0)%Z && negb d) = true ->
  (1 <? v)%Z || (v <? 0)%Z = negb (v =? 1)%Z.
Proof.
  intros d v C.
  destruct (Z.ltb_spec 1 v), (Z.ltb_spec v 0), (Z.eqb_spec v 1), (Z.ltb_spec 0 v), d; simpl in *;
    try reflexivity; try congruence; lia.
Qed.

Lemma den_shown : forall v, (v <? 0)%Z = true -> (v <? -1)%Z = negb (- v =? 1)%Z.
Proof.
  intros v C. apply Z.ltb_lt in C. destruct (Z.ltb_spec v (-1)), (Z.eqb_spec (- v) 1); simpl; try reflexivity; lia.
Qed.

Lemma pass_loop : forall sel h t names sig, (forall u, In u names -> u <> "") ->
  py_for (combine names sig) (fun p st => Val (pstep h t sel st (fst p) (snd p))) ""
  = Val (join_items h t (pass_items sel names sig)).
Proof. intros. rewrite py_for_pure, pass_text; auto. Qed.

Lemma slash_join : forall s t : string,
  (if negb (String.eqb t "") then s ++ ("/" ++ t) else s) = (if String.eqb t "" then s else s ++ "/" ++ t).
Proof. intros s [|c t]; reflexivity. Qed.

(* ====================================================================== *)
(* the hand-written parser in terms of the tests the code makes             *)
(* ====================================================================== *)
Lemma match_hat : forall A (f : string -> A) (g : A) s,
  match s with String "^"%char r => f r | _ => g end =
  match s with String c r => if Ascii.eqb c "^" then f r else g | EmptyString => g end.
Proof. intros A f g [|[[] [] [] [] [] [] [] []] r]; reflexivity. Qed.

Lemma match_minus : forall A (f : string -> A) (g : ascii -> string -> A) (h : A) s,
  match s with String "-"%char r => f r | String c r => g c r | EmptyString => h end =
  match s with String c r => if Ascii.eqb c "-" then f r else g c r | EmptyString => h end.
Proof. intros A f g h [|[[] [] [] [] [] [] [] []] r]; reflexivity. Qed.

Lemma match_dot : forall A (f : string -> A) (g : A) s,
  match s with String "."%char r => f r | _ => g end =
  match s with String c r => if Ascii.eqb c "." then f r else g | EmptyString => g end.
Proof. intros A f g [|[[] [] [] [] [] [] [] []] r]; reflexivity. Qed.

Definition parse_exp_t (divs : Z) (s : string) : option (Z * string) :=
  let s1 := if prefix "^" s then py_str_drop 1 s else s in
  if prefix "-" s1 then
    let s2 := py_str_drop 1 s1 in
    if py_match_digit (py_str_take 1 s2)
    then match py_int_of_str (py_str_take 1 s2) with Val d => Some ((divs * - d)%Z, py_str_drop 1 s2) | Raise _ => None end
    else None
  else if py_match_digit (py_str_take 1 s1)
       then match py_int_of_str (py_str_take 1 s1) with Val d => Some ((divs * d)%Z, py_str_drop 1 s1) | Raise _ => None end
       else Some (divs, s1).

Lemma prefix_char : forall c s, prefix (String c "") s = match s with String d _ => Ascii.eqb c d | EmptyString => false end.
Proof.
  intros c [|d r]; simpl; [reflexivity|].
  destruct (ascii_dec c d) as [e|n]; destruct (Ascii.eqb_spec c d); try contradiction; [destruct r|]; reflexivity.
Qed.

Lemma eqb_take1 : forall c s, String.eqb (py_str_take 1 s) (String c "") = match s with String d _ => Ascii.eqb d c | EmptyString => false end.
Proof. intros c [|d r]; simpl; [reflexivity|]. destruct (Ascii.eqb d c); reflexivity. Qed.

Lemma digit_val_is : forall c, digit_val c = if py_is_digit c then Some (Z.of_nat (nat_of_ascii c - 48)) else None.
Proof. reflexivity. Qed.

Lemma parse_tail : forall divs s1,
  match s1 with
  | "" => Some (divs, s1)
  | String "-"%char r => match r with
                 | "" => None
                 | String c r2 => match digit_val c with Some d => Some ((divs * - d)%Z, r2) | None => None end
                 end
  | String c r2 => match digit_val c with Some d => Some ((divs * d)%Z, r2) | None => Some (divs, s1) end
  end =
  if prefix "-" s1 then
    if py_match_digit (py_str_take 1 (py_str_drop 1 s1))
    then match py_int_of_str (py_str_take 1 (py_str_drop 1 s1)) with Val d => Some ((divs * - d)%Z, py_str_drop 1 (py_str_drop 1 s1)) | Raise _ => None end
    else None
  else if py_match_digit (py_str_take 1 s1)
       then match py_int_of_str (py_str_take 1 s1) with Val d => Some ((divs * d)%Z, py_str_drop 1 s1) | Raise _ => None end
       else Some (divs, s1).
Proof.
  intros divs [|c r]; [reflexivity|].
  destruct c as [[] [] [] [] [] [] [] []]; try (destruct r; reflexivity).
  (* the minus sign *)
  destruct r as [|c2 r2]; [reflexivity|].
  cbn [prefix py_str_drop py_str_take py_match_digit py_int_of_str]. rewrite digit_val_is.
  destruct (ascii_dec "-" "-"); [|congruence]. destruct r2; destruct (py_is_digit c2); reflexivity.
Qed.

Lemma parse_exp_tests : forall divs s, parse_exp divs s = parse_exp_t divs s.
Proof.
  intros divs s. unfold parse_exp, parse_exp_t. rewrite parse_tail, match_hat.
  destruct s as [|c r]; [reflexivity|]. cbn [py_str_drop].
  change "^" with (String "^"%char ""). rewrite (prefix_char "^"%char (String c r)), (Ascii.eqb_sym "^"%char c).
  destruct (Ascii.eqb c "^"); reflexivity.
Qed.

Section Agree.
Variable N : numops.
Variable M : qmodule.
Let T := qm_classes M.
Notation num := (num N).
Notation pyval := (pyval N).
Notation gval := (gval N).

(* the object of the generated code that a value of the model stands for *)
Definition conc (v : pyval) : gval :=
  match v with
  | VNamed c a u => GNamed c a u
  | VSI sg a => GSI a sg (si_unit_text sg)
  | VNum x => GNum x
  | VStr => GStrObj
  end.

Definition rmap {A B : Type} (f : A -> B) (r : result A) : result B :=
  match r with Val a => Val (f a) | Raise e => Raise e end.

(* the closed world of the model: quantity objects are instances of the module's classes,
   signatures have one entry per SI unit *)
Definition val_ok (v : pyval) : Prop :=
  match v with
  | VNamed c _ _ => exists q, get_class T c = Some q
  | VSI sg _ => List.length sg = 9%nat
  | _ => True
  end.

Definition res_ok (r : result pyval) : Prop := match r with Val v => val_ok v | Raise _ => True end.

Ltac index_names j x v Hx Hv sg :=
  change (0 + j)%nat with j; cbn [py_attr_sisig bind]; rewrite ?(py_index_nth _ sg j v Hv);
  change ["rad"; "sr"; "kg"; "m"; "s"; "A"; "K"; "mol"; "cd"] with si_names;
  rewrite ?(py_index_nth _ si_names j x Hx); cbn [bind].

(* SI.siunit *)
Theorem gen_SI_siunit_eq : forall (a : num) sg u d h t, List.length sg = 9%nat ->
  gen_SI_siunit N M (GSI a sg u) d h t = Val (siunit sg d h t).
Proof.
  intros a sg u d h t Hl. unfold gen_SI_siunit, siunit, siunit_with. cbv zeta.
  change (py_range 0 9) with (py_range_from (Z.of_nat 0) (List.length si_names)).
  rewrite (py_for_range_zip _ (fun x v st => Val (pstep h t (sel_num d) st x v)) _ si_names sg 0 (eq_sym Hl)).
  2:{ intros j x v st Hx Hv. index_names j x v Hx Hv sg. unfold pstep, sel_num, seg.
      destruct ((0 <? v)%Z || (v <? 0)%Z && negb d) eqn:C; [|reflexivity].
      rewrite (num_shown d v C), ?py_len_pos, py_str_of_int_zstr.
      destruct (String.eqb st ""), (v =? 1)%Z; cbn [bind negb]; rewrite ?sapp_assoc; reflexivity. }
  rewrite (pass_loop (sel_num d) h t si_names sg si_names_nonempty). cbn [bind].
  destruct d.
  - rewrite (py_for_range_zip _ (fun x v st => Val (pstep h t sel_den st x v)) _ si_names sg 0 (eq_sym Hl)).
    2:{ intros j x v st Hx Hv. index_names j x v Hx Hv sg. unfold pstep, sel_den, seg.
        destruct (v <? 0)%Z eqn:C; [|reflexivity].
        rewrite (den_shown v C), ?py_len_pos, py_str_of_int_zstr.
        destruct (String.eqb st ""), (- v =? 1)%Z; cbn [bind negb]; rewrite ?sapp_assoc; reflexivity. }
    rewrite (pass_loop sel_den h t si_names sg si_names_nonempty). cbn [bind].
    set (s := join_items h t (pass_items (sel_num true) si_names sg)).
    set (tt := join_items h t (pass_items sel_den si_names sg)).
    rewrite ?py_len_pos. rewrite <- slash_join. destruct (String.eqb tt ""); reflexivity.
  - reflexivity.
Qed.

Lemma siunit_text : forall (a : num) sg u, List.length sg = 9%nat ->
  gen_SI_siunit N M (GSI a sg u) true "" "." = Val (si_unit_text sg).
Proof. intros. apply gen_SI_siunit_eq. assumption. Qed.

Ltac psimp :=
  cbn [bind conc rmap py_type py_type_eqb py_is_number py_isinstance_Quantity py_isinstance_SI py_issubclass_Quantity
       py_float py_float_new py_val_times py_float_times py_float_over py_attr_unit py_attr_sisig py_set_unit py_set_sisig
       py_type_cls py_construct_type negb orb andb fst snd].

Lemma py_class_get : forall c, py_class M c = match get_class T c with Some q => Val q | None => Raise Unmodelled end.
Proof. reflexivity. Qed.

Lemma py_truediv_checked : forall a b : num, py_truediv N a b = checked_div N a b.
Proof. reflexivity. Qed.

Lemma py_units_get_factor : forall q u, py_units_get N (qc_units q) u = class_factor N q u.
Proof. reflexivity. Qed.

(* ---------- displayvalue, __str__ ---------- *)
Theorem gen_Quantity_displayvalue_eq : forall c (a : num) u,
  gen_Quantity_displayvalue N M (GNamed c a u) = displayvalue N M (VNamed c a u).
Proof.
  intros. unfold gen_Quantity_displayvalue, displayvalue, with_class, py_cls_units. cbv zeta. psimp.
  rewrite py_class_get. fold T. destruct (get_class T c) as [q|]; [|reflexivity]. psimp.
  rewrite py_units_get_factor. destruct (class_factor N q u); reflexivity.
Qed.

Theorem gen_SI_displayvalue_eq : forall (a : num) sg u,
  gen_SI_displayvalue N M (GSI a sg u) = displayvalue N M (VSI sg a).
Proof. reflexivity. Qed.

(* the text of str(q): str(displayvalue), a blank, the display spelling of the unit *)
Theorem gen_Quantity___str___eq : forall c (a : num) u,
  gen_Quantity___str__ N M (GNamed c a u) =
  match displayvalue N M (VNamed c a u) with
  | Raise e => Raise e
  | Val d => rmap (fun s => [PNum d; PStr " "; PStr s]) (str_suffix N M (VNamed c a u))
  end.
Proof.
  intros. unfold gen_Quantity___str__. cbv zeta. rewrite gen_Quantity_displayvalue_eq.
  unfold str_suffix. destruct (displayvalue N M (VNamed c a u)) as [d|e] eqn:D; [|reflexivity]. psimp.
  unfold py_cls_displayunits, with_class. rewrite py_class_get. fold T.
  destruct (get_class T c) as [q|]; [|reflexivity]. psimp.
  unfold py_display_get, display_of. destruct (glookup u (qc_display q)) as [[s0|r]|]; reflexivity.
Qed.

Theorem gen_SI___str___eq : forall (a : num) sg u,
  gen_SI___str__ N M (GSI a sg u) = Val [PNum a; PStr " "; PStr u].
Proof. reflexivity. Qed.

(* str(x) evaluated for its effect *)
Definition str_effect (v : pyval) : result unit :=
  match v with
  | VNamed _ _ _ => match str_suffix N M v with Val _ => Val tt | Raise e => Raise e end
  | _ => Val tt
  end.

Lemma dyn_str_effect_eq : forall v, dyn_str_effect N M (conc v) = str_effect v.
Proof.
  intros [c a u|sg a|x|]; try reflexivity.
  unfold dyn_str_effect, str_effect. cbv zeta. psimp. rewrite gen_Quantity___str___eq.
  unfold str_suffix. destruct (displayvalue N M (VNamed c a u)); [|reflexivity].
  destruct (with_class _ _ _); reflexivity.
Qed.

Lemma refuse_effect : forall v, is_quantity N v = true ->
  (do _ <- str_effect v; Raise ValueError) = rmap conc (refuse_after_formatting N M v).
Proof.
  intros [c a u|sg a|x|] H; try discriminate; unfold str_effect, refuse_after_formatting.
  - destruct (str_suffix N M (VNamed c a u)); reflexivity.
  - reflexivity.
Qed.

(* ---------- cls(value, unit): Quantity.__new__ + __init__ ---------- *)
(* constructing a quantity FROM a quantity / SI value is outside the model *)
Theorem gen_Quantity_construct_eq : forall c (v : pyval) unit, is_quantity N v = false ->
  gen_Quantity_construct N M c (conc v) unit = rmap conc (mk N M c v unit).
Proof.
  intros c v unit Hv.
  unfold gen_Quantity_construct, gen_Quantity___new__, gen_Quantity___init__, mk, with_class,
    py_cls_units, py_cls_baseunit, base_unit. cbv zeta.
  rewrite !py_class_get. fold T. destruct (get_class T c) as [q|] eqn:E; [|destruct unit; reflexivity].
  destruct unit as [u|]; psimp.
  - unfold py_str_in. destruct (gmem u (qc_units q)); psimp; [|reflexivity].
    destruct v as [c2 a2 u2|sg a2|x|]; try discriminate; psimp; [|reflexivity].
    rewrite py_units_get_factor. destruct (class_factor N q u); reflexivity.
  - destruct (qc_base q) as [b|r] eqn:B; psimp; [|reflexivity].
    rewrite py_units_get_factor. destruct (class_factor N q b) as [f|e]; psimp; [|reflexivity].
    destruct v as [c2 a2 u2|sg a2|x|]; try discriminate; psimp; [|reflexivity].
    rewrite py_class_get. fold T. rewrite E. psimp. rewrite B. reflexivity.
Qed.

Lemma mk_num_none_shape : forall c x r, mk N M c (VNum x) None = Val r -> exists y b, r = VNamed c y b.
Proof.
  intros c x r. unfold mk, with_class. destruct (get_class (qm_classes M) c) as [q|]; [|discriminate].
  destruct (base_unit q) as [b|]; [|discriminate]. destruct (class_factor N q b) as [f|]; [|discriminate].
  intros H. inversion H. eauto.
Qed.

(* self._val(si) *)
Theorem gen_Quantity__val_eq : forall c (a x : num) u,
  gen_Quantity__val N M (GNamed c a u) x = rmap conc (q_val N M c x u).
Proof.
  intros. unfold gen_Quantity__val, q_val. cbv zeta. psimp.
  change (GNum x) with (conc (VNum x)). rewrite gen_Quantity_construct_eq by reflexivity.
  destruct (mk N M c (VNum x) None) as [r|e] eqn:E; [|reflexivity].
  destruct (mk_num_none_shape _ _ _ E) as (y & b & ->). reflexivity.
Qed.

(* ---------- SI(value, unit) ---------- *)
Theorem gen_SI___new___eq : forall (v : pyval) (u : string), is_quantity N v = false ->
  gen_SI___new__ N M (conc v) u = match v with VNum x => Val x | _ => Raise ValueError end.
Proof. intros [c a u0|sg a|x|] u H; try discriminate; reflexivity. Qed.

(* SI(x): the constructor as the methods call it (no unit text) *)
Lemma gen_SI_construct_plain : forall x : num,
  gen_SI_construct N M (GNum x) "" = Val (conc (VSI sig0 x)).
Proof.
  intros. unfold gen_SI_construct, gen_SI___new__, gen_SI___init__. cbv zeta. psimp.
  change (String.eqb "" "") with true. cbv iota. psimp.
  rewrite siunit_text by reflexivity. reflexivity.
Qed.

Theorem gen_SI__val_eq : forall sg (a x : num),
  gen_SI__val N M (conc (VSI sg a)) x = Val (conc (VSI sg x)).
Proof.
  intros. unfold gen_SI__val. cbv zeta. rewrite gen_SI_construct_plain. reflexivity.
Qed.

(* ---------- Quantity.sisig(): the nine positions read out of _sidict ---------- *)
Local Open Scope list_scope.
Definition sidict_ints (d : list (gstr * gint)) : Prop := forall k g, glookup k d = Some g -> exists z, g = GInt z.
Definition sig_at (d : list (gstr * gint)) (u : string) : Z :=
  match glookup u d with Some (GInt v) => v | _ => 0%Z end.

Lemma py_list_set_app : forall pre x tail v,
  py_list_set (pre ++ x :: tail) (Z.of_nat (List.length pre)) v = Val (pre ++ v :: tail).
Proof.
  intros. unfold py_list_set. destruct (Z.of_nat (List.length pre) <? 0)%Z eqn:E; [apply Z.ltb_lt in E; lia|].
  rewrite Nat2Z.id. clear E. induction pre as [|p pre IH]; simpl; [reflexivity|].
  destruct (py_list_set_nat (pre ++ x :: tail) (List.length pre) v) as [l|]; [|discriminate].
  inversion IH. reflexivity.
Qed.

Lemma py_index_app : forall A (pre : list A) x tail, py_index (pre ++ x :: tail) (Z.of_nat (List.length pre)) = Val x.
Proof.
  intros. apply py_index_nth. rewrite nth_error_app2 by lia. rewrite Nat.sub_diag. reflexivity.
Qed.

(* a loop over range(k, k + n) that reads names[i] : the body sees the name and the index *)
Fixpoint py_fold_idx {St : Type} (names : list string) (k : nat) (g : string -> nat -> St -> result St) (st : St) : result St :=
  match names with
  | [] => Val st
  | u :: r => do st' <- g u k st; py_fold_idx r (S k) g st'
  end.

Lemma py_for_range_names : forall (St : Type) (g : string -> nat -> St -> result St) (body : Z -> St -> result St)
  (names : list string) k,
  (forall j u st, nth_error names j = Some u -> body (Z.of_nat (k + j)) st = g u (k + j)%nat st) ->
  forall st, py_for (py_range_from (Z.of_nat k) (List.length names)) body st = py_fold_idx names k g st.
Proof.
  induction names as [|u names IH]; intros k Hb st; [reflexivity|]. simpl.
  pose proof (Hb 0%nat u st eq_refl) as H0. rewrite Nat.add_0_r in H0. rewrite H0.
  destruct (g u k st) as [st'|e]; simpl; [|reflexivity].
  replace (Z.of_nat k + 1)%Z with (Z.of_nat (S k)) by lia.
  apply IH. intros j u' st'' Hu. replace (S k + j)%nat with (k + S j)%nat by lia. apply Hb; assumption.
Qed.

Definition sisig_step (d : list (gstr * gint)) (u : string) (k : nat) (ret : list Z) : result (list Z) :=
  if gmem u d then py_list_set ret (Z.of_nat k) (sig_at d u) else Val ret.

Lemma sisig_fold : forall d names pre tail,
  List.length tail = List.length names -> Forall (eq 0%Z) tail ->
  py_fold_idx names (List.length pre) (sisig_step d) (pre ++ tail) = Val (pre ++ map (sig_at d) names).
Proof.
  intros d. induction names as [|u names IH]; intros pre tail Ht Hz.
  - destruct tail; [reflexivity|discriminate].
  - destruct tail as [|z tail]; [discriminate|]. inversion Hz as [|? ? Hz0 Hz1]; subst.
    cbn [py_fold_idx map].
    assert (Hstep : sisig_step d u (List.length pre) (pre ++ 0%Z :: tail) = Val ((pre ++ [sig_at d u]) ++ tail)).
    { unfold sisig_step. destruct (gmem u d) eqn:G.
      - rewrite py_list_set_app, <- app_assoc. reflexivity.
      - unfold sig_at. unfold gmem in G. destruct (glookup u d); [discriminate|]. rewrite <- app_assoc. reflexivity. }
    rewrite Hstep. cbn [bind].
    replace (S (List.length pre)) with (List.length (pre ++ [sig_at d u])) by (rewrite app_length; simpl; lia).
    replace (pre ++ sig_at d u :: map (sig_at d) names) with ((pre ++ [sig_at d u]) ++ map (sig_at d) names)
      by (rewrite <- app_assoc; reflexivity).
    apply IH; [simpl in Ht; lia|assumption].
Qed.

Hypothesis Hsidict : sidict_wf T = true.

Lemma glookup_in : forall V k (d : list (gstr * V)) v, glookup k d = Some v -> In (GStr k, v) d.
Proof.
  induction d as [|[g w] d IH]; simpl; intros v H; [discriminate|].
  destruct g as [s0|r]; simpl in H.
  - destruct (String.eqb k s0) eqn:E; [apply String.eqb_eq in E; subst; inversion H; left; reflexivity|right; auto].
  - right; auto.
Qed.

Lemma class_sidict_ints : forall c q, get_class T c = Some q -> sidict_ints (qc_sidict q).
Proof.
  intros c q Hc k g Hg. unfold sidict_wf in Hsidict. apply andb_prop in Hsidict. destruct Hsidict as [H1 _].
  apply is_nil_true in H1. pose proof (offenders_nil_in _ _ _ _ H1 c q Hc _ (glookup_in _ _ _ _ Hg)) as Hok.
  simpl in Hok. destruct g; [eauto|discriminate].
Qed.

Theorem gen_Quantity_sisig_eq : forall c, gen_Quantity_sisig N M c = class_sig_of M c.
Proof.
  intros c. unfold gen_Quantity_sisig, class_sig_of, with_class, py_cls_sidict. cbv zeta.
  rewrite py_class_get. fold T. destruct (get_class T c) as [q|] eqn:E; [|reflexivity]. cbn [bind].
  change (py_range 0 9) with (py_range_from (Z.of_nat 0) (List.length si_names)).
  rewrite (py_for_range_names _ (sisig_step (qc_sidict q)) _ si_names 0).
  2:{ intros j u ret Hu. change (0 + j)%nat with j.
      change ["rad"; "sr"; "kg"; "m"; "s"; "A"; "K"; "mol"; "cd"] with si_names.
      rewrite (py_index_nth _ si_names j u Hu). cbn [bind].
      unfold sisig_step, py_str_in, gmem, py_sidict_get, sig_at.
      destruct (glookup u (qc_sidict q)) as [g|] eqn:G; [|reflexivity].
      destruct (class_sidict_ints c q E _ _ G) as [v ->]. reflexivity. }
  pose proof (sisig_fold (qc_sidict q) si_names [] [0;0;0;0;0;0;0;0;0]%Z eq_refl) as F.
  cbn [app List.length] in F. rewrite F; [reflexivity|repeat constructor].
Qed.

Lemma class_sig_length : forall c s, class_sig_of M c = Val s -> List.length s = 9%nat.
Proof.
  intros c s. unfold class_sig_of, with_class. destruct (get_class (qm_classes M) c); [|discriminate].
  intros H. inversion H. reflexivity.
Qed.

(* ---------- asSI, sisig ---------- *)
Theorem gen_Quantity_asSI_eq : forall c (a : num) u,
  gen_Quantity_asSI N M (GNamed c a u) = rmap conc (as_si N M c a).
Proof.
  intros. unfold gen_Quantity_asSI, as_si. cbv zeta. psimp. rewrite gen_SI_construct_plain. psimp.
  rewrite gen_Quantity_sisig_eq. destruct (class_sig_of M c) as [s|e] eqn:E; [|reflexivity]. psimp.
  rewrite siunit_text by (eapply class_sig_length; eauto). reflexivity.
Qed.

Lemma dyn_asSI_eq : forall v, dyn_asSI N M (conc v) =
  match v with VNamed c a _ => rmap conc (as_si N M c a) | _ => Raise AttributeError end.
Proof. intros [c a u|sg a|x|]; try reflexivity. apply gen_Quantity_asSI_eq. Qed.

Lemma dyn_asSI_named : forall c (a : num) u, dyn_asSI N M (GNamed c a u) = rmap conc (as_si N M c a).
Proof. intros. apply gen_Quantity_asSI_eq. Qed.

Theorem gen_SI_sisig_eq : forall sg (a : num), gen_SI_sisig N M (conc (VSI sg a)) = Val sg.
Proof. reflexivity. Qed.

Lemma dyn_sisig_eq : forall v, dyn_sisig N M (conc v) =
  match v with VNamed c _ _ => class_sig_of M c | VSI sg _ => Val sg | _ => Raise AttributeError end.
Proof. intros [c a u|sg a|x|]; try reflexivity. apply gen_Quantity_sisig_eq. Qed.

Lemma sig_zip_length : forall f a b, List.length a = 9%nat -> List.length b = 9%nat -> List.length (sig_zip f a b) = 9%nat.
Proof.
  intros f a b Ha Hb.
  do 10 (destruct a as [|? a]; try discriminate). do 10 (destruct b as [|? b]; try discriminate). reflexivity.
Qed.

Lemma dyn_sisig_named : forall c (a : num) u, dyn_sisig N M (GNamed c a u) = class_sig_of M c.
Proof. intros. apply gen_Quantity_sisig_eq. Qed.
Lemma dyn_sisig_si : forall (a : num) sg u, dyn_sisig N M (GSI a sg u) = Val sg.
Proof. reflexivity. Qed.

(* ---------- SI.__mul__ / SI.__truediv__ ---------- *)
Theorem gen_SI___mul___eq : forall sg (a : num) other, List.length sg = 9%nat -> val_ok other ->
  gen_SI___mul__ N M (conc (VSI sg a)) (conc other) = rmap conc (si_mul N M sg a other).
Proof.
  intros sg a other Hs Ho. unfold gen_SI___mul__, gen_SI_sisig, si_mul. cbv zeta.
  destruct other as [c2 b u2|sg2 b|x|]; psimp.
  - rewrite gen_SI_construct_plain, dyn_sisig_named. psimp.
    destruct (class_sig_of M c2) as [s2|e] eqn:E; [|reflexivity]. psimp.
    rewrite py_map2_zip. rewrite siunit_text by (apply sig_zip_length; [assumption|eapply class_sig_length; eauto]).
    reflexivity.
  - rewrite gen_SI_construct_plain, dyn_sisig_si. psimp. rewrite py_map2_zip.
    rewrite siunit_text by (apply sig_zip_length; assumption). reflexivity.
  - change (GSI a sg (si_unit_text sg)) with (conc (VSI sg a)). rewrite gen_SI__val_eq. reflexivity.
  - reflexivity.
Qed.

Theorem gen_SI___truediv___eq : forall sg (a : num) other, List.length sg = 9%nat -> val_ok other ->
  gen_SI___truediv__ N M (conc (VSI sg a)) (conc other) = rmap conc (si_div N M sg a other).
Proof.
  intros sg a other Hs Ho. unfold gen_SI___truediv__, gen_SI_sisig, si_div. cbv zeta.
  destruct other as [c2 b u2|sg2 b|x|]; psimp.
  - destruct Ho as [q2 Hq2]. assert (E : class_sig_of M c2 = Val (cls_sig q2))
      by (unfold class_sig_of, with_class; fold T; rewrite Hq2; reflexivity).
    rewrite E, py_truediv_checked. destruct (checked_div N a b) as [y|e]; [|reflexivity]. psimp.
    rewrite gen_SI_construct_plain, dyn_sisig_named, E. psimp.
    rewrite py_map2_zip. rewrite siunit_text by (apply sig_zip_length; [assumption|reflexivity]).
    reflexivity.
  - rewrite py_truediv_checked. destruct (checked_div N a b) as [y|e]; [|reflexivity]. psimp.
    rewrite gen_SI_construct_plain, dyn_sisig_si. psimp. rewrite py_map2_zip.
    rewrite siunit_text by (apply sig_zip_length; assumption). reflexivity.
  - rewrite py_truediv_checked. destruct (checked_div N a x) as [y|e]; [|reflexivity]. psimp.
    change (GSI a sg (si_unit_text sg)) with (conc (VSI sg a)). rewrite gen_SI__val_eq. reflexivity.
  - reflexivity.
Qed.

(* ---------- Quantity.__mul__ / Quantity.__truediv__ ---------- *)
Lemma py_cls_mul_get : forall c q, get_class T c = Some q -> py_cls_mul M c = Val (qc_mul q).
Proof. intros c q H. unfold py_cls_mul. rewrite py_class_get. fold T. rewrite H. reflexivity. Qed.
Lemma py_cls_div_get : forall c q, get_class T c = Some q -> py_cls_div M c = Val (qc_div q).
Proof. intros c q H. unfold py_cls_div. rewrite py_class_get. fold T. rewrite H. reflexivity. Qed.

Lemma class_sig_get : forall c q, get_class T c = Some q -> class_sig_of M c = Val (cls_sig q).
Proof. intros c q H. unfold class_sig_of, with_class. fold T. rewrite H. reflexivity. Qed.

(* newclass(x, newclass._baseunit) *)
Lemma construct_base : forall r (x : num),
  (do t13_ <- (do t11_ <- py_cls_baseunit M r; Val (Some t11_));
   gen_Quantity_construct N M r (GNum x) t13_) = rmap conc (mk_base N M r x).
Proof.
  intros. unfold mk_base, with_class, py_cls_baseunit, base_unit. rewrite py_class_get. fold T.
  destruct (get_class T r) as [q|]; [|reflexivity]. psimp. destruct (qc_base q) as [b|]; [|reflexivity]. psimp.
  change (GNum x) with (conc (VNum x)). apply gen_Quantity_construct_eq. reflexivity.
Qed.

Theorem gen_Quantity___mul___eq : forall c q (a : num) u other, get_class T c = Some q -> val_ok other ->
  gen_Quantity___mul__ N M (GNamed c a u) (conc other) = rmap conc (q_mul N M c a u other).
Proof.
  intros c q a u other Hc Ho. unfold gen_Quantity___mul__, q_mul, with_class. cbv zeta. fold T. rewrite Hc.
  destruct other as [c2 b u2|sg2 b|x|]; psimp; rewrite ?(py_cls_mul_get c q Hc); psimp.
  - unfold py_clsdict_get, py_type_in. destruct (clookup c2 (qc_mul q)) as [[r|bad]|] eqn:L; psimp.
    + apply construct_base.
    + reflexivity.
    + rewrite gen_Quantity_asSI_eq. unfold as_si. rewrite (class_sig_get c q Hc). psimp.
      rewrite dyn_asSI_named. unfold as_si, si_mul.
      destruct (class_sig_of M c2) as [s2|e] eqn:E; [|reflexivity]. psimp.
      change (GSI a (cls_sig q) (si_unit_text (cls_sig q))) with (conc (VSI (cls_sig q) a)).
      change (GSI b s2 (si_unit_text s2)) with (conc (VSI s2 b)).
      rewrite gen_SI___mul___eq; [reflexivity|reflexivity|eapply class_sig_length; eauto].
  - rewrite gen_Quantity_asSI_eq. unfold as_si. rewrite (class_sig_get c q Hc). psimp.
    change (GSI a (cls_sig q) (si_unit_text (cls_sig q))) with (conc (VSI (cls_sig q) a)).
    change (GSI b sg2 (si_unit_text sg2)) with (conc (VSI sg2 b)).
    apply gen_SI___mul___eq; [reflexivity|assumption].
  - apply gen_Quantity__val_eq.
  - change (GNamed c a u) with (conc (VNamed c a u)). rewrite dyn_str_effect_eq.
    change GStrObj with (conc (@VStr N)). rewrite dyn_str_effect_eq.
    rewrite <- (refuse_effect (VNamed c a u)) by reflexivity.
    destruct (str_effect (VNamed c a u)); reflexivity.
Qed.

Theorem gen_Quantity___truediv___eq : forall c q (a : num) u other, get_class T c = Some q -> val_ok other ->
  gen_Quantity___truediv__ N M (GNamed c a u) (conc other) = rmap conc (q_div N M c a u other).
Proof.
  intros c q a u other Hc Ho. unfold gen_Quantity___truediv__, q_div, with_class. cbv zeta. fold T. rewrite Hc.
  destruct other as [c2 b u2|sg2 b|x|]; psimp; rewrite ?(py_cls_div_get c q Hc); psimp.
  - unfold py_clsdict_get, py_type_in. destruct (clookup c2 (qc_div q)) as [[r|bad]|] eqn:L; psimp.
    + rewrite py_truediv_checked. destruct (checked_div N a b) as [y|e]; [|reflexivity]. psimp. apply construct_base.
    + reflexivity.
    + rewrite gen_Quantity_asSI_eq. unfold as_si. rewrite (class_sig_get c q Hc). psimp.
      rewrite dyn_asSI_named. unfold as_si, si_div.
      destruct (class_sig_of M c2) as [s2|e] eqn:E; [|reflexivity]. psimp.
      change (GSI a (cls_sig q) (si_unit_text (cls_sig q))) with (conc (VSI (cls_sig q) a)).
      change (GSI b s2 (si_unit_text s2)) with (conc (VSI s2 b)).
      rewrite gen_SI___truediv___eq; [reflexivity|reflexivity|eapply class_sig_length; eauto].
  - rewrite gen_Quantity_asSI_eq. unfold as_si. rewrite (class_sig_get c q Hc). psimp.
    change (GSI a (cls_sig q) (si_unit_text (cls_sig q))) with (conc (VSI (cls_sig q) a)).
    change (GSI b sg2 (si_unit_text sg2)) with (conc (VSI sg2 b)).
    apply gen_SI___truediv___eq; [reflexivity|assumption].
  - rewrite py_truediv_checked. destruct (checked_div N a x) as [y|e]; [|reflexivity]. psimp. apply gen_Quantity__val_eq.
  - change (GNamed c a u) with (conc (VNamed c a u)). rewrite dyn_str_effect_eq.
    change GStrObj with (conc (@VStr N)). rewrite dyn_str_effect_eq.
    rewrite <- (refuse_effect (VNamed c a u)) by reflexivity.
    destruct (str_effect (VNamed c a u)); reflexivity.
Qed.

Theorem gen_Quantity___rmul___eq : forall c q (a : num) u other, get_class T c = Some q -> val_ok other ->
  gen_Quantity___rmul__ N M (GNamed c a u) (conc other) = rmap conc (q_mul N M c a u other).
Proof. intros. unfold gen_Quantity___rmul__. cbv zeta. eapply gen_Quantity___mul___eq; eauto. Qed.

Theorem gen_SI___rmul___eq : forall sg (a : num) other, List.length sg = 9%nat -> val_ok other ->
  gen_SI___rmul__ N M (conc (VSI sg a)) (conc other) = rmap conc (si_mul N M sg a other).
Proof. intros. unfold gen_SI___rmul__. cbv zeta. apply gen_SI___mul___eq; assumption. Qed.

(* other / self with a left operand that is not a quantity: Dimensionless(other) / self for a number, refused otherwise *)
Definition rdiv_model (y x : pyval) : result pyval :=
  match x with
  | VNum v => match dimensionless_of N M v with
              | Val (VNamed dc da du) => q_div N M dc da du y
              | Val _ => Raise Unmodelled
              | Raise e => Raise e
              end
  | _ => refuse_after_formatting N M y
  end.

Lemma mk_none_class : forall c x r, mk N M c (VNum x) None = Val r -> exists q, get_class T c = Some q.
Proof. intros c x r. unfold mk, with_class. fold T. destruct (get_class T c); [eauto|discriminate]. Qed.

Lemma rdiv_number : forall (y : pyval) (v : num), val_ok y ->
  (do t2_ <- (do c1_ <- py_global_Dimensionless M; gen_Quantity_construct N M c1_ (GNum v) None);
   gen_Quantity___truediv__ N M t2_ (conc y)) = rmap conc (rdiv_model y (VNum v)).
Proof.
  intros y v Hy. unfold rdiv_model, dimensionless_of, py_global_Dimensionless.
  destruct (qm_dimensionless M) as [d|]; [|reflexivity]. psimp.
  change (GNum v) with (conc (VNum v)). rewrite gen_Quantity_construct_eq by reflexivity.
  destruct (mk N M d (VNum v) None) as [r|e] eqn:E; [|reflexivity].
  destruct (mk_num_none_shape _ _ _ E) as (x & b & ->). destruct (mk_none_class _ _ _ E) as [qd Hd]. psimp.
  eapply gen_Quantity___truediv___eq; eauto.
Qed.

Theorem gen_Quantity___rtruediv___eq : forall c q (a : num) u other, get_class T c = Some q -> is_quantity N other = false ->
  gen_Quantity___rtruediv__ N M (GNamed c a u) (conc other) = rmap conc (rdiv_model (VNamed c a u) other).
Proof.
  intros c q a u other Hc Ho. unfold gen_Quantity___rtruediv__. cbv zeta.
  destruct other as [c2 b u2|sg2 b|x|]; try discriminate; psimp.
  - change (GNamed c a u) with (conc (VNamed c a u)). apply rdiv_number. simpl. eauto.
  - change (GNamed c a u) with (conc (VNamed c a u)). rewrite dyn_str_effect_eq.
    change GStrObj with (conc (@VStr N)). rewrite dyn_str_effect_eq. cbn [str_effect bind rdiv_model].
    apply (refuse_effect (VNamed c a u)). reflexivity.
Qed.

Theorem gen_SI___rtruediv___eq : forall sg (a : num) other, List.length sg = 9%nat -> is_quantity N other = false ->
  gen_SI___rtruediv__ N M (conc (VSI sg a)) (conc other) = rmap conc (rdiv_model (VSI sg a) other).
Proof.
  intros sg a other Hs Ho. unfold gen_SI___rtruediv__. cbv zeta.
  destruct other as [c2 b u2|sg2 b|x|]; try discriminate; psimp.
  - change (GSI a sg (si_unit_text sg)) with (conc (VSI sg a)). apply rdiv_number. exact Hs.
  - reflexivity.
Qed.

(* ---------- + and - ---------- *)
Theorem gen_Quantity___add___eq : forall c (a : num) u other,
  gen_Quantity___add__ N M (GNamed c a u) (conc other) = rmap conc (q_addsub N M (fadd N) c a u other).
Proof.
  intros. unfold gen_Quantity___add__, q_addsub. cbv zeta.
  destruct other as [c2 b u2|sg2 b|x|]; psimp; try reflexivity.
  destruct (Nat.eqb c c2); psimp; [apply gen_Quantity__val_eq|reflexivity].
Qed.

Theorem gen_Quantity___sub___eq : forall c (a : num) u other,
  gen_Quantity___sub__ N M (GNamed c a u) (conc other) = rmap conc (q_addsub N M (fsub N) c a u other).
Proof.
  intros. unfold gen_Quantity___sub__, q_addsub. cbv zeta.
  destruct other as [c2 b u2|sg2 b|x|]; psimp; try reflexivity.
  destruct (Nat.eqb c c2); psimp; [apply gen_Quantity__val_eq|reflexivity].
Qed.

Theorem gen_Quantity___radd___eq : forall c (a : num) u other,
  gen_Quantity___radd__ N M (GNamed c a u) (conc other) = rmap conc (q_addsub N M (fadd N) c a u other).
Proof. intros. unfold gen_Quantity___radd__. cbv zeta. apply gen_Quantity___add___eq. Qed.

(* the signature guard of SI.__add__ / SI.__sub__ is part of the statement: [si_addsub] refuses another signature *)
Theorem gen_SI___add___eq : forall sg (a : num) other,
  gen_SI___add__ N M (conc (VSI sg a)) (conc other) = rmap conc (si_addsub N (fadd N) sg a other).
Proof.
  intros. unfold gen_SI___add__, si_addsub. cbv zeta.
  destruct other as [c2 b u2|sg2 b|x|]; psimp; try reflexivity.
  rewrite py_list_eqb_sig. destruct (sig_eqb sg sg2); psimp; [|reflexivity].
  change (GSI a sg (si_unit_text sg)) with (conc (VSI sg a)). rewrite gen_SI__val_eq. reflexivity.
Qed.

Theorem gen_SI___sub___eq : forall sg (a : num) other,
  gen_SI___sub__ N M (conc (VSI sg a)) (conc other) = rmap conc (si_addsub N (fsub N) sg a other).
Proof.
  intros. unfold gen_SI___sub__, si_addsub. cbv zeta.
  destruct other as [c2 b u2|sg2 b|x|]; psimp; try reflexivity.
  rewrite py_list_eqb_sig. destruct (sig_eqb sg sg2); psimp; [|reflexivity].
  change (GSI a sg (si_unit_text sg)) with (conc (VSI sg a)). rewrite gen_SI__val_eq. reflexivity.
Qed.

Theorem gen_SI___radd___eq : forall sg (a : num) other,
  gen_SI___radd__ N M (conc (VSI sg a)) (conc other) = rmap conc (si_addsub N (fadd N) sg a other).
Proof. intros. unfold gen_SI___radd__. cbv zeta. apply gen_SI___add___eq. Qed.

(* ---------- unary operators ---------- *)
Theorem gen_Quantity___neg___eq : forall c (a : num) u,
  gen_Quantity___neg__ N M (GNamed c a u) = rmap conc (q_val N M c (fneg N a) u).
Proof. intros. unfold gen_Quantity___neg__. cbv zeta. psimp. apply gen_Quantity__val_eq. Qed.

Theorem gen_Quantity___abs___eq : forall c (a : num) u,
  gen_Quantity___abs__ N M (GNamed c a u) = rmap conc (q_val N M c (fabs N a) u).
Proof. intros. unfold gen_Quantity___abs__. cbv zeta. psimp. apply gen_Quantity__val_eq. Qed.

Theorem gen_Quantity___pos___eq : forall v : pyval, gen_Quantity___pos__ N M (conc v) = Val (conc v).
Proof. reflexivity. Qed.

Theorem gen_SI___neg___eq : forall sg (a : num),
  gen_SI___neg__ N M (conc (VSI sg a)) = Val (conc (VSI sg (fneg N a))).
Proof. intros. unfold gen_SI___neg__. cbv zeta. psimp. apply (gen_SI__val_eq sg a). Qed.

Theorem gen_SI___abs___eq : forall sg (a : num),
  gen_SI___abs__ N M (conc (VSI sg a)) = Val (conc (VSI sg (fabs N a))).
Proof. intros. unfold gen_SI___abs__. cbv zeta. psimp. apply (gen_SI__val_eq sg a). Qed.

Theorem gen_SI___pos___eq : forall v : pyval, gen_SI___pos__ N M (conc v) = Val (conc v).
Proof. reflexivity. Qed.

(* other.__neg__() on an object of any class *)
Lemma dyn___neg___eq : forall v, dyn___neg__ N M (conc v) =
  match v with
  | VNamed c a u => rmap conc (q_val N M c (fneg N a) u)
  | VSI sg a => Val (conc (VSI sg (fneg N a)))
  | VNum x => Val (conc (VNum (fneg N x)))
  | VStr => Raise AttributeError
  end.
Proof.
  intros [c a u|sg a|x|]; try reflexivity. apply gen_Quantity___neg___eq.
Qed.

(* other - self with a left operand that is not a quantity *)
Theorem gen_Quantity___rsub___eq : forall c (a : num) u other, is_quantity N other = false ->
  gen_Quantity___rsub__ N M (GNamed c a u) (conc other) =
  match other with
  | VNum v => rmap conc (q_addsub N M (fadd N) c a u (VNum (fneg N v)))
  | _ => Raise AttributeError
  end.
Proof.
  intros c a u other Ho. unfold gen_Quantity___rsub__. cbv zeta. rewrite dyn___neg___eq.
  destruct other as [c2 b u2|sg2 b|x|]; try discriminate; psimp; [|reflexivity].
  change (GNum (fneg N x)) with (conc (VNum (fneg N x))). apply gen_Quantity___add___eq.
Qed.

Theorem gen_SI___rsub___eq : forall sg (a : num) other, is_quantity N other = false ->
  gen_SI___rsub__ N M (conc (VSI sg a)) (conc other) =
  match other with
  | VNum v => rmap conc (si_addsub N (fadd N) sg a (VNum (fneg N v)))
  | _ => Raise AttributeError
  end.
Proof.
  intros sg a other Ho. unfold gen_SI___rsub__. cbv zeta. rewrite dyn___neg___eq.
  destruct other as [c2 b u2|sg2 b|x|]; try discriminate; psimp; [|reflexivity].
  change (GNum (fneg N x)) with (conc (VNum (fneg N x))). apply gen_SI___add___eq.
Qed.

(* ---------- comparisons ---------- *)
Ltac q_cmp_proof :=
  intros c a u other; cbv zeta;
  destruct other as [c2 b u2|sg2 b|x|]; psimp; try reflexivity;
  destruct (Nat.eqb c c2); reflexivity.

Theorem gen_Quantity___eq___eq : forall c (a : num) (u : string) other,
  gen_Quantity___eq__ N M (GNamed c a u) (conc other) = q_cmp N CEq c a other.
Proof. unfold gen_Quantity___eq__, q_cmp. q_cmp_proof. Qed.
Theorem gen_Quantity___ne___eq : forall c (a : num) (u : string) other,
  gen_Quantity___ne__ N M (GNamed c a u) (conc other) = q_cmp N CNe c a other.
Proof. unfold gen_Quantity___ne__, q_cmp. q_cmp_proof. Qed.
Theorem gen_Quantity___lt___eq : forall c (a : num) (u : string) other,
  gen_Quantity___lt__ N M (GNamed c a u) (conc other) = q_cmp N CLt c a other.
Proof. unfold gen_Quantity___lt__, q_cmp. q_cmp_proof. Qed.
Theorem gen_Quantity___le___eq : forall c (a : num) (u : string) other,
  gen_Quantity___le__ N M (GNamed c a u) (conc other) = q_cmp N CLe c a other.
Proof. unfold gen_Quantity___le__, q_cmp. q_cmp_proof. Qed.
Theorem gen_Quantity___gt___eq : forall c (a : num) (u : string) other,
  gen_Quantity___gt__ N M (GNamed c a u) (conc other) = q_cmp N CGt c a other.
Proof. unfold gen_Quantity___gt__, q_cmp. q_cmp_proof. Qed.
Theorem gen_Quantity___ge___eq : forall c (a : num) (u : string) other,
  gen_Quantity___ge__ N M (GNamed c a u) (conc other) = q_cmp N CGe c a other.
Proof. unfold gen_Quantity___ge__, q_cmp. q_cmp_proof. Qed.

Ltac si_cmp_proof :=
  intros sg a other; cbv zeta;
  destruct other as [c2 b u2|sg2 b|x|]; psimp; try reflexivity;
  rewrite py_list_eqb_sig; destruct (sig_eqb sg sg2); reflexivity.

Theorem gen_SI___eq___eq : forall sg (a : num) other,
  gen_SI___eq__ N M (conc (VSI sg a)) (conc other) = si_cmp N CEq sg a other.
Proof. unfold gen_SI___eq__, si_cmp. si_cmp_proof. Qed.
Theorem gen_SI___ne___eq : forall sg (a : num) other,
  gen_SI___ne__ N M (conc (VSI sg a)) (conc other) = si_cmp N CNe sg a other.
Proof. unfold gen_SI___ne__, si_cmp. si_cmp_proof. Qed.
Theorem gen_SI___lt___eq : forall sg (a : num) other,
  gen_SI___lt__ N M (conc (VSI sg a)) (conc other) = si_cmp N CLt sg a other.
Proof. unfold gen_SI___lt__, si_cmp. si_cmp_proof. Qed.
Theorem gen_SI___le___eq : forall sg (a : num) other,
  gen_SI___le__ N M (conc (VSI sg a)) (conc other) = si_cmp N CLe sg a other.
Proof. unfold gen_SI___le__, si_cmp. si_cmp_proof. Qed.
Theorem gen_SI___gt___eq : forall sg (a : num) other,
  gen_SI___gt__ N M (conc (VSI sg a)) (conc other) = si_cmp N CGt sg a other.
Proof. unfold gen_SI___gt__, si_cmp. si_cmp_proof. Qed.
Theorem gen_SI___ge___eq : forall sg (a : num) other,
  gen_SI___ge__ N M (conc (VSI sg a)) (conc other) = si_cmp N CGe sg a other.
Proof. unfold gen_SI___ge__, si_cmp. si_cmp_proof. Qed.

(* ---------- as_unit, getters, as_quantity ---------- *)
Theorem gen_Quantity_as_unit_eq : forall c (a : num) u newunit,
  gen_Quantity_as_unit N M (GNamed c a u) newunit = rmap conc (as_unit N M (VNamed c a u) newunit).
Proof.
  intros. unfold gen_Quantity_as_unit, as_unit, with_class, py_cls_units, gen_Quantity_si. cbv zeta. psimp.
  rewrite py_class_get. fold T. destruct (get_class T c) as [q|]; [|reflexivity]. psimp.
  unfold py_str_in. destruct (gmem newunit (qc_units q)); psimp; [|reflexivity].
  change (GNum a) with (conc (VNum a)). rewrite gen_Quantity_construct_eq by reflexivity. unfold q_val.
  destruct (mk N M c (VNum a) None) as [r|e] eqn:E; [|reflexivity].
  destruct (mk_num_none_shape _ _ _ E) as (y & b & ->). reflexivity.
Qed.

Theorem gen_Quantity_si_eq : forall c (a : num) u, gen_Quantity_si N M (GNamed c a u) = Val a.
Proof. reflexivity. Qed.
Theorem gen_Quantity_unit_eq : forall c (a : num) u, gen_Quantity_unit N M (GNamed c a u) = Val u.
Proof. reflexivity. Qed.
Theorem gen_SI_si_eq : forall sg (a : num), gen_SI_si N M (conc (VSI sg a)) = Val a.
Proof. reflexivity. Qed.
Theorem gen_SI_unit_eq : forall sg (a : num), gen_SI_unit N M (conc (VSI sg a)) = Val (si_unit_text sg).
Proof. reflexivity. Qed.

(* the class handed to as_quantity: a quantity class of the module, or something else *)
Definition tconc (t : option nat) : pytype := match t with Some c => TNamed c | None => TOther end.

Theorem gen_SI_as_quantity_eq : forall sg (a : num) target,
  gen_SI_as_quantity N M (conc (VSI sg a)) (tconc target) = rmap conc (as_quantity N M (VSI sg a) target).
Proof.
  intros sg a [c|]; [|reflexivity]. unfold gen_SI_as_quantity, as_quantity, gen_SI_sisig, tconc. cbv zeta. psimp.
  rewrite gen_Quantity_sisig_eq. destruct (class_sig_of M c) as [s|e]; [|reflexivity]. psimp.
  rewrite py_list_eqb_sig. destruct (sig_eqb s sg); psimp; [|reflexivity]. apply construct_base.
Qed.

(* ---------- Quantity.siunit / sidict_to_unit ---------- *)
Lemma names_loop : forall sel h t (f : string -> Z) names st,
  py_for names (fun u st => Val (pstep h t sel st u (f u))) st
  = Val (fold_left (fun a p => pstep h t sel a (fst p) (snd p)) (combine names (map f names)) st).
Proof. induction names as [|u names IH]; intros st; simpl; [reflexivity|apply IH]. Qed.

Lemma sig_at_missing : forall d u, glookup u d = None -> sig_at d u = 0%Z.
Proof. intros d u H. unfold sig_at. rewrite H. reflexivity. Qed.

Theorem gen_Quantity_sidict_to_unit_eq : forall d dv h t, sidict_ints d ->
  gen_Quantity_sidict_to_unit N M d dv h t = Val (siunit_q (map (sig_at d) si_names) dv h t).
Proof.
  intros d dv h t Hd. unfold gen_Quantity_sidict_to_unit, siunit_q. cbv zeta.
  change ["rad"; "sr"; "kg"; "m"; "s"; "A"; "K"; "mol"; "cd"] with si_names.
  rewrite (py_for_ext _ _ _ (fun u st => Val (pstep h t (sel_num dv) st u (sig_at d u)))).
  2:{ intros u st. unfold py_str_in, gmem, py_sidict_get, pstep, sel_num, seg.
      destruct (glookup u d) as [g|] eqn:G.
      - destruct (Hd _ _ G) as [v Hv]. subst g. assert (S : sig_at d u = v) by (unfold sig_at; rewrite G; reflexivity).
        rewrite S. cbn [bind].
        destruct ((0 <? v)%Z || (v <? 0)%Z && negb dv) eqn:C; [|reflexivity].
        rewrite (num_shown dv v C), ?py_len_pos, py_str_of_int_zstr.
        destruct (String.eqb st ""), (v =? 1)%Z; cbn [bind negb]; rewrite ?sapp_assoc; reflexivity.
      - rewrite (sig_at_missing d u G). reflexivity. }
  rewrite names_loop, (pass_text h t (sel_num dv) si_names (map (sig_at d) si_names) si_names_nonempty). cbn [bind].
  set (s := join_items h t (pass_items (sel_num dv) si_names (map (sig_at d) si_names))).
  assert (Hfin : forall tt : string,
    (do s_ <- (if String.eqb s "" then Val "1" else Val s);
     if negb (String.eqb tt "") then Val (s_ ++ "/" ++ tt)%string else Val s_)
    = Val (let s0 := if String.eqb s "" then "1" else s in if String.eqb tt "" then s0 else (s0 ++ "/" ++ tt)%string)).
  { intros tt. destruct (String.eqb s ""); cbn [bind]; destruct tt; reflexivity. }
  rewrite ?py_len_zero, ?py_len_pos.
  destruct dv.
  - rewrite (py_for_ext _ _ _ (fun u st => Val (pstep h t sel_den st u (sig_at d u)))).
    2:{ intros u st. unfold py_str_in, gmem, py_sidict_get, pstep, sel_den, seg.
        destruct (glookup u d) as [g|] eqn:G.
        - destruct (Hd _ _ G) as [v Hv]. subst g. assert (S : sig_at d u = v) by (unfold sig_at; rewrite G; reflexivity).
          rewrite S. cbn [bind].
          destruct (v <? 0)%Z eqn:C; [|reflexivity].
          rewrite (den_shown v C), ?py_len_pos, py_str_of_int_zstr.
          destruct (String.eqb st ""), (- v =? 1)%Z; cbn [bind negb]; rewrite ?sapp_assoc; reflexivity.
        - rewrite (sig_at_missing d u G). reflexivity. }
    rewrite names_loop, (pass_text h t sel_den si_names (map (sig_at d) si_names) si_names_nonempty). cbn [bind].
    apply Hfin.
  - cbn [bind]. apply (Hfin "").
Qed.

Theorem gen_Quantity_siunit_eq : forall c dv h t,
  gen_Quantity_siunit N M c dv h t = rmap (fun s => siunit_q s dv h t) (class_sig_of M c).
Proof.
  intros. unfold gen_Quantity_siunit, py_cls_sidict, class_sig_of, with_class. cbv zeta.
  rewrite py_class_get. fold T. destruct (get_class T c) as [q|] eqn:E; [|reflexivity]. cbn [bind rmap].
  apply gen_Quantity_sidict_to_unit_eq. eapply class_sidict_ints; eauto.
Qed.

(* ====================================================================== *)
(* SI.str_to_sisig: the while loop is the two sweeps of [scan]              *)
(* ====================================================================== *)
Local Open Scope string_scope.
Definition pstate := (Z * Z * list Z * string)%type.
(* the loop state (the variables the body assigns, in alphabetical order: div, i, ret, s) *)
Definition mkst (s : string) (ret : list Z) (i divs : Z) : pstate := (divs, i, ret, s).
Definition pfinish (st : pstate) : result (list Z) :=
  let '(div_, i_, ret_, s_) := st in if negb (String.eqb s_ "") then Raise ValueError else Val ret_.

(* test and body of the generated loop, taken out of the generated definition itself *)
Definition parser_parts :
  { cb : (pstate -> bool) * (pstate -> result pstate) |
    forall s, gen_SI_str_to_sisig N M s = do st <- py_while 64 (fst cb) (snd cb) (mkst s sig0 0%Z 1%Z); pfinish st }.
Proof. eexists (_, _). intros s. unfold gen_SI_str_to_sisig. cbv zeta. cbn [fst snd]. reflexivity. Defined.
Definition ptest : pstate -> bool := fst (proj1_sig parser_parts).
Definition pbody : pstate -> result pstate := snd (proj1_sig parser_parts).

Lemma gen_parser_unfold : forall s,
  gen_SI_str_to_sisig N M s = do st <- py_while 64 ptest pbody (mkst s sig0 0%Z 1%Z); pfinish st.
Proof. exact (proj2_sig parser_parts). Qed.

Lemma ptest_eq : forall s ret i d, ptest (mkst s ret i d) = (i <? 9)%Z.
Proof. reflexivity. Qed.

(* what one iteration does at position |pre| (unit name u, entry r), in the words of the model *)
Definition slash_m (divs : Z) (pre ret' : list Z) (s' : string) (rr : Z) : result pstate :=
  if prefix "/" s' then (if (divs =? -1)%Z then Raise ValueError else Val (mkst (py_str_drop 1 s') ((pre ++ rr :: ret')%list) 0%Z (-1)%Z))
  else Val (mkst s' ((pre ++ rr :: ret')%list) (Z.of_nat (S (List.length pre))) divs).

Definition step_m (u : string) (pre : list Z) (r : Z) (ret' : list Z) (s : string) (divs : Z) : result pstate :=
  if prefix u s then
    if String.eqb u "m" && prefix "mol" s then Val (mkst s ((pre ++ r :: ret')%list) (Z.of_nat (S (List.length pre))) divs)
    else match parse_exp divs (py_str_drop (String.length u) s) with
         | None => Raise ValueError
         | Some (e, s2) => if negb (r =? 0)%Z then Raise ValueError
                           else slash_m divs pre ret' (match s2 with String "."%char q => q | _ => s2 end) e
         end
  else slash_m divs pre ret' s r.

Lemma strip_dot : forall s2 : string,
  match s2 with String "."%char q => q | _ => s2 end = if prefix "." s2 then py_str_drop 1 s2 else s2.
Proof.
  intros s2. rewrite match_dot. destruct s2 as [|c r]; [reflexivity|].
  change "." with (String "."%char ""). rewrite (prefix_char "."%char (String c r)), (Ascii.eqb_sym "."%char c). reflexivity.
Qed.

(* the atomic test inside a condition (so that deciding it decides every spelling of the condition) *)
Ltac test_atom c :=
  lazymatch c with
  | negb ?a => test_atom a
  | andb ?a _ => test_atom a
  | orb ?a _ => test_atom a
  | _ => constr:(c)
  end.

Ltac next_test t :=
  lazymatch t with
  | bind ?a _ => next_test a
  | (if ?c then _ else _) => test_atom c
  | py_int_of_str ?x => constr:(py_int_of_str x)
  end.

Lemma digit_int_contra : forall s e, py_match_digit (py_str_take 1 s) = true -> py_int_of_str (py_str_take 1 s) = Raise e -> False.
Proof. intros [|c r] e; simpl; [discriminate|]. intros ->. discriminate. Qed.

Lemma mol_not_slash : forall s, prefix "mol" s = true -> prefix "/" s = true -> False.
Proof.
  intros [|c r]; [discriminate|]. change "/" with (String "/"%char ""). rewrite prefix_char.
  change "mol" with (String "m"%char "ol"). cbn [prefix].
  destruct (ascii_dec "m" c) as [<-|]; intros H1 H2; discriminate.
Qed.

Lemma body_step : forall prenames u rest pre r ret' s divs,
  (prenames ++ u :: rest)%list = si_names -> List.length prenames = List.length pre ->
  pbody (mkst s ((pre ++ r :: ret')%list) (Z.of_nat (List.length pre)) divs) = step_m u pre r ret' s divs.
Proof.
  intros prenames u rest pre r ret' s divs Hn Hl.
  unfold pbody, parser_parts, mkst. cbn [proj1_sig snd].
  change ["rad"; "sr"; "kg"; "m"; "s"; "A"; "K"; "mol"; "cd"] with si_names. rewrite <- Hn.
  assert (IX : py_index (prenames ++ u :: rest)%list (Z.of_nat (List.length pre)) = Val u)
    by (rewrite <- Hl; apply py_index_app).
  rewrite IX. cbn [bind].
  unfold step_m, slash_m, mkst, py_startswith. rewrite parse_exp_tests. unfold parse_exp_t.
  (* follow the generated code: decide the test it evaluates next (the model evaluates the same tests) *)
  repeat (cbn [bind fst snd negb andb orb]; rewrite ?strip_dot, ?py_index_app, ?py_list_set_app;
          match goal with
          | |- ?l = _ => let c := next_test l in destruct c eqn:?
          | |- context [match py_int_of_str ?x with _ => _ end] => destruct (py_int_of_str x) eqn:?
          | |- context [if ?c then _ else _] => let a := test_atom c in destruct a eqn:?
          end); cbn [bind negb andb orb].
  all: try reflexivity.
  all: try (rewrite Nat2Z.inj_succ; unfold Z.succ; reflexivity).
  all: exfalso; first [eapply digit_int_contra; eassumption | eapply mol_not_slash; eassumption].
Qed.

Definition W (fuel : nat) (st : pstate) : result pstate := py_while fuel ptest pbody st.

Lemma W_step : forall prenames u rest pre r ret' s divs k,
  (prenames ++ u :: rest)%list = si_names -> List.length prenames = List.length pre ->
  W (S k) (mkst s ((pre ++ r :: ret')%list) (Z.of_nat (List.length pre)) divs)
  = do st' <- step_m u pre r ret' s divs; W k st'.
Proof.
  intros prenames u rest pre r ret' s divs k Hn Hl. unfold W. cbn [py_while]. rewrite ptest_eq.
  assert (Hlt : (Z.of_nat (List.length pre) <? 9)%Z = true).
  { apply Z.ltb_lt. rewrite <- Hl. apply (f_equal (@List.length string)) in Hn. rewrite app_length in Hn. simpl in Hn. lia. }
  rewrite Hlt, (body_step prenames u rest pre r ret' s divs Hn Hl). reflexivity.
Qed.

Lemma W_done : forall s ret divs k, W (S k) (mkst s ret 9%Z divs) = Val (mkst s ret 9%Z divs).
Proof. reflexivity. Qed.

Lemma scan_neg_no_slash : forall us ret s s' l, scan us ret s (-1) <> ScanSlash s' l.
Proof.
  induction us as [|u us IH]; intros ret s s' l; [destruct ret; discriminate|].
  destruct ret as [|r ret]; [discriminate|]. cbn [scan].
  assert (C : forall x t, cons_res x (scan us ret t (-1)) <> ScanSlash s' l).
  { intros x t. destruct (scan us ret t (-1)) eqn:E; cbn; try discriminate. exfalso. eapply IH; eauto. }
  change ((-1 =? -1)%Z) with true. cbv iota.
  destruct (prefix u s).
  - destruct (String.eqb u "m" && prefix "mol" s); [apply C|].
    destruct (parse_exp (-1) (sdrop (String.length u) s)) as [[e s2]|]; [|discriminate].
    destruct (negb (r =? 0)%Z); [discriminate|]. cbv zeta.
    match goal with |- (if ?c then _ else _) <> _ => destruct c end; [discriminate|apply C].
  - destruct (prefix "/" s); [discriminate|apply C].
Qed.

Lemma scan_length : forall us ret s divs,
  List.length ret = List.length us ->
  match scan us ret s divs with
  | ScanDone _ l | ScanSlash _ l => List.length l = List.length ret
  | ScanErr => True
  end.
Proof.
  induction us as [|u us IH]; intros ret s divs Hl.
  - destruct ret; [reflexivity|discriminate].
  - destruct ret as [|r ret]; [discriminate|]. cbn [scan]. simpl in Hl.
    assert (C : forall x t, match cons_res x (scan us ret t divs) with
                            | ScanDone _ l | ScanSlash _ l => List.length l = List.length (r :: ret)
                            | ScanErr => True end).
    { intros x t. pose proof (IH ret t divs ltac:(lia)) as H. destruct (scan us ret t divs); cbn; auto; simpl; lia. }
    destruct (prefix u s).
    + destruct (String.eqb u "m" && prefix "mol" s); [apply C|].
      destruct (parse_exp divs (sdrop (String.length u) s)) as [[e s2]|]; [|exact I].
      destruct (negb (r =? 0)%Z); [exact I|]. cbv zeta.
      match goal with |- match (if ?c then _ else _) with _ => _ end => destruct c end; [|apply C].
      destruct (divs =? -1)%Z; [exact I|reflexivity].
    + destruct (prefix "/" s); [|apply C]. destruct (divs =? -1)%Z; [exact I|reflexivity].
Qed.

Definition sweep_spec (n0 : nat) (pre : list Z) (st : pstate) (divs : Z) (res : scan_result) : Prop :=
  match res with
  | ScanDone s' l => forall fuel, W (n0 + fuel) st = W fuel (mkst s' ((pre ++ l)%list) 9%Z divs)
  | ScanSlash s' l => exists n, (1 <= n <= n0)%nat /\ forall fuel, W (n + fuel) st = W fuel (mkst s' ((pre ++ l)%list) 0%Z (-1)%Z)
  | ScanErr => exists n, (1 <= n <= n0)%nat /\ forall fuel, W (n + fuel) st = Raise ValueError
  end.

Lemma sweep_cons : forall x pre st st1 divs n0 res,
  (forall k, W (S k) st = W k st1) ->
  sweep_spec n0 (pre ++ [x])%list st1 divs res ->
  sweep_spec (S n0) pre st divs (cons_res x res).
Proof.
  intros x pre st st1 divs n0 res H1 Hs. destruct res as [s' l|s' l|]; cbn [cons_res sweep_spec] in *.
  - intros fuel. cbn [Nat.add]. rewrite H1, Hs, <- app_assoc. reflexivity.
  - destruct Hs as (n & Hn & Hf). exists (S n). split; [lia|]. intros fuel. cbn [Nat.add]. rewrite H1, Hf, <- app_assoc. reflexivity.
  - destruct Hs as (n & Hn & Hf). exists (S n). split; [lia|]. intros fuel. cbn [Nat.add]. rewrite H1, Hf. reflexivity.
Qed.

Lemma sweep : forall rest prenames pre ret' s divs,
  (prenames ++ rest)%list = si_names -> List.length prenames = List.length pre -> List.length ret' = List.length rest ->
  sweep_spec (List.length rest) pre (mkst s ((pre ++ ret')%list) (Z.of_nat (List.length pre)) divs) divs (scan rest ret' s divs).
Proof.
  induction rest as [|u rest IH]; intros prenames pre ret' s divs Hn Hl Hr.
  - destruct ret'; [|discriminate]. cbn [scan sweep_spec List.length Nat.add]. intros fuel.
    rewrite app_nil_r in Hn. subst prenames. rewrite <- Hl. reflexivity.
  - destruct ret' as [|r ret']; [discriminate|]. simpl in Hr.
    assert (Hn' : ((prenames ++ [u]) ++ rest)%list = si_names) by (rewrite <- app_assoc; exact Hn).
    assert (Hl' : forall x : Z, List.length (prenames ++ [u]) = List.length (pre ++ [x])) by (intros; rewrite !app_length; simpl; lia).
    (* the next position, entry x stored at this one *)
    assert (Next : forall x t, step_m u pre r ret' s divs = Val (mkst t ((pre ++ x :: ret')%list) (Z.of_nat (S (List.length pre))) divs) ->
              sweep_spec (S (List.length rest)) pre (mkst s ((pre ++ r :: ret')%list) (Z.of_nat (List.length pre)) divs) divs
                         (cons_res x (scan rest ret' t divs))).
    { intros x t Hstep. apply sweep_cons with (st1 := (mkst t (((pre ++ [x]) ++ ret')%list) (Z.of_nat (List.length (pre ++ [x]))) divs)).
      - intros k. rewrite (W_step prenames u rest pre r ret' s divs k Hn Hl), Hstep. cbn [bind].
        rewrite <- app_assoc, app_length. simpl. rewrite Nat.add_1_r. reflexivity.
      - apply (IH (prenames ++ [u])%list (pre ++ [x])%list ret' t divs Hn' (Hl' x)). lia. }
    assert (Slash : forall x t, step_m u pre r ret' s divs = slash_m divs pre ret' t x ->
              sweep_spec (S (List.length rest)) pre (mkst s ((pre ++ r :: ret')%list) (Z.of_nat (List.length pre)) divs) divs
                (if prefix "/" t then (if (divs =? -1)%Z then ScanErr else ScanSlash (sdrop 1 t) (x :: ret'))
                 else cons_res x (scan rest ret' t divs))).
    { intros x t Hstep. unfold slash_m in Hstep. destruct (prefix "/" t) eqn:P.
      - destruct (divs =? -1)%Z eqn:D; cbn [sweep_spec].
        + exists 1%nat. split; [lia|]. intros fuel. cbn [Nat.add].
          rewrite (W_step prenames u rest pre r ret' s divs fuel Hn Hl), Hstep. reflexivity.
        + exists 1%nat. split; [lia|]. intros fuel. cbn [Nat.add].
          rewrite (W_step prenames u rest pre r ret' s divs fuel Hn Hl), Hstep. cbn [bind].
          rewrite py_str_drop_sdrop. reflexivity.
      - apply Next. exact Hstep. }
    assert (Err : step_m u pre r ret' s divs = Raise ValueError ->
              sweep_spec (S (List.length rest)) pre (mkst s ((pre ++ r :: ret')%list) (Z.of_nat (List.length pre)) divs) divs ScanErr).
    { intros Hstep. exists 1%nat. split; [lia|]. intros fuel. cbn [Nat.add].
      rewrite (W_step prenames u rest pre r ret' s divs fuel Hn Hl), Hstep. reflexivity. }
    cbn [scan List.length]. unfold step_m in Next, Slash, Err. rewrite py_str_drop_sdrop in Next, Slash, Err.
    destruct (prefix u s).
    + destruct (String.eqb u "m" && prefix "mol" s); [apply Next; reflexivity|].
      destruct (parse_exp divs (sdrop (String.length u) s)) as [[e s2]|]; [|apply Err; reflexivity].
      destruct (negb (r =? 0)%Z); [apply Err; reflexivity|]. cbv zeta.
      apply Slash. reflexivity.
    + apply Slash. reflexivity.
Qed.

Lemma pfinish_eq : forall s ret i d,
  pfinish (mkst s ret i d) = if String.eqb s "" then Val ret else Raise ValueError.
Proof. intros. unfold pfinish, mkst. destruct (String.eqb s ""); reflexivity. Qed.

(* SI.str_to_sisig *)
Theorem gen_SI_str_to_sisig_eq : forall s, gen_SI_str_to_sisig N M s = str_to_sisig s.
Proof.
  intros s. rewrite gen_parser_unfold. unfold str_to_sisig. fold (W 64 (mkst s sig0 0%Z 1%Z)).
  pose proof (sweep si_names [] [] sig0 s 1%Z eq_refl eq_refl eq_refl) as S1.
  pose proof (scan_length si_names sig0 s 1%Z eq_refl) as L1.
  cbn [app List.length Z.of_nat] in S1. change (Datatypes.length si_names) with 9%nat in S1.
  destruct (scan si_names sig0 s 1) as [s1 l1|s1 l1|]; cbn [sweep_spec] in S1.
  - change 64%nat with (9 + 55)%nat. rewrite S1. change 55%nat with (S 54). rewrite W_done. cbn [bind]. apply pfinish_eq.
  - destruct S1 as (n & Hn & Hf). replace 64%nat with (n + (64 - n))%nat by lia. rewrite Hf.
    pose proof (sweep si_names [] [] l1 s1 (-1)%Z eq_refl eq_refl L1) as S2.
    cbn [app List.length Z.of_nat] in S2. change (Datatypes.length si_names) with 9%nat in S2.
    pose proof (scan_neg_no_slash si_names l1 s1) as NS.
    destruct (scan si_names l1 s1 (-1)) as [s2 l2|s2 l2|]; cbn [sweep_spec] in S2.
    + replace (64 - n)%nat with (9 + (55 - n))%nat by lia. rewrite S2.
      replace (55 - n)%nat with (S (54 - n)) by lia. rewrite W_done. cbn [bind]. apply pfinish_eq.
    + exfalso. eapply NS. reflexivity.
    + destruct S2 as (n2 & Hn2 & Hf2). replace (64 - n)%nat with (n2 + (64 - n - n2))%nat by lia. rewrite Hf2. reflexivity.
  - destruct S1 as (n & Hn & Hf). replace 64%nat with (n + (64 - n))%nat by lia. rewrite Hf. reflexivity.
Qed.

(* SI(value, unit) *)
Lemma str_to_sisig_length : forall s l, str_to_sisig s = Val l -> List.length l = 9%nat.
Proof.
  intros s l. unfold str_to_sisig.
  pose proof (scan_length si_names sig0 s 1%Z eq_refl) as L1.
  destruct (scan si_names sig0 s 1) as [s1 l1|s1 l1|]; [|  |discriminate].
  - destruct (String.eqb s1 ""); [|discriminate]. intros H. inversion H; subst. exact L1.
  - pose proof (scan_length si_names l1 s1 (-1)%Z L1) as L2.
    destruct (scan si_names l1 s1 (-1)) as [s2 l2|s2 l2|]; try discriminate.
    destruct (String.eqb s2 ""); [|discriminate]. intros H. inversion H; subst. rewrite L2. exact L1.
Qed.

Theorem gen_SI_construct_eq : forall (v : pyval) (u : string), is_quantity N v = false ->
  gen_SI_construct N M (conc v) u = rmap conc (mk_si N v u).
Proof.
  intros v u Hv. unfold gen_SI_construct, gen_SI___init__, mk_si. cbv zeta. rewrite gen_SI___new___eq by assumption.
  destruct v as [c a u0|sg a|x|]; try discriminate; [|reflexivity]. psimp.
  destruct (String.eqb u ""); psimp.
  - rewrite siunit_text by reflexivity. reflexivity.
  - rewrite gen_SI_str_to_sisig_eq. destruct (str_to_sisig u) as [l|e] eqn:E; [|reflexivity]. psimp.
    rewrite siunit_text by (eapply str_to_sisig_length; eauto). reflexivity.
Qed.

(* ====================================================================== *)
(* a whole call through the generated methods is [Dispatch.eval]            *)
(* ====================================================================== *)
(* The operator protocol of Python (which method an expression  x op y  calls: the left operand's own
   method; for a number or str on the left the reflected method of the right operand, for an ordering the
   mirrored comparison) is spelled out here as in Dispatch.left_method / reflected; the METHODS it calls
   are the generated ones. *)
Definition abs (g : gval) : pyval :=
  match g with
  | GNamed c a u => VNamed c a u
  | GSI a sg _ => VSI sg a
  | GNum x => VNum x
  | GStrObj => VStr
  end.

Lemma abs_conc : forall v, abs (conc v) = v.
Proof. intros [c a u|sg a|x|]; reflexivity. Qed.

Definition glift (r : result gval) : R N := match r with Val g => Val (OVal (abs g)) | Raise e => Raise e end.

Lemma glift_conc : forall r, glift (rmap conc r) = lift N r.
Proof. intros [v|e]; [cbn; rewrite abs_conc|]; reflexivity. Qed.

Definition gen_cmp_Quantity (o : cmpop) (x y : gval) : result bool :=
  match o with
  | CEq => gen_Quantity___eq__ N M x y | CNe => gen_Quantity___ne__ N M x y
  | CLt => gen_Quantity___lt__ N M x y | CLe => gen_Quantity___le__ N M x y
  | CGt => gen_Quantity___gt__ N M x y | CGe => gen_Quantity___ge__ N M x y
  end.
Definition gen_cmp_SI (o : cmpop) (x y : gval) : result bool :=
  match o with
  | CEq => gen_SI___eq__ N M x y | CNe => gen_SI___ne__ N M x y
  | CLt => gen_SI___lt__ N M x y | CLe => gen_SI___le__ N M x y
  | CGt => gen_SI___gt__ N M x y | CGe => gen_SI___ge__ N M x y
  end.

(* x op y with a Quantity / SI instance on the left *)
Definition gen_left_method (op : binop) (x y : gval) : R N :=
  match x with
  | GNamed _ _ _ =>
      match op with
      | Mul => glift (gen_Quantity___mul__ N M x y)
      | Div => glift (gen_Quantity___truediv__ N M x y)
      | Add => glift (gen_Quantity___add__ N M x y)
      | Sub => glift (gen_Quantity___sub__ N M x y)
      | Cmp o => lift_bool N (gen_cmp_Quantity o x y)
      end
  | GSI _ _ _ =>
      match op with
      | Mul => glift (gen_SI___mul__ N M x y)
      | Div => glift (gen_SI___truediv__ N M x y)
      | Add => glift (gen_SI___add__ N M x y)
      | Sub => glift (gen_SI___sub__ N M x y)
      | Cmp o => lift_bool N (gen_cmp_SI o x y)
      end
  | _ => Raise Unmodelled
  end.

(* x op y with a number or a str on the left and a Quantity / SI instance y on the right *)
Definition gen_reflected (op : binop) (x y : gval) : R N :=
  match y with
  | GNamed _ _ _ =>
      match op with
      | Mul => glift (gen_Quantity___rmul__ N M y x)
      | Div => glift (gen_Quantity___rtruediv__ N M y x)
      | Add => glift (gen_Quantity___radd__ N M y x)
      | Sub => glift (gen_Quantity___rsub__ N M y x)
      | Cmp o => lift_bool N (gen_cmp_Quantity (cmp_swap o) y x)
      end
  | GSI _ _ _ =>
      match op with
      | Mul => glift (gen_SI___rmul__ N M y x)
      | Div => glift (gen_SI___rtruediv__ N M y x)
      | Add => glift (gen_SI___radd__ N M y x)
      | Sub => glift (gen_SI___rsub__ N M y x)
      | Cmp o => lift_bool N (gen_cmp_SI (cmp_swap o) y x)
      end
  | _ => Raise Unmodelled
  end.

Definition gen_binop_eval (op : binop) (x y : pyval) : R N :=
  if is_quantity N x then gen_left_method op (conc x) (conc y)
  else if is_quantity N y then gen_reflected op (conc x) (conc y)
  else Raise Unmodelled.

Lemma gen_cmp_Quantity_eq : forall o c (a : num) u other,
  gen_cmp_Quantity o (GNamed c a u) (conc other) = q_cmp N o c a other.
Proof.
  intros [] c a u other; cbn [gen_cmp_Quantity];
    [apply gen_Quantity___eq___eq|apply gen_Quantity___ne___eq|apply gen_Quantity___lt___eq
    |apply gen_Quantity___le___eq|apply gen_Quantity___gt___eq|apply gen_Quantity___ge___eq].
Qed.

Lemma gen_cmp_SI_eq : forall o sg (a : num) other,
  gen_cmp_SI o (conc (VSI sg a)) (conc other) = si_cmp N o sg a other.
Proof.
  intros [] sg a other; cbn [gen_cmp_SI];
    [apply gen_SI___eq___eq|apply gen_SI___ne___eq|apply gen_SI___lt___eq
    |apply gen_SI___le___eq|apply gen_SI___gt___eq|apply gen_SI___ge___eq].
Qed.

Theorem gen_left_method_eq : forall op x y, is_quantity N x = true -> val_ok x -> val_ok y ->
  gen_left_method op (conc x) (conc y) = left_method N M op x y.
Proof.
  intros op [c a u|sg a|v|] y Hq Hx Hy; try discriminate.
  - destruct Hx as [q Hc]. destruct op; cbn [gen_left_method left_method conc].
    + rewrite (gen_Quantity___mul___eq c q a u y Hc Hy). apply glift_conc.
    + rewrite (gen_Quantity___truediv___eq c q a u y Hc Hy). apply glift_conc.
    + rewrite gen_Quantity___add___eq. apply glift_conc.
    + rewrite gen_Quantity___sub___eq. apply glift_conc.
    + rewrite gen_cmp_Quantity_eq. reflexivity.
  - destruct op; cbn [gen_left_method left_method conc]; change (GSI a sg (si_unit_text sg)) with (conc (VSI sg a)).
    + rewrite (gen_SI___mul___eq sg a y Hx Hy). apply glift_conc.
    + rewrite (gen_SI___truediv___eq sg a y Hx Hy). apply glift_conc.
    + rewrite gen_SI___add___eq. apply glift_conc.
    + rewrite gen_SI___sub___eq. apply glift_conc.
    + rewrite gen_cmp_SI_eq. reflexivity.
Qed.

Lemma rdiv_model_reflected : forall x y, is_quantity N x = false -> is_quantity N y = true ->
  lift N (rdiv_model y x) = reflected N M Div x y.
Proof.
  intros x y Hx Hy. unfold rdiv_model, reflected.
  destruct x as [c a u|sg a|v|]; try discriminate; [|reflexivity].
  unfold dimensionless_of. destruct (qm_dimensionless M) as [d|]; [|reflexivity].
  destruct (mk N M d (VNum v) None) as [r|e] eqn:E; [|reflexivity].
  destruct (mk_num_none_shape _ _ _ E) as (a & b & ->). reflexivity.
Qed.

Theorem gen_reflected_eq : forall op x y, is_quantity N x = false -> is_quantity N y = true -> val_ok y ->
  gen_reflected op (conc x) (conc y) = reflected N M op x y.
Proof.
  intros op x [c a u|sg a|v|] Hx Hq Hy; try discriminate.
  - destruct Hy as [q Hc].
    assert (Hxo : val_ok x) by (destruct x; try discriminate; exact I).
    destruct op; cbn [gen_reflected conc].
    + rewrite (gen_Quantity___rmul___eq c q a u x Hc Hxo). apply glift_conc.
    + rewrite (gen_Quantity___rtruediv___eq c q a u x Hc Hx), glift_conc. apply rdiv_model_reflected; auto.
    + rewrite gen_Quantity___radd___eq. apply glift_conc.
    + rewrite (gen_Quantity___rsub___eq c a u x Hx). destruct x as [c2 b u2|sg2 b|w|]; try discriminate; cbn [reflected left_method].
      * apply glift_conc.
      * reflexivity.
    + rewrite gen_cmp_Quantity_eq. reflexivity.
  - assert (Hxo : val_ok x) by (destruct x; try discriminate; exact I).
    destruct op; cbn [gen_reflected conc]; change (GSI a sg (si_unit_text sg)) with (conc (VSI sg a)).
    + rewrite (gen_SI___rmul___eq sg a x Hy Hxo). apply glift_conc.
    + rewrite (gen_SI___rtruediv___eq sg a x Hy Hx), glift_conc. apply rdiv_model_reflected; auto.
    + rewrite gen_SI___radd___eq. apply glift_conc.
    + rewrite (gen_SI___rsub___eq sg a x Hx). destruct x as [c2 b u2|sg2 b|w|]; try discriminate; cbn [reflected left_method].
      * apply glift_conc.
      * reflexivity.
    + rewrite gen_cmp_SI_eq. reflexivity.
Qed.

Theorem gen_binop_eval_eq : forall op x y, val_ok x -> val_ok y ->
  gen_binop_eval op x y = binop_eval N M op x y.
Proof.
  intros op x y Hx Hy. unfold gen_binop_eval, binop_eval.
  destruct (is_quantity N x) eqn:Qx; [apply gen_left_method_eq; auto|].
  destruct (is_quantity N y) eqn:Qy; [apply gen_reflected_eq; auto|reflexivity].
Qed.

(* ---------- unary operators ---------- *)
Definition gen_unop_eval (op : unop) (x : pyval) : R N :=
  match conc x with
  | GNamed _ _ _ as g =>
      glift (match op with Neg => gen_Quantity___neg__ N M g | Abs => gen_Quantity___abs__ N M g | Pos => gen_Quantity___pos__ N M g end)
  | GSI _ _ _ as g =>
      glift (match op with Neg => gen_SI___neg__ N M g | Abs => gen_SI___abs__ N M g | Pos => gen_SI___pos__ N M g end)
  | _ => Raise Unmodelled
  end.

Theorem gen_unop_eval_eq : forall op x, gen_unop_eval op x = unop_eval N M op x.
Proof.
  intros op [c a u|sg a|v|]; try reflexivity; unfold gen_unop_eval; cbn [conc unop_eval].
  - destruct op.
    + rewrite gen_Quantity___neg___eq. apply glift_conc.
    + rewrite gen_Quantity___abs___eq. apply glift_conc.
    + reflexivity.
  - change (GSI a sg (si_unit_text sg)) with (conc (VSI sg a)). destruct op.
    + rewrite gen_SI___neg___eq. reflexivity.
    + rewrite gen_SI___abs___eq. reflexivity.
    + reflexivity.
Qed.

(* ---------- attribute reads, str(), sisig(), asSI() ---------- *)
Definition text_suffix (t : pytext N) : result string :=
  match rev t with PStr s :: _ => Val s | _ => Raise Unmodelled end.

Definition gen_get (g : getter) (x : pyval) : R N :=
  match g, conc x with
  | GSi, (GNamed _ _ _ as o) => rmap (@ONum N) (gen_Quantity_si N M o)
  | GSi, (GSI _ _ _ as o) => rmap (@ONum N) (gen_SI_si N M o)
  | GDisplayValue, (GNamed _ _ _ as o) => rmap (@ONum N) (gen_Quantity_displayvalue N M o)
  | GDisplayValue, (GSI _ _ _ as o) => rmap (@ONum N) (gen_SI_displayvalue N M o)
  | GUnit, (GNamed _ _ _ as o) => rmap (@OText N) (gen_Quantity_unit N M o)
  | GUnit, (GSI _ _ _ as o) => rmap (@OText N) (gen_SI_unit N M o)
  | GStrSuffix, (GNamed _ _ _ as o) => rmap (@OText N) (do t <- gen_Quantity___str__ N M o; text_suffix t)
  | GStrSuffix, (GSI _ _ _ as o) => rmap (@OText N) (do t <- gen_SI___str__ N M o; text_suffix t)
  | GSisig, (GNamed _ _ _ as o) | GSisig, (GSI _ _ _ as o) => rmap (@OSig N) (dyn_sisig N M o)
  | GAsSI, (GNamed _ _ _ as o) => glift (gen_Quantity_asSI N M o)
  | _, _ => Raise Unmodelled
  end.

Theorem gen_get_eq : forall g x, gen_get g x = get N M g x.
Proof.
  intros g [c a u|sg a|v|]; destruct g; try reflexivity; unfold gen_get; cbn [conc get].
  - rewrite gen_Quantity_displayvalue_eq. destruct (displayvalue N M (VNamed c a u)); reflexivity.
  - rewrite gen_Quantity___str___eq. unfold str_suffix.
    destruct (displayvalue N M (VNamed c a u)); [|reflexivity]. destruct (with_class _ _ _); reflexivity.
  - rewrite dyn_sisig_named. destruct (class_sig_of M c); reflexivity.
  - rewrite gen_Quantity_asSI_eq. apply glift_conc.
Qed.

(* ---------- siunit(div, hat, dot) ---------- *)
Definition gen_siunit_of (x : pyval) (d : bool) (h t : string) : R N :=
  match conc x with
  | GSI _ _ _ as o => rmap (@OText N) (gen_SI_siunit N M o d h t)
  | GNamed c _ _ => rmap (@OText N) (gen_Quantity_siunit N M c d h t)
  | _ => Raise Unmodelled
  end.

Theorem gen_siunit_of_eq : forall x d h t, val_ok x -> gen_siunit_of x d h t = siunit_of N M x d h t.
Proof.
  intros [c a u|sg a|v|] d h t Hx; try reflexivity; unfold gen_siunit_of; cbn [conc siunit_of].
  - rewrite gen_Quantity_siunit_eq. destruct (class_sig_of M c); reflexivity.
  - rewrite (gen_SI_siunit_eq a sg _ d h t Hx). reflexivity.
Qed.

(* ---------- re-expression in every declared unit (a loop of the check, not of the code) ---------- *)
Fixpoint gen_reexpress_units (x : pyval) (us : list (gstr * gfactor)) : result (list num) :=
  match us with
  | [] => Val []
  | (GStr u, _) :: r =>
      match gen_Quantity_as_unit N M (conc x) u with
      | Val gy =>
          match abs gy, gen_Quantity_displayvalue N M gy, gen_reexpress_units x r with
          | VNamed _ a _, Val d, Val l => Val (a :: d :: l)
          | _, Raise e, _ => Raise e
          | _, _, Raise e => Raise e
          | _, _, _ => Raise Unmodelled
          end
      | Raise e => Raise e
      end
  | (Bad_str _, _) :: _ => Raise Unmodelled
  end.

Lemma as_unit_shape : forall c a u nu r, as_unit N M (VNamed c a u) nu = Val r -> exists y, r = VNamed c y nu.
Proof.
  intros c a u nu r. unfold as_unit, with_class. destruct (get_class (qm_classes M) c) as [q|]; [|discriminate].
  destruct (negb (gmem nu (qc_units q))); [discriminate|]. unfold q_val.
  destruct (mk N M c (VNum a) None) as [m|] eqn:E; [|discriminate].
  destruct (mk_num_none_shape _ _ _ E) as (y & b & ->). intros H. inversion H. eauto.
Qed.

Lemma gen_reexpress_units_eq : forall c a u us,
  gen_reexpress_units (VNamed c a u) us = reexpress_units N M (VNamed c a u) us.
Proof.
  intros c a u. induction us as [|[[nu|bad] f] us IH]; cbn [gen_reexpress_units reexpress_units]; try reflexivity.
  cbn [conc]. rewrite gen_Quantity_as_unit_eq.
  destruct (as_unit N M (VNamed c a u) nu) as [r|e] eqn:E; [|reflexivity]. cbn [rmap].
  destruct (as_unit_shape _ _ _ _ _ E) as [y ->]. cbn [conc abs]. rewrite gen_Quantity_displayvalue_eq, IH. reflexivity.
Qed.

Definition gen_reexpress (x : pyval) : R N :=
  match x with
  | VNamed c _ _ =>
      match get_class T c with
      | Some q => match gen_reexpress_units x (qc_units q) with Val l => Val (ONums l) | Raise e => Raise e end
      | None => Raise Unmodelled
      end
  | _ => Raise Unmodelled
  end.

(* ---------- one observable call ---------- *)
Definition gen_eval (k : call N) : R N :=
  match k with
  | CBin op x y => gen_binop_eval op x y
  | CUn op x => gen_unop_eval op x
  | CMk c v u => glift (gen_Quantity_construct N M c (conc v) u)
  | CMkSI v u => glift (gen_SI_construct N M (conc v) u)
  | CGet g x => gen_get g x
  | CAsUnit x u => match x with
                   | VNamed _ _ _ => glift (gen_Quantity_as_unit N M (conc x) u)
                   | _ => Raise Unmodelled
                   end
  | CAsQuantity x t => match x with
                       | VSI _ _ => glift (gen_SI_as_quantity N M (conc x) (tconc t))
                       | _ => Raise Unmodelled
                       end
  | CSiunit x d h t => gen_siunit_of x d h t
  | CReexpress x => gen_reexpress x
  | CParse s => rmap (@OSig N) (gen_SI_str_to_sisig N M s)
  end.

(* the operands of a call are objects of the model's closed world; a constructor is given a number or a str *)
Definition call_ok (k : call N) : Prop :=
  match k with
  | CBin _ x y => val_ok x /\ val_ok y
  | CMk _ v _ | CMkSI v _ => is_quantity N v = false
  | CSiunit x _ _ _ => val_ok x
  | _ => True
  end.

Theorem gen_eval_eq : forall k, call_ok k -> gen_eval k = eval N M k.
Proof.
  intros [op x y|op x|c v u|v u|g x|x u|x t|x d h t|x|s] Hk; cbn [gen_eval eval call_ok] in *.
  - destruct Hk. apply gen_binop_eval_eq; assumption.
  - apply gen_unop_eval_eq.
  - rewrite gen_Quantity_construct_eq by assumption. apply glift_conc.
  - rewrite gen_SI_construct_eq by assumption. apply glift_conc.
  - apply gen_get_eq.
  - destruct x as [c a u0|sg a|v|]; try reflexivity. cbn [conc]. rewrite gen_Quantity_as_unit_eq. apply glift_conc.
  - destruct x as [c a u0|sg a|v|]; try reflexivity. rewrite gen_SI_as_quantity_eq. apply glift_conc.
  - apply gen_siunit_of_eq. assumption.
  - destruct x as [c a u0|sg a|v|]; try reflexivity. unfold gen_reexpress, reexpress. fold T.
    destruct (get_class T c); [|reflexivity]. rewrite gen_reexpress_units_eq. reflexivity.
  - rewrite gen_SI_str_to_sisig_eq. destruct (str_to_sisig s); reflexivity.
Qed.

(* ---------- math.floor / math.ceil / math.trunc / round of a quantity ---------- *)
Lemma gen_round_named : forall (rnd : num -> result num) c (a : num) u,
  (do t4 <- (do t2 <- (do t1 <- gen_Quantity_displayvalue N M (GNamed c a u); rnd t1); Val (GNum t2));
   do t5 <- (do t3 <- py_attr_unit N (GNamed c a u); Val (Some t3));
   py_construct_type N M (py_type N (GNamed c a u)) t4 t5)
  = rmap conc (match displayvalue N M (VNamed c a u) with
               | Raise e => Raise e
               | Val d => match rnd d with Raise e => Raise e | Val r => mk N M c (VNum r) (Some u) end
               end).
Proof.
  intros. rewrite gen_Quantity_displayvalue_eq. destruct (displayvalue N M (VNamed c a u)) as [d|e]; [|reflexivity].
  psimp. destruct (rnd d) as [r|e]; [|reflexivity]. psimp.
  change (GNum r) with (conc (VNum r)). apply gen_Quantity_construct_eq. reflexivity.
Qed.

Theorem gen_Quantity___floor___eq : forall X c (a : num) u,
  gen_Quantity___floor__ N M X (GNamed c a u) = rmap conc (q_round N M X RFloor c a u).
Proof. intros. unfold gen_Quantity___floor__, q_round. cbv zeta. apply (gen_round_named (m_floor N X)). Qed.
Theorem gen_Quantity___ceil___eq : forall X c (a : num) u,
  gen_Quantity___ceil__ N M X (GNamed c a u) = rmap conc (q_round N M X RCeil c a u).
Proof. intros. unfold gen_Quantity___ceil__, q_round. cbv zeta. apply (gen_round_named (m_ceil N X)). Qed.
Theorem gen_Quantity___trunc___eq : forall X c (a : num) u,
  gen_Quantity___trunc__ N M X (GNamed c a u) = rmap conc (q_round N M X RTrunc c a u).
Proof. intros. unfold gen_Quantity___trunc__, q_round. cbv zeta. apply (gen_round_named (m_trunc N X)). Qed.
Theorem gen_Quantity___round___eq : forall X c (a : num) u,
  gen_Quantity___round__ N M X (GNamed c a u) = rmap conc (q_round N M X RRound c a u).
Proof. intros. unfold gen_Quantity___round__, q_round. cbv zeta. apply (gen_round_named (m_round N X)). Qed.

Lemma gen_round_si : forall (rnd : num -> result num) sg (a : num),
  (do t2 <- (do t1 <- py_float N (conc (VSI sg a)); rnd t1); gen_SI__val N M (conc (VSI sg a)) t2)
  = rmap conc (match rnd a with Raise e => Raise e | Val r => Val (VSI sg r) end).
Proof. intros. psimp. destruct (rnd a) as [r|e]; [|reflexivity]. psimp. apply (gen_SI__val_eq sg a r). Qed.

Theorem gen_SI___floor___eq : forall X sg (a : num),
  gen_SI___floor__ N M X (conc (VSI sg a)) = rmap conc (si_round N X RFloor sg a).
Proof. intros. unfold gen_SI___floor__, si_round. cbv zeta. apply (gen_round_si (m_floor N X)). Qed.
Theorem gen_SI___ceil___eq : forall X sg (a : num),
  gen_SI___ceil__ N M X (conc (VSI sg a)) = rmap conc (si_round N X RCeil sg a).
Proof. intros. unfold gen_SI___ceil__, si_round. cbv zeta. apply (gen_round_si (m_ceil N X)). Qed.
Theorem gen_SI___trunc___eq : forall X sg (a : num),
  gen_SI___trunc__ N M X (conc (VSI sg a)) = rmap conc (si_round N X RTrunc sg a).
Proof. intros. unfold gen_SI___trunc__, si_round. cbv zeta. apply (gen_round_si (m_trunc N X)). Qed.
Theorem gen_SI___round___eq : forall X sg (a : num),
  gen_SI___round__ N M X (conc (VSI sg a)) = rmap conc (si_round N X RRound sg a).
Proof. intros. unfold gen_SI___round__, si_round. cbv zeta. apply (gen_round_si (m_round N X)). Qed.

(* the rounding helper of the object's class, by kind *)
Definition gen_round_eval (X : mathops N) (k : roundkind) (x : pyval) : R N :=
  match conc x with
  | GNamed _ _ _ as g =>
      glift (match k with
             | RFloor => gen_Quantity___floor__ N M X g | RCeil => gen_Quantity___ceil__ N M X g
             | RTrunc => gen_Quantity___trunc__ N M X g | RRound => gen_Quantity___round__ N M X g
             end)
  | GSI _ _ _ as g =>
      glift (match k with
             | RFloor => gen_SI___floor__ N M X g | RCeil => gen_SI___ceil__ N M X g
             | RTrunc => gen_SI___trunc__ N M X g | RRound => gen_SI___round__ N M X g
             end)
  | _ => Raise Unmodelled
  end.

Theorem gen_round_eval_eq : forall X k x, gen_round_eval X k x = round_eval N M X k x.
Proof.
  intros X k [c a u|sg a|v|]; try reflexivity; unfold gen_round_eval, round_eval; cbn [conc].
  - destruct k; [rewrite gen_Quantity___floor___eq|rewrite gen_Quantity___ceil___eq
                |rewrite gen_Quantity___trunc___eq|rewrite gen_Quantity___round___eq]; apply glift_conc.
  - change (GSI a sg (si_unit_text sg)) with (conc (VSI sg a)).
    destruct k; [rewrite gen_SI___floor___eq|rewrite gen_SI___ceil___eq
                |rewrite gen_SI___trunc___eq|rewrite gen_SI___round___eq]; apply glift_conc.
Qed.

(* ---------- the closed world is closed: what a call returns is again an object of it ---------- *)
Lemma mk_ok : forall c v u r, mk N M c v u = Val r -> val_ok r.
Proof.
  intros c v u r. unfold mk, with_class. fold T. destruct (get_class T c) as [q|] eqn:E; [|discriminate].
  destruct u as [u|].
  - destruct (negb (gmem u (qc_units q))); [discriminate|]. destruct v; try discriminate.
    destruct (class_factor N q u); [|discriminate]. intros H. inversion H. simpl. eauto.
  - destruct (base_unit q) as [bu|]; [|discriminate]. destruct (class_factor N q bu); [|discriminate].
    destruct v; try discriminate. intros H. inversion H. simpl. eauto.
Qed.

Lemma q_val_res_ok : forall c x u r, q_val N M c x u = Val r -> val_ok r.
Proof.
  intros c x u r. unfold q_val. destruct (mk N M c (VNum x) None) as [m|] eqn:E; [|discriminate].
  pose proof (mk_ok _ _ _ _ E) as O. destruct m; try discriminate. intros H. inversion H; subst. exact O.
Qed.

Lemma mk_base_res_ok : forall c x r, mk_base N M c x = Val r -> val_ok r.
Proof.
  intros c x r. unfold mk_base, with_class. destruct (get_class (qm_classes M) c); [|discriminate].
  destruct (base_unit q) as [bu|]; [|discriminate]. apply mk_ok.
Qed.

Lemma si_mul_res_ok : forall sg a o r, List.length sg = 9%nat -> val_ok o -> si_mul N M sg a o = Val r -> val_ok r.
Proof.
  intros sg a o r Hs Ho. unfold si_mul. destruct o as [c2 b u2|sg2 b|x|]; try discriminate.
  - destruct (class_sig_of M c2) eqn:E; [|discriminate]. intros H. inversion H. simpl.
    apply sig_zip_length; [assumption|eapply class_sig_length; eauto].
  - intros H. inversion H. simpl. apply sig_zip_length; assumption.
  - intros H. inversion H. exact Hs.
Qed.

Lemma si_div_res_ok : forall sg a o r, List.length sg = 9%nat -> val_ok o -> si_div N M sg a o = Val r -> val_ok r.
Proof.
  intros sg a o r Hs Ho. unfold si_div. destruct o as [c2 b u2|sg2 b|x|]; try discriminate.
  - destruct (class_sig_of M c2) eqn:E; [|discriminate]. destruct (checked_div N a b); [|discriminate].
    intros H. inversion H. simpl. apply sig_zip_length; [assumption|eapply class_sig_length; eauto].
  - destruct (checked_div N a b); [|discriminate]. intros H. inversion H. simpl. apply sig_zip_length; assumption.
  - destruct (checked_div N a x); [|discriminate]. intros H. inversion H. exact Hs.
Qed.

Lemma left_method_res_ok : forall op x y r, val_ok x -> val_ok y -> left_method N M op x y = Val (OVal r) -> val_ok r.
Proof.
  intros op x y r Hx Hy H. destruct x as [c a u|sg a|v|]; try discriminate.
  - destruct Hx as [q Hc]. destruct op; cbn [left_method] in H; try (destruct (q_cmp N op c a y); discriminate);
      apply lift_val in H.
    + unfold q_mul, with_class in H. fold T in H. rewrite Hc in H. destruct y as [c2 b u2|sg2 b|w|].
      * destruct (clookup c2 (qc_mul q)) as [[rc|bad]|]; [eapply mk_base_res_ok; eauto|discriminate|].
        eapply si_mul_res_ok; [| |exact H]; [reflexivity|assumption].
      * eapply si_mul_res_ok; [| |exact H]; [reflexivity|assumption].
      * eapply q_val_res_ok; eauto.
      * unfold refuse_after_formatting in H. destruct (str_suffix N M (VNamed c a u)); discriminate.
    + unfold q_div, with_class in H. fold T in H. rewrite Hc in H. destruct y as [c2 b u2|sg2 b|w|].
      * destruct (clookup c2 (qc_div q)) as [[rc|bad]|]; [|discriminate|].
        -- destruct (checked_div N a b); [eapply mk_base_res_ok; eauto|discriminate].
        -- eapply si_div_res_ok; [| |exact H]; [reflexivity|assumption].
      * eapply si_div_res_ok; [| |exact H]; [reflexivity|assumption].
      * destruct (checked_div N a w); [eapply q_val_res_ok; eauto|discriminate].
      * unfold refuse_after_formatting in H. destruct (str_suffix N M (VNamed c a u)); discriminate.
    + unfold q_addsub in H. destruct y; try discriminate. destruct (Nat.eqb c cls); [eapply q_val_res_ok; eauto|discriminate].
    + unfold q_addsub in H. destruct y; try discriminate. destruct (Nat.eqb c cls); [eapply q_val_res_ok; eauto|discriminate].
  - destruct op; cbn [left_method] in H; try (destruct (si_cmp N op sg a y); discriminate); apply lift_val in H.
    + eapply si_mul_res_ok; eauto.
    + eapply si_div_res_ok; eauto.
    + unfold si_addsub in H. destruct y; try discriminate. destruct (sig_eqb sg sig); [inversion H; exact Hx|discriminate].
    + unfold si_addsub in H. destruct y; try discriminate. destruct (sig_eqb sg sig); [inversion H; exact Hx|discriminate].
Qed.

Theorem binop_eval_res_ok : forall op x y r, val_ok x -> val_ok y -> binop_eval N M op x y = Val (OVal r) -> val_ok r.
Proof.
  intros op x y r Hx Hy. unfold binop_eval. destruct (is_quantity N x) eqn:Qx; [apply left_method_res_ok; assumption|].
  destruct (is_quantity N y) eqn:Qy; [|discriminate]. unfold reflected. destruct op.
  - apply left_method_res_ok; assumption.
  - destruct x as [c a u|sg a|v|]; try discriminate.
    + unfold dimensionless_of. destruct (qm_dimensionless M) as [d|]; [|discriminate].
      destruct (mk N M d (VNum v) None) as [dv|] eqn:E; [|discriminate].
      apply left_method_res_ok; [eapply mk_ok; eauto|assumption].
    + unfold refuse_after_formatting. destruct (str_suffix N M y); discriminate.
  - apply left_method_res_ok; assumption.
  - destruct x as [c a u|sg a|v|]; try discriminate. apply left_method_res_ok; [assumption|exact I].
  - intros H. destruct y as [c a u|sg a|v|]; try discriminate; cbn [left_method] in H.
    + destruct (q_cmp N (cmp_swap op) c a x); discriminate.
    + destruct (si_cmp N (cmp_swap op) sg a x); discriminate.
Qed.

(* what an expression evaluated through the generated methods returns is again an object of the closed world *)
Theorem gen_binop_eval_closed : forall op x y r, val_ok x -> val_ok y -> gen_binop_eval op x y = Val (OVal r) -> val_ok r.
Proof. intros op x y r Hx Hy H. rewrite gen_binop_eval_eq in H by assumption. exact (binop_eval_res_ok op x y r Hx Hy H). Qed.

(* + - and the comparisons with a named quantity on the left need no fact about the tables *)
Lemma gen_binop_eval_named_light : forall op c (a : num) u y,
  match op with Add | Sub | Cmp _ => True | _ => False end ->
  gen_binop_eval op (VNamed c a u) y = binop_eval N M op (VNamed c a u) y.
Proof.
  intros op c a u y Hop. unfold gen_binop_eval, binop_eval. cbn [is_quantity conc gen_left_method left_method].
  destruct op; try contradiction.
  - rewrite gen_Quantity___add___eq. apply glift_conc.
  - rewrite gen_Quantity___sub___eq. apply glift_conc.
  - rewrite gen_cmp_Quantity_eq. reflexivity.
Qed.

End Agree.

Arguments conc {N} v.
Arguments abs {N} g.
Arguments val_ok {N} M v.
Arguments call_ok {N} M k.

(* ====================================================================== *)
(* the agreement, gathered                                                  *)
(* ====================================================================== *)
Section Gathered.
Variable N : numops.
Variable M : qmodule.
Hypothesis Hsidict : sidict_wf (qm_classes M) = true.
Let T := qm_classes M.

(* C16: every arithmetic / comparison method, the conversion back to a named quantity, the SI string
   functions, and the evaluation of a whole expression *)
Theorem dispatch_generated_agree :
  (forall c q a u o, get_class T c = Some q -> val_ok M o ->
     gen_Quantity___mul__ N M (GNamed c a u) (conc o) = rmap conc (q_mul N M c a u o)) /\
  (forall c q a u o, get_class T c = Some q -> val_ok M o ->
     gen_Quantity___truediv__ N M (GNamed c a u) (conc o) = rmap conc (q_div N M c a u o)) /\
  (forall sg a o, List.length sg = 9%nat -> val_ok M o ->
     gen_SI___mul__ N M (conc (VSI sg a)) (conc o) = rmap conc (si_mul N M sg a o)) /\
  (forall sg a o, List.length sg = 9%nat -> val_ok M o ->
     gen_SI___truediv__ N M (conc (VSI sg a)) (conc o) = rmap conc (si_div N M sg a o)) /\
  (forall c a u o, gen_Quantity___add__ N M (GNamed c a u) (conc o) = rmap conc (q_addsub N M (fadd N) c a u o)) /\
  (forall c a u o, gen_Quantity___sub__ N M (GNamed c a u) (conc o) = rmap conc (q_addsub N M (fsub N) c a u o)) /\
  (forall sg a o, gen_SI___add__ N M (conc (VSI sg a)) (conc o) = rmap conc (si_addsub N (fadd N) sg a o)) /\
  (forall sg a o, gen_SI___sub__ N M (conc (VSI sg a)) (conc o) = rmap conc (si_addsub N (fsub N) sg a o)) /\
  (forall op c a u o, gen_cmp_Quantity N M op (GNamed c a u) (conc o) = q_cmp N op c a o) /\
  (forall op sg a o, gen_cmp_SI N M op (conc (VSI sg a)) (conc o) = si_cmp N op sg a o) /\
  (forall sg a t, gen_SI_as_quantity N M (conc (VSI sg a)) (tconc t) = rmap conc (as_quantity N M (VSI sg a) t)) /\
  (forall c, gen_Quantity_sisig N M c = class_sig_of M c) /\
  (forall a sg u d h t, List.length sg = 9%nat -> gen_SI_siunit N M (GSI a sg u) d h t = Val (siunit sg d h t)) /\
  (forall s, gen_SI_str_to_sisig N M s = str_to_sisig s) /\
  (forall op x y, val_ok M x -> val_ok M y -> gen_binop_eval N M op x y = binop_eval N M op x y) /\
  (forall k, call_ok M k -> gen_eval N M k = eval N M k).
Proof.
  repeat split; intros.
  - eapply gen_Quantity___mul___eq; eauto.
  - eapply gen_Quantity___truediv___eq; eauto.
  - eapply gen_SI___mul___eq; eauto.
  - eapply gen_SI___truediv___eq; eauto.
  - apply gen_Quantity___add___eq.
  - apply gen_Quantity___sub___eq.
  - apply gen_SI___add___eq.
  - apply gen_SI___sub___eq.
  - apply gen_cmp_Quantity_eq.
  - apply gen_cmp_SI_eq.
  - eapply gen_SI_as_quantity_eq; eauto.
  - eapply gen_Quantity_sisig_eq; eauto.
  - eapply gen_SI_siunit_eq; eauto.
  - apply gen_SI_str_to_sisig_eq.
  - eapply gen_binop_eval_eq; eauto.
  - eapply gen_eval_eq; eauto.
Qed.

(* C17: construction, display value, re-expression, unary operators, str *)
Theorem conversion_generated_agree :
  (forall c v unit, is_quantity N v = false ->
     gen_Quantity_construct N M c (conc v) unit = rmap conc (mk N M c v unit)) /\
  (forall c a u, gen_Quantity_displayvalue N M (GNamed c a u) = displayvalue N M (VNamed c a u)) /\
  (forall c a u nu, gen_Quantity_as_unit N M (GNamed c a u) nu = rmap conc (as_unit N M (VNamed c a u) nu)) /\
  (forall c a x u, gen_Quantity__val N M (GNamed c a u) x = rmap conc (q_val N M c x u)) /\
  (forall c a u, gen_Quantity___neg__ N M (GNamed c a u) = rmap conc (q_val N M c (fneg N a) u)) /\
  (forall c a u, gen_Quantity___abs__ N M (GNamed c a u) = rmap conc (q_val N M c (fabs N a) u)) /\
  (forall v : pyval N, gen_Quantity___pos__ N M (conc v) = Val (conc v)) /\
  (forall c a u, gen_Quantity___str__ N M (GNamed c a u) =
     match displayvalue N M (VNamed c a u) with
     | Raise e => Raise e
     | Val d => rmap (fun s => [PNum d; PStr " "; PStr s]) (str_suffix N M (VNamed c a u))
     end) /\
  (forall v u, is_quantity N v = false -> gen_SI_construct N M (conc v) u = rmap conc (mk_si N v u)) /\
  (forall op x, gen_unop_eval N M op x = unop_eval N M op x) /\
  (forall op c a u y, match op with Add | Sub | Cmp _ => True | _ => False end ->
     gen_binop_eval N M op (VNamed c a u) y = binop_eval N M op (VNamed c a u) y) /\
  (forall X k x, gen_round_eval N M X k x = round_eval N M X k x).
Proof.
  repeat split; intros; try apply gen_round_eval_eq.
  - eapply gen_Quantity_construct_eq; eauto.
  - apply gen_Quantity_displayvalue_eq.
  - apply gen_Quantity_as_unit_eq.
  - apply gen_Quantity__val_eq.
  - apply gen_Quantity___neg___eq.
  - apply gen_Quantity___abs___eq.
  - apply gen_Quantity___str___eq.
  - eapply gen_SI_construct_eq; eauto.
  - apply gen_unop_eval_eq.
  - apply gen_binop_eval_named_light. assumption.
Qed.
End Gathered.

(* ====================================================================== *)
(* the theorems of DispatchProofs.v / SIStringProofs.v, over the generated  *)
(* methods                                                                  *)
(* ====================================================================== *)
Section Transfer.
Variable N : numops.
Variable M : qmodule.
Let T := qm_classes M.
Hypothesis L : num_laws N.
Hypothesis Hplain : classes_plain T = true.
Hypothesis Hclosed : tables_closed T = true.
Hypothesis Hmul : mul_table_sound T = true.
Hypothesis Hdiv : div_table_sound T = true.
Hypothesis Hbase : base_factor_one T = true.
Hypothesis Hdim : dimensionless_ok M = true.
Hypothesis Hsidict : sidict_wf T = true.

(* x * y through the generated __mul__ / __rmul__: signature = sum, SI value = product *)
Theorem gen_mul_sound : forall x y r,
  val_ok M x -> val_ok M y -> is_quantity N x = true -> is_quantity N y = true ->
  gen_binop_eval N M Mul x y = Val (OVal r) ->
  exists sx sy ax ay, sig_of N M x = Some sx /\ sig_of N M y = Some sy /\ si_of N x = Some ax /\ si_of N y = Some ay /\
    sig_of N M r = Some (sig_add sx sy) /\ si_of N r = Some (fmul N ax ay).
Proof. intros x y r Ox Oy Qx Qy H. rewrite gen_binop_eval_eq in H by assumption. eapply mul_sound; eauto. Qed.

Theorem gen_div_sound : forall x y r,
  val_ok M x -> val_ok M y -> is_quantity N x = true -> is_quantity N y = true ->
  gen_binop_eval N M Div x y = Val (OVal r) ->
  exists sx sy ax ay, sig_of N M x = Some sx /\ sig_of N M y = Some sy /\ si_of N x = Some ax /\ si_of N y = Some ay /\
    fiszero N ay = false /\ sig_of N M r = Some (sig_sub sx sy) /\ si_of N r = Some (fdiv N ax ay).
Proof. intros x y r Ox Oy Qx Qy H. rewrite gen_binop_eval_eq in H by assumption. eapply div_sound; eauto. Qed.

(* + - and comparisons of operands of different type are refused by the generated methods *)
Theorem gen_mixed_add_sub_refused : forall op x y,
  val_ok M x -> val_ok M y -> op = Add \/ op = Sub ->
  is_quantity N x = true \/ is_quantity N y = true -> same_type N x y = false ->
  exists e, gen_binop_eval N M op x y = Raise e.
Proof. intros op x y Ox Oy Ho Hq Hs. rewrite gen_binop_eval_eq by assumption. eapply mixed_add_sub_refused; eauto. Qed.

Theorem gen_mixed_compare_refused : forall o x y,
  val_ok M x -> val_ok M y ->
  is_quantity N x = true \/ is_quantity N y = true -> same_type N x y = false ->
  gen_binop_eval N M (Cmp o) x y =
    match o with CEq => Val (OBool false) | CNe => Val (OBool true) | _ => Raise TypeError end.
Proof. intros o x y Ox Oy Hq Hs. rewrite gen_binop_eval_eq by assumption. eapply mixed_compare_refused; eauto. Qed.

(* the guard of SI.__add__ / SI.__sub__ : two SI values with different signatures are refused *)
Theorem gen_si_add_sub_signature_guard : forall sg sg2 (a b : num N), sig_eqb sg sg2 = false ->
  gen_SI___add__ N M (conc (VSI sg a)) (conc (VSI sg2 b)) = Raise ValueError /\
  gen_SI___sub__ N M (conc (VSI sg a)) (conc (VSI sg2 b)) = Raise ValueError.
Proof.
  intros sg sg2 a b H. rewrite gen_SI___add___eq, gen_SI___sub___eq. unfold si_addsub. rewrite H. split; reflexivity.
Qed.

(* same type: the generated methods act on the SI values *)
Theorem gen_same_type_named : forall c a u b v q, get_class T c = Some q ->
  gen_binop_eval N M Add (VNamed c a u) (VNamed c b v) = Val (OVal (VNamed c (fadd N a b) u)) /\
  gen_binop_eval N M Sub (VNamed c a u) (VNamed c b v) = Val (OVal (VNamed c (fsub N a b) u)) /\
  forall o, gen_binop_eval N M (Cmp o) (VNamed c a u) (VNamed c b v) = Val (OBool (cmp_nums N o a b)).
Proof.
  intros c a u b v q Hc.
  assert (H : binop_eval N M Add (VNamed c a u) (VNamed c b v) = Val (OVal (VNamed c (fadd N a b) u)) /\
              binop_eval N M Sub (VNamed c a u) (VNamed c b v) = Val (OVal (VNamed c (fsub N a b) u)) /\
              forall o, binop_eval N M (Cmp o) (VNamed c a u) (VNamed c b v) = Val (OBool (cmp_nums N o a b)))
    by (eapply same_type_named; eauto).
  destruct H as (H1 & H2 & H3).
  rewrite !gen_binop_eval_named_light by exact I.
  split; [exact H1|split; [exact H2|]]. intros o. rewrite gen_binop_eval_named_light by exact I. apply H3.
Qed.

(* SI -> named quantity through the generated as_quantity *)
Theorem gen_as_quantity_iff : forall sg a c q, get_class T c = Some q ->
  ((exists g, gen_SI_as_quantity N M (conc (VSI sg a)) (TNamed c) = Val g) <-> cls_sig q = sg) /\
  (cls_sig q = sg -> exists b, qc_base q = GStr b /\
     gen_SI_as_quantity N M (conc (VSI sg a)) (TNamed c) = Val (GNamed c a b)) /\
  (cls_sig q <> sg -> gen_SI_as_quantity N M (conc (VSI sg a)) (TNamed c) = Raise ValueError).
Proof.
  intros sg a c q Hc. change (TNamed c) with (tconc (Some c)). rewrite gen_SI_as_quantity_eq by assumption.
  assert (H : ((exists v, as_quantity N M (VSI sg a) (Some c) = Val v) <-> cls_sig q = sg) /\
              (cls_sig q = sg -> exists b, qc_base q = GStr b /\ as_quantity N M (VSI sg a) (Some c) = Val (VNamed c a b)) /\
              (cls_sig q <> sg -> as_quantity N M (VSI sg a) (Some c) = Raise ValueError))
    by (eapply as_quantity_iff; eauto).
  destruct H as (H1 & H2 & H3). split; [|split].
  - rewrite <- H1. split.
    + intros [g Hg]. destruct (as_quantity N M (VSI sg a) (Some c)) as [v|e]; [eauto|discriminate].
    + intros [v Hv]. rewrite Hv. eexists. reflexivity.
  - intros E. destruct (H2 E) as (b & Hb & Hv). exists b. split; [exact Hb|]. rewrite Hv. reflexivity.
  - intros E. rewrite (H3 E). reflexivity.
Qed.

(* printing a signature with the generated siunit and parsing the text with the generated str_to_sisig *)
Theorem gen_parse_print : forall (a : num N) u sig d h t,
  List.length sig = 9%nat -> Forall (fun v => (-9 <= v <= 9)%Z) sig ->
  h = "" \/ h = "^" -> t = "" \/ t = "." ->
  (do s <- gen_SI_siunit N M (GSI a sig u) d h t; gen_SI_str_to_sisig N M s) = Val sig.
Proof.
  intros a u sig d h t Hl Hr Hh Ht. rewrite gen_SI_siunit_eq by assumption. cbn [bind].
  rewrite gen_SI_str_to_sisig_eq. apply parse_print; assumption.
Qed.

(* ---------- C17 ---------- *)
Theorem gen_construction_stores_value_times_factor : forall c q u f n d x,
  get_class T c = Some q -> glookup u (qc_units q) = Some (GFac f n d) ->
  gen_Quantity_construct N M c (GNum x) (Some u) = Val (GNamed c (fmul N x (ffac N f n d)) u).
Proof.
  intros c q u f n d x Hc Hu. change (GNum x) with (conc (VNum x)). rewrite gen_Quantity_construct_eq by reflexivity.
  erewrite mk_stores_value_times_factor by eauto. reflexivity.
Qed.

Theorem gen_construction_refuses : forall c q u (x : pyval N), get_class T c = Some q -> is_quantity N x = false ->
  (glookup u (qc_units q) = None -> gen_Quantity_construct N M c (conc x) (Some u) = Raise ValueError) /\
  ((forall k, x <> VNum k) -> gen_Quantity_construct N M c (conc x) (Some u) = Raise ValueError).
Proof.
  intros c q u x Hc Hx. rewrite gen_Quantity_construct_eq by assumption. split; intros H.
  - erewrite mk_unknown_unit_refused by eauto. reflexivity.
  - erewrite mk_non_number_refused by eauto. reflexivity.
Qed.

Theorem gen_displayvalue_of_construct : forall c q u f n d x,
  get_class T c = Some q -> glookup u (qc_units q) = Some (GFac f n d) -> n <> 0%Z ->
  gen_Quantity_displayvalue N M (GNamed c (fmul N x (ffac N f n d)) u) = Val x.
Proof. intros. rewrite gen_Quantity_displayvalue_eq. eapply displayvalue_of_mk; eauto. Qed.

Theorem gen_as_unit_preserves_si : forall c q a u u', get_class T c = Some q ->
  (gmem u' (qc_units q) = true -> gen_Quantity_as_unit N M (GNamed c a u) u' = Val (GNamed c a u')) /\
  (gmem u' (qc_units q) = false -> gen_Quantity_as_unit N M (GNamed c a u) u' = Raise ValueError).
Proof.
  intros c q a u u' Hc. rewrite gen_Quantity_as_unit_eq. split; intros H.
  - erewrite as_unit_preserves_si by eauto. reflexivity.
  - erewrite as_unit_unknown_refused by eauto. reflexivity.
Qed.

Theorem gen_unary_named : forall c q a u, get_class T c = Some q ->
  gen_unop_eval N M Neg (VNamed c a u) = Val (OVal (VNamed c (fneg N a) u)) /\
  gen_unop_eval N M Abs (VNamed c a u) = Val (OVal (VNamed c (fabs N a) u)) /\
  gen_unop_eval N M Pos (VNamed c a u) = Val (OVal (VNamed c a u)).
Proof. intros c q a u Hc. rewrite !gen_unop_eval_eq. eapply unary_named; eauto. Qed.

(* the generated __floor__ / __ceil__ / __trunc__ / __round__ act on the display value and keep the unit *)
Theorem gen_round_on_display_value : forall (X : mathops N) k c q a u f n d dv r,
  get_class T c = Some q -> glookup u (qc_units q) = Some (GFac f n d) -> n <> 0%Z ->
  gen_Quantity_displayvalue N M (GNamed c a u) = Val dv -> round_with X k dv = Val r ->
  gen_round_eval N M X k (VNamed c a u) = Val (OVal (VNamed c (fmul N r (ffac N f n d)) u)) /\
  gen_Quantity_displayvalue N M (GNamed c (fmul N r (ffac N f n d)) u) = Val r.
Proof.
  intros X k c q a u f n d dv r Hc Hu Hn Hd Hr. rewrite gen_Quantity_displayvalue_eq in *.
  assert (H : q_round N M X k c a u = Val (VNamed c (fmul N r (ffac N f n d)) u) /\
              displayvalue N M (VNamed c (fmul N r (ffac N f n d)) u) = Val r)
    by (eapply round_on_display_value; eauto).
  destruct H as [H1 H2]. split; [|exact H2].
  rewrite gen_round_eval_eq. unfold round_eval. rewrite H1. reflexivity.
Qed.

Theorem gen_str_total : forall c q a u f n d, display_units_ok T = true ->
  get_class T c = Some q -> glookup u (qc_units q) = Some (GFac f n d) -> n <> 0%Z ->
  exists dv s, gen_Quantity___str__ N M (GNamed c a u) = Val [PNum dv; PStr " "; PStr s] /\ display_of q u = GStr s.
Proof.
  intros c q a u f n d Hd Hc Hu Hn. rewrite gen_Quantity___str___eq.
  assert (H : exists s, str_suffix N M (VNamed c a u) = Val s /\ display_of q u = GStr s) by (eapply str_total; eauto).
  destruct H as (s & Hs & Hq).
  unfold str_suffix in Hs. destruct (displayvalue N M (VNamed c a u)) as [dv|e] eqn:D; [|discriminate].
  exists dv, s. split; [|exact Hq]. unfold str_suffix. rewrite D, Hs. reflexivity.
Qed.
End Transfer.
