(* C08 -- the model regenerated from the source IS the proved model.

   PubSub/Gen_PubSub.v is written by translator/py2gallina_pubsub.py from the text of
   src/pydsol/core/pubsub.py of the tree under test (Python's `ast`, fail-closed):
   EventType.__init__, Event.__init__, TimedEvent.__init__ and the methods of
   EventProducer (__init__, add_listener, remove_listener, remove_all_listeners,
   has_listeners, fire_event, fire, fire_timed_event, fire_timed), as a shallow
   embedding over Python's dict / list primitives on the value universe of
   PubSub/Model.v and PubSub/TypeModel.v.

   This file proves every generated definition equal to the hand-written model
   function -- for ALL states, arguments, listener programs and fuel -- then the
   agreement of whole histories ([gen_run_top_eq], [gen_make_types_eq]) and the
   transfer of the main C08 theorems to the generated definitions.  Two
   equalities carry the hypothesis that a Python dict has unique keys
   ([EventProofs.md_wf] for the metadata an event type carries, [rawmd_wf] for
   the metadata argument of EventType): the source looks the declared class up
   by key (metadata.get(key), metadata[key]), the model walks the (key, class)
   pairs.

   The file is compiled against the generated file on every run of the check;
   when a change of pubsub.py makes an equality false, it no longer compiles
   and the check reports the broken tie. *)
From Coq Require Import ZArith List Bool Arith Lia.
From PV Require Import PubSub.Model PubSub.SubsProofs PubSub.EventProofs PubSub.Proofs PubSub.OpsProofs
  PubSub.TypeModel PubSub.TypeProofs.
From PV Require Import PubSub.Gen_PubSub.
Import ListNotations.

Ltac unf_py :=
  unfold py_list_in, py_list_append, py_list_remove, py_dict_item, py_dict_del, py_dict_keys, py_dict_get in *.

(* The agreement proofs below do not follow the SHAPE of the generated text (nested ifs, early returns, helper
   functions inlined, tests written one way or the other): they reduce both sides to the few atomic facts the
   methods test - is the key in the map, what is stored under it, is the listener in that list, is the list
   empty after the removal - and decide every combination. *)
Ltac brk_step :=
  match goal with
  | |- context [match ?x with _ => _ end] =>
    lazymatch x with
    | context [match _ with _ => _ end] => fail
    | _ => destruct x eqn:?
    end
  end.

(* ====================================================================== *)
(* Python's dict on the association list                                   *)
(* ====================================================================== *)
Lemma dict_in_cons k ls r et :
  py_dict_in et ((k, ls) :: r) = if Nat.eqb k et then true else py_dict_in et r.
Proof. unfold py_dict_in. cbn. destruct (Nat.eqb k et); reflexivity. Qed.

Lemma subs_cons k ls r et :
  subscribers ((k, ls) :: r) et = if Nat.eqb k et then ls else subscribers r et.
Proof. unfold subscribers. cbn. destruct (Nat.eqb k et); reflexivity. Qed.

Lemma dict_notin_subscribers et m : py_dict_in et m = false -> subscribers m et = [].
Proof. unfold py_dict_in, subscribers. destruct (lookup et m); [discriminate | reflexivity]. Qed.

Lemma dict_item_set k v m : subscribers (py_dict_set k v m) k = v.
Proof.
  induction m as [| [k' ls] r IH]; cbn.
  - rewrite subs_cons, Nat.eqb_refl. reflexivity.
  - destruct (Nat.eqb k' k) eqn:E; rewrite subs_cons, E; [reflexivity | exact IH].
Qed.

Lemma dict_in_set k v m : py_dict_in k (py_dict_set k v m) = true.
Proof.
  induction m as [| [k' ls] r IH]; cbn.
  - rewrite dict_in_cons, Nat.eqb_refl. reflexivity.
  - destruct (Nat.eqb k' k) eqn:E; rewrite dict_in_cons, E; [reflexivity | exact IH].
Qed.

Lemma dict_set_set k v1 v2 m : py_dict_set k v2 (py_dict_set k v1 m) = py_dict_set k v2 m.
Proof.
  induction m as [| [k' ls] r IH]; cbn.
  - rewrite Nat.eqb_refl. reflexivity.
  - destruct (Nat.eqb k' k) eqn:E; cbn; rewrite E; [reflexivity | rewrite IH; reflexivity].
Qed.

Lemma dict_set_same k m : py_dict_in k m = true -> py_dict_set k (subscribers m k) m = m.
Proof.
  induction m as [| [k' ls] r IH]; [discriminate |].
  rewrite dict_in_cons, subs_cons. cbn. destruct (Nat.eqb k' k) eqn:E; [reflexivity |].
  intros H. rewrite (IH H). reflexivity.
Qed.

Lemma sub_del_absent k m : py_dict_in k m = false -> sub_del k m = m.
Proof.
  induction m as [| [k' ls] r IH]; [reflexivity |].
  rewrite dict_in_cons. cbn. destruct (Nat.eqb k' k); [discriminate |].
  intros H. rewrite (IH H). reflexivity.
Qed.

Lemma sub_del_set k v m : sub_del k (py_dict_set k v m) = sub_del k m.
Proof.
  induction m as [| [k' ls] r IH]; cbn.
  - rewrite Nat.eqb_refl. reflexivity.
  - destruct (Nat.eqb k' k) eqn:E; cbn; rewrite E; [reflexivity | rewrite IH; reflexivity].
Qed.

(* the model's map operations, said with the dict primitives *)
Lemma sub_add_spec et l m :
  sub_add et l m =
  py_dict_set et (if memb l (subscribers m et) then subscribers m et else subscribers m et ++ [l]) m.
Proof.
  induction m as [| [k ls] r IH]; [reflexivity |].
  cbn [sub_add py_dict_set]. rewrite subs_cons. destruct (Nat.eqb k et) eqn:E; [reflexivity |].
  rewrite IH. reflexivity.
Qed.

Lemma sub_remove_spec et l m :
  sub_remove et l m =
  if py_dict_in et m then
    if memb l (subscribers m et) then
      match remove_first l (subscribers m et) with
      | [] => sub_del et m
      | ls' => py_dict_set et ls' m
      end
    else m
  else m.
Proof.
  induction m as [| [k ls] r IH]; [reflexivity |].
  cbn [sub_remove sub_del py_dict_set]. rewrite dict_in_cons, subs_cons. destruct (Nat.eqb k et) eqn:E.
  - destruct (memb l ls); [| reflexivity]. destruct (remove_first l ls); reflexivity.
  - rewrite IH. destruct (py_dict_in et r); [| reflexivity].
    destruct (memb l (subscribers r et)); [| reflexivity].
    destruct (remove_first l (subscribers r et)); reflexivity.
Qed.

Lemma lookup_set k v m : lookup k (py_dict_set k v m) = Some v.
Proof.
  induction m as [| [k' ls] r IH]; cbn.
  - rewrite Nat.eqb_refl. reflexivity.
  - destruct (Nat.eqb k' k) eqn:E; cbn; rewrite E; [reflexivity | exact IH].
Qed.

Lemma dict_set_same' k ls m : lookup k m = Some ls -> py_dict_set k ls m = m.
Proof.
  intros H. pose proof (dict_set_same k m) as S. unfold py_dict_in, subscribers in S. rewrite H in S. apply S. reflexivity.
Qed.

Lemma sub_del_absent' k m : lookup k m = None -> sub_del k m = m.
Proof. intros H. apply sub_del_absent. unfold py_dict_in. rewrite H. reflexivity. Qed.

(* every test on the map is a test on [lookup et m]; after the case analysis on it: normalise, split the next test *)
Ltac map_norm :=
  repeat (cbn [negb andb orb py_optlist_is_none py_optlist_truth py_list_truth py_dict_truth length Nat.eqb Nat.leb Nat.ltb
               pbind app] in *;
          rewrite ?lookup_set, ?dict_set_set, ?sub_del_set in * ).
Ltac map_leaf :=
  match goal with
  | L : lookup ?k ?m = Some ?ls |- _ => rewrite ?(dict_set_same' k ls m L)
  | L : lookup ?k ?m = None |- _ => rewrite ?(sub_del_absent' k m L)
  | _ => idtac
  end; try reflexivity; try congruence.
Ltac map_crush et m :=
  unfold py_dict_in, subscribers in *; cbv zeta;
  destruct (lookup et m) as [?ls |] eqn:?L; map_norm; try solve [map_leaf];
  repeat (brk_step; map_norm; try solve [map_leaf]).

Lemma pbind_ret r : pbind r (fun m => POk m) = r.
Proof. destruct r; reflexivity. Qed.

Lemma for_mut_fold l (f : submap -> nat -> pres) :
  (forall m et, f m et = POk (sub_remove et l m)) ->
  forall ks m, py_for_mut f ks m = POk (fold_left (fun acc et => sub_remove et l acc) ks m).
Proof.
  intros Hf. induction ks as [| k r IH]; intros m; [reflexivity |].
  cbn [py_for_mut fold_left]. rewrite Hf. cbn [pbind]. apply IH.
Qed.

(* ====================================================================== *)
(* EventProducer: the methods that work on the listener map                *)
(* ====================================================================== *)
(* the hand-written model, per method, at the level of one producer's map:
   Model.pure_step is [lift] of these (pure_step_by_method below) *)
Definition model_add (m : submap) (a b : arg) : pres :=
  match a, b with
  | Good et, Good l => POk (sub_add et l m)
  | Good _, _ => PErr ENotListener m
  | _, _ => PErr ENotEventType m
  end.

Definition model_remove (m : submap) (a b : arg) : pres :=
  match a, b with
  | Good et, Good l => POk (sub_remove et l m)
  | Good _, _ => PErr ENotListener m
  | _, _ => PErr ENotEventType m
  end.

Definition model_remove_all (m : submap) (a b : arg) : pres :=
  match a, b with
  | BadArg, _ => PErr ENotEventType m
  | _, BadArg => PErr ENotListener m
  | NoneArg, NoneArg => POk []
  | NoneArg, Good l => POk (sub_remove_everywhere l m)
  | Good et, NoneArg => POk (sub_del et m)
  | Good et, Good l => POk (sub_remove et l m)
  end.

Theorem gen_EventProducer___init___eq : gen_EventProducer___init__ = [].
Proof. reflexivity. Qed.

Theorem gen_EventProducer_add_listener_eq : forall m a b,
  gen_EventProducer_add_listener m a b = model_add m a b.
Proof.
  intros m [et | |] [l | |]; try reflexivity.
  unfold gen_EventProducer_add_listener, model_add. cbn [py_arg_is_inst py_arg_is_none py_arg_id negb orb andb]. unf_py.
  rewrite sub_add_spec. map_crush et m.
Qed.

Theorem gen_EventProducer_remove_listener_eq : forall m a b,
  gen_EventProducer_remove_listener m a b = model_remove m a b.
Proof.
  intros m [et | |] [l | |]; try reflexivity.
  unfold gen_EventProducer_remove_listener, model_remove. cbn [py_arg_is_inst py_arg_is_none py_arg_id negb orb andb]. unf_py.
  rewrite sub_remove_spec. map_crush et m.
Qed.

Theorem gen_EventProducer_remove_all_listeners_eq : forall m a b,
  gen_EventProducer_remove_all_listeners m a b = model_remove_all m a b.
Proof.
  intros m [et | |] [l | |]; try reflexivity;
    unfold gen_EventProducer_remove_all_listeners, model_remove_all;
    cbn [py_arg_is_inst py_arg_is_none py_arg_id negb orb andb]; unf_py; cbv zeta;
    rewrite ?pbind_ret, ?gen_EventProducer_remove_listener_eq; try reflexivity.
  - (* the event type given, the listener left at None: the entry goes *)
    map_crush et m.
  - (* the listener given, the event type left at None: removed under every key of a snapshot of the keys *)
    unfold sub_remove_everywhere. apply for_mut_fold.
    intros m' et. rewrite ?pbind_ret, gen_EventProducer_remove_listener_eq. reflexivity.
Qed.

Theorem gen_EventProducer_has_listeners_eq : forall m,
  gen_EventProducer_has_listeners m = has_listeners m.
Proof. intros [| x r]; reflexivity. Qed.

(* a refused call leaves the map as it was (so [lift] may drop it) *)
Theorem gen_refused_call_keeps_map : forall m a b k m',
  (gen_EventProducer_add_listener m a b = PErr k m' \/
   gen_EventProducer_remove_listener m a b = PErr k m' \/
   gen_EventProducer_remove_all_listeners m a b = PErr k m') -> m' = m.
Proof.
  intros m a b k m'.
  rewrite gen_EventProducer_add_listener_eq, gen_EventProducer_remove_listener_eq,
          gen_EventProducer_remove_all_listeners_eq.
  intros [H | [H | H]]; destruct a, b; cbn in H; congruence.
Qed.

(* ====================================================================== *)
(* Event / TimedEvent construction                                         *)
(* ====================================================================== *)
(* every event type's metadata is a Python dict: unique keys *)
Definition env_wf (E : menv) : Prop := forall et, md_wf (md_of E et).

Lemma md_item_unique m : NoDup (map fst m) -> forall k t, In (k, t) m -> py_md_item k m = t.
Proof.
  induction m as [| [k' t'] r IH]; intros ND k t HIn; [contradiction |].
  cbn in ND. inversion ND as [| ? ? Hk Hr]; subst. cbn [py_md_item].
  destruct HIn as [H | H].
  - inversion H; subst. rewrite Nat.eqb_refl. reflexivity.
  - destruct (Nat.eqb k' k) eqn:E; [| apply IH; assumption].
    apply Nat.eqb_eq in E. subst. exfalso. apply Hk. apply in_map_iff. exists (k, t). split; [reflexivity | exact H].
Qed.

(* what one round of the loop over metadata.keys() in Event.__init__ says *)
Definition key_verdict (m : metadata) (items : list (nat * pyval)) (k : nat) : option err :=
  match dict_get k items with
  | None => Some (EMissing k)
  | Some v => if is_none v then Some (EMissing k)
              else if isinstance v (py_md_item k m) then None else Some (EWrongType k)
  end.

Lemma check_loop m items (F : nat -> option err) :
  NoDup (map fst m) -> (forall k, F k = key_verdict m items k) ->
  py_for_check F (py_md_keys m) = check_keys m items.
Proof.
  intros ND HF. unfold py_md_keys.
  assert (G : forall r, (forall k t, In (k, t) r -> In (k, t) m) -> py_for_check F (map fst r) = check_keys r items).
  { induction r as [| [k t] r IH]; intros Hsub; [reflexivity |].
    cbn [map fst py_for_check check_keys]. rewrite HF. unfold key_verdict.
    rewrite (md_item_unique m ND k t (Hsub k t (or_introl eq_refl))).
    destruct (dict_get k items) as [v |]; [| reflexivity].
    destruct (is_none v); [reflexivity |]. destruct (isinstance v t); [| reflexivity].
    apply IH. intros k0 t0 H0. apply Hsub. right. exact H0. }
  apply G. intros k t H. exact H.
Qed.

Ltac ev_norm :=
  cbn [negb andb orb py_arg_is_inst py_arg_is_none py_arg_id py_optmd_is_none py_optmd_truth py_optmd_items md_wf] in *.

Theorem gen_Event___init___eq : forall E, env_wf E -> forall a c chk,
  gen_Event___init__ E a c chk = make_event E a c chk.
Proof.
  intros E WF [et | |] c chk; try reflexivity.
  unfold gen_Event___init__, make_event, validate. ev_norm.
  specialize (WF et). destruct (md_of E et) as [m |]; ev_norm; [| try reflexivity; destruct chk; reflexivity].
  unfold py_content_is_dict, py_content_items.
  destruct (c_shape c) as [items | t]; ev_norm; [| destruct m; try reflexivity; destruct chk; reflexivity].
  destruct chk; ev_norm; [| destruct m; reflexivity].
  rewrite ?(Nat.eqb_sym (length items) (length m)).
  rewrite ?(check_loop m items _ WF).
  - destruct (Nat.eqb (length m) (length items)); ev_norm; reflexivity.
  - (* one round of the loop says what the model's check_keys says for that key *)
    intros k. unfold key_verdict, py_items_get, py_optval_is_none, py_optval_isinstance.
    destruct (dict_get k items) as [v |]; [| reflexivity].
    destruct (is_none v); [reflexivity |]. destruct (isinstance v (py_md_item k m)); reflexivity.
Qed.

Theorem gen_TimedEvent___init___eq : forall E, env_wf E -> forall ts a c chk,
  gen_TimedEvent___init__ E ts a c chk = make_timed E ts a c chk.
Proof.
  intros E WF ts a c chk. unfold gen_TimedEvent___init__, make_timed, py_ts_isinstance, ts_ok.
  rewrite ?(gen_Event___init___eq E WF). cbn [existsb].
  destruct (subty (ts_ty ts) TInt), (subty (ts_ty ts) TFloat); cbn [negb orb andb]; try reflexivity;
    destruct (make_event E a c chk); reflexivity.
Qed.

(* ====================================================================== *)
(* EventType construction                                                  *)
(* ====================================================================== *)
(* the metadata argument is a Python dict: its str keys are pairwise different *)
Definition str_keys (d : list (mdkey * mdval)) : list nat :=
  flat_map (fun kv => match fst kv with KStr k => [k] | KNotStr => [] end) d.
Definition rawmd_wf (md : raw_md) : Prop :=
  match md with Some d => NoDup (str_keys d) | None => True end.

Lemma str_keys_In k v d : In (KStr k, v) d -> In k (str_keys d).
Proof. intros H. unfold str_keys. apply in_flat_map. exists (KStr k, v). split; [exact H | left; reflexivity]. Qed.

Lemma rawmd_item_unique d : NoDup (str_keys d) -> forall k v, In (KStr k, v) d -> py_rawmd_item k d = v.
Proof.
  induction d as [| [key v'] r IH]; intros ND k v HIn; [contradiction |].
  destruct key as [k' |]; cbn [py_rawmd_item].
  - change (str_keys ((KStr k', v') :: r)) with (k' :: str_keys r) in ND.
    inversion ND as [| ? ? Hk Hr]; subst.
    destruct HIn as [H | H].
    + inversion H; subst. rewrite Nat.eqb_refl. reflexivity.
    + destruct (Nat.eqb k' k) eqn:E; [| apply IH; assumption].
      apply Nat.eqb_eq in E. subst. exfalso. apply Hk. eapply str_keys_In. exact H.
  - change (str_keys ((KNotStr, v') :: r)) with (str_keys r) in ND.
    destruct HIn as [H | H]; [discriminate |]. apply IH; assumption.
Qed.

(* what one round of the loop over metadata.keys() in EventType.__init__ says *)
Definition decl_verdict (d : list (mdkey * mdval)) (key : mdkey) : option eterr :=
  match key with
  | KNotStr => Some EKeyNotStr
  | KStr k => match py_rawmd_item k d with VNotType => Some EValueNotType | VType _ => None end
  end.

Lemma decl_loop d (F : mdkey -> option eterr) :
  NoDup (str_keys d) -> (forall key, F key = decl_verdict d key) ->
  py_for_check F (py_rawmd_keys d) = match check_decl d with inl e => Some e | inr _ => None end.
Proof.
  intros ND HF. unfold py_rawmd_keys.
  assert (G : forall r, (forall k v, In (KStr k, v) r -> In (KStr k, v) d) ->
            py_for_check F (map fst r) = match check_decl r with inl e => Some e | inr _ => None end).
  { induction r as [| [key v] r IH]; intros Hsub; [reflexivity |].
    cbn [map fst py_for_check check_decl]. rewrite HF. destruct key as [k |]; cbn [decl_verdict]; [| reflexivity].
    rewrite (rawmd_item_unique d ND k v (Hsub k v (or_introl eq_refl))).
    destruct v as [t |]; [| reflexivity].
    rewrite IH; [destruct (check_decl r); reflexivity |].
    intros k0 v0 H0. apply Hsub. right. exact H0. }
  apply G. intros k v H. exact H.
Qed.

Lemma decl_decode d : forall m, check_decl d = inr m -> py_decl_decode d = m.
Proof.
  induction d as [| [key v] r IH]; intros m H; cbn in *; [congruence |].
  destruct key as [k |]; [| discriminate]. destruct v as [t |]; [| discriminate].
  destruct (check_decl r) as [e | m'] eqn:C; [discriminate |].
  inversion H; subst. rewrite (IH m' eq_refl). reflexivity.
Qed.

Theorem gen_EventType___init___eq : forall reg site name md, rawmd_wf md ->
  gen_EventType___init__ reg site name md = make_event_type reg site name md.
Proof.
  intros reg site [n |] md WF; [| reflexivity].
  unfold gen_EventType___init__, make_event_type, py_set_in, py_set_add.
  cbn [py_name_is_str py_name_id negb]. cbv zeta.
  destruct (registered reg (site, n)); [reflexivity |].
  destruct md as [d |]; [| reflexivity].
  cbn [py_rawmd_is_none py_rawmd_truth py_rawmd_items py_rawmd_decode negb rawmd_wf] in *.
  rewrite ?(decl_loop d _ WF).
  - destruct (check_decl d) as [e | m] eqn:C; [| rewrite (decl_decode d m C)]; destruct d; cbn in *; try discriminate; reflexivity.
  - (* one round of the loop says what the model's check_decl says for that entry *)
    intros [k |]; cbn [decl_verdict py_mdkey_is_str py_mdkey_id negb]; [| reflexivity].
    destruct (py_rawmd_item k d); reflexivity.
Qed.

(* ====================================================================== *)
(* EventProducer: the fire family                                          *)
(* ====================================================================== *)
Definition model_fire_event (step : state -> op -> res) (s : state) (p : nat) (oe : evarg) : res :=
  match oe with
  | None => Raised ENotEvent s []
  | Some ev => fire_ev step s p ev
  end.

Definition model_fire_timed_event (step : state -> op -> res) (s : state) (p : nat) (oe : evarg) : res :=
  match oe with
  | None => Raised ENotTimedEvent s []
  | Some ev => match ev_time ev with
               | None => Raised ENotTimedEvent s []
               | Some _ => fire_ev step s p ev
               end
  end.

Lemma bind_res_done r : bind_res r (fun s1 => Done s1 []) = r.
Proof. destruct r as [s t | k s t |]; cbn; [rewrite app_nil_r | |]; reflexivity. Qed.

(* the ghost bookkeeping around a body that delivers to the snapshot is the model's fire_ev *)
Lemma fire_invocation_is_fire_ev step s p ev (body : nat -> state -> res) :
  (forall i s0, st_subs s0 = st_subs s ->
     body i s0 = deliver_all step i ev s0 (subscribers (subs_of s p) (ev_type ev))) ->
  py_fire_invocation s p ev body = fire_ev step s p ev.
Proof. intros H. unfold py_fire_invocation, fire_ev. cbv zeta. rewrite H; reflexivity. Qed.

(* the body of fire_event / fire_timed_event after the bookkeeping: whichever way the source asks whether there are
   subscribers (key in map, get() is None, empty list), it comes to delivering to the stored list as it is now *)
Ltac fire_body :=
  match goal with H : st_subs _ = st_subs _ |- _ => unfold subs_of; rewrite H end;
  unfold py_for_notify, py_dict_in, subscribers;
  match goal with |- context [lookup ?k ?m] => destruct (lookup k m) as [[| ?x ?r] |] end;
  cbn [negb andb orb py_optlist_is_none py_optlist_truth py_list_truth length Nat.eqb Nat.ltb Nat.leb];
  rewrite ?bind_res_done; reflexivity.

Theorem gen_EventProducer_fire_event_eq : forall step s p oe,
  gen_EventProducer_fire_event step s p oe = model_fire_event step s p oe.
Proof.
  intros step s p [ev |]; [| reflexivity].
  unfold gen_EventProducer_fire_event, model_fire_event. cbn [py_is_event py_is_timed_event py_event negb]. unf_py.
  apply fire_invocation_is_fire_ev. intros i s0 H. fire_body.
Qed.

Theorem gen_EventProducer_fire_timed_event_eq : forall step s p oe,
  gen_EventProducer_fire_timed_event step s p oe = model_fire_timed_event step s p oe.
Proof.
  intros step s p [ev |]; [| reflexivity].
  unfold gen_EventProducer_fire_timed_event, model_fire_timed_event. cbn [py_is_event py_is_timed_event py_event]. unf_py.
  destruct (ev_time ev); cbn [negb]; [| reflexivity].
  apply fire_invocation_is_fire_ev. intros i s0 H. fire_body.
Qed.

Theorem gen_EventProducer_fire_eq : forall E, env_wf E -> forall step s p a c chk,
  gen_EventProducer_fire E step s p a c chk = fire_mk step s p (make_event E a c chk).
Proof.
  intros E WF step s p a c chk. unfold gen_EventProducer_fire, fire_mk.
  rewrite (gen_Event___init___eq E WF). destruct (make_event E a c chk) as [ev | k]; [| reflexivity].
  rewrite bind_res_done, gen_EventProducer_fire_event_eq. reflexivity.
Qed.

Theorem gen_EventProducer_fire_timed_eq : forall E, env_wf E -> forall step s p ts a c chk,
  gen_EventProducer_fire_timed E step s p ts a c chk = fire_mk step s p (make_timed E ts a c chk).
Proof.
  intros E WF step s p ts a c chk. unfold gen_EventProducer_fire_timed, fire_mk.
  rewrite (gen_TimedEvent___init___eq E WF). destruct (make_timed E ts a c chk) as [ev | k] eqn:M; [| reflexivity].
  rewrite bind_res_done, gen_EventProducer_fire_timed_event_eq. cbn [model_fire_timed_event].
  destruct (timed_event_keeps_timestamp _ _ _ _ _ _ M) as [T _]. rewrite T. reflexivity.
Qed.

(* ====================================================================== *)
(* Whole histories                                                         *)
(* ====================================================================== *)
(* the outcome of a method that works on producer p's map, as an outcome of the whole state *)
Definition lift (s : state) (p : nat) (r : pres) : res :=
  match r with
  | POk m => Done (on_prod s p (fun _ => m)) []
  | PErr k _ => Raised k s []          (* the map is unchanged: gen_refused_call_keeps_map *)
  end.

Definition gen_pure_step (s : state) (o : op) : res :=
  match o with
  | OAdd p a b => lift s p (gen_EventProducer_add_listener (subs_of s p) a b)
  | ORemove p a b => lift s p (gen_EventProducer_remove_listener (subs_of s p) a b)
  | ORemoveAll p a b => lift s p (gen_EventProducer_remove_all_listeners (subs_of s p) a b)
  | OHas p => Done s [ObsHas (gen_EventProducer_has_listeners (subs_of s p))]
  | _ => Raised EUser s []
  end.

Definition gen_make_spec (E : menv) (e : evspec) : option mk :=
  match e with
  | EvPlain a c chk => Some (gen_Event___init__ E a c chk)
  | EvTimed ts a c chk => Some (gen_TimedEvent___init__ E ts a c chk)
  | EvNotAnEvent => None
  end.

(* construct the event (the constructor may refuse), then call the method *)
Definition with_spec (s : state) (m : option mk) (call : evarg -> res) : res :=
  match m with
  | None => call None
  | Some (MkErr k) => Raised k s []
  | Some (MkOk ev) => call (Some ev)
  end.

Fixpoint gen_exec (E : menv) (fuel : nat) (s : state) (o : op) : res :=
  match fuel with
  | O => OutOfFuel
  | S f =>
      match o with
      | OFire p a c chk => gen_EventProducer_fire E (gen_exec E f) s p a c chk
      | OFireTimed p ts a c chk => gen_EventProducer_fire_timed E (gen_exec E f) s p ts a c chk
      | OFireEvent p e => with_spec s (gen_make_spec E e) (gen_EventProducer_fire_event (gen_exec E f) s p)
      | OFireTimedEvent p e => with_spec s (gen_make_spec E e) (gen_EventProducer_fire_timed_event (gen_exec E f) s p)
      | _ => gen_pure_step s o
      end
  end.

Fixpoint gen_run_top (E : menv) (fuel : nat) (s : state) (ops : list op) : option (state * list obs) :=
  match ops with
  | [] => Some (s, [])
  | o :: r =>
      match gen_exec E fuel s o with
      | OutOfFuel => None
      | Done s1 t =>
          match gen_run_top E fuel s1 r with
          | Some (s2, t2) => Some (s2, t ++ ObsRet :: t2)
          | None => None
          end
      | Raised k s1 t =>
          match gen_run_top E fuel s1 r with
          | Some (s2, t2) => Some (s2, t ++ ObsRaise k :: t2)
          | None => None
          end
      end
  end.

Lemma upd_prod_const p (f : submap -> submap) : forall ps,
  upd_prod p f ps = upd_prod p (fun _ => f (prod_subs ps p)) ps.
Proof.
  induction p as [| p IH]; intros [| m r]; cbn; try reflexivity.
  - rewrite (IH []). unfold prod_subs. destruct p; reflexivity.
  - rewrite (IH r). reflexivity.
Qed.

Lemma on_prod_const s p f : on_prod s p f = on_prod s p (fun _ => f (subs_of s p)).
Proof. unfold on_prod, subs_of. rewrite upd_prod_const. reflexivity. Qed.

Theorem gen_pure_step_eq : forall s o, gen_pure_step s o = pure_step s o.
Proof.
  intros s o. destruct o as [p a b | p a b | p a b | p | | | | |]; cbn [gen_pure_step pure_step];
    rewrite ?gen_EventProducer_add_listener_eq, ?gen_EventProducer_remove_listener_eq,
            ?gen_EventProducer_remove_all_listeners_eq, ?gen_EventProducer_has_listeners_eq;
    try reflexivity;
    destruct a, b; cbn; try reflexivity; rewrite <- on_prod_const; reflexivity.
Qed.

(* the model depends on the listener-operation interpreter only through its values *)
Lemma bind_res_ext r (k1 k2 : state -> res) : (forall s, k1 s = k2 s) -> bind_res r k1 = bind_res r k2.
Proof. intros H. destruct r; cbn; [rewrite H |..]; reflexivity. Qed.

Section StepExt.
  Variables st1 st2 : state -> op -> res.
  Hypothesis Hst : forall s o, st1 s o = st2 s o.

  Lemma run_list_ext : forall ops s, run_list st1 s ops = run_list st2 s ops.
  Proof.
    induction ops as [| o r IH]; intros s; [reflexivity |].
    cbn [run_list]. rewrite Hst. apply bind_res_ext. intros s1. apply IH.
  Qed.

  Lemma notify_ext i ev s l : notify st1 i ev s l = notify st2 i ev s l.
  Proof. unfold notify. destruct (pop_script l (st_scripts s)) as [q scr']. rewrite run_list_ext. reflexivity. Qed.

  Lemma deliver_all_ext i ev : forall ls s, deliver_all st1 i ev s ls = deliver_all st2 i ev s ls.
  Proof.
    induction ls as [| l r IH]; intros s; [reflexivity |].
    cbn [deliver_all]. rewrite notify_ext. apply bind_res_ext. intros s1. apply IH.
  Qed.

  Lemma fire_ev_ext s p ev : fire_ev st1 s p ev = fire_ev st2 s p ev.
  Proof. unfold fire_ev. cbv zeta. rewrite deliver_all_ext. reflexivity. Qed.

  Lemma fire_mk_ext s p m : fire_mk st1 s p m = fire_mk st2 s p m.
  Proof. destruct m; cbn; [apply fire_ev_ext | reflexivity]. Qed.
End StepExt.

Lemma gen_make_spec_eq E : env_wf E -> forall e, gen_make_spec E e = make_spec E e.
Proof.
  intros WF [a c chk | ts a c chk |]; cbn; [rewrite (gen_Event___init___eq E WF) | rewrite (gen_TimedEvent___init___eq E WF) |]; reflexivity.
Qed.

Theorem gen_exec_eq : forall E, env_wf E -> forall fuel s o, gen_exec E fuel s o = exec E fuel s o.
Proof.
  intros E WF. induction fuel as [| f IH]; intros s o; [reflexivity |].
  destruct o as [p a b | p a b | p a b | p | p a c chk | p ts a c chk | p e | p e |]; cbn [gen_exec exec];
    try apply gen_pure_step_eq.
  - rewrite (gen_EventProducer_fire_eq E WF). apply fire_mk_ext. exact IH.
  - rewrite (gen_EventProducer_fire_timed_eq E WF). apply fire_mk_ext. exact IH.
  - rewrite (gen_make_spec_eq E WF). destruct (make_spec E e) as [[ev | k] |]; cbn [with_spec]; try reflexivity.
    rewrite gen_EventProducer_fire_event_eq. cbn [model_fire_event fire_mk]. apply fire_ev_ext. exact IH.
  - rewrite (gen_make_spec_eq E WF). destruct (make_spec E e) as [[ev | k] |]; cbn [with_spec]; try reflexivity.
    rewrite gen_EventProducer_fire_timed_event_eq. cbn [model_fire_timed_event].
    destruct (ev_time ev); [apply fire_ev_ext; exact IH | reflexivity].
Qed.

Theorem gen_run_top_eq : forall E, env_wf E -> forall fuel ops s, gen_run_top E fuel s ops = run_top E fuel s ops.
Proof.
  intros E WF fuel. induction ops as [| o r IH]; intros s; [reflexivity |].
  cbn [gen_run_top run_top]. rewrite (gen_exec_eq E WF).
  destruct (exec E fuel s o) as [s1 t | k s1 t |]; [rewrite IH | rewrite IH |]; reflexivity.
Qed.

(* sequences of EventType constructions *)
Fixpoint gen_make_types (reg : registry) (cs : list (nat * namev * raw_md)) : registry * list etres :=
  match cs with
  | [] => (reg, [])
  | (site, name, md) :: r =>
      let '(reg1, x) := gen_EventType___init__ reg site name md in
      let '(reg2, xs) := gen_make_types reg1 r in
      (reg2, x :: xs)
  end.

Theorem gen_make_types_eq : forall cs, Forall (fun c => rawmd_wf (snd c)) cs ->
  forall reg, gen_make_types reg cs = make_types reg cs.
Proof.
  induction cs as [| [[site name] md] r IH]; intros WF reg; [reflexivity |].
  inversion WF as [| ? ? Hmd Hr]; subst. cbn [gen_make_types make_types].
  rewrite (gen_EventType___init___eq reg site name md Hmd).
  destruct (make_event_type reg site name md) as [reg1 x]. rewrite (IH Hr reg1). reflexivity.
Qed.

(* ====================================================================== *)
(* Summary quoted by Props/C08.v                                           *)
(* ====================================================================== *)
Theorem pubsub_generated_agree :
  gen_EventProducer___init__ = [] /\
  (forall m a b, gen_EventProducer_add_listener m a b = model_add m a b) /\
  (forall m a b, gen_EventProducer_remove_listener m a b = model_remove m a b) /\
  (forall m a b, gen_EventProducer_remove_all_listeners m a b = model_remove_all m a b) /\
  (forall m, gen_EventProducer_has_listeners m = has_listeners m) /\
  (forall step s p oe, gen_EventProducer_fire_event step s p oe = model_fire_event step s p oe) /\
  (forall step s p oe, gen_EventProducer_fire_timed_event step s p oe = model_fire_timed_event step s p oe) /\
  (forall E, env_wf E ->
     (forall a c chk, gen_Event___init__ E a c chk = make_event E a c chk) /\
     (forall ts a c chk, gen_TimedEvent___init__ E ts a c chk = make_timed E ts a c chk) /\
     (forall step s p a c chk, gen_EventProducer_fire E step s p a c chk = fire_mk step s p (make_event E a c chk)) /\
     (forall step s p ts a c chk,
        gen_EventProducer_fire_timed E step s p ts a c chk = fire_mk step s p (make_timed E ts a c chk)) /\
     (forall fuel s o, gen_exec E fuel s o = exec E fuel s o) /\
     (forall fuel ops s, gen_run_top E fuel s ops = run_top E fuel s ops)) /\
  (forall s o, gen_pure_step s o = pure_step s o) /\
  (forall reg site name md, rawmd_wf md ->
     gen_EventType___init__ reg site name md = make_event_type reg site name md) /\
  (forall cs, Forall (fun c => rawmd_wf (snd c)) cs -> forall reg, gen_make_types reg cs = make_types reg cs).
Proof.
  split; [exact gen_EventProducer___init___eq |].
  split; [exact gen_EventProducer_add_listener_eq |].
  split; [exact gen_EventProducer_remove_listener_eq |].
  split; [exact gen_EventProducer_remove_all_listeners_eq |].
  split; [exact gen_EventProducer_has_listeners_eq |].
  split; [exact gen_EventProducer_fire_event_eq |].
  split; [exact gen_EventProducer_fire_timed_event_eq |].
  split; [intros E WF; repeat split |].
  - exact (gen_Event___init___eq E WF).
  - exact (gen_TimedEvent___init___eq E WF).
  - exact (gen_EventProducer_fire_eq E WF).
  - exact (gen_EventProducer_fire_timed_eq E WF).
  - exact (gen_exec_eq E WF).
  - exact (gen_run_top_eq E WF).
  - split; [exact gen_pure_step_eq |]. split; [exact gen_EventType___init___eq | exact gen_make_types_eq].
Qed.

(* ---------- the main theorems, over the generated definitions ---------- *)
Theorem gen_every_history_has_a_behaviour E scr ops : env_wf E ->
  exists s' t, gen_run_top E (fuel_for (init scr)) (init scr) ops = Some (s', t).
Proof. intros WF. rewrite (gen_run_top_eq E WF). apply enough_fuel. Qed.

Theorem gen_exactly_once_history E fuel scr ops s' t i ev subs : env_wf E ->
  gen_run_top E fuel (init scr) ops = Some (s', t) ->
  In (ObsFire i ev subs) t -> In (ObsFireDone i) t ->
  notified i t = subs /\
  (forall l, count_occ Nat.eq_dec (notified i t) l = if memb l subs then 1 else 0) /\
  Forall (fun d => snd d = ev) (dels i t).
Proof. intros WF R. rewrite (gen_run_top_eq E WF) in R. exact (exactly_once_history E fuel scr ops s' t i ev subs R). Qed.

Theorem gen_fire_delivers_snapshot_history E fuel scr ops s' t i ev subs : env_wf E ->
  gen_run_top E fuel (init scr) ops = Some (s', t) ->
  In (ObsFire i ev subs) t ->
  NoDup subs /\
  (exists k, dels i t = to ev (firstn k subs)) /\
  (In (ObsFireDone i) t -> dels i t = to ev subs) /\
  (forall ev' subs', In (ObsFire i ev' subs') t -> ev' = ev /\ subs' = subs).
Proof. intros WF R. rewrite (gen_run_top_eq E WF) in R. exact (fire_delivers_snapshot_history E fuel scr ops s' t i ev subs R). Qed.

Theorem gen_nobody_else_history E fuel scr ops s' t i l ev : env_wf E ->
  gen_run_top E fuel (init scr) ops = Some (s', t) ->
  In (ObsDeliver i l ev) t ->
  exists subs, In (ObsFire i ev subs) t /\ In l subs.
Proof. intros WF R. rewrite (gen_run_top_eq E WF) in R. exact (nobody_else_history E fuel scr ops s' t i l ev R). Qed.

Theorem gen_event_accepted_iff E et c chk : env_wf E -> payload_wf c ->
  ((exists e, gen_Event___init__ E (Good et) c chk = MkOk e) <-> acceptable (md_of E et) c chk).
Proof. intros WF Hc. rewrite (gen_Event___init___eq E WF). exact (event_accepted_iff E et c chk (WF et) Hc). Qed.

Theorem gen_timed_event_keeps_timestamp E ts a c chk e : env_wf E ->
  gen_TimedEvent___init__ E ts a c chk = MkOk e ->
  ev_time e = Some ts /\ ev_content e = c /\ a = Good (ev_type e).
Proof. intros WF. rewrite (gen_TimedEvent___init___eq E WF). apply timed_event_keeps_timestamp. Qed.

Theorem gen_event_type_created_iff reg site name md e : rawmd_wf md ->
  (snd (gen_EventType___init__ reg site name md) = EtOk e <->
   exists n, name = NameStr n /\ ~ In (site, n) reg /\
     ((md = None /\ e = mkEType site n None) \/
      (exists m, md = Some (encode m) /\ e = mkEType site n (Some m)))).
Proof. intros WF. rewrite (gen_EventType___init___eq reg site name md WF). apply event_type_created_iff. Qed.

(* the hypotheses are satisfiable: an environment and a declaration that are Python dicts *)
Example env_wf_example : env_wf [None; Some [(0, TInt); (1, TBase)]] /\ rawmd_wf (Some [(KStr 0, VType TInt); (KNotStr, VNotType)]).
Proof.
  split.
  - intros [| [| [| et]]]; cbn; try exact I; repeat constructor; cbn; intuition discriminate.
  - cbn. repeat constructor. cbn. intuition.
Qed.
