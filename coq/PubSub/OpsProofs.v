(* The producer's operations read through [subscribers] (the association-list
   specification), at the level of [exec]; "exactly once" spelled out with
   occurrence counts; error paths leave the producer untouched. *)
From Coq Require Import ZArith List Bool Arith Lia.
From PV Require Import PubSub.Model PubSub.SubsProofs PubSub.EventProofs PubSub.Proofs.
Import ListNotations.

(* ---------- exactly once, counted ---------- *)
Lemma to_fst ev ls : map fst (to ev ls) = ls.
Proof. unfold to. rewrite map_map. cbn. apply map_id. Qed.

Lemma to_snd ev ls : Forall (fun d => snd d = ev) (to ev ls).
Proof. unfold to. apply Forall_forall. intros d H. apply in_map_iff in H. destruct H as [l [<- _]]. reflexivity. Qed.

Lemma NoDup_count_occ_memb l subs :
  NoDup subs -> count_occ Nat.eq_dec subs l = if memb l subs then 1 else 0.
Proof.
  intros H. destruct (memb l subs) eqn:M.
  - apply memb_In in M. apply NoDup_count_occ'; assumption.
  - apply memb_false in M. apply count_occ_not_In. exact M.
Qed.

Lemma NoDup_firstn (k : nat) (l : list nat) : NoDup l -> NoDup (firstn k l).
Proof.
  revert l. induction k as [|k IH]; intros l H; cbn; [constructor|].
  destruct l as [|x r]; [constructor|]. inversion H as [|? ? Hx Hr]; subst.
  constructor; [|apply IH; exact Hr].
  intros C. apply Hx. rewrite <- (firstn_skipn k r). apply in_or_app. left. exact C.
Qed.

(* the listeners notified by invocation i, in the order of notification *)
Definition notified (i : nat) (t : list obs) : list nat := map fst (dels i t).

(* A fire invocation that returned: the notified listeners are the subscribers
   at the moment of firing, in subscription order; every one of them exactly
   once and nobody else (count 1 / count 0); every delivery carries the fired
   event itself. *)
Theorem exactly_once_history E fuel scr ops s' t i ev subs :
  run_top E fuel (init scr) ops = Some (s', t) ->
  In (ObsFire i ev subs) t -> In (ObsFireDone i) t ->
  notified i t = subs /\
  (forall l, count_occ Nat.eq_dec (notified i t) l = if memb l subs then 1 else 0) /\
  Forall (fun d => snd d = ev) (dels i t).
Proof.
  intros R Hin Hd.
  destruct (fire_delivers_snapshot_history _ _ _ _ _ _ _ _ _ R Hin) as [Hnd [_ [Hall _]]].
  specialize (Hall Hd). unfold notified. rewrite Hall, to_fst.
  split; [reflexivity|]. split; [|apply to_snd].
  intros l. apply NoDup_count_occ_memb. exact Hnd.
Qed.

(* A fire invocation cut short by an exception out of a listener: a prefix of
   the subscribers was notified, nobody twice, nobody else. *)
Theorem at_most_once_history E fuel scr ops s' t i ev subs :
  run_top E fuel (init scr) ops = Some (s', t) ->
  In (ObsFire i ev subs) t ->
  (exists k, notified i t = firstn k subs) /\
  NoDup (notified i t) /\
  (forall l, In l (notified i t) -> In l subs) /\
  Forall (fun d => snd d = ev) (dels i t).
Proof.
  intros R Hin.
  destruct (fire_delivers_snapshot_history _ _ _ _ _ _ _ _ _ R Hin) as [Hnd [[k Hk] _]].
  unfold notified. rewrite Hk, to_fst.
  split; [exists k; reflexivity|]. split; [apply NoDup_firstn; exact Hnd|].
  split; [|apply to_snd].
  intros l Hl. rewrite <- (firstn_skipn k subs). apply in_or_app. left. exact Hl.
Qed.

(* the start marker of an invocation records the subscribers, on the producer
   the call is made on, in the state the call is made in *)
Theorem fire_marker_is_state E f s o p ev :
  fired_event E o = Some (p, ev) ->
  match exec E (S f) s o with
  | Done _ t | Raised _ _ t =>
      exists t', t = ObsFire (st_next s) ev (subscribers (subs_of s p) (ev_type ev)) :: t'
  | OutOfFuel => True
  end.
Proof.
  intros Hf. rewrite (exec_fire_reduces E f s o p ev Hf). unfold fire_ev.
  destruct (deliver_all _ _ _ _ _) as [s1 t1|k s1 t1|]; [| |exact I]; eexists; reflexivity.
Qed.

(* ---------- subscribe / unsubscribe at the level of exec ---------- *)
(* nothing changed: every producer's map, the pending listener programs and
   the invocation counter are what they were *)
Definition unchanged (s s' : state) : Prop :=
  st_scripts s' = st_scripts s /\ st_next s' = st_next s /\ forall q, subs_of s' q = subs_of s q.

Lemma subs_of_on_prod s p f q :
  subs_of (on_prod s p f) q = if Nat.eqb q p then f (subs_of s p) else subs_of s q.
Proof. unfold subs_of, on_prod. cbn. apply prod_subs_upd. Qed.

Lemma on_prod_unchanged s p f : f (subs_of s p) = subs_of s p -> unchanged s (on_prod s p f).
Proof.
  intros H. split; [reflexivity|]. split; [reflexivity|]. intros q. rewrite subs_of_on_prod.
  destruct (Nat.eqb q p) eqn:Eq; [|reflexivity]. apply Nat.eqb_eq in Eq. subst. exact H.
Qed.

Lemma on_prod_wfs s p f : (forall m, wf m -> wf (f m)) -> wfs (st_subs s) -> wfs (st_subs (on_prod s p f)).
Proof. intros Hf H. cbn. apply wfs_upd; assumption. Qed.

Definition oarg (o : option nat) : arg := match o with Some n => Good n | None => NoneArg end.

(* add_listener on producer p: the listener goes to the end of p's list for
   that type unless it is there already; other types and other producers are
   untouched *)
Theorem add_op E f s p et l :
  exists s', exec E (S f) s (OAdd p (Good et) (Good l)) = Done s' [] /\
    st_scripts s' = st_scripts s /\ st_next s' = st_next s /\
    (wfs (st_subs s) -> wfs (st_subs s')) /\
    forall q et', subscribers (subs_of s' q) et' =
      if Nat.eqb q p && Nat.eqb et' et then
        (if memb l (subscribers (subs_of s p) et) then subscribers (subs_of s p) et
         else subscribers (subs_of s p) et ++ [l])
      else subscribers (subs_of s q) et'.
Proof.
  eexists. split; [reflexivity|].
  split; [reflexivity|]. split; [reflexivity|]. split; [apply on_prod_wfs; intros m; apply sub_add_wf|].
  intros q et'. rewrite subs_of_on_prod. destruct (Nat.eqb q p) eqn:Eq; cbn [andb]; [|reflexivity].
  apply Nat.eqb_eq in Eq. subst q. apply sub_add_subscribers.
Qed.

(* a duplicate subscription is ignored: nothing at all changes *)
Theorem add_duplicate_ignored E f s p et l :
  In l (subscribers (subs_of s p) et) ->
  exists s', exec E (S f) s (OAdd p (Good et) (Good l)) = Done s' [] /\ unchanged s s'.
Proof.
  intros H. eexists. split; [reflexivity|]. apply on_prod_unchanged. apply sub_add_present. exact H.
Qed.

Theorem remove_op E f s p et l : wfs (st_subs s) ->
  exists s', exec E (S f) s (ORemove p (Good et) (Good l)) = Done s' [] /\
    st_scripts s' = st_scripts s /\ st_next s' = st_next s /\ wfs (st_subs s') /\
    forall q et', subscribers (subs_of s' q) et' =
      if Nat.eqb q p && Nat.eqb et' et then without l (subscribers (subs_of s p) et)
      else subscribers (subs_of s q) et'.
Proof.
  intros H. eexists. split; [reflexivity|].
  split; [reflexivity|]. split; [reflexivity|].
  split; [apply on_prod_wfs; [intros m; apply sub_remove_wf|exact H]|].
  intros q et'. rewrite subs_of_on_prod. destruct (Nat.eqb q p) eqn:Eq; cbn [andb]; [|reflexivity].
  apply Nat.eqb_eq in Eq. subst q. apply sub_remove_subscribers. apply wfs_prod. exact H.
Qed.

(* unsubscribing a listener that is not subscribed is harmless *)
Theorem remove_absent_harmless E f s p et l :
  ~ In l (subscribers (subs_of s p) et) ->
  (exists s', exec E (S f) s (ORemove p (Good et) (Good l)) = Done s' [] /\ unchanged s s') /\
  (exists s', exec E (S f) s (ORemoveAll p (Good et) (Good l)) = Done s' [] /\ unchanged s s').
Proof.
  intros H. split; (eexists; split; [reflexivity|]); apply on_prod_unchanged, sub_remove_absent, H.
Qed.

Lemma fold_remove_absent l ks : forall m,
  (forall et, ~ In l (subscribers m et)) ->
  fold_left (fun acc et => sub_remove et l acc) ks m = m.
Proof.
  induction ks as [|k r IH]; cbn; intros m H; [reflexivity|].
  rewrite (sub_remove_absent k l m (H k)). apply IH. exact H.
Qed.

Theorem remove_everywhere_absent_harmless E f s p l :
  (forall et, ~ In l (subscribers (subs_of s p) et)) ->
  exists s', exec E (S f) s (ORemoveAll p NoneArg (Good l)) = Done s' [] /\ unchanged s s'.
Proof.
  intros H. eexists. split; [reflexivity|]. apply on_prod_unchanged.
  unfold sub_remove_everywhere. apply fold_remove_absent. exact H.
Qed.

Lemma sub_del_absent et m : lookup et m = None -> sub_del et m = m.
Proof.
  induction m as [|[k ls] r IH]; cbn; [reflexivity|].
  destruct (Nat.eqb k et); [discriminate|]. intros H. f_equal. apply IH. exact H.
Qed.

Theorem remove_type_absent_harmless E f s p et : wfs (st_subs s) ->
  subscribers (subs_of s p) et = [] ->
  exists s', exec E (S f) s (ORemoveAll p (Good et) NoneArg) = Done s' [] /\ unchanged s s'.
Proof.
  intros Hw H. eexists. split; [reflexivity|]. apply on_prod_unchanged. apply sub_del_absent.
  unfold subscribers in H. destruct (lookup et (subs_of s p)) as [ls|] eqn:L; [|reflexivity].
  exfalso. apply (wf_lookup_nonempty _ _ _ (wfs_prod _ p Hw) L). exact H.
Qed.

(* the four argument forms of remove_all_listeners *)
Lemma remove_all_exec E f s p oet ol :
  exec E (S f) s (ORemoveAll p (oarg oet) (oarg ol)) = Done (on_prod s p (remove_all oet ol)) [].
Proof. destruct oet, ol; reflexivity. Qed.

Theorem remove_all_op E f s p oet ol : wfs (st_subs s) ->
  exists s', exec E (S f) s (ORemoveAll p (oarg oet) (oarg ol)) = Done s' [] /\
    st_scripts s' = st_scripts s /\ st_next s' = st_next s /\ wfs (st_subs s') /\
    forall q et', subscribers (subs_of s' q) et' =
      if Nat.eqb q p then remove_all_spec oet ol (subscribers (subs_of s p)) et'
      else subscribers (subs_of s q) et'.
Proof.
  intros H. rewrite remove_all_exec. eexists. split; [reflexivity|].
  split; [reflexivity|]. split; [reflexivity|].
  split; [apply on_prod_wfs; [intros m Hm; apply (remove_all_characterised oet ol m Hm)|exact H]|].
  intros q et'. rewrite subs_of_on_prod. destruct (Nat.eqb q p) eqn:Eq; [|reflexivity].
  apply (remove_all_characterised oet ol _ (wfs_prod _ p H)).
Qed.

(* remove_all_listeners(et, l) is remove_listener(et, l) *)
Theorem remove_all_both_is_remove E fuel s p et l :
  exec E fuel s (ORemoveAll p (Good et) (Good l)) = exec E fuel s (ORemove p (Good et) (Good l)).
Proof. destruct fuel; reflexivity. Qed.

Theorem has_listeners_op E f s p : wfs (st_subs s) ->
  exists b, exec E (S f) s (OHas p) = Done s [ObsHas b] /\
    (b = true <-> exists et l, In l (subscribers (subs_of s p) et)).
Proof.
  intros H. exists (has_listeners (subs_of s p)). split; [reflexivity|].
  apply has_listeners_iff, wfs_prod, H.
Qed.

(* ---------- error paths ---------- *)
(* an operation that does not call listeners and raises leaves every producer
   as it was, reports nothing, and (unless it is the listener program's own
   raise) raises EventError *)
Theorem pure_raise_leaves_state s o k s' t :
  pure_step s o = Raised k s' t ->
  s' = s /\ t = [] /\ (is_event_error k = false -> k = EUser).
Proof.
  destruct o as [p a l|p a l|p a l|p|p a c chk|p ts a c chk|p e|p e|]; cbn;
    try (destruct a as [et| |], l as [li| |]; cbn);
    intros H; inversion H; subst; repeat split; try reflexivity; cbn; intros; congruence.
Qed.

(* a refused event (bad event type argument, payload refused by the metadata,
   bad timestamp, not an event) raises EventError before anything is delivered
   and leaves the producers untouched *)
Theorem refused_fire_raises E f s o :
  (forall p a l, o <> OAdd p a l) -> (forall p a l, o <> ORemove p a l) -> (forall p a l, o <> ORemoveAll p a l) ->
  (forall p, o <> OHas p) -> o <> ORaise ->
  fired_event E o = None ->
  exists k, exec E (S f) s o = Raised k s [] /\ is_event_error k = true.
Proof.
  intros N1 N2 N3 N4 N5.
  destruct o as [p a l|p a l|p a l|p|p a c chk|p ts a c chk|p e|p e|]; cbn [fired_event exec];
    try (exfalso; first [apply (N1 _ _ _ eq_refl)|apply (N2 _ _ _ eq_refl)|apply (N3 _ _ _ eq_refl)
                        |apply (N4 _ eq_refl)|apply N5; reflexivity]).
  - destruct (make_event E a c chk) as [ev|k] eqn:M; [discriminate|]. intros _.
    exists k. split; [reflexivity|]. eapply make_event_error_kind. exact M.
  - destruct (make_timed E ts a c chk) as [ev|k] eqn:M; [discriminate|]. intros _.
    exists k. split; [reflexivity|]. eapply make_timed_error_kind. exact M.
  - destruct e as [a c chk|ts a c chk|]; cbn [make_spec].
    + destruct (make_event E a c chk) as [ev|k] eqn:M; [discriminate|]. intros _.
      exists k. split; [reflexivity|]. eapply make_event_error_kind. exact M.
    + destruct (make_timed E ts a c chk) as [ev|k] eqn:M; [discriminate|]. intros _.
      exists k. split; [reflexivity|]. eapply make_timed_error_kind. exact M.
    + intros _. exists ENotEvent. split; reflexivity.
  - destruct e as [a c chk|ts a c chk|]; cbn [make_spec].
    + destruct (make_event E a c chk) as [ev|k] eqn:M.
      * destruct (make_event_fields _ _ _ _ _ M) as [et [_ ->]]. cbn. intros _.
        exists ENotTimedEvent. split; reflexivity.
      * intros _. exists k. split; [reflexivity|]. eapply make_event_error_kind. exact M.
    + destruct (make_timed E ts a c chk) as [ev|k] eqn:M.
      * pose proof (timed_event_keeps_timestamp _ _ _ _ _ _ M) as [Ht _]. rewrite Ht. discriminate.
      * intros _. exists k. split; [reflexivity|]. eapply make_timed_error_kind. exact M.
    + intros _. exists ENotTimedEvent. split; reflexivity.
Qed.

(* ---------- producers do not interfere ---------- *)
(* an operation on producer p that does not fire leaves every other
   producer's map as it was *)
Theorem pure_step_other_producers s o s' t p :
  (o = ORaise \/ exists a l, o = OAdd p a l \/ o = ORemove p a l \/ o = ORemoveAll p a l \/ o = OHas p) ->
  pure_step s o = Done s' t ->
  forall q, q <> p -> subs_of s' q = subs_of s q.
Proof.
  intros Ho H q Hq. apply Nat.eqb_neq in Hq.
  destruct Ho as [-> | [a [l [-> | [-> | [-> | ->]]]]]]; cbn in H; try discriminate;
    try (destruct a as [et| |], l as [li| |]; cbn in H; try discriminate);
    inversion H; subst; try reflexivity; rewrite subs_of_on_prod, Hq; reflexivity.
Qed.
