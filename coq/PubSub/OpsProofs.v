(* The producer's operations read through [subscribers] (the association-list
   specification), at the level of [exec]; "exactly once" spelled out with
   occurrence counts; error paths leave the producer untouched. *)
From Coq Require Import ZArith List Bool Arith Lia.
From PV Require Import PubSub.Model PubSub.SubsProofs PubSub.EventProofs PubSub.Proofs.
Import ListNotations.

(* ---------- exactly once, counted ---------- *)
Lemma to_fst ev ls : map fst (to ev ls) = ls.
Proof. unfold to. rewrite map_map. cbn. apply map_id. Qed.

Lemma to_snd ev ls : Forall (fun d => snd d = ev) (to ev ls).
Proof. unfold to. apply Forall_forall. intros d H. apply in_map_iff in H. destruct H as [l [<- _]]. reflexivity. Qed.

Lemma NoDup_count_occ_memb l subs :
  NoDup subs -> count_occ Nat.eq_dec subs l = if memb l subs then 1 else 0.
Proof.
  intros H. destruct (memb l subs) eqn:M.
  - apply memb_In in M. apply NoDup_count_occ'; assumption.
  - apply memb_false in M. apply count_occ_not_In. exact M.
Qed.

Lemma NoDup_firstn (k : nat) (l : list nat) : NoDup l -> NoDup (firstn k l).
Proof.
  revert l. induction k as [|k IH]; intros l H; cbn; [constructor|].
  destruct l as [|x r]; [constructor|]. inversion H as [|? ? Hx Hr]; subst.
  constructor; [|apply IH; exact Hr].
  intros C. apply Hx. rewrite <- (firstn_skipn k r). apply in_or_app. left. exact C.
Qed.

(* the listeners notified by invocation i, in the order of notification *)
Definition notified (i : nat) (t : list obs) : list nat := map fst (dels i t).

(* A fire invocation that returned: the notified listeners are the subscribers
   at the moment of firing, in subscription order; every one of them exactly
   once and nobody else (count 1 / count 0); every delivery carries the fired
   event itself. *)
Theorem exactly_once_history E fuel scr ops s' t i ev subs :
  run_top E fuel (init scr) ops = Some (s', t) ->
  In (ObsFire i ev subs) t -> In (ObsFireDone i) t ->
  notified i t = subs /\
  (forall l, count_occ Nat.eq_dec (notified i t) l = if memb l subs then 1 else 0) /\
  Forall (fun d => snd d = ev) (dels i t).
Proof.
  intros R Hin Hd.
  destruct (fire_delivers_snapshot_history _ _ _ _ _ _ _ _ _ R Hin) as [Hnd [_ [Hall _]]].
  specialize (Hall Hd). unfold notified. rewrite Hall, to_fst.
  split; [reflexivity|]. split; [|apply to_snd].
  intros l. apply NoDup_count_occ_memb. exact Hnd.
Qed.

(* A fire invocation cut short by an exception out of a listener: a prefix of
   the subscribers was notified, nobody twice, nobody else. *)
Theorem at_most_once_history E fuel scr ops s' t i ev subs :
  run_top E fuel (init scr) ops = Some (s', t) ->
  In (ObsFire i ev subs) t ->
  (exists k, notified i t = firstn k subs) /\
  NoDup (notified i t) /\
  (forall l, In l (notified i t) -> In l subs) /\
  Forall (fun d => snd d = ev) (dels i t).
Proof.
  intros R Hin.
  destruct (fire_delivers_snapshot_history _ _ _ _ _ _ _ _ _ R Hin) as [Hnd [[k Hk] _]].
  unfold notified. rewrite Hk, to_fst.
  split; [exists k; reflexivity|]. split; [apply NoDup_firstn; exact Hnd|].
  split; [|apply to_snd].
  intros l Hl. rewrite <- (firstn_skipn k subs). apply in_or_app. left. exact Hl.
Qed.

(* the start marker of an invocation records the subscribers of the state the
   call is made in *)
Theorem fire_marker_is_state E f s o ev :
  fired_event E o = Some ev ->
  match exec E (S f) s o with
  | Done _ t | Raised _ _ t =>
      exists t', t = ObsFire (st_next s) ev (subscribers (st_subs s) (ev_type ev)) :: t'
  | OutOfFuel => True
  end.
Proof.
  intros Hf. rewrite (exec_fire_reduces E f s o ev Hf). unfold fire_ev.
  destruct (deliver_all _ _ _ _ _) as [s1 t1|k s1 t1|]; [| |exact I]; eexists; reflexivity.
Qed.

(* ---------- subscribe / unsubscribe at the level of exec ---------- *)
Lemma set_subs_same s : set_subs s (st_subs s) = s.
Proof. destruct s; reflexivity. Qed.

Definition oarg (o : option nat) : arg := match o with Some n => Good n | None => NoneArg end.

Theorem add_op E f s et l :
  exists s', exec E (S f) s (OAdd (Good et) (Good l)) = Done s' [] /\
    st_scripts s' = st_scripts s /\ st_next s' = st_next s /\
    (wf (st_subs s) -> wf (st_subs s')) /\
    forall et', subscribers (st_subs s') et' =
      if Nat.eqb et' et then
        (if memb l (subscribers (st_subs s) et) then subscribers (st_subs s) et
         else subscribers (st_subs s) et ++ [l])
      else subscribers (st_subs s) et'.
Proof.
  eexists. split; [reflexivity|]. cbn.
  split; [reflexivity|]. split; [reflexivity|]. split; [apply sub_add_wf|].
  intros et'. apply sub_add_subscribers.
Qed.

(* a duplicate subscription is ignored: nothing at all changes *)
Theorem add_duplicate_ignored E f s et l :
  In l (subscribers (st_subs s) et) ->
  exec E (S f) s (OAdd (Good et) (Good l)) = Done s [].
Proof.
  intros H. cbn. rewrite (sub_add_present et l _ H), set_subs_same. reflexivity.
Qed.

Theorem remove_op E f s et l : wf (st_subs s) ->
  exists s', exec E (S f) s (ORemove (Good et) (Good l)) = Done s' [] /\
    st_scripts s' = st_scripts s /\ st_next s' = st_next s /\ wf (st_subs s') /\
    forall et', subscribers (st_subs s') et' =
      if Nat.eqb et' et then without l (subscribers (st_subs s) et)
      else subscribers (st_subs s) et'.
Proof.
  intros H. eexists. split; [reflexivity|]. cbn.
  split; [reflexivity|]. split; [reflexivity|]. split; [apply sub_remove_wf; exact H|].
  intros et'. apply sub_remove_subscribers. exact H.
Qed.

(* unsubscribing a listener that is not subscribed is harmless *)
Theorem remove_absent_harmless E f s et l :
  ~ In l (subscribers (st_subs s) et) ->
  exec E (S f) s (ORemove (Good et) (Good l)) = Done s [] /\
  exec E (S f) s (ORemoveAll (Good et) (Good l)) = Done s [].
Proof.
  intros H. cbn. rewrite (sub_remove_absent et l _ H), set_subs_same. split; reflexivity.
Qed.

Lemma fold_remove_absent l ks : forall m,
  (forall et, ~ In l (subscribers m et)) ->
  fold_left (fun acc et => sub_remove et l acc) ks m = m.
Proof.
  induction ks as [|k r IH]; cbn; intros m H; [reflexivity|].
  rewrite (sub_remove_absent k l m (H k)). apply IH. exact H.
Qed.

Theorem remove_everywhere_absent_harmless E f s l :
  (forall et, ~ In l (subscribers (st_subs s) et)) ->
  exec E (S f) s (ORemoveAll NoneArg (Good l)) = Done s [].
Proof.
  intros H. cbn. unfold sub_remove_everywhere.
  rewrite (fold_remove_absent l _ _ H), set_subs_same. reflexivity.
Qed.

Lemma sub_del_absent et m : lookup et m = None -> sub_del et m = m.
Proof.
  induction m as [|[k ls] r IH]; cbn; [reflexivity|].
  destruct (Nat.eqb k et); [discriminate|]. intros H. f_equal. apply IH. exact H.
Qed.

Theorem remove_type_absent_harmless E f s et : wf (st_subs s) ->
  subscribers (st_subs s) et = [] ->
  exec E (S f) s (ORemoveAll (Good et) NoneArg) = Done s [].
Proof.
  intros Hw H. cbn. rewrite sub_del_absent, set_subs_same; [reflexivity|].
  unfold subscribers in H. destruct (lookup et (st_subs s)) as [ls|] eqn:L; [|reflexivity].
  exfalso. apply (wf_lookup_nonempty _ _ _ Hw L). exact H.
Qed.

(* the four argument forms of remove_all_listeners *)
Lemma remove_all_exec E f s oet ol :
  exec E (S f) s (ORemoveAll (oarg oet) (oarg ol)) =
  Done (set_subs s (remove_all oet ol (st_subs s))) [].
Proof. destruct oet, ol; reflexivity. Qed.

Theorem remove_all_op E f s oet ol : wf (st_subs s) ->
  exists s', exec E (S f) s (ORemoveAll (oarg oet) (oarg ol)) = Done s' [] /\
    st_scripts s' = st_scripts s /\ st_next s' = st_next s /\ wf (st_subs s') /\
    forall et', subscribers (st_subs s') et' =
                remove_all_spec oet ol (subscribers (st_subs s)) et'.
Proof.
  intros H. rewrite remove_all_exec. eexists. split; [reflexivity|]. cbn.
  destruct (remove_all_characterised oet ol _ H) as [Hw Hs].
  split; [reflexivity|]. split; [reflexivity|]. split; assumption.
Qed.

(* remove_all_listeners(et, l) is remove_listener(et, l) *)
Theorem remove_all_both_is_remove E fuel s et l :
  exec E fuel s (ORemoveAll (Good et) (Good l)) = exec E fuel s (ORemove (Good et) (Good l)).
Proof. destruct fuel; reflexivity. Qed.

Theorem has_listeners_op E f s : wf (st_subs s) ->
  exists b, exec E (S f) s OHas = Done s [ObsHas b] /\
    (b = true <-> exists et l, In l (subscribers (st_subs s) et)).
Proof.
  intros H. exists (has_listeners (st_subs s)). split; [reflexivity|]. apply has_listeners_iff. exact H.
Qed.

(* ---------- error paths ---------- *)
(* an operation that does not call listeners and raises leaves the producer as
   it was, reports nothing, and (unless it is the listener program's own raise)
   raises EventError *)
Theorem pure_raise_leaves_state s o k s' t :
  pure_step s o = Raised k s' t ->
  s' = s /\ t = [] /\ (is_event_error k = false -> k = EUser).
Proof.
  destruct o as [a l|a l|a l| |a c chk|ts a c chk|e|e|]; cbn;
    try (destruct a as [et| |], l as [li| |]; cbn);
    intros H; inversion H; subst; repeat split; try reflexivity; cbn; intros; congruence.
Qed.

(* a refused event (bad event type argument, payload refused by the metadata,
   bad timestamp, not an event) raises EventError before anything is delivered
   and leaves the producer untouched *)
Theorem refused_fire_raises E f s o :
  (forall a l, o <> OAdd a l) -> (forall a l, o <> ORemove a l) -> (forall a l, o <> ORemoveAll a l) ->
  o <> OHas -> o <> ORaise ->
  fired_event E o = None ->
  exists k, exec E (S f) s o = Raised k s [] /\ is_event_error k = true.
Proof.
  intros N1 N2 N3 N4 N5.
  destruct o as [a l|a l|a l| |a c chk|ts a c chk|e|e|]; cbn [fired_event exec];
    try (exfalso; first [apply (N1 _ _ eq_refl)|apply (N2 _ _ eq_refl)|apply (N3 _ _ eq_refl)
                        |apply N4; reflexivity|apply N5; reflexivity]).
  - destruct (make_event E a c chk) as [ev|k] eqn:M; [discriminate|]. intros _.
    exists k. split; [reflexivity|]. eapply make_event_error_kind. exact M.
  - destruct (make_timed E ts a c chk) as [ev|k] eqn:M; [discriminate|]. intros _.
    exists k. split; [reflexivity|]. eapply make_timed_error_kind. exact M.
  - destruct e as [a c chk|ts a c chk|]; cbn [make_spec].
    + destruct (make_event E a c chk) as [ev|k] eqn:M; [discriminate|]. intros _.
      exists k. split; [reflexivity|]. eapply make_event_error_kind. exact M.
    + destruct (make_timed E ts a c chk) as [ev|k] eqn:M; [discriminate|]. intros _.
      exists k. split; [reflexivity|]. eapply make_timed_error_kind. exact M.
    + intros _. exists ENotEvent. split; reflexivity.
  - destruct e as [a c chk|ts a c chk|]; cbn [make_spec].
    + destruct (make_event E a c chk) as [ev|k] eqn:M.
      * destruct (make_event_fields _ _ _ _ _ M) as [et [_ ->]]. cbn. intros _.
        exists ENotTimedEvent. split; reflexivity.
      * intros _. exists k. split; [reflexivity|]. eapply make_event_error_kind. exact M.
    + destruct (make_timed E ts a c chk) as [ev|k] eqn:M.
      * pose proof (timed_event_keeps_timestamp _ _ _ _ _ _ M) as [Ht _]. rewrite Ht. discriminate.
      * intros _. exists k. split; [reflexivity|]. eapply make_timed_error_kind. exact M.
    + intros _. exists ENotTimedEvent. split; reflexivity.
Qed.
