(* Facts about the subscription map (dict EventType -> list of listeners):
   well-formedness invariant, and the characterisation of add_listener,
   remove_listener, the remove_all_listeners forms and has_listeners against
   the association-list reading [subscribers]. *)
From Coq Require Import List Bool Arith Lia.
From PV Require Import PubSub.Model.
Import ListNotations.

(* ---------- membership, remove_first ---------- *)
Lemma memb_In x l : memb x l = true <-> In x l.
Proof.
  unfold memb. rewrite existsb_exists. split.
  - intros [y [Hy E]]. apply Nat.eqb_eq in E. subst. exact Hy.
  - intros H. exists x. split; [exact H|apply Nat.eqb_refl].
Qed.

Lemma memb_false x l : memb x l = false <-> ~ In x l.
Proof.
  rewrite <- memb_In. destruct (memb x l); intuition congruence.
Qed.

(* the specification of list.remove on a duplicate-free list: the other
   elements stay, in their order *)
Definition without (x : nat) (l : list nat) : list nat :=
  filter (fun y => negb (Nat.eqb x y)) l.

Lemma without_notin x l : ~ In x l -> without x l = l.
Proof.
  induction l as [|y r IH]; cbn; [reflexivity|]. intros H.
  destruct (Nat.eqb x y) eqn:E; cbn.
  - apply Nat.eqb_eq in E. subst. exfalso. apply H. left. reflexivity.
  - f_equal. apply IH. intros Hin. apply H. right. exact Hin.
Qed.

Lemma remove_first_without x l : NoDup l -> remove_first x l = without x l.
Proof.
  induction 1 as [|y r Hy Hnd IH]; cbn; [reflexivity|].
  destruct (Nat.eqb x y) eqn:E; cbn.
  - apply Nat.eqb_eq in E. subst. symmetry. apply without_notin. exact Hy.
  - f_equal. exact IH.
Qed.

Lemma remove_first_notin x l : ~ In x l -> remove_first x l = l.
Proof.
  induction l as [|y r IH]; cbn; [reflexivity|]. intros H.
  destruct (Nat.eqb x y) eqn:E.
  - apply Nat.eqb_eq in E. subst. exfalso. apply H. left. reflexivity.
  - f_equal. apply IH. intros Hin. apply H. right. exact Hin.
Qed.

Lemma In_without x y l : In y (without x l) <-> In y l /\ y <> x.
Proof.
  unfold without. rewrite filter_In, negb_true_iff, Nat.eqb_neq.
  split; intros [H1 H2]; split; auto.
Qed.

Lemma NoDup_without x l : NoDup l -> NoDup (without x l).
Proof. apply NoDup_filter. Qed.

Lemma In_remove_first x y l : NoDup l -> (In y (remove_first x l) <-> In y l /\ y <> x).
Proof. intros H. rewrite remove_first_without by exact H. apply In_without. Qed.

Lemma NoDup_remove_first x l : NoDup l -> NoDup (remove_first x l).
Proof. intros H. rewrite remove_first_without by exact H. apply NoDup_without, H. Qed.

Lemma remove_first_idem x l : NoDup l -> remove_first x (remove_first x l) = remove_first x l.
Proof.
  intros H. apply remove_first_notin. rewrite In_remove_first by exact H. intros [_ C]. congruence.
Qed.

Lemma NoDup_snoc (x : nat) l : NoDup l -> ~ In x l -> NoDup (l ++ [x]).
Proof.
  intros Hl Hx. apply NoDup_rev in Hl. rewrite <- (rev_involutive (l ++ [x])).
  apply NoDup_rev. rewrite rev_app_distr. cbn. constructor; [|exact Hl].
  rewrite <- in_rev. exact Hx.
Qed.

(* ---------- the invariant ---------- *)
Definition entry_ok (p : nat * list nat) : Prop := NoDup (snd p) /\ snd p <> [].

(* no event type stored twice, no listener twice per type, no empty list stored *)
Definition wf (m : submap) : Prop := NoDup (map fst m) /\ Forall entry_ok m.

Lemma wf_nil : wf [].
Proof. split; constructor. Qed.

Lemma wf_cons k ls r : wf ((k, ls) :: r) <-> ~ In k (map fst r) /\ NoDup ls /\ ls <> [] /\ wf r.
Proof.
  unfold wf. cbn. split.
  - intros [Hk Hall]. inversion Hk; subst. inversion Hall; subst.
    destruct H3 as [A B]. cbn in A, B. auto.
  - intros [Hk [Hnd [Hne [Hk' Hall]]]]. split; constructor; auto. split; assumption.
Qed.

Lemma lookup_None et m : lookup et m = None <-> ~ In et (map fst m).
Proof.
  induction m as [|[k ls] r IH]; cbn; [tauto|].
  destruct (Nat.eqb k et) eqn:E.
  - apply Nat.eqb_eq in E. subst. split; [discriminate|]. intros H. exfalso. apply H. left. reflexivity.
  - apply Nat.eqb_neq in E. rewrite IH. tauto.
Qed.

Lemma subscribers_notin et m : ~ In et (map fst m) -> subscribers m et = [].
Proof. intros H. unfold subscribers. apply lookup_None in H. rewrite H. reflexivity. Qed.

Lemma subscribers_cons k ls r et :
  subscribers ((k, ls) :: r) et = if Nat.eqb k et then ls else subscribers r et.
Proof. unfold subscribers. cbn. destruct (Nat.eqb k et); reflexivity. Qed.

Lemma lookup_In et m ls : lookup et m = Some ls -> In (et, ls) m.
Proof.
  induction m as [|[k l0] r IH]; cbn; [discriminate|].
  destruct (Nat.eqb k et) eqn:E.
  - apply Nat.eqb_eq in E. intros H. inversion H. subst. left. reflexivity.
  - intros H. right. apply IH. exact H.
Qed.

Lemma wf_subscribers_NoDup m et : wf m -> NoDup (subscribers m et).
Proof.
  intros [_ Hall]. unfold subscribers. destruct (lookup et m) as [ls|] eqn:E; [|constructor].
  apply lookup_In in E. rewrite Forall_forall in Hall. apply (Hall _ E).
Qed.

(* the stored entry of a type is never empty: "type has an entry" and "type
   has a subscriber" coincide *)
Lemma wf_lookup_nonempty m et ls : wf m -> lookup et m = Some ls -> ls <> [].
Proof.
  intros [_ Hall] E. apply lookup_In in E. rewrite Forall_forall in Hall. apply (Hall _ E).
Qed.

(* ---------- add_listener ---------- *)
Lemma sub_add_keys et l m k : In k (map fst (sub_add et l m)) <-> k = et \/ In k (map fst m).
Proof.
  induction m as [|[k0 ls] r IH]; cbn.
  - intuition.
  - destruct (Nat.eqb k0 et) eqn:E; cbn.
    + apply Nat.eqb_eq in E. subst. intuition.
    + rewrite IH. intuition.
Qed.

Lemma sub_add_wf et l m : wf m -> wf (sub_add et l m).
Proof.
  induction m as [|[k ls] r IH]; cbn; intros H.
  - apply wf_cons. cbn. split; [tauto|]. split; [constructor; [cbn; tauto|constructor]|].
    split; [discriminate|apply wf_nil].
  - apply wf_cons in H. destruct H as [Hk [Hnd [Hne Hr]]].
    destruct (Nat.eqb k et) eqn:E.
    + apply wf_cons. split; [exact Hk|]. split; [|split; [|exact Hr]].
      * destruct (memb l ls) eqn:M; [exact Hnd|]. apply NoDup_snoc; [exact Hnd|]. apply memb_false. exact M.
      * destruct (memb l ls); [exact Hne|]. destruct ls; discriminate.
    + apply wf_cons. split; [|split; [exact Hnd|split; [exact Hne|apply IH; exact Hr]]].
      rewrite sub_add_keys. apply Nat.eqb_neq in E. intros [C|C]; [congruence|auto].
Qed.

(* what add_listener does, read through [subscribers] *)
Lemma sub_add_subscribers et l m et' :
  subscribers (sub_add et l m) et' =
  if Nat.eqb et' et then
    (if memb l (subscribers m et) then subscribers m et else subscribers m et ++ [l])
  else subscribers m et'.
Proof.
  induction m as [|[k ls] r IH]; cbn.
  - rewrite subscribers_cons. rewrite (Nat.eqb_sym et' et). destruct (Nat.eqb et et'); reflexivity.
  - destruct (Nat.eqb k et) eqn:E.
    + apply Nat.eqb_eq in E. subst k. rewrite !subscribers_cons. rewrite Nat.eqb_refl.
      rewrite (Nat.eqb_sym et' et). destruct (Nat.eqb et et'); reflexivity.
    + rewrite !subscribers_cons, E. destruct (Nat.eqb k et') eqn:E'.
      * apply Nat.eqb_eq in E'. subst k. rewrite E. reflexivity.
      * exact IH.
Qed.

Lemma sub_add_idempotent et l m : sub_add et l (sub_add et l m) = sub_add et l m.
Proof.
  induction m as [|[k ls] r IH]; cbn.
  - rewrite Nat.eqb_refl. cbn. rewrite Nat.eqb_refl. reflexivity.
  - destruct (Nat.eqb k et) eqn:E; cbn; rewrite E.
    + f_equal. f_equal. destruct (memb l ls) eqn:M; [rewrite M; reflexivity|].
      assert (H : memb l (ls ++ [l]) = true).
      { apply memb_In. apply in_or_app. right. left. reflexivity. }
      rewrite H. reflexivity.
    + f_equal. exact IH.
Qed.

(* a duplicate subscription is ignored *)
Lemma sub_add_present et l m : In l (subscribers m et) -> sub_add et l m = m.
Proof.
  induction m as [|[k ls] r IH]; cbn.
  - unfold subscribers. cbn. tauto.
  - rewrite subscribers_cons. destruct (Nat.eqb k et) eqn:E.
    + intros H. apply memb_In in H. rewrite H. reflexivity.
    + intros H. f_equal. apply IH. exact H.
Qed.

(* ---------- remove_listener ---------- *)
Lemma sub_remove_keys et l m k : In k (map fst (sub_remove et l m)) -> In k (map fst m).
Proof.
  induction m as [|[k0 ls] r IH]; cbn; [tauto|].
  destruct (Nat.eqb k0 et) eqn:E.
  - destruct (memb l ls); [|cbn; tauto].
    destruct (remove_first l ls); cbn; tauto.
  - cbn. intros [H|H]; auto.
Qed.

Lemma sub_remove_wf et l m : wf m -> wf (sub_remove et l m).
Proof.
  induction m as [|[k ls] r IH]; cbn; intros H; [exact H|].
  pose proof H as H0. apply wf_cons in H. destruct H as [Hk [Hnd [Hne Hr]]].
  destruct (Nat.eqb k et) eqn:E.
  - destruct (memb l ls) eqn:M; [|exact H0].
    destruct (remove_first l ls) as [|y ls'] eqn:R; [exact Hr|].
    apply wf_cons. split; [exact Hk|]. split; [|split; [discriminate|exact Hr]].
    rewrite <- R. apply NoDup_remove_first. exact Hnd.
  - apply wf_cons. split; [|split; [exact Hnd|split; [exact Hne|apply IH; exact Hr]]].
    intros C. apply Hk. eapply sub_remove_keys. exact C.
Qed.

Lemma sub_remove_subscribers et l m et' : wf m ->
  subscribers (sub_remove et l m) et' =
  if Nat.eqb et' et then without l (subscribers m et) else subscribers m et'.
Proof.
  induction m as [|[k ls] r IH]; cbn; intros H.
  - unfold subscribers. cbn. destruct (Nat.eqb et' et); reflexivity.
  - apply wf_cons in H. destruct H as [Hk [Hnd [Hne Hr]]].
    destruct (Nat.eqb k et) eqn:E.
    + apply Nat.eqb_eq in E. subst k.
      rewrite (subscribers_cons et ls r et), Nat.eqb_refl.
      destruct (memb l ls) eqn:M.
      * rewrite <- (remove_first_without l ls Hnd).
        destruct (remove_first l ls) as [|y ls'] eqn:R.
        -- destruct (Nat.eqb et' et) eqn:E'.
           ++ apply Nat.eqb_eq in E'. subst et'. apply subscribers_notin. exact Hk.
           ++ rewrite subscribers_cons. rewrite (Nat.eqb_sym et et'), E'. reflexivity.
        -- rewrite !subscribers_cons. rewrite (Nat.eqb_sym et' et). destruct (Nat.eqb et et'); reflexivity.
      * apply memb_false in M. rewrite (without_notin l ls M).
        rewrite subscribers_cons. rewrite (Nat.eqb_sym et' et). destruct (Nat.eqb et et'); reflexivity.
    + rewrite !subscribers_cons, E. destruct (Nat.eqb k et') eqn:E'.
      * apply Nat.eqb_eq in E'. subst k. rewrite E. reflexivity.
      * apply IH. exact Hr.
Qed.

(* unsubscribing a listener that is not subscribed changes nothing *)
Lemma sub_remove_absent et l m : ~ In l (subscribers m et) -> sub_remove et l m = m.
Proof.
  induction m as [|[k ls] r IH]; cbn; [reflexivity|].
  rewrite subscribers_cons. destruct (Nat.eqb k et) eqn:E.
  - intros H. apply memb_false in H. rewrite H. reflexivity.
  - intros H. f_equal. apply IH. exact H.
Qed.

(* ---------- remove_all_listeners(event_type, None) ---------- *)
Lemma sub_del_keys et m k : In k (map fst (sub_del et m)) -> In k (map fst m).
Proof.
  induction m as [|[k0 ls] r IH]; cbn; [tauto|].
  destruct (Nat.eqb k0 et); cbn; [tauto|]. intros [H|H]; auto.
Qed.

Lemma sub_del_wf et m : wf m -> wf (sub_del et m).
Proof.
  induction m as [|[k ls] r IH]; cbn; intros H; [exact H|].
  apply wf_cons in H. destruct H as [Hk [Hnd [Hne Hr]]].
  destruct (Nat.eqb k et); [exact Hr|].
  apply wf_cons. split; [|split; [exact Hnd|split; [exact Hne|apply IH; exact Hr]]].
  intros C. apply Hk. eapply sub_del_keys. exact C.
Qed.

Lemma sub_del_subscribers et m et' : wf m ->
  subscribers (sub_del et m) et' = if Nat.eqb et' et then [] else subscribers m et'.
Proof.
  induction m as [|[k ls] r IH]; cbn; intros H.
  - unfold subscribers. cbn. destruct (Nat.eqb et' et); reflexivity.
  - apply wf_cons in H. destruct H as [Hk [Hnd [Hne Hr]]].
    destruct (Nat.eqb k et) eqn:E.
    + apply Nat.eqb_eq in E. subst k. destruct (Nat.eqb et' et) eqn:E'.
      * apply Nat.eqb_eq in E'. subst et'. apply subscribers_notin. exact Hk.
      * rewrite subscribers_cons. rewrite (Nat.eqb_sym et et'), E'. reflexivity.
    + rewrite !subscribers_cons. destruct (Nat.eqb k et') eqn:E'.
      * apply Nat.eqb_eq in E'. subst k. rewrite E. reflexivity.
      * apply IH. exact Hr.
Qed.

(* ---------- remove_all_listeners(None, listener) ---------- *)
Lemma fold_remove_wf l ks : forall m, wf m -> wf (fold_left (fun acc et => sub_remove et l acc) ks m).
Proof.
  induction ks as [|k r IH]; cbn; intros m H; [exact H|]. apply IH. apply sub_remove_wf. exact H.
Qed.

Lemma fold_remove_subscribers l ks : forall m et', wf m -> NoDup ks ->
  subscribers (fold_left (fun acc et => sub_remove et l acc) ks m) et' =
  if existsb (Nat.eqb et') ks then without l (subscribers m et') else subscribers m et'.
Proof.
  induction ks as [|k r IH]; cbn; intros m et' Hwf Hnd; [reflexivity|].
  inversion Hnd as [|? ? Hk Hr]; subst.
  rewrite IH by (try apply sub_remove_wf; assumption).
  rewrite !sub_remove_subscribers by exact Hwf.
  destruct (Nat.eqb et' k) eqn:E; cbn.
  - apply Nat.eqb_eq in E. subst k.
    assert (Hex : existsb (Nat.eqb et') r = false).
    { destruct (existsb (Nat.eqb et') r) eqn:X; [|reflexivity].
      exfalso. apply Hk. apply memb_In. exact X. }
    rewrite Hex. reflexivity.
  - reflexivity.
Qed.

Lemma sub_remove_everywhere_wf l m : wf m -> wf (sub_remove_everywhere l m).
Proof. apply fold_remove_wf. Qed.

Lemma sub_remove_everywhere_subscribers l m et' : wf m ->
  subscribers (sub_remove_everywhere l m) et' = without l (subscribers m et').
Proof.
  intros H. unfold sub_remove_everywhere.
  rewrite fold_remove_subscribers; [|exact H|apply H].
  destruct (existsb (Nat.eqb et') (map fst m)) eqn:X; [reflexivity|].
  assert (Hn : ~ In et' (map fst m)).
  { intros C. apply memb_In in C. unfold memb in C. congruence. }
  rewrite (subscribers_notin _ _ Hn). reflexivity.
Qed.

(* ---------- has_listeners ---------- *)
Lemma has_listeners_iff m : wf m ->
  (has_listeners m = true <-> exists et l, In l (subscribers m et)).
Proof.
  intros H. split.
  - destruct m as [|[k ls] r]; cbn; [discriminate|]. intros _.
    apply wf_cons in H. destruct H as [_ [_ [Hne _]]].
    destruct ls as [|x ls]; [congruence|].
    exists k, x. rewrite subscribers_cons, Nat.eqb_refl. left. reflexivity.
  - intros [et [l Hin]]. destruct m; [|reflexivity]. unfold subscribers in Hin. cbn in Hin. tauto.
Qed.

(* the four argument forms of remove_all_listeners, as one function of two
   optional arguments, and its association-list specification *)
Definition remove_all (oet ol : option nat) (m : submap) : submap :=
  match oet, ol with
  | None, None => []
  | None, Some l => sub_remove_everywhere l m
  | Some et, None => sub_del et m
  | Some et, Some l => sub_remove et l m
  end.

Definition remove_all_spec (oet ol : option nat) (old : nat -> list nat) (et' : nat) : list nat :=
  let hit := match oet with None => true | Some et => Nat.eqb et' et end in
  if hit then match ol with None => [] | Some l => without l (old et') end
  else old et'.

Lemma remove_all_characterised oet ol m : wf m ->
  wf (remove_all oet ol m) /\
  forall et', subscribers (remove_all oet ol m) et' = remove_all_spec oet ol (subscribers m) et'.
Proof.
  intros H. destruct oet as [et|], ol as [l|]; cbn [remove_all]; unfold remove_all_spec.
  - split; [apply sub_remove_wf; exact H|]. intros et'. rewrite sub_remove_subscribers by exact H.
    destruct (Nat.eqb et' et) eqn:E; [|reflexivity]. apply Nat.eqb_eq in E. subst. reflexivity.
  - split; [apply sub_del_wf; exact H|]. intros et'. apply sub_del_subscribers. exact H.
  - split; [apply sub_remove_everywhere_wf; exact H|]. intros et'.
    apply sub_remove_everywhere_subscribers. exact H.
  - split; [apply wf_nil|]. intros et'. reflexivity.
Qed.

(* ---------- several producers ---------- *)
Lemma prod_subs_nil p : prod_subs [] p = [].
Proof. unfold prod_subs. destruct p; reflexivity. Qed.

(* upd_prod changes producer p's map and nobody else's *)
Lemma prod_subs_upd p f : forall ps q,
  prod_subs (upd_prod p f ps) q = if Nat.eqb q p then f (prod_subs ps p) else prod_subs ps q.
Proof.
  induction p as [|p IH]; intros [|m r] [|q]; cbn; try reflexivity.
  - destruct q; reflexivity.
  - change (nth q (upd_prod p f []) []) with (prod_subs (upd_prod p f []) q).
    rewrite IH, !prod_subs_nil. reflexivity.
  - change (nth q (upd_prod p f r) []) with (prod_subs (upd_prod p f r) q).
    rewrite IH. reflexivity.
Qed.

(* every producer's map is well formed *)
Definition wfs (ps : prods) : Prop := Forall wf ps.

Lemma wfs_nil : wfs [].
Proof. constructor. Qed.

Lemma wfs_prod ps p : wfs ps -> wf (prod_subs ps p).
Proof.
  unfold prod_subs. revert p. induction ps as [|m r IH]; intros p H.
  - destruct p; apply wf_nil.
  - inversion H; subst. destruct p; cbn; [assumption|apply IH; assumption].
Qed.

Lemma wfs_upd p f : (forall m, wf m -> wf (f m)) -> forall ps, wfs ps -> wfs (upd_prod p f ps).
Proof.
  intros Hf. induction p as [|p IH]; intros [|m r] H; cbn.
  - constructor; [apply Hf, wf_nil|constructor].
  - inversion H; subst. constructor; [apply Hf; assumption|assumption].
  - constructor; [apply wf_nil|apply IH; constructor].
  - inversion H; subst. constructor; [assumption|apply IH; assumption].
Qed.
