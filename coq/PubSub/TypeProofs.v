(* EventType construction: when is a type created, uniqueness of created
   types per (defining site, name), the name stays reserved after a refusal
   caused by the metadata, and the declaration a created type carries is the
   one Event.__init__ checks payloads against. *)
From Coq Require Import List Bool Arith Lia.
From PV Require Import PubSub.Model PubSub.EventProofs PubSub.TypeModel.
Import ListNotations.

Lemma key_eqb_eq a b : key_eqb a b = true <-> a = b.
Proof.
  destruct a as [a1 a2], b as [b1 b2]. unfold key_eqb. cbn.
  rewrite andb_true_iff, !Nat.eqb_eq. split; [intros [-> ->]; reflexivity|intros H; inversion H; auto].
Qed.

Lemma registered_In reg k : registered reg k = true <-> In k reg.
Proof.
  unfold registered. rewrite existsb_exists. split.
  - intros [x [Hx E]]. apply key_eqb_eq in E. subst. exact Hx.
  - intros H. exists k. split; [exact H|apply key_eqb_eq; reflexivity].
Qed.

Lemma registered_false reg k : registered reg k = false <-> ~ In k reg.
Proof. rewrite <- registered_In. destruct (registered reg k); intuition congruence. Qed.

(* ---------- the metadata declaration ---------- *)
(* every key a str, every value a type *)
Definition entry_decl_ok (p : mdkey * mdval) : Prop :=
  exists k t, p = (KStr k, VType t).

Definition encode (m : metadata) : list (mdkey * mdval) :=
  map (fun p => (KStr (fst p), VType (snd p))) m.

Lemma check_decl_inr d m : check_decl d = inr m <-> d = encode m.
Proof.
  revert m. induction d as [|[k v] r IH]; intros m; cbn.
  - split.
    + intros H. inversion H. reflexivity.
    + destruct m; cbn; [reflexivity|discriminate].
  - destruct k as [k|].
    + destruct v as [t|].
      * destruct (check_decl r) as [e|m0] eqn:C.
        -- split; [discriminate|]. destruct m as [|[k' t'] m']; cbn; [discriminate|].
           intros H. inversion H. subst. destruct (IH m') as [_ B]. specialize (B eq_refl). discriminate B.
        -- split.
           ++ intros H. inversion H. subst. cbn. f_equal. apply IH. reflexivity.
           ++ destruct m as [|[k' t'] m']; cbn; [discriminate|].
              intros H. inversion H. subst. destruct (IH m') as [_ B]. specialize (B eq_refl).
              inversion B. reflexivity.
      * split; [discriminate|]. destruct m as [|[k' t'] m']; cbn; discriminate.
    + split; [discriminate|]. destruct m as [|[k' t'] m']; cbn; discriminate.
Qed.

Lemma check_decl_ok_iff d : (exists m, check_decl d = inr m) <-> Forall entry_decl_ok d.
Proof.
  split.
  - intros [m H]. apply check_decl_inr in H. subst. apply Forall_forall. intros p Hp.
    apply in_map_iff in Hp. destruct Hp as [[k t] [<- _]]. exists k, t. reflexivity.
  - induction 1 as [|p r [k [t ->]] Hr IH]; [exists []; reflexivity|].
    destruct IH as [m Hm]. exists ((k, t) :: m). cbn. rewrite Hm. reflexivity.
Qed.

(* which refusal: the first offending entry, key test before value test *)
Lemma check_decl_inl d e : check_decl d = inl e ->
  exists pre k v post, d = encode pre ++ (k, v) :: post /\
    ((k = KNotStr /\ e = EKeyNotStr) \/ (exists n, k = KStr n /\ v = VNotType /\ e = EValueNotType)).
Proof.
  induction d as [|[k v] r IH]; cbn; [discriminate|].
  destruct k as [k|].
  - destruct v as [t|].
    + destruct (check_decl r) as [e0|m0]; [|discriminate]. intros H. inversion H. subst e0.
      destruct (IH eq_refl) as [pre [k' [v' [post [-> Hc]]]]].
      exists ((k, t) :: pre), k', v', post. split; [reflexivity|exact Hc].
    + intros H. inversion H. exists [], (KStr k), VNotType, r. split; [reflexivity|].
      right. exists k. auto.
  - intros H. inversion H. exists [], KNotStr, v, r. split; [reflexivity|]. left. auto.
Qed.

(* a Python dict has unique keys; so has the checked declaration *)
Lemma encode_keys m : map fst (encode m) = map KStr (map fst m).
Proof. unfold encode. rewrite !map_map. reflexivity. Qed.

Lemma check_decl_md_wf d m : NoDup (map fst d) -> check_decl d = inr m -> md_wf (Some m).
Proof.
  intros Hnd H. apply check_decl_inr in H. subst. rewrite encode_keys in Hnd. cbn.
  apply NoDup_map_inv in Hnd. exact Hnd.
Qed.

(* ---------- one construction ---------- *)
Theorem event_type_created_iff reg site name md e :
  snd (make_event_type reg site name md) = EtOk e <->
  exists n, name = NameStr n /\ ~ In (site, n) reg /\
    ((md = None /\ e = mkEType site n None) \/
     (exists m, md = Some (encode m) /\ e = mkEType site n (Some m))).
Proof.
  unfold make_event_type. destruct name as [n|].
  - destruct (registered reg (site, n)) eqn:R.
    + cbn. split; [discriminate|]. intros [n' [Hn [Hr _]]]. inversion Hn. subst n'.
      apply registered_In in R. contradiction.
    + apply registered_false in R. destruct md as [d|].
      * destruct (check_decl d) as [k|m] eqn:C; cbn.
        -- split; [discriminate|]. intros [n' [Hn [_ [[H _]|[m [H _]]]]]]; [discriminate|].
           inversion H. subst d. destruct (check_decl_inr (encode m) m) as [_ B].
           rewrite (B eq_refl) in C. discriminate.
        -- apply check_decl_inr in C. subst d. split.
           ++ intros H. inversion H. exists n. split; [reflexivity|]. split; [exact R|].
              right. exists m. auto.
           ++ intros [n' [Hn [_ [[H _]|[m' [H ->]]]]]]; [discriminate|].
              inversion Hn. subst n'. inversion H as [H1].
              assert (m' = m).
              { clear -H1. revert m' H1. induction m as [|[k t] r IH]; intros [|[k' t'] r']; cbn; intros H;
                  try discriminate; [reflexivity|]. inversion H. f_equal. apply IH. assumption. }
              subst. reflexivity.
      * cbn. split.
        -- intros H. inversion H. exists n. split; [reflexivity|]. split; [exact R|]. left. auto.
        -- intros [n' [Hn [_ [[_ ->]|[m [H _]]]]]]; [|discriminate]. inversion Hn. reflexivity.
  - cbn. split; [discriminate|]. intros [n [H _]]. discriminate.
Qed.

(* whatever the metadata, a construction that gets past the name tests
   registers its key; in particular a refusal caused by the metadata leaves the
   name reserved, and a second attempt is refused as a duplicate *)
Theorem name_registered_after_attempt reg site n md :
  In (site, n) (fst (make_event_type reg site (NameStr n) md)).
Proof.
  unfold make_event_type. destruct (registered reg (site, n)) eqn:R.
  - cbn. apply registered_In. exact R.
  - destruct md as [d|]; [destruct (check_decl d)|]; cbn; left; reflexivity.
Qed.

Theorem second_attempt_refused reg site n md md' :
  snd (make_event_type (fst (make_event_type reg site (NameStr n) md)) site (NameStr n) md')
  = EtErr EDuplicate.
Proof.
  pose proof (name_registered_after_attempt reg site n md) as H.
  apply registered_In in H. unfold make_event_type at 1. rewrite H. reflexivity.
Qed.

Lemma make_event_type_reg_mono reg site name md k :
  In k reg -> In k (fst (make_event_type reg site name md)).
Proof.
  unfold make_event_type. destruct name as [n|]; [|auto].
  destruct (registered reg (site, n)); [auto|].
  destruct md as [d|]; [destruct (check_decl d)|]; cbn; auto.
Qed.

(* ---------- sequences of constructions ---------- *)
Definition et_key (e : etype) : nat * nat := (et_site e, et_name e).

Lemma make_types_created reg cs :
  let '(reg', xs) := make_types reg cs in
  (forall k, In k reg -> In k reg') /\
  (forall e, In e (created xs) -> In (et_key e) reg' /\ ~ In (et_key e) reg) /\
  NoDup (map et_key (created xs)).
Proof.
  revert reg. induction cs as [|[[site name] md] r IH]; intros reg; cbn.
  - split; [auto|]. split; [intros e []|constructor].
  - destruct (make_event_type reg site name md) as [reg1 x] eqn:M.
    specialize (IH reg1). destruct (make_types reg1 r) as [reg2 xs].
    destruct IH as [Hmono [Hc Hnd]].
    assert (Hm1 : forall k, In k reg -> In k reg1).
    { intros k Hk. pose proof (make_event_type_reg_mono reg site name md k Hk) as H.
      rewrite M in H. exact H. }
    split; [intros k Hk; apply Hmono, Hm1, Hk|].
    destruct x as [e|k]; cbn.
    + assert (Hx : snd (make_event_type reg site name md) = EtOk e) by (rewrite M; reflexivity).
      apply event_type_created_iff in Hx. destruct Hx as [n [-> [Hfresh He]]].
      assert (Hkey : et_key e = (site, n)).
      { destruct He as [[_ ->]|[m [_ ->]]]; reflexivity. }
      assert (Hin1 : In (site, n) reg1).
      { pose proof (name_registered_after_attempt reg site n md) as H. rewrite M in H. exact H. }
      split.
      * intros e' [<-|He']; [rewrite Hkey; split; [apply Hmono; exact Hin1|exact Hfresh]|].
        destruct (Hc e' He') as [A B]. split; [exact A|]. intros C. apply B, Hm1, C.
      * constructor; [|exact Hnd]. rewrite Hkey. intros C. apply in_map_iff in C.
        destruct C as [e' [Hk He']]. destruct (Hc e' He') as [_ B]. apply B. rewrite Hk. exact Hin1.
    + split; [|exact Hnd]. intros e' He'. destruct (Hc e' He') as [A B]. split; [exact A|].
      intros C. apply B, Hm1, C.
Qed.

(* no two created event types share (defining site, name) - in any sequence of
   constructions, accepted and refused ones interleaved, from any registry *)
Theorem created_types_unique reg cs :
  NoDup (map et_key (created (snd (make_types reg cs)))).
Proof.
  pose proof (make_types_created reg cs) as H. destruct (make_types reg cs) as [reg' xs]. apply H.
Qed.

(* ---------- from declaration to payload check ---------- *)
(* an event type created with declaration [encode m] makes Event.__init__
   check payloads against exactly m *)
Theorem created_type_checks_its_declaration reg site n m e c chk :
  NoDup (map fst (encode m)) -> payload_wf c ->
  snd (make_event_type reg site (NameStr n) (Some (encode m))) = EtOk e ->
  et_md e = Some m /\
  ((exists ev, make_event (env_of [e]) (Good 0) c chk = MkOk ev) <-> acceptable (Some m) c chk).
Proof.
  intros Hnd Hc H. apply event_type_created_iff in H.
  destruct H as [n' [Hn [_ [[H _]|[m' [H ->]]]]]]; [discriminate|].
  assert (m' = m).
  { inversion H as [H1]. clear -H1. revert m' H1.
    induction m as [|[k t] r IH]; intros [|[k' t'] r']; cbn; intros H; try discriminate; [reflexivity|].
    inversion H. f_equal. apply IH. assumption. }
  subst m'. cbn. split; [reflexivity|].
  apply (event_accepted_iff [Some m] 0 c chk); [|exact Hc].
  cbn. rewrite encode_keys in Hnd. apply NoDup_map_inv in Hnd. exact Hnd.
Qed.
