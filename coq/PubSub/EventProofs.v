(* Event / TimedEvent construction against EventType metadata: when is a
   payload accepted, and what does the constructed event carry. *)
From Coq Require Import ZArith List Bool Arith Lia Permutation.
From PV Require Import PubSub.Model.
Import ListNotations.

(* ---------- the class lattice ---------- *)
Lemma pyty_eqb_eq a b : pyty_eqb a b = true <-> a = b.
Proof. destruct a, b; cbn; split; intros H; try reflexivity; discriminate H. Qed.

Lemma subty_refl a : subty a a = true.
Proof. destruct a; reflexivity. Qed.

Lemma subty_trans a b c : subty a b = true -> subty b c = true -> subty a c = true.
Proof. destruct a, b; cbn; intros H; try discriminate H; destruct c; cbn; intros H'; try reflexivity; discriminate H'. Qed.

Lemma subty_antisym a b : subty a b = true -> subty b a = true -> a = b.
Proof. destruct a, b; cbn; intros H H'; try reflexivity; try discriminate H; discriminate H'. Qed.

Lemma subty_object a : subty a TObject = true.
Proof. reflexivity. Qed.

Lemma subty_bool_int : subty TBool TInt = true.
Proof. reflexivity. Qed.

Lemma subty_derived_base : subty TDerived TBase = true.
Proof. reflexivity. Qed.

Lemma ts_ok_iff ts :
  ts_ok ts = true <-> ts_ty ts = TInt \/ ts_ty ts = TBool \/ ts_ty ts = TFloat.
Proof.
  unfold ts_ok. destruct (ts_ty ts); cbn; split; intros H; try reflexivity; try discriminate H; auto;
    destruct H as [H|[H|H]]; discriminate H.
Qed.

(* ---------- dict lookup ---------- *)
Lemma dict_get_In k items v : dict_get k items = Some v -> In (k, v) items.
Proof.
  induction items as [|[k' v'] r IH]; cbn; [discriminate|].
  destruct (Nat.eqb k' k) eqn:E.
  - apply Nat.eqb_eq in E. intros H. inversion H. subst. left. reflexivity.
  - intros H. right. apply IH. exact H.
Qed.

Lemma dict_get_None k items : dict_get k items = None <-> ~ In k (map fst items).
Proof.
  induction items as [|[k' v'] r IH]; cbn; [tauto|].
  destruct (Nat.eqb k' k) eqn:E.
  - apply Nat.eqb_eq in E. subst. split; [discriminate|]. intros H. exfalso. apply H. left. reflexivity.
  - apply Nat.eqb_neq in E. rewrite IH. tauto.
Qed.

Lemma In_dict_get k v items : NoDup (map fst items) -> In (k, v) items -> dict_get k items = Some v.
Proof.
  induction items as [|[k' v'] r IH]; cbn; [tauto|]. intros Hnd Hin.
  inversion Hnd as [|? ? Hk Hr]; subst.
  destruct Hin as [Hin|Hin].
  - inversion Hin. subst. rewrite Nat.eqb_refl. reflexivity.
  - destruct (Nat.eqb k' k) eqn:E.
    + apply Nat.eqb_eq in E. subst. exfalso. apply Hk.
      apply in_map_iff. exists (k, v). split; [reflexivity|exact Hin].
    + apply IH; assumption.
Qed.

(* ---------- the metadata loop ---------- *)
(* the value is present (not None) and an instance of the declared class *)
Definition value_ok (v : pyval) (t : pyty) : Prop := is_none v = false /\ isinstance v t = true.

Lemma check_keys_None m items :
  check_keys m items = None <->
  forall k t, In (k, t) m -> exists v, dict_get k items = Some v /\ value_ok v t.
Proof.
  induction m as [|[k0 t0] r IH]; cbn.
  - split; [intros _ k t []|reflexivity].
  - destruct (dict_get k0 items) as [v|] eqn:G.
    + destruct (is_none v) eqn:N.
      * split; [discriminate|]. intros H.
        destruct (H k0 t0 (or_introl eq_refl)) as [v' [Hv [Hn _]]]. congruence.
      * destruct (isinstance v t0) eqn:I.
        -- rewrite IH. split.
           ++ intros H k t [Hin|Hin]; [|apply H; exact Hin].
              inversion Hin. subst. exists v. split; [exact G|split; assumption].
           ++ intros H k t Hin. apply H. right. exact Hin.
        -- split; [discriminate|]. intros H.
           destruct (H k0 t0 (or_introl eq_refl)) as [v' [Hv [_ Hi]]]. congruence.
    + split; [discriminate|]. intros H.
      destruct (H k0 t0 (or_introl eq_refl)) as [v' [Hv _]]. congruence.
Qed.

(* "a dict payload that has exactly the declared keys with values of the
   declared types" *)
Definition conforms (m : metadata) (items : list (nat * pyval)) : Prop :=
  (forall k, In k (map fst items) <-> In k (map fst m)) /\
  (forall k t v, In (k, t) m -> In (k, v) items -> value_ok v t).

Lemma checked_iff_conforms m items :
  NoDup (map fst m) -> NoDup (map fst items) ->
  (length m = length items /\ check_keys m items = None) <-> conforms m items.
Proof.
  intros Hm Hi. rewrite check_keys_None. split.
  - intros [Hlen Hall].
    assert (Hincl : incl (map fst m) (map fst items)).
    { intros k Hk. apply in_map_iff in Hk. destruct Hk as [[k' t] [Hk Hin]]. cbn in Hk. subst k'.
      destruct (Hall k t Hin) as [v [Hv _]]. apply dict_get_In in Hv.
      apply in_map_iff. exists (k, v). split; [reflexivity|exact Hv]. }
    split.
    + intros k. split; [|apply Hincl].
      apply (NoDup_length_incl Hm); [rewrite !map_length; lia|exact Hincl].
    + intros k t v Hin Hiv. destruct (Hall k t Hin) as [v' [Hv Hok]].
      rewrite (In_dict_get k v items Hi Hiv) in Hv. inversion Hv. subst. exact Hok.
  - intros [Hkeys Hvals]. split.
    + rewrite <- (map_length fst m), <- (map_length fst items).
      apply Permutation_length. apply NoDup_Permutation; [exact Hm|exact Hi|].
      intros k. symmetry. apply Hkeys.
    + intros k t Hin.
      assert (Hk : In k (map fst items)).
      { apply Hkeys. apply in_map_iff. exists (k, t). split; [reflexivity|exact Hin]. }
      apply in_map_iff in Hk. destruct Hk as [[k' v] [Hk Hiv]]. cbn in Hk. subst k'.
      exists v. split; [apply In_dict_get; assumption|]. eapply Hvals; eassumption.
Qed.

(* ---------- Event.__init__ ---------- *)
(* Python dicts have unique keys *)
Definition md_wf (md : option metadata) : Prop :=
  match md with Some m => NoDup (map fst m) | None => True end.
Definition payload_wf (c : content) : Prop :=
  match c_shape c with SDict items => NoDup (map fst items) | SNonDict _ => True end.

Definition acceptable (md : option metadata) (c : content) (chk : bool) : Prop :=
  match md with
  | None => True
  | Some m => exists items, c_shape c = SDict items /\ (chk = true -> conforms m items)
  end.

Lemma validate_None md c chk : md_wf md -> payload_wf c ->
  (validate md c chk = None <-> acceptable md c chk).
Proof.
  unfold validate, acceptable, md_wf, payload_wf. destruct md as [m|]; [|tauto].
  destruct (c_shape c) as [items|t]; intros Hm Hi.
  - destruct chk.
    + destruct (Nat.eqb (length m) (length items)) eqn:L.
      * apply Nat.eqb_eq in L. split.
        -- intros H. exists items. split; [reflexivity|]. intros _.
           apply checked_iff_conforms; auto.
        -- intros [items' [Heq H]]. inversion Heq. subst items'.
           apply (checked_iff_conforms m items Hm Hi). apply H. reflexivity.
      * apply Nat.eqb_neq in L. split; [discriminate|].
        intros [items' [Heq H]]. inversion Heq. subst items'.
        apply (checked_iff_conforms m items Hm Hi) in H; [|reflexivity]. tauto.
    + split; [|reflexivity]. intros _. exists items. split; [reflexivity|discriminate].
  - split; [discriminate|]. intros [items [Heq _]]. discriminate Heq.
Qed.

Theorem event_accepted_iff E et c chk :
  md_wf (md_of E et) -> payload_wf c ->
  ((exists e, make_event E (Good et) c chk = MkOk e) <-> acceptable (md_of E et) c chk).
Proof.
  intros Hm Hc. rewrite <- (validate_None _ _ _ Hm Hc). unfold make_event.
  destruct (validate (md_of E et) c chk) as [k|].
  - split; [intros [e H]; discriminate H|discriminate].
  - split; [reflexivity|]. intros _. eexists. reflexivity.
Qed.

(* the event carries its type and the very payload it was built from *)
Lemma make_event_fields E a c chk e :
  make_event E a c chk = MkOk e ->
  exists et, a = Good et /\ e = mkEvent et c None.
Proof.
  unfold make_event. destruct a as [et| |]; try discriminate.
  destruct (validate (md_of E et) c chk); [discriminate|].
  intros H. inversion H. exists et. split; reflexivity.
Qed.

Lemma make_event_error_kind E a c chk k :
  make_event E a c chk = MkErr k -> is_event_error k = true.
Proof.
  unfold make_event. destruct a as [et| |]; try (intros H; inversion H; reflexivity).
  unfold validate. destruct (md_of E et) as [m|]; [|discriminate].
  destruct (c_shape c) as [items|t]; [|intros H; inversion H; reflexivity].
  destruct chk; [|discriminate].
  destruct (Nat.eqb (length m) (length items)); [|intros H; inversion H; reflexivity].
  intros H. inversion H as [H1]. clear H. revert H1.
  induction m as [|[k0 t0] r IH]; cbn; [discriminate|].
  destruct (dict_get k0 items) as [v|]; [|intros H; inversion H; reflexivity].
  destruct (is_none v); [intros H; inversion H; reflexivity|].
  destruct (isinstance v t0); [exact IH|intros H; inversion H; reflexivity].
Qed.

(* without metadata every payload is accepted; with metadata a non-dict never is,
   not even with check switched off *)
Lemma no_metadata_accepts_all E et c chk :
  md_of E et = None -> make_event E (Good et) c chk = MkOk (mkEvent et c None).
Proof. unfold make_event. intros ->. reflexivity. Qed.

Lemma non_dict_rejected E et m c t chk :
  md_of E et = Some m -> c_shape c = SNonDict t -> make_event E (Good et) c chk = MkErr ENotDict.
Proof. unfold make_event, validate. intros -> ->. reflexivity. Qed.

Lemma unchecked_dict_accepted E et m c items :
  md_of E et = Some m -> c_shape c = SDict items ->
  make_event E (Good et) c false = MkOk (mkEvent et c None).
Proof. unfold make_event, validate. intros -> ->. reflexivity. Qed.

(* ---------- TimedEvent.__init__ ---------- *)
Lemma make_timed_ok_iff E ts a c chk e :
  make_timed E ts a c chk = MkOk e <->
  ts_ok ts = true /\ exists et, make_event E a c chk = MkOk (mkEvent et c None) /\ e = mkEvent et c (Some ts).
Proof.
  unfold make_timed. destruct (ts_ok ts); [|split; [discriminate|intros [H _]; discriminate H]].
  destruct (make_event E a c chk) as [e0|k] eqn:M.
  - destruct (make_event_fields _ _ _ _ _ M) as [et [-> ->]]. cbn. split.
    + intros H. inversion H. split; [reflexivity|]. exists et. split; reflexivity.
    + intros [_ [et' [H ->]]]. inversion H. reflexivity.
  - split; [discriminate|]. intros [_ [et [H _]]]. discriminate H.
Qed.

Theorem timed_event_keeps_timestamp E ts a c chk e :
  make_timed E ts a c chk = MkOk e -> ev_time e = Some ts /\ ev_content e = c /\ a = Good (ev_type e).
Proof.
  intros H. apply make_timed_ok_iff in H. destruct H as [_ [et [M ->]]].
  apply make_event_fields in M. destruct M as [et' [-> M]]. inversion M. cbn. auto.
Qed.

Lemma make_timed_error_kind E ts a c chk k :
  make_timed E ts a c chk = MkErr k -> is_event_error k = true.
Proof.
  unfold make_timed. destruct (ts_ok ts); [|intros H; inversion H; reflexivity].
  destruct (make_event E a c chk) eqn:M; [discriminate|].
  intros H. inversion H. subst. eapply make_event_error_kind. exact M.
Qed.

Lemma bad_timestamp_rejected E ts a c chk :
  ts_ok ts = false -> make_timed E ts a c chk = MkErr ETimestamp.
Proof. unfold make_timed. intros ->. reflexivity. Qed.
