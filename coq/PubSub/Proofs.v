(* EventProducer executions: the invariant holds in every reachable state,
   fuel is irrelevant once it suffices (and fuel_for always suffices), and the
   deliveries of every fire invocation - outermost or nested - are exactly the
   subscribers at the moment of the invocation, in order, each once. *)
From Coq Require Import ZArith List Bool Arith Lia.
From PV Require Import PubSub.Model PubSub.SubsProofs PubSub.EventProofs.
Import ListNotations.

(* ====================================================================== *)
(* A. The invariant                                                        *)
(* ====================================================================== *)
Definition marker_ok (o : obs) : Prop :=
  match o with ObsFire _ _ subs => NoDup subs | _ => True end.

Definition resA (r : res) : Prop :=
  match r with
  | Done s t | Raised _ s t => wfs (st_subs s) /\ Forall marker_ok t
  | OutOfFuel => True
  end.

Definition stepA (step : state -> op -> res) : Prop :=
  forall s o, wfs (st_subs s) -> resA (step s o).

Lemma bindA r k : resA r -> (forall s, wfs (st_subs s) -> resA (k s)) -> resA (bind_res r k).
Proof.
  destruct r as [s t|e s t|]; cbn; auto.
  intros [Hw Ht] Hk. specialize (Hk s Hw).
  destruct (k s) as [s' t'|e s' t'|]; cbn in *; auto;
    destruct Hk as [Hw' Ht']; (split; [exact Hw'|apply Forall_app; split; assumption]).
Qed.

Lemma prependA t0 r : Forall marker_ok t0 -> resA r -> resA (prepend t0 r).
Proof.
  destruct r as [s t|e s t|]; cbn; auto; intros H0 [Hw Ht];
    (split; [exact Hw|apply Forall_app; split; assumption]).
Qed.

Lemma run_listA step : stepA step -> forall ops s, wfs (st_subs s) -> resA (run_list step s ops).
Proof.
  intros Hs. induction ops as [|o r IH]; intros s Hw; cbn.
  - split; [exact Hw|constructor].
  - apply bindA; [apply Hs; exact Hw|]. intros s1 Hw1. apply IH. exact Hw1.
Qed.

Lemma notifyA step i ev s l : stepA step -> wfs (st_subs s) -> resA (notify step i ev s l).
Proof.
  intros Hs Hw. unfold notify. destruct (pop_script l (st_scripts s)) as [p scr'].
  apply prependA; [repeat constructor|]. apply run_listA; [exact Hs|exact Hw].
Qed.

Lemma deliver_allA step i ev : stepA step ->
  forall ls s, wfs (st_subs s) -> resA (deliver_all step i ev s ls).
Proof.
  intros Hs. induction ls as [|l r IH]; intros s Hw; cbn.
  - split; [exact Hw|constructor].
  - apply bindA; [apply notifyA; assumption|]. intros s1 Hw1. apply IH. exact Hw1.
Qed.

Lemma fire_evA step s p ev : stepA step -> wfs (st_subs s) -> resA (fire_ev step s p ev).
Proof.
  intros Hs Hw. unfold fire_ev.
  pose proof (deliver_allA step (st_next s) ev Hs (subscribers (subs_of s p) (ev_type ev))
                (mkState (st_subs s) (st_scripts s) (S (st_next s))) Hw) as H.
  destruct (deliver_all step (st_next s) ev _ _) as [s' t|e s' t|]; cbn in *; auto;
    destruct H as [Hw' Ht]; split; try exact Hw'.
  - constructor; [cbn; apply wf_subscribers_NoDup, wfs_prod; exact Hw|].
    apply Forall_app; split; [exact Ht|repeat constructor].
  - constructor; [cbn; apply wf_subscribers_NoDup, wfs_prod; exact Hw|exact Ht].
Qed.

Lemma fire_mkA step s p m : stepA step -> wfs (st_subs s) -> resA (fire_mk step s p m).
Proof.
  intros Hs Hw. destruct m as [ev|k]; cbn; [apply fire_evA; assumption|].
  split; [exact Hw|constructor].
Qed.

Lemma pure_stepA : stepA pure_step.
Proof.
  intros s o Hw.
  destruct o as [p a l|p a l|p a l|p|p a c chk|p ts a c chk|p e|p e|];
    try (cbn; split; [exact Hw|repeat constructor]; fail);
    destruct a as [et| |], l as [li| |]; cbn;
    (split; [|repeat constructor]); try exact Hw;
    apply wfs_upd; auto using sub_add_wf, sub_remove_wf, sub_del_wf, sub_remove_everywhere_wf, wf_nil.
Qed.

Lemma execA E fuel : stepA (exec E fuel).
Proof.
  induction fuel as [|f IH]; intros s o Hw; [exact I|].
  destruct o as [p a l|p a l|p a l|p|p a c chk|p ts a c chk|p e|p e|]; cbn [exec];
    try (apply pure_stepA; exact Hw).
  - apply fire_mkA; assumption.
  - apply fire_mkA; assumption.
  - destruct (make_spec E e) as [m|]; [apply fire_mkA; assumption|].
    split; [exact Hw|constructor].
  - destruct (make_spec E e) as [[ev|k]|]; try (split; [exact Hw|constructor]).
    destruct (ev_time ev); [apply fire_evA; assumption|split; [exact Hw|constructor]].
Qed.

Lemma run_topA E fuel : forall ops s s' t,
  wfs (st_subs s) -> run_top E fuel s ops = Some (s', t) ->
  wfs (st_subs s') /\ Forall marker_ok t.
Proof.
  induction ops as [|o r IH]; intros s s' t Hw; cbn.
  - intros H. inversion H. subst. split; [exact Hw|constructor].
  - pose proof (execA E fuel s o Hw) as Hx.
    destruct (exec E fuel s o) as [s1 t1|k s1 t1|]; [| |discriminate];
      destruct Hx as [Hw1 Ht1];
      destruct (run_top E fuel s1 r) as [[s2 t2]|] eqn:R; try discriminate;
      intros H; inversion H; subst;
      destruct (IH _ _ _ Hw1 R) as [Hw2 Ht2];
      (split; [exact Hw2|]); apply Forall_app; (split; [exact Ht1|]);
      constructor; [exact I|exact Ht2|exact I|exact Ht2].
Qed.

(* every state reachable from the empty producer satisfies the invariant *)
Theorem invariant_reachable E fuel scr ops s' t :
  run_top E fuel (init scr) ops = Some (s', t) ->
  wfs (st_subs s') /\ Forall marker_ok t.
Proof. apply run_topA. apply wfs_nil. Qed.

(* ====================================================================== *)
(* B. Trace segments: what one fire invocation delivers                    *)
(* ====================================================================== *)
Definition fires1 (i : nat) (o : obs) : list (event * list nat) :=
  match o with ObsFire j ev subs => if Nat.eqb j i then [(ev, subs)] else [] | _ => [] end.
Definition dels1 (i : nat) (o : obs) : list (nat * event) :=
  match o with ObsDeliver j l ev => if Nat.eqb j i then [(l, ev)] else [] | _ => [] end.
Definition dones1 (i : nat) (o : obs) : list unit :=
  match o with ObsFireDone j => if Nat.eqb j i then [tt] else [] | _ => [] end.

(* the start markers, the deliveries (listener, event) in order, and the
   completion markers of invocation number i in a trace *)
Definition fires (i : nat) (t : list obs) := flat_map (fires1 i) t.
Definition dels (i : nat) (t : list obs) := flat_map (dels1 i) t.
Definition dones (i : nat) (t : list obs) := flat_map (dones1 i) t.

Lemma fires_app i t1 t2 : fires i (t1 ++ t2) = fires i t1 ++ fires i t2.
Proof. apply flat_map_app. Qed.
Lemma dels_app i t1 t2 : dels i (t1 ++ t2) = dels i t1 ++ dels i t2.
Proof. apply flat_map_app. Qed.
Lemma dones_app i t1 t2 : dones i (t1 ++ t2) = dones i t1 ++ dones i t2.
Proof. apply flat_map_app. Qed.

Lemma fires_cons i o t : fires i (o :: t) = fires1 i o ++ fires i t.
Proof. reflexivity. Qed.
Lemma dels_cons i o t : dels i (o :: t) = dels1 i o ++ dels i t.
Proof. reflexivity. Qed.
Lemma dones_cons i o t : dones i (o :: t) = dones1 i o ++ dones i t.
Proof. reflexivity. Qed.

Ltac proj_cons :=
  rewrite ?fires_cons, ?dels_cons, ?dones_cons; cbn [fires1 dels1 dones1 app].

Lemma In_fires i ev subs t : In (ObsFire i ev subs) t <-> In (ev, subs) (fires i t).
Proof.
  unfold fires. rewrite in_flat_map. split.
  - intros H. exists (ObsFire i ev subs). split; [exact H|]. cbn. rewrite Nat.eqb_refl. left. reflexivity.
  - intros [o [Ho Hin]]. destruct o as [j ev' subs'| | | | |]; cbn in Hin; try tauto.
    destruct (Nat.eqb j i) eqn:E; cbn in Hin; [|tauto].
    apply Nat.eqb_eq in E. destruct Hin as [Hin|[]]. inversion Hin. subst. exact Ho.
Qed.

Lemma In_dels i l ev t : In (ObsDeliver i l ev) t <-> In (l, ev) (dels i t).
Proof.
  unfold dels. rewrite in_flat_map. split.
  - intros H. exists (ObsDeliver i l ev). split; [exact H|]. cbn. rewrite Nat.eqb_refl. left. reflexivity.
  - intros [o [Ho Hin]]. destruct o as [|j l' ev'| | | |]; cbn in Hin; try tauto.
    destruct (Nat.eqb j i) eqn:E; cbn in Hin; [|tauto].
    apply Nat.eqb_eq in E. destruct Hin as [Hin|[]]. inversion Hin. subst. exact Ho.
Qed.

Lemma In_dones i t : In (ObsFireDone i) t <-> dones i t <> [].
Proof.
  unfold dones. split.
  - intros H C. assert (Hin : In tt (flat_map (dones1 i) t)).
    { apply in_flat_map. exists (ObsFireDone i). split; [exact H|]. cbn. rewrite Nat.eqb_refl. left. reflexivity. }
    rewrite C in Hin. exact Hin.
  - intros H. destruct (flat_map (dones1 i) t) as [|[] r] eqn:F; [congruence|].
    assert (Hin : In tt (flat_map (dones1 i) t)) by (rewrite F; left; reflexivity).
    apply in_flat_map in Hin. destruct Hin as [o [Ho Hin]].
    destruct o as [| |j| | |]; cbn in Hin; try tauto.
    destruct (Nat.eqb j i) eqn:E; cbn in Hin; [|tauto]. apply Nat.eqb_eq in E. subst. exact Ho.
Qed.

(* deliveries of event ev to the listeners ls, in that order *)
Definition to (ev : event) (ls : list nat) : list (nat * event) := map (fun l => (l, ev)) ls.

Definition empty_at (i : nat) (t : list obs) : Prop :=
  fires i t = [] /\ dels i t = [] /\ dones i t = [].

(* invocation i started once, with event ev and subscriber snapshot subs; so far
   it delivered ev to a prefix of subs; if it completed, to all of subs *)
Definition ok_at (i : nat) (t : list obs) : Prop :=
  exists ev subs k,
    fires i t = [(ev, subs)] /\ dels i t = to ev (firstn k subs) /\
    (dones i t = [] \/ (dones i t = [tt] /\ dels i t = to ev subs)).

(* a trace segment produced while the invocation counter went from n to n';
   amb i = deliveries made in this segment by an enclosing invocation i < n *)
Definition gseg (amb : nat -> list (nat * event)) (n : nat) (t : list obs) (n' : nat) : Prop :=
  n <= n' /\
  forall i,
    (i < n -> fires i t = [] /\ dones i t = [] /\ dels i t = amb i) /\
    (n <= i < n' -> ok_at i t) /\
    (n' <= i -> empty_at i t).

Definition seg := gseg (fun _ => []).

Lemma gseg_ext a a' n t n' :
  (forall i, i < n -> a i = a' i) -> gseg a n t n' -> gseg a' n t n'.
Proof.
  intros He [L H]. split; [exact L|]. intros i. destruct (H i) as [A [B C]].
  split; [|split; assumption]. intros Hi. rewrite <- (He i Hi). apply A. exact Hi.
Qed.

Lemma seg_quiet n t :
  (forall i, empty_at i t) -> seg n t n.
Proof.
  intros H. split; [lia|]. intros i. destruct (H i) as [F [D O]].
  split; [auto|]. split; [lia|]. intros _. split; auto.
Qed.

Lemma seg_nil n : seg n [] n.
Proof. apply seg_quiet. intros i. repeat split. Qed.

Lemma ok_at_proj i t t' :
  fires i t = fires i t' -> dels i t = dels i t' -> dones i t = dones i t' ->
  ok_at i t -> ok_at i t'.
Proof. unfold ok_at. intros -> -> ->. auto. Qed.

Lemma empty_at_proj i t t' :
  fires i t = fires i t' -> dels i t = dels i t' -> dones i t = dones i t' ->
  empty_at i t -> empty_at i t'.
Proof. unfold empty_at. intros -> -> ->. auto. Qed.

Lemma gseg_app a1 a2 n t1 n1 t2 n2 :
  gseg a1 n t1 n1 -> gseg a2 n1 t2 n2 -> (forall i, n <= i < n1 -> a2 i = []) ->
  gseg (fun i => a1 i ++ a2 i) n (t1 ++ t2) n2.
Proof.
  intros [L1 H1] [L2 H2] Ha. split; [lia|]. intros i.
  destruct (H1 i) as [A1 [B1 C1]], (H2 i) as [A2 [B2 C2]].
  rewrite fires_app, dels_app, dones_app. unfold empty_at. rewrite fires_app, dels_app, dones_app.
  split; [|split].
  - intros Hi. destruct (A1 Hi) as [f1 [d1 e1]]. destruct A2 as [f2 [d2 e2]]; [lia|].
    rewrite f1, f2, d1, d2, e1, e2. auto.
  - intros Hi. destruct (lt_dec i n1) as [Hlt|Hge].
    + destruct A2 as [f2 [d2 e2]]; [lia|]. rewrite (Ha i) in e2 by lia.
      destruct B1 as [ev [subs [k [F [D O]]]]]; [lia|].
      exists ev, subs, k. unfold ok_at. rewrite fires_app, dels_app, dones_app.
      rewrite f2, d2, e2, !app_nil_r. auto.
    + destruct C1 as [f1 [d1 e1]]; [lia|].
      destruct B2 as [ev [subs [k [F [D O]]]]]; [lia|].
      exists ev, subs, k. unfold ok_at. rewrite fires_app, dels_app, dones_app.
      rewrite f1, d1, e1. cbn. auto.
  - intros Hi. destruct C1 as [f1 [d1 e1]]; [lia|]. destruct C2 as [f2 [d2 e2]]; [lia|].
    rewrite f1, f2, d1, d2, e1, e2. auto.
Qed.

Lemma seg_app n t1 n1 t2 n2 : seg n t1 n1 -> seg n1 t2 n2 -> seg n (t1 ++ t2) n2.
Proof.
  intros H1 H2. unfold seg.
  apply (gseg_ext (fun i => [] ++ [])); [reflexivity|].
  apply (gseg_app (fun _ => []) (fun _ => []) n t1 n1 t2 n2 H1 H2). reflexivity.
Qed.

Lemma seg_quiet_cons n o t n' :
  (forall i, empty_at i [o]) -> seg n t n' -> seg n (o :: t) n'.
Proof. intros Ho H. change (o :: t) with ([o] ++ t). eapply seg_app; [apply seg_quiet; exact Ho|exact H]. Qed.

(* an enclosing invocation i0 delivers to listener l, then the segment t follows *)
Lemma gseg_cons_deliver a i0 l ev n t n' :
  i0 < n -> gseg a n t n' ->
  gseg (fun i => (if Nat.eqb i0 i then [(l, ev)] else []) ++ a i) n (ObsDeliver i0 l ev :: t) n'.
Proof.
  intros Hi0 [L H]. split; [exact L|]. intros i. destruct (H i) as [A [B C]].
  assert (Hne : n <= i -> Nat.eqb i0 i = false) by (intros; apply Nat.eqb_neq; lia).
  split; [|split].
  - intros Hi. destruct (A Hi) as [f [d e]]. proj_cons. rewrite f, d, e. auto.
  - intros Hi. eapply ok_at_proj; [| | |apply B; exact Hi]; proj_cons; try reflexivity.
    rewrite Hne by lia. reflexivity.
  - intros Hi. eapply empty_at_proj; [| | |apply C; exact Hi]; proj_cons; try reflexivity.
    rewrite Hne by lia. reflexivity.
Qed.

Definition resB (n : nat) (r : res) : Prop :=
  match r with
  | Done s' t | Raised _ s' t => seg n t (st_next s')
  | OutOfFuel => True
  end.

Definition stepB (step : state -> op -> res) : Prop :=
  forall s o, resB (st_next s) (step s o).

Lemma bindB n r k : resB n r -> (forall s, resB (st_next s) (k s)) -> resB n (bind_res r k).
Proof.
  destruct r as [s t|e s t|]; cbn; auto.
  intros H Hk. specialize (Hk s).
  destruct (k s) as [s' t'|e s' t'|]; cbn in *; auto; eapply seg_app; eassumption.
Qed.

Lemma run_listB step : stepB step -> forall ops s, resB (st_next s) (run_list step s ops).
Proof.
  intros Hs. induction ops as [|o r IH]; intros s; cbn.
  - apply seg_nil.
  - apply bindB; [apply Hs|]. intros s1. apply IH.
Qed.

Definition amb1 (i0 : nat) (d : list (nat * event)) : nat -> list (nat * event) :=
  fun i => if Nat.eqb i0 i then d else [].

Lemma notifyB step i0 ev s l : stepB step -> i0 < st_next s ->
  match notify step i0 ev s l with
  | Done s' t | Raised _ s' t => gseg (amb1 i0 [(l, ev)]) (st_next s) t (st_next s')
  | OutOfFuel => True
  end.
Proof.
  intros Hs Hi. unfold notify. destruct (pop_script l (st_scripts s)) as [p scr'].
  pose proof (run_listB step Hs p (mkState (st_subs s) scr' (st_next s))) as H.
  destruct (run_list step _ p) as [s' t|e s' t|]; cbn in *; auto;
    (eapply gseg_ext; [|apply gseg_cons_deliver; [exact Hi|exact H]]);
    intros i _; unfold amb1; apply app_nil_r.
Qed.

Lemma deliver_allB step i0 ev : stepB step -> forall ls s, i0 < st_next s ->
  match deliver_all step i0 ev s ls with
  | Done s' t => gseg (amb1 i0 (to ev ls)) (st_next s) t (st_next s')
  | Raised _ s' t => exists k, gseg (amb1 i0 (to ev (firstn k ls))) (st_next s) t (st_next s')
  | OutOfFuel => True
  end.
Proof.
  intros Hs. induction ls as [|l r IH]; intros s Hi; cbn [deliver_all].
  - eapply gseg_ext; [|apply seg_nil]. intros i _. unfold amb1. cbn. destruct (Nat.eqb i0 i); reflexivity.
  - pose proof (notifyB step i0 ev s l Hs Hi) as Hn.
    destruct (notify step i0 ev s l) as [s1 t1|e s1 t1|]; cbn [bind_res]; [| |exact I].
    + assert (Hi1 : i0 < st_next s1) by (destruct Hn as [L _]; lia).
      specialize (IH s1 Hi1).
      assert (Hside : forall d i, st_next s <= i < st_next s1 -> amb1 i0 d i = []).
      { intros d i Hr. unfold amb1. replace (Nat.eqb i0 i) with false; [reflexivity|].
        symmetry. apply Nat.eqb_neq. lia. }
      destruct (deliver_all step i0 ev s1 r) as [s2 t2|e s2 t2|]; [| |exact I].
      * eapply gseg_ext; [|apply (gseg_app _ _ _ _ _ _ _ Hn IH); apply Hside].
        intros i _. unfold amb1. cbn. destruct (Nat.eqb i0 i); reflexivity.
      * destruct IH as [k IH]. exists (S k).
        eapply gseg_ext; [|apply (gseg_app _ _ _ _ _ _ _ Hn IH); apply Hside].
        intros i _. unfold amb1. cbn. destruct (Nat.eqb i0 i); reflexivity.
    + exists 1. destruct r; exact Hn.
Qed.

Lemma fires_done i j : fires i [ObsFireDone j] = [].
Proof. reflexivity. Qed.
Lemma dels_done i j : dels i [ObsFireDone j] = [].
Proof. reflexivity. Qed.
Lemma dones_done i j : dones i [ObsFireDone j] = if Nat.eqb j i then [tt] else [].
Proof. cbn. apply app_nil_r. Qed.

(* wrapping the body of invocation i0 between its markers *)
Lemma gseg_wrap_done i0 ev ls t n' :
  gseg (amb1 i0 (to ev ls)) (S i0) t n' ->
  let t' := ObsFire i0 ev ls :: t ++ [ObsFireDone i0] in
  seg i0 t' n' /\ fires i0 t' = [(ev, ls)] /\ dels i0 t' = to ev ls /\ dones i0 t' = [tt].
Proof.
  intros [L H] t'.
  assert (P : forall i,
    fires i t' = (if Nat.eqb i0 i then [(ev, ls)] else []) ++ fires i t /\
    dels i t' = dels i t /\
    dones i t' = dones i t ++ (if Nat.eqb i0 i then [tt] else [])).
  { intros i. unfold t'. proj_cons.
    rewrite fires_app, dels_app, dones_app, fires_done, dels_done, dones_done, !app_nil_r. auto. }
  assert (Q : fires i0 t' = [(ev, ls)] /\ dels i0 t' = to ev ls /\ dones i0 t' = [tt]).
  { destruct (P i0) as [-> [-> ->]]. destruct (H i0) as [A _].
    destruct A as [f [d e]]; [lia|]. rewrite f, d, e. unfold amb1. rewrite Nat.eqb_refl. auto. }
  split; [|exact Q]. split; [lia|]. intros i. destruct (H i) as [A [B C]]. destruct (P i) as [Pf [Pd Po]].
  split; [|split].
  - intros Hi. destruct A as [f [d e]]; [lia|].
    rewrite Pf, Pd, Po, f, d, e. unfold amb1.
    replace (Nat.eqb i0 i) with false by (symmetry; apply Nat.eqb_neq; lia). auto.
  - intros Hi. destruct (Nat.eq_dec i i0) as [->|Hne].
    + destruct Q as [Qf [Qd Qo]]. exists ev, ls, (length ls). rewrite firstn_all. auto.
    + eapply ok_at_proj; [| | |apply B; lia]; try (symmetry; assumption).
      * rewrite Pf. replace (Nat.eqb i0 i) with false by (symmetry; apply Nat.eqb_neq; lia). reflexivity.
      * rewrite Po. replace (Nat.eqb i0 i) with false by (symmetry; apply Nat.eqb_neq; lia).
        rewrite app_nil_r. reflexivity.
  - intros Hi. eapply empty_at_proj; [| | |apply C; exact Hi]; try (symmetry; assumption).
    + rewrite Pf. replace (Nat.eqb i0 i) with false by (symmetry; apply Nat.eqb_neq; lia). reflexivity.
    + rewrite Po. replace (Nat.eqb i0 i) with false by (symmetry; apply Nat.eqb_neq; lia).
      rewrite app_nil_r. reflexivity.
Qed.

Lemma gseg_wrap_raised i0 ev ls k t n' :
  gseg (amb1 i0 (to ev (firstn k ls))) (S i0) t n' ->
  let t' := ObsFire i0 ev ls :: t in
  seg i0 t' n' /\ fires i0 t' = [(ev, ls)] /\ dels i0 t' = to ev (firstn k ls) /\ dones i0 t' = [].
Proof.
  intros [L H] t'.
  assert (P : forall i,
    fires i t' = (if Nat.eqb i0 i then [(ev, ls)] else []) ++ fires i t /\
    dels i t' = dels i t /\ dones i t' = dones i t).
  { intros i. unfold t'. proj_cons. auto. }
  assert (Q : fires i0 t' = [(ev, ls)] /\ dels i0 t' = to ev (firstn k ls) /\ dones i0 t' = []).
  { destruct (P i0) as [-> [-> ->]]. destruct (H i0) as [A _].
    destruct A as [f [d e]]; [lia|]. rewrite f, d, e. unfold amb1. rewrite Nat.eqb_refl. auto. }
  split; [|exact Q]. split; [lia|]. intros i. destruct (H i) as [A [B C]]. destruct (P i) as [Pf [Pd Po]].
  split; [|split].
  - intros Hi. destruct A as [f [d e]]; [lia|].
    rewrite Pf, Pd, Po, f, d, e. unfold amb1.
    replace (Nat.eqb i0 i) with false by (symmetry; apply Nat.eqb_neq; lia). auto.
  - intros Hi. destruct (Nat.eq_dec i i0) as [->|Hne].
    + destruct Q as [Qf [Qd Qo]]. exists ev, ls, k. auto.
    + eapply ok_at_proj; [| | |apply B; lia]; try (symmetry; assumption).
      rewrite Pf. replace (Nat.eqb i0 i) with false by (symmetry; apply Nat.eqb_neq; lia). reflexivity.
  - intros Hi. eapply empty_at_proj; [| | |apply C; exact Hi]; try (symmetry; assumption).
    rewrite Pf. replace (Nat.eqb i0 i) with false by (symmetry; apply Nat.eqb_neq; lia). reflexivity.
Qed.

(* The heart of the property: the deliveries of THIS invocation are the
   subscribers of the event's type in the state s in which fire was invoked -
   whatever the notified listeners did to the producer meanwhile. *)
Lemma fire_evB step s p ev : stepB step ->
  let i0 := st_next s in
  let ls := subscribers (subs_of s p) (ev_type ev) in
  match fire_ev step s p ev with
  | Done s' t =>
      seg i0 t (st_next s') /\ fires i0 t = [(ev, ls)] /\ dels i0 t = to ev ls /\ dones i0 t = [tt]
  | Raised _ s' t =>
      seg i0 t (st_next s') /\ fires i0 t = [(ev, ls)] /\
      (exists k, dels i0 t = to ev (firstn k ls)) /\ dones i0 t = []
  | OutOfFuel => True
  end.
Proof.
  intros Hs i0 ls. unfold fire_ev. fold i0. fold ls.
  pose proof (deliver_allB step i0 ev Hs ls (mkState (st_subs s) (st_scripts s) (S i0))) as H.
  cbn [st_next] in H. specialize (H (Nat.lt_succ_diag_r i0)).
  destruct (deliver_all step i0 ev _ ls) as [s' t|e s' t|]; [| |exact I].
  - apply gseg_wrap_done. exact H.
  - destruct H as [k H]. destruct (gseg_wrap_raised i0 ev ls k t _ H) as [A [B [C D]]].
    split; [exact A|]. split; [exact B|]. split; [exists k; exact C|exact D].
Qed.

Lemma seg_raised_nil n : seg n [] n.
Proof. apply seg_nil. Qed.

Lemma fire_mkB step s p m : stepB step -> resB (st_next s) (fire_mk step s p m).
Proof.
  intros Hs. destruct m as [ev|k]; cbn; [|apply seg_nil].
  pose proof (fire_evB step s p ev Hs) as H. cbn zeta in H.
  destruct (fire_ev step s p ev) as [s' t|e s' t|]; cbn; auto; apply H.
Qed.

Lemma quiet_has b i : empty_at i [ObsHas b].
Proof. repeat split. Qed.

Lemma pure_stepB : stepB pure_step.
Proof.
  intros s o.
  destruct o as [p a l|p a l|p a l|p|p a c chk|p ts a c chk|p e|p e|];
    try (cbn; apply seg_nil);
    try (destruct a as [et| |], l as [li| |]; cbn; apply seg_nil).
Qed.

Lemma execB E fuel : stepB (exec E fuel).
Proof.
  induction fuel as [|f IH]; intros s o; [exact I|].
  destruct o as [p a l|p a l|p a l|p|p a c chk|p ts a c chk|p e|p e|]; cbn [exec];
    try apply pure_stepB.
  - apply fire_mkB; assumption.
  - apply fire_mkB; assumption.
  - destruct (make_spec E e) as [m|]; [apply fire_mkB; assumption|apply seg_nil].
  - destruct (make_spec E e) as [[ev|k]|]; try apply seg_nil.
    destruct (ev_time ev); [|apply seg_nil].
    apply (fire_mkB (exec E f) s p (MkOk ev) IH).
Qed.

Lemma quiet_ret i : empty_at i [ObsRet].
Proof. repeat split. Qed.
Lemma quiet_raise k i : empty_at i [ObsRaise k].
Proof. repeat split. Qed.

Lemma run_topB E fuel : forall ops s s' t,
  run_top E fuel s ops = Some (s', t) -> seg (st_next s) t (st_next s').
Proof.
  induction ops as [|o r IH]; intros s s' t; cbn.
  - intros H. inversion H. subst. apply seg_nil.
  - pose proof (execB E fuel s o) as Hx.
    destruct (exec E fuel s o) as [s1 t1|k s1 t1|]; [| |discriminate]; cbn in Hx;
      destruct (run_top E fuel s1 r) as [[s2 t2]|] eqn:R; try discriminate;
      intros H; inversion H; subst;
      (eapply seg_app; [exact Hx|]); apply seg_quiet_cons;
      try (apply IH; exact R); intros i; [apply quiet_ret|apply quiet_raise].
Qed.

(* ---------- the flat reading of a segment ---------- *)
Lemma seg_marker n t n' i ev subs :
  seg n t n' -> In (ObsFire i ev subs) t ->
  fires i t = [(ev, subs)] /\
  (exists k, dels i t = to ev (firstn k subs)) /\
  (In (ObsFireDone i) t -> dels i t = to ev subs).
Proof.
  intros [L H] Hin. apply In_fires in Hin. destruct (H i) as [A [B C]].
  destruct (lt_dec i n) as [Hlt|Hge].
  { destruct (A Hlt) as [f _]. rewrite f in Hin. destruct Hin. }
  destruct (le_dec n' i) as [Hle|Hgt].
  { destruct (C Hle) as [f _]. rewrite f in Hin. destruct Hin. }
  destruct B as [ev0 [subs0 [k [F [D O]]]]]; [lia|].
  rewrite F in Hin. destruct Hin as [Hin|[]]. inversion Hin. subst ev0 subs0.
  split; [exact F|]. split; [exists k; exact D|].
  intros Hd. apply In_dones in Hd. destruct O as [O|[_ O]]; [congruence|exact O].
Qed.

Lemma seg_delivery_has_marker n t n' i l ev :
  seg n t n' -> In (ObsDeliver i l ev) t ->
  exists subs, In (ObsFire i ev subs) t /\ In l subs.
Proof.
  intros [L H] Hin. apply In_dels in Hin. destruct (H i) as [A [B C]].
  destruct (lt_dec i n) as [Hlt|Hge].
  { destruct (A Hlt) as [_ [_ d]]. rewrite d in Hin. destruct Hin. }
  destruct (le_dec n' i) as [Hle|Hgt].
  { destruct (C Hle) as [_ [d _]]. rewrite d in Hin. destruct Hin. }
  destruct B as [ev0 [subs0 [k [F [D O]]]]]; [lia|].
  rewrite D in Hin. unfold to in Hin. apply in_map_iff in Hin.
  destruct Hin as [l' [Heq Hl]]. inversion Heq. subst l' ev0.
  exists subs0. split.
  - apply In_fires. rewrite F. left. reflexivity.
  - rewrite <- (firstn_skipn k subs0). apply in_or_app. left. exact Hl.
Qed.

(* ---------- theorems about whole histories ---------- *)
(* For every history from the empty producer and every fire invocation in it
   (ObsFire i ev subs: invocation i started when subs were the subscribers of
   ev's type): its deliveries are a prefix of subs, in order, all carrying ev;
   all of subs if the invocation returned; subs has no duplicates. *)
Theorem fire_delivers_snapshot_history E fuel scr ops s' t i ev subs :
  run_top E fuel (init scr) ops = Some (s', t) ->
  In (ObsFire i ev subs) t ->
  NoDup subs /\
  (exists k, dels i t = to ev (firstn k subs)) /\
  (In (ObsFireDone i) t -> dels i t = to ev subs) /\
  (forall ev' subs', In (ObsFire i ev' subs') t -> ev' = ev /\ subs' = subs).
Proof.
  intros R Hin.
  pose proof (run_topB _ _ _ _ _ _ R) as Hseg.
  destruct (invariant_reachable _ _ _ _ _ _ R) as [_ Hm].
  destruct (seg_marker _ _ _ _ _ _ Hseg Hin) as [F [P D]].
  split; [|split; [exact P|split; [exact D|]]].
  - rewrite Forall_forall in Hm. apply (Hm _ Hin).
  - intros ev' subs' Hin'. apply In_fires in Hin'. rewrite F in Hin'.
    destruct Hin' as [Hin'|[]]. inversion Hin'. auto.
Qed.

Theorem nobody_else_history E fuel scr ops s' t i l ev :
  run_top E fuel (init scr) ops = Some (s', t) ->
  In (ObsDeliver i l ev) t ->
  exists subs, In (ObsFire i ev subs) t /\ In l subs.
Proof.
  intros R. apply (seg_delivery_has_marker _ _ _ _ _ _ (run_topB _ _ _ _ _ _ R)).
Qed.

(* ---------- one invocation, seen from the state it is invoked in ---------- *)
(* the event a fire operation constructs and passes on (None: not a fire
   operation, or the event / the call is refused) *)
Definition fired_event (E : menv) (o : op) : option (nat * event) :=
  match o with
  | OFire p a c chk => match make_event E a c chk with MkOk e => Some (p, e) | MkErr _ => None end
  | OFireTimed p ts a c chk => match make_timed E ts a c chk with MkOk e => Some (p, e) | MkErr _ => None end
  | OFireEvent p e => match make_spec E e with Some (MkOk ev) => Some (p, ev) | _ => None end
  | OFireTimedEvent p e =>
      match make_spec E e with
      | Some (MkOk ev) => match ev_time ev with Some _ => Some (p, ev) | None => None end
      | _ => None
      end
  | _ => None
  end.

Lemma exec_fire_reduces E f s o p ev :
  fired_event E o = Some (p, ev) -> exec E (S f) s o = fire_ev (exec E f) s p ev.
Proof.
  destruct o as [q a l|q a l|q a l|q|q a c chk|q ts a c chk|q e|q e|]; cbn [fired_event exec]; try discriminate.
  - destruct (make_event E a c chk); [|discriminate]. intros H. inversion H. reflexivity.
  - destruct (make_timed E ts a c chk); [|discriminate]. intros H. inversion H. reflexivity.
  - destruct (make_spec E e) as [[ev'|k]|]; try discriminate. intros H. inversion H. reflexivity.
  - destruct (make_spec E e) as [[ev'|k]|]; try discriminate.
    destruct (ev_time ev'); [|discriminate]. intros H. inversion H. reflexivity.
Qed.

Theorem fire_delivers_snapshot E fuel s o p ev :
  fired_event E o = Some (p, ev) ->
  let subs := subscribers (subs_of s p) (ev_type ev) in
  match exec E fuel s o with
  | Done s' t => dels (st_next s) t = to ev subs
  | Raised _ s' t => exists k, dels (st_next s) t = to ev (firstn k subs)
  | OutOfFuel => True
  end.
Proof.
  intros Hf subs. destruct fuel as [|f]; [exact I|].
  rewrite (exec_fire_reduces E f s o p ev Hf).
  pose proof (fire_evB (exec E f) s p ev (execB E f)) as H. cbn zeta in H.
  destruct (fire_ev (exec E f) s p ev) as [s' t|k s' t|]; [| |exact I].
  - apply H.
  - apply H.
Qed.

(* an operation that is not an accepted fire delivers nothing to anybody *)
Theorem no_event_no_delivery E fuel s o :
  fired_event E o = None ->
  match exec E fuel s o with
  | Done s' t | Raised _ s' t => forall i l ev, ~ In (ObsDeliver i l ev) t
  | OutOfFuel => True
  end.
Proof.
  intros Hf. destruct fuel as [|f]; [exact I|].
  destruct o as [p a l|p a l|p a l|p|p a c chk|p ts a c chk|p e|p e|]; cbn [exec fired_event] in *.
  - destruct a as [et| |], l as [li| |]; cbn; intros i l0 ev0 [].
  - destruct a as [et| |], l as [li| |]; cbn; intros i l0 ev0 [].
  - destruct a as [et| |], l as [li| |]; cbn; intros i l0 ev0 [].
  - cbn. intros i l0 ev0 [H|[]]. discriminate H.
  - destruct (make_event E a c chk); [discriminate|]. cbn. intros i l0 ev0 [].
  - destruct (make_timed E ts a c chk); [discriminate|]. cbn. intros i l0 ev0 [].
  - destruct (make_spec E e) as [[ev'|k]|]; try discriminate; cbn; intros i l0 ev0 [].
  - destruct (make_spec E e) as [[ev'|k]|]; try (cbn; intros i l0 ev0 []; fail).
    destruct (ev_time ev'); [discriminate|]. cbn. intros i l0 ev0 [].
  - cbn. intros i l0 ev0 [].
Qed.

(* fire / fire_timed are fire_event / fire_timed_event of the constructed event *)
Lemma fire_is_fire_event E fuel s p a c chk :
  exec E fuel s (OFire p a c chk) = exec E fuel s (OFireEvent p (EvPlain a c chk)).
Proof. destruct fuel; reflexivity. Qed.

Lemma fire_timed_is_fire_timed_event E fuel s p ts a c chk :
  exec E fuel s (OFireTimed p ts a c chk) = exec E fuel s (OFireTimedEvent p (EvTimed ts a c chk)).
Proof.
  destruct fuel as [|f]; [reflexivity|]. cbn [exec make_spec].
  destruct (make_timed E ts a c chk) as [ev|k] eqn:M; [|reflexivity].
  apply timed_event_keeps_timestamp in M. destruct M as [-> _]. reflexivity.
Qed.

(* what a fire_timed invocation delivers carries the timestamp it was fired with *)
Theorem fire_timed_delivers_timestamp E fuel s p ts a c chk :
  match exec E fuel s (OFireTimed p ts a c chk) with
  | Done s' t | Raised _ s' t =>
      forall l ev, In (ObsDeliver (st_next s) l ev) t ->
        ev_time ev = Some ts /\ ev_content ev = c /\ a = Good (ev_type ev)
  | OutOfFuel => True
  end.
Proof.
  destruct (make_timed E ts a c chk) as [ev0|k] eqn:M.
  - assert (Hf : fired_event E (OFireTimed p ts a c chk) = Some (p, ev0)) by (cbn; rewrite M; reflexivity).
    pose proof (fire_delivers_snapshot E fuel s _ p ev0 Hf) as H. cbn zeta in H.
    apply timed_event_keeps_timestamp in M.
    destruct (exec E fuel s (OFireTimed p ts a c chk)) as [s' t|e s' t|]; [| |exact I].
    + intros l ev Hin. apply In_dels in Hin. rewrite H in Hin. unfold to in Hin.
      apply in_map_iff in Hin. destruct Hin as [l' [Heq _]]. inversion Heq. subst. exact M.
    + destruct H as [j H]. intros l ev Hin. apply In_dels in Hin. rewrite H in Hin. unfold to in Hin.
      apply in_map_iff in Hin. destruct Hin as [l' [Heq _]]. inversion Heq. subst. exact M.
  - assert (Hf : fired_event E (OFireTimed p ts a c chk) = None) by (cbn; rewrite M; reflexivity).
    pose proof (no_event_no_delivery E fuel s _ Hf) as H.
    destruct (exec E fuel s (OFireTimed p ts a c chk)) as [s' t|e s' t|]; [| |exact I];
      intros l ev Hin; exfalso; eapply H; exact Hin.
Qed.

(* ====================================================================== *)
(* C. Fuel                                                                 *)
(* ====================================================================== *)
Definition cnt (s : state) : nat := count_scripts (st_scripts s).

Lemma pop_script_cnt l : forall scr,
  let '(p, scr') := pop_script l scr in
  (p = [] /\ scr' = scr) \/ S (count_scripts scr') = count_scripts scr.
Proof.
  induction l as [|l IH]; intros scr; destruct scr as [|q r]; cbn.
  - left. auto.
  - destruct q as [|p q']; cbn; [left; auto|right; reflexivity].
  - left. auto.
  - specialize (IH r). destruct (pop_script l r) as [p r']. cbn.
    destruct IH as [[-> ->]|IH]; [left; auto|right; unfold count_scripts in *; lia].
Qed.

(* the result is not OutOfFuel and the number of pending scripts did not grow *)
Definition resC (b : nat) (r : res) : Prop :=
  match r with
  | Done s' _ | Raised _ s' _ => cnt s' <= b
  | OutOfFuel => False
  end.

Definition stepC (f : nat) (step : state -> op -> res) : Prop :=
  forall s o, cnt s < f -> resC (cnt s) (step s o).

Lemma resC_weaken b b' r : b <= b' -> resC b r -> resC b' r.
Proof. destruct r; cbn; auto; lia. Qed.

Lemma bindC b r k : resC b r -> (forall s, cnt s <= b -> resC (cnt s) (k s)) -> resC b (bind_res r k).
Proof.
  destruct r as [s t|e s t|]; cbn; auto.
  intros Hb Hk. specialize (Hk s Hb). destruct (k s) as [s' t'|e s' t'|]; cbn in *; auto; lia.
Qed.

Lemma run_listC f step : stepC f step ->
  forall ops s, cnt s < f -> resC (cnt s) (run_list step s ops).
Proof.
  intros Hs. induction ops as [|o r IH]; intros s Hc; cbn; [lia|].
  apply bindC; [apply Hs; exact Hc|]. intros s1 H1. apply IH. lia.
Qed.

Lemma notifyC f step i ev s l : stepC f step -> cnt s <= f -> resC (cnt s) (notify step i ev s l).
Proof.
  intros Hs Hc. unfold notify.
  pose proof (pop_script_cnt l (st_scripts s)) as Hp.
  destruct (pop_script l (st_scripts s)) as [p scr'].
  destruct Hp as [[-> ->]|Hp].
  - cbn. unfold cnt. cbn [st_scripts]. apply Nat.le_refl.
  - pose proof (run_listC f step Hs p (mkState (st_subs s) scr' (st_next s))) as H.
    unfold cnt in *. cbn [st_scripts] in H. specialize (H ltac:(lia)).
    destruct (run_list step _ p) as [s' t|e s' t|]; cbn in *; auto; lia.
Qed.

Lemma deliver_allC f step i ev : stepC f step ->
  forall ls s, cnt s <= f -> resC (cnt s) (deliver_all step i ev s ls).
Proof.
  intros Hs. induction ls as [|l r IH]; intros s Hc; cbn; [lia|].
  apply bindC; [apply (notifyC f); assumption|]. intros s1 H1. apply IH. lia.
Qed.

Lemma fire_evC f step s p ev : stepC f step -> cnt s <= f -> resC (cnt s) (fire_ev step s p ev).
Proof.
  intros Hs Hc. unfold fire_ev.
  pose proof (deliver_allC f step (st_next s) ev Hs (subscribers (subs_of s p) (ev_type ev))
                (mkState (st_subs s) (st_scripts s) (S (st_next s)))) as H.
  unfold cnt in *. cbn [st_scripts] in H. specialize (H Hc).
  destruct (deliver_all step (st_next s) ev _ _) as [s' t|e s' t|]; cbn in *; auto.
Qed.

Lemma fire_mkC f step s p m : stepC f step -> cnt s <= f -> resC (cnt s) (fire_mk step s p m).
Proof.
  intros Hs Hc. destruct m as [ev|k]; cbn; [apply (fire_evC f); assumption|lia].
Qed.

Lemma pure_stepC s o : resC (cnt s) (pure_step s o).
Proof.
  destruct o as [p a l|p a l|p a l|p|p a c chk|p ts a c chk|p e|p e|]; try (cbn; apply Nat.le_refl);
    destruct a as [et| |], l as [li| |]; cbn; apply Nat.le_refl.
Qed.

Lemma execC E : forall fuel, stepC fuel (exec E fuel).
Proof.
  induction fuel as [|f IH]; intros s o Hc; [lia|].
  assert (Hc' : cnt s <= f) by lia.
  destruct o as [p a l|p a l|p a l|p|p a c chk|p ts a c chk|p e|p e|]; cbn [exec];
    try apply pure_stepC.
  - apply (fire_mkC f); assumption.
  - apply (fire_mkC f); assumption.
  - destruct (make_spec E e) as [m|]; [apply (fire_mkC f); assumption|cbn; lia].
  - destruct (make_spec E e) as [[ev|k]|]; try (cbn; lia).
    destruct (ev_time ev); [apply (fire_evC f); assumption|cbn; lia].
Qed.

Lemma run_topC E fuel : forall ops s, cnt s < fuel ->
  exists s' t, run_top E fuel s ops = Some (s', t) /\ cnt s' <= cnt s.
Proof.
  induction ops as [|o r IH]; intros s Hc; cbn.
  - exists s, []. split; [reflexivity|lia].
  - pose proof (execC E fuel s o Hc) as Hx.
    destruct (exec E fuel s o) as [s1 t1|k s1 t1|]; cbn in Hx; [| |destruct Hx];
      (destruct (IH s1) as [s2 [t2 [R Hle]]]; [lia|]); rewrite R;
      eexists; eexists; (split; [reflexivity|lia]).
Qed.

(* fuel_for is always enough: every history has a behaviour *)
Theorem enough_fuel E scr ops :
  exists s' t, run_top E (fuel_for (init scr)) (init scr) ops = Some (s', t).
Proof.
  destruct (run_topC E (fuel_for (init scr)) ops (init scr)) as [s' [t [R _]]].
  - unfold fuel_for, cnt. lia.
  - exists s', t. exact R.
Qed.

(* ---------- more fuel never changes a result ---------- *)
Definition le_step (st st' : state -> op -> res) : Prop :=
  forall s o, st s o <> OutOfFuel -> st' s o = st s o.

Lemma bind_mono r k k' :
  bind_res r k <> OutOfFuel -> (forall s, k s <> OutOfFuel -> k' s = k s) ->
  bind_res r k' = bind_res r k.
Proof.
  destruct r as [s t|e s t|]; cbn; auto. intros H Hk.
  rewrite Hk; [reflexivity|]. intros C. rewrite C in H. apply H. reflexivity.
Qed.

Lemma bind_mono_l r r' k :
  bind_res r k <> OutOfFuel -> (r <> OutOfFuel -> r' = r) -> bind_res r' k = bind_res r k.
Proof.
  intros H Hr. rewrite Hr; [reflexivity|]. intros C. rewrite C in H. apply H. reflexivity.
Qed.

Lemma run_list_mono st st' : le_step st st' ->
  forall ops s, run_list st s ops <> OutOfFuel -> run_list st' s ops = run_list st s ops.
Proof.
  intros Hl. induction ops as [|o r IH]; intros s H; cbn in *; [reflexivity|].
  assert (Ho : st s o <> OutOfFuel).
  { intros C. rewrite C in H. apply H. reflexivity. }
  rewrite (Hl s o Ho).
  apply bind_mono; [exact H|]. intros s1. apply IH.
Qed.

Lemma prepend_ne t0 r : prepend t0 r <> OutOfFuel -> r <> OutOfFuel.
Proof. destruct r; cbn; congruence. Qed.

Lemma notify_mono st st' i ev s l : le_step st st' ->
  notify st i ev s l <> OutOfFuel -> notify st' i ev s l = notify st i ev s l.
Proof.
  intros Hl. unfold notify. destruct (pop_script l (st_scripts s)) as [p scr'].
  intros H. apply prepend_ne in H. rewrite (run_list_mono st st' Hl); [reflexivity|exact H].
Qed.

Lemma deliver_all_mono st st' i ev : le_step st st' ->
  forall ls s, deliver_all st i ev s ls <> OutOfFuel ->
    deliver_all st' i ev s ls = deliver_all st i ev s ls.
Proof.
  intros Hl. induction ls as [|l r IH]; intros s H; cbn in *; [reflexivity|].
  assert (Hn : notify st i ev s l <> OutOfFuel).
  { intros C. rewrite C in H. apply H. reflexivity. }
  rewrite (notify_mono st st' i ev s l Hl Hn).
  apply bind_mono; [exact H|]. intros s1. apply IH.
Qed.

Lemma fire_ev_mono st st' s p ev : le_step st st' ->
  fire_ev st s p ev <> OutOfFuel -> fire_ev st' s p ev = fire_ev st s p ev.
Proof.
  intros Hl. unfold fire_ev. intros H.
  rewrite (deliver_all_mono st st' _ ev Hl); [reflexivity|].
  intros C. rewrite C in H. apply H. reflexivity.
Qed.

Lemma fire_mk_mono st st' s p m : le_step st st' ->
  fire_mk st s p m <> OutOfFuel -> fire_mk st' s p m = fire_mk st s p m.
Proof. intros Hl. destruct m; cbn; [apply fire_ev_mono; exact Hl|reflexivity]. Qed.

Lemma exec_mono_S E : forall f, le_step (exec E f) (exec E (S f)).
Proof.
  induction f as [|f IH]; intros s o H; [exfalso; apply H; reflexivity|].
  destruct o as [p a l|p a l|p a l|p|p a c chk|p ts a c chk|p e|p e|]; try reflexivity.
  - apply (fire_mk_mono _ _ s p _ IH). exact H.
  - apply (fire_mk_mono _ _ s p _ IH). exact H.
  - change (exec E (S (S f)) s (OFireEvent p e)) with
      (match make_spec E e with None => Raised ENotEvent s [] | Some m => fire_mk (exec E (S f)) s p m end).
    change (exec E (S f) s (OFireEvent p e)) with
      (match make_spec E e with None => Raised ENotEvent s [] | Some m => fire_mk (exec E f) s p m end) in H |- *.
    destruct (make_spec E e) as [m|]; [|reflexivity]. apply (fire_mk_mono _ _ s p _ IH). exact H.
  - change (exec E (S (S f)) s (OFireTimedEvent p e)) with
      (match make_spec E e with
       | None => Raised ENotTimedEvent s []
       | Some (MkErr k) => Raised k s []
       | Some (MkOk ev) => match ev_time ev with
                           | None => Raised ENotTimedEvent s []
                           | Some _ => fire_ev (exec E (S f)) s p ev end end).
    change (exec E (S f) s (OFireTimedEvent p e)) with
      (match make_spec E e with
       | None => Raised ENotTimedEvent s []
       | Some (MkErr k) => Raised k s []
       | Some (MkOk ev) => match ev_time ev with
                           | None => Raised ENotTimedEvent s []
                           | Some _ => fire_ev (exec E f) s p ev end end) in H |- *.
    destruct (make_spec E e) as [[ev|k]|]; try reflexivity.
    destruct (ev_time ev); [|reflexivity]. apply (fire_ev_mono _ _ s p _ IH). exact H.
Qed.

Theorem exec_fuel_irrelevant E f f' s o :
  f <= f' -> exec E f s o <> OutOfFuel -> exec E f' s o = exec E f s o.
Proof.
  induction 1 as [|f' Hle IH]; intros H; [reflexivity|].
  rewrite <- (IH H). apply exec_mono_S. rewrite (IH H). exact H.
Qed.

Theorem run_top_fuel_irrelevant E f f' : f <= f' -> forall ops s r,
  run_top E f s ops = Some r -> run_top E f' s ops = Some r.
Proof.
  intros Hle. induction ops as [|o rest IH]; intros s r; cbn; [auto|].
  destruct (exec E f s o) as [s1 t1|k s1 t1|] eqn:X; [| |discriminate];
    (rewrite (exec_fuel_irrelevant E f f' s o Hle) by (rewrite X; discriminate)); rewrite X;
    destruct (run_top E f s1 rest) as [[s2 t2]|] eqn:R; try discriminate;
    rewrite (IH _ _ R); auto.
Qed.
