(* Publish/subscribe (pydsol/core/pubsub.py): executable model of EventType
   metadata, Event / TimedEvent construction and EventProducer - any number
   of producers sharing event types and listeners (a listener notified by one
   producer may operate on, and fire from, any other).

   Listeners are programs: a listener owns a queue of scripts (lists of
   producer operations); its k-th notification performs the k-th script from
   inside notify (subscribe, the unsubscribe forms, nested fire, raise).  An
   exception raised inside notify propagates through every enclosing fire to
   the outermost caller, exactly as in the Python code (fire_event has no
   try/except).  Recursion is on explicit fuel; exhaustion is its own result.

   This file contains executable definitions only (no proofs). *)
From Coq Require Import ZArith List Bool Arith.
Import ListNotations.

(* ====================================================================== *)
(* Python classes that occur in payloads: a small isinstance lattice       *)
(* ====================================================================== *)
Inductive pyty :=
| TObject | TInt | TBool | TFloat | TStr | TNone | TList | TDict
| TBase | TDerived.                 (* class Base; class Derived(Base) *)

Definition pyty_code (t : pyty) : nat :=
  match t with
  | TObject => 0 | TInt => 1 | TBool => 2 | TFloat => 3 | TStr => 4
  | TNone => 5 | TList => 6 | TDict => 7 | TBase => 8 | TDerived => 9
  end.

Definition pyty_eqb (a b : pyty) : bool := Nat.eqb (pyty_code a) (pyty_code b).

(* issubclass(a, b) *)
Definition subty (a b : pyty) : bool :=
  match b with
  | TObject => true
  | TInt => match a with TInt | TBool => true | _ => false end
  | TBase => match a with TBase | TDerived => true | _ => false end
  | _ => pyty_eqb a b
  end.

(* A payload value is abstracted to its exact class; None is the only value
   of class NoneType. *)
Record pyval := PyV { type_of : pyty }.

Definition is_none (v : pyval) : bool := pyty_eqb (type_of v) TNone.
Definition isinstance (v : pyval) (t : pyty) : bool := subty (type_of v) t.

(* ====================================================================== *)
(* Payloads, timestamps, events, metadata                                  *)
(* ====================================================================== *)
(* keys of payload dicts and of metadata are abstract names (nat) *)
Inductive shape :=
| SDict (items : list (nat * pyval))   (* isinstance(content, dict) *)
| SNonDict (t : pyty).                 (* anything else (t: its class) *)

(* c_tag is the identity of the payload object *)
Record content := mkContent { c_tag : nat; c_shape : shape }.

Record tstamp := mkTs { ts_ty : pyty; ts_tag : Z }.

(* isinstance(timestamp, (int, float)) *)
Definition ts_ok (t : tstamp) : bool := subty (ts_ty t) TInt || subty (ts_ty t) TFloat.

(* ev_time = None: plain Event; Some t: TimedEvent with timestamp t *)
Record event := mkEvent { ev_type : nat; ev_content : content; ev_time : option tstamp }.

Definition metadata := list (nat * pyty).
Definition menv := list (option metadata).     (* event type id -> metadata *)
Definition md_of (E : menv) (et : nat) : option metadata := nth et E None.

Inductive err :=
| ENotEventType | ENotListener | ENotEvent | ENotTimedEvent
| ENotDict | ELength | EMissing (k : nat) | EWrongType (k : nat) | ETimestamp
| EUser.                 (* raised by a listener program (RuntimeError) *)

(* every kind but EUser is pubsub.EventError *)
Definition is_event_error (k : err) : bool := match k with EUser => false | _ => true end.

Fixpoint dict_get (k : nat) (items : list (nat * pyval)) : option pyval :=
  match items with
  | [] => None
  | (k', v) :: r => if Nat.eqb k' k then Some v else dict_get k r
  end.

(* the loop over metadata.keys() in Event.__init__ *)
Fixpoint check_keys (m : metadata) (items : list (nat * pyval)) : option err :=
  match m with
  | [] => None
  | (k, t) :: r =>
      match dict_get k items with
      | None => Some (EMissing k)
      | Some v =>
          if is_none v then Some (EMissing k)
          else if isinstance v t then check_keys r items
          else Some (EWrongType k)
      end
  end.

(* Event.__init__ after the event_type check: None = accepted *)
Definition validate (md : option metadata) (c : content) (chk : bool) : option err :=
  match md with
  | None => None
  | Some m =>
      match c_shape c with
      | SNonDict _ => Some ENotDict
      | SDict items =>
          if chk then
            if Nat.eqb (length m) (length items) then check_keys m items
            else Some ELength
          else None
      end
  end.

Inductive arg := Good (n : nat) | NoneArg | BadArg.

Inductive mk := MkOk (e : event) | MkErr (k : err).

(* Event(event_type, content, check) *)
Definition make_event (E : menv) (a : arg) (c : content) (chk : bool) : mk :=
  match a with
  | Good et =>
      match validate (md_of E et) c chk with
      | Some k => MkErr k
      | None => MkOk (mkEvent et c None)
      end
  | _ => MkErr ENotEventType
  end.

(* TimedEvent(timestamp, event_type, content, check) *)
Definition make_timed (E : menv) (ts : tstamp) (a : arg) (c : content) (chk : bool) : mk :=
  if ts_ok ts then
    match make_event E a c chk with
    | MkOk e => MkOk (mkEvent (ev_type e) (ev_content e) (Some ts))
    | MkErr k => MkErr k
    end
  else MkErr ETimestamp.

(* ====================================================================== *)
(* The subscription map: dict EventType -> list of listeners               *)
(* ====================================================================== *)
Definition submap := list (nat * list nat).

Fixpoint lookup (et : nat) (m : submap) : option (list nat) :=
  match m with
  | [] => None
  | (k, ls) :: r => if Nat.eqb k et then Some ls else lookup et r
  end.

Definition subscribers (m : submap) (et : nat) : list nat :=
  match lookup et m with Some ls => ls | None => [] end.

Definition memb (x : nat) (l : list nat) : bool := existsb (Nat.eqb x) l.

(* list.remove: first occurrence *)
Fixpoint remove_first (x : nat) (l : list nat) : list nat :=
  match l with
  | [] => []
  | y :: r => if Nat.eqb x y then r else y :: remove_first x r
  end.

(* add_listener *)
Fixpoint sub_add (et l : nat) (m : submap) : submap :=
  match m with
  | [] => [(et, [l])]
  | (k, ls) :: r =>
      if Nat.eqb k et then (k, if memb l ls then ls else ls ++ [l]) :: r
      else (k, ls) :: sub_add et l r
  end.

(* remove_listener *)
Fixpoint sub_remove (et l : nat) (m : submap) : submap :=
  match m with
  | [] => []
  | (k, ls) :: r =>
      if Nat.eqb k et then
        if memb l ls then
          match remove_first l ls with
          | [] => r                               (* del self._listeners[et] *)
          | ls' => (k, ls') :: r
          end
        else m
      else (k, ls) :: sub_remove et l r
  end.

(* del self._listeners[et] (if present) *)
Fixpoint sub_del (et : nat) (m : submap) : submap :=
  match m with
  | [] => []
  | (k, ls) :: r => if Nat.eqb k et then r else (k, ls) :: sub_del et r
  end.

(* for et in list(self._listeners.keys()): self.remove_listener(et, l) *)
Definition sub_remove_everywhere (l : nat) (m : submap) : submap :=
  fold_left (fun acc et => sub_remove et l acc) (map fst m) m.

(* len(self._listeners) > 0 *)
Definition has_listeners (m : submap) : bool :=
  match m with [] => false | _ => true end.

(* several producers: producer p owns the p-th map; a producer never touched
   has the empty map *)
Definition prods := list submap.
Definition prod_subs (ps : prods) (p : nat) : submap := nth p ps [].

Fixpoint upd_prod (p : nat) (f : submap -> submap) (ps : prods) : prods :=
  match p, ps with
  | O, [] => [f []]
  | O, m :: r => f m :: r
  | S p', [] => [] :: upd_prod p' f []
  | S p', m :: r => m :: upd_prod p' f r
  end.

(* ====================================================================== *)
(* Operations, observations, state                                         *)
(* ====================================================================== *)
Inductive evspec :=
| EvPlain (et : arg) (c : content) (chk : bool)                (* Event(...) *)
| EvTimed (ts : tstamp) (et : arg) (c : content) (chk : bool)  (* TimedEvent(...) *)
| EvNotAnEvent.                                                (* some other object *)

(* p: the producer the method is called on *)
Inductive op :=
| OAdd (p : nat) (et l : arg)
| ORemove (p : nat) (et l : arg)
| ORemoveAll (p : nat) (et l : arg)           (* NoneArg = argument left at None *)
| OHas (p : nat)
| OFire (p : nat) (et : arg) (c : content) (chk : bool)
| OFireTimed (p : nat) (ts : tstamp) (et : arg) (c : content) (chk : bool)
| OFireEvent (p : nat) (e : evspec)           (* construct e, then fire_event(e) *)
| OFireTimedEvent (p : nat) (e : evspec)      (* construct e, then fire_timed_event(e) *)
| ORaise.                                     (* raise RuntimeError (listener programs) *)

(* ObsFire / ObsFireDone are ghost markers: invocation number i of
   fire_event / fire_timed_event (on whichever producer) started with event ev
   while subs were that producer's subscribers of its type / returned normally.  They are erased before the
   comparison with the implementation. *)
Inductive obs :=
| ObsFire (i : nat) (ev : event) (subs : list nat)
| ObsDeliver (i : nat) (l : nat) (ev : event)
| ObsFireDone (i : nat)
| ObsHas (b : bool)
| ObsRet
| ObsRaise (k : err).

Definition scripts := list (list (list op)).   (* listener -> remaining scripts *)

Record state := mkState {
  st_subs : prods;
  st_scripts : scripts;
  st_next : nat               (* ghost: number of the next fire invocation *)
}.

Definition subs_of (s : state) (p : nat) : submap := prod_subs (st_subs s) p.

(* apply f to producer p's map *)
Definition on_prod (s : state) (p : nat) (f : submap -> submap) : state :=
  mkState (upd_prod p f (st_subs s)) (st_scripts s) (st_next s).

Fixpoint pop_script (l : nat) (scr : scripts) : list op * scripts :=
  match scr, l with
  | [], _ => ([], [])
  | q :: r, O => match q with [] => ([], scr) | p :: q' => (p, q' :: r) end
  | q :: r, S l' => let '(p, r') := pop_script l' r in (p, q :: r')
  end.

Inductive res :=
| Done (s : state) (t : list obs)
| Raised (k : err) (s : state) (t : list obs)   (* state changes made so far persist *)
| OutOfFuel.

Definition bind_res (r : res) (k : state -> res) : res :=
  match r with
  | Done s t =>
      match k s with
      | Done s' t' => Done s' (t ++ t')
      | Raised e s' t' => Raised e s' (t ++ t')
      | OutOfFuel => OutOfFuel
      end
  | other => other
  end.

Definition prepend (t0 : list obs) (r : res) : res :=
  match r with
  | Done s t => Done s (t0 ++ t)
  | Raised e s t => Raised e s (t0 ++ t)
  | OutOfFuel => OutOfFuel
  end.

Fixpoint run_list (step : state -> op -> res) (s : state) (ops : list op) : res :=
  match ops with
  | [] => Done s []
  | o :: r => bind_res (step s o) (fun s1 => run_list step s1 r)
  end.

(* listener.notify(event): record the delivery, then perform the next script *)
Definition notify (step : state -> op -> res) (i : nat) (ev : event) (s : state) (l : nat) : res :=
  let '(p, scr') := pop_script l (st_scripts s) in
  prepend [ObsDeliver i l ev]
          (run_list step (mkState (st_subs s) scr' (st_next s)) p).

(* for listener in copy: listener.notify(event) *)
Fixpoint deliver_all (step : state -> op -> res) (i : nat) (ev : event) (s : state)
  (ls : list nat) : res :=
  match ls with
  | [] => Done s []
  | l :: r => bind_res (notify step i ev s l) (fun s1 => deliver_all step i ev s1 r)
  end.

(* fire_event / fire_timed_event after the isinstance check: iterate over a
   snapshot of the subscriber list *)
Definition fire_ev (step : state -> op -> res) (s : state) (p : nat) (ev : event) : res :=
  let i := st_next s in
  let ls := subscribers (subs_of s p) (ev_type ev) in
  match deliver_all step i ev (mkState (st_subs s) (st_scripts s) (S i)) ls with
  | Done s' t => Done s' (ObsFire i ev ls :: t ++ [ObsFireDone i])
  | Raised k s' t => Raised k s' (ObsFire i ev ls :: t)
  | OutOfFuel => OutOfFuel
  end.

Definition make_spec (E : menv) (e : evspec) : option mk :=
  match e with
  | EvPlain a c chk => Some (make_event E a c chk)
  | EvTimed ts a c chk => Some (make_timed E ts a c chk)
  | EvNotAnEvent => None
  end.

(* operations that never call a listener *)
Definition pure_step (s : state) (o : op) : res :=
  match o with
  | OAdd p (Good et) (Good l) => Done (on_prod s p (sub_add et l)) []
  | OAdd _ (Good _) _ => Raised ENotListener s []
  | OAdd _ _ _ => Raised ENotEventType s []
  | ORemove p (Good et) (Good l) => Done (on_prod s p (sub_remove et l)) []
  | ORemove _ (Good _) _ => Raised ENotListener s []
  | ORemove _ _ _ => Raised ENotEventType s []
  | ORemoveAll _ BadArg _ => Raised ENotEventType s []
  | ORemoveAll _ _ BadArg => Raised ENotListener s []
  | ORemoveAll p NoneArg NoneArg => Done (on_prod s p (fun _ => [])) []
  | ORemoveAll p NoneArg (Good l) => Done (on_prod s p (sub_remove_everywhere l)) []
  | ORemoveAll p (Good et) NoneArg => Done (on_prod s p (sub_del et)) []
  | ORemoveAll p (Good et) (Good l) => Done (on_prod s p (sub_remove et l)) []
  | OHas p => Done s [ObsHas (has_listeners (subs_of s p))]
  | _ => Raised EUser s []            (* ORaise; fire ops are handled by exec *)
  end.

Definition fire_mk (step : state -> op -> res) (s : state) (p : nat) (m : mk) : res :=
  match m with
  | MkErr k => Raised k s []
  | MkOk ev => fire_ev step s p ev
  end.

Fixpoint exec (E : menv) (fuel : nat) (s : state) (o : op) : res :=
  match fuel with
  | O => OutOfFuel
  | S f =>
      match o with
      | OFire p a c chk => fire_mk (exec E f) s p (make_event E a c chk)
      | OFireTimed p ts a c chk => fire_mk (exec E f) s p (make_timed E ts a c chk)
      | OFireEvent p e =>
          match make_spec E e with
          | None => Raised ENotEvent s []
          | Some m => fire_mk (exec E f) s p m
          end
      | OFireTimedEvent p e =>
          match make_spec E e with
          | None => Raised ENotTimedEvent s []
          | Some (MkErr k) => Raised k s []
          | Some (MkOk ev) =>
              match ev_time ev with
              | None => Raised ENotTimedEvent s []
              | Some _ => fire_ev (exec E f) s p ev
              end
          end
      | _ => pure_step s o
      end
  end.

(* The outermost caller performs the operations one after the other and
   catches what they raise. *)
Fixpoint run_top (E : menv) (fuel : nat) (s : state) (ops : list op)
  : option (state * list obs) :=
  match ops with
  | [] => Some (s, [])
  | o :: r =>
      match exec E fuel s o with
      | OutOfFuel => None
      | Done s1 t =>
          match run_top E fuel s1 r with
          | Some (s2, t2) => Some (s2, t ++ ObsRet :: t2)
          | None => None
          end
      | Raised k s1 t =>
          match run_top E fuel s1 r with
          | Some (s2, t2) => Some (s2, t ++ ObsRaise k :: t2)
          | None => None
          end
      end
  end.

Definition init (scr : scripts) : state := mkState [] scr 0.

(* nesting depth is bounded by the number of scripts still to be performed *)
Definition count_scripts (scr : scripts) : nat :=
  fold_right (fun q n => length q + n) 0 scr.

Definition fuel_for (s : state) : nat := S (count_scripts (st_scripts s)).

(* ====================================================================== *)
(* Correspondence with the implementation                                  *)
(* ====================================================================== *)
(* what the harness observes on the real classes *)
Inductive iobs :=
| IDeliver (i l et tag : nat) (ts : option tstamp)   (* i: ordinal of the delivering fire invocation *)
| IHas (b : bool)
| IRet
| IRaiseEventError
| IRaiseUser
| IOther.                     (* anything the model cannot produce *)

Definition erase1 (o : obs) : list iobs :=
  match o with
  | ObsFire _ _ _ | ObsFireDone _ => []
  | ObsDeliver i l ev => [IDeliver i l (ev_type ev) (c_tag (ev_content ev)) (ev_time ev)]
  | ObsHas b => [IHas b]
  | ObsRet => [IRet]
  | ObsRaise k => [if is_event_error k then IRaiseEventError else IRaiseUser]
  end.

Definition erase (t : list obs) : list iobs := flat_map erase1 t.

Definition ts_eqb (a b : tstamp) : bool :=
  pyty_eqb (ts_ty a) (ts_ty b) && Z.eqb (ts_tag a) (ts_tag b).

Definition ots_eqb (a b : option tstamp) : bool :=
  match a, b with
  | None, None => true
  | Some x, Some y => ts_eqb x y
  | _, _ => false
  end.

Definition iobs_eqb (a b : iobs) : bool :=
  match a, b with
  | IDeliver i l et tag ts, IDeliver i' l' et' tag' ts' =>
      Nat.eqb i i' && Nat.eqb l l' && Nat.eqb et et' && Nat.eqb tag tag' && ots_eqb ts ts'
  | IHas x, IHas y => Bool.eqb x y
  | IRet, IRet => true
  | IRaiseEventError, IRaiseEventError => true
  | IRaiseUser, IRaiseUser => true
  | _, _ => false
  end.

Fixpoint iobs_list_eqb (a b : list iobs) : bool :=
  match a, b with
  | [], [] => true
  | x :: r, y :: s => iobs_eqb x y && iobs_list_eqb r s
  | _, _ => false
  end.

Record case := mkCase {
  cs_env : menv;
  cs_scripts : scripts;
  cs_ops : list op;
  cs_observed : list iobs
}.

Definition case_ok (c : case) : bool :=
  let s0 := init (cs_scripts c) in
  match run_top (cs_env c) (fuel_for s0) s0 (cs_ops c) with
  | Some (_, t) => iobs_list_eqb (erase t) (cs_observed c)
  | None => false
  end.

Fixpoint mismatches_from (i : nat) (cases : list case) : list nat :=
  match cases with
  | [] => []
  | c :: r => if case_ok c then mismatches_from (S i) r else i :: mismatches_from (S i) r
  end.

(* Event / TimedEvent construction alone: (metadata, timestamp, payload,
   check, accepted?) *)
Definition ctor_ok (md : option metadata) (ts : option tstamp) (c : content) (chk : bool)
  (accepted : bool) : bool :=
  let r := match ts with
           | None => make_event [md] (Good 0) c chk
           | Some t => make_timed [md] t (Good 0) c chk
           end in
  match r with
  | MkOk e => accepted && ots_eqb (ev_time e) ts
  | MkErr k => negb accepted && is_event_error k
  end.

Fixpoint ctor_mismatches_from (i : nat)
  (cases : list (option metadata * option tstamp * content * bool * bool)) : list nat :=
  match cases with
  | [] => []
  | (md, ts, c, chk, acc) :: r =>
      if ctor_ok md ts c chk acc then ctor_mismatches_from (S i) r
      else i :: ctor_mismatches_from (S i) r
  end.
