(* EventType.__init__ (pydsol/core/pubsub.py:81-131): executable model.

   The constructor keeps a process-wide set of "defining_class.name" strings
   (defining_class = co_name of the calling code object).  A construction is
   refused (EventError) when the name is not a str, when the key is already in
   the set, when a metadata key is not a str or a metadata value is not a type.
   The key is added to the set BEFORE the metadata is looked at, so a
   construction refused because of its metadata has nevertheless reserved its
   name - the model reproduces that.

   Executable definitions only (no proofs). *)
From Coq Require Import List Bool Arith.
From PV Require Import PubSub.Model.
Import ListNotations.

(* the name argument: a str (numbered) or some other object *)
Inductive namev := NameStr (n : nat) | NameNotStr.
(* a key / a value of the metadata argument as written by the caller *)
Inductive mdkey := KStr (k : nat) | KNotStr.
Inductive mdval := VType (t : pyty) | VNotType.
Definition raw_md := option (list (mdkey * mdval)).      (* None: no metadata *)

(* EventType.__defined_types: (defining site, name) pairs *)
Definition registry := list (nat * nat).

Definition key_eqb (a b : nat * nat) : bool :=
  Nat.eqb (fst a) (fst b) && Nat.eqb (snd a) (snd b).

Definition registered (reg : registry) (k : nat * nat) : bool := existsb (key_eqb k) reg.

Inductive eterr := ENameNotStr | EDuplicate | EKeyNotStr | EValueNotType.

(* the loop over metadata.keys(): first offending entry decides; on success
   the declaration in the form Event.__init__ reads it *)
Fixpoint check_decl (d : list (mdkey * mdval)) : eterr + metadata :=
  match d with
  | [] => inr []
  | (KNotStr, _) :: _ => inl EKeyNotStr
  | (KStr _, VNotType) :: _ => inl EValueNotType
  | (KStr k, VType t) :: r =>
      match check_decl r with
      | inl e => inl e
      | inr m => inr ((k, t) :: m)
      end
  end.

Record etype := mkEType { et_site : nat; et_name : nat; et_md : option metadata }.

Inductive etres := EtOk (e : etype) | EtErr (k : eterr).

(* EventType(name, metadata) called from code object [site] *)
Definition make_event_type (reg : registry) (site : nat) (name : namev) (md : raw_md)
  : registry * etres :=
  match name with
  | NameNotStr => (reg, EtErr ENameNotStr)
  | NameStr n =>
      if registered reg (site, n) then (reg, EtErr EDuplicate)
      else
        let reg' := (site, n) :: reg in
        match md with
        | None => (reg', EtOk (mkEType site n None))
        | Some d =>
            match check_decl d with
            | inl e => (reg', EtErr e)
            | inr m => (reg', EtOk (mkEType site n (Some m)))
            end
        end
  end.

(* a sequence of constructions; the created types in creation order *)
Fixpoint make_types (reg : registry) (cs : list (nat * namev * raw_md))
  : registry * list etres :=
  match cs with
  | [] => (reg, [])
  | (site, name, md) :: r =>
      let '(reg1, x) := make_event_type reg site name md in
      let '(reg2, xs) := make_types reg1 r in
      (reg2, x :: xs)
  end.

Fixpoint created (xs : list etres) : list etype :=
  match xs with
  | [] => []
  | EtOk e :: r => e :: created r
  | EtErr _ :: r => created r
  end.

(* the metadata environment the producer model works with *)
Definition env_of (ts : list etype) : menv := map et_md ts.

(* ---------- correspondence ---------- *)
(* what the harness observes per construction: refused with EventError, or
   accepted with (.defining_class, .name) as numbers and whether .metadata is
   the very object passed in / None as passed *)
Inductive etobs := TRefused | TAccepted (site name : nat) (md_same : bool) | TOther.

Definition etobs_ok (x : etres) (o : etobs) : bool :=
  match x, o with
  | EtErr _, TRefused => true
  | EtOk e, TAccepted s n same => Nat.eqb (et_site e) s && Nat.eqb (et_name e) n && same
  | _, _ => false
  end.

Fixpoint etobs_all (xs : list etres) (os : list etobs) : bool :=
  match xs, os with
  | [], [] => true
  | x :: r, o :: s => etobs_ok x o && etobs_all r s
  | _, _ => false
  end.

(* one case: constructions (on a registry that does not know the case's
   names), their observations, then payload constructions against the created
   types: (index among the created types, timestamp, payload, check, accepted?) *)
Record tcase := mkTCase {
  tc_ctors : list (nat * namev * raw_md);
  tc_obs : list etobs;
  tc_events : list (nat * option tstamp * content * bool * bool)
}.

Definition tcase_ok (c : tcase) : bool :=
  let '(_, xs) := make_types [] (tc_ctors c) in
  etobs_all xs (tc_obs c) &&
  let E := env_of (created xs) in
  forallb (fun '(i, ts, pl, chk, acc) =>
             Nat.ltb i (length E) &&
             let r := match ts with
                      | None => make_event E (Good i) pl chk
                      | Some t => make_timed E t (Good i) pl chk
                      end in
             match r with
             | MkOk e => acc && ots_eqb (ev_time e) ts
             | MkErr k => negb acc && is_event_error k
             end) (tc_events c).

Fixpoint tmismatches_from (i : nat) (cases : list tcase) : list nat :=
  match cases with
  | [] => []
  | c :: r => if tcase_ok c then tmismatches_from (S i) r else i :: tmismatches_from (S i) r
  end.
