(* The heapq transcription of Model.v satisfies the heap-library contract of
   Refine.v: heappush / heappop / heapify preserve the multiset of keys and
   establish (resp. maintain) the array-heap invariant.

   Proof structure (classical array heap):
   - siftdown (move towards the root) is a sequence of "hole moves"; the loop
     invariant [hole_down] says that every parent/child pair below [startpos]
     is ordered except those touching the hole, that the new item is <= the
     children of the hole, and that the parent of the hole is <= the children
     of the hole.
   - siftup first bubbles the smaller child up until a leaf is reached
     (invariant [hole_up]) and then sifts the new item down from that leaf.
   - [heap_from s h] : every node with index >= s is <= its children;
     [siftup h s] turns [heap_from (S s)] into [heap_from s]; [is_heap] is
     [heap_from 0]. *)
From Coq Require Import ZArith List Bool Lia Permutation Arith.
From PV Require Import EventList.Key EventList.KeyProofs EventList.Model EventList.Refine.
Import ListNotations.

Local Notation parent c := (Nat.div2 (c - 1)).

(* ---------- index arithmetic ---------- *)
Lemma parent_spec c : 0 < c -> c = 2 * parent c + 1 \/ c = 2 * parent c + 2.
Proof.
  intros Hc. destruct c as [|n]; [lia|].
  replace (S n - 1) with n by lia.
  destruct (Nat.Even_or_Odd n) as [[m Hm]|[m Hm]]; subst n.
  - left. rewrite Nat.div2_double. lia.
  - right. replace (2 * m + 1) with (S (2 * m)) by lia.
    rewrite Nat.div2_succ_double. lia.
Qed.

Lemma parent_l p : parent (2 * p + 1) = p.
Proof. replace (2 * p + 1 - 1) with (2 * p) by lia. apply Nat.div2_double. Qed.

Lemma parent_r p : parent (2 * p + 2) = p.
Proof.
  replace (2 * p + 2 - 1) with (S (2 * p)) by lia. apply Nat.div2_succ_double.
Qed.

Lemma parent_lt c : 0 < c -> parent c < c.
Proof. intros H. pose proof (parent_spec c H). lia. Qed.

Lemma parent_children c p : 0 < c -> parent c = p -> c = 2 * p + 1 \/ c = 2 * p + 2.
Proof. intros H <-. apply parent_spec; exact H. Qed.

(* descendants of s in the implicit binary tree *)
Inductive desc (s : nat) : nat -> Prop :=
| desc_refl : desc s s
| desc_l p : desc s p -> desc s (2 * p + 1)
| desc_r p : desc s p -> desc s (2 * p + 2).

Lemma desc_le s p : desc s p -> s <= p.
Proof. induction 1; lia. Qed.

Lemma desc_parent s p : desc s p -> s < p -> desc s (parent p).
Proof.
  intros H Hlt. inversion H as [Heq|q Hq Heq|q Hq Heq].
  - lia.
  - rewrite parent_l. exact Hq.
  - rewrite parent_r. exact Hq.
Qed.

Lemma desc_parent_le s p : desc s p -> s < p -> s <= parent p.
Proof. intros H Hlt. apply desc_le, desc_parent; assumption. Qed.

Lemma desc_0 p : desc 0 p.
Proof.
  induction p as [p IH] using lt_wf_ind.
  destruct (Nat.eq_dec p 0) as [->|Hne]; [constructor|].
  assert (Hp : 0 < p) by lia.
  pose proof (parent_lt p Hp) as Hlt.
  destruct (parent_spec p Hp) as [E|E]; rewrite E; constructor; apply IH; exact Hlt.
Qed.

(* ---------- get / upd ---------- *)
Lemma length_upd l i x : length (upd l i x) = length l.
Proof.
  revert i. induction l as [|y r IH]; intros [|j]; cbn; auto.
Qed.

Lemma get_upd_same l i x : i < length l -> get (upd l i x) i = x.
Proof.
  unfold get. revert i. induction l as [|y r IH]; intros [|j] H; cbn in *; try lia; auto.
  apply IH. lia.
Qed.

Lemma get_upd_other l i j x : i <> j -> get (upd l i x) j = get l j.
Proof.
  unfold get. revert i j. induction l as [|y r IH]; intros [|i] [|j] H; cbn; auto; try lia.
Qed.

Lemma upd_get_id l i : upd l i (get l i) = l.
Proof.
  unfold get. revert i. induction l as [|y r IH]; intros [|i]; cbn; auto.
  f_equal. apply IH.
Qed.

Lemma upd_perm l i x : i < length l -> Permutation (get l i :: upd l i x) (x :: l).
Proof.
  unfold get. revert i. induction l as [|y r IH]; intros [|i] H; cbn in *; try lia.
  - apply perm_swap.
  - rewrite perm_swap. rewrite (IH i) by lia. apply perm_swap.
Qed.

(* moving the hole from i to j: both sides are h with {h[j], x} at {i, j} *)
Lemma upd_move_perm l i j x :
  i < length l -> j < length l -> i <> j ->
  Permutation (upd (upd l i (get l j)) j x) (upd l i x).
Proof.
  intros Hi Hj Hne.
  apply Permutation_cons_inv with (a := get l i).
  apply Permutation_cons_inv with (a := get l j).
  transitivity (x :: get l j :: l).
  - rewrite perm_swap.
    transitivity (get l i :: x :: upd l i (get l j)).
    + apply perm_skip.
      rewrite <- (get_upd_other l i j (get l j) Hne) at 1.
      apply upd_perm. rewrite length_upd. exact Hj.
    + rewrite perm_swap. apply perm_skip. apply upd_perm. exact Hi.
  - symmetry. transitivity (get l j :: x :: l).
    + apply perm_skip. apply upd_perm. exact Hi.
    + apply perm_swap.
Qed.

(* ---------- heap predicates ---------- *)
Definition heap_from (s : nat) (h : list key) : Prop :=
  forall c, 0 < c < length h -> s <= parent c -> kle (get h (parent c)) (get h c).

Lemma is_heap_heap_from h : is_heap h <-> heap_from 0 h.
Proof.
  unfold is_heap, heap_from. split; intros H c Hc; [intros _|]; apply H; auto. lia.
Qed.

Lemma heap_from_weaken s s' h : s <= s' -> heap_from s h -> heap_from s' h.
Proof. intros Hle H c Hc Hp. apply H; [exact Hc|lia]. Qed.

(* (A): pairs not touching the hole *)
Definition away_ok (s : nat) (h : list key) (pos : nat) : Prop :=
  forall c, 0 < c < length h -> s <= parent c -> c <> pos -> parent c <> pos ->
            kle (get h (parent c)) (get h c).

(* (C): the parent of the hole is below the children of the hole *)
Definition grand_ok (s : nat) (h : list key) (pos : nat) : Prop :=
  forall c, 0 < c < length h -> parent c = pos -> s < pos ->
            kle (get h (parent pos)) (get h c).

Definition hole_up (s : nat) (h : list key) (pos : nat) : Prop :=
  away_ok s h pos /\ grand_ok s h pos.

Definition hole_down (s : nat) (h : list key) (pos : nat) (x : key) : Prop :=
  away_ok s h pos /\ grand_ok s h pos /\
  (forall c, 0 < c < length h -> parent c = pos -> kle x (get h c)).

(* ---------- siftdown ---------- *)
Lemma length_siftdown_loop fuel : forall h s pos x,
  length (siftdown_loop fuel h s pos x) = length h.
Proof.
  induction fuel as [|f IH]; intros h s pos x; cbn [siftdown_loop].
  - apply length_upd.
  - destruct (Nat.ltb s pos); [|apply length_upd].
    destruct (key_ltb x (get h (parent pos))); [|apply length_upd].
    rewrite IH. apply length_upd.
Qed.

Lemma siftdown_loop_perm fuel : forall h s pos x,
  pos < length h ->
  Permutation (siftdown_loop fuel h s pos x) (upd h pos x).
Proof.
  induction fuel as [|f IH]; intros h s pos x Hpos; cbn [siftdown_loop].
  - reflexivity.
  - destruct (Nat.ltb_spec s pos) as [Hlt|Hge]; [|reflexivity].
    destruct (key_ltb x (get h (parent pos))); [|reflexivity].
    assert (Hp : parent pos < pos) by (apply parent_lt; lia).
    rewrite IH by (rewrite length_upd; lia).
    apply upd_move_perm; lia.
Qed.

Lemma siftdown_loop_heap fuel : forall h s pos x,
  pos < fuel -> pos < length h -> desc s pos -> hole_down s h pos x ->
  heap_from s (siftdown_loop fuel h s pos x).
Proof.
  induction fuel as [|f IH]; intros h s pos x Hfuel Hpos Hdesc [HA [HC HB]];
    [lia|]; cbn [siftdown_loop].
  assert (Hfinal :
    (s < pos -> kle (get h (parent pos)) x) -> heap_from s (upd h pos x)).
  { intros Hpar c Hc Hs. rewrite length_upd in Hc.
    assert (Hcp : parent c < c) by (apply parent_lt; lia).
    destruct (Nat.eq_dec c pos) as [->|Hne].
    - rewrite get_upd_same by exact Hpos.
      rewrite get_upd_other by lia. apply Hpar. lia.
    - rewrite (get_upd_other h pos c x) by auto.
      destruct (Nat.eq_dec (parent c) pos) as [Hpp|Hpp].
      + rewrite Hpp. rewrite get_upd_same by exact Hpos. apply HB; auto.
      + rewrite get_upd_other by auto. apply HA; auto. }
  destruct (Nat.ltb_spec s pos) as [Hlt|Hge]; [|apply Hfinal; lia].
  destruct (key_ltb x (get h (parent pos))) eqn:Ecmp;
    [|apply Hfinal; intros _; unfold kle, key_leb; rewrite Ecmp; reflexivity].
  clear Hfinal.
  assert (H0 : 0 < pos) by lia.
  assert (Hp : parent pos < pos) by (apply parent_lt; exact H0).
  assert (Hdp : desc s (parent pos)) by (apply desc_parent; assumption).
  assert (Hsp : s <= parent pos) by (apply desc_le; exact Hdp).
  set (pp := parent pos) in *.
  set (h' := upd h pos (get h pp)).
  assert (Hlen : length h' = length h) by apply length_upd.
  assert (Hsame : forall j, j <> pos -> get h' j = get h j).
  { intros j Hj. apply get_upd_other; auto. }
  assert (Hhole : get h' pos = get h pp) by (apply get_upd_same; exact Hpos).
  assert (Hxpp : kle x (get h pp)) by (apply key_ltb_leb; exact Ecmp).
  apply IH; [lia|lia|exact Hdp|].
  split; [|split].
  - (* away_ok *)
    intros c Hc Hs Hne1 Hne2. rewrite Hlen in Hc.
    assert (Hcp : parent c < c) by (apply parent_lt; lia).
    destruct (Nat.eq_dec c pos) as [->|Hcpos]; [fold pp in Hne2; lia|].
    rewrite (Hsame c Hcpos).
    destruct (Nat.eq_dec (parent c) pos) as [Hpc|Hpc].
    + rewrite Hpc, Hhole. apply HC; auto.
    + rewrite Hsame by exact Hpc. apply HA; auto.
  - (* grand_ok *)
    intros c Hc Hpc Hspp. rewrite Hlen in Hc.
    assert (Hppp : parent pp < pp) by (apply parent_lt; lia).
    assert (Hs2 : s <= parent pp) by (apply desc_parent_le; assumption).
    rewrite Hsame by lia.
    assert (Hgp : kle (get h (parent pp)) (get h pp)).
    { apply HA; lia. }
    destruct (Nat.eq_dec c pos) as [->|Hcpos].
    + rewrite Hhole. exact Hgp.
    + rewrite Hsame by exact Hcpos.
      eapply key_leb_trans; [exact Hgp|].
      rewrite <- Hpc. apply HA; lia.
  - (* new item below the children of the new hole *)
    intros c Hc Hpc. rewrite Hlen in Hc.
    destruct (Nat.eq_dec c pos) as [->|Hcpos].
    + rewrite Hhole. exact Hxpp.
    + rewrite Hsame by exact Hcpos.
      eapply key_leb_trans; [exact Hxpp|].
      rewrite <- Hpc. apply HA; lia.
Qed.

Lemma length_siftdown h s pos : length (siftdown h s pos) = length h.
Proof. apply length_siftdown_loop. Qed.

Lemma siftdown_perm h s pos : pos < length h -> Permutation (siftdown h s pos) h.
Proof.
  intros Hlt. unfold siftdown.
  rewrite siftdown_loop_perm by exact Hlt. rewrite upd_get_id. reflexivity.
Qed.

(* a leaf hole: nothing to check about its children *)
Lemma hole_down_leaf s h p v x :
  p < length h -> length h <= 2 * p + 1 -> hole_up s h p ->
  hole_down s (upd h p v) p x.
Proof.
  intros Hp Hleaf [HA HC].
  assert (Hnochild : forall c, 0 < c < length h -> parent c = p -> False).
  { intros c Hc Hpc. destruct (parent_children c p) as [E|E]; lia. }
  split; [|split].
  - intros c Hc Hs Hne1 Hne2. rewrite length_upd in Hc.
    rewrite !get_upd_other by auto. apply HA; auto.
  - intros c Hc Hpc _. rewrite length_upd in Hc. exfalso. eapply Hnochild; eauto.
  - intros c Hc Hpc. rewrite length_upd in Hc. exfalso. eapply Hnochild; eauto.
Qed.

(* ---------- siftup ---------- *)
Lemma siftup_loop_spec fuel : forall h endpos s pos h1 p,
  endpos = length h -> endpos <= fuel + pos -> pos < endpos ->
  desc s pos -> hole_up s h pos ->
  siftup_loop fuel h endpos pos = (h1, p) ->
  length h1 = length h /\ p < endpos /\ endpos <= 2 * p + 1 /\
  desc s p /\ hole_up s h1 p.
Proof.
  induction fuel as [|f IH]; intros h endpos s pos h1 p Hend Hfuel Hpos Hdesc Hup;
    cbn [siftup_loop].
  - intros E; inversion E; subst h1 p. repeat split; auto; try lia; apply Hup.
  - destruct (Nat.ltb_spec (2 * pos + 1) endpos) as [Hlt|Hge].
    2:{ intros E; inversion E; subst h1 p. repeat split; auto; try lia; apply Hup. }
    set (cp := 2 * pos + 1) in *.
    set (c := if Nat.ltb (cp + 1) endpos && negb (key_ltb (get h cp) (get h (cp + 1)))
              then cp + 1 else cp).
    destruct Hup as [HA HC].
    (* facts about the chosen child *)
    assert (Hc : (c = cp \/ c = cp + 1) /\ c < endpos /\
                 forall d, d < endpos -> d = cp \/ d = cp + 1 -> kle (get h c) (get h d)).
    { unfold c. destruct (Nat.ltb_spec (cp + 1) endpos) as [Hr|Hr]; cbn [andb].
      - destruct (key_ltb (get h cp) (get h (cp + 1))) eqn:Ecmp; cbn [negb].
        + split; [auto|]. split; [exact Hlt|].
          intros d _ [->| ->]; [apply key_leb_refl|apply key_ltb_leb; exact Ecmp].
        + split; [auto|]. split; [exact Hr|].
          intros d _ [->| ->]; [|apply key_leb_refl].
          unfold kle, key_leb. rewrite Ecmp. reflexivity.
      - split; [auto|]. split; [exact Hlt|].
        intros d Hd [->| ->]; [apply key_leb_refl|lia]. }
    destruct Hc as [Hcc [Hclt Hcmin]].
    clearbody c.
    intros E.
    assert (Hcpos : pos < c) by (unfold cp in Hcc; lia).
    assert (Hspos : s <= pos) by (apply desc_le; exact Hdesc).
    assert (Hpc : parent c = pos).
    { destruct Hcc as [->| ->]; unfold cp.
      - apply parent_l.
      - replace (2 * pos + 1 + 1) with (2 * pos + 2) by lia. apply parent_r. }
    set (h' := upd h pos (get h c)) in *.
    assert (Hlen : length h' = length h) by apply length_upd.
    assert (Hsame : forall j, j <> pos -> get h' j = get h j).
    { intros j Hj. apply get_upd_other; auto. }
    assert (Hhole : get h' pos = get h c) by (apply get_upd_same; lia).
    rewrite <- Hlen.
    apply (IH h' endpos s c h1 p); try lia.
    + destruct Hcc as [->| ->]; unfold cp.
      * apply desc_l; exact Hdesc.
      * replace (2 * pos + 1 + 1) with (2 * pos + 2) by lia. apply desc_r; exact Hdesc.
    + split.
      * (* away_ok *)
        intros d Hd Hs Hne1 Hne2. rewrite Hlen in Hd.
        assert (Hdp : parent d < d) by (apply parent_lt; lia).
        destruct (Nat.eq_dec d pos) as [->|Hdpos].
        -- rewrite Hhole. rewrite Hsame by lia.
           apply HC; [lia|exact Hpc|lia].
        -- rewrite (Hsame d Hdpos).
           destruct (Nat.eq_dec (parent d) pos) as [Hpd|Hpd].
           ++ rewrite Hpd, Hhole. apply Hcmin; [lia|].
              destruct (parent_children d pos) as [Ed|Ed]; [lia|exact Hpd| |];
                unfold cp; lia.
           ++ rewrite Hsame by exact Hpd. apply HA; auto.
      * (* grand_ok *)
        intros d Hd Hpd _. rewrite Hlen in Hd.
        assert (Hdp : parent d < d) by (apply parent_lt; lia).
        rewrite Hpc, Hhole. rewrite Hsame by lia.
        rewrite <- Hpd. apply HA; lia.
    + exact E.
Qed.

Lemma siftup_loop_perm fuel : forall h endpos pos h1 p x,
  endpos = length h -> pos < endpos ->
  siftup_loop fuel h endpos pos = (h1, p) ->
  Permutation (upd h1 p x) (upd h pos x).
Proof.
  induction fuel as [|f IH]; intros h endpos pos h1 p x Hend Hpos; cbn [siftup_loop].
  - intros E; inversion E; subst. reflexivity.
  - destruct (Nat.ltb_spec (2 * pos + 1) endpos) as [Hlt|Hge].
    2:{ intros E; inversion E; subst. reflexivity. }
    set (cp := 2 * pos + 1) in *.
    set (c := if Nat.ltb (cp + 1) endpos && negb (key_ltb (get h cp) (get h (cp + 1)))
              then cp + 1 else cp).
    assert (Hc : pos < c < endpos).
    { unfold c. destruct (Nat.ltb_spec (cp + 1) endpos) as [Hr|Hr]; cbn [andb].
      - destruct (negb _); unfold cp; lia.
      - unfold cp in *; lia. }
    clearbody c. intros E.
    rewrite (IH (upd h pos (get h c)) endpos c h1 p x);
      [|rewrite length_upd; exact Hend|lia|exact E].
    apply upd_move_perm; lia.
Qed.

Lemma siftup_loop_bound fuel : forall h endpos pos h1 p,
  pos < endpos -> siftup_loop fuel h endpos pos = (h1, p) ->
  p < endpos /\ length h1 = length h.
Proof.
  induction fuel as [|f IH]; intros h endpos pos h1 p Hpos; cbn [siftup_loop].
  - intros E; inversion E; subst; auto.
  - destruct (Nat.ltb_spec (2 * pos + 1) endpos) as [Hlt|Hge].
    2:{ intros E; inversion E; subst; auto. }
    intros E. apply IH in E.
    + rewrite length_upd in E. exact E.
    + destruct (Nat.ltb_spec (2 * pos + 1 + 1) endpos) as [Hr|Hr]; cbn [andb];
        [destruct (negb _)|]; lia.
Qed.

Lemma siftup_facts h s :
  s < length h ->
  length (siftup h s) = length h /\
  Permutation (siftup h s) h /\
  (heap_from (S s) h -> heap_from s (siftup h s)).
Proof.
  intros Hs. unfold siftup.
  destruct (siftup_loop (length h) h (length h) s) as [h1 p] eqn:E.
  destruct (siftup_loop_bound _ _ _ _ _ _ Hs E) as [Hp Hlen1].
  split; [|split].
  - rewrite length_siftdown, length_upd. exact Hlen1.
  - rewrite siftdown_perm by (rewrite length_upd; lia).
    rewrite (siftup_loop_perm _ _ _ _ _ _ (get h s) eq_refl Hs E).
    rewrite upd_get_id. reflexivity.
  - intros Hh.
    assert (Hup0 : hole_up s h s).
    { split.
      - intros c Hc Hsc Hne1 Hne2. apply Hh; [exact Hc|lia].
      - intros c _ _ Hlt. lia. }
    destruct (siftup_loop_spec (length h) h (length h) s s h1 p eq_refl) as
      [_ [_ [Hleaf [Hdesc Hup]]]]; [lia|exact Hs|constructor|exact Hup0|exact E|].
    unfold siftdown. apply siftdown_loop_heap.
    + lia.
    + rewrite length_upd. lia.
    + exact Hdesc.
    + apply hole_down_leaf; [lia|lia|exact Hup].
Qed.

(* ---------- heappush ---------- *)
Lemma heappush_perm h k : Permutation (heappush h k) (k :: h).
Proof.
  unfold heappush. rewrite siftdown_perm by (rewrite app_length; cbn; lia).
  rewrite Permutation_app_comm. reflexivity.
Qed.

Lemma heappush_heap h k : is_heap h -> is_heap (heappush h k).
Proof.
  intros Hh. apply is_heap_heap_from. unfold heappush, siftdown.
  assert (Hlen : length (h ++ [k]) = S (length h)) by (rewrite app_length; cbn; lia).
  apply siftdown_loop_heap; [lia|lia|apply desc_0|].
  assert (Hnochild : forall c, 0 < c < length (h ++ [k]) -> parent c = length h -> False).
  { intros c Hc Hpc. pose proof (parent_lt c (proj1 Hc)). lia. }
  split; [|split].
  - intros c Hc _ Hne1 Hne2. rewrite Hlen in Hc.
    assert (Hcp : parent c < c) by (apply parent_lt; lia).
    unfold get. rewrite !app_nth1 by lia. apply Hh. lia.
  - intros c Hc Hpc _. exfalso. eapply Hnochild; eauto.
  - intros c Hc Hpc. exfalso. eapply Hnochild; eauto.
Qed.

(* ---------- heappop ---------- *)
Lemma heappop_nil : heappop [] = None.
Proof. reflexivity. Qed.

Lemma heappop_some h : h <> [] ->
  exists h', heappop h = Some (get h 0, h') /\
             Permutation h (get h 0 :: h') /\ (is_heap h -> is_heap h').
Proof.
  intros Hne. unfold heappop.
  destruct (rev h) as [|lastelt rrest] eqn:Erev.
  { exfalso. apply Hne. rewrite <- (rev_involutive h), Erev. reflexivity. }
  assert (Eh : h = rev rrest ++ [lastelt]).
  { rewrite <- (rev_involutive h), Erev. reflexivity. }
  clear Erev. destruct (rev rrest) as [|ret t]; subst h; cbn [app].
  - exists []. cbn. split; [reflexivity|]. split; [reflexivity|].
    intros _. apply is_heap_nil.
  - cbn [upd]. change (get (ret :: t ++ [lastelt]) 0) with ret.
    exists (siftup (lastelt :: t) 0). split; [reflexivity|].
    destruct (siftup_facts (lastelt :: t) 0) as [_ [Hperm Hheap]]; [cbn; lia|].
    split.
    + rewrite Hperm. apply perm_skip. rewrite Permutation_app_comm. reflexivity.
    + intros Hh. apply is_heap_heap_from. apply Hheap.
      intros c Hc Hpc. cbn [length] in Hc.
      assert (Hcp : parent c < c) by (apply parent_lt; lia).
      specialize (Hh c). cbn [length] in Hh. rewrite app_length in Hh. cbn [length] in Hh.
      specialize (Hh ltac:(lia)).
      unfold get in *.
      destruct c as [|c']; [lia|].
      destruct (parent (S c')) as [|q'] eqn:Eq; [lia|].
      cbn [nth] in *.
      rewrite !app_nth1 in Hh by lia. exact Hh.
Qed.

(* ---------- heapify ---------- *)
Lemma heapify_loop_facts n : forall h,
  n <= length h ->
  length (heapify_loop n h) = length h /\
  Permutation (heapify_loop n h) h /\
  (heap_from n h -> heap_from 0 (heapify_loop n h)).
Proof.
  induction n as [|i IH]; intros h Hn; cbn [heapify_loop].
  - auto.
  - destruct (siftup_facts h i) as [Hlen [Hperm Hheap]]; [lia|].
    destruct (IH (siftup h i)) as [Hlen' [Hperm' Hheap']]; [lia|].
    split; [lia|]. split; [rewrite Hperm'; exact Hperm|].
    intros Hh. apply Hheap', Hheap, Hh.
Qed.

Lemma div2_le n : Nat.div2 n <= n.
Proof. rewrite Nat.div2_div. apply Nat.div_le_upper_bound; lia. Qed.

Lemma heap_from_half h : heap_from (Nat.div2 (length h)) h.
Proof.
  intros c Hc Hp. exfalso.
  pose proof (parent_spec c (proj1 Hc)) as Hs.
  pose proof (Nat.div2_odd (length h)) as Ho.
  destruct (Nat.odd (length h)); cbn [Nat.b2n] in Ho; lia.
Qed.

Lemma heapify_heap h : is_heap (heapify h).
Proof.
  apply is_heap_heap_from. unfold heapify.
  apply (heapify_loop_facts _ h (div2_le _)). apply heap_from_half.
Qed.

Lemma heapify_perm h : Permutation (heapify h) h.
Proof. unfold heapify. apply (heapify_loop_facts _ h (div2_le _)). Qed.

(* ---------- the contract ---------- *)
Theorem heapq_contract : heap_contract heapq.
Proof.
  constructor; cbn [hpush hpop hheapify heapq].
  - intros h k. apply heappush_heap.
  - apply heappush_perm.
  - apply heappop_nil.
  - apply heappop_some.
  - apply heapify_heap.
  - apply heapify_perm.
Qed.

Print Assumptions heapq_contract.
