(* Event list: abstract specification and the heap implementation as written
   in eventlist.py, with CPython's heapq transcribed (Lib/heapq.py; the C
   accelerator _heapqmodule.c implements the same algorithm with the same
   sequence of comparisons and moves).

   This file contains executable definitions only (no proofs), so that the
   correspondence check can run it even when a proof file is broken. *)
From Coq Require Import ZArith List Bool Lia.
From PV Require Import EventList.Key.
Import ListNotations.

(* ---------- operations and observable results ---------- *)
Inductive el_op :=
| OpAdd (k : key) | OpRemove (k : key) | OpPop | OpPeek
| OpContains (k : key) | OpSize | OpIsEmpty | OpClear
| OpStr | OpRepr.                (* str(el), repr(el): observers *)

Inductive el_out :=
| OutNone                       (* add, clear: returns None *)
| OutBool (b : bool)
| OutKey (k : option key)       (* pop / peek: None on empty list *)
| OutNat (n : nat)
| OutStr.                       (* a string; its text (the private array layout) is not modelled *)

(* the operations that only look at the list *)
Definition is_observer (op : el_op) : bool :=
  match op with
  | OpPeek | OpContains _ | OpSize | OpIsEmpty | OpStr | OpRepr => true
  | _ => false
  end.

(* ---------- specification: the sorted multiset of pending keys ---------- *)
Fixpoint insert (k : key) (l : list key) : list key :=
  match l with
  | [] => [k]
  | x :: r => if key_leb k x then k :: l else x :: insert k r
  end.

Fixpoint isort (l : list key) : list key :=
  match l with [] => [] | x :: r => insert x (isort r) end.

Fixpoint remove1 (k : key) (l : list key) : list key :=
  match l with
  | [] => []
  | x :: r => if key_eqb k x then r else x :: remove1 k r
  end.

Fixpoint memk (k : key) (l : list key) : bool :=
  match l with [] => false | x :: r => key_eqb k x || memk k r end.

Definition spec_step (s : list key) (op : el_op) : list key * el_out :=
  match op with
  | OpAdd k => (insert k s, OutNone)
  | OpRemove k => if memk k s then (remove1 k s, OutBool true) else (s, OutBool false)
  | OpPop => match s with [] => ([], OutKey None) | x :: r => (r, OutKey (Some x)) end
  | OpPeek => (s, OutKey (hd_error s))
  | OpContains k => (s, OutBool (memk k s))
  | OpSize => (s, OutNat (length s))
  | OpIsEmpty => (s, OutBool (match s with [] => true | _ => false end))
  | OpClear => ([], OutNone)
  | OpStr | OpRepr => (s, OutStr)
  end.

(* ---------- the heap-array implementation, generic in the heap library ---------- *)
Record heaplib := {
  hpush : list key -> key -> list key;
  hpop : list key -> option (key * list key);   (* None only on [] *)
  hheapify : list key -> list key
}.

Fixpoint countk (k : key) (l : list key) : nat :=
  match l with [] => 0 | x :: r => (if key_eqb k x then 1 else 0) + countk k r end.

Definition impl_contains (h : list key) (k : key) : bool :=
  match h with [] => false | _ => Nat.ltb 0 (countk k h) end.

Definition impl_step (L : heaplib) (h : list key) (op : el_op) : list key * el_out :=
  match op with
  | OpAdd k => (hpush L h k, OutNone)
  | OpRemove k =>
      if impl_contains h k then (hheapify L (remove1 k h), OutBool true)
      else (h, OutBool false)
  | OpPop =>
      match h with
      | [] => ([], OutKey None)
      | _ => match hpop L h with
             | Some (x, h') => (h', OutKey (Some x))
             | None => (h, OutKey None)   (* unreachable: hpop is None only on [] *)
             end
      end
  | OpPeek => (h, OutKey (hd_error h))
  | OpContains k => (h, OutBool (impl_contains h k))
  | OpSize => (h, OutNat (length h))
  | OpIsEmpty => (h, OutBool (Nat.eqb (length h) 0))
  | OpClear => ([], OutNone)
  | OpStr | OpRepr => (h, OutStr)
  end.

(* The pinned tree's remove() (no re-heapify), kept to state the refutation. *)
Definition impl_step_noheapify (L : heaplib) (h : list key) (op : el_op) : list key * el_out :=
  match op with
  | OpRemove k =>
      if impl_contains h k then (remove1 k h, OutBool true) else (h, OutBool false)
  | _ => impl_step L h op
  end.

Fixpoint run_ops {S : Type} (step : S -> el_op -> S * el_out) (s : S) (ops : list el_op)
  : S * list el_out :=
  match ops with
  | [] => (s, [])
  | op :: r => let '(s1, o) := step s op in
               let '(s2, os) := run_ops step s1 r in (s2, o :: os)
  end.

(* ---------- what each method of EventListHeap does: impl_step, operation by operation ----------
   (EventList/GenAgree.v proves the method bodies regenerated from eventlist.py equal to these.) *)
Definition impl_new : list key := [].                       (* EventListHeap() *)
Definition impl_add (L : heaplib) (h : list key) (k : key) := impl_step L h (OpAdd k).
Definition impl_remove (L : heaplib) (h : list key) (k : key) := impl_step L h (OpRemove k).
Definition impl_pop_first (L : heaplib) (h : list key) := impl_step L h OpPop.
Definition impl_peek_first (L : heaplib) (h : list key) := impl_step L h OpPeek.
Definition impl_contains_op (L : heaplib) (h : list key) (k : key) := impl_step L h (OpContains k).
Definition impl_size (L : heaplib) (h : list key) := impl_step L h OpSize.
Definition impl_is_empty (L : heaplib) (h : list key) := impl_step L h OpIsEmpty.
Definition impl_clear (L : heaplib) (h : list key) := impl_step L h OpClear.
Definition impl_str (L : heaplib) (h : list key) := impl_step L h OpStr.
Definition impl_repr (L : heaplib) (h : list key) := impl_step L h OpRepr.

(* ---------- creation of events (simevent.py, SimEvent.__init__) ----------
   The id of an event is its creation stamp: ONE counter, kept on the class SimEvent,
   is incremented by every construction, of SimEvent and of every subclass alike. *)
Definition sev_new (count time prio : Z) : sev * Z := (mkSev time prio (count + 1), (count + 1)%Z).

Fixpoint sev_new_all (count : Z) (specs : list (Z * Z)) : list sev :=
  match specs with
  | [] => []
  | (t, p) :: r => let '(e, c) := sev_new count t p in e :: sev_new_all c r
  end.

(* the event an entry of the list stands for (inverse of sev_key) *)
Definition key_sev (k : key) : sev := mkSev (k_time k) (- k_nprio k) (k_id k).

(* ---------- the six rich comparisons of a pool of events, for the correspondence check ---------- *)
Definition b2z (b : bool) : Z := if b then 1%Z else 0%Z.
Definition cmp_code (a b : sev) : Z :=
  (b2z (sev_lt a b) + 2 * b2z (sev_le a b) + 4 * b2z (sev_gt a b) + 8 * b2z (sev_ge a b)
   + 16 * b2z (sev_eq a b) + 32 * b2z (sev_ne a b))%Z.
(* all ordered pairs (i, j), i-major, packed in base 64, first pair most significant *)
Definition cmp_pack (pool : list sev) : Z :=
  fold_left (fun acc a => fold_left (fun acc2 b => (acc2 * 64 + cmp_code a b)%Z) pool acc) pool 0%Z.

Fixpoint cmp_mismatches_from (i : nat) (cases : list (list sev * Z)) : list nat :=
  match cases with
  | [] => []
  | (pool, packed) :: r =>
      if Z.eqb (cmp_pack pool) packed then cmp_mismatches_from (S i) r
      else i :: cmp_mismatches_from (S i) r
  end.

(* ---------- heapq transcription ---------- *)
Definition dflt : key := mkKey 0 0 0.
Definition get (l : list key) (i : nat) : key := nth i l dflt.
Fixpoint upd (l : list key) (i : nat) (x : key) : list key :=
  match l, i with
  | [], _ => []
  | _ :: r, O => x :: r
  | y :: r, S j => y :: upd r j x
  end.

(* _siftdown(heap, startpos, pos): newitem = heap[pos]; move parents down
   while newitem < parent. *)
Fixpoint siftdown_loop (fuel : nat) (h : list key) (startpos pos : nat) (newitem : key)
  : list key :=
  match fuel with
  | O => upd h pos newitem
  | S f =>
      if Nat.ltb startpos pos then
        let parentpos := Nat.div2 (pos - 1) in
        let parent := get h parentpos in
        if key_ltb newitem parent
        then siftdown_loop f (upd h pos parent) startpos parentpos newitem
        else upd h pos newitem
      else upd h pos newitem
  end.

Definition siftdown (h : list key) (startpos pos : nat) : list key :=
  siftdown_loop (S pos) h startpos pos (get h pos).

(* _siftup(heap, pos): bubble the smaller child up until a leaf is hit, then
   sift the new item down (towards the root) into place. *)
Fixpoint siftup_loop (fuel : nat) (h : list key) (endpos pos : nat) : list key * nat :=
  match fuel with
  | O => (h, pos)
  | S f =>
      let childpos := 2 * pos + 1 in
      if Nat.ltb childpos endpos then
        let rightpos := childpos + 1 in
        let c := if Nat.ltb rightpos endpos && negb (key_ltb (get h childpos) (get h rightpos))
                 then rightpos else childpos in
        siftup_loop f (upd h pos (get h c)) endpos c
      else (h, pos)
  end.

Definition siftup (h : list key) (pos : nat) : list key :=
  let endpos := length h in
  let newitem := get h pos in
  let '(h1, p) := siftup_loop endpos h endpos pos in
  siftdown (upd h1 p newitem) pos p.

Definition heappush (h : list key) (k : key) : list key :=
  siftdown (h ++ [k]) 0 (length h).

Definition heappop (h : list key) : option (key * list key) :=
  match rev h with
  | [] => None
  | lastelt :: rrest =>
      let h' := rev rrest in
      match h' with
      | [] => Some (lastelt, [])
      | ret :: _ => Some (ret, siftup (upd h' 0 lastelt) 0)
      end
  end.

Fixpoint heapify_loop (n : nat) (h : list key) : list key :=
  match n with
  | O => h
  | S i => heapify_loop i (siftup h i)      (* i = n-1 down to 0 *)
  end.

Definition heapify (h : list key) : list key := heapify_loop (Nat.div2 (length h)) h.

Definition heapq : heaplib := {| hpush := heappush; hpop := heappop; hheapify := heapify |}.

(* ---------- decidable equality of outputs, for the correspondence check ---------- *)
Definition okey_eqb (a b : option key) : bool :=
  match a, b with
  | None, None => true
  | Some x, Some y => key_eqb x y
  | _, _ => false
  end.

Definition out_eqb (a b : el_out) : bool :=
  match a, b with
  | OutNone, OutNone => true
  | OutBool x, OutBool y => Bool.eqb x y
  | OutKey x, OutKey y => okey_eqb x y
  | OutNat x, OutNat y => Nat.eqb x y
  | OutStr, OutStr => true
  | _, _ => false
  end.

Fixpoint outs_eqb (a b : list el_out) : bool :=
  match a, b with
  | [], [] => true
  | x :: r, y :: s => out_eqb x y && outs_eqb r s
  | _, _ => false
  end.

Fixpoint keys_eqb (a b : list key) : bool :=
  match a, b with
  | [] , [] => true
  | x :: r, y :: s => key_eqb x y && keys_eqb r s
  | _, _ => false
  end.

(* drain: pop until empty (fuel = length) *)
Fixpoint drain_impl (L : heaplib) (fuel : nat) (h : list key) : list key :=
  match fuel with
  | O => []
  | S f => match h with
           | [] => []
           | _ => match hpop L h with
                  | Some (x, h') => x :: drain_impl L f h'
                  | None => []
                  end
           end
  end.

(* One correspondence case: the ops, the implementation's outputs, and the
   drain of the implementation after the last op.  The model must agree. *)
Definition case_ok (step : list key -> el_op -> list key * el_out) (L : heaplib)
  (ops : list el_op) (outs : list el_out) (final_drain : list key) : bool :=
  let '(h, os) := run_ops step [] ops in
  outs_eqb os outs && keys_eqb (drain_impl L (length h) h) final_drain.

Fixpoint mismatches_from (i : nat)
  (check : list el_op -> list el_out -> list key -> bool)
  (cases : list (list el_op * list el_out * list key)) : list nat :=
  match cases with
  | [] => []
  | (ops, outs, dr) :: r =>
      if check ops outs dr then mismatches_from (S i) check r
      else i :: mismatches_from (S i) check r
  end.
