From Coq Require Import ZArith List Bool Lia.
From PV Require Import EventList.Key.
Import ListNotations.
Local Open Scope Z_scope.

Lemma key_eqb_eq a b : key_eqb a b = true <-> a = b.
Proof.
  destruct a as [t p i], b as [t' p' i']; unfold key_eqb; cbn.
  rewrite !andb_true_iff, !Z.eqb_eq. split.
  - intros [[-> ->] ->]; reflexivity.
  - intros H; inversion H; auto.
Qed.

Lemma key_eqb_refl a : key_eqb a a = true.
Proof. apply key_eqb_eq; reflexivity. Qed.

Lemma key_eq_dec (a b : key) : {a = b} + {a <> b}.
Proof.
  destruct (key_eqb a b) eqn:E.
  - left; apply key_eqb_eq; exact E.
  - right; intros H; apply key_eqb_eq in H; congruence.
Defined.

Ltac key_crush :=
  repeat match goal with
  | k : key |- _ => destruct k
  end;
  unfold key_leb, key_ltb in *; cbn [k_time k_nprio k_id negb] in *;
  repeat match goal with
  | |- context [?x =? ?y] => destruct (Z.eqb_spec x y)
  | H : context [?x =? ?y] |- _ => destruct (Z.eqb_spec x y)
  end; cbn [negb] in *;
  repeat match goal with
  | |- context [?x <? ?y] => destruct (Z.ltb_spec x y)
  | H : context [?x <? ?y] |- _ => destruct (Z.ltb_spec x y)
  end; cbn [negb] in *; subst; try congruence; try lia.

Lemma key_ltb_irrefl a : key_ltb a a = false.
Proof. key_crush. Qed.

Lemma key_ltb_trans a b c :
  key_ltb a b = true -> key_ltb b c = true -> key_ltb a c = true.
Proof. key_crush. Qed.

Lemma key_ltb_asym a b : key_ltb a b = true -> key_ltb b a = false.
Proof. key_crush. Qed.

Lemma key_trichotomy a b :
  key_ltb a b = true \/ a = b \/ key_ltb b a = true.
Proof.
  destruct a as [t p i], b as [t' p' i']; unfold key_ltb; cbn.
  destruct (Z.eqb_spec t t'); cbn.
  - destruct (Z.eqb_spec p p'); cbn.
    + destruct (Z.ltb_spec i i'); [left; reflexivity|].
      destruct (Z.ltb_spec i' i); [right; right|right; left].
      * subst. rewrite !Z.eqb_refl. reflexivity.
      * f_equal; lia.
    + destruct (Z.ltb_spec p p'); [left; reflexivity|right; right].
      subst. rewrite Z.eqb_refl. cbn.
      destruct (Z.eqb_spec p' p); [lia|]. cbn. apply Z.ltb_lt. lia.
  - destruct (Z.ltb_spec t t'); [left; reflexivity|right; right].
    destruct (Z.eqb_spec t' t); [lia|]. cbn. apply Z.ltb_lt. lia.
Qed.

Lemma key_leb_refl a : key_leb a a = true.
Proof. unfold key_leb. rewrite key_ltb_irrefl. reflexivity. Qed.

Lemma key_leb_trans a b c :
  key_leb a b = true -> key_leb b c = true -> key_leb a c = true.
Proof. key_crush. Qed.

Lemma key_leb_antisym a b :
  key_leb a b = true -> key_leb b a = true -> a = b.
Proof.
  unfold key_leb. intros H1 H2.
  destruct (key_trichotomy a b) as [H|[H|H]]; auto;
    rewrite H in *; discriminate.
Qed.

Lemma key_leb_total a b : key_leb a b = true \/ key_leb b a = true.
Proof.
  unfold key_leb.
  destruct (key_trichotomy a b) as [H|[H|H]].
  - left. rewrite (key_ltb_asym _ _ H). reflexivity.
  - subst. left. rewrite key_ltb_irrefl. reflexivity.
  - right. rewrite (key_ltb_asym _ _ H). reflexivity.
Qed.

Lemma key_ltb_leb a b : key_ltb a b = true -> key_leb a b = true.
Proof. intros H. unfold key_leb. rewrite (key_ltb_asym _ _ H). reflexivity. Qed.

Lemma key_leb_ltb_or_eq a b : key_leb a b = true -> key_ltb a b = true \/ a = b.
Proof.
  unfold key_leb. intros H.
  destruct (key_trichotomy a b) as [H1|[H1|H1]]; auto.
  rewrite H1 in H. discriminate.
Qed.

(* ---- SimEvent.__cmp__ agrees with the tuple order of the event list ---- *)

Ltac zb_simpl :=
  repeat match goal with
  | |- context [?x >? ?y] => rewrite (Z.gtb_ltb x y)
  | |- context [?x >=? ?y] => rewrite (Z.geb_leb x y)
  | |- context [?x <? ?y] =>
      first [rewrite (proj2 (Z.ltb_lt x y)) by lia | rewrite (proj2 (Z.ltb_ge x y)) by lia]
  | |- context [?x <=? ?y] =>
      first [rewrite (proj2 (Z.leb_le x y)) by lia | rewrite (proj2 (Z.leb_gt x y)) by lia]
  | |- context [?x =? ?y] =>
      first [rewrite (proj2 (Z.eqb_eq x y)) by lia | rewrite (proj2 (Z.eqb_neq x y)) by lia]
  end.

Ltac cmp_crush :=
  unfold sev_lt, sev_le, sev_gt, sev_ge, sev_eq, sev_ne, cmp, sev_key, key_leb in *; unfold key_ltb, key_eqb in *;
  cbn [k_time k_nprio k_id e_time e_prio e_id] in *;
  match goal with
  | |- context [mkSev ?t ?p ?i] => idtac
  | _ => idtac
  end.

Ltac cmp_cases t t' p p' i i' :=
  destruct (Z.compare_spec t t'); destruct (Z.compare_spec p p');
  destruct (Z.compare_spec i i');
  zb_simpl; cbn [negb andb]; zb_simpl; cbn [negb andb]; try reflexivity; try lia.

Lemma cmp_range a b : cmp a b = -1 \/ cmp a b = 0 \/ cmp a b = 1.
Proof.
  unfold cmp.
  repeat match goal with
  | |- context [if ?c then _ else _] => destruct c
  end; auto.
Qed.

Lemma sev_lt_key a b : sev_lt a b = key_ltb (sev_key a) (sev_key b).
Proof. destruct a as [t p i], b as [t' p' i']. cmp_crush. cmp_cases t t' p p' i i'. Qed.

Lemma sev_gt_key a b : sev_gt a b = key_ltb (sev_key b) (sev_key a).
Proof. destruct a as [t p i], b as [t' p' i']. cmp_crush. cmp_cases t t' p p' i i'. Qed.

Lemma sev_eq_key a b : sev_eq a b = key_eqb (sev_key a) (sev_key b).
Proof. destruct a as [t p i], b as [t' p' i']. cmp_crush. cmp_cases t t' p p' i i'. Qed.

Lemma sev_le_key a b : sev_le a b = key_leb (sev_key a) (sev_key b).
Proof. destruct a as [t p i], b as [t' p' i']. cmp_crush. cmp_cases t t' p p' i i'. Qed.

Lemma sev_ge_key a b : sev_ge a b = key_leb (sev_key b) (sev_key a).
Proof. destruct a as [t p i], b as [t' p' i']. cmp_crush. cmp_cases t t' p p' i i'. Qed.

Lemma sev_ne_key a b : sev_ne a b = negb (key_eqb (sev_key a) (sev_key b)).
Proof. unfold sev_ne. fold (sev_eq a b). rewrite sev_eq_key. reflexivity. Qed.

Lemma sev_key_inj a b : sev_key a = sev_key b -> a = b.
Proof.
  destruct a, b. unfold sev_key. cbn. intros H. inversion H. f_equal; lia.
Qed.

Lemma cmp_antisym a b : cmp b a = - cmp a b.
Proof. destruct a as [t p i], b as [t' p' i']. cmp_crush. cmp_cases t t' p p' i i'. Qed.

(* Strict total order of the SimEvent comparison operators. *)
Theorem sev_strict_total_order :
  (forall a, sev_lt a a = false) /\
  (forall a b c, sev_lt a b = true -> sev_lt b c = true -> sev_lt a c = true) /\
  (forall a b, sev_lt a b = true \/ a = b \/ sev_lt b a = true) /\
  (forall a b, sev_eq a b = true <-> a = b) /\
  (forall a b, sev_gt a b = sev_lt b a) /\
  (forall a b, sev_le a b = negb (sev_lt b a)) /\
  (forall a b, sev_ge a b = negb (sev_lt a b)) /\
  (forall a b, sev_ne a b = negb (sev_eq a b)).
Proof.
  repeat split.
  - intros a. rewrite sev_lt_key. apply key_ltb_irrefl.
  - intros a b c. rewrite !sev_lt_key. apply key_ltb_trans.
  - intros a b. rewrite !sev_lt_key.
    destruct (key_trichotomy (sev_key a) (sev_key b)) as [H|[H|H]]; auto.
    right; left. apply sev_key_inj; exact H.
  - rewrite sev_eq_key. intros H. apply key_eqb_eq in H. apply sev_key_inj; exact H.
  - intros ->. rewrite sev_eq_key. apply key_eqb_refl.
  - intros a b. rewrite sev_gt_key, sev_lt_key. reflexivity.
  - intros a b. rewrite sev_le_key, sev_lt_key. reflexivity.
  - intros a b. rewrite sev_ge_key, sev_lt_key. reflexivity.
Qed.
