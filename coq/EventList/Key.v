(* Event keys and the SimEvent comparison (simevent.py:164-202, eventlist.py:122).

   An event is identified, for ordering purposes, by (time, priority, id).
   The event list stores the tuple (time, -priority, id, event); Python
   compares tuples lexicographically.  Times are numbers (int, float,
   Duration); the harness only feeds dyadic values so that every time is an
   integer multiple of 2^-10 and is represented here exactly by a Z.
   NaN times are outside C01 (the property speaks of a strict total order,
   which NaN does not have); they are treated in the simulator model. *)
From Coq Require Import ZArith List Bool Lia.
Import ListNotations.
Local Open Scope Z_scope.

Record key := mkKey { k_time : Z; k_nprio : Z; k_id : Z }.

(* Python tuple comparison: first index where the elements differ by ==,
   then < on that element. *)
Definition key_ltb (a b : key) : bool :=
  if negb (k_time a =? k_time b) then k_time a <? k_time b
  else if negb (k_nprio a =? k_nprio b) then k_nprio a <? k_nprio b
  else k_id a <? k_id b.

Definition key_eqb (a b : key) : bool :=
  (k_time a =? k_time b) && (k_nprio a =? k_nprio b) && (k_id a =? k_id b).

Definition key_leb (a b : key) : bool := negb (key_ltb b a).

(* ---- SimEvent: fields and __cmp__ as written ---- *)
Record sev := mkSev { e_time : Z; e_prio : Z; e_id : Z }.

Definition sev_key (e : sev) : key := mkKey (e_time e) (- e_prio e) (e_id e).

Definition cmp (a b : sev) : Z :=
  if e_time a <? e_time b then -1
  else if e_time a >? e_time b then 1
  else if e_prio a <? e_prio b then 1
  else if e_prio a >? e_prio b then -1
  else if e_id a <? e_id b then -1
  else if e_id a >? e_id b then 1
  else 0.

Definition sev_eq a b := cmp a b =? 0.
Definition sev_ne a b := negb (cmp a b =? 0).
Definition sev_lt a b := cmp a b <? 0.
Definition sev_le a b := cmp a b <=? 0.
Definition sev_gt a b := cmp a b >? 0.
Definition sev_ge a b := cmp a b >=? 0.
