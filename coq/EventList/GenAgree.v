(* C01 -- the model regenerated from the source IS the proved model.

   EventList/Gen_EventList.v is written by translator/py2gallina_eventlist.py from the text of
   src/pydsol/core/simevent.py and eventlist.py of the tree under test (Python's `ast`,
   fail-closed): the properties time / priority / id of SimEvent, its six rich comparisons and
   the helper __cmp__, the class-level id counter and the id assignment of __init__, and the
   nine methods of EventListHeap.  This file proves, for every translated method, that the
   generated definition equals the hand-written model: the comparison functions sev_* and cmp
   of EventList/Key.v, the creation stamp sev_new and the per-operation functions impl_* of
   impl_step in EventList/Model.v -- for ALL events, lists and heap libraries.  Two methods
   need a fact about the heap library (both follow from heap_contract and hold for the heapq
   transcription): __init__ heapifies the empty list ([hheapify L [] = []]), and pop_first
   relies on heappop answering on a non-empty list.

   Every theorem of Props/C01.v is about the hand-written functions, hence -- by rewriting
   with the equalities below -- about the current source text.  The file is compiled against
   the generated file on every run of the check; when a change of the sources makes an
   equality false it no longer compiles and the check reports the broken tie. *)
From Coq Require Import ZArith List Bool Lia Permutation.
From PV Require Import EventList.Key EventList.KeyProofs EventList.Model EventList.Refine EventList.HeapqProofs.
From PV Require Import EventList.Gen_EventList.
Import ListNotations.

(* ====================================================================== *)
(* SimEvent: the ordering attributes                                       *)
(* ====================================================================== *)
Theorem gen_SimEvent_time_eq : forall e, gen_SimEvent_time e = e_time e.
Proof. reflexivity. Qed.
Theorem gen_SimEvent_priority_eq : forall e, gen_SimEvent_priority e = e_prio e.
Proof. reflexivity. Qed.
Theorem gen_SimEvent_id_eq : forall e, gen_SimEvent_id e = e_id e.
Proof. reflexivity. Qed.

(* ====================================================================== *)
(* SimEvent: comparisons                                                   *)
(* ====================================================================== *)
(* case analysis on every comparison of two atoms, arithmetic closes each case *)
Ltac no_match t := lazymatch t with context [match _ with _ => _ end] => fail | _ => idtac end.
Ltac zcase_step :=
  match goal with
  | |- context [Z.ltb ?a ?b] => no_match a; no_match b; destruct (Z.ltb_spec a b)
  | |- context [Z.leb ?a ?b] => no_match a; no_match b; destruct (Z.leb_spec a b)
  | |- context [Z.eqb ?a ?b] => no_match a; no_match b; destruct (Z.eqb_spec a b)
  end.
Ltac zcases := repeat (zcase_step; cbv beta iota); try reflexivity; try (exfalso; lia).
Ltac ev_cmp :=
  intros [t1 p1 i1] [t2 p2 i2];
  cbv - [Z.ltb Z.leb Z.eqb Z.gtb Z.geb Z.opp Z.add Z.sub Z.mul];
  rewrite ?Z.gtb_ltb, ?Z.geb_leb; zcases.

Theorem gen_SimEvent_cmp_eq : forall a b, gen_SimEvent___cmp__ a b = cmp a b.
Proof. ev_cmp. Qed.

Theorem gen_SimEvent_lt_eq : forall a b, gen_SimEvent___lt__ a b = sev_lt a b.
Proof. ev_cmp. Qed.
Theorem gen_SimEvent_le_eq : forall a b, gen_SimEvent___le__ a b = sev_le a b.
Proof. ev_cmp. Qed.
Theorem gen_SimEvent_gt_eq : forall a b, gen_SimEvent___gt__ a b = sev_gt a b.
Proof. ev_cmp. Qed.
Theorem gen_SimEvent_ge_eq : forall a b, gen_SimEvent___ge__ a b = sev_ge a b.
Proof. ev_cmp. Qed.
Theorem gen_SimEvent_eq_eq : forall a b, gen_SimEvent___eq__ a b = sev_eq a b.
Proof. ev_cmp. Qed.
Theorem gen_SimEvent_ne_eq : forall a b, gen_SimEvent___ne__ a b = sev_ne a b.
Proof. ev_cmp. Qed.

(* the order theorems of Props/C01.v, for the generated comparison methods *)
Theorem gen_event_comparisons_strict_total_order :
  (forall a, gen_SimEvent___lt__ a a = false) /\
  (forall a b c, gen_SimEvent___lt__ a b = true -> gen_SimEvent___lt__ b c = true -> gen_SimEvent___lt__ a c = true) /\
  (forall a b, gen_SimEvent___lt__ a b = true \/ a = b \/ gen_SimEvent___lt__ b a = true) /\
  (forall a b, gen_SimEvent___eq__ a b = true <-> a = b) /\
  (forall a b, gen_SimEvent___gt__ a b = gen_SimEvent___lt__ b a) /\
  (forall a b, gen_SimEvent___le__ a b = negb (gen_SimEvent___lt__ b a)) /\
  (forall a b, gen_SimEvent___ge__ a b = negb (gen_SimEvent___lt__ a b)) /\
  (forall a b, gen_SimEvent___ne__ a b = negb (gen_SimEvent___eq__ a b)).
Proof.
  destruct sev_strict_total_order as [A [B [C [D [E [F [G H]]]]]]].
  repeat split; intros;
    rewrite ?gen_SimEvent_lt_eq, ?gen_SimEvent_le_eq, ?gen_SimEvent_gt_eq, ?gen_SimEvent_ge_eq,
            ?gen_SimEvent_eq_eq, ?gen_SimEvent_ne_eq in *; auto.
  - eapply B; eauto.
  - apply D; assumption.
  - apply D; assumption.
Qed.

Theorem gen_event_lt_agrees_with_list_order :
  forall a b, gen_SimEvent___lt__ a b = key_ltb (sev_key a) (sev_key b).
Proof. intros a b. rewrite gen_SimEvent_lt_eq. apply sev_lt_key. Qed.

(* ====================================================================== *)
(* SimEvent: creation -- the id is the stamp of ONE counter                *)
(* ====================================================================== *)
Theorem gen_SimEvent_init_eq : forall cv cls t p,
  gen_SimEvent___init__ cv cls t p =
  (fst (sev_new (cv_base cv) t p), mkCV (snd (sev_new (cv_base cv) t p)) (cv_sub cv)).
Proof. intros [b s] cls t p. reflexivity. Qed.

(* a sequence of constructions, each of SimEvent or of any subclass *)
Fixpoint gen_create_all (cv : cvars) (specs : list (pycls * (Z * Z))) : list sev :=
  match specs with
  | [] => []
  | (c, (t, p)) :: r => let '(e, cv') := gen_SimEvent___init__ cv c t p in e :: gen_create_all cv' r
  end.

Theorem gen_create_all_eq : forall specs cv,
  gen_create_all cv specs = sev_new_all (cv_base cv) (map snd specs).
Proof.
  induction specs as [| [c [t p]] r IH]; intros cv; [reflexivity |].
  cbn [gen_create_all map snd sev_new_all]. rewrite gen_SimEvent_init_eq.
  cbn [sev_new fst snd]. rewrite IH. reflexivity.
Qed.

Lemma sev_new_all_nth : forall specs c i d, (i < length specs)%nat ->
  e_id (nth i (sev_new_all c specs) d) = (c + 1 + Z.of_nat i)%Z.
Proof.
  induction specs as [| [t p] r IH]; intros c i d Hi; [inversion Hi |].
  cbn [sev_new_all sev_new]. destruct i as [| i].
  - cbn [nth e_id]. lia.
  - cbn [nth]. rewrite IH by (cbn [length] in Hi; lia). lia.
Qed.

(* whatever the classes of the events: the ids are the creation stamps, so creation order is id order *)
Theorem gen_created_ids_are_creation_stamps : forall specs cv i d, (i < length specs)%nat ->
  e_id (nth i (gen_create_all cv specs) d) = (cv_base cv + 1 + Z.of_nat i)%Z.
Proof.
  intros specs cv i d Hi. rewrite gen_create_all_eq.
  apply sev_new_all_nth. rewrite map_length. exact Hi.
Qed.

(* ====================================================================== *)
(* EventListHeap                                                           *)
(* ====================================================================== *)
(* a method result as the model's (new list, observable) pair; a raise has no counterpart *)
Definition lower {A : Type} (f : A -> el_out) (r : mres A) : option (list key * el_out) :=
  match r with MOk h v => Some (h, f v) | MRaise _ _ => None end.
Definition out_none (_ : unit) : el_out := OutNone.
Definition out_str (_ : pystr) : el_out := OutStr.

(* what the two methods that lean on the library need from it *)
Definition lib_sane (L : heaplib) : Prop :=
  (forall h, hpop L h = None -> h = []) /\ hheapify L [] = [].

Lemma contract_sane : forall L, heap_contract L -> lib_sane L.
Proof.
  intros L HC. split.
  - intros h E. destruct h as [| x r]; [reflexivity |].
    destruct (hc_pop_some L HC (x :: r)) as [h' [P _]]; [discriminate |]. rewrite P in E. discriminate.
  - apply Permutation_nil. symmetry. apply (hc_heapify_perm L HC).
Qed.

Lemma heapq_sane : lib_sane heapq.
Proof. exact (contract_sane heapq heapq_contract). Qed.

Lemma sev_key_key_sev : forall k, sev_key (key_sev k) = k.
Proof. intros [t n i]. unfold sev_key, key_sev. cbn [e_time e_prio e_id k_time k_nprio k_id]. rewrite Z.opp_involutive. reflexivity. Qed.

(* --- the proofs below do not depend on the SHAPE of the generated bodies (nested if / guard clause,
   conditional expression, negated test, a test on the length or on the list itself, count or `in`,
   helpers translated at the call site): every definition is unfolded, the ways of asking "is there an
   equal entry" are brought to [memk], the list is split into empty / non-empty and every remaining
   test is decided by case analysis. *)
Lemma count_pos_memk : forall k l, Nat.ltb 0 (countk k l) = memk k l.
Proof. exact countk_memk. Qed.
Lemma count_ge1_memk : forall k l, Nat.leb 1 (countk k l) = memk k l.
Proof. intros k l. rewrite <- countk_memk. destruct (countk k l); reflexivity. Qed.
Lemma count_eq0_memk : forall k l, Nat.eqb (countk k l) 0 = negb (memk k l).
Proof. intros k l. rewrite <- countk_memk. destruct (countk k l); reflexivity. Qed.
Lemma count_0eq_memk : forall k l, Nat.eqb 0 (countk k l) = negb (memk k l).
Proof. intros k l. rewrite <- countk_memk. destruct (countk k l); reflexivity. Qed.
Lemma memk_nil : forall k, memk k [] = false.
Proof. reflexivity. Qed.

Ltac brk_match :=
  match goal with
  | |- context [match ?x with _ => _ end] =>
    lazymatch x with context [match _ with _ => _ end] => fail | _ => destruct x eqn:? end
  end.
Ltac unf_all :=
  cbv beta iota zeta delta
    [gen_EventListHeap___init__ gen_EventListHeap_size gen_EventListHeap_is_empty gen_EventListHeap_add
     gen_EventListHeap_contains gen_EventListHeap_peek_first gen_EventListHeap_pop_first
     gen_EventListHeap_remove gen_EventListHeap_clear gen_EventListHeap___str__ gen_EventListHeap___repr__
     gen_SimEvent_time gen_SimEvent_priority gen_SimEvent_id sev_key
     impl_new impl_add impl_remove impl_pop_first impl_peek_first impl_contains_op impl_size impl_is_empty
     impl_clear impl_str impl_repr impl_step impl_contains mbind lower out_none out_str negb andb orb].
(* a non-empty list from which the library pops nothing: excluded by the hypothesis on hpop *)
Ltac pop_contra :=
  match goal with
  | Hs : forall h, hpop ?L h = None -> h = [], E : hpop ?L (_ :: _) = None |- _ =>
    exfalso; specialize (Hs _ E); discriminate Hs
  end.
Ltac el_solve :=
  unf_all;
  rewrite ?count_pos_memk, ?count_ge1_memk, ?count_eq0_memk, ?count_0eq_memk;
  try match goal with h : list key |- _ => destruct h as [| ? ?] end;
  cbn [length Nat.eqb Nat.ltb Nat.leb];
  rewrite ?memk_nil;
  cbv beta iota delta [negb andb orb];
  repeat (brk_match; cbv beta iota delta [negb andb orb]);
  try reflexivity; try congruence; try pop_contra.

Theorem gen_EventListHeap_init_eq : forall L, hheapify L [] = [] ->
  lower out_none (gen_EventListHeap___init__ L) = Some (impl_new, OutNone).
Proof. intros L H. unf_all. rewrite ?H. el_solve. Qed.

Theorem gen_EventListHeap_size_eq : forall L h,
  lower OutNat (gen_EventListHeap_size L h) = Some (impl_size L h).
Proof. intros L h. el_solve. Qed.

Theorem gen_EventListHeap_is_empty_eq : forall L h,
  lower OutBool (gen_EventListHeap_is_empty L h) = Some (impl_is_empty L h).
Proof. intros L h. el_solve. Qed.

Theorem gen_EventListHeap_add_eq : forall L h e,
  lower out_none (gen_EventListHeap_add L h e) = Some (impl_add L h (sev_key e)).
Proof. intros L h e. unf_all. reflexivity. Qed.

Theorem gen_EventListHeap_contains_eq : forall L h e,
  lower OutBool (gen_EventListHeap_contains L h e) = Some (impl_contains_op L h (sev_key e)).
Proof. intros L h e. el_solve. Qed.

Theorem gen_EventListHeap_peek_first_eq : forall L h,
  lower OutKey (gen_EventListHeap_peek_first L h) = Some (impl_peek_first L h).
Proof. intros L h. el_solve. Qed.

Theorem gen_EventListHeap_pop_first_eq : forall L, (forall h, hpop L h = None -> h = []) ->
  forall h, lower OutKey (gen_EventListHeap_pop_first L h) = Some (impl_pop_first L h).
Proof. intros L Hs h. el_solve. Qed.

Theorem gen_EventListHeap_remove_eq : forall L h e,
  lower OutBool (gen_EventListHeap_remove L h e) = Some (impl_remove L h (sev_key e)).
Proof. intros L h e. el_solve. Qed.

Theorem gen_EventListHeap_clear_eq : forall L h,
  lower out_none (gen_EventListHeap_clear L h) = Some (impl_clear L h).
Proof. intros L h. el_solve. Qed.

(* str(el), repr(el): the translator has checked that the bodies only build a string from the list *)
Theorem gen_EventListHeap_str_eq : forall L h,
  lower out_str (gen_EventListHeap___str__ L h) = Some (impl_str L h).
Proof. intros L h. el_solve. Qed.

Theorem gen_EventListHeap_repr_eq : forall L h,
  lower out_str (gen_EventListHeap___repr__ L h) = Some (impl_repr L h).
Proof. intros L h. el_solve. Qed.

(* ---------------------------------------------------------------------- *)
(* one operation, a whole history                                          *)
(* ---------------------------------------------------------------------- *)
Definition gen_step (L : heaplib) (h : list key) (op : el_op) : option (list key * el_out) :=
  match op with
  | OpAdd k => lower out_none (gen_EventListHeap_add L h (key_sev k))
  | OpRemove k => lower OutBool (gen_EventListHeap_remove L h (key_sev k))
  | OpPop => lower OutKey (gen_EventListHeap_pop_first L h)
  | OpPeek => lower OutKey (gen_EventListHeap_peek_first L h)
  | OpContains k => lower OutBool (gen_EventListHeap_contains L h (key_sev k))
  | OpSize => lower OutNat (gen_EventListHeap_size L h)
  | OpIsEmpty => lower OutBool (gen_EventListHeap_is_empty L h)
  | OpClear => lower out_none (gen_EventListHeap_clear L h)
  | OpStr => lower out_str (gen_EventListHeap___str__ L h)
  | OpRepr => lower out_str (gen_EventListHeap___repr__ L h)
  end.

Theorem gen_step_eq : forall L, lib_sane L -> forall h op, gen_step L h op = Some (impl_step L h op).
Proof.
  intros L [Hp Hh] h op. destruct op as [k | k | | | k | | | | |]; cbn [gen_step].
  - rewrite gen_EventListHeap_add_eq, sev_key_key_sev. reflexivity.
  - rewrite gen_EventListHeap_remove_eq, sev_key_key_sev. reflexivity.
  - rewrite (gen_EventListHeap_pop_first_eq L Hp). reflexivity.
  - rewrite gen_EventListHeap_peek_first_eq. reflexivity.
  - rewrite gen_EventListHeap_contains_eq, sev_key_key_sev. reflexivity.
  - rewrite gen_EventListHeap_size_eq. reflexivity.
  - rewrite gen_EventListHeap_is_empty_eq. reflexivity.
  - rewrite gen_EventListHeap_clear_eq. reflexivity.
  - rewrite gen_EventListHeap_str_eq. reflexivity.
  - rewrite gen_EventListHeap_repr_eq. reflexivity.
Qed.

Fixpoint gen_run (L : heaplib) (h : list key) (ops : list el_op) : option (list key * list el_out) :=
  match ops with
  | [] => Some (h, [])
  | op :: r =>
      match gen_step L h op with
      | None => None
      | Some (h1, o) =>
          match gen_run L h1 r with None => None | Some (h2, os) => Some (h2, o :: os) end
      end
  end.

Theorem gen_run_eq : forall L, lib_sane L -> forall ops h,
  gen_run L h ops = Some (run_ops (impl_step L) h ops).
Proof.
  intros L S ops. induction ops as [| op r IH]; intros h; [reflexivity |].
  cbn [gen_run run_ops]. rewrite (gen_step_eq L S).
  destruct (impl_step L h op) as [h1 o]. rewrite IH.
  destruct (run_ops (impl_step L) h1 r) as [h2 os]. reflexivity.
Qed.

(* a history on a freshly constructed list: EventListHeap() and then the operations *)
Definition gen_new_run (L : heaplib) (ops : list el_op) : option (list key * list el_out) :=
  match gen_EventListHeap___init__ L with MOk h _ => gen_run L h ops | MRaise _ _ => None end.

Theorem gen_new_run_eq : forall L, lib_sane L -> forall ops,
  gen_new_run L ops = Some (run_ops (impl_step L) [] ops).
Proof.
  intros L S ops. pose proof (gen_EventListHeap_init_eq L (proj2 S)) as I.
  unfold gen_new_run. destruct (gen_EventListHeap___init__ L) as [h v | e h]; [| discriminate I].
  cbn [lower] in I. assert (h = []) as -> by (inversion I; reflexivity). apply (gen_run_eq L S).
Qed.

(* ====================================================================== *)
(* the refinement theorem of Props/C01.v, for the generated methods         *)
(* ====================================================================== *)
Theorem gen_event_list_refines_sorted_multiset : forall L, heap_contract L -> forall ops,
  match gen_new_run L ops with
  | Some (h', os) =>
      let '(s', os') := run_ops spec_step [] ops in is_heap h' /\ isort h' = s' /\ os = os'
  | None => False
  end.
Proof.
  intros L HC ops. rewrite (gen_new_run_eq L (contract_sane L HC)).
  exact (refine_from_empty L HC ops).
Qed.

Theorem gen_heapq_event_list_refines_sorted_multiset : forall ops,
  match gen_new_run heapq ops with
  | Some (h', os) =>
      let '(s', os') := run_ops spec_step [] ops in is_heap h' /\ isort h' = s' /\ os = os'
  | None => False
  end.
Proof. exact (gen_event_list_refines_sorted_multiset heapq heapq_contract). Qed.

(* observers leave the list as it is -- for the generated methods *)
Theorem gen_observers_leave_list_unchanged : forall L, lib_sane L -> forall h op,
  is_observer op = true ->
  match gen_step L h op with Some (h', _) => h' = h | None => False end.
Proof.
  intros L S h op O. rewrite (gen_step_eq L S).
  pose proof (impl_observer_unchanged L h op O) as E. destruct (impl_step L h op) as [h' o]. exact E.
Qed.

(* ====================================================================== *)
(* summary quoted by Props/C01.v                                            *)
(* ====================================================================== *)
Theorem event_list_generated_agree :
  (forall a b, gen_SimEvent___lt__ a b = sev_lt a b /\ gen_SimEvent___le__ a b = sev_le a b /\
               gen_SimEvent___gt__ a b = sev_gt a b /\ gen_SimEvent___ge__ a b = sev_ge a b /\
               gen_SimEvent___eq__ a b = sev_eq a b /\ gen_SimEvent___ne__ a b = sev_ne a b) /\
  (forall e, gen_SimEvent_time e = e_time e /\ gen_SimEvent_priority e = e_prio e /\ gen_SimEvent_id e = e_id e) /\
  (forall cv cls t p, gen_SimEvent___init__ cv cls t p =
                      (fst (sev_new (cv_base cv) t p), mkCV (snd (sev_new (cv_base cv) t p)) (cv_sub cv))) /\
  (forall L, hheapify L [] = [] -> lower out_none (gen_EventListHeap___init__ L) = Some (impl_new, OutNone)) /\
  (forall L h e, lower out_none (gen_EventListHeap_add L h e) = Some (impl_add L h (sev_key e)) /\
                 lower OutBool (gen_EventListHeap_remove L h e) = Some (impl_remove L h (sev_key e)) /\
                 lower OutBool (gen_EventListHeap_contains L h e) = Some (impl_contains_op L h (sev_key e))) /\
  (forall L h, lower OutKey (gen_EventListHeap_peek_first L h) = Some (impl_peek_first L h) /\
               lower OutNat (gen_EventListHeap_size L h) = Some (impl_size L h) /\
               lower OutBool (gen_EventListHeap_is_empty L h) = Some (impl_is_empty L h) /\
               lower out_none (gen_EventListHeap_clear L h) = Some (impl_clear L h) /\
               lower out_str (gen_EventListHeap___str__ L h) = Some (impl_str L h) /\
               lower out_str (gen_EventListHeap___repr__ L h) = Some (impl_repr L h)) /\
  (forall L, (forall h, hpop L h = None -> h = []) ->
             forall h, lower OutKey (gen_EventListHeap_pop_first L h) = Some (impl_pop_first L h)) /\
  (forall L, lib_sane L -> forall h op, gen_step L h op = Some (impl_step L h op)) /\
  (forall L, lib_sane L -> forall ops, gen_new_run L ops = Some (run_ops (impl_step L) [] ops)) /\
  lib_sane heapq.
Proof.
  split; [intros a b; repeat split;
          [apply gen_SimEvent_lt_eq | apply gen_SimEvent_le_eq | apply gen_SimEvent_gt_eq |
           apply gen_SimEvent_ge_eq | apply gen_SimEvent_eq_eq | apply gen_SimEvent_ne_eq] |].
  split; [intros e; repeat split |].
  split; [exact gen_SimEvent_init_eq |].
  split; [exact gen_EventListHeap_init_eq |].
  split; [intros L h e; split; [apply gen_EventListHeap_add_eq | split;
          [apply gen_EventListHeap_remove_eq | apply gen_EventListHeap_contains_eq]] |].
  split; [intros L h; split; [apply gen_EventListHeap_peek_first_eq | split;
          [apply gen_EventListHeap_size_eq | split;
           [apply gen_EventListHeap_is_empty_eq | split; [apply gen_EventListHeap_clear_eq | split;
            [apply gen_EventListHeap_str_eq | apply gen_EventListHeap_repr_eq]]]]] |].
  split; [exact gen_EventListHeap_pop_first_eq |].
  split; [exact gen_step_eq |].
  split; [exact gen_new_run_eq | exact heapq_sane].
Qed.
